import CookModel.Lemmas.DiagEmptyValue
/-
  C07, `empty-value` continued (prefix `c07f_`): the quantity-level result with the unit separator and the
  value's end (needed for the labels of `cookware-unit` and `timer-missing-unit`), quantities WITHOUT `%`
  (`{=}`, `{= }`), and the cookware and timer tails on such quantities.
-/
set_option linter.unusedSectionVars false
set_option linter.unusedSimpArgs false
set_option linter.unusedVariables false
namespace Cook

variable {α : Type} [Arith α]

/-! ### `blanks (=)? value % unit` again, now also returning the separator and the end of the value
    (the proofs are those of `c07e_parseRegularQuantity_empty` / `c07e_parseQuantity_empty`) -/

/-- the regular quantity reader on `blanks (=)? value % unit` with a blank, non-numeric value -/
theorem c07f_parseRegularQuantity_empty {s0 s : BP α} (pre lk vt ut : List Tok) (pct : Tok)
    (h : At (pre ++ (lk ++ (vt ++ pct :: ut))) 0 s0 s)
    (hpre : ∀ t ∈ pre, isWsComment t.kind = true)
    (hlk : lk = [] ∨ ∃ e, lk = [e] ∧ e.kind = .eq)
    (hhead : lk = [] → ∀ t0, vt.head? = some t0 → isWsComment t0.kind = false ∧ t0.kind ≠ .eq)
    (hvp : ∀ t ∈ vt, t.kind ≠ .percent) (hp : pct.kind = .percent)
    (hnone : numOrRange (α := α) (s0.ext.has Gen.EXT_RANGE_VALUES) vt = none)
    (hemp : (buildText ((vt.head?.map (·.start)).getD
      (offAt (pre ++ (lk ++ (vt ++ pct :: ut))) (pre.length + lk.length + vt.length))) vt).isTextEmpty s0.cs = true) :
    Sat (parseRegularQuantity (α := α)) s (fun r s' =>
      Pushed (emptyValueEv (buildText ((vt.head?.map (·.start)).getD
          (offAt (pre ++ (lk ++ (vt ++ pct :: ut))) (pre.length + lk.length + vt.length))) vt) ::
        emptyUnitEvs pct ut s0.cs) s0 s' ∧
      r.quantity.val.unit = (if (buildText pct.stop ut).isTextEmpty s0.cs then none
        else some (buildText pct.stop ut)) ∧
      r.quantity.val.value.lock = lockSpan lk ∧ r.unitSep = some ⟨pct.start, pct.stop⟩ ∧
      r.quantity.val.value.value.span.stop =
        offAt (pre ++ (lk ++ (vt ++ pct :: ut))) (pre.length + lk.length + vt.length)) := by
  generalize hqt : pre ++ (lk ++ (vt ++ pct :: ut)) = qt at h hemp ⊢
  have hpk : pct.kind ≠ .eq := by rw [hp]; decide
  have hpw : isWsComment pct.kind = false := by rw [hp]; rfl
  unfold parseRegularQuantity qvalue
  refine Sat.bind (Sat.bind (Sat.mono (c07e_scalingLock_at pre lk (vt ++ pct :: ut) hqt.symm h hpre hlk ?_) ?_))
  · intro hl b hb
    cases vt with
    | nil => simp at hb; subst hb; exact ⟨hpw, hpk⟩
    | cons t0 vr => simp at hb; subst hb; exact hhead hl _ rfl
  rintro _ s2 ⟨rfl, h2⟩
  -- the value tokens
  have hd : qt.drop (pre.length + lk.length) = vt ++ pct :: ut := by
    rw [← hqt, ← List.append_assoc, List.drop_left' (by simp)]
  refine Sat.bind (Sat.mono (consumeWhile_at (fun k => k != .percent) h2 vt (pct :: ut) hd
    (by intro t ht; simpa using hvp t ht) (by intro b hb; simp at hb; subst hb; simp [hp])) ?_)
  rintro r3 s3 ⟨hr3, h3⟩
  subst r3
  refine Sat.bind (Sat.mono (c07e_parseValue_empty_at h3 vt hnone hemp) ?_)
  rintro v s4 ⟨ht4, hc4, p4, hvs⟩
  refine Sat.pure ?_
  -- the unit
  have hqt' : qt = (pre ++ lk ++ vt) ++ pct :: ut := by rw [← hqt]; simp
  have hlen : pre.length + lk.length + vt.length = (pre ++ lk ++ vt).length := by simp [Nat.add_assoc]
  apply Sat.bind
  apply Sat.mono (Q := fun (u : Option (Span × Text)) s' => Same s4 s' ∧
    u = some (⟨pct.start, pct.stop⟩, buildText pct.stop ut))
  · refine Sat.bind (Sat.peekK ?_)
    have ht : s4.toks[s4.cur]? = some pct := by
      rw [ht4, hc4, hqt', hlen]; exact getElem?_mid _ _ _
    have hpk' : (s4.toks[s4.cur]?).map (·.kind) = some TK.percent := by rw [ht]; simp [hp]
    rw [hpk']
    dsimp only
    have hb : (bumpAny : P α Tok) s4 = (pct, { s4 with cur := s4.cur + 1 }) := by
      unfold bumpAny
      simp only [bind, StateT.bind, nextToken_run, ht]
      rfl
    refine Sat.bind (Sat.of_eq hb ?_)
    have hut : s4.toks.drop (s4.cur + 1) = ut := by
      rw [ht4, hc4, hqt', hlen, List.drop_append]
      simp
    have hcr : (consumeRest : P α (List Tok)) ({ s4 with cur := s4.cur + 1 } : BP α) =
        (ut, { s4 with cur := s4.cur + 1 + ut.length }) := by
      have e : (consumeRest : P α (List Tok)) ({ s4 with cur := s4.cur + 1 } : BP α) =
        (s4.toks.drop (s4.cur + 1), { s4 with cur := s4.cur + 1 + (s4.toks.drop (s4.cur + 1)).length }) := rfl
      rw [e, hut]
    refine Sat.bind (Sat.of_eq hcr ?_)
    have h5 : At qt (s4.cur + 1 + ut.length) s4 ({ s4 with cur := s4.cur + 1 + ut.length } : BP α) :=
      ⟨ht4, rfl, Same.refl _⟩
    refine Sat.bind (Sat.mono (bpText_at pct.stop ut h5) ?_)
    rintro _ s6 ⟨rfl, h6⟩
    exact Sat.pure ⟨h6.2.2, rfl⟩
  · rintro unit s7 ⟨q7, rfl⟩
    refine Sat.bind (Sat.get ?_)
    dsimp only
    rw [q7.1, p4.1]
    cases hunit : (buildText pct.stop ut).isTextEmpty s0.cs
    · simp only [Bool.false_eq_true, if_false]
      refine Sat.bind (Sat.get ?_)
      refine Sat.bind (Sat.mono ((FQ.tokensSpanP _ _).sat s7) ?_)
      rintro sp s8 q8
      refine Sat.pure ⟨((p4.trans (q7.trans q8).pushed)).cast ?_, rfl, rfl, rfl, by rw [hvs]⟩
      simp [emptyUnitEvs, hunit]
    · simp only [if_true]
      refine Sat.bind (Sat.pwarnE ?_)
      refine Sat.bind (Sat.get ?_)
      refine Sat.bind (Sat.mono ((FQ.tokensSpanP _ _).sat _) ?_)
      rintro sp s8 q8
      refine Sat.pure ⟨(((p4.trans q7.pushed).trans (Pushed.one _ _)).trans q8.pushed).cast ?_, rfl, rfl, rfl, by rw [hvs]⟩
      simp [emptyUnitEvs, hunit]

/-- `parse_quantity` on `blanks (=)? value % unit` with a blank, non-numeric value: exactly
    `empty-value` (and `empty-unit` for a blank unit), under every extension set -/
theorem c07f_parseQuantity_empty (pre lk vt ut : List Tok) (pct : Tok) (s : BP α)
    (hpre : ∀ t ∈ pre, isWsComment t.kind = true)
    (hlk : lk = [] ∨ ∃ e, lk = [e] ∧ e.kind = .eq)
    (hhead : lk = [] → ∀ t0, vt.head? = some t0 → isWsComment t0.kind = false ∧ t0.kind ≠ .eq)
    (hvp : ∀ t ∈ vt, t.kind ≠ .percent) (hp : pct.kind = .percent)
    (hnone : numOrRange (α := α) (s.ext.has Gen.EXT_RANGE_VALUES) vt = none)
    (hemp : (buildText ((vt.head?.map (·.start)).getD
      (offAt (pre ++ (lk ++ (vt ++ pct :: ut))) (pre.length + lk.length + vt.length))) vt).isTextEmpty s.cs = true) :
    Sat (parseQuantity (α := α) (pre ++ (lk ++ (vt ++ pct :: ut)))) s (fun r s' =>
      Pushed (emptyValueEv (buildText ((vt.head?.map (·.start)).getD
          (offAt (pre ++ (lk ++ (vt ++ pct :: ut))) (pre.length + lk.length + vt.length))) vt) ::
        emptyUnitEvs pct ut s.cs) s s' ∧
      r.quantity.val.unit = (if (buildText pct.stop ut).isTextEmpty s.cs then none
        else some (buildText pct.stop ut)) ∧
      r.quantity.val.value.lock = lockSpan lk ∧ r.unitSep = some ⟨pct.start, pct.stop⟩ ∧
      r.quantity.val.value.value.span.stop =
        offAt (pre ++ (lk ++ (vt ++ pct :: ut))) (pre.length + lk.length + vt.length)) := by
  unfold parseQuantity
  have hne : (pre ++ (lk ++ (vt ++ pct :: ut))).isEmpty = false := by
    cases pre <;> cases lk <;> cases vt <;> rfl
  simp only [hne, Bool.false_eq_true, if_false]
  refine Sat.bind (Sat.get ?_)
  refine Sat.bind (Sat.set ?_)
  have hat : At (pre ++ (lk ++ (vt ++ pct :: ut))) 0 s
      ({ s with toks := pre ++ (lk ++ (vt ++ pct :: ut)), cur := 0 } : BP α) := by
    unfold At Same; exact ⟨rfl, rfl, rfl, rfl, rfl⟩
  apply Sat.bind
  apply Sat.mono (Q := fun (r : Option (ParsedQuantity α)) s' => r = none ∧
    At (pre ++ (lk ++ (vt ++ pct :: ut))) 0 s s')
  · refine Sat.bind (Sat.hasExt ?_)
    split
    · apply withRecover_sat
      unfold parseAdvancedQuantity
      refine Sat.bind (Sat.allToks ?_)
      have hany : (pre ++ (lk ++ (vt ++ pct :: ut))).any (fun t => t.kind == .percent) = true := by
        simp [hp]
      simp only [hany, if_true]
      exact Sat.pure ⟨trivial, hat⟩
    · exact Sat.pure ⟨rfl, hat⟩
  · rintro adv s1 ⟨rfl, h1⟩
    dsimp only
    refine Sat.bind (Sat.mono (c07f_parseRegularQuantity_empty pre lk vt ut pct h1 hpre hlk hhead hvp hp hnone hemp) ?_)
    rintro r s2 ⟨q2, hu⟩
    refine Sat.bind (Sat.modify ?_)
    exact Sat.pure ⟨q2, hu⟩


/-! ### quantities without `%`: `blanks (=)? value` with a blank, non-numeric value (`{=}`, `{= }`) -/

/-- the regular quantity reader: exactly `empty-value`, no unit, no separator -/
theorem c07f_parseRegularQuantity_nopct {s0 s : BP α} (pre lk vt : List Tok)
    (h : At (pre ++ (lk ++ vt)) 0 s0 s)
    (hpre : ∀ t ∈ pre, isWsComment t.kind = true)
    (hlk : lk = [] ∨ ∃ e, lk = [e] ∧ e.kind = .eq)
    (hhead : lk = [] → ∀ t0, vt.head? = some t0 → isWsComment t0.kind = false ∧ t0.kind ≠ .eq)
    (hvp : ∀ t ∈ vt, t.kind ≠ .percent)
    (hnone : numOrRange (α := α) (s0.ext.has Gen.EXT_RANGE_VALUES) vt = none)
    (hemp : (buildText ((vt.head?.map (·.start)).getD
      (offAt (pre ++ (lk ++ vt)) (pre.length + lk.length + vt.length))) vt).isTextEmpty s0.cs = true) :
    Sat (parseRegularQuantity (α := α)) s (fun r s' =>
      Pushed [emptyValueEv (buildText ((vt.head?.map (·.start)).getD
          (offAt (pre ++ (lk ++ vt)) (pre.length + lk.length + vt.length))) vt)] s0 s' ∧
      r.quantity.val.unit = none ∧ r.quantity.val.value.lock = lockSpan lk ∧ r.unitSep = none ∧
      r.quantity.val.value.value.span.stop = offAt (pre ++ (lk ++ vt)) (pre.length + lk.length + vt.length)) := by
  generalize hqt : pre ++ (lk ++ vt) = qt at h hemp ⊢
  unfold parseRegularQuantity qvalue
  refine Sat.bind (Sat.bind (Sat.mono (c07e_scalingLock_at pre lk vt hqt.symm h hpre hlk hhead) ?_))
  rintro _ s2 ⟨rfl, h2⟩
  have hd : qt.drop (pre.length + lk.length) = vt ++ [] := by
    rw [← hqt, ← List.append_assoc, List.drop_left' (by simp), List.append_nil]
  refine Sat.bind (Sat.mono (consumeWhile_at (fun k => k != .percent) h2 vt [] hd
    (by intro t ht; simpa using hvp t ht) (by intro b hb; simp at hb)) ?_)
  rintro r3 s3 ⟨hr3, h3⟩
  subst r3
  refine Sat.bind (Sat.mono (c07e_parseValue_empty_at h3 vt hnone hemp) ?_)
  rintro v s4 ⟨ht4, hc4, p4, hvs⟩
  refine Sat.pure ?_
  have hend : s4.toks[s4.cur]? = none := by
    rw [ht4, hc4, ← hqt]
    exact List.getElem?_eq_none (by simp [Nat.add_assoc])
  apply Sat.bind
  apply Sat.mono (Q := fun (u : Option (Span × Text)) s' => s' = s4 ∧ u = none)
  · refine Sat.bind (Sat.peekK ?_)
    rw [hend]
    exact Sat.pure ⟨rfl, rfl⟩
  · rintro unit s7 ⟨rfl, rfl⟩
    refine Sat.bind (Sat.get ?_)
    dsimp only
    refine Sat.bind (Sat.get ?_)
    refine Sat.bind (Sat.mono ((FQ.tokensSpanP _ _).sat _) ?_)
    rintro sp s8 q8
    exact Sat.pure ⟨(p4.trans q8.pushed).cast (by simp), rfl, rfl, rfl, by rw [hvs]⟩

/-- `parse_quantity` on `blanks (=)? value` without `%`, blank non-numeric value: exactly `empty-value`.
    Under ADVANCED_UNITS the advanced reader must decline first; this is shown when the value tokens are
    blanks/comments (`{=}`, `{= }`, `{ = /* */ }`); without ADVANCED_UNITS any blank-text value tokens do. -/
theorem c07f_parseQuantity_nopct (pre lk vt : List Tok) (s : BP α)
    (hne : pre ++ (lk ++ vt) ≠ [])
    (hpre : ∀ t ∈ pre, isWsComment t.kind = true)
    (hlk : lk = [] ∨ ∃ e, lk = [e] ∧ e.kind = .eq)
    (hhead : lk = [] → ∀ t0, vt.head? = some t0 → isWsComment t0.kind = false ∧ t0.kind ≠ .eq)
    (hvp : ∀ t ∈ vt, t.kind ≠ .percent)
    (hadv : s.ext.has Gen.EXT_ADVANCED_UNITS = false ∨ ∀ t ∈ vt, isWsComment t.kind = true)
    (hnone : numOrRange (α := α) (s.ext.has Gen.EXT_RANGE_VALUES) vt = none)
    (hemp : (buildText ((vt.head?.map (·.start)).getD
      (offAt (pre ++ (lk ++ vt)) (pre.length + lk.length + vt.length))) vt).isTextEmpty s.cs = true) :
    Sat (parseQuantity (α := α) (pre ++ (lk ++ vt))) s (fun r s' =>
      Pushed [emptyValueEv (buildText ((vt.head?.map (·.start)).getD
          (offAt (pre ++ (lk ++ vt)) (pre.length + lk.length + vt.length))) vt)] s s' ∧
      r.quantity.val.unit = none ∧ r.quantity.val.value.lock = lockSpan lk ∧ r.unitSep = none ∧
      r.quantity.val.value.value.span.stop = offAt (pre ++ (lk ++ vt)) (pre.length + lk.length + vt.length)) := by
  unfold parseQuantity
  have hne' : (pre ++ (lk ++ vt)).isEmpty = false := by
    cases h : pre ++ (lk ++ vt) with
    | nil => exact absurd h hne
    | cons a l => rfl
  simp only [hne', Bool.false_eq_true, if_false]
  refine Sat.bind (Sat.get ?_)
  refine Sat.bind (Sat.set ?_)
  have hat : At (pre ++ (lk ++ vt)) 0 s ({ s with toks := pre ++ (lk ++ vt), cur := 0 } : BP α) := by
    unfold At Same; exact ⟨rfl, rfl, rfl, rfl, rfl⟩
  apply Sat.bind
  apply Sat.mono (Q := fun (r : Option (ParsedQuantity α)) s' => r = none ∧ At (pre ++ (lk ++ vt)) 0 s s')
  · refine Sat.bind (Sat.hasExt ?_)
    split
    · rename_i hext
      have hblank : ∀ t ∈ vt, isWsComment t.kind = true := by
        rcases hadv with h | h
        · rw [show ({ s with toks := pre ++ (lk ++ vt), cur := 0 } : BP α).ext = s.ext from rfl, h] at hext
          cases hext
        · exact h
      apply withRecover_sat
      unfold parseAdvancedQuantity
      refine Sat.bind (Sat.allToks ?_)
      have hany : (pre ++ (lk ++ vt)).any (fun t => t.kind == .percent) = false := by
        rw [List.any_eq_false]
        intro t ht
        simp only [List.mem_append] at ht
        rcases ht with ht | ht | ht
        · have := hpre t ht; cases hk : t.kind <;> simp_all [isWsComment]
        · rcases hlk with rfl | ⟨e, rfl, he⟩
          · cases ht
          · simp only [List.mem_singleton] at ht; subst ht; simp [he]
        · simpa using hvp t ht
      simp only [hany, Bool.false_eq_true, if_false]
      refine Sat.bind (Sat.mono (c07e_scalingLock_at pre lk vt rfl hat hpre hlk hhead) ?_)
      rintro _ s2 ⟨rfl, h2⟩
      have hd : (pre ++ (lk ++ vt)).drop (pre.length + lk.length) = vt ++ [] := by
        rw [← List.append_assoc, List.drop_left' (by simp), List.append_nil]
      unfold wsComments
      refine Sat.bind (Sat.mono (consumeWhile_at isWsComment h2 vt [] hd hblank (by intro b hb; simp at hb)) ?_)
      rintro _ s3 ⟨-, h3⟩
      have hd' : (pre ++ (lk ++ vt)).drop (pre.length + lk.length + vt.length) = [] ++ [] := by
        rw [List.drop_eq_nil_of_le (by simp [Nat.add_assoc])]; rfl
      refine Sat.bind (Sat.mono (consumeWhile_at (fun k => k != .word) h3 [] [] hd'
        (by intro t ht; cases ht) (by intro b hb; simp at hb)) ?_)
      rintro _ s4 ⟨rfl, h4⟩
      simp only [List.reverse_nil, List.find?_nil]
      exact Sat.pure ⟨trivial, h4.1, rfl, h4.2.2⟩
    · exact Sat.pure ⟨rfl, hat⟩
  · rintro adv s1 ⟨rfl, h1⟩
    dsimp only
    refine Sat.bind (Sat.mono (c07f_parseRegularQuantity_nopct pre lk vt h1 hpre hlk hhead hvp hnone hemp) ?_)
    rintro r s2 ⟨q2, hu⟩
    refine Sat.bind (Sat.modify ?_)
    exact Sat.pure ⟨q2, hu⟩

/-! ### the cookware and timer tails on ANY quantity reading -/

/-- the `cookware-unit` error of a parsed quantity (none without a unit) -/
def c07f_cwUnitEvs (q : ParsedQuantity α) : List (Ev α) :=
  match q.quantity.val.unit with
  | some unit => [.error ⟨.error, .parse, "cookware-unit", [cookwareUnitSpan q unit]⟩]
  | none => []

/-- the `timer-missing-unit` error of a parsed quantity (none with a unit) -/
def c07f_missingUnitEvs (q : ParsedQuantity α) : List (Ev α) :=
  if q.quantity.val.unit.isNone then
    [.error ⟨.error, .parse, "timer-missing-unit", [Span.pos q.quantity.val.value.value.span.stop]⟩]
  else []

/-- a cookware item with quantity tokens `qt`, no modifiers, no alias separator, a non-blank name: the tail
    pushes exactly what `parse_quantity qt` pushes, then `cookware-unit` iff the quantity has a unit -/
theorem c07f_cookwareTail_q (start stop modPos nameOffset : Nat) (body : Body) (note : Option Text) (s : BP α)
    (qt : List Tok) (hq : body.quantity = some qt)
    (ha : s.ext.has Gen.EXT_COMPONENT_ALIAS = false ∨ ∀ t ∈ body.name, t.kind ≠ .or)
    (hn : (buildText nameOffset body.name).isTextEmpty s.cs = false)
    (l : List (Ev α)) (R : ParsedQuantity α → Prop)
    (hQ : ∀ sq, Same s sq → Sat (parseQuantity (α := α) qt) sq (fun r s' => Pushed l sq s' ∧ R r)) :
    Sat (cookwareTail (α := α) start stop modPos nameOffset [] body note) s (fun r s' =>
      ∃ q, R q ∧ Pushed (l ++ c07f_cwUnitEvs q) s s' ∧
        r = some (.cookware ⟨⟨⟨Modifiers.empty, Span.pos modPos⟩, buildText nameOffset body.name, none,
          some ⟨q.quantity.val.value, q.quantity.span⟩, note⟩, ⟨start, stop⟩⟩)) := by
  unfold cookwareTail
  refine Sat.bind (Sat.mono (parseAlias_quiet "cookware" body.name nameOffset s ha) ?_)
  rintro ⟨name, alias⟩ s5 ⟨q5, heq⟩
  cases heq
  dsimp only
  refine Sat.bind ?_
  unfold checkEmptyName
  refine Sat.bind (Sat.get ?_)
  rw [q5.1, hn]
  simp only [Bool.false_eq_true, if_false]
  refine Sat.pure ?_
  refine Sat.bind ?_
  unfold cookwareQty
  rw [hq]
  dsimp only
  refine Sat.bind (Sat.mono (hQ s5 q5) ?_)
  rintro q s6 ⟨p6, hr⟩
  have h0 : Modifiers.empty.contains Modifiers.RECIPE = false := by decide
  cases hu : q.quantity.val.unit with
  | none =>
    dsimp only
    refine Sat.bind (Sat.pure ?_)
    refine Sat.pure ?_
    refine Sat.bind ?_
    unfold parseModifiers
    simp only [List.isEmpty_nil, if_true]
    refine Sat.pure ?_
    simp only [h0, Bool.false_eq_true, if_false]
    refine Sat.bind (Sat.pure ?_)
    refine Sat.bind (Sat.pure ?_)
    refine Sat.pure ⟨q, hr, ?_, rfl⟩
    exact (q5.pushed.trans p6).cast (by simp [c07f_cwUnitEvs, hu])
  | some unit =>
    dsimp only
    refine Sat.bind (Sat.perrE ?_)
    refine Sat.pure ?_
    refine Sat.bind ?_
    unfold parseModifiers
    simp only [List.isEmpty_nil, if_true]
    refine Sat.pure ?_
    simp only [h0, Bool.false_eq_true, if_false]
    refine Sat.bind (Sat.pure ?_)
    refine Sat.bind (Sat.pure ?_)
    refine Sat.pure ⟨q, hr, ?_, rfl⟩
    refine ((q5.pushed.trans p6).trans (Pushed.one _ _)).cast ?_
    simp only [List.nil_append, c07f_cwUnitEvs, hu, cookwareUnitSpan]

/-- a timer with quantity tokens `qt`, no modifiers, no alias separator, followed by anything: the tail pushes
    the note warning (if a note follows), what `parse_quantity qt` pushes, then `timer-missing-unit` iff the
    quantity has no unit -/
theorem c07f_timerTail_q (start stop nameOffset : Nat) (body : Body) (s : BP α)
    (qt : List Tok) (hq : body.quantity = some qt)
    (ha : s.ext.has Gen.EXT_COMPONENT_ALIAS = false ∨ ∀ t ∈ body.name, t.kind ≠ .or)
    (l : List (Ev α)) (R : ParsedQuantity α → Prop)
    (hQ : ∀ sq, sq.cs = s.cs → sq.ext = s.ext → Sat (parseQuantity (α := α) qt) sq (fun r s' => Pushed l sq s' ∧ R r)) :
    Sat (timerTail (α := α) start stop nameOffset [] body) s (fun r s' =>
      ∃ q, R q ∧ Pushed (timerNoteEvs s ++ (l ++ c07f_missingUnitEvs q)) s s' ∧
        r = some (.timer ⟨⟨if (buildText nameOffset body.name).isTextEmpty s.cs then none
          else some (buildText nameOffset body.name), some q.quantity⟩, ⟨start, stop⟩⟩)) := by
  have hsep : (if s.ext.has Gen.EXT_COMPONENT_ALIAS = true then body.name.findIdx? (fun t => t.kind == .or) else none)
      = none := by
    rcases ha with h | h
    · simp [h]
    · split
      · rw [List.findIdx?_eq_none_iff]
        intro t ht; simpa using h t ht
      · rfl
  have hrest : Sat (α := α) (do
      checkNoteTimer
      let name ← bpText nameOffset body.name
      let l ← get
      let quantity ← timerQty body
      timerFinish start stop nameOffset body name l.cs quantity) s (fun r s' =>
      ∃ q, R q ∧ Pushed (timerNoteEvs s ++ (l ++ c07f_missingUnitEvs q)) s s' ∧
        r = some (.timer ⟨⟨if (buildText nameOffset body.name).isTextEmpty s.cs then none
          else some (buildText nameOffset body.name), some q.quantity⟩, ⟨start, stop⟩⟩)) := by
    refine Sat.bind (Sat.of_eq (checkNoteTimer_exact s) ?_)
    have p2 := pushAll_pushed (timerNoteEvs s) s
    generalize pushAll (timerNoteEvs s) s = s2 at p2 ⊢
    refine Sat.bind (Sat.mono (bpText_spec nameOffset body.name s2) ?_)
    rintro name s3 ⟨rfl, q3⟩
    refine Sat.bind (Sat.get ?_)
    refine Sat.bind ?_
    unfold timerQty
    rw [hq]
    dsimp only
    refine Sat.bind (Sat.mono (hQ s3 (q3.1.trans p2.1) (q3.2.1.trans p2.2.1)) ?_)
    rintro q s4 ⟨p4, hr⟩
    cases hu : q.quantity.val.unit.isNone with
    | false =>
      simp only [Bool.false_eq_true, if_false]
      refine Sat.bind (Sat.pure ?_)
      refine Sat.pure ?_
      refine Sat.mono (timerFinish_some start stop nameOffset body _ s3.cs q.quantity s4) ?_
      rintro r s5 ⟨rfl, hr'⟩
      refine ⟨q, hr, ((p2.trans q3.pushed).trans p4).cast (by simp [c07f_missingUnitEvs, hu]), ?_⟩
      rw [hr', q3.1, p2.1]
    | true =>
      simp only [if_true]
      refine Sat.bind (Sat.perrE ?_)
      refine Sat.pure ?_
      refine Sat.mono (timerFinish_some start stop nameOffset body _ s3.cs q.quantity _) ?_
      rintro r s5 ⟨rfl, hr'⟩
      refine ⟨q, hr, (((p2.trans q3.pushed).trans p4).trans (Pushed.one _ _)).cast
        (by simp [c07f_missingUnitEvs, hu]), ?_⟩
      rw [hr', q3.1, p2.1]
  unfold timerTail
  simp only [List.isEmpty_nil, Bool.not_true, Bool.false_eq_true, if_false]
  refine Sat.bind (Sat.hasExt ?_)
  split
  · rename_i he
    rw [if_pos he] at hsep
    split
    · rename_i i hi
      rw [hi] at hsep; cases hsep
    · exact hrest
  · exact hrest

theorem c07f_cwUnitEvs_of (q : ParsedQuantity α) (pct : Tok) (U : Text) (b : Bool)
    (hu : q.quantity.val.unit = if b then none else some U) (hs : q.unitSep = some ⟨pct.start, pct.stop⟩) :
    c07f_cwUnitEvs q =
      if b then [] else [.error ⟨.error, .parse, "cookware-unit", [⟨pct.start, U.span.stop⟩]⟩] := by
  unfold c07f_cwUnitEvs
  cases b
  · simp only [Bool.false_eq_true, if_false] at hu ⊢
    rw [hu]; simp only [cookwareUnitSpan, hs]
  · simp only [if_true] at hu ⊢
    rw [hu]

theorem c07f_missingUnitEvs_of (q : ParsedQuantity α) (U : Text) (b : Bool) (stop : Nat)
    (hu : q.quantity.val.unit = if b then none else some U) (hs : q.quantity.val.value.value.span.stop = stop) :
    c07f_missingUnitEvs q =
      if b then [.error ⟨.error, .parse, "timer-missing-unit", [Span.pos stop]⟩] else [] := by
  unfold c07f_missingUnitEvs
  cases b
  · simp only [Bool.false_eq_true, if_false] at hu ⊢
    rw [hu]; rfl
  · simp only [if_true] at hu ⊢
    rw [hu, hs]; rfl

end Cook
