import CookModel.Lemmas.LooseQty
import CookModel.Lemmas.ValueFiller
/-
  C17, wave 7 (tag `w7p`): `parse_value` (src/parser/quantity.rs) under filler inserted behind a blank
  of the value tokens — for ARBITRARY value tokens, not only those of the round-trip grammar.
  Numbers and ranges: `w7v_numOrRange_filler`; text values: `textValue` stores `text_trimmed()` and
  tests `is_text_empty()`, both unchanged (`bl17_loose_after_blank`).
-/
set_option linter.unusedSectionVars false
set_option linter.unusedSimpArgs false
set_option linter.unusedVariables false
namespace Cook

variable {α : Type} [Arith α]

theorem w7p_filler_pad {t : Tok} (h : A17Filler t) : w7vPad t = true := by
  rcases h with (h | h) | ⟨h, -⟩ <;> simp [w7vPad, isWsComment, h]

/-- the start offset `parse_value` hands to `text` -/
def w7pStart (tokens : List Tok) (cur : Nat) : Nat := (tokens.head?.map (·.start)).getD cur

theorem w7p_textValue_val (toks' toks : List Tok) (off' off : Nat) (s' s : BP α) (hcs : s'.cs = s.cs)
    (hr' : RunAt off' toks') (hr : RunAt off toks)
    (hl : TextLoose s.cs (buildText off' toks') (buildText off toks)) :
    (textValue (α := α) toks' off' s').1 = (textValue (α := α) toks off s).1 ∧
    (textValue (α := α) toks' off' s').2.evs.size - s'.evs.size = (textValue (α := α) toks off s).2.evs.size - s.evs.size := by
  unfold textValue
  simp only [bind, StateT.bind, bpText_run hr', bpText_run hr, get, getThe, MonadStateOf.get, StateT.get, hcs, hl.trimmed,
    hl.empty, pure, StateT.pure]
  cases (buildText off toks).isTextEmpty s.cs <;>
    simp [perr, pushEv, modify, modifyGet, MonadStateOf.modifyGet, StateT.modifyGet, pure, StateT.pure, bind, StateT.bind]

/-- **`parse_value` with filler behind a blank of the value tokens**: the same value (number, range
    or text), and as many diagnostics pushed (an `int-parse` / `division-by-zero` / `empty-value` error on
    both sides or on neither).  `A ++ [w] ++ B` are the value tokens, `w` a whitespace token of
    U+0020s, `F` block / line comments and such whitespace tokens; both token lists are adjacent runs
    (what the lexer produces).  The parser states may differ in everything but character table and
    extension set (the offsets of the two sources differ). -/
theorem w7p_parseValue_filler (s' s : BP α) (hcs : s'.cs = s.cs) (hext : s'.ext = s.ext) (hsp : s.cs.uws ' ' = true)
    (A F B : List Tok) (w : Tok) (hw : w.kind = .ws) (hwt : w.text ≠ []) (hwb : ∀ c ∈ w.text, c = ' ')
    (hF : ∀ t ∈ F, A17Filler t)
    (hr' : RunAt (w7pStart (A ++ [w] ++ F ++ B) (offAt s'.toks s'.cur)) (A ++ [w] ++ F ++ B))
    (hr : RunAt (w7pStart (A ++ [w] ++ B) (offAt s.toks s.cur)) (A ++ [w] ++ B)) :
    (parseValue (α := α) (A ++ [w] ++ F ++ B) s').1.val = (parseValue (α := α) (A ++ [w] ++ B) s).1.val ∧
    (parseValue (α := α) (A ++ [w] ++ F ++ B) s').2.evs.size - s'.evs.size =
      (parseValue (α := α) (A ++ [w] ++ B) s).2.evs.size - s.evs.size := by
  have hwp : w7vPad w = true := by simp [w7vPad, isWsComment, hw]
  have hFp : ∀ x ∈ F, w7vPad x = true := fun x hx => w7p_filler_pad (hF x hx)
  have hnum := w7v_numOrRange_filler (α := α) (s.ext.has Gen.EXT_RANGE_VALUES) A w F B hwp hFp
  have hl := bl17_loose_after_blank s.cs hsp (w7pStart (A ++ [w] ++ B) (offAt s.toks s.cur))
    (w7pStart (A ++ [w] ++ F ++ B) (offAt s'.toks s'.cur)) A F B w hw hwt hwb hF
  have ht := w7p_textValue_val (α := α) _ _ _ _ s' s hcs hr' hr hl
  unfold parseValue
  simp only [bind, StateT.bind, currentOffset_run, hasExt_run, hext, hnum]
  unfold w7pStart at ht
  cases hn : numOrRange (α := α) (s.ext.has Gen.EXT_RANGE_VALUES) (A ++ [w] ++ B) with
  | none =>
    simp only [pure, StateT.pure]
    exact ⟨ht.1, ht.2⟩
  | some r =>
    cases r with
    | ok v => simp [pure, StateT.pure]
    | error e =>
      simp [pure, StateT.pure, pushEv, modify, modifyGet, MonadStateOf.modifyGet, StateT.modifyGet, bind, StateT.bind]

end Cook
