import CookModel.Lemmas.RecipeSimEvent
import CookModel.Lemmas.SimEventsFull
/-
  C17, the lift through the analysis pass (4): the event fold `parse_events`.
-/
set_option linter.unusedSectionVars false
set_option linter.unusedVariables false
set_option linter.unusedSimpArgs false
set_option linter.unnecessarySimpa false
namespace Cook
variable {α : Type} [Arith α]

/-- along the analysis of `evs` from state `c` no component event meets an open text buffer, i.e.
    the text-define-mode branch that copies source text (`inTextComponent`) is never taken -/
def TextModeFree (env : Env) (input : Str) : List (Ev α) → Col α → Prop
  | [], _ => True
  | ev :: rest, c =>
    match ev with
    | .error _ => True
    | _ => ¬ TextModeSliceAt ev c ∧ TextModeFree env input rest (processEvent env input ev c).2

/-- results of the analysis with the same recipe: both have an output or neither (same validity),
    the outputs are `ColSim`-related, the reports hold diagnostics of the same kinds in the same order -/
structure ResSim (uws : Char → Bool) (r' r : AnalysisResult α) : Prop where
  output : OptRel (ColSim uws) r'.output r.output
  diags : LRel DiagSim r'.diags.toList r.diags.toList

theorem filterMap_isDiagEv_sim {uws : Char → Bool} {l' l : List (Ev α)} (h : LRel (EvSim uws) l' l) :
    LRel DiagSim (l'.filterMap isDiagEv) (l.filterMap isDiagEv) := by
  induction h with
  | nil => exact .nil
  | @cons a b l' l hab _ ih =>
    cases a <;> cases b <;> first | (exfalso; simp [EvSim] at hab; done) | skip
    all_goals first
      | (simp only [List.filterMap_cons, isDiagEv]; exact ih)
      | (simp only [List.filterMap_cons, isDiagEv]; exact .cons (by simpa [EvSim] using hab) ih)

theorem ColSim.init (uws : Char → Bool) : ColSim (α := α) uws {} {} :=
  ⟨rfl, rfl, rfl, rfl, rfl, rfl, rfl, rfl, rfl, trivial, rfl, rfl, rfl, rfl, rfl, rfl, .nil, rfl, rfl⟩

def finishSections (s : Col α) : Col α :=
  if !s.cur.isEmpty then { s with sections := s.sections ++ [s.cur], cur := ⟨none, []⟩ } else s

def finishMeta (s : Col α) : Col α :=
  if !s.oldStyleUsed.isEmpty then
    { s with diags := s.diags.push ⟨.warning, .analysis, "meta-deprecated", s.oldStyleUsed⟩ } else s

theorem parseEventsLoop_nil (env : Env) (input : Str) (s : Col α) :
    parseEventsLoop env input [] s =
      ⟨some (finishMeta (finishSections s)), (finishMeta (finishSections s)).diags, (finishMeta (finishSections s)).panic⟩ := by
  rfl

theorem finishSections_sim {uws : Char → Bool} {c' c : Col α} (hc : ColSim uws c' c) :
    ColSim uws (finishSections c') (finishSections c) := by
  unfold finishSections
  rw [hc.cur]
  split
  · colsim hc
  · exact hc

theorem finishMeta_sim {uws : Char → Bool} {c' c : Col α} (hc : ColSim uws c' c) :
    ColSim uws (finishMeta c') (finishMeta c) := by
  unfold finishMeta
  rw [isEmpty_eq_of_length_eq hc.oldStyleUsed]
  split
  · exact hc.pushDiag ⟨rfl, rfl, rfl, hc.oldStyleUsed⟩
  · exact hc

theorem parseEventsLoop_nil_sim (env : Env) (input' input : Str) {c' c : Col α} (hc : ColSim env.cs.uws c' c) :
    ResSim env.cs.uws (parseEventsLoop env input' [] c') (parseEventsLoop env input [] c) := by
  rw [parseEventsLoop_nil, parseEventsLoop_nil]
  have h := finishMeta_sim (finishSections_sim hc)
  exact ⟨h, h.diags⟩

theorem parseEventsLoop_error_sim (env : Env) (input' input : Str) {c' c : Col α} (hc : ColSim env.cs.uws c' c)
    {d' d : Diag} (hd : DiagSim d' d) {rest' rest : List (Ev α)} (hr : LRel (EvSim env.cs.uws) rest' rest) :
    ResSim env.cs.uws (parseEventsLoop env input' (.error d' :: rest') c') (parseEventsLoop env input (.error d :: rest) c) := by
  simp only [parseEventsLoop]
  refine ⟨trivial, ?_⟩
  simp only [Array.toList_filter, Array.toList_append, Array.toList_push, List.toList_toArray]
  refine LRel.filter ?_ ((hc.diags.append (.cons hd .nil)).append (filterMap_isDiagEv_sim hr))
  intro a b hab
  show (a.stage == Stage.parse) = (b.stage == Stage.parse)
  rw [hab.2.1]

/-- **the fold**: `EvSim`-related event lists take `ColSim`-related states to `ResSim`-related
    results, for any two source texts, as long as the text-mode slice branch is not taken -/
theorem parseEventsLoop_sim (env : Env) (input' input : Str) {evs' evs : List (Ev α)}
    (h : LRel (EvSim env.cs.uws) evs' evs) {c' c : Col α} (hc : ColSim env.cs.uws c' c)
    (hf : TextModeFree env input evs c) :
    ResSim env.cs.uws (parseEventsLoop env input' evs' c') (parseEventsLoop env input evs c) := by
  induction h generalizing c' c with
  | nil => exact parseEventsLoop_nil_sim env input' input hc
  | @cons a b l' l hab hl ih =>
    cases a <;> cases b <;> first | (exfalso; simp [EvSim] at hab; done) | skip
    case error.error d' d => exact parseEventsLoop_error_sim env input' input hc (by simpa [EvSim] using hab) hl
    all_goals
      simp only [parseEventsLoop]
      simp only [TextModeFree] at hf
      exact ih (processEvent_sim env input' input hab hc hf.1) hf.2

theorem parseEvents_sim (env : Env) (input' input : Str) {evs' evs : List (Ev α)}
    (h : LRel (EvSim env.cs.uws) evs' evs) (hf : TextModeFree env input evs {}) :
    ResSim env.cs.uws (parseEvents env input' evs') (parseEvents env input evs) :=
  parseEventsLoop_sim env input' input h (ColSim.init _) hf

theorem ResSim.setPanic {uws : Char → Bool} {r' r : AnalysisResult α} (h : ResSim uws r' r) (p' p : Option String) :
    ResSim uws { r' with panic := p' } { r with panic := p } := ⟨h.output, h.diags⟩

/-- CRLF conversion of a whole input, through parser and analysis -/
theorem crlf_parseRecipe_sim (env : Env) (hcs : CrlfSpec env.cs) (hu : UwsNL env.cs) (s : List Char) (hs : CrlfSafe s)
    (hf : TextModeFree env s (pullEvents (α := α) env.cs env.ext s).1.toList {}) :
    ResSim env.cs.uws (parseRecipe (α := α) env (crlf s)) (parseRecipe (α := α) env s) := by
  unfold parseRecipe
  exact (parseEvents_sim env (crlf s) s (crlf_pullEventsF env.cs hcs hu env.ext s hs) hf).setPanic _ _

/-- what `ResSim` says about validity and the report -/
theorem ResSim.valid {uws : Char → Bool} {r' r : AnalysisResult α} (h : ResSim uws r' r) :
    r'.output.isSome = r.output.isSome ∧
    r'.diags.toList.map (fun d => (d.sev, d.stage, d.kind, d.labels.length)) =
      r.diags.toList.map (fun d => (d.sev, d.stage, d.kind, d.labels.length)) := by
  refine ⟨?_, h.diags.map_eq _ _ (fun a b hab => ?_)⟩
  · have := h.output.isNone
    cases h1 : r'.output <;> cases h2 : r.output <;> simp [h1, h2] at this ⊢
  · obtain ⟨h1, h2, h3, h4⟩ := hab
    simp only [h1, h2, h3, h4]

end Cook
