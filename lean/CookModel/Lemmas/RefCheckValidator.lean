import CookModel.Analysis.RefCheckValidator
/-
  The fold with both options (`RV.loopRV`) specialises to the three existing folds when an option is absent.
-/
namespace Cook
namespace RV
open SM (Y)
variable {α : Type} [Arith α]

/-- neither option: the plain loop -/
theorem rv_loop_none_none (env : Env) (input : Str) (evs : List (Ev α)) (n : Nat) (s : Col α) :
    loopRV env input none none evs n s = parseEventsLoop env input evs s := by
  induction evs generalizing n s with
  | nil => simp [loopRV]
  | cons ev rest ih =>
    cases ev <;> simp [loopRV, parseEventsLoop, metaArm, metaCount, igrArm, ih]

/-- only a reference check: the fold of Analysis/RefCheck.lean -/
theorem rv_loop_chk (env : Env) (input : Str) (c : Str → FM.CheckRes) (evs : List (Ev α)) (n : Nat) (s : Col α) :
    loopRV env input (some c) none evs n s = RC.loopR env input c evs s := by
  induction evs generalizing n s with
  | nil => simp [loopRV, RC.loopR]
  | cons ev rest ih =>
    cases ev <;> simp [loopRV, RC.loopR, metaArm, metaCount, igrArm, ih]

/-- only a validator: the fold of Analysis/MetaValidator.lean, same call counter -/
theorem rv_loop_val (env : Env) (input : Str) (f : Nat → Y → Y → FM.Verdict) (evs : List (Ev α)) (n : Nat) (s : Col α) :
    loopRV env input none (some f) evs n s = MV.loopV env input f evs n s := by
  induction evs generalizing n s with
  | nil => simp [loopRV, MV.loopV]
  | cons ev rest ih =>
    cases ev <;> simp [loopRV, MV.loopV, metaArm, metaCount, igrArm, ih]

theorem rv_events_no_val (env : Env) (input : Str) (chk : Option (Str → FM.CheckRes)) (evs : List (Ev α)) :
    parseEventsRV env input chk none evs = RC.parseEventsR env input chk evs := by
  cases chk with
  | none => simp [parseEventsRV, RC.parseEventsR, parseEvents, rv_loop_none_none]
  | some c => simp [parseEventsRV, RC.parseEventsR, rv_loop_chk]

theorem rv_events_no_chk (env : Env) (input : Str) (val : Option (Nat → Y → Y → FM.Verdict)) (evs : List (Ev α)) :
    parseEventsRV env input none val evs = MV.parseEventsV env input val evs := by
  cases val with
  | none => simp [parseEventsRV, MV.parseEventsV, parseEvents, rv_loop_none_none]
  | some f => simp [parseEventsRV, MV.parseEventsV, rv_loop_val]

/-- without a validator `parseRecipeRV` is `RC.parseRecipeR` -/
theorem rv_recipe_no_val (env : Env) (chk : Option (Str → FM.CheckRes)) (x : Str) :
    parseRecipeRV (α := α) env chk none x = RC.parseRecipeR env chk x := by
  simp only [parseRecipeRV, RC.parseRecipeR, rv_events_no_val]
  rfl

/-- without a reference check `parseRecipeRV` is `MV.parseRecipeV` -/
theorem rv_recipe_no_chk (env : Env) (val : Option (Nat → Y → Y → FM.Verdict)) (x : Str) :
    parseRecipeRV (α := α) env none val x = MV.parseRecipeV env val x := by
  simp only [parseRecipeRV, MV.parseRecipeV, rv_events_no_chk]
  rfl

/-- with neither option it is `parse` -/
theorem rv_recipe_none (env : Env) (x : Str) : parseRecipeRV (α := α) env none none x = parseRecipe env x := by
  simp only [parseRecipeRV, parseRecipe, parseEventsRV, parseEvents, rv_loop_none_none]
  rfl

end RV
end Cook
