import CookModel.Lemmas.CollectorTrans
/-
  C06, soundness of the back-links: every index listed in a definition's `referenced_from` is a LATER
  component of the same table whose relation is a (regular) reference to that definition.
  (The converse — a reference is listed back exactly once — is `IngrTable.backl` / `CwTable.backl`.)
-/
set_option linter.unusedSectionVars false
set_option linter.unusedSimpArgs false
set_option linter.unusedVariables false
namespace Cook
variable {α : Type} [Arith α]

/-- every `referenced_from` entry of an ingredient definition is a later regular reference to it -/
def IngrBack (ings : Array (Ingredient (ScalableValue α))) : Prop :=
  ∀ (t : Nat) (d : Ingredient (ScalableValue α)), ings[t]? = some d → ∀ j ∈ d.relation.relation.referencedFrom,
    t < j ∧ ∃ ig, ings[j]? = some ig ∧ ig.relation = ⟨.reference t, some .ingredient⟩

theorem IngrBack.empty : IngrBack (α := α) #[] := fun t d h => by simp at h

theorem IngrBack.push_plain {ings : Array (Ingredient (ScalableValue α))} (h : IngrBack ings)
    (igr : Ingredient (ScalableValue α)) (h3 : igr.relation.relation.referencedFrom = []) :
    IngrBack (ings.push igr) := by
  intro t d hd j hj
  rw [Array.getElem?_push] at hd
  split at hd
  · cases hd; rw [h3] at hj; cases hj
  · obtain ⟨hlt, ig, hig, hrel⟩ := h t d hd j hj
    refine ⟨hlt, ig, ?_, hrel⟩
    rw [Array.getElem?_push, if_neg (by have := lt_size_of_getElem? hig; omega)]
    exact hig

theorem IngrBack.push_ref {ings : Array (Ingredient (ScalableValue α))} (h : IngrBack ings)
    (igr defn : Ingredient (ScalableValue α)) (t : Nat) (rf : List Nat) (b : Bool)
    (hdefn : ings[t]? = some defn) (hrel : defn.relation.relation = .definition rf b)
    (higr : igr.relation = ⟨.reference t, some .ingredient⟩) :
    IngrBack ((ings.setIfInBounds t
      { defn with relation := ⟨.definition (rf ++ [ings.size]) b, defn.relation.referenceTarget⟩ }).push igr) := by
  have ht : t < ings.size := lt_size_of_getElem? hdefn
  intro t0 d hd j hj
  rw [getElem?_push_set _ _ _ _ _ ht] at hd
  split at hd
  · cases hd; rw [higr] at hj; cases hj
  · split at hd
    · rename_i _ htt
      cases hd
      simp only [ComponentRelation.referencedFrom, List.mem_append, List.mem_singleton] at hj
      rcases hj with hj | hj
      · obtain ⟨hlt, ig, hig, hr⟩ := h t defn hdefn j (by rw [hrel]; exact hj)
        refine ⟨by omega, ig, ?_, by rw [hr, htt]⟩
        rw [getElem?_push_set _ _ _ _ _ ht, if_neg (by have := lt_size_of_getElem? hig; omega), if_neg (by omega)]
        exact hig
      · refine ⟨by omega, igr, ?_, by rw [higr, htt]⟩
        rw [getElem?_push_set _ _ _ _ _ ht, if_pos hj]
    · obtain ⟨hlt, ig, hig, hr⟩ := h t0 d hd j hj
      refine ⟨hlt, ig, ?_, hr⟩
      have hjt : j ≠ t := by
        intro hc
        rw [hc, hdefn] at hig
        cases hig
        rw [hr] at hrel; cases hrel
      rw [getElem?_push_set _ _ _ _ _ ht, if_neg (by have := lt_size_of_getElem? hig; omega), if_neg hjt]
      exact hig

/-- `ingredientA` keeps the back-links sound -/
theorem IngrBack.step {env : Env} {s : Col α} (h : IngrBack s.ingredients)
    (ings : Array (Ingredient (ScalableValue α))) (igr : Ingredient (ScalableValue α))
    (hstep : IngrStep env s ings igr) : IngrBack (ings.push igr) := by
  rcases hstep with ⟨he, b, hb⟩ | ⟨he, hREF, rel, d, hrel, hb⟩ | ⟨t, defn, rf, b, h1, h2, h3, h4, h5, h6, he⟩
  · rw [he]
    exact h.push_plain igr (by rw [hb]; rfl)
  · rw [he]
    have hr := interRefTarget_inRange _ _ _ _ hrel
    refine h.push_plain igr ?_
    rw [hb]
    rcases hr with ⟨i, hi, _⟩ | ⟨i, hi, _⟩ <;> rw [hi] <;> rfl
  · rw [he]
    exact h.push_ref igr defn t rf b h1 h2 h5

/-- every `referenced_from` entry of a cookware definition is a later reference to it -/
def CwBack (cws : Array (Cookware (ScalableValue α))) : Prop :=
  ∀ (t : Nat) (d : Cookware (ScalableValue α)), cws[t]? = some d → ∀ j ∈ d.relation.referencedFrom,
    t < j ∧ ∃ cw, cws[j]? = some cw ∧ cw.relation = .reference t

theorem CwBack.empty : CwBack (α := α) #[] := fun t d h => by simp at h

theorem CwBack.push_plain {cws : Array (Cookware (ScalableValue α))} (h : CwBack cws)
    (cw : Cookware (ScalableValue α)) (h3 : cw.relation.referencedFrom = []) : CwBack (cws.push cw) := by
  intro t d hd j hj
  rw [Array.getElem?_push] at hd
  split at hd
  · cases hd; rw [h3] at hj; cases hj
  · obtain ⟨hlt, ig, hig, hrel⟩ := h t d hd j hj
    refine ⟨hlt, ig, ?_, hrel⟩
    rw [Array.getElem?_push, if_neg (by have := lt_size_of_getElem? hig; omega)]
    exact hig

theorem CwBack.push_ref {cws : Array (Cookware (ScalableValue α))} (h : CwBack cws)
    (cw defn : Cookware (ScalableValue α)) (t : Nat) (rf : List Nat) (b : Bool)
    (hdefn : cws[t]? = some defn) (hrel : defn.relation = .definition rf b)
    (hcw : cw.relation = .reference t) :
    CwBack ((cws.setIfInBounds t { defn with relation := .definition (rf ++ [cws.size]) b }).push cw) := by
  have ht : t < cws.size := lt_size_of_getElem? hdefn
  intro t0 d hd j hj
  rw [getElem?_push_set _ _ _ _ _ ht] at hd
  split at hd
  · cases hd; rw [hcw] at hj; cases hj
  · split at hd
    · rename_i _ htt
      cases hd
      simp only [ComponentRelation.referencedFrom, List.mem_append, List.mem_singleton] at hj
      rcases hj with hj | hj
      · obtain ⟨hlt, ig, hig, hr⟩ := h t defn hdefn j (by rw [hrel]; exact hj)
        refine ⟨by omega, ig, ?_, by rw [hr, htt]⟩
        rw [getElem?_push_set _ _ _ _ _ ht, if_neg (by have := lt_size_of_getElem? hig; omega), if_neg (by omega)]
        exact hig
      · refine ⟨by omega, cw, ?_, by rw [hcw, htt]⟩
        rw [getElem?_push_set _ _ _ _ _ ht, if_pos hj]
    · obtain ⟨hlt, ig, hig, hr⟩ := h t0 d hd j hj
      refine ⟨hlt, ig, ?_, hr⟩
      have hjt : j ≠ t := by
        intro hc
        rw [hc, hdefn] at hig
        cases hig
        rw [hr] at hrel; cases hrel
      rw [getElem?_push_set _ _ _ _ _ ht, if_neg (by have := lt_size_of_getElem? hig; omega), if_neg hjt]
      exact hig

/-- `cookwareA` keeps the back-links sound -/
theorem CwBack.step {env : Env} {s : Col α} (h : CwBack s.cookware)
    (cws : Array (Cookware (ScalableValue α))) (cw : Cookware (ScalableValue α))
    (hstep : CwStep env s cws cw) : CwBack (cws.push cw) := by
  rcases hstep with ⟨he, b, hb⟩ | ⟨t, defn, rf, b, h1, h2, h3, h4, h5, h6, he⟩
  · rw [he]
    exact h.push_plain cw (by rw [hb]; rfl)
  · rw [he]
    exact h.push_ref cw defn t rf b h1 h2 h5

/-- the invariant of the fold -/
def BackInv (s : Col α) : Prop := IngrBack s.ingredients ∧ CwBack s.cookware

theorem BackInv.init : BackInv (α := α) {} := ⟨IngrBack.empty, CwBack.empty⟩

theorem Trans.back {env : Env} {b : Ev α} {s s' : Col α} (ht : Trans env b s s') (h : BackInv s) : BackInv s' := by
  cases ht with
  | keep hsec hcur hi hc hb => exact ⟨by rw [hi]; exact h.1, by rw [hc]; exact h.2⟩
  | newSection name hse hsec hcur hi hc hb => exact ⟨by rw [hi]; exact h.1, by rw [hc]; exact h.2⟩
  | pushBlock c hsec hcur hi hc hb hitems => exact ⟨by rw [hi]; exact h.1, by rw [hc]; exact h.2⟩
  | ingr ings igr hsec hcur hi hsz hstep hc hb => exact ⟨by rw [hi]; exact h.1.step ings igr hstep, by rw [hc]; exact h.2⟩
  | cw cws cwn hsec hcur hi hc hsz hstep hb => exact ⟨by rw [hi]; exact h.1, by rw [hc]; exact h.2.step cws cwn hstep⟩

/-- every event keeps the back-links sound -/
theorem processEvent_back (env : Env) (input : Str) (ev : Ev α) (s : Col α) (hi : Inv env s) (hb : BackInv s)
    (hev : EvOK ev) : BackInv (processEvent env input ev s).2 :=
  (processEvent_trans env input ev s hi hev).back hb

theorem parseEventsLoop_back (env : Env) (input : Str) (evs : List (Ev α)) (s c : Col α) (hi : Inv env s)
    (hb : BackInv s) (hev : ∀ ev ∈ evs, EvOK ev) (hc : (parseEventsLoop env input evs s).output = some c) :
    BackInv c := by
  induction evs generalizing s with
  | nil =>
    simp only [parseEventsLoop, Option.some.injEq] at hc
    subst hc
    refine ⟨?_, ?_⟩
    · split <;> split <;> exact hb.1
    · split <;> split <;> exact hb.2
  | cons ev rest ih =>
    by_cases he : ∃ d0, ev = .error d0
    · obtain ⟨d0, rfl⟩ := he
      simp only [parseEventsLoop] at hc
      cases hc
    · rw [parseEventsLoop_cons_nonerror env input ev rest s he] at hc
      exact ih _ (processEvent_inv env input ev s hi (hev ev List.mem_cons_self))
        (processEvent_back env input ev s hi hb (hev ev List.mem_cons_self))
        (fun e he' => hev e (List.mem_cons_of_mem _ he')) hc

end Cook
