import CookModel.Lemmas.ClosingFold
import CookModel.Lemmas.ClosingStream
import CookModel.Lemmas.SpansDoc
import CookModel.Lemmas.SpansFront
/-
  Bridge between the C04 result "every span of every parser event is a valid span of the input"
  (`EvSpansOK 0 s`) and the hypothesis `SpansOK` under which the analysis never panics.
-/
namespace Cook
variable {α : Type} [Arith α]

theorem utf8Len_take_le (l : List Char) (n : Nat) : utf8Len (l.take n) ≤ utf8Len l := by
  conv => rhs; rw [← List.take_append_drop n l]
  rw [utf8Len_append]; omega

/-- two prefixes of one text: the one with fewer bytes is a prefix of the other -/
theorem prefix_of_bytes_le (s p1 q1 p2 q2 : List Char) (h1 : s = p1 ++ q1) (h2 : s = p2 ++ q2)
    (hle : utf8Len p1 ≤ utf8Len p2) : ∃ mid, p2 = p1 ++ mid := by
  by_cases hl : p1.length ≤ p2.length
  · refine ⟨p2.drop p1.length, ?_⟩
    have e1 : p1 = s.take p1.length := by rw [h1]; simp
    have e2 : p2 = s.take p2.length := by rw [h2]; simp
    have : p2.take p1.length = p1 := by
      rw [e2, List.take_take, Nat.min_eq_left hl, ← e1]
    conv => lhs; rw [← List.take_append_drop p1.length p2]
    rw [this]
  · -- p2 is a proper prefix of p1: then p1 has strictly more bytes
    exfalso
    have hl' : p2.length < p1.length := Nat.lt_of_not_le hl
    have e1 : p1 = s.take p1.length := by rw [h1]; simp
    have e2 : p2 = s.take p2.length := by rw [h2]; simp
    have hp : p1 = p2 ++ (p1.drop p2.length) := by
      have : p1.take p2.length = p2 := by
        rw [e1, List.take_take, Nat.min_eq_left (Nat.le_of_lt hl'), ← e2]
      conv => lhs; rw [← List.take_append_drop p2.length p1]
      rw [this]
    have hne : p1.drop p2.length ≠ [] := by
      intro h0
      have := congrArg List.length h0
      simp at this; omega
    have hpos := utf8Len_pos hne
    rw [hp, utf8Len_append] at hle
    omega

theorem onBoundaries_of_spanOK (s : List Char) (sp : Span) (h : SpanOK 0 s sp) : OnBoundaries s sp := by
  obtain ⟨⟨p1, q1, h1, hs⟩, ⟨p2, q2, h2, he⟩, hle⟩ := h
  have hle' : utf8Len p1 ≤ utf8Len p2 := by omega
  obtain ⟨mid, hm⟩ := prefix_of_bytes_le s p1 q1 p2 q2 h1 h2 hle'
  refine ⟨p1, mid, q2, ?_, by omega, ?_⟩
  · rw [h2, hm]
  · rw [he, hm, utf8Len_append]; omega

/-- the component spans of the parser's events cut the input at character boundaries -/
theorem pullEvents_spansOK (cs : CharSpec) (ext : Ext) (s : List Char) :
    SpansOK s (pullEvents (α := α) cs ext s).1.toList := by
  intro ev hev
  obtain ⟨b, h⟩ := pullEvents_topInv (α := α) cs ext s (frontMatterOffsetsOK cs s)
  have hok := h.ok ev hev
  intro sp hsp
  cases ev with
  | ingredient i =>
    simp only [evSpan, Option.some.injEq] at hsp; subst hsp
    exact onBoundaries_of_spanOK s _ hok.1
  | cookware c =>
    simp only [evSpan, Option.some.injEq] at hsp; subst hsp
    exact onBoundaries_of_spanOK s _ hok.1
  | timer t =>
    simp only [evSpan, Option.some.injEq] at hsp; subst hsp
    exact onBoundaries_of_spanOK s _ hok.1
  | _ => simp [evSpan] at hsp

end Cook
