import CookModel.Lemmas.RoundtripRefsUnits
import CookModel.Lemmas.RoundtripDocTight
/-
  C01, documents with mode switches and references under EVERY extension set, in particular ADVANCED_UNITS
  (`rtqu_` prefix).  `yOKUB` is `yOKB` with the target check of a reference `ingrTargetOKB` (which asks for
  ADVANCED_UNITS to be off) replaced by `ingrTargetOKUB` (the unit check of `compatible_unit` against the
  definition and its earlier references).  The item lemma `rtq_item` is redone with `rtu_proc_ingredient_ref`
  for the reference case (every other case is the old lemma), then the loops are lifted as in
  `RoundtripModes3.lean`, up to `parseRecipe` on the printed characters.
-/
set_option linter.unusedSectionVars false
set_option linter.unusedSimpArgs false
set_option linter.unusedVariables false
namespace Cook
variable {α : Type} [Arith α]

/-! ### the conditions, with the unit check -/

/-- `ingrOKMB` for every extension set: the target check of a reference is `ingrTargetOKUB` -/
def ingrOKMUB (env : Env) (dm : DefineMode) (dup : DuplicateMode) (content : List Content) (nsec : Nat)
    (tbl : Array (Ingredient (ScalableValue α))) (inter : Option InterData) (igr0 : Ingredient (ScalableValue α)) : Bool :=
  match inter with
  | some d =>
    igr0.modifiers.contains Modifiers.REF &&
    (igr0.modifiers.bits &&& (Modifiers.RECIPE ||| Modifiers.HIDDEN ||| Modifiers.NEW) == 0) &&
    decide (0 ≤ d.val) &&
    (match interRefTarget content nsec d with
     | .ok _ => true
     | .error _ => false)
  | none =>
    modeRuleB dm dup igr0.modifiers
      (sameNameIdx env (tbl.toList.map (fun x => (x.name, x.modifiers))) igr0.name).isSome (ingrTargetOKUB env tbl igr0)

def xOKAtMUB (env : Env) (dm : DefineMode) (dup : DuplicateMode) (content : List Content) (nsec : Nat) (T : XTbls α) :
    XItem α → Bool
  | .ingr inter igr0 => ingrOKMUB env dm dup content nsec T.ing inter igr0
  | .cw cw0 => cwOKMB env dm dup T.cw cw0
  | _ => true

def yItemsOKUB (env : Env) (dm : DefineMode) (dup : DuplicateMode) (content : List Content) (nsec : Nat) :
    XTbls α → List (XItem α) → Bool
  | _, [] => true
  | T, it :: r => xOKAtMUB env dm dup content nsec T it &&
      yItemsOKUB env dm dup content nsec (xPushM env dm dup content nsec T it) r

/-- `yOKB` for every extension set: the same threading of the modes and the tables, the components of a step in
    define mode `all` / `steps` checked by `yItemsOKUB` (reference targets by `ingrTargetOKUB`) -/
def yOKUB (env : Env) : DefineMode → DuplicateMode → XTbls α → List Section → Section → Nat → List (YBlock α) → Bool
  | _, _, _, _, _, _, [] => true
  | dm, dup, T, secs, cur, num, .step st :: r =>
    match dm with
    | .components => dup == .new && st.all (compXOKB env) && yOKUB env dm dup (xCTbls T st) secs cur num r
    | .text => st.all XItem.isText &&
        yOKUB env dm dup T secs ⟨cur.name, cur.content ++ xParaContent (xTexts st)⟩ num r
    | _ =>
      yItemsOKUB env dm dup cur.content secs.length T st && !st.isEmpty &&
      yOKUB env dm dup (yStepTbls env dm dup cur.content secs.length T st) secs
        ⟨cur.name, cur.content ++ [.step ⟨yItems env dm dup cur.content secs.length T st, num⟩]⟩ (num + 1) r
  | dm, dup, T, secs, cur, _, .sect name :: r =>
    yOKUB env dm dup T (secs ++ (if cur.isEmpty then [] else [cur])) ⟨name, []⟩ 1 r
  | dm, dup, T, secs, cur, num, .entry _ _ :: r => yOKUB env dm dup T secs cur num r
  | dm, dup, T, secs, cur, num, .para s :: r => yOKUB env dm dup T secs ⟨cur.name, cur.content ++ xParaContent s⟩ num r
  | _, dup, T, secs, cur, num, .define m' :: r => yOKUB env m' dup T secs cur num r
  | dm, _, T, secs, cur, num, .duplicate m' :: r => yOKUB env dm m' T secs cur num r

/-! ### with the extension off the new checks are the old ones -/

theorem rtqu_xOKAtMUB_off (env : Env) (hoff : env.ext.has Gen.EXT_ADVANCED_UNITS = false) (dm : DefineMode)
    (dup : DuplicateMode) (content : List Content) (nsec : Nat) (T : XTbls α) (it : XItem α) :
    xOKAtMUB env dm dup content nsec T it = xOKAtMB env dm dup content nsec T it := by
  cases it with
  | ingr inter igr0 =>
    cases inter with
    | some d => rfl
    | none => simp only [xOKAtMUB, xOKAtMB, ingrOKMUB, ingrOKMB, rtu_ingrTargetOKUB_off env _ _ hoff]
  | _ => rfl

theorem rtqu_yItemsOKUB_off (env : Env) (hoff : env.ext.has Gen.EXT_ADVANCED_UNITS = false) (dm : DefineMode)
    (dup : DuplicateMode) (content : List Content) (nsec : Nat) : ∀ (st : List (XItem α)) (T : XTbls α),
    yItemsOKUB env dm dup content nsec T st = yItemsOKB env dm dup content nsec T st := by
  intro st
  induction st with
  | nil => intro T; rfl
  | cons it r ih => intro T; simp only [yItemsOKUB, yItemsOKB, rtqu_xOKAtMUB_off env hoff, ih]

theorem rtqu_yOKUB_off (env : Env) (hoff : env.ext.has Gen.EXT_ADVANCED_UNITS = false) :
    ∀ (ys : List (YBlock α)) (dm : DefineMode) (dup : DuplicateMode) (T : XTbls α) (secs : List Section) (cur : Section)
      (num : Nat), yOKUB env dm dup T secs cur num ys = yOKB env dm dup T secs cur num ys := by
  intro ys
  induction ys with
  | nil => intro dm dup T secs cur num; simp [yOKUB, yOKB]
  | cons y r ih =>
    intro dm dup T secs cur num
    cases y with
    | step st => cases dm <;> simp only [yOKUB, yOKB, ih, rtqu_yItemsOKUB_off env hoff]
    | _ => simp only [yOKUB, yOKB, ih]

/-! ### one item -/

/-- the outcomes of `modeRuleB` in which the component stays a definition do not depend on the target check -/
theorem rtqu_modeRule_def (dm : DefineMode) (dup : DuplicateMode) (mods : Modifiers) (found target target' : Bool)
    (h : modeRuleB dm dup mods found target = true)
    (hdef : mods.contains Modifiers.REF = false ∧
      ((mods.contains Modifiers.NEW = true ∧ (dm = .steps ∨ (dup = .reference ∧ found = true))) ∨
       (mods.contains Modifiers.NEW = false ∧ dm ≠ .steps ∧ (dup = .new ∨ found = false)))) :
    modeRuleB dm dup mods found target' = true := by
  unfold modeRuleB at h ⊢
  cases hN : mods.contains Modifiers.NEW <;> cases hR : mods.contains Modifiers.REF <;> cases dm <;> cases dup <;>
    cases found <;> cases target <;> cases target' <;> simp_all

/-- `rtq_item` under every extension set: the reference case goes through `rtu_proc_ingredient_ref` with the
    invariant `locIngr.size = ingredients.size` of the state `stOfT` (from `TblsFit`); every other case is
    `rtq_item` itself -/
theorem rtqu_item (env : Env) (input : Str) (base : Col α) (hdm : base.defineMode = .all ∨ base.defineMode = .steps)
    (it : SItem α) (before : List (SItem α)) (T : XTbls α) (hfit : TblsFit before T) (content : List Content) (n : Nat)
    (hside : it.SideOKM env base.defineMode)
    (h : xOKAtMUB env base.defineMode base.duplicateMode content base.sections.length T (it.x env) = true)
    (items : List Item) :
    (processEvent env input it.ev (stOfT base before T content n (some (.step items)))).2 =
      stOfT base (before ++ [it])
        (xPushM env base.defineMode base.duplicateMode content base.sections.length T (it.x env)) content n
        (some (.step (items ++ [xToItem T (it.x env)]))) := by
  cases it with
  | text t => exact rtq_item env input base hdm _ before T hfit content n hside rfl items
  | timer lt => exact rtq_item env input base hdm _ before T hfit content n hside rfl items
  | cookware lc => exact rtq_item env input base hdm _ before T hfit content n hside h items
  | ingredient li =>
    cases hin : li.val.inter with
    | some d =>
      refine rtq_item env input base hdm _ before T hfit content n hside ?_ items
      simp only [SItem.x, xOKAtMUB, xOKAtMB, hin, Option.map_some, ingrOKMUB, ingrOKMB] at h ⊢
      exact h
    | none =>
      have h0 := h
      simp only [SItem.x, xOKAtMUB, hin, Option.map_none, ingrOKMUB] at h
      rcases rtq_modeRule _ _ _ _ _ h with hdef | ⟨hN, htg, htreat, hquiet⟩
      · -- stays a definition: the old lemma
        refine rtq_item env input base hdm _ before T hfit content n hside ?_ items
        simp only [SItem.x, xOKAtMB, hin, Option.map_none, ingrOKMB]
        exact rtqu_modeRule_def _ _ _ _ _ _ h hdef
      · -- becomes a reference
        obtain ⟨hf1, hf2⟩ := hfit
        have hnc : (stOfT base before T content n (some (.step items))).defineMode ≠ .components := by
          show base.defineMode ≠ .components
          rcases hdm with h' | h' <;> rw [h'] <;> decide
        have hsnoc : ingrsOf (before ++ [SItem.ingredient li]) = ingrsOf before ++ [li] := by
          simp [ingrsOf, SItem.ingr?]
        have hcsnoc : cwsOf (before ++ [SItem.ingredient li]) = cwsOf before := by
          simp [cwsOf, SItem.cw?]
        have hnote : li.val.note = none := by
          have : (ingrOf env li).note.isNone = true := by
            unfold ingrTargetOKUB at htg
            simp only [Bool.and_eq_true] at htg
            exact htg.1
          simp only [ingrOf] at this
          cases hn : li.val.note with
          | none => rfl
          | some x => rw [hn] at this; cases this
        have hsize : (stOfT base before T content n (some (.step items))).locIngr.size =
            (stOfT base before T content n (some (.step items))).ingredients.size := by
          simp [stOfT, hf1]
        obtain ⟨t, defn, rf, b, tg, h1, h2, h3, h4, hq⟩ :=
          rtu_ingrTargetOKUB env li (ingrOf env li) (stOfT base before T content n (some (.step items))) hsize hnote htg
        have h2' : T.ing[t]? = some defn := h2
        have hlt : t < (ingrsOf before).length := by
          rcases Nat.lt_or_ge t T.ing.size with hh | hh
          · rw [hf1] at hh; exact hh
          · rw [Array.getElem?_eq_none hh] at h2'; cases h2'
        have hloc : (stOfT base before T content n (some (.step items))).locIngr[t]? = some ((ingrsOf before)[t]'hlt) := by
          simp [stOfT, hlt]
        rw [SItem.ev, rtu_proc_ingredient_ref env input li (stOfT base before T content n (some (.step items))) items t defn _ rf b
          tg rfl hin hside hN htreat hquiet h1 h2 hloc h3 h4 hq]
        have hpush : ingrPushM env base.defineMode base.duplicateMode content base.sections.length T.ing none
            (ingrOf env li) =
            (T.ing.setIfInBounds t (backlinked defn rf T.ing.size b tg)).push (asReference (ingrOf env li) defn.modifiers t) :=
          rtq_ingrPushM_reference env _ _ content _ T.ing _ t defn rf b tg hN htreat h1 h2' h3
        simp only [stOfT, SItem.x, xPushM, xToItem, hsnoc, hcsnoc, hin, Option.map_none, hpush]
        simp

/-! ### one step, the whole document (the proofs of `rtq_loop_items`, `rtq_loop_step`, `rtq_loop_doc`, `rtq_parseEvents_doc` with the new checks) -/

theorem rtqu_loop_items (env : Env) (input : Str) (base : Col α) (hdm : base.defineMode = .all ∨ base.defineMode = .steps)
    (rest : List (Ev α)) (content : List Content) (n : Nat) :
    ∀ (st : List (SItem α)) (before : List (SItem α)) (T : XTbls α), TblsFit before T →
      (∀ it ∈ st, it.SideOKM env base.defineMode) →
      yItemsOKUB env base.defineMode base.duplicateMode content base.sections.length T (st.map (SItem.x env)) = true →
      ∀ (items : List Item),
      parseEventsLoop env input (st.map SItem.ev ++ rest) (stOfT base before T content n (some (.step items))) =
        parseEventsLoop env input rest
          (stOfT base (before ++ st)
            (yStepTbls env base.defineMode base.duplicateMode content base.sections.length T (st.map (SItem.x env))) content n
            (some (.step (items ++
              yItems env base.defineMode base.duplicateMode content base.sections.length T (st.map (SItem.x env)))))) ∧
      TblsFit (before ++ st)
        (yStepTbls env base.defineMode base.duplicateMode content base.sections.length T (st.map (SItem.x env))) := by
  intro st
  induction st with
  | nil => intro before T hfit _ _ items; simp [yItems, yStepTbls, hfit]
  | cons it r ih =>
    intro before T hfit hside hs items
    simp only [List.map_cons, yItemsOKUB, Bool.and_eq_true] at hs
    obtain ⟨i1, i2⟩ := ih (before ++ [it])
      (xPushM env base.defineMode base.duplicateMode content base.sections.length T (it.x env))
      (rtq_fit_push env _ _ content base.sections.length before T hfit it) (fun x hx => hside x (by simp [hx])) hs.2
      (items ++ [xToItem T (it.x env)])
    refine ⟨?_, by simpa [yStepTbls, List.append_assoc] using i2⟩
    rw [List.map_cons, List.cons_append, parseEventsLoop_cons_nonerror env input _ _ _ (rta_ev_not_error it),
      rtqu_item env input base hdm it before T hfit content n (hside it (by simp)) hs.1, i1]
    simp [yItems, yStepTbls, List.append_assoc]

/-- one step block in define mode `all` or `steps` -/
theorem rtqu_loop_step (env : Env) (input : Str) (base : Col α) (hdm : base.defineMode = .all ∨ base.defineMode = .steps)
    (rest : List (Ev α)) (st : List (SItem α)) (before : List (SItem α)) (T : XTbls α) (hfit : TblsFit before T)
    (hside : ∀ it ∈ st, it.SideOKM env base.defineMode) (content : List Content) (n : Nat)
    (hs : yItemsOKUB env base.defineMode base.duplicateMode content base.sections.length T (st.map (SItem.x env)) = true)
    (hne : st ≠ []) :
    parseEventsLoop env input (stepEvents st ++ rest) (stOfT base before T content n none) =
      parseEventsLoop env input rest
        (stOfT base (before ++ st)
          (yStepTbls env base.defineMode base.duplicateMode content base.sections.length T (st.map (SItem.x env)))
          (content ++ [.step ⟨yItems env base.defineMode base.duplicateMode content base.sections.length T
            (st.map (SItem.x env)), n⟩]) (n + 1) none) ∧
    TblsFit (before ++ st)
      (yStepTbls env base.defineMode base.duplicateMode content base.sections.length T (st.map (SItem.x env))) := by
  have e : stepEvents st ++ rest = Ev.start .step :: (st.map SItem.ev ++ (Ev.stop .step :: rest)) := by
    simp [stepEvents]
  obtain ⟨i1, i2⟩ := rtqu_loop_items env input base hdm (Ev.stop .step :: rest) content n st before T hfit hside hs []
  refine ⟨?_, i2⟩
  have hne' : st.map (SItem.x env) ≠ [] := by simpa using hne
  rw [e, parseEventsLoop_cons_nonerror env input _ _ _ (by rintro ⟨d, h⟩; cases h), rtq_start env input base hdm, i1,
    parseEventsLoop_cons_nonerror env input _ _ _ (by rintro ⟨d, h⟩; cases h), List.nil_append,
    rtq_stop env input base hdm _ _ content n _ (rtq_yItems_ne env _ _ content _ T _ hne')]

theorem rtqu_loop_doc (env : Env) (input : Str) :
    ∀ (blocks : List (NBlock α)) (dm : DefineMode) (dup : DuplicateMode) (base : Col α),
      base.defineMode = dm → base.duplicateMode = dup → nSideOK env dm blocks →
      ∀ (before : List (SItem α)) (T : XTbls α), TblsFit before T → ∀ (content : List Content) (n : Nat),
      yOKUB env dm dup T base.sections ⟨base.cur.name, content⟩ n (blocks.map (NBlock.y env)) = true →
      ∃ c : Col α,
        parseEventsLoop env input (blocks.flatMap NBlock.events) (stOfT base before T content n none) =
          ⟨some c, c.diags, base.panic⟩ ∧
        DocResultN env dm dup base T content n (blocks.map (NBlock.y env)) (nEntries blocks) c := by
  intro blocks
  induction blocks with
  | nil =>
    intro dm dup base _ _ _ before T _ content n _
    exact rtq_final env input dm dup base before T content n
  | cons nb r ih =>
    intro dm dup base hdm hdup hside before T hfit content n hok
    cases nb with
    | define k v m =>
      simp only [nSideOK] at hside
      simp only [List.map_cons, NBlock.y, yOKUB] at hok
      have hev : (processEvent env input (.metadata k v) (stOfT base before T content n none)).2 =
          stOfT ({ base with defineMode := m } : Col α) before T content n none := by
        have e1 : processEvent env input (.metadata k v) (stOfT base before T content n none) =
            metadataA env k v (stOfT base before T content n none) := rfl
        rw [e1, rtn_defineLine env k v _ m hside.1]
        rfl
      obtain ⟨c, h1, h2⟩ := ih m dup ({ base with defineMode := m } : Col α) rfl hdup hside.2 before T hfit content n hok
      refine ⟨c, ?_, ?_⟩
      · rw [List.flatMap_cons, NBlock.events, List.singleton_append,
          parseEventsLoop_cons_nonerror env input _ _ _ (by rintro ⟨d, h⟩; cases h), hev, h1]
      · obtain ⟨a1, a2, a3, a4, a5, a6, a7, a8, a9⟩ := h2
        exact ⟨by rw [a1]; rfl, by rw [a2]; rfl, by rw [a3]; rfl, by rw [a4]; rfl, by rw [a5]; rfl,
          by rw [a6]; rfl, by rw [a7]; rfl, a8, a9⟩
    | duplicate k v m =>
      simp only [nSideOK] at hside
      simp only [List.map_cons, NBlock.y, yOKUB] at hok
      have hev : (processEvent env input (.metadata k v) (stOfT base before T content n none)).2 =
          stOfT ({ base with duplicateMode := m } : Col α) before T content n none := by
        have e1 : processEvent env input (.metadata k v) (stOfT base before T content n none) =
            metadataA env k v (stOfT base before T content n none) := rfl
        rw [e1, rtn_duplicateLine env k v _ m hside.1]
        rfl
      obtain ⟨c, h1, h2⟩ := ih dm m ({ base with duplicateMode := m } : Col α) hdm rfl hside.2 before T hfit content n hok
      refine ⟨c, ?_, ?_⟩
      · rw [List.flatMap_cons, NBlock.events, List.singleton_append,
          parseEventsLoop_cons_nonerror env input _ _ _ (by rintro ⟨d, h⟩; cases h), hev, h1]
      · obtain ⟨a1, a2, a3, a4, a5, a6, a7, a8, a9⟩ := h2
        exact ⟨by rw [a1]; rfl, by rw [a2]; rfl, by rw [a3]; rfl, by rw [a4]; rfl, by rw [a5]; rfl,
          by rw [a6]; rfl, by rw [a7]; rfl, a8, a9⟩
    | plain b =>
      cases b with
      | sect name =>
        simp only [nSideOK] at hside
        simp only [List.map_cons, NBlock.y, yOKUB] at hok
        obtain ⟨c, h1, h2⟩ := ih dm dup
          { base with sections := base.sections ++ (if (Section.isEmpty ⟨base.cur.name, content⟩) then [] else
                                    [⟨base.cur.name, content⟩]),
                      cur := ⟨name.map (·.trimmed env.cs), []⟩ } hdm hdup hside before T hfit [] 1 hok
        refine ⟨c, ?_, ?_⟩
        · rw [List.flatMap_cons, NBlock.events, SBlock.events, List.singleton_append,
            parseEventsLoop_cons_nonerror env input _ _ _ (by rintro ⟨d, h⟩; cases h), rtax_section, h1]
        · obtain ⟨a1, a2, a3, a4, a5, a6, a7, a8, a9⟩ := h2
          exact ⟨by rw [a1]; rfl, by rw [a2]; rfl, by rw [a3]; rfl, by rw [a4]; rfl, by rw [a5]; rfl,
            by rw [a6]; rfl, by rw [a7]; rfl, a8, a9⟩
      | para ts =>
        simp only [nSideOK] at hside
        simp only [List.map_cons, NBlock.y, yOKUB] at hok
        obtain ⟨c, h1, h2⟩ := ih dm dup base hdm hdup hside before T hfit (content ++ xParaContent (ts.flatMap (·.text))) n hok
        refine ⟨c, ?_, ?_⟩
        · rw [List.flatMap_cons, NBlock.events, SBlock.events, rtq_para env input base _ ts, h1]
        · obtain ⟨a1, a2, a3, a4, a5, a6, a7, a8, a9⟩ := h2
          exact ⟨by rw [a1]; rfl, by rw [a2]; rfl, by rw [a3]; rfl, by rw [a4]; rfl, by rw [a5]; rfl,
            by rw [a6]; rfl, by rw [a7]; rfl, a8, a9⟩
      | entry k v =>
        simp only [nSideOK] at hside
        simp only [List.map_cons, NBlock.y, yOKUB] at hok
        have hpanic : (entryEffect env k v base).panic = base.panic := by
          unfold entryEffect; cases StdKey.ofStr (String.ofList (k.trimmed env.cs)) <;> rfl
        have hsec : (entryEffect env k v base).sections = base.sections ∧ (entryEffect env k v base).cur = base.cur ∧
            (entryEffect env k v base).metaMap = metaInsert base.metaMap (k.trimmed env.cs) (v.outerTrimmed env.cs) ∧
            (entryEffect env k v base).oldStyleUsed = base.oldStyleUsed ++ [⟨k.span.start, v.span.stop⟩] ∧
            (entryEffect env k v base).diags = base.diags ∧ (entryEffect env k v base).inlineQ = base.inlineQ ∧
            (entryEffect env k v base).frontMatter = base.frontMatter := by
          unfold entryEffect; cases StdKey.ofStr (String.ofList (k.trimmed env.cs)) <;> exact ⟨rfl, rfl, rfl, rfl, rfl, rfl, rfl⟩
        obtain ⟨e1, e2, e3, e4, e5, e6, e7⟩ := hsec
        obtain ⟨m1, m2⟩ := rtq_entryEffect_modes env k v base
        obtain ⟨c, h1, h2⟩ := ih dm dup (entryEffect env k v base) (by rw [m1, hdm]) (by rw [m2, hdup]) hside.2 before T hfit
          content n (by rw [e1, e2]; exact hok)
        refine ⟨c, ?_, ?_⟩
        · rw [List.flatMap_cons, NBlock.events, SBlock.events, List.singleton_append,
            parseEventsLoop_cons_nonerror env input _ _ _ (by rintro ⟨d, h⟩; cases h), rtax_entry env input base k v hside.1, h1,
            hpanic]
        · obtain ⟨a1, a2, a3, a4, a5, a6, a7, a8, a9⟩ := h2
          rw [e1, e2, e3] at a1 a2 a3 a4 a5
          refine ⟨by rw [a1]; rfl, by rw [a2]; rfl, by rw [a3]; rfl, by rw [a4]; rfl, by rw [a5]; rfl, ?_, ?_,
            by rw [a8, e6], by rw [a9, e7]⟩
          · rw [a6, e4]; simp [nEntries, docSpans]
          · rw [a7, e4, e5]; simp [nEntries, docSpans]
      | step st =>
        simp only [nSideOK] at hside
        cases dm with
        | components =>
          simp only [List.map_cons, NBlock.y, yOKUB, Bool.and_eq_true, beq_iff_eq, List.all_eq_true] at hok
          obtain ⟨⟨hnew, hcomp⟩, hrest⟩ := hok
          have hcb : CompBase base := ⟨hdm, by rw [hdup]; exact hnew⟩
          have hco : ∀ it ∈ st, it.CompOK env := fun it hit =>
            rtq_compOK env it (hside.1 it hit) (hcomp (it.x env) (List.mem_map_of_mem hit))
          obtain ⟨l1, l2⟩ := rtq_loop_step_comps env input base hcb (r.flatMap NBlock.events) st before T hfit content n hco
          obtain ⟨c, h1, h2⟩ := ih .components dup base hdm hdup hside.2 (before ++ st) _ l2 content n hrest
          refine ⟨c, ?_, ?_⟩
          · rw [List.flatMap_cons, NBlock.events, SBlock.events, l1, h1]
          · obtain ⟨a1, a2, a3, a4, a5, a6, a7, a8, a9⟩ := h2
            exact ⟨by rw [a1]; rfl, by rw [a2]; rfl, by rw [a3]; rfl, by rw [a4]; rfl, by rw [a5]; rfl,
              by rw [a6]; rfl, by rw [a7]; rfl, a8, a9⟩
        | text =>
          simp only [List.map_cons, NBlock.y, yOKUB, Bool.and_eq_true] at hok
          obtain ⟨htxt, hrest⟩ := hok
          have l1 := rtq_loop_step_text env input base hdm (r.flatMap NBlock.events) st before T content n htxt
          obtain ⟨c, h1, h2⟩ := ih .text dup base hdm hdup hside.2 before T hfit _ n hrest
          refine ⟨c, ?_, ?_⟩
          · rw [List.flatMap_cons, NBlock.events, SBlock.events, l1, h1]
          · obtain ⟨a1, a2, a3, a4, a5, a6, a7, a8, a9⟩ := h2
            exact ⟨by rw [a1]; rfl, by rw [a2]; rfl, by rw [a3]; rfl, by rw [a4]; rfl, by rw [a5]; rfl,
              by rw [a6]; rfl, by rw [a7]; rfl, a8, a9⟩
        | all =>
          simp only [List.map_cons, NBlock.y, yOKUB, Bool.and_eq_true, Bool.not_eq_true', List.isEmpty_eq_false_iff] at hok
          obtain ⟨⟨hs, hne⟩, hrest⟩ := hok
          have hne' : st ≠ [] := by simpa using hne
          obtain ⟨l1, l2⟩ := rtqu_loop_step env input base (Or.inl hdm) (r.flatMap NBlock.events) st before T hfit
            (by rw [hdm]; exact hside.1) content n (by rw [hdm, hdup]; exact hs) hne'
          rw [hdm, hdup] at l1 l2
          obtain ⟨c, h1, h2⟩ := ih .all dup base hdm hdup hside.2 (before ++ st) _ l2 _ (n + 1) hrest
          refine ⟨c, ?_, ?_⟩
          · rw [List.flatMap_cons, NBlock.events, SBlock.events, l1, h1]
          · obtain ⟨a1, a2, a3, a4, a5, a6, a7, a8, a9⟩ := h2
            exact ⟨by rw [a1]; rfl, by rw [a2]; rfl, by rw [a3]; rfl, by rw [a4]; rfl, by rw [a5]; rfl,
              by rw [a6]; rfl, by rw [a7]; rfl, a8, a9⟩
        | steps =>
          simp only [List.map_cons, NBlock.y, yOKUB, Bool.and_eq_true, Bool.not_eq_true', List.isEmpty_eq_false_iff] at hok
          obtain ⟨⟨hs, hne⟩, hrest⟩ := hok
          have hne' : st ≠ [] := by simpa using hne
          obtain ⟨l1, l2⟩ := rtqu_loop_step env input base (Or.inr hdm) (r.flatMap NBlock.events) st before T hfit
            (by rw [hdm]; exact hside.1) content n (by rw [hdm, hdup]; exact hs) hne'
          rw [hdm, hdup] at l1 l2
          obtain ⟨c, h1, h2⟩ := ih .steps dup base hdm hdup hside.2 (before ++ st) _ l2 _ (n + 1) hrest
          refine ⟨c, ?_, ?_⟩
          · rw [List.flatMap_cons, NBlock.events, SBlock.events, l1, h1]
          · obtain ⟨a1, a2, a3, a4, a5, a6, a7, a8, a9⟩ := h2
            exact ⟨by rw [a1]; rfl, by rw [a2]; rfl, by rw [a3]; rfl, by rw [a4]; rfl, by rw [a5]; rfl,
              by rw [a6]; rfl, by rw [a7]; rfl, a8, a9⟩

/-- **analysis layer, documents with arbitrary mode switches** -/
theorem rtqu_parseEvents_doc (env : Env) (input : Str) (blocks : List (NBlock α)) (hside : nSideOK env .all blocks)
    (hok : yOKUB env .all .new {} [] ⟨none, []⟩ 1 (blocks.map (NBlock.y env)) = true) :
    ∃ c : Col α, parseEvents env input (blocks.flatMap NBlock.events) = ⟨some c, c.diags, none⟩ ∧
      c.sections = (yRun env .all .new {} [] ⟨none, []⟩ 1 [] (blocks.map (NBlock.y env))).secs ∧
      c.ingredients = (yRun env .all .new {} [] ⟨none, []⟩ 1 [] (blocks.map (NBlock.y env))).T.ing ∧
      c.cookware = (yRun env .all .new {} [] ⟨none, []⟩ 1 [] (blocks.map (NBlock.y env))).T.cw ∧
      c.timers = (yRun env .all .new {} [] ⟨none, []⟩ 1 [] (blocks.map (NBlock.y env))).T.tm ∧
      c.metaMap = (yRun env .all .new {} [] ⟨none, []⟩ 1 [] (blocks.map (NBlock.y env))).metaMap ∧
      c.diags = deprecation (docSpans (nEntries blocks)) ∧
      c.inlineQ = #[] ∧ c.frontMatter = none := by
  have h0 : ({} : Col α) = stOfT {} [] {} [] 1 none := by simp [stOfT, ingrsOf, cwsOf]
  obtain ⟨c, h1, h2⟩ := rtqu_loop_doc env input blocks .all .new {} rfl rfl hside [] {} ⟨rfl, rfl⟩ [] 1 hok
  refine ⟨c, ?_, h2.sections, h2.ingredients, h2.cookware, h2.timers, h2.metaMap, ?_, ?_, ?_⟩
  · unfold parseEvents; rw [h0, h1]
  · rw [h2.diags]; simp
  · rw [h2.inlineQ]
  · rw [h2.frontMatter]


/-! ### from the printed characters -/

/-- End to end for a document with mode-switch lines and references, every extension set. -/
theorem rtqu_parseRecipe_doc (env : Env) (pre : List Tok) (doc : List (DocItem × List Tok))
    (hpre : blankLinesOK pre = true) (hok : ∀ d ∈ doc, d.1.ok env.cs env.ext = true)
    (hside : docSideOK α env .all (doc.map (·.1)))
    (hrefs : yOKUB (α := α) env .all .new {} [] ⟨none, []⟩ 1 (doc.map (fun d => d.1.y env)) = true)
    (hseps : sepsOKT (docSeps doc) = true) (hw : WellSpelled env.cs (pre ++ docSpec doc))
    (hfm : parseFrontmatter env.cs (render (pre ++ docSpec doc)) = none) :
    ∃ (c : Col α) (spans : List Span),
      parseRecipe env (render (pre ++ docSpec doc)) = ⟨some c, c.diags, none⟩ ∧
      c.sections = (yRun (α := α) env .all .new {} [] ⟨none, []⟩ 1 [] (doc.map (fun d => d.1.y env))).secs ∧
      c.ingredients = (yRun (α := α) env .all .new {} [] ⟨none, []⟩ 1 [] (doc.map (fun d => d.1.y env))).T.ing ∧
      c.cookware = (yRun (α := α) env .all .new {} [] ⟨none, []⟩ 1 [] (doc.map (fun d => d.1.y env))).T.cw ∧
      c.timers = (yRun (α := α) env .all .new {} [] ⟨none, []⟩ 1 [] (doc.map (fun d => d.1.y env))).T.tm ∧
      c.metaMap = (yRun (α := α) env .all .new {} [] ⟨none, []⟩ 1 [] (doc.map (fun d => d.1.y env))).metaMap ∧
      c.diags = deprecation spans ∧
      spans.length = ((doc.map (·.1)).filter (DocItem.isEntry α env)).length ∧
      c.inlineQ = #[] ∧ c.frontMatter = none := by
  obtain ⟨blocks0, evss, arr, -, -, hpe, harr, hevs⟩ :=
    rtdt_pullEvents_doc (α := α) env.cs env.ext pre doc hpre hok hseps hw hfm
  obtain ⟨blocks, e1, e2, e3, e4⟩ := rtdm_doc_blocks env doc evss hevs .all hside
  obtain ⟨c, h1, h2, h3, h4, h5, h6, h7, h8, h9⟩ :=
    rtqu_parseEvents_doc env (render (pre ++ docSpec doc)) blocks e2 (by rw [e3]; exact hrefs)
  rw [e3] at h2 h3 h4 h5 h6
  refine ⟨c, docSpans (nEntries blocks), ?_, h2, h3, h4, h5, h6, h7, by simp [docSpans, e4], h8, h9⟩
  unfold parseRecipe
  simp only [hpe, harr, e1]
  rw [h1]

/-! ### the extension conditions as a computable check, for every extension set -/

/-- a sufficient computable form of `SegX.extOK`: under INLINE_QUANTITIES a text run shows something and has no
    digit (then `find_inline_quantity` finds nothing); under ADVANCED_UNITS a timer amount is numeric and its
    unit is one the converter knows as a unit of time -/
def SegX.extB (env : Env) : SegX → Bool
  | .text l => !env.ext.has Gen.EXT_INLINE_QUANTITIES ||
      (!(l.flatMap vis).isEmpty && (l.flatMap vis).all (fun c => !isAsciiDigitC c))
  | .timer c _ => !env.ext.has Gen.EXT_ADVANCED_UNITS ||
      c.qty.all (fun q => !q.val.isText && q.unit.all (fun u => env.findUnit (leafText u) == some env.timeQ))
  | _ => true

theorem rtqu_extB (env : Env) (sg : SegX) (h : sg.extB env = true) : sg.extOK α env := by
  cases sg with
  | text l =>
    intro hon
    simp only [SegX.extB, hon, Bool.not_true, Bool.false_or, Bool.and_eq_true, Bool.not_eq_true',
      List.isEmpty_eq_false_iff] at h
    exact ⟨h.1, rts_no_digit_no_inline env _ _ _ h.2⟩
  | timer c p =>
    intro hon q hq
    simp only [SegX.extB, hon, Bool.not_true, Bool.false_or, hq, Option.all_some, Bool.and_eq_true,
      Bool.not_eq_true'] at h
    refine ⟨h.1, fun u hu => ?_⟩
    have := h.2
    rw [hu] at this
    simpa using this
  | _ => trivial

theorem rtqu_extBM (env : Env) (dm : DefineMode) (sg : SegX) (h : sg.extB env = true) : sg.extOKM α env dm := by
  have := rtqu_extB (α := α) env sg h
  cases sg <;> first | exact this | exact fun _ => this

/-- `docSideB` together with the extension check of every segment -/
def docSideXB (α : Type) [Arith α] (env : Env) (dm : DefineMode) (items : List DocItem) : Bool :=
  docSideB α env dm items &&
  items.all (fun d => match d with
    | .step segs => segs.all (SegX.extB env)
    | _ => true)

theorem rtqu_docSideOK_of_ext (env : Env) : ∀ (items : List DocItem) (dm : DefineMode),
    docSideB α env dm items = true →
    (∀ d ∈ items, ∀ segs, d = .step segs → ∀ sg ∈ segs, ∀ dm', sg.extOKM α env dm') → docSideOK α env dm items := by
  intro items
  induction items with
  | nil => intro _ _ _; trivial
  | cons d r ih =>
    intro dm h hx
    have hx' : ∀ d ∈ r, ∀ segs, d = .step segs → ∀ sg ∈ segs, ∀ dm', sg.extOKM α env dm' :=
      fun d' hd' => hx d' (List.mem_cons_of_mem _ hd')
    cases d with
    | step segs =>
      simp only [docSideB, Bool.and_eq_true, List.all_eq_true] at h
      exact ⟨h.1, fun sg hsg => hx _ (by simp) segs rfl sg hsg dm, ih dm h.2 hx'⟩
    | sectionLine name p => exact ih dm h hx'
    | para lines => exact ih dm h hx'
    | metaLine k v p =>
      simp only [docSideB] at h
      simp only [docSideOK]
      cases hy : metaLineY (α := α) env k v <;> rw [hy] at h <;> simp only [Bool.and_eq_true] at h
      · exact ⟨rtdm_plainB env k v p h.1, ih dm h.2 hx'⟩
      · exact ⟨rtdm_plainB env k v p h.1, ih dm h.2 hx'⟩
      · exact ⟨rtdm_plainB env k v p h.1, ih dm h.2 hx'⟩
      · exact ⟨rtdm_plainB env k v p h.1, ih dm h.2 hx'⟩
      · exact ih _ h hx'
      · exact ih dm h hx'

/-- the table-independent side conditions as ONE computable check, for every extension set -/
theorem rtqu_docSideXB (env : Env) (items : List DocItem) (dm : DefineMode) (h : docSideXB α env dm items = true) :
    docSideOK α env dm items := by
  unfold docSideXB at h
  simp only [Bool.and_eq_true, List.all_eq_true] at h
  refine rtqu_docSideOK_of_ext env items dm h.1 ?_
  intro d hd segs hseg sg hsg dm'
  have := h.2 d hd
  subst hseg
  exact rtqu_extBM env dm' sg (List.all_eq_true.1 this sg hsg)

/-! ### components mode under duplicate mode `reference`: the first occurrence of a name (`rtcr_` prefix) -/

theorem rtcr_resolveReference_first (env : Env) (container : String) (inherit : Nat) (existing : List (Str × Modifiers))
    (name : Str) (mods : Modifiers) (loc modLoc : Span) (s : Col α) (hm : plainMods mods)
    (hd : s.defineMode = .components) (hdup : s.duplicateMode = .reference)
    (hnone : sameNameIdx env existing name = none) :
    resolveReference env container inherit existing name mods loc modLoc s = ((mods, none), s) := by
  unfold resolveReference
  obtain ⟨h1, h2⟩ := hm
  simp [bind, pure, StateT.bind, StateT.pure, get, getThe, MonadStateOf.get, StateT.get, h1, h2, hd, hdup, hnone]

theorem rtcr_ingredientA_first (env : Env) (input : Str) (li : Loc (PIngredient α)) (s : Col α) (h : IngrSimple li)
    (hd : s.defineMode = .components) (hdup : s.duplicateMode = .reference)
    (hnone : sameNameIdx env (s.ingredients.toList.map (fun x => (x.name, x.modifiers))) (ingrOf env li).name = none) :
    ingredientA env input li s =
      (s.ingredients.size, { s with locIngr := s.locIngr.push li, ingredients := s.ingredients.push (ingrOfC env li) }) := by
  unfold ingredientA
  simp only [bind, StateT.bind, rta_optQuantityOf env _ true s h.lock, get, getThe, MonadStateOf.get, StateT.get, pure,
    StateT.pure, hd]
  unfold ingrBuild
  simp only [h.inter, bind, StateT.bind]
  unfold ingrRegular
  simp only [bind, StateT.bind, get, getThe, MonadStateOf.get, StateT.get, pure, StateT.pure]
  rw [rtcr_resolveReference_first env _ _ _ _ _ _ _ s h.mods hd hdup ?_]
  · simp only [modify, modifyGet, MonadStateOf.modifyGet, StateT.modifyGet, Array.size_push, Nat.add_sub_cancel,
      pure, StateT.pure, bind, StateT.bind]
    have hne : (DefineMode.components != DefineMode.components) = false := by decide
    simp only [ingrOfC, ingrOf, hne, hd]
    rfl
  · exact hnone

theorem rtcr_cookwareA_first (env : Env) (input : Str) (lc : Loc (PCookware α)) (s : Col α) (h : CwSimple lc)
    (hd : s.defineMode = .components) (hdup : s.duplicateMode = .reference)
    (hnone : sameNameIdx env (s.cookware.toList.map (fun x => (x.name, x.modifiers))) (cwOf env lc).name = none) :
    cookwareA env input lc s =
      (s.cookware.size, { s with locCw := s.locCw.push lc, cookware := s.cookware.push (cwOfC env lc) }) := by
  unfold cookwareA
  simp only [bind, StateT.bind, rta_optValueOf env _ s h.lock, get, getThe, MonadStateOf.get, StateT.get, pure,
    StateT.pure, hd]
  unfold cwBuild
  simp only [bind, StateT.bind]
  unfold cwResolve
  simp only [bind, StateT.bind, get, getThe, MonadStateOf.get, StateT.get, pure, StateT.pure]
  rw [rtcr_resolveReference_first env _ _ _ _ _ _ _ s h.mods hd hdup ?_]
  · simp only [modify, modifyGet, MonadStateOf.modifyGet, StateT.modifyGet, Array.size_push, Nat.add_sub_cancel,
      pure, StateT.pure, bind, StateT.bind]
    have hne : (DefineMode.components != DefineMode.components) = false := by decide
    simp only [cwOfC, cwOf, hne, hd]
  · exact hnone

theorem rtcr_proc_ingredient_first (env : Env) (input : Str) (li : Loc (PIngredient α)) (s : Col α) (items : List Item)
    (h : IngrSimple li) (hd : s.defineMode = .components) (hdup : s.duplicateMode = .reference)
    (hnone : sameNameIdx env (s.ingredients.toList.map (fun x => (x.name, x.modifiers))) (ingrOf env li).name = none)
    (hb : s.block = some (.step items)) :
    (processEvent env input (.ingredient li) s).2 =
      { s with locIngr := s.locIngr.push li, ingredients := s.ingredients.push (ingrOfC env li),
               block := some (.step (items ++ [.ingredient s.ingredients.size])) } := by
  have e : processEvent env input (.ingredient li) s = inBlockComponent env input (.ingredient li) s := rfl
  rw [e, rta_inBlock_step env input _ s items hb]
  simp only [inStepComponent, bind, StateT.bind, rtcr_ingredientA_first env input li s h hd hdup hnone]
  rw [rta_pushItem _ { s with locIngr := s.locIngr.push li, ingredients := s.ingredients.push (ingrOfC env li) } items hb]

theorem rtcr_proc_cookware_first (env : Env) (input : Str) (lc : Loc (PCookware α)) (s : Col α) (items : List Item)
    (h : CwSimple lc) (hd : s.defineMode = .components) (hdup : s.duplicateMode = .reference)
    (hnone : sameNameIdx env (s.cookware.toList.map (fun x => (x.name, x.modifiers))) (cwOf env lc).name = none)
    (hb : s.block = some (.step items)) :
    (processEvent env input (.cookware lc) s).2 =
      { s with locCw := s.locCw.push lc, cookware := s.cookware.push (cwOfC env lc),
               block := some (.step (items ++ [.cookware s.cookware.size])) } := by
  have e : processEvent env input (.cookware lc) s = inBlockComponent env input (.cookware lc) s := rfl
  rw [e, rta_inBlock_step env input _ s items hb]
  simp only [inStepComponent, bind, StateT.bind, rtcr_cookwareA_first env input lc s h hd hdup hnone]
  rw [rta_pushItem _ { s with locCw := s.locCw.push lc, cookware := s.cookware.push (cwOfC env lc) } items hb]

end Cook
