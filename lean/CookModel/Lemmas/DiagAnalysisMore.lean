import CookModel.Lemmas.DiagAnalysis
/-
  More diagnostics of the analysis pass (C07): the scaling-lock warning (exactly when), conflicting
  modifiers of a resolved reference, modifiers not allowed on an intermediate reference; and the
  quiet direction: a plain definition (no modifiers, no intermediate data, default modes) with any
  quantity pushes nothing, for every extension set.
-/
namespace Cook
variable {α : Type} [Arith α]
set_option linter.unusedSectionVars false
set_option linter.unusedSimpArgs false
set_option linter.unusedVariables false

/-- `Quantity value` → scalable value: the warning `unnecessary-scaling-lock` exactly when there is a
    lock and (the component is not an ingredient or the value is text) -/
theorem valueOf_run (env : Env) (v : PQValue α) (isIngr : Bool) (s : Col α) :
    (valueOf env v isIngr s).2 =
      (if v.lock.isSome && (!isIngr || v.value.val.isText) then
        { s with diags := s.diags.push (adiag .warning "unnecessary-scaling-lock" [v.value.span]) } else s) := by
  unfold valueOf
  cases hl : v.lock.isSome <;> cases hi : isIngr <;> cases ht : v.value.val.isText <;>
    simp +instances [A_bind, A_pure, A_ite, awarn, A_modify, hl, hi, ht, adiag] <;> rfl

theorem valueOf_quiet (env : Env) (v : PQValue α) (isIngr : Bool) (s : Col α)
    (h : v.lock = none ∨ (isIngr = true ∧ v.value.val.isText = false)) : (valueOf env v isIngr s).2 = s := by
  rw [valueOf_run]
  rcases h with h | ⟨h1, h2⟩
  · simp [h]
  · simp [h1, h2]

theorem quantityOf_quiet (env : Env) (q : Loc (PQuantity α)) (isIngr : Bool) (s : Col α)
    (h : q.val.value.lock = none ∨ (isIngr = true ∧ q.val.value.value.val.isText = false)) :
    (quantityOf env q isIngr s).2 = s := by
  unfold quantityOf
  simp only [A_bind, A_pure]
  exact valueOf_quiet env q.val.value isIngr s h

/-- a component without `+`/`&`, in a mode where definitions are not implicit references: nothing happens -/
theorem resolveReference_plain (env : Env) (container : String) (inherit : Nat)
    (existing : List (Str × Modifiers)) (name : Str) (mods : Modifiers) (location modLoc : Span) (s : Col α)
    (hn : mods.contains Modifiers.NEW = false) (hr : mods.contains Modifiers.REF = false)
    (hd : s.defineMode ≠ .steps) (hdup : s.duplicateMode = .new ∨ sameNameIdx env existing name = none) :
    resolveReference env container inherit existing name mods location modLoc s = ((mods, none), s) := by
  have h1 : (s.defineMode == DefineMode.steps) = false := by simpa using hd
  have h2 : (s.duplicateMode == DuplicateMode.reference && (sameNameIdx env existing name).isSome) = false := by
    rcases hdup with h | h
    · rw [h]; rfl
    · rw [h]; simp
  unfold resolveReference
  simp +instances only [A_bind, A_pure, A_get, A_ite, aerr, awarn, A_modify, hn, hr, h1, h2, Bool.false_and,
    Bool.and_false, Bool.or_self, Bool.false_eq_true, if_false, Bool.not_false, if_true, Bool.or_false]

/-- conflicting modifiers of a resolved reference: the modifiers of the reference that the
    definition does not have (other than `&`) -/
def refConflictBits (mods inherited : Modifiers) : Nat :=
  (List.range 16).foldl (fun acc i =>
    let b := 1 <<< i
    if (mods.bits &&& b) != 0 && (inherited.bits &&& b) == 0 && b != Modifiers.REF then acc ||| b else acc) 0

/-- **conflicting modifiers on a reference**: an explicit reference (`&`, no `+`) whose name is found
    (at index `refTo`) and that carries a modifier its definition does not have gets
    `ref-conflicting-modifiers` on the modifiers' span as the last diagnostic, and is resolved -/
theorem resolveReference_conflict (env : Env) (container : String) (inherit : Nat)
    (existing : List (Str × Modifiers)) (name : Str) (mods : Modifiers) (location modLoc : Span) (s : Col α)
    (refTo : Nat) (hn : mods.contains Modifiers.NEW = false) (hr : mods.contains Modifiers.REF = true)
    (hfound : sameNameIdx env existing name = some refTo)
    (hconf : refConflictBits mods ⟨(((existing[refTo]?).map (·.2)).getD Modifiers.empty).bits &&& inherit⟩ ≠ 0) :
    ∃ pre, (resolveReference env container inherit existing name mods location modLoc s).2.diags.toList =
        s.diags.toList ++ pre ++ [adiag .error "ref-conflicting-modifiers" [modLoc]] ∧
      (resolveReference env container inherit existing name mods location modLoc s).1.2 = some ⟨refTo, false⟩ := by
  have hc : (refConflictBits mods ⟨(((existing[refTo]?).map (·.2)).getD Modifiers.empty).bits &&& inherit⟩ != 0) = true := by
    simpa using hconf
  unfold refConflictBits at hc
  unfold resolveReference
  simp +instances only [A_bind, A_pure, A_get, A_ite, aerr, awarn, A_modify, hn, hr, hfound, Bool.false_and,
    Bool.and_false, Bool.false_eq_true, if_false, Bool.true_or, Bool.not_true, if_true, Bool.and_true, hc]
  split
  · exact ⟨[adiag .warning "redundant-ref" [modLoc]], by simp [adiag], rfl⟩
  · exact ⟨[], by simp [adiag], rfl⟩

/-- **modifiers not allowed on an intermediate reference** (`@`, `-`, `+` together with `&(…)`) -/
theorem ingrInterChecks_run (i : PIngredient α) (igr : Ingredient (ScalableValue α)) (s : Col α)
    (hr : igr.modifiers.contains Modifiers.REF = true) :
    (ingrInterChecks i igr s).2 =
      (if (igr.modifiers.bits &&& (Modifiers.RECIPE ||| Modifiers.HIDDEN ||| Modifiers.NEW)) != 0 then
        { s with diags := s.diags.push (adiag .error "inter-ref-conflicting-modifiers" [i.modifiers.span]) }
       else s) := by
  unfold ingrInterChecks
  simp +instances only [A_bind, A_pure, A_ite, aerr, A_modify, hr, Bool.not_true, Bool.false_eq_true, if_false]
  split <;> rfl

/-! ### the quiet direction -/

/-- a plain ingredient definition -/
theorem ingredientA_quiet (env : Env) (input : Str) (li : Loc (PIngredient α)) (s : Col α)
    (hi : li.val.inter = none) (hn : li.val.modifiers.val.contains Modifiers.NEW = false)
    (hr : li.val.modifiers.val.contains Modifiers.REF = false)
    (hq : ∀ q, li.val.quantity = some q → q.val.value.lock = none ∨ q.val.value.value.val.isText = false)
    (hd : s.defineMode ≠ .steps) (hdup : s.duplicateMode = .new) :
    (ingredientA env input li s).2.diags = s.diags := by
  have hoq : (optQuantityOf env li.val.quantity true s).2 = s := by
    unfold optQuantityOf
    cases hqq : li.val.quantity with
    | none => rfl
    | some q =>
      simp only [A_bind, A_pure]
      refine quantityOf_quiet env q true s ?_
      rcases hq q hqq with h | h
      · exact Or.inl h
      · exact Or.inr ⟨rfl, h⟩
  unfold ingredientA ingrBuild ingrRegular
  simp +instances only [A_bind, A_pure, A_get, hoq, hi]
  rw [resolveReference_plain env _ _ _ _ _ _ _ s hn hr hd (Or.inl hdup)]
  simp +instances only [A_bind, A_pure, A_get, A_modify]

/-- a plain cookware definition -/
theorem cookwareA_quiet (env : Env) (input : Str) (lc : Loc (PCookware α)) (s : Col α)
    (hn : lc.val.modifiers.val.contains Modifiers.NEW = false)
    (hr : lc.val.modifiers.val.contains Modifiers.REF = false)
    (hq : ∀ q, lc.val.quantity = some q → q.val.lock = none)
    (hd : s.defineMode ≠ .steps) (hdup : s.duplicateMode = .new) :
    (cookwareA env input lc s).2.diags = s.diags := by
  have hoq : (optValueOf env lc.val.quantity s).2 = s := by
    unfold optValueOf
    cases hqq : lc.val.quantity with
    | none => rfl
    | some q =>
      simp only [A_bind, A_pure]
      exact valueOf_quiet env q.val false s (Or.inl (hq q hqq))
  unfold cookwareA cwBuild cwResolve
  simp +instances only [A_bind, A_pure, A_get, hoq]
  rw [resolveReference_plain env _ _ _ _ _ _ _ s hn hr hd (Or.inl hdup)]
  simp +instances only [A_bind, A_pure, A_get, A_modify]

/-- a timer: quiet when ADVANCED_UNITS is off, or the value is a number and the unit is a time unit
    (or there is no quantity) -/
theorem timerA_quiet (env : Env) (lt : Loc (PTimer α)) (s : Col α)
    (hq : ∀ q, lt.val.quantity = some q → q.val.value.lock = none ∧
      (env.ext.has Gen.EXT_ADVANCED_UNITS = false ∨
       (q.val.value.value.val.isText = false ∧ ∃ u, q.val.unit = some u ∧
          env.findUnit (u.trimmed env.cs) = some env.timeQ))) :
    (timerA env lt s).2.diags = s.diags := by
  have htq : (timerQuantity env lt.val.quantity s).2 = s := by
    unfold timerQuantity
    cases hqq : lt.val.quantity with
    | none => rfl
    | some q =>
      obtain ⟨hl, hrest⟩ := hq q hqq
      have h1 : (quantityOf env q false s).2 = s := quantityOf_quiet env q false s (Or.inl hl)
      simp only [A_bind, A_pure]
      rw [h1]
      rcases hrest with he | ⟨ht, u, hu, hf⟩
      · unfold timerQuantityChecks
        simp +instances only [A_bind, A_pure, A_ite, he, Bool.false_eq_true, if_false]
      · have hr : (quantityOf env q false s).1 = ⟨.fixed q.val.value.value.val, q.val.unit.map (fun t => t.trimmed env.cs)⟩ := by
          unfold quantityOf valueOf
          simp +instances [A_bind, A_pure, A_ite, hl]
        cases he : env.ext.has Gen.EXT_ADVANCED_UNITS
        · unfold timerQuantityChecks
          simp +instances only [A_bind, A_pure, A_ite, he, Bool.false_eq_true, if_false]
        · exact (timerQuantityChecks_unit env q _ s (u.trimmed env.cs) he (by rw [hr]; exact ht)
            (by rw [hr, hu]; rfl)).2.2 hf
  unfold timerA
  simp +instances only [A_bind, A_pure, A_get, A_modify, htq]

end Cook
