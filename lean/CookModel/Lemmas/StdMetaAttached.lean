import CookModel.Lemmas.StdMetaCoupling
/-
  C13 — renamed-units converters, attached forms (`90min`, `1.5h`): `parse_time_with_units` splits a word at its first
  character that is neither an ASCII digit nor `.`; under a renaming `ρ` of the unit names the split is the same as long
  as the renamed unit, too, starts with such a character.
-/
namespace Cook.SM
open Cook

/-- one piece of a duration text: `90 min` (two words) or `90min` (one word) -/
inductive TimeTok where
  | spaced (n u : Str)
  | attached (n u : Str)

/-- the words a piece contributes when unit names are written through `ρ` -/
def TimeTok.words (ρ : Str → Str) : TimeTok → List Str
  | .spaced n u => [n, ρ u]
  | .attached n u => [n ++ ρ u]

/-- starts with a character that is neither an ASCII digit nor `.` (so it is not empty) -/
def StartsUnit (s : Str) : Prop := ∃ ch rest, s = ch :: rest ∧ isNumCh ch = false

/-- the number part consists of digits and `.`; an attached unit — in both spellings — starts where the number ends -/
def TimeTok.Ok (ρ : Str → Str) : TimeTok → Prop
  | .spaced n _ => n.all isNumCh = true
  | .attached n u => n.all isNumCh = true ∧ StartsUnit u ∧ StartsUnit (ρ u)

theorem sma_all_false (n : Str) (ch : Char) (rest : Str) (hc : isNumCh ch = false) :
    (n ++ ch :: rest).all isNumCh = false := by
  simp [List.all_append, hc]

theorem sma_takeWhile (n : Str) (ch : Char) (rest : Str) (hn : n.all isNumCh = true) (hc : isNumCh ch = false) :
    (n ++ ch :: rest).takeWhile isNumCh = n := by
  induction n with
  | nil => simp [hc]
  | cons a t ih =>
    simp only [List.all_cons, Bool.and_eq_true] at hn
    simp [hn.1, ih hn.2]

theorem sma_dropWhile (n : Str) (ch : Char) (rest : Str) (hn : n.all isNumCh = true) (hc : isNumCh ch = false) :
    (n ++ ch :: rest).dropWhile isNumCh = ch :: rest := by
  induction n with
  | nil => simp [hc]
  | cons a t ih =>
    simp only [List.all_cons, Bool.and_eq_true] at hn
    simp [hn.1, ih hn.2]

/-- the loop of `parse_time_with_units` over spaced and attached pieces: a converter that renames the hard-coded units
    reads the renamed text as the empty converter reads the original one -/
theorem sma_pairLoop_renamed (c : Conv Rat) (ρ : Str → Str) (h : Renames c ρ) (ts : List TimeTok)
    (hok : ∀ t ∈ ts, t.Ok ρ) (total : Rat) :
    pairLoop c total (ts.flatMap (TimeTok.words ρ)) = pairLoop emptyConv total (ts.flatMap (TimeTok.words id)) := by
  induction ts generalizing total with
  | nil => simp [pairLoop]
  | cons t ts ih =>
    have ht := hok t (by simp)
    have ih' := fun tot => ih (fun q hq => hok q (by simp [hq])) tot
    cases t with
    | spaced n u =>
      simp only [TimeTok.Ok] at ht
      simp only [List.flatMap_cons, TimeTok.words, List.cons_append, List.nil_append, id]
      rw [pairLoop.eq_def, pairLoop.eq_def (c := emptyConv)]
      simp only [ht, if_true, pairStep_renamed c ρ h]
      cases pairStep emptyConv total n u with
      | none => rfl
      | some t => exact ih' t
    | attached n u =>
      obtain ⟨hn, ⟨ch, rest, hu, hc⟩, ⟨ch', rest', hu', hc'⟩⟩ := ht
      simp only [List.flatMap_cons, TimeTok.words, List.cons_append, List.nil_append, id]
      rw [pairLoop.eq_def, pairLoop.eq_def (c := emptyConv)]
      have e1 : (n ++ ρ u).all isNumCh = false := by rw [hu']; exact sma_all_false n ch' rest' hc'
      have e2 : (n ++ u).all isNumCh = false := by rw [hu]; exact sma_all_false n ch rest hc
      have e3 : (n ++ ρ u).takeWhile isNumCh = n := by rw [hu']; exact sma_takeWhile n ch' rest' hn hc'
      have e4 : (n ++ u).takeWhile isNumCh = n := by rw [hu]; exact sma_takeWhile n ch rest hn hc
      have e5 : (n ++ ρ u).dropWhile isNumCh = ρ u := by rw [hu']; exact sma_dropWhile n ch' rest' hn hc'
      have e6 : (n ++ u).dropWhile isNumCh = u := by rw [hu]; exact sma_dropWhile n ch rest hn hc
      simp only [e1, e2, e3, e4, e5, e6, Bool.false_eq_true, if_false, pairStep_renamed c ρ h]
      cases pairStep emptyConv total n u with
      | none => rfl
      | some t => exact ih' t

end Cook.SM
