import CookModel.Syntax.Ast
import CookModel.Lemmas.CloseC03
/-
  `build_ast` (Syntax/Ast.lean): no panic on well bracketed event streams (C03), and every node of
  the AST is taken over unchanged from an event of the stream, so every source location of the AST
  is a valid span of the input when the events' are (C04).
-/
set_option linter.unusedVariables false
set_option linter.unusedSectionVars false
namespace Cook
variable {α : Type} [Arith α]

/-! ### no panic -/

def AstItem.isText : AstItem α → Bool
  | .text _ => true
  | _ => false

theorem astBuild_texts_some (items : List (AstItem α)) (h : ∀ it ∈ items, it.isText = true) :
    ∃ ts, astTexts items = some ts := by
  induction items with
  | nil => exact ⟨[], rfl⟩
  | cons a t ih =>
    obtain ⟨ts, hts⟩ := ih (fun it hit => h it (List.mem_cons_of_mem _ hit))
    cases a with
    | text x => exact ⟨x :: ts, by simp [astTexts, hts]⟩
    | ingredient i => have := h _ (List.mem_cons_self ..); simp [AstItem.isText] at this
    | cookware i => have := h _ (List.mem_cons_self ..); simp [AstItem.isText] at this
    | timer i => have := h _ (List.mem_cons_self ..); simp [AstItem.isText] at this

/-- the invariant of the fold relative to the open block `o` of the bracketing automaton: no panic so
    far, and inside a `Text` block the item buffer holds only text -/
def AstRel (s : AstState α) (o : Option BlockKind) : Prop :=
  s.panic = none ∧ (o = some .text → ∀ it ∈ s.items, it.isText = true)

theorem astBuild_step_rel (s : AstState α) (o o' : Option BlockKind) (ev : Ev α)
    (hr : AstRel s o) (hw : wbStep o ev = some o') : AstRel (astStep s ev) o' := by
  obtain ⟨hp, hi⟩ := hr
  cases ev with
  | frontMatter t =>
    simp only [wbStep, Option.some.injEq] at hw; subst hw
    exact ⟨hp, hi⟩
  | metadata k v =>
    simp only [wbStep] at hw
    split at hw
    · simp only [Option.some.injEq] at hw; subst hw
      exact ⟨hp, fun h => by cases h⟩
    · cases hw
  | «section» n =>
    simp only [wbStep, Option.some.injEq] at hw; subst hw
    exact ⟨hp, hi⟩
  | start k =>
    simp only [wbStep] at hw
    split at hw
    · simp only [Option.some.injEq] at hw; subst hw
      exact ⟨hp, fun _ it hit => by simp [astStep] at hit⟩
    · cases hw
  | stop k =>
    simp only [wbStep] at hw
    split at hw
    · rename_i hk
      simp only [Option.some.injEq] at hw; subst hw
      cases k with
      | step =>
        refine ⟨?_, fun h => by cases h⟩
        simp only [astStep]
        split <;> exact hp
      | text =>
        refine ⟨?_, fun h => by cases h⟩
        obtain ⟨ts, hts⟩ := astBuild_texts_some s.items (hi hk)
        simp only [astStep, hts]
        exact hp
    · cases hw
  | text t =>
    simp only [wbStep] at hw
    split at hw
    · cases hw
    · simp only [Option.some.injEq] at hw; subst hw
      refine ⟨hp, fun h it hit => ?_⟩
      simp only [astStep, List.mem_append, List.mem_singleton] at hit
      rcases hit with hit | rfl
      · exact hi h it hit
      · rfl
  | ingredient i =>
    simp only [wbStep] at hw
    split at hw
    · rename_i hk
      simp only [Option.some.injEq] at hw; subst hw
      exact ⟨hp, fun h => by rw [hk] at h; cases h⟩
    · cases hw
  | cookware i =>
    simp only [wbStep] at hw
    split at hw
    · rename_i hk
      simp only [Option.some.injEq] at hw; subst hw
      exact ⟨hp, fun h => by rw [hk] at h; cases h⟩
    · cases hw
  | timer i =>
    simp only [wbStep] at hw
    split at hw
    · rename_i hk
      simp only [Option.some.injEq] at hw; subst hw
      exact ⟨hp, fun h => by rw [hk] at h; cases h⟩
    · cases hw
  | error d =>
    simp only [wbStep, Option.some.injEq] at hw; subst hw
    exact ⟨hp, hi⟩
  | warning d =>
    simp only [wbStep, Option.some.injEq] at hw; subst hw
    exact ⟨hp, hi⟩

theorem astBuild_fold_no_panic (evs : List (Ev α)) (s : AstState α) (o : Option BlockKind)
    (hr : AstRel s o) (hw : WBFrom o evs) : (evs.foldl astStep s).panic = none := by
  induction evs generalizing s o with
  | nil => exact hr.1
  | cons ev rest ih =>
    obtain ⟨o', h1, h2⟩ := hw
    exact ih (astStep s ev) o' (astBuild_step_rel s o o' ev hr h1) h2

/-- `build_ast` never reaches its `panic!` on a well bracketed event stream -/
theorem astBuild_no_panic (evs : List (Ev α)) (hw : WellBracketed evs) : (buildAst evs).panic = none :=
  astBuild_fold_no_panic evs {} none ⟨rfl, fun h => by cases h⟩ hw

/-- `build_ast` over `PullParser`: no panic for any input, given that the pull parser does not panic
    (`C03_parse_events_no_panic`) -/
theorem astBuild_input_no_panic (cs : CharSpec) (ext : Ext) (input : List Char)
    (h1 : (pullEvents (α := α) cs ext input).2 = none) :
    (buildAstOfInput (α := α) cs ext input).panic = none := by
  unfold buildAstOfInput
  simp only [h1]
  exact astBuild_no_panic _ (pullEvents_wellBracketed cs ext input)

/-! ### the nodes of the AST are the events' payloads -/

/-- the event an item was made from -/
def AstItem.toEv : AstItem α → Ev α
  | .text t => .text t
  | .ingredient i => .ingredient i
  | .cookware c => .cookware c
  | .timer t => .timer t

/-- every source location of a block is a valid span of `w`, every text is faithful: the blocks that are
    copies of an event satisfy `EvSpansOK` as that event, a step does for each of its items, a text block
    for each of its texts -/
def AstBlockOK (off : Nat) (w : List Char) : AstBlock α → Prop
  | .frontMatter t => EvSpansOK (α := α) off w (.frontMatter t)
  | .metadata k v => EvSpansOK (α := α) off w (.metadata k v)
  | .«section» n => EvSpansOK (α := α) off w (.«section» n)
  | .step items => ∀ it ∈ items, EvSpansOK off w it.toEv
  | .textBlock ts => ∀ t ∈ ts, TextOK off w t

structure AstOK (off : Nat) (w : List Char) (s : AstState α) : Prop where
  blocks : ∀ b ∈ s.blocks, AstBlockOK off w b
  items : ∀ it ∈ s.items, EvSpansOK off w it.toEv
  diags : ∀ d ∈ s.diags, DiagOK off w d

theorem astBuild_texts_ok {off : Nat} {w : List Char} (items : List (AstItem α)) (ts : List Text)
    (h : astTexts items = some ts) (hi : ∀ it ∈ items, EvSpansOK off w it.toEv) :
    ∀ t ∈ ts, TextOK off w t := by
  induction items generalizing ts with
  | nil => simp only [astTexts, Option.some.injEq] at h; subst h; intro t ht; cases ht
  | cons a rest ih =>
    cases a with
    | text x =>
      simp only [astTexts] at h
      split at h
      · rename_i ts' hts'
        simp only [Option.some.injEq] at h; subst h
        intro t ht
        simp only [List.mem_cons] at ht
        rcases ht with rfl | ht
        · exact hi (.text t) (List.mem_cons_self ..)
        · exact ih ts' hts' (fun it hit => hi it (List.mem_cons_of_mem _ hit)) t ht
      · cases h
    | ingredient i => simp [astTexts] at h
    | cookware i => simp [astTexts] at h
    | timer i => simp [astTexts] at h

theorem AstOK.pushBlock {off : Nat} {w : List Char} {s : AstState α} (h : AstOK off w s) (b : AstBlock α)
    (hb : AstBlockOK off w b) : ∀ x ∈ s.blocks ++ [b], AstBlockOK off w x := by
  intro x hx
  simp only [List.mem_append, List.mem_singleton] at hx
  rcases hx with hx | rfl
  · exact h.blocks x hx
  · exact hb

theorem AstOK.pushItem {off : Nat} {w : List Char} {s : AstState α} (h : AstOK off w s) (it : AstItem α)
    (hb : EvSpansOK off w it.toEv) : ∀ x ∈ s.items ++ [it], EvSpansOK off w x.toEv := by
  intro x hx
  simp only [List.mem_append, List.mem_singleton] at hx
  rcases hx with hx | rfl
  · exact h.items x hx
  · exact hb

theorem astBuild_step_ok {off : Nat} {w : List Char} (s : AstState α) (ev : Ev α) (h : AstOK off w s)
    (hev : EvSpansOK off w ev) : AstOK off w (astStep s ev) := by
  have nil_items : ∀ it ∈ ([] : List (AstItem α)), EvSpansOK off w it.toEv := fun it hit => by cases hit
  cases ev with
  | frontMatter t => exact ⟨h.pushBlock _ hev, h.items, h.diags⟩
  | metadata k v => exact ⟨h.pushBlock _ hev, h.items, h.diags⟩
  | «section» n => exact ⟨h.pushBlock _ hev, h.items, h.diags⟩
  | start k => exact ⟨h.blocks, nil_items, h.diags⟩
  | stop k =>
    cases k with
    | step =>
      simp only [astStep]
      split
      · exact h
      · exact ⟨h.pushBlock (.step s.items) h.items, nil_items, h.diags⟩
    | text =>
      simp only [astStep]
      split
      · rename_i ts hts
        exact ⟨h.pushBlock (.textBlock ts) (astBuild_texts_ok s.items ts hts h.items), nil_items, h.diags⟩
      · exact ⟨h.blocks, nil_items, h.diags⟩
  | text t => exact ⟨h.blocks, h.pushItem (.text t) hev, h.diags⟩
  | ingredient i => exact ⟨h.blocks, h.pushItem (.ingredient i) hev, h.diags⟩
  | cookware i => exact ⟨h.blocks, h.pushItem (.cookware i) hev, h.diags⟩
  | timer i => exact ⟨h.blocks, h.pushItem (.timer i) hev, h.diags⟩
  | error d =>
    refine ⟨h.blocks, h.items, ?_⟩
    intro x hx
    simp only [astStep, List.mem_append, List.mem_singleton] at hx
    rcases hx with hx | rfl
    · exact h.diags x hx
    · exact hev
  | warning d =>
    refine ⟨h.blocks, h.items, ?_⟩
    intro x hx
    simp only [astStep, List.mem_append, List.mem_singleton] at hx
    rcases hx with hx | rfl
    · exact h.diags x hx
    · exact hev

theorem astBuild_fold_ok {off : Nat} {w : List Char} (evs : List (Ev α)) (s : AstState α)
    (h : AstOK off w s) (hev : ∀ ev ∈ evs, EvSpansOK off w ev) : AstOK off w (evs.foldl astStep s) := by
  induction evs generalizing s with
  | nil => exact h
  | cons ev rest ih =>
    exact ih (astStep s ev) (astBuild_step_ok s ev h (hev ev (List.mem_cons_self ..)))
      (fun e he => hev e (List.mem_cons_of_mem _ he))

theorem astBuild_ok {off : Nat} {w : List Char} (evs : List (Ev α))
    (hev : ∀ ev ∈ evs, EvSpansOK off w ev) : AstOK off w (buildAst evs) :=
  astBuild_fold_ok evs {} ⟨fun b hb => (by cases hb), fun b hb => (by cases hb), fun b hb => (by cases hb)⟩ hev

/-- the AST of any input: all source locations valid -/
theorem astBuild_input_ok (cs : CharSpec) (ext : Ext) (s : List Char) :
    AstOK 0 s (buildAstOfInput (α := α) cs ext s) := by
  obtain ⟨b, h⟩ := pullEvents_topInv (α := α) cs ext s (frontMatterOffsetsOK cs s)
  have := astBuild_ok (off := 0) (w := s) (pullEvents (α := α) cs ext s).1.toList h.ok
  exact ⟨this.blocks, this.items, this.diags⟩

end Cook
