import CookModel.Lemmas.DiagPlaceDocInst
/-
  C07, arbitrary placement, document level: the QUANTITY family (`c07x_` prefix, wave 8).  The pieces
  `c07w_ingredient_qty_piece`, `c07w_cookware_qty_piece`, `c07w_timer_qty_piece` (Lemmas/DiagPlaceFam.lean) are
  stated on ACTUAL tokens; here the construct is given by SPECIFICATION tokens and the reading of the quantity
  tokens by `parse_quantity` is given for every token list spelling the specified quantity tokens (the pushed
  events — their labels — are a function of the actual tokens).  The shape, the alias condition, "the name shows a
  non-blank character", "the braces hold a non-padding token" read kinds and texts only, so they transfer.
-/
set_option linter.unusedSectionVars false
set_option linter.unusedSimpArgs false
set_option linter.unusedVariables false
namespace Cook

variable {α : Type} [Arith α]

/-- the shape of a braces component not followed by `(` reads kinds only -/
theorem c07x_shape_transfer {e : Ext} {k : TK} {tm tm' : Tok} {ms ms' nameT nameT' : List Tok} {tob tob' : Tok}
    {Q Q' : List Tok} {tcb tcb' : Tok} {rest rest' : List Tok} (sh : PlShape e k tm ms nameT tob Q tcb rest)
    (k1 : tm'.kind = tm.kind) (k2 : Spells ms' ms) (k3 : Spells nameT' nameT) (k4 : tob'.kind = tob.kind)
    (k5 : Spells Q' Q) (k6 : tcb'.kind = tcb.kind) (k7 : Spells rest' rest) :
    PlShape e k tm' ms' nameT' tob' Q' tcb' rest' := by
  have shN := c07d_shapeN_transfer sh.toN k1 k2 k3 k4 k5 k6
  refine ⟨shN.hk, shN.hm, shN.hn, shN.hob, shN.hQ, shN.hcb, ?_⟩
  intro t ht
  have hh := k7.head_kind
  rw [ht] at hh
  cases hr : rest.head? with
  | none => rw [hr] at hh; simp at hh
  | some u =>
    rw [hr] at hh
    simp only [Option.map_some, Option.some.injEq] at hh
    rw [hh]; exact sh.hrest u hr

/-- a name showing a non-blank character in a plain token is not blank, whatever the positions -/
theorem c07x_name_transfer {cs : CharSpec} {nameT nameS : List Tok} (k : Spells nameT nameS)
    (h : ∃ t ∈ nameS, plainKind t.kind = true ∧ NBs cs t.text) (o : Nat) :
    (buildText o nameT).isTextEmpty cs = false := by
  obtain ⟨u, hu, hp, hn⟩ := h
  obtain ⟨t, ht, hk, htx⟩ := k.mem' hu
  exact buildText_not_empty o nameT ⟨t, ht, by rw [hk]; exact hp, by rw [htx]; exact hn⟩

theorem c07x_notpad_transfer {Q QS : List Tok} (k : Spells Q QS) (h : ∃ t ∈ QS, isPadK t = false) :
    ∃ t ∈ Q, isPadK t = false := by
  obtain ⟨u, hu, hp⟩ := h
  obtain ⟨t, ht, hk, -⟩ := k.mem' hu
  exact ⟨t, ht, by unfold isPadK at hp ⊢; rw [hk]; exact hp⟩

theorem c07x_alias_transfer {e : Ext} {nameT nameS : List Tok} (k : Spells nameT nameS)
    (ha : e.has Gen.EXT_COMPONENT_ALIAS = false ∨ ∀ t ∈ nameS, t.kind ≠ .or) :
    e.has Gen.EXT_COMPONENT_ALIAS = false ∨ ∀ t ∈ nameT, t.kind ≠ .or := by
  rcases ha with h | h
  · exact Or.inl h
  · exact Or.inr (c07d_kind_of_spells k (fun k => k ≠ .or) h)

theorem c07x_head_transfer {ts spec : List Tok} {u : Tok} (h : Spells ts spec) (hu : spec.head? = some u) :
    ∃ t, ts.head? = some t ∧ t.kind = u.kind := by
  cases spec with
  | nil => simp at hu
  | cons u' r =>
    simp only [List.head?_cons, Option.some.injEq] at hu
    subst hu
    obtain ⟨t, ts', rfl, hk, -, -⟩ := h.cons_inv
    exact ⟨t, rfl, hk⟩

/-- tokens spelling `value % unit` are such a quantity, part by part -/
theorem c07x_pct_spells_inv {Q vtS utS : List Tok} {pctS : Tok} (h : Spells Q (vtS ++ pctS :: utS)) :
    ∃ (vt : List Tok) (pct : Tok) (ut : List Tok), Q = vt ++ pct :: ut ∧ Spells vt vtS ∧ pct.kind = pctS.kind ∧
      Spells ut utS := by
  obtain ⟨vt, r, rfl, k1, h1⟩ := h.append_inv
  obtain ⟨pct, ut, rfl, k2, -, k3⟩ := h1.cons_inv
  exact ⟨vt, pct, ut, rfl, k1, k2, k3⟩

/-- the events of an ingredient `@name{Q}` whose quantity tokens are read as `l` / `R` say, planted in the block
    `T` after `tpre`, its actual tokens being `tB`: exactly `l Q` (`Q` the actual quantity tokens), then the
    ingredient carrying the quantity read, on the byte range of the construct -/
def c07x_ingrQtySpec (nameS QS : List Tok) (l : List Tok → List (Ev α)) (R : List Tok → ParsedQuantity α → Prop)
    (T tpre tB : List Tok) (evs : List (Ev α)) : Prop :=
  ∃ (tm : Tok) (nameT : List Tok) (tob : Tok) (Q : List Tok) (tcb : Tok),
    tB = c07p_comp tm [] nameT tob Q tcb ∧ Spells nameT nameS ∧ Spells Q QS ∧
    ∃ q : ParsedQuantity α, R Q q ∧
      evs = l Q ++ [.ingredient ⟨⟨⟨Modifiers.empty, Span.pos (offAt T (tpre.length + 1))⟩, none,
        buildText (offAt T (tpre.length + 1)) nameT, none, some q.quantity, none⟩,
        ⟨offAt T tpre.length, offAt T (tpre.length + tB.length)⟩⟩]

/-- the same for a cookware item `#name{Q}`: `l Q`, then `cookware-unit` iff the quantity read has a unit, then
    the item -/
def c07x_cwQtySpec (nameS QS : List Tok) (l : List Tok → List (Ev α)) (R : List Tok → ParsedQuantity α → Prop)
    (T tpre tB : List Tok) (evs : List (Ev α)) : Prop :=
  ∃ (tm : Tok) (nameT : List Tok) (tob : Tok) (Q : List Tok) (tcb : Tok),
    tB = c07p_comp tm [] nameT tob Q tcb ∧ Spells nameT nameS ∧ Spells Q QS ∧
    ∃ q : ParsedQuantity α, R Q q ∧
      evs = l Q ++ c07f_cwUnitEvs q ++ [.cookware ⟨⟨⟨Modifiers.empty, Span.pos (offAt T (tpre.length + 1))⟩,
        buildText (offAt T (tpre.length + 1)) nameT, none, some ⟨q.quantity.val.value, q.quantity.span⟩, none⟩,
        ⟨offAt T tpre.length, offAt T (tpre.length + tB.length)⟩⟩]

/-- the same for a timer `~ mods name { Q }` followed by anything: the head diagnostics, the note warning, `l Q`,
    then `timer-missing-unit` iff the quantity read has no unit, then the timer -/
def c07x_timerQtySpec (cs : CharSpec) (e : Ext) (msS nameS QS : List Tok) (l : List Tok → List (Ev α))
    (R : List Tok → ParsedQuantity α → Prop) (T tpre tB : List Tok) (evs : List (Ev α)) : Prop :=
  ∃ (tm : Tok) (ms nameT : List Tok) (tob : Tok) (Q : List Tok) (tcb : Tok),
    tB = c07p_comp tm ms nameT tob Q tcb ∧ Spells ms msS ∧ Spells nameT nameS ∧ Spells Q QS ∧
    ∃ q : ParsedQuantity α, R Q q ∧
      evs = c07w_timerHeadEvs ms nameT e ++ c07w_noteEvs T (tpre.length + tB.length) ++
        (l Q ++ c07f_missingUnitEvs q) ++
        [.timer ⟨⟨if (buildText (offAt T (tpre.length + 1 + ms.length)) nameT).isTextEmpty cs then none
            else some (buildText (offAt T (tpre.length + 1 + ms.length)) nameT), some q.quantity⟩,
          ⟨offAt T tpre.length, offAt T (tpre.length + tB.length)⟩⟩]

/-- an ingredient whose quantity raises diagnostics is a piece at its position on every actual block spelling it -/
theorem c07x_ingredient_qty_pieceAt (cs : CharSpec) (e : Ext) (tmS : Tok) (nameS : List Tok) (tobS : Tok)
    (QS : List Tok) (tcbS : Tok) (restS : List Tok) (sh : PlShape e .at tmS [] nameS tobS QS tcbS restS)
    (ha : e.has Gen.EXT_COMPONENT_ALIAS = false ∨ ∀ t ∈ nameS, t.kind ≠ .or)
    (hname : ∃ t ∈ nameS, plainKind t.kind = true ∧ NBs cs t.text)
    (hne : ∃ t ∈ QS, isPadK t = false) (l : List Tok → List (Ev α)) (R : List Tok → ParsedQuantity α → Prop)
    (hQ : ∀ Q, Spells Q QS → ∀ sq : BP α, sq.cs = cs → sq.ext = e →
      Sat (parseQuantity (α := α) Q) sq (fun r s' => Pushed (l Q) sq s' ∧ R Q r))
    (T tpre tB tpost : List Tok) (hT : T = tpre ++ (tB ++ tpost))
    (hsB : Spells tB (c07p_comp tmS [] nameS tobS QS tcbS)) (hpost : Spells tpost restS)
    (hrun : RunAt (baseOff T) T) :
    PlPieceAt (α := α) T cs e tpre ⟨tB, c07x_ingrQtySpec nameS QS l R T tpre tB⟩ := by
  obtain ⟨tm, ms, nameT, tob, Q, tcb, rfl, k1, k2, k3, k4, k5, k6⟩ := c07d_comp_spells_inv hsB
  have hms := k2.nil_inv
  subst hms
  have sh' := c07x_shape_transfer sh k1 k2 k3 k4 k5 k6 hpost
  have hw : WF T := ⟨by rw [hT]; simp [c07p_comp], hrun⟩
  exact (c07w_ingredient_qty_piece (α := α) T tpre tpost cs e tm nameT tob Q tcb hT hw sh'
      (c07x_alias_transfer k3 ha) (c07x_name_transfer k3 hname _) (c07x_notpad_transfer k5 hne) (l Q) (R Q)
      (hQ Q k5)).mono
    (fun evs ⟨q, hq, he⟩ => ⟨tm, nameT, tob, Q, tcb, rfl, k3, k5, q, hq, he⟩)

/-- a cookware item whose quantity raises diagnostics is a piece at its position on every actual block spelling it -/
theorem c07x_cookware_qty_pieceAt (cs : CharSpec) (e : Ext) (tmS : Tok) (nameS : List Tok) (tobS : Tok)
    (QS : List Tok) (tcbS : Tok) (restS : List Tok) (sh : PlShape e .hash tmS [] nameS tobS QS tcbS restS)
    (ha : e.has Gen.EXT_COMPONENT_ALIAS = false ∨ ∀ t ∈ nameS, t.kind ≠ .or)
    (hname : ∃ t ∈ nameS, plainKind t.kind = true ∧ NBs cs t.text)
    (hne : ∃ t ∈ QS, isPadK t = false) (l : List Tok → List (Ev α)) (R : List Tok → ParsedQuantity α → Prop)
    (hQ : ∀ Q, Spells Q QS → ∀ sq : BP α, sq.cs = cs → sq.ext = e →
      Sat (parseQuantity (α := α) Q) sq (fun r s' => Pushed (l Q) sq s' ∧ R Q r))
    (T tpre tB tpost : List Tok) (hT : T = tpre ++ (tB ++ tpost))
    (hsB : Spells tB (c07p_comp tmS [] nameS tobS QS tcbS)) (hpost : Spells tpost restS)
    (hrun : RunAt (baseOff T) T) :
    PlPieceAt (α := α) T cs e tpre ⟨tB, c07x_cwQtySpec nameS QS l R T tpre tB⟩ := by
  obtain ⟨tm, ms, nameT, tob, Q, tcb, rfl, k1, k2, k3, k4, k5, k6⟩ := c07d_comp_spells_inv hsB
  have hms := k2.nil_inv
  subst hms
  have sh' := c07x_shape_transfer sh k1 k2 k3 k4 k5 k6 hpost
  have hw : WF T := ⟨by rw [hT]; simp [c07p_comp], hrun⟩
  exact (c07w_cookware_qty_piece (α := α) T tpre tpost cs e tm nameT tob Q tcb hT hw sh'
      (c07x_alias_transfer k3 ha) (c07x_name_transfer k3 hname _) (c07x_notpad_transfer k5 hne) (l Q) (R Q)
      (hQ Q k5)).mono
    (fun evs ⟨q, hq, he⟩ => ⟨tm, nameT, tob, Q, tcb, rfl, k3, k5, q, hq, he⟩)

/-- a timer with quantity tokens is a piece at its position on every actual block spelling it, whatever follows -/
theorem c07x_timer_qty_pieceAt (cs : CharSpec) (e : Ext) (tmS : Tok) (msS nameS : List Tok) (tobS : Tok)
    (QS : List Tok) (tcbS : Tok) (sh : PlShapeN e .tilde tmS msS nameS tobS QS tcbS)
    (hne : ∃ t ∈ QS, isPadK t = false) (l : List Tok → List (Ev α)) (R : List Tok → ParsedQuantity α → Prop)
    (hQ : ∀ Q, Spells Q QS → ∀ sq : BP α, sq.cs = cs → sq.ext = e →
      Sat (parseQuantity (α := α) Q) sq (fun r s' => Pushed (l Q) sq s' ∧ R Q r))
    (T tpre tB tpost : List Tok) (hT : T = tpre ++ (tB ++ tpost))
    (hsB : Spells tB (c07p_comp tmS msS nameS tobS QS tcbS)) (hrun : RunAt (baseOff T) T) :
    PlPieceAt (α := α) T cs e tpre ⟨tB, c07x_timerQtySpec cs e msS nameS QS l R T tpre tB⟩ := by
  obtain ⟨tm, ms, nameT, tob, Q, tcb, rfl, k1, k2, k3, k4, k5, k6⟩ := c07d_comp_spells_inv hsB
  have sh' := c07d_shapeN_transfer sh k1 k2 k3 k4 k5 k6
  have hw : WF T := ⟨by rw [hT]; simp [c07p_comp], hrun⟩
  exact (c07w_timer_qty_piece (α := α) T tpre tpost cs e tm ms nameT tob Q tcb hT hw sh'
      (c07x_notpad_transfer k5 hne) (l Q) (R Q) (hQ Q k5)).mono
    (fun evs ⟨q, hq, he⟩ => ⟨tm, ms, nameT, tob, Q, tcb, rfl, k2, k3, k5, q, hq, he⟩)

end Cook
