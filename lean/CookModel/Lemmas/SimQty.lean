import CookModel.Lemmas.SimParser
import CookModel.Lemmas.ExtLawsGates
/-
  The quantity parser (src/parser/quantity.rs) on related token runs (`LRel TokSim`): numbers are
  computed from the kinds and the digits of `Int` tokens, which CRLF conversion / offsets do not
  touch; text values are the trimmed assembled text.  `parse_quantity` swaps the token list of the
  block parser for the tokens between the braces: the relational triple `Rel cs ts' ts` is indexed
  by the token lists, so the sub-parser is run at index `q' q` and the result is transported back.
-/
set_option linter.unusedSectionVars false
set_option linter.unusedVariables false
set_option linter.unusedSimpArgs false
namespace Cook

variable {α : Type} [Arith α]

/-! ### pure part: numbers -/

theorem TokSim.text_int {t' t : Tok} (h : TokSim t' t) (hk : t.kind = .int) : t'.text = t.text :=
  h.text (by rw [hk]; rfl)

theorem TokSim.text_intLike {t' t : Tok} (h : TokSim t' t) (hk : isIntLike t.kind = true) : t'.text = t.text := by
  apply h.text
  unfold isIntLike at hk
  simp only [Bool.or_eq_true, beq_iff_eq] at hk
  rcases hk with hk | hk <;> rw [hk] <;> rfl

/-- results of the numeric parsers: both decline, both succeed with the same value, or both fail
    with a diagnostic of the same kind -/
def ExcSim {β : Type} : Except Diag β → Except Diag β → Prop
  | .ok a', .ok a => a' = a
  | .error d', .error d => DiagSim d' d
  | _, _ => False

def NumSim {β : Type} : Option (Except Diag β) → Option (Except Diag β) → Prop := OptRel ExcSim

theorem ExcSim.map {β γ : Type} (f : β → γ) {a' a : Except Diag β} (h : ExcSim a' a) : ExcSim (a'.map f) (a.map f) := by
  cases a' <;> cases a <;> simp only [ExcSim, Except.map] at h ⊢
  · exact h
  · rw [h]

theorem parseU32_sim {a' a : Tok} (h : TokSim a' a) (hk : a.kind = .int) : ExcSim (parseU32 a') (parseU32 a) := by
  unfold parseU32
  rw [h.text_int hk]
  dsimp only
  split
  · rfl
  · exact ⟨rfl, rfl, rfl, rfl⟩

theorem fracNum_sim {a' a b' b : Tok} (ha : TokSim a' a) (hb : TokSim b' b) (hka : a.kind = .int) (hkb : b.kind = .int) :
    ExcSim (fracNum (α := α) a' b') (fracNum a b) := by
  unfold fracNum
  have h1 := parseU32_sim ha hka
  have h2 := parseU32_sim hb hkb
  cases e1' : parseU32 a' <;> cases e1 : parseU32 a <;> rw [e1', e1] at h1 <;> simp only [ExcSim] at h1 ⊢
  · exact h1
  · subst h1
    cases e2' : parseU32 b' <;> cases e2 : parseU32 b <;> rw [e2', e2] at h2 <;> simp only [ExcSim] at h2 ⊢
    · exact h2
    · subst h2
      rename_i y
      by_cases hz : y = 0
      · simp only [hz, if_true]; exact ⟨rfl, rfl, rfl, rfl⟩
      · simp only [hz, if_false]

theorem mixedNum_sim {i' i a' a b' b : Tok} (hi : TokSim i' i) (ha : TokSim a' a) (hb : TokSim b' b)
    (hki : i.kind = .int) (hka : a.kind = .int) (hkb : b.kind = .int) :
    ExcSim (mixedNum (α := α) i' a' b') (mixedNum i a b) := by
  unfold mixedNum
  have h1 := parseU32_sim hi hki
  have h2 := fracNum_sim (α := α) ha hb hka hkb
  cases e1' : parseU32 i' <;> cases e1 : parseU32 i <;> rw [e1', e1] at h1 <;> simp only [ExcSim] at h1 ⊢
  · exact h1
  · subst h1
    cases e2' : fracNum (α := α) a' b' <;> cases e2 : fracNum (α := α) a b <;> rw [e2', e2] at h2 <;>
      simp only [ExcSim] at h2 ⊢
    · exact h2
    · subst h2
      rename_i n
      cases n <;> rfl

theorem trimTokens_sim {l' l : List Tok} (h : LRel TokSim l' l) : LRel TokSim (trimTokens l') (trimTokens l) :=
  ((h.dropWhile (tokSim_kindPres.agree isWsComment)).reverse.dropWhile (tokSim_kindPres.agree isWsComment)).reverse

theorem notWsComment_agree : PredAgree TokSim notWsComment notWsComment :=
  tokSim_kindPres.agree (fun k => !isWsComment k)

/-- the `[x / y]` tail of `numeric_value` -/
def fracTail (f : List Tok) : Option (Except Diag (Value α)) :=
  match f with
  | [x, s, y] =>
    if x.kind == .int && s.kind == .slash && y.kind == .int then
      some ((fracNum (α := α) x y).map .number) else none
  | _ => none

theorem fracTail_sim {f' f : List Tok} (h : LRel TokSim f' f) : NumSim (fracTail (α := α) f') (fracTail f) := by
  rcases h with _ | ⟨hx, _ | ⟨hs, _ | ⟨hy, _ | ⟨hz, hr⟩⟩⟩⟩ <;> try exact OptRel.none_none
  unfold fracTail
  simp only [hx.kind, hs.kind, hy.kind]
  split
  · rename_i hc
    simp only [Bool.and_eq_true, beq_iff_eq] at hc
    exact OptRel.some_some (ExcSim.map _ (fracNum_sim hx hy hc.1.1 hc.2))
  · exact OptRel.none_none

/-- the `[i x / y]` / `[x / y]` tail of `numeric_value` -/
def mixedTail (f : List Tok) : Option (Except Diag (Value α)) :=
  match f with
  | [i, x, s, y] =>
    if i.kind == .int && x.kind == .int && s.kind == .slash && y.kind == .int then
      some ((mixedNum (α := α) i x y).map .number) else none
  | [x, s, y] =>
    if x.kind == .int && s.kind == .slash && y.kind == .int then
      some ((fracNum (α := α) x y).map .number) else none
  | _ => none

theorem mixedTail_sim {f' f : List Tok} (h : LRel TokSim f' f) : NumSim (mixedTail (α := α) f') (mixedTail f) := by
  rcases h with _ | ⟨hx, _ | ⟨hs, _ | ⟨hy, _ | ⟨hz, _ | ⟨hw, hr⟩⟩⟩⟩⟩ <;> try exact OptRel.none_none
  · unfold mixedTail
    simp only [hx.kind, hs.kind, hy.kind]
    split
    · rename_i hc
      simp only [Bool.and_eq_true, beq_iff_eq] at hc
      exact OptRel.some_some (ExcSim.map _ (fracNum_sim hx hy hc.1.1 hc.2))
    · exact OptRel.none_none
  · unfold mixedTail
    simp only [hx.kind, hs.kind, hy.kind, hz.kind]
    split
    · rename_i hc
      simp only [Bool.and_eq_true, beq_iff_eq] at hc
      exact OptRel.some_some (ExcSim.map _ (mixedNum_sim hx hs hz hc.1.1.1 hc.1.1.2 hc.2))
    · exact OptRel.none_none

theorem numericValue_eq (tokens : List Tok) :
    numericValue (α := α) tokens =
      (let tr := trimTokens tokens
       match tr with
       | [] => none
       | [a] =>
         if a.kind == .int then some (.ok (.number (.regular (Arith.ofDecimal (digitsToNat a.text) 0)))) else none
       | [a, d, b] =>
         if a.kind == .int && d.kind == .dot && isIntLike b.kind then
           some (.ok (.number (.regular (Arith.ofDecimal (digitsToNat (a.text ++ b.text)) b.text.length))))
         else fracTail (tr.filter notWsComment)
       | [d, b] =>
         if d.kind == .dot && isIntLike b.kind then
           some (.ok (.number (.regular (Arith.ofDecimal (digitsToNat b.text) b.text.length))))
         else none
       | _ => mixedTail (tr.filter notWsComment)) := by
  unfold numericValue fracTail mixedTail
  dsimp only
  generalize trimTokens tokens = tr
  rcases tr with _ | ⟨a, _ | ⟨b, _ | ⟨c, _ | ⟨d, r⟩⟩⟩⟩
  · rfl
  · rfl
  · rfl
  · simp only [List.isEmpty_cons, Bool.false_eq_true, if_false]
    split
    · rfl
    · generalize List.filter notWsComment [a, b, c] = f
      rcases f with _ | ⟨x, _ | ⟨y, _ | ⟨z, _ | ⟨w, r⟩⟩⟩⟩ <;> rfl
  · simp only [List.isEmpty_cons, Bool.false_eq_true, if_false]
    generalize List.filter notWsComment (a :: b :: c :: d :: r) = f
    rcases f with _ | ⟨x, _ | ⟨y, _ | ⟨z, _ | ⟨w, _ | ⟨v, r⟩⟩⟩⟩⟩ <;> rfl

theorem numericValue_sim {l' l : List Tok} (h : LRel TokSim l' l) :
    NumSim (numericValue (α := α) l') (numericValue l) := by
  rw [numericValue_eq, numericValue_eq]
  have htr := trimTokens_sim h
  dsimp only
  generalize trimTokens l' = tr' at htr
  generalize trimTokens l = tr at htr
  have hf := htr.filter notWsComment_agree
  rcases htr with _ | ⟨ha, _ | ⟨hb, _ | ⟨hc, _ | ⟨hd, hr⟩⟩⟩⟩
  · exact OptRel.none_none
  · simp only [ha.kind]
    split
    · rename_i hk
      rw [ha.text_int (by simpa using hk)]
      exact OptRel.some_some rfl
    · exact OptRel.none_none
  · simp only [ha.kind, hb.kind]
    split
    · rename_i hk
      simp only [Bool.and_eq_true] at hk
      rw [hb.text_intLike hk.2]
      exact OptRel.some_some rfl
    · exact OptRel.none_none
  · simp only [ha.kind, hb.kind, hc.kind]
    split
    · rename_i hk
      simp only [Bool.and_eq_true, beq_iff_eq] at hk
      rw [hc.text_intLike hk.2, ha.text_int hk.1.1]
      exact OptRel.some_some rfl
    · exact fracTail_sim hf
  · exact mixedTail_sim hf

theorem rangeValue_sim (rangeExt : Bool) {l' l : List Tok} (h : LRel TokSim l' l) :
    NumSim (rangeValue (α := α) rangeExt l') (rangeValue rangeExt l) := by
  unfold rangeValue
  split
  · exact OptRel.none_none
  rw [h.findIdx? (tokSim_kindPres.agree (fun k => k == .minus))]
  cases l.findIdx? (fun t => t.kind == .minus) with
  | none => exact OptRel.none_none
  | some mid =>
    dsimp only
    have h1 := numericValue_sim (α := α) (h.take mid)
    have h2 := numericValue_sim (α := α) (h.drop (mid + 1))
    rcases h1.elim with ⟨e1', e1⟩ | ⟨x', x, e1', e1, hx⟩
    · rw [e1', e1]; exact OptRel.none_none
    · rw [e1', e1]
      cases x' <;> cases x <;> simp only [ExcSim] at hx
      · exact OptRel.some_some hx
      · subst hx
        rename_i v
        cases v with
        | number s =>
          dsimp only
          rcases h2.elim with ⟨e2', e2⟩ | ⟨y', y, e2', e2, hy⟩
          · rw [e2', e2]; exact OptRel.none_none
          · rw [e2', e2]
            cases y' <;> cases y <;> simp only [ExcSim] at hy
            · exact OptRel.some_some hy
            · subst hy
              rename_i w
              cases w <;> exact OptRel.some_some rfl
        | range _ _ => exact OptRel.some_some rfl
        | text _ => exact OptRel.some_some rfl

theorem numOrRange_sim (rangeExt : Bool) {l' l : List Tok} (h : LRel TokSim l' l) :
    NumSim (numOrRange (α := α) rangeExt l') (numOrRange rangeExt l) := by
  unfold numOrRange
  have h1 := rangeValue_sim (α := α) rangeExt h
  rcases h1.elim with ⟨e1', e1⟩ | ⟨x', x, e1', e1, hx⟩
  · rw [e1', e1]; exact numericValue_sim h
  · rw [e1', e1]; exact OptRel.some_some hx

/-! ### monadic part -/

theorem LocSim.mk {β : Type} {A : β → β → Prop} {a' a : β} (h : A a' a) (s' s : Span) : LocSim A ⟨a', s'⟩ ⟨a, s⟩ := h

/-- what the callers of `parse_quantity` read of its result (the separator is used for spans only) -/
def ParsedQSim (uws : Char → Bool) (r' r : ParsedQuantity α) : Prop :=
  PQuantitySim uws r'.quantity.val r.quantity.val

section rel
variable {cs : CharSpec} {ts' ts : List Tok}
variable (hu : UwsNL cs) (hts : LRel TokSim ts' ts)
include hu hts

theorem scalingLock_rel :
    Rel cs ts' ts (scalingLock (α := α)) scalingLock (fun a' a => a'.isSome = a.isSome) := by
  unfold scalingLock wsComments
  refine Rel.bind (consumeWhile_rel hts _) fun _ _ _ => ?_
  refine Rel.bind (atK_rel hts _) fun a' a ha => ?_
  subst ha
  cases a'
  · exact Rel.pure (α := α) (A := fun (a' a : Option Span) => a'.isSome = a.isSome) rfl
  · exact Rel.bind (bumpAny_rel hts) fun _ _ _ => Rel.pure (α := α) (A := fun (a' a : Option Span) => a'.isSome = a.isSome) rfl

theorem textValue_rel {l' l : List Tok} (h : LRel TokSim l' l) (o' o : Nat) :
    Rel cs ts' ts (textValue (α := α) l' o') (textValue l o) Eq := by
  unfold textValue
  refine Rel.bind (bpText_rel hu h _ _) fun t' t ht => ?_
  refine Rel.bind Rel.get fun g' g hg => ?_
  simp only [hg.csL, hg.csR, ht.isTextEmpty, ht.trimmed]
  split
  · exact Rel.bind (perr_rel _ rfl) fun _ _ _ => Rel.pure (α := α) rfl
  · exact Rel.pure (α := α) rfl

theorem parseValue_rel {l' l : List Tok} (h : LRel TokSim l' l) :
    Rel cs ts' ts (parseValue (α := α) l') (parseValue l) (LocSim Eq) := by
  unfold parseValue
  refine Rel.bind currentOffset_rel fun c' c _ => ?_
  dsimp only
  refine Rel.bind (hasExt_rel _) fun r' r hr => ?_
  subst hr
  have hn := numOrRange_sim (α := α) r' h
  rcases hn.elim with ⟨e', e⟩ | ⟨x', x, e', e, hx⟩
  · rw [e', e]
    dsimp only
    refine Rel.bind (textValue_rel hu hts h _ _) fun v' v hv => ?_
    subst hv
    exact Rel.pure (α := α) (LocSim.mk rfl _ _)
  · rw [e', e]
    cases x' <;> cases x <;> simp only [ExcSim] at hx
    · exact Rel.bind (pushEv_rel (EvSim.mk_error hx)) fun _ _ _ => Rel.pure (α := α) (LocSim.mk rfl _ _)
    · subst hx
      exact Rel.pure (α := α) (LocSim.mk rfl _ _)

theorem qvalue_rel : Rel cs ts' ts (qvalue (α := α)) qvalue PQValueSim := by
  unfold qvalue
  refine Rel.bind (scalingLock_rel hu hts) fun k' k hk => ?_
  refine Rel.bind (consumeWhile_rel hts _) fun v' v hv => ?_
  refine Rel.bind (parseValue_rel hu hts hv) fun x' x hx => ?_
  exact Rel.pure (α := α) (A := PQValueSim) ⟨hx, hk⟩

theorem parseRegularQuantity_rel :
    Rel cs ts' ts (parseRegularQuantity (α := α)) parseRegularQuantity (ParsedQSim cs.uws) := by
  unfold parseRegularQuantity
  refine Rel.bind (qvalue_rel hu hts) fun v' v hv => ?_
  refine Rel.bind (A := OptRel (fun a' a => TextSim cs.uws a'.2 a.2)) ?_ ?_
  · refine Rel.bind (peekK_rel hts) fun a' a ha => ?_
    obtain ⟨rfl, -⟩ := ha
    split
    · refine Rel.bind (bumpAny_rel hts) fun sep' sep _ => ?_
      refine Rel.bind (consumeRest_rel hts) fun u' u huu => ?_
      refine Rel.bind (bpText_rel hu huu _ _) fun t' t ht => ?_
      exact Rel.pure (α := α) (OptRel.some_some ht)
    · exact Rel.pure (α := α) OptRel.none_none
  · intro u' u huu
    refine Rel.bind Rel.get fun g' g hg => ?_
    rcases huu.elim with ⟨rfl, rfl⟩ | ⟨x', x, rfl, rfl, hx⟩
    · dsimp only
      refine Rel.bind Rel.get fun h' h hh => ?_
      refine Rel.bind (tokensSpanP_rel _ _ _ _) fun _ _ _ => ?_
      exact Rel.pure (α := α) (A := ParsedQSim cs.uws) ⟨hv, OptRel.none_none⟩
    · dsimp only
      rw [hg.csL, hg.csR, hx.isTextEmpty]
      split
      · refine Rel.bind (pwarn_rel _ rfl) fun _ _ _ => ?_
        refine Rel.bind Rel.get fun h' h hh => ?_
        refine Rel.bind (tokensSpanP_rel _ _ _ _) fun _ _ _ => ?_
        exact Rel.pure (α := α) (A := ParsedQSim cs.uws) ⟨hv, OptRel.none_none⟩
      · refine Rel.bind Rel.get fun h' h hh => ?_
        refine Rel.bind (tokensSpanP_rel _ _ _ _) fun _ _ _ => ?_
        exact Rel.pure (α := α) (A := ParsedQSim cs.uws) ⟨hv, OptRel.some_some hx⟩

omit hu hts in
/-- `find?` on related lists (the copy in SimComp comes later in the import order) -/
theorem LRel.find?_relQ {β γ : Type} {R : β → γ → Prop} {p : β → Bool} {q : γ → Bool} (hp : PredAgree R p q)
    {l : List β} {m : List γ} (h : LRel R l m) : OptRel R (l.find? p) (m.find? q) := by
  induction h with
  | nil => exact OptRel.none_none
  | cons h1 _ ih =>
    simp only [List.find?_cons, hp _ _ h1]
    split
    · exact OptRel.some_some h1
    · exact ih

theorem parseAdvancedQuantity_rel :
    Rel cs ts' ts (parseAdvancedQuantity (α := α)) parseAdvancedQuantity (OptRel (ParsedQSim cs.uws)) := by
  unfold parseAdvancedQuantity
  refine Rel.bind (allToks_rel hts) fun all' all hall => ?_
  rw [hall.any (tokSim_kindPres.agree (fun k => k == .percent))]
  split
  · exact Rel.pure (α := α) OptRel.none_none
  refine Rel.bind (scalingLock_rel hu hts) fun k' k hk => ?_
  unfold wsComments
  refine Rel.bind (consumeWhile_rel hts _) fun _ _ _ => ?_
  refine Rel.bind (consumeWhile_rel hts _) fun vt' vt hvt => ?_
  rcases (LRel.find?_relQ (tokSim_kindPres.agree (fun k => k != .blockComment)) hvt.reverse).elim with
    ⟨e', e⟩ | ⟨l', l, e', e, hl⟩
  · rw [e', e]
    exact Rel.pure (α := α) OptRel.none_none
  rw [e', e]
  dsimp only
  rw [hl.kind]
  split
  · exact Rel.pure (α := α) OptRel.none_none
  have hvt2 := (hvt.reverse.dropWhile (tokSim_kindPres.agree (fun k => k == .ws || k == .blockComment))).reverse
  apply Rel.panicIfK
  refine Rel.bind (consumeRest_rel hts) fun ut' ut hut => ?_
  rw [hut.isEmpty]
  split
  · exact Rel.pure (α := α) OptRel.none_none
  refine Rel.bind (hasExt_rel _) fun r' r hr => ?_
  subst hr
  have hn := numOrRange_sim (α := α) r' hvt2
  rcases hn.elim with ⟨e', e⟩ | ⟨x', x, e', e, hx⟩
  · rw [e', e]
    exact Rel.pure (α := α) OptRel.none_none
  rw [e', e]
  dsimp only
  refine Rel.bind (A := Eq) ?_ ?_
  · cases x' <;> cases x <;> simp only [ExcSim] at hx
    · exact Rel.bind (pushEv_rel (EvSim.mk_error hx)) fun _ _ _ => Rel.pure (α := α) rfl
    · subst hx
      exact Rel.pure (α := α) rfl
  · rintro v' v rfl
    refine Rel.bind (bpText_rel hu hut _ _) fun u' u huu => ?_
    refine Rel.bind (tokensSpanP_rel _ _ _ _) fun _ _ _ => ?_
    exact Rel.pure (α := α) (OptRel.some_some (A := ParsedQSim cs.uws) ⟨⟨rfl, hk⟩, OptRel.some_some huu⟩)

theorem parseQuantityInner_rel :
    Rel cs ts' ts (parseQuantityInner (α := α)) parseQuantityInner (ParsedQSim cs.uws) := by
  unfold parseQuantityInner
  refine Rel.bind (A := OptRel (ParsedQSim cs.uws)) ?_ ?_
  · refine Rel.bind (hasExt_rel _) fun r' r hr => ?_
    subst hr
    split
    · exact withRecover_rel (parseAdvancedQuantity_rel hu hts)
    · exact Rel.pure (α := α) OptRel.none_none
  · intro a' a ha
    rcases ha.elim with ⟨rfl, rfl⟩ | ⟨x', x, rfl, rfl, hx⟩
    · exact parseRegularQuantity_rel hu hts
    · exact Rel.pure (α := α) hx

end rel

/-- **`parse_quantity`**: the sub-block parser over related quantity tokens, started from related
    outer states, gives related quantities and hands back related outer states -/
theorem parseQuantity_rel {cs : CharSpec} (hu : UwsNL cs) {ts' ts q' q : List Tok} (hq : LRel TokSim q' q) :
    Rel cs ts' ts (parseQuantity (α := α) q') (parseQuantity q) (ParsedQSim cs.uws) := by
  intro s' s hs
  rw [parseQuantity_run, parseQuantity_run]
  dsimp only
  have h1 : SimS cs ts' ts
      ((if q'.isEmpty then panicWith "parse_quantity: empty tokens" else pure () : P α Unit) s').2
      ((if q.isEmpty then panicWith "parse_quantity: empty tokens" else pure () : P α Unit) s).2 :=
    ((Rel.panicIf (α := α) (cs := cs) (ts' := ts') (ts := ts)) s' s hs).2
  generalize ((if q'.isEmpty then panicWith "parse_quantity: empty tokens" else pure () : P α Unit) s').2 = o' at h1
  generalize ((if q.isEmpty then panicWith "parse_quantity: empty tokens" else pure () : P α Unit) s).2 = o at h1
  have h2 : SimS cs q' q ({ o' with toks := q', cur := 0 } : BP α) { o with toks := q, cur := 0 } :=
    ⟨rfl, rfl, rfl, h1.ext, h1.csL, h1.csR, h1.evs⟩
  obtain ⟨hr, h3⟩ := parseQuantityInner_rel hu hq _ _ h2
  exact ⟨hr, ⟨h1.toks', h1.toks, h1.cur, h3.ext, h3.csL, h3.csR, h3.evs⟩⟩


end Cook
