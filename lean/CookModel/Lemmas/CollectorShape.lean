import CookModel.Lemmas.CollectorInterRef
/-
  C06, the shape of ingredient relations, for EVERY ingredient of the table (used by a step or not,
  e.g. one added in `[mode]: components`):
  * a definition has no reference target, a reference has one (`Ingredient::references_to` unwraps it);
  * a section target addresses an existing section.
-/
set_option linter.unusedSectionVars false
set_option linter.unusedSimpArgs false
set_option linter.unusedVariables false
namespace Cook
variable {α : Type} [Arith α]

/-- a definition without target, or a reference with one -/
def RelShape (r : IngredientRelation) : Prop :=
  (∃ rf b, r = ⟨.definition rf b, none⟩) ∨ (∃ i tg, r = ⟨.reference i, some tg⟩)

structure ShapeInv (s : Col α) : Prop where
  shape : ∀ (k : Nat) (ig : Ingredient (ScalableValue α)), s.ingredients[k]? = some ig → RelShape ig.relation
  secRange : ∀ (k : Nat) (ig : Ingredient (ScalableValue α)), s.ingredients[k]? = some ig →
    ∀ i, ig.relation = ⟨.reference i, some .section⟩ → i < s.sections.length

theorem ShapeInv.init : ShapeInv (α := α) {} := ⟨fun k ig h => by simp at h, fun k ig h => by simp at h⟩

/-- the table after `ingredientA`: old entries keep their shape, the new one has one -/
theorem IngrStep.shape {env : Env} {s : Col α} {ings : Array (Ingredient (ScalableValue α))}
    {igr : Ingredient (ScalableValue α)} (hstep : IngrStep env s ings igr) (hsz : ings.size = s.ingredients.size)
    (h : ShapeInv s) (k : Nat) (ig' : Ingredient (ScalableValue α)) (hk : (ings.push igr)[k]? = some ig') :
    RelShape ig'.relation ∧ ∀ i, ig'.relation = ⟨.reference i, some .section⟩ → i < s.sections.length := by
  rw [Array.getElem?_push] at hk
  split at hk
  · cases hk
    rcases hstep with ⟨_, b, hb⟩ | ⟨_, _, rel, d, hrel, hb⟩ | ⟨t, defn, rf, b, _, _, _, _, h5, _, _⟩
    · rw [hb]; exact ⟨Or.inl ⟨_, _, rfl⟩, fun i hr => (by cases hr)⟩
    · rw [hb]
      rcases interRefTarget_inRange _ _ _ _ hrel with ⟨j, hj, _, _⟩ | ⟨j, hj, hlt⟩
      · rw [hj]; exact ⟨Or.inr ⟨_, _, rfl⟩, fun i hr => (by cases hr)⟩
      · rw [hj]; exact ⟨Or.inr ⟨_, _, rfl⟩, fun i hr => (by cases hr; exact hlt)⟩
    · rw [h5]; exact ⟨Or.inr ⟨_, _, rfl⟩, fun i hr => (by cases hr)⟩
  · rcases hstep with ⟨he, _⟩ | ⟨he, _⟩ | ⟨t0, defn, rf, b, h1, h2, h3, h4, h5, h6, he⟩
    · rw [he] at hk; exact ⟨h.shape k ig' hk, h.secRange k ig' hk⟩
    · rw [he] at hk; exact ⟨h.shape k ig' hk, h.secRange k ig' hk⟩
    · rw [he, Array.getElem?_setIfInBounds] at hk
      split at hk
      · split at hk
        · cases hk
          dsimp only
          rcases h.shape t0 defn h1 with ⟨rf', b', hd⟩ | ⟨i, tg, hd⟩
          · rw [hd]; exact ⟨Or.inl ⟨_, _, rfl⟩, fun i hr => (by cases hr)⟩
          · rw [hd] at h2; cases h2
        · cases hk
      · exact ⟨h.shape k ig' hk, h.secRange k ig' hk⟩

theorem Trans.shape {env : Env} {b : Ev α} {s s' : Col α} (ht : Trans env b s s') (h : ShapeInv s) : ShapeInv s' := by
  cases ht with
  | keep hsec hcur hi hc hb => exact ⟨by rw [hi]; exact h.shape, by rw [hi, hsec]; exact h.secRange⟩
  | newSection name hse hsec hcur hi hc hb =>
    refine ⟨by rw [hi]; exact h.shape, ?_⟩
    rw [hi, hsec]
    intro k ig hk i hr
    have := h.secRange k ig hk i hr
    split
    · rw [List.length_append]; omega
    · exact this
  | pushBlock c hsec hcur hi hc hb hitems => exact ⟨by rw [hi]; exact h.shape, by rw [hi, hsec]; exact h.secRange⟩
  | ingr ings igr hsec hcur hi hsz hstep hc hb =>
    refine ⟨?_, ?_⟩
    · rw [hi]; exact fun k ig hk => (hstep.shape hsz h k ig hk).1
    · rw [hi, hsec]; exact fun k ig hk => (hstep.shape hsz h k ig hk).2
  | cw cws cwn hsec hcur hi hc hsz hstep hb => exact ⟨by rw [hi]; exact h.shape, by rw [hi, hsec]; exact h.secRange⟩

theorem processEvent_shape (env : Env) (input : Str) (ev : Ev α) (s : Col α) (hi : Inv env s) (h : ShapeInv s)
    (hev : EvOK ev) : ShapeInv (processEvent env input ev s).2 :=
  (processEvent_trans env input ev s hi hev).shape h

theorem parseEventsLoop_shape (env : Env) (input : Str) (evs : List (Ev α)) (s c : Col α) (hi : Inv env s)
    (h : ShapeInv s) (hev : ∀ ev ∈ evs, EvOK ev) (hc : (parseEventsLoop env input evs s).output = some c) :
    ShapeInv c := by
  induction evs generalizing s with
  | nil =>
    simp only [parseEventsLoop, Option.some.injEq] at hc
    subst hc
    have key : ∀ (k : Nat) (ig : Ingredient (ScalableValue α)), s.ingredients[k]? = some ig →
        ∀ i, ig.relation = ⟨.reference i, some .section⟩ →
          i < (if (!s.cur.isEmpty) = true then s.sections ++ [s.cur] else s.sections).length := by
      intro k ig hk i hr
      have := h.secRange k ig hk i hr
      split
      · rw [List.length_append]; omega
      · exact this
    refine ⟨?_, ?_⟩
    · split <;> split <;> exact h.shape
    · split <;> split <;> rename_i h1 h2 <;> simp only [h1, if_true, if_false] at key <;> exact key
  | cons ev rest ih =>
    by_cases he : ∃ d0, ev = .error d0
    · obtain ⟨d0, rfl⟩ := he
      simp only [parseEventsLoop] at hc
      cases hc
    · rw [parseEventsLoop_cons_nonerror env input ev rest s he] at hc
      exact ih _ (processEvent_inv env input ev s hi (hev ev List.mem_cons_self))
        (processEvent_shape env input ev s hi h (hev ev List.mem_cons_self))
        (fun e he' => hev e (List.mem_cons_of_mem _ he')) hc

end Cook
