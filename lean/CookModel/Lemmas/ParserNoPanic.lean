import CookModel.Lemmas.ParserWp
/-
  No panic site of the block parsers (`Syntax/Parser.lean`) is reachable: every parser keeps the
  invariant `G ts e` (in particular `panic = none`) and moves the cursor as stated.
-/
set_option linter.unusedSectionVars false
set_option linter.unusedSimpArgs false
set_option linter.unusedVariables false
namespace Cook

variable {α : Type} [Arith α] {ts : List Tok} {e : Ext} {s : BP α}

/-! ### Quantities (src/parser/quantity.rs) -/

theorem scalingLock_sat (h : G ts e s) :
    Sat scalingLock s (fun _ s' => G ts e s' ∧ s.cur ≤ s'.cur) := by
  unfold scalingLock wsComments
  refine Sat.bind (Sat.mono (consumeWhile_sat _ h) ?_)
  rintro r s1 ⟨g1, c1, -⟩
  refine Sat.bind (atK_sat g1 ?_)
  split
  · rename_i hc
    obtain ⟨t, ht, -⟩ := atK_true hc
    refine Sat.bind (Sat.mono (bumpAny_sat g1 ht) ?_)
    rintro r2 s2 ⟨-, g2, c2⟩
    exact Sat.pure ⟨g2, by omega⟩
  · exact Sat.pure ⟨g1, c1⟩

theorem textValue_sat (h : G ts e s) {off : Nat} {toks : List Tok} (hr : RunAt off toks) :
    Sat (textValue (α := α) toks off) s (fun _ s' => G ts e s' ∧ s'.cur = s.cur) := by
  unfold textValue
  refine Sat.bind (bpText_sat hr ?_)
  refine Sat.bind (Sat.get ?_)
  dsimp only
  split
  · refine Sat.bind (Sat.perr ?_)
    intro evs
    exact Sat.pure ⟨h.setEvs evs, rfl⟩
  · exact Sat.pure ⟨h, rfl⟩

theorem peek_some {c : Nat} {k : TK} (h : (ts[c]?).map (·.kind) = some k) :
    ∃ t, ts[c]? = some t ∧ t.kind = k := by
  cases ht : ts[c]? with
  | none => rw [ht] at h; simp at h
  | some t => rw [ht] at h; exact ⟨t, rfl, by simpa using h⟩

theorem parseValue_sat (h : G ts e s) {off : Nat} {toks : List Tok} (hr : RunAt off toks) :
    Sat (parseValue (α := α) toks) s (fun _ s' => G ts e s' ∧ s'.cur = s.cur) := by
  unfold parseValue
  refine Sat.bind (currentOffset_sat h ?_)
  dsimp only
  refine Sat.bind (hasExt_sat h ?_)
  split
  · exact Sat.pure ⟨h, rfl⟩
  · refine Sat.bind (Sat.pushEv ?_)
    exact Sat.pure ⟨h.setEvs _, rfl⟩
  · refine Sat.bind (Sat.mono (textValue_sat h (hr.headStart _)) ?_)
    rintro v s1 ⟨g1, c1⟩
    exact Sat.pure ⟨g1, c1⟩

theorem qvalue_sat (hw : WF ts) (h : G ts e s) :
    Sat (qvalue (α := α)) s (fun _ s' => G ts e s' ∧ s.cur ≤ s'.cur) := by
  unfold qvalue
  refine Sat.bind (Sat.mono (scalingLock_sat h) ?_)
  rintro lock s1 ⟨g1, c1⟩
  refine Sat.bind (Sat.mono (consumeWhile_sat _ g1) ?_)
  rintro vt s2 ⟨g2, c2, hvt, -, -⟩
  have hr : RunAt (offAt ts s1.cur) vt := by rw [hvt]; exact slice_runAt hw.run c2
  refine Sat.bind (Sat.mono (parseValue_sat g2 hr) ?_)
  rintro v s3 ⟨g3, c3⟩
  exact Sat.pure ⟨g3, by omega⟩

theorem parseRegularQuantity_sat (hw : WF ts) (h : G ts e s) :
    Sat (parseRegularQuantity (α := α)) s (fun _ s' => G ts e s') := by
  unfold parseRegularQuantity
  refine Sat.bind (Sat.mono (qvalue_sat hw h) ?_)
  rintro value s1 ⟨g1, c1⟩
  apply Sat.bind
  apply Sat.mono (Q := fun _ s' => G ts e s')
  · refine Sat.bind (peekK_sat g1 ?_)
    split
    · rename_i hk
      obtain ⟨t, ht, -⟩ := peek_some hk
      refine Sat.bind (Sat.mono (bumpAny_sat g1 ht) ?_)
      rintro sep s2 ⟨rfl, g2, c2⟩
      refine Sat.bind (Sat.mono (consumeRest_sat g2) ?_)
      rintro ut s3 ⟨g3, c3, hut⟩
      have hr : RunAt sep.stop ut := by
        rw [hut, ← offAt_succ ht, ← c2]; exact slice_runAt hw.run g2.le
      refine Sat.bind (bpText_sat hr ?_)
      exact Sat.pure g3
    · exact Sat.pure g1
  · intro unit s2 g2
    refine Sat.bind (Sat.get ?_)
    dsimp only
    split
    · split
      · refine Sat.bind (Sat.pwarn ?_); intro evs
        refine Sat.bind (Sat.get ?_)
        refine Sat.bind (tokensSpanP_sat (by rw [(g2.setEvs evs).toks]; exact hw.ne) ?_)
        exact Sat.pure (g2.setEvs evs)
      · refine Sat.bind (Sat.get ?_)
        refine Sat.bind (tokensSpanP_sat (by rw [g2.toks]; exact hw.ne) ?_)
        exact Sat.pure g2
    · refine Sat.bind (Sat.get ?_)
      refine Sat.bind (tokensSpanP_sat (by rw [g2.toks]; exact hw.ne) ?_)
      exact Sat.pure g2

theorem slice_head {i j : Nat} {t : Tok} {rest : List Tok} (h : slice ts i j = t :: rest) :
    ts[i]? = some t := by
  have h0 : (slice ts i j)[0]? = some t := by rw [h]; rfl
  unfold slice at h0
  rw [List.getElem?_drop, List.getElem?_take] at h0
  split at h0
  · simpa using h0
  · cases h0

theorem dropWhile_nil_all {β : Type} (p : β → Bool) (l : List β) (h : l.dropWhile p = []) :
    ∀ x ∈ l, p x = true := by
  induction l with
  | nil => simp
  | cons a t ih =>
    rw [List.dropWhile_cons] at h
    split at h
    · rename_i hp
      intro x hx
      simp only [List.mem_cons] at hx
      rcases hx with rfl | hx
      · exact hp
      · exact ih h x hx
    · cases h

theorem rtrim_ne_nil (p : Tok → Bool) (l : List Tok) (x : Tok) (hx : x ∈ l) (hp : p x = false) :
    (l.reverse.dropWhile p).reverse ≠ [] := by
  intro h0
  have h1 : l.reverse.dropWhile p = [] := by simpa using h0
  have := dropWhile_nil_all _ _ h1 x (by simpa using hx)
  rw [hp] at this; cases this

theorem parseAdvancedQuantity_sat (hw : WF ts) (h : G ts e s) :
    Sat (parseAdvancedQuantity (α := α)) s (fun _ s' => G ts e s') := by
  unfold parseAdvancedQuantity
  refine Sat.bind (allToks_sat h ?_)
  dsimp only
  split
  · exact Sat.pure h
  refine Sat.bind (Sat.mono (scalingLock_sat h) ?_)
  rintro lock s1 ⟨g1, c1⟩
  unfold wsComments
  refine Sat.bind (Sat.mono (consumeWhile_sat _ g1) ?_)
  rintro _ s2 ⟨g2, c2, -, -, hend2⟩
  refine Sat.bind (Sat.mono (consumeWhile_sat _ g2) ?_)
  rintro vt s3 ⟨g3, c3, hvt, -, -⟩
  split
  · exact Sat.pure g3
  rename_i l hl
  split
  · exact Sat.pure g3
  have hne : (vt.reverse.dropWhile (fun t => t.kind == .ws || t.kind == .blockComment)).reverse ≠ [] := by
    cases hv : vt with
    | nil => rw [hv] at hl; simp at hl
    | cons t rest =>
      rw [hv] at hvt
      have ht := hend2 t (slice_head hvt.symm)
      apply rtrim_ne_nil _ _ t (by simp)
      simp only [isWsComment, Bool.or_eq_false_iff] at ht
      simp [ht.1.1, ht.2]
  split
  · rename_i hemp
    exfalso; apply hne
    simpa using hemp
  refine Sat.bind (Sat.mono (consumeRest_sat g3) ?_)
  rintro ut s5 ⟨g5, c5, hut⟩
  split
  · exact Sat.pure g5
  try dsimp only
  refine Sat.bind (hasExt_sat g5 ?_)
  split
  · exact Sat.pure g5
  rename_i r hr
  have hrun : RunAt (offAt ts s3.cur) ut := by rw [hut]; exact slice_runAt hw.run g3.le
  apply Sat.bind
  apply Sat.mono (Q := fun _ s' => G ts e s')
  · split
    · exact Sat.pure g5
    · refine Sat.bind (Sat.pushEv ?_)
      exact Sat.pure (g5.setEvs _)
  rintro v s6 g6
  refine Sat.bind (bpText_sat (hrun.headStart 0) ?_)
  refine Sat.bind (tokensSpanP_sat hw.ne ?_)
  exact Sat.pure g6

/-- `parse_quantity`: the sub-parser over the tokens between the braces does not panic and hands
    the outer parser back unchanged -/
theorem parseQuantity_sat {q : List Tok} (hq : WF q) (h : G ts e s) :
    Sat (parseQuantity (α := α) q) s (fun _ s' => G ts e s' ∧ s'.cur = s.cur) := by
  unfold parseQuantity
  have hne : q.isEmpty = false := by
    have := hq.ne
    cases q <;> simp_all
  simp only [hne, Bool.false_eq_true, if_false]
  refine Sat.bind (Sat.get ?_)
  refine Sat.bind (Sat.set ?_)
  have g0 : G q e ({ s with toks := q, cur := 0 } : BP α) := ⟨rfl, h.ext, h.panic, Nat.zero_le _⟩
  apply Sat.bind
  apply Sat.mono (Q := fun _ s' => G q e s')
  · refine Sat.bind (hasExt_sat g0 ?_)
    split
    · apply withRecover_sat
      refine Sat.mono (parseAdvancedQuantity_sat hq g0) ?_
      intro r s1 g1
      cases r with
      | none => exact g1.setCur (Nat.zero_le _)
      | some b => exact g1
    · exact Sat.pure g0
  intro adv s1 g1
  apply Sat.bind
  apply Sat.mono (Q := fun _ s' => G q e s')
  · split
    · exact Sat.pure g1
    · exact parseRegularQuantity_sat hq g1
  intro r s2 g2
  refine Sat.bind (Sat.modify ?_)
  exact Sat.pure ⟨⟨h.toks, g2.ext, g2.panic, h.le⟩, rfl⟩

end Cook
