import CookModel.Lemmas.ParserWp
/-
  No panic site of the block parsers (`Syntax/Parser.lean`) is reachable: every parser keeps the
  invariant `G ts e` (in particular `panic = none`) and moves the cursor as stated.
-/
set_option linter.unusedSectionVars false
set_option linter.unusedSimpArgs false
set_option linter.unusedVariables false
namespace Cook

variable {α : Type} [Arith α] {ts : List Tok} {e : Ext} {s : BP α}

/-! ### Quantities (src/parser/quantity.rs) -/

theorem scalingLock_sat (h : G ts e s) :
    Sat scalingLock s (fun _ s' => G ts e s' ∧ s.cur ≤ s'.cur) := by
  unfold scalingLock wsComments
  refine Sat.bind (Sat.mono (consumeWhile_sat _ h) ?_)
  rintro r s1 ⟨g1, c1, -⟩
  refine Sat.bind (atK_sat g1 ?_)
  split
  · rename_i hc
    obtain ⟨t, ht, -⟩ := atK_true hc
    refine Sat.bind (Sat.mono (bumpAny_sat g1 ht) ?_)
    rintro r2 s2 ⟨-, g2, c2⟩
    exact Sat.pure ⟨g2, by omega⟩
  · exact Sat.pure ⟨g1, c1⟩

theorem textValue_sat (h : G ts e s) {off : Nat} {toks : List Tok} (hr : RunAt off toks) :
    Sat (textValue (α := α) toks off) s (fun _ s' => G ts e s' ∧ s'.cur = s.cur) := by
  unfold textValue
  refine Sat.bind (bpText_sat hr ?_)
  refine Sat.bind (Sat.get ?_)
  dsimp only
  split
  · refine Sat.bind (Sat.perr ?_)
    intro evs
    exact Sat.pure ⟨h.setEvs evs, rfl⟩
  · exact Sat.pure ⟨h, rfl⟩

theorem peek_some {c : Nat} {k : TK} (h : (ts[c]?).map (·.kind) = some k) :
    ∃ t, ts[c]? = some t ∧ t.kind = k := by
  cases ht : ts[c]? with
  | none => rw [ht] at h; simp at h
  | some t => rw [ht] at h; exact ⟨t, rfl, by simpa using h⟩

theorem parseValue_sat (h : G ts e s) {off : Nat} {toks : List Tok} (hr : RunAt off toks) :
    Sat (parseValue (α := α) toks) s (fun _ s' => G ts e s' ∧ s'.cur = s.cur) := by
  unfold parseValue
  refine Sat.bind (currentOffset_sat h ?_)
  dsimp only
  refine Sat.bind (hasExt_sat h ?_)
  split
  · exact Sat.pure ⟨h, rfl⟩
  · refine Sat.bind (Sat.pushEv ?_)
    exact Sat.pure ⟨h.setEvs _, rfl⟩
  · refine Sat.bind (Sat.mono (textValue_sat h (hr.headStart _)) ?_)
    rintro v s1 ⟨g1, c1⟩
    exact Sat.pure ⟨g1, c1⟩

theorem qvalue_sat (hw : WF ts) (h : G ts e s) :
    Sat (qvalue (α := α)) s (fun _ s' => G ts e s' ∧ s.cur ≤ s'.cur) := by
  unfold qvalue
  refine Sat.bind (Sat.mono (scalingLock_sat h) ?_)
  rintro lock s1 ⟨g1, c1⟩
  refine Sat.bind (Sat.mono (consumeWhile_sat _ g1) ?_)
  rintro vt s2 ⟨g2, c2, hvt, -, -⟩
  have hr : RunAt (offAt ts s1.cur) vt := by rw [hvt]; exact slice_runAt hw.run c2
  refine Sat.bind (Sat.mono (parseValue_sat g2 hr) ?_)
  rintro v s3 ⟨g3, c3⟩
  exact Sat.pure ⟨g3, by omega⟩

theorem parseRegularQuantity_sat (hw : WF ts) (h : G ts e s) :
    Sat (parseRegularQuantity (α := α)) s (fun _ s' => G ts e s') := by
  unfold parseRegularQuantity
  refine Sat.bind (Sat.mono (qvalue_sat hw h) ?_)
  rintro value s1 ⟨g1, c1⟩
  apply Sat.bind
  apply Sat.mono (Q := fun _ s' => G ts e s')
  · refine Sat.bind (peekK_sat g1 ?_)
    split
    · rename_i hk
      obtain ⟨t, ht, -⟩ := peek_some hk
      refine Sat.bind (Sat.mono (bumpAny_sat g1 ht) ?_)
      rintro sep s2 ⟨rfl, g2, c2⟩
      refine Sat.bind (Sat.mono (consumeRest_sat g2) ?_)
      rintro ut s3 ⟨g3, c3, hut⟩
      have hr : RunAt sep.stop ut := by
        rw [hut, ← offAt_succ ht, ← c2]; exact slice_runAt hw.run g2.le
      refine Sat.bind (bpText_sat hr ?_)
      exact Sat.pure g3
    · exact Sat.pure g1
  · intro unit s2 g2
    refine Sat.bind (Sat.get ?_)
    dsimp only
    split
    · split
      · refine Sat.bind (Sat.pwarn ?_); intro evs
        refine Sat.bind (Sat.get ?_)
        refine Sat.bind (tokensSpanP_sat (by rw [(g2.setEvs evs).toks]; exact hw.ne) ?_)
        exact Sat.pure (g2.setEvs evs)
      · refine Sat.bind (Sat.get ?_)
        refine Sat.bind (tokensSpanP_sat (by rw [g2.toks]; exact hw.ne) ?_)
        exact Sat.pure g2
    · refine Sat.bind (Sat.get ?_)
      refine Sat.bind (tokensSpanP_sat (by rw [g2.toks]; exact hw.ne) ?_)
      exact Sat.pure g2

theorem slice_head {i j : Nat} {t : Tok} {rest : List Tok} (h : slice ts i j = t :: rest) :
    ts[i]? = some t := by
  have h0 : (slice ts i j)[0]? = some t := by rw [h]; rfl
  unfold slice at h0
  rw [List.getElem?_drop, List.getElem?_take] at h0
  split at h0
  · simpa using h0
  · cases h0

theorem dropWhile_nil_all {β : Type} (p : β → Bool) (l : List β) (h : l.dropWhile p = []) :
    ∀ x ∈ l, p x = true := by
  induction l with
  | nil => simp
  | cons a t ih =>
    rw [List.dropWhile_cons] at h
    split at h
    · rename_i hp
      intro x hx
      simp only [List.mem_cons] at hx
      rcases hx with rfl | hx
      · exact hp
      · exact ih h x hx
    · cases h

theorem rtrim_ne_nil (p : Tok → Bool) (l : List Tok) (x : Tok) (hx : x ∈ l) (hp : p x = false) :
    (l.reverse.dropWhile p).reverse ≠ [] := by
  intro h0
  have h1 : l.reverse.dropWhile p = [] := by simpa using h0
  have := dropWhile_nil_all _ _ h1 x (by simpa using hx)
  rw [hp] at this; cases this

theorem parseAdvancedQuantity_sat (hw : WF ts) (h : G ts e s) :
    Sat (parseAdvancedQuantity (α := α)) s (fun _ s' => G ts e s') := by
  unfold parseAdvancedQuantity
  refine Sat.bind (allToks_sat h ?_)
  dsimp only
  split
  · exact Sat.pure h
  refine Sat.bind (Sat.mono (scalingLock_sat h) ?_)
  rintro lock s1 ⟨g1, c1⟩
  unfold wsComments
  refine Sat.bind (Sat.mono (consumeWhile_sat _ g1) ?_)
  rintro _ s2 ⟨g2, c2, -, -, hend2⟩
  refine Sat.bind (Sat.mono (consumeWhile_sat _ g2) ?_)
  rintro vt s3 ⟨g3, c3, hvt, -, -⟩
  split
  · exact Sat.pure g3
  rename_i l hl
  split
  · exact Sat.pure g3
  have hne : (vt.reverse.dropWhile (fun t => t.kind == .ws || t.kind == .blockComment)).reverse ≠ [] := by
    cases hv : vt with
    | nil => rw [hv] at hl; simp at hl
    | cons t rest =>
      rw [hv] at hvt
      have ht := hend2 t (slice_head hvt.symm)
      apply rtrim_ne_nil _ _ t (by simp)
      simp only [isWsComment, Bool.or_eq_false_iff] at ht
      simp [ht.1.1, ht.2]
  split
  · rename_i hemp
    exfalso; apply hne
    simpa using hemp
  refine Sat.bind (Sat.mono (consumeRest_sat g3) ?_)
  rintro ut s5 ⟨g5, c5, hut⟩
  split
  · exact Sat.pure g5
  try dsimp only
  refine Sat.bind (hasExt_sat g5 ?_)
  split
  · exact Sat.pure g5
  rename_i r hr
  have hrun : RunAt (offAt ts s3.cur) ut := by rw [hut]; exact slice_runAt hw.run g3.le
  apply Sat.bind
  apply Sat.mono (Q := fun _ s' => G ts e s')
  · split
    · exact Sat.pure g5
    · refine Sat.bind (Sat.pushEv ?_)
      exact Sat.pure (g5.setEvs _)
  rintro v s6 g6
  refine Sat.bind (bpText_sat (hrun.headStart 0) ?_)
  refine Sat.bind (tokensSpanP_sat hw.ne ?_)
  exact Sat.pure g6

/-- `parse_quantity`: the sub-parser over the tokens between the braces does not panic and hands
    the outer parser back unchanged -/
theorem parseQuantity_sat {q : List Tok} (hq : WF q) (h : G ts e s) :
    Sat (parseQuantity (α := α) q) s (fun _ s' => G ts e s' ∧ s'.cur = s.cur) := by
  unfold parseQuantity
  have hne : q.isEmpty = false := by
    have := hq.ne
    cases q <;> simp_all
  simp only [hne, Bool.false_eq_true, if_false]
  refine Sat.bind (Sat.get ?_)
  refine Sat.bind (Sat.set ?_)
  have g0 : G q e ({ s with toks := q, cur := 0 } : BP α) := ⟨rfl, h.ext, h.panic, Nat.zero_le _⟩
  apply Sat.bind
  apply Sat.mono (Q := fun _ s' => G q e s')
  · refine Sat.bind (hasExt_sat g0 ?_)
    split
    · apply withRecover_sat
      refine Sat.mono (parseAdvancedQuantity_sat hq g0) ?_
      intro r s1 g1
      cases r with
      | none => exact g1.setCur (Nat.zero_le _)
      | some b => exact g1
    · exact Sat.pure g0
  intro adv s1 g1
  apply Sat.bind
  apply Sat.mono (Q := fun _ s' => G q e s')
  · split
    · exact Sat.pure g1
    · exact parseRegularQuantity_sat hq g1
  intro r s2 g2
  refine Sat.bind (Sat.modify ?_)
  exact Sat.pure ⟨⟨h.toks, g2.ext, g2.panic, h.le⟩, rfl⟩

/-! ### Components (src/parser/step.rs) -/

/-- what the component parsers rely on about a parsed body: the name tokens are a run starting at
    the offset where the body started; a quantity, if any, is a non-empty run -/
def BodyOK (ts : List Tok) (c : Nat) (b : Body) : Prop :=
  RunAt (offAt ts c) b.name ∧ ∀ q, b.quantity = some q → WF q

theorem slice_ne_nil_lt {i j : Nat} (h : slice ts i j ≠ []) : i < j := by
  have : (slice ts i j).length ≠ 0 := by
    intro h0; exact h (List.length_eq_zero_iff.mp h0)
  rw [slice_length] at this; omega

theorem compBodyLong_sat (hw : WF ts) (h : G ts e s) :
    Sat (compBodyLong (α := α)) s (fun r s' => G ts e s' ∧
      match r with
      | none => s'.cur = s.cur
      | some b => s.cur < s'.cur ∧ BodyOK ts s.cur b) := by
  unfold compBodyLong
  apply withRecover_sat
  refine Sat.bind (Sat.mono (untilK_sat _ h) ?_)
  rintro r1 s1 ⟨g1, h1⟩
  cases r1 with
  | none => exact Sat.pure ⟨g1.setCur h.le, rfl⟩
  | some name =>
    obtain ⟨c1, hname, -, -⟩ := h1
    refine Sat.bind (Sat.mono (consumeK_sat _ g1) ?_)
    rintro r2 s2 ⟨g2, h2⟩
    cases r2 with
    | none => exact Sat.pure ⟨g2.setCur h.le, rfl⟩
    | some ob =>
      obtain ⟨-, -, c2⟩ := h2
      refine Sat.bind (Sat.mono (untilK_sat _ g2) ?_)
      rintro r3 s3 ⟨g3, h3⟩
      cases r3 with
      | none => exact Sat.pure ⟨g3.setCur h.le, rfl⟩
      | some q =>
        obtain ⟨c3, hq, ⟨t, ht, hk⟩, -⟩ := h3
        refine Sat.bind (Sat.mono (bump_sat g3 ht (by simpa using hk)) ?_)
        rintro cb s4 ⟨-, g4, c4⟩
        refine Sat.pure ⟨g4, by omega, ?_, ?_⟩
        · rw [hname]; exact slice_runAt hw.run c1
        · intro q' hq'
          dsimp only at hq'
          split at hq'
          · rename_i hany
            simp only [Option.some.injEq] at hq'
            subst hq'
            have hr : RunAt (offAt ts s2.cur) q := by rw [hq]; exact slice_runAt hw.run c3
            refine ⟨?_, hr.base⟩
            intro h0; rw [h0] at hany; simp at hany
          · cases hq'

theorem compBodyShort_sat (hw : WF ts) (h : G ts e s) :
    Sat (compBodyShort (α := α)) s (fun r s' => G ts e s' ∧
      match r with
      | none => s'.cur = s.cur
      | some b => s.cur < s'.cur ∧ BodyOK ts s.cur b) := by
  unfold compBodyShort
  apply withRecover_sat
  refine Sat.bind (Sat.mono (consumeWhile_sat _ h) ?_)
  rintro toks s1 ⟨g1, c1, htoks, -, -⟩
  split
  · refine Sat.bind (restToks_sat g1 ?_)
    refine Sat.bind (atK_sat g1 ?_)
    split
    · refine Sat.bind (currentOffset_sat g1 ?_)
      refine Sat.bind (Sat.pwarn ?_)
      intro evs
      exact Sat.pure ⟨(g1.setEvs evs).setCur h.le, rfl⟩
    · exact Sat.pure ⟨g1.setCur h.le, rfl⟩
  · rename_i hne
    refine Sat.pure ⟨g1, ?_, ?_, ?_⟩
    · apply slice_ne_nil_lt (ts := ts)
      rw [← htoks]; intro h0; rw [h0] at hne; simp at hne
    · rw [htoks]; exact slice_runAt hw.run c1
    · intro q hq; cases hq

theorem compBody_sat (hw : WF ts) (h : G ts e s) :
    Sat (compBody (α := α)) s (fun r s' => G ts e s' ∧
      match r with
      | none => s'.cur = s.cur
      | some b => s.cur < s'.cur ∧ BodyOK ts s.cur b) := by
  unfold compBody
  refine Sat.bind (Sat.mono (compBodyLong_sat hw h) ?_)
  rintro r s1 ⟨g1, h1⟩
  cases r with
  | some b => exact Sat.pure ⟨g1, h1⟩
  | none =>
    dsimp only at h1
    refine Sat.mono (compBodyShort_sat hw g1) ?_
    rintro r s2 ⟨g2, h2⟩
    refine ⟨g2, ?_⟩
    cases r with
    | none => exact h2.trans h1
    | some b => rw [h1] at h2; exact h2

/-! ### Modifiers -/

/-- the shape of the token run consumed by `modifiers()`: modifier characters, and (with the
    intermediate-preparations extension) `&` followed by a parenthesised group that is closed -/
inductive ModSeq (inter : Bool) : List Tok → Prop
  | nil : ModSeq inter []
  | tok (t : Tok) (rest : List Tok) : (modifierFlag t.kind).isSome = true → ModSeq inter rest →
      ModSeq inter (t :: rest)
  | ref (a o c : Tok) (mid rest : List Tok) : inter = true → a.kind = .and → o.kind = .openParen →
      (∀ t ∈ mid, (t.kind == .closeParen) = false) → c.kind = .closeParen → ModSeq inter rest →
      ModSeq inter (a :: o :: (mid ++ c :: rest))

theorem ModSeq.head_flag {inter : Bool} {x : Tok} {l : List Tok} (h : ModSeq inter (x :: l)) :
    (modifierFlag x.kind).isSome = true := by
  cases h with
  | tok _ _ hf _ => exact hf
  | ref _ _ _ _ _ _ ha _ _ _ _ => rw [ha]; rfl

theorem modifiersLoop_sat (inter : Bool) (fuel : Nat) (h : G ts e s) :
    Sat (modifiersLoop (α := α) inter fuel) s (fun _ s' => G ts e s' ∧ s.cur ≤ s'.cur ∧
      ModSeq inter (slice ts s.cur s'.cur)) := by
  induction fuel generalizing s with
  | zero =>
    unfold modifiersLoop
    exact Sat.pure ⟨h, Nat.le_refl _, by rw [slice_self]; exact .nil⟩
  | succ fuel ih =>
    unfold modifiersLoop
    refine Sat.bind (peekK_sat h ?_)
    split
    · rename_i k hk
      obtain ⟨t, ht, htk⟩ := peek_some hk
      split
      · rename_i hmod
        refine Sat.bind (Sat.mono (bumpAny_sat h ht) ?_)
        rintro _ s1 ⟨-, g1, c1⟩
        refine Sat.mono (ih g1) ?_
        rintro _ s2 ⟨g2, c2, hm⟩
        refine ⟨g2, by omega, ?_⟩
        rw [slice_append ts (Nat.le_succ s.cur) (by omega : s.cur + 1 ≤ s2.cur), slice_one ht]
        rw [c1] at hm
        refine .tok t _ ?_ hm
        rw [htk]
        revert hmod; cases k <;> simp [isModifierTok, modifierFlag]
      · split
        · rename_i hand
          have hand' : t.kind = .and := by rw [htk]; simpa using hand
          refine Sat.bind (Sat.mono (bumpAny_sat h ht) ?_)
          rintro _ s1 ⟨-, g1, c1⟩
          dsimp only
          have hflag : (modifierFlag t.kind).isSome = true := by rw [hand']; rfl
          have hsimple : ∀ s2 : BP α, G ts e s2 → s2.cur = s1.cur →
              Sat (modifiersLoop (α := α) inter fuel) s2 (fun _ s' => G ts e s' ∧ s.cur ≤ s'.cur ∧
                ModSeq inter (slice ts s.cur s'.cur)) := by
            intro s2 g2 c2
            refine Sat.mono (ih g2) ?_
            rintro _ s3 ⟨g3, c3, hm⟩
            refine ⟨g3, by omega, ?_⟩
            rw [slice_append ts (Nat.le_succ s.cur) (by omega : s.cur + 1 ≤ s3.cur), slice_one ht]
            rw [c2, c1] at hm
            exact .tok t _ hflag hm
          split
          · rename_i hinter
            apply Sat.bind
            apply withRecover_sat
            refine Sat.bind (Sat.mono (consumeK_sat _ g1) ?_)
            rintro r2 s2 ⟨g2, h2⟩
            cases r2 with
            | none =>
              refine Sat.pure ?_
              exact hsimple _ (g2.setCur g1.le) rfl
            | some o =>
              obtain ⟨ho, hok, c2⟩ := h2
              refine Sat.bind (Sat.mono (untilK_sat _ g2) ?_)
              rintro r3 s3 ⟨g3, h3⟩
              cases r3 with
              | none =>
                refine Sat.pure ?_
                exact hsimple _ (g3.setCur g1.le) rfl
              | some mid =>
                obtain ⟨c3, hmid, ⟨c, hc, hck⟩, hnone⟩ := h3
                refine Sat.bind (Sat.mono (bump_sat g3 hc (by simpa using hck)) ?_)
                rintro _ s4 ⟨-, g4, c4⟩
                refine Sat.pure ?_
                refine Sat.mono (ih g4) ?_
                rintro _ s5 ⟨g5, c5, hm⟩
                refine ⟨g5, by omega, ?_⟩
                have e1 : slice ts s.cur s5.cur = t :: o :: (mid ++ c :: slice ts s4.cur s5.cur) := by
                  have p1 : slice ts s.cur s1.cur = [t] := by rw [c1]; exact slice_one ht
                  have p2 : slice ts s1.cur s2.cur = [o] := by rw [c2]; exact slice_one ho
                  have p4 : slice ts s3.cur s4.cur = [c] := by rw [c4]; exact slice_one hc
                  rw [slice_append ts (i := s.cur) (j := s1.cur) (k := s5.cur) (by omega) (by omega),
                    slice_append ts (i := s1.cur) (j := s2.cur) (k := s5.cur) (by omega) (by omega),
                    slice_append ts (i := s2.cur) (j := s3.cur) (k := s5.cur) (by omega) (by omega),
                    slice_append ts (i := s3.cur) (j := s4.cur) (k := s5.cur) (by omega) (by omega),
                    p1, p2, p4, ← hmid]
                  simp
                rw [e1]
                exact .ref t o c mid _ hinter hand' hok hnone (by simpa using hck) hm
          · exact hsimple _ g1 rfl
        · exact Sat.pure ⟨h, Nat.le_refl _, by rw [slice_self]; exact .nil⟩
    · exact Sat.pure ⟨h, Nat.le_refl _, by rw [slice_self]; exact .nil⟩

theorem modifiersP_sat (h : G ts e s) :
    Sat (modifiersP (α := α)) s (fun r s' => G ts e s' ∧ s.cur ≤ s'.cur ∧
      ModSeq (e.has Gen.EXT_INTERMEDIATE_PREPARATIONS) r) := by
  unfold modifiersP
  refine Sat.bind (hasExt_sat h ?_)
  split
  · exact Sat.pure ⟨h, Nat.le_refl _, .nil⟩
  refine Sat.bind (Sat.getCur ?_)
  refine Sat.bind (hasExt_sat h ?_)
  refine Sat.bind (restToks_sat h ?_)
  refine Sat.bind (Sat.mono (modifiersLoop_sat _ _ h) ?_)
  rintro _ s1 ⟨g1, c1, hm⟩
  refine Sat.bind (Sat.get ?_)
  refine Sat.pure ⟨g1, c1, ?_⟩
  rw [g1.toks]; exact hm

/-- `parse_intermediate_ref_data`: either there is no group (nothing consumed), or the group is
    closed and the tokens after the closing parenthesis are returned; the only panic site is an
    opening parenthesis without a closing one (last disjunct) -/
theorem parseInterRef_sat (h : G ts e s) (toks : List Tok) :
    Sat (parseInterRef (α := α) toks) s (fun r s' =>
      (G ts e s' ∧ s'.cur = s.cur ∧
        ((r.2 = toks ∧ (toks.head?.map (·.kind)) ≠ some .openParen) ∨
         (∃ endPos, (toks.head?.map (·.kind)) = some .openParen ∧
            toks.findIdx? (fun t => t.kind == .closeParen) = some endPos ∧
            r.2 = toks.drop (endPos + 1)))) ∨
      ((toks.head?.map (·.kind)) = some .openParen ∧
        toks.findIdx? (fun t => t.kind == .closeParen) = none)) := by
  unfold parseInterRef
  split
  · exact Sat.pure (Or.inl ⟨h, rfl, Or.inl ⟨rfl, by simp⟩⟩)
  rename_i t0 tail
  split
  · rename_i hk
    refine Sat.pure (Or.inl ⟨h, rfl, Or.inl ⟨rfl, ?_⟩⟩)
    simp only [List.head?_cons, Option.map_some, ne_eq, Option.some.injEq]
    simpa using hk
  rename_i hk
  split
  · rename_i hnone
    refine Sat.bind (Sat.modify ?_)
    refine Sat.pure (Or.inr ⟨?_, hnone⟩)
    simp only [List.head?_cons, Option.map_some, Option.some.injEq]
    simpa using hk
  rename_i pos hpos
  have hpos : (List.head? (t0 :: tail)).map (·.kind) = some TK.openParen ∧
      List.findIdx? (fun t => t.kind == TK.closeParen) (t0 :: tail) = some pos := by
    refine ⟨?_, hpos⟩
    simp only [List.head?_cons, Option.map_some, Option.some.injEq]
    simpa using hk
  dsimp only
  split
  · split
    · exact Sat.pure (Or.inl ⟨h, rfl, Or.inr ⟨_, hpos.1, hpos.2, rfl⟩⟩)
    · refine Sat.bind (Sat.perr ?_); intro evs
      exact Sat.pure (Or.inl ⟨h.setEvs evs, rfl, Or.inr ⟨_, hpos.1, hpos.2, rfl⟩⟩)
  · split
    · refine Sat.bind (Sat.perr ?_); intro evs
      exact Sat.pure (Or.inl ⟨h.setEvs evs, rfl, Or.inr ⟨_, hpos.1, hpos.2, rfl⟩⟩)
    · rename_i hf
      split
      · refine Sat.bind (Sat.perr ?_); intro evs
        exact Sat.pure (Or.inl ⟨h.setEvs evs, rfl, Or.inr ⟨_, hpos.1, hpos.2, rfl⟩⟩)
      · split
        · refine Sat.bind (Sat.perr ?_); intro evs
          exact Sat.pure (Or.inl ⟨h.setEvs evs, rfl, Or.inr ⟨_, hpos.1, hpos.2, rfl⟩⟩)
        · refine Sat.bind (tokensSpanP_sat ?_ ?_)
          · intro h0; apply hf; rw [h0]; rfl
          refine Sat.bind (Sat.perr ?_); intro evs
          exact Sat.pure (Or.inl ⟨h.setEvs evs, rfl, Or.inr ⟨_, hpos.1, hpos.2, rfl⟩⟩)

theorem findIdx_ref (p : Tok → Bool) (o c : Tok) (mid rest : List Tok) (ho : p o = false)
    (hmid : ∀ t ∈ mid, p t = false) (hc : p c = true) :
    (o :: (mid ++ c :: rest)).findIdx? p = some (mid.length + 1) := by
  rw [List.findIdx?_cons]
  simp only [ho, Bool.false_eq_true, if_false]
  have : (mid ++ c :: rest).findIdx? p = some mid.length := by
    induction mid with
    | nil => simp [List.findIdx?_cons, hc]
    | cons x xs ih =>
      have hx := hmid x (by simp)
      simp only [List.cons_append, List.findIdx?_cons, hx, Bool.false_eq_true, if_false]
      rw [ih (fun t ht => hmid t (by simp [ht]))]
      rfl
  rw [this]; rfl

theorem modifierFlag_openParen : modifierFlag .openParen = none := by decide

/-- on the token runs `modifiers()` produces, the reference parser finds its closing parenthesis -/
theorem parseInterRef_modseq (h : G ts e s) {a : Tok} {rest : List Tok} (hm : ModSeq true (a :: rest)) :
    Sat (parseInterRef (α := α) rest) s (fun r s' => G ts e s' ∧ s'.cur = s.cur ∧ ModSeq true r.2 ∧
      ∀ t ∈ r.2, t ∈ rest) := by
  refine Sat.mono (parseInterRef_sat h rest) ?_
  intro r s1 hr
  cases hm with
  | tok _ _ hf hrest =>
    have hhead : (rest.head?.map (·.kind)) ≠ some .openParen := by
      cases rest with
      | nil => simp
      | cons x l =>
        have := hrest.head_flag
        intro h0
        simp only [List.head?_cons, Option.map_some, Option.some.injEq] at h0
        rw [h0, modifierFlag_openParen] at this; cases this
    rcases hr with ⟨g1, c1, ⟨h1, -⟩ | ⟨_, h2, -⟩⟩ | ⟨h2, -⟩
    · rw [h1]; exact ⟨g1, c1, hrest, fun t ht => ht⟩
    · exact absurd h2 hhead
    · exact absurd h2 hhead
  | ref _ o c mid rest' _ ha ho hmid hc hrest =>
    have hfind := findIdx_ref (fun t => t.kind == .closeParen) o c mid rest'
      (by simp [ho]) hmid (by simp [hc])
    rcases hr with ⟨g1, c1, ⟨-, h1⟩ | ⟨endPos, -, h2, h3⟩⟩ | ⟨-, h2⟩
    · exfalso; apply h1; simp [ho]
    · rw [hfind] at h2
      simp only [Option.some.injEq] at h2
      subst h2
      have : List.drop (mid.length + 1 + 1) (o :: (mid ++ c :: rest')) = rest' := by
        simp [List.drop_append]
      rw [this] at h3
      rw [h3]
      exact ⟨g1, c1, hrest, fun t ht => by simp [ht]⟩
    · rw [hfind] at h2; cases h2

theorem insert_contains_recipe (m : Modifiers) (k : TK) (f : Nat) (hf : modifierFlag k = some f)
    (h : (m.insert f).contains Modifiers.RECIPE = true) :
    m.contains Modifiers.RECIPE = true ∨ k = .at := by
  by_cases hk : k = .at
  · exact Or.inr hk
  · left
    have hf1 : f &&& 1 = 0 := by
      cases k <;> simp [modifierFlag] at hf hk <;> subst hf <;> decide
    simp only [Modifiers.contains, Modifiers.insert, Modifiers.RECIPE, Gen.MOD_RECIPE] at h ⊢
    rw [Nat.and_or_distrib_right, hf1, Nat.or_zero] at h
    exact h

theorem parseModifiersLoop_sat (span : Span) (ie : Bool) (fuel : Nat) (mtoks : List Tok)
    (m : Modifiers) (d : Option (Loc InterData)) (h : G ts e s) (hm : ModSeq ie mtoks) :
    Sat (parseModifiersLoop (α := α) span ie fuel mtoks m d) s (fun r s' => G ts e s' ∧ s'.cur = s.cur ∧
      (r.1.contains Modifiers.RECIPE = true →
        m.contains Modifiers.RECIPE = true ∨ ∃ t ∈ mtoks, t.kind = .at)) := by
  induction fuel generalizing mtoks m d s with
  | zero =>
    unfold parseModifiersLoop
    exact Sat.pure ⟨h, rfl, fun hc => Or.inl hc⟩
  | succ fuel ih =>
    cases mtoks with
    | nil =>
      unfold parseModifiersLoop
      exact Sat.pure ⟨h, rfl, fun hc => Or.inl hc⟩
    | cons tok rest =>
      unfold parseModifiersLoop
      have hflag := hm.head_flag
      obtain ⟨f, hf⟩ := Option.isSome_iff_exists.mp hflag
      simp only [hf]
      refine Sat.bind (Sat.pure ?_)
      -- the rest of the loop, for whatever remains after the optional reference
      have tail : ∀ (s1 : BP α) (rest' : List Tok) (d' : Option (Loc InterData)), G ts e s1 →
          s1.cur = s.cur → ModSeq ie rest' → (∀ t ∈ rest', t ∈ rest) →
          Sat (if (decide (f ≠ 0) && m.contains f) = true then do
                perr "duplicate-modifier" [span]
                parseModifiersLoop (α := α) span ie fuel rest' m d'
              else parseModifiersLoop span ie fuel rest' (m.insert f) d') s1
            (fun r s' => G ts e s' ∧ s'.cur = s.cur ∧
              (r.1.contains Modifiers.RECIPE = true →
                m.contains Modifiers.RECIPE = true ∨ ∃ t ∈ tok :: rest, t.kind = .at)) := by
        intro s1 rest' d' g1 c1 hm' hsub
        split
        · refine Sat.bind (Sat.perr ?_); intro evs
          refine Sat.mono (ih rest' m d' (g1.setEvs evs) hm') ?_
          rintro r s2 ⟨g2, c2, hr⟩
          refine ⟨g2, c2.trans c1, fun hc => ?_⟩
          rcases hr hc with h1 | ⟨t, ht, hk⟩
          · exact Or.inl h1
          · exact Or.inr ⟨t, by simp [hsub t ht], hk⟩
        · refine Sat.mono (ih rest' (m.insert f) d' g1 hm') ?_
          rintro r s2 ⟨g2, c2, hr⟩
          refine ⟨g2, c2.trans c1, fun hc => ?_⟩
          rcases hr hc with h1 | ⟨t, ht, hk⟩
          · rcases insert_contains_recipe m tok.kind f hf h1 with h2 | h2
            · exact Or.inl h2
            · exact Or.inr ⟨tok, by simp, h2⟩
          · exact Or.inr ⟨t, by simp [hsub t ht], hk⟩
      try dsimp only
      split
      · rename_i hc
        simp only [Bool.and_eq_true] at hc
        have hie : ie = true := hc.2
        subst hie
        refine Sat.bind (Sat.mono (parseInterRef_modseq h hm) ?_)
        rintro r s1 ⟨g1, c1, hm1, hsub⟩
        exact tail s1 r.2 r.1 g1 c1 hm1 hsub
      · rename_i hc
        refine tail s rest d h rfl ?_ (fun t ht => ht)
        cases hm with
        | tok _ _ _ hrest => exact hrest
        | ref _ o c mid rest' hi ha _ _ _ _ =>
          exfalso; apply hc; simp [ha, hi]

theorem parseModifiers_sat (mtoks : List Tok) (pos : Nat) (h : G ts e s)
    (hm : ModSeq (e.has Gen.EXT_INTERMEDIATE_PREPARATIONS) mtoks) :
    Sat (parseModifiers (α := α) mtoks pos) s (fun r s' => G ts e s' ∧ s'.cur = s.cur ∧
      (r.flags.val.contains Modifiers.RECIPE = true → ∃ t ∈ mtoks, t.kind = .at)) := by
  unfold parseModifiers
  split
  · refine Sat.pure ⟨h, rfl, ?_⟩
    intro hc
    have : Modifiers.empty.contains Modifiers.RECIPE = true := hc
    exact absurd this (by decide)
  dsimp only
  refine Sat.bind (hasExt_sat h ?_)
  refine Sat.bind (Sat.mono (parseModifiersLoop_sat _ _ _ _ _ _ h hm) ?_)
  rintro r s1 ⟨g1, c1, hr⟩
  refine Sat.pure ⟨g1, c1, fun hc => ?_⟩
  rcases hr hc with h1 | h1
  · exact absurd h1 (by decide)
  · exact h1

/-! ### Notes, aliases, the three components -/

theorem noteP_sat (hw : WF ts) (h : G ts e s) :
    Sat (noteP (α := α)) s (fun _ s' => G ts e s' ∧ s.cur ≤ s'.cur) := by
  unfold noteP
  apply withRecover_sat
  refine Sat.bind (Sat.mono (consumeK_sat _ h) ?_)
  rintro r1 s1 ⟨g1, h1⟩
  cases r1 with
  | none => exact Sat.pure ⟨g1.setCur h.le, Nat.le_refl _⟩
  | some o =>
    obtain ⟨-, -, c1⟩ := h1
    refine Sat.bind (currentOffset_sat g1 ?_)
    refine Sat.bind (Sat.mono (untilK_sat _ g1) ?_)
    rintro r2 s2 ⟨g2, h2⟩
    cases r2 with
    | none => exact Sat.pure ⟨g2.setCur h.le, Nat.le_refl _⟩
    | some n =>
      obtain ⟨c2, hn, ⟨c, hc, hck⟩, -⟩ := h2
      refine Sat.bind (Sat.mono (bump_sat g2 hc (by simpa using hck)) ?_)
      rintro _ s3 ⟨-, g3, c3⟩
      have hr : RunAt (offAt ts s1.cur) n := by rw [hn]; exact slice_runAt hw.run c2
      refine Sat.bind (bpText_sat hr ?_)
      exact Sat.pure ⟨g3, by omega⟩

theorem runAt_split {off : Nat} {l : List Tok} {i : Nat} {t : Tok} (h : RunAt off l)
    (ht : l[i]? = some t) : RunAt off (l.take i) ∧ RunAt t.stop (l.drop (i + 1)) := by
  have hi : i < l.length := getElem?_lt ht
  have e1 : l = l.take i ++ (t :: l.drop (i + 1)) := by
    have h1 : l.drop i = t :: l.drop (i + 1) := by
      rw [List.drop_eq_getElem_cons hi]
      rw [List.getElem?_eq_getElem hi] at ht
      simp only [Option.some.injEq] at ht
      rw [ht]
    rw [← h1, List.take_append_drop]
  rw [e1, runAt_append] at h
  refine ⟨h.1, ?_⟩
  obtain ⟨⟨-, hc⟩, he⟩ := h.2
  exact ⟨hc, fun x hx => he x (by simp [hx])⟩

theorem parseAlias_sat (container : String) {toks : List Tok} {off : Nat} (hr : RunAt off toks)
    (h : G ts e s) :
    Sat (parseAlias (α := α) container toks off) s (fun _ s' => G ts e s' ∧ s'.cur = s.cur) := by
  unfold parseAlias
  refine Sat.bind (hasExt_sat h ?_)
  dsimp only
  split
  · refine Sat.bind (bpText_sat hr ?_)
    exact Sat.pure ⟨h, rfl⟩
  · rename_i i hi
    have hfi : toks.findIdx? (fun t => t.kind == .or) = some i := by
      split at hi
      · exact hi
      · cases hi
    have hlt : i < toks.length := by
      rw [List.findIdx?_eq_some_iff_getElem] at hfi
      exact hfi.1
    have hget : toks[i]? = some toks[i] := List.getElem?_eq_getElem hlt
    obtain ⟨hr1, hr2⟩ := runAt_split hr hget
    simp only [hget, Option.getD_some]
    refine Sat.bind (bpText_sat hr2 ?_)
    refine Sat.bind (Sat.get ?_)
    apply Sat.bind
    apply Sat.mono (Q := fun _ s' => G ts e s' ∧ s'.cur = s.cur)
    · split
      · refine Sat.bind (Sat.perr ?_); intro evs
        exact Sat.pure ⟨h.setEvs evs, rfl⟩
      · split
        · refine Sat.bind (Sat.perr ?_); intro evs
          exact Sat.pure ⟨h.setEvs evs, rfl⟩
        · exact Sat.pure ⟨h, rfl⟩
    rintro alias s1 ⟨g1, c1⟩
    refine Sat.bind (bpText_sat hr1 ?_)
    exact Sat.pure ⟨g1, c1⟩

theorem checkEmptyName_sat (container : String) (name : Text) (h : G ts e s) :
    Sat (checkEmptyName (α := α) container name) s (fun _ s' => G ts e s' ∧ s'.cur = s.cur) := by
  unfold checkEmptyName
  refine Sat.bind (Sat.get ?_)
  split
  · refine Sat.perr ?_; intro evs
    exact ⟨h.setEvs evs, rfl⟩
  · exact Sat.pure ⟨h, rfl⟩

theorem checkNoteTimer_sat (h : G ts e s) :
    Sat (checkNoteTimer (α := α)) s (fun _ s' => G ts e s' ∧ s'.cur = s.cur) := by
  unfold checkNoteTimer
  apply Sat.bind
  apply Sat.mono (Q := fun _ s' => G ts e s' ∧ s'.cur = s.cur)
  · apply withRecover_sat
    refine Sat.bind (Sat.mono (consumeK_sat _ h) ?_)
    rintro r1 s1 ⟨g1, h1⟩
    cases r1 with
    | none => exact Sat.pure ⟨g1.setCur h.le, rfl⟩
    | some o =>
      obtain ⟨-, -, c1⟩ := h1
      refine Sat.bind (Sat.mono (untilK_sat _ g1) ?_)
      rintro r2 s2 ⟨g2, h2⟩
      cases r2 with
      | none => exact Sat.pure ⟨g2.setCur h.le, rfl⟩
      | some n =>
        obtain ⟨c2, -, ⟨c, hc, hck⟩, -⟩ := h2
        refine Sat.bind (Sat.mono (bump_sat g2 hc (by simpa using hck)) ?_)
        rintro _ s3 ⟨-, g3, c3⟩
        refine Sat.bind (Sat.pwarn ?_); intro evs
        exact Sat.pure ⟨(g3.setEvs evs).setCur h.le, rfl⟩
  rintro _ s1 ⟨g1, c1⟩
  exact Sat.pure ⟨g1, c1⟩

theorem ingredientP_sat (hw : WF ts) (h : G ts e s) :
    Sat (ingredientP (α := α)) s (fun r s' => G ts e s' ∧ (r.isSome = true → s.cur < s'.cur)) := by
  unfold ingredientP
  refine Sat.bind (currentOffset_sat h ?_)
  refine Sat.bind (Sat.mono (consumeK_sat _ h) ?_)
  rintro r1 s1 ⟨g1, h1⟩
  cases r1 with
  | none => exact Sat.pure ⟨g1, by simp⟩
  | some m =>
    obtain ⟨-, -, c1⟩ := h1
    refine Sat.bind (currentOffset_sat g1 ?_)
    refine Sat.bind (Sat.mono (modifiersP_sat g1) ?_)
    rintro mtoks s2 ⟨g2, c2, hm⟩
    refine Sat.bind (currentOffset_sat g2 ?_)
    refine Sat.bind (Sat.mono (compBody_sat hw g2) ?_)
    rintro r3 s3 ⟨g3, h3⟩
    cases r3 with
    | none => exact Sat.pure ⟨g3, by simp⟩
    | some body =>
      obtain ⟨c3, hname, hq⟩ := h3
      refine Sat.bind (Sat.mono (noteP_sat hw g3) ?_)
      rintro note s4 ⟨g4, c4⟩
      refine Sat.bind (currentOffset_sat g4 ?_)
      refine Sat.bind (Sat.mono (parseAlias_sat "ingredient" hname g4) ?_)
      rintro ⟨name, alias⟩ s5 ⟨g5, c5⟩
      dsimp only
      refine Sat.bind (Sat.mono (checkEmptyName_sat "ingredient" name g5) ?_)
      rintro _ s6 ⟨g6, c6⟩
      refine Sat.bind (Sat.mono (parseModifiers_sat mtoks _ g6 hm) ?_)
      rintro pm s7 ⟨g7, c7, -⟩
      apply Sat.bind
      apply Sat.mono (Q := fun _ s' => G ts e s' ∧ s'.cur = s7.cur)
      · split
        · rename_i qt hqt
          refine Sat.bind (Sat.mono (parseQuantity_sat (hq qt hqt) g7) ?_)
          rintro q s8 ⟨g8, c8⟩
          exact Sat.pure ⟨g8, c8⟩
        · exact Sat.pure ⟨g7, rfl⟩
      rintro quantity s8 ⟨g8, c8⟩
      exact Sat.pure ⟨g8, fun _ => by omega⟩

theorem cookwareP_sat (hw : WF ts) (h : G ts e s) :
    Sat (cookwareP (α := α)) s (fun r s' => G ts e s' ∧ (r.isSome = true → s.cur < s'.cur)) := by
  unfold cookwareP
  refine Sat.bind (currentOffset_sat h ?_)
  refine Sat.bind (Sat.mono (consumeK_sat _ h) ?_)
  rintro r1 s1 ⟨g1, h1⟩
  cases r1 with
  | none => exact Sat.pure ⟨g1, by simp⟩
  | some m =>
    obtain ⟨-, -, c1⟩ := h1
    refine Sat.bind (currentOffset_sat g1 ?_)
    refine Sat.bind (Sat.mono (modifiersP_sat g1) ?_)
    rintro mtoks s2 ⟨g2, c2, hm⟩
    refine Sat.bind (currentOffset_sat g2 ?_)
    refine Sat.bind (Sat.mono (compBody_sat hw g2) ?_)
    rintro r3 s3 ⟨g3, h3⟩
    cases r3 with
    | none => exact Sat.pure ⟨g3, by simp⟩
    | some body =>
      obtain ⟨c3, hname, hq⟩ := h3
      refine Sat.bind (Sat.mono (noteP_sat hw g3) ?_)
      rintro note s4 ⟨g4, c4⟩
      refine Sat.bind (currentOffset_sat g4 ?_)
      refine Sat.bind (Sat.mono (parseAlias_sat "cookware" hname g4) ?_)
      rintro ⟨name, alias⟩ s5 ⟨g5, c5⟩
      dsimp only
      refine Sat.bind (Sat.mono (checkEmptyName_sat "cookware" name g5) ?_)
      rintro _ s6 ⟨g6, c6⟩
      apply Sat.bind
      apply Sat.mono (Q := fun _ s' => G ts e s' ∧ s'.cur = s6.cur)
      · split
        · rename_i qt hqt
          refine Sat.bind (Sat.mono (parseQuantity_sat (hq qt hqt) g6) ?_)
          rintro q s7 ⟨g7, c7⟩
          split
          · refine Sat.bind (Sat.perr ?_); intro evs
            exact Sat.pure ⟨g7.setEvs evs, c7⟩
          · exact Sat.pure ⟨g7, c7⟩
        · exact Sat.pure ⟨g6, rfl⟩
      rintro quantity s7 ⟨g7, c7⟩
      refine Sat.bind (Sat.mono (parseModifiers_sat mtoks _ g7 hm) ?_)
      rintro pm s8 ⟨g8, c8, hrec⟩
      split
      · refine Sat.bind (Sat.perr ?_); intro evs
        split
        · rename_i hc
          obtain ⟨t, htm, htk⟩ := hrec hc
          split
          · refine Sat.bind (Sat.perr ?_); intro evs'
            exact Sat.pure ⟨(g8.setEvs evs).setEvs evs', fun _ => by show s.cur < s8.cur; omega⟩
          · rename_i hnone
            exfalso
            rw [List.find?_eq_none] at hnone
            exact hnone t htm (by simp [htk])
        · exact Sat.pure ⟨g8.setEvs evs, fun _ => by show s.cur < s8.cur; omega⟩
      · split
        · rename_i hc
          obtain ⟨t, htm, htk⟩ := hrec hc
          split
          · refine Sat.bind (Sat.perr ?_); intro evs'
            exact Sat.pure ⟨(g8).setEvs evs', fun _ => by show s.cur < s8.cur; omega⟩
          · rename_i hnone
            exfalso
            rw [List.find?_eq_none] at hnone
            exact hnone t htm (by simp [htk])
        · exact Sat.pure ⟨g8, fun _ => by show s.cur < s8.cur; omega⟩

/-- `m` keeps the invariant and does not move the cursor, from every good state -/
structure Stay {β : Type} (ts : List Tok) (e : Ext) (m : P α β) : Prop where
  run : ∀ s : BP α, G ts e s → Sat m s (fun _ s' => G ts e s' ∧ s'.cur = s.cur)

theorem Stay.bind {β γ : Type} {m : P α β} {k : β → P α γ} (hm : Stay ts e m) (hk : ∀ a, Stay ts e (k a)) :
    Stay ts e (m >>= k) := by
  constructor
  intro s h
  refine Sat.bind (Sat.mono (hm.run s h) ?_)
  rintro a s1 ⟨g1, c1⟩
  refine Sat.mono ((hk a).run s1 g1) ?_
  rintro b s2 ⟨g2, c2⟩
  exact ⟨g2, c2.trans c1⟩

theorem Stay.pure {β : Type} (a : β) : Stay ts e (Pure.pure a : P α β) := ⟨fun s h => ⟨h, rfl⟩⟩
theorem Stay.perr (k : String) (l : List Span) : Stay ts e (perr (α := α) k l) := ⟨fun s h => ⟨h.setEvs _, rfl⟩⟩
theorem Stay.pwarn (k : String) (l : List Span) : Stay ts e (pwarn (α := α) k l) := ⟨fun s h => ⟨h.setEvs _, rfl⟩⟩
theorem Stay.pushEv (ev : Ev α) : Stay ts e (pushEv ev) := ⟨fun s h => ⟨h.setEvs _, rfl⟩⟩
theorem Stay.get : Stay ts e (get : P α (BP α)) := ⟨fun s h => ⟨h, rfl⟩⟩
theorem Stay.hasExt (f : Nat) : Stay ts e (hasExt (α := α) f) := ⟨fun s h => ⟨h, rfl⟩⟩
theorem Stay.bpText {off : Nat} {l : List Tok} (hr : RunAt off l) : Stay ts e (bpText (α := α) off l) :=
  ⟨fun s h => bpText_sat hr ⟨h, rfl⟩⟩
theorem Stay.parseQuantity {q : List Tok} (hq : WF q) : Stay ts e (parseQuantity (α := α) q) :=
  ⟨fun s h => parseQuantity_sat hq h⟩
theorem Stay.checkNoteTimer : Stay ts e (checkNoteTimer (α := α)) := ⟨fun s h => checkNoteTimer_sat h⟩

/-- one step of the structural proof that a block of code stays put -/
macro "stay_step" : tactic => `(tactic| first
  | exact Stay.pure _ | exact Stay.perr _ _ | exact Stay.pwarn _ _ | exact Stay.pushEv _
  | exact Stay.get | exact Stay.hasExt _ | exact Stay.checkNoteTimer | assumption
  | intro _
  | apply Stay.bind
  | dsimp only
  | split)

theorem timerP_sat (hw : WF ts) (h : G ts e s) :
    Sat (timerP (α := α)) s (fun r s' => G ts e s' ∧ (r.isSome = true → s.cur < s'.cur)) := by
  unfold timerP
  refine Sat.bind (currentOffset_sat h ?_)
  refine Sat.bind (Sat.mono (consumeK_sat _ h) ?_)
  rintro r1 s1 ⟨g1, h1⟩
  cases r1 with
  | none => exact Sat.pure ⟨g1, by simp⟩
  | some m =>
    obtain ⟨-, -, c1⟩ := h1
    refine Sat.bind (Sat.mono (modifiersP_sat g1) ?_)
    rintro mtoks s2 ⟨g2, c2, hm⟩
    refine Sat.bind (currentOffset_sat g2 ?_)
    refine Sat.bind (Sat.mono (compBody_sat hw g2) ?_)
    rintro r3 s3 ⟨g3, h3⟩
    cases r3 with
    | none => exact Sat.pure ⟨g3, by simp⟩
    | some body =>
      obtain ⟨c3, hname, hq⟩ := h3
      refine Sat.bind (currentOffset_sat g3 ?_)
      refine Sat.mono (Q := fun _ s' => G ts e s' ∧ s'.cur = s3.cur) ?_
        (by rintro r s' ⟨g, c⟩; exact ⟨g, fun _ => by omega⟩)
      refine Stay.run ?_ s3 g3
      have hs1 : Stay ts e (bpText (α := α) (offAt ts s2.cur) body.name) := Stay.bpText hname
      have hs2 : ∀ qt, body.quantity = some qt → Stay ts e (parseQuantity (α := α) qt) :=
        fun qt hqt => Stay.parseQuantity (hq qt hqt)
      repeat (first | stay_step | (apply hs2; assumption))

/-! ### Steps -/

theorem drop_isEmpty_false {c : Nat} (h : (ts.drop c).isEmpty = false) : c < ts.length := by
  rcases Nat.lt_or_ge c ts.length with h' | h'
  · exact h'
  · rw [List.drop_eq_nil_of_le h'] at h; cases h

theorem drop_isEmpty_true {c : Nat} (h : (ts.drop c).isEmpty = true) : ts.length ≤ c := by
  rcases Nat.lt_or_ge c ts.length with h' | h'
  · have : (ts.drop c).length = 0 := by
      rw [List.isEmpty_iff] at h; rw [h]; rfl
    rw [List.length_drop] at this; omega
  · exact h'

/-- one iteration of the `while` of `parse_step` consumes at least one token -/
theorem stepOne_sat (hw : WF ts) (h : G ts e s) (hlt : s.cur < ts.length) :
    Sat (stepOne (α := α)) s (fun _ s' => G ts e s' ∧ s.cur < s'.cur) := by
  unfold stepOne
  apply Sat.bind
  apply Sat.mono (Q := fun r s' => G ts e s' ∧
    match r with
    | none => s'.cur = s.cur
    | some _ => s.cur < s'.cur)
  · have comp : ∀ (p : P α (Option (Ev α))),
        (∀ s : BP α, G ts e s → Sat p s (fun r s' => G ts e s' ∧ (r.isSome = true → s.cur < s'.cur))) →
        Sat (withRecover p) s (fun r s' => G ts e s' ∧
          match r with
          | none => s'.cur = s.cur
          | some _ => s.cur < s'.cur) := by
      intro p hp
      apply withRecover_sat
      refine Sat.mono (hp s h) ?_
      rintro r s1 ⟨g1, h1⟩
      cases r with
      | none => exact ⟨g1.setCur h.le, rfl⟩
      | some b => exact ⟨g1, h1 rfl⟩
    refine Sat.bind (peekK_sat h ?_)
    split
    · exact comp _ (fun s h => ingredientP_sat hw h)
    · exact comp _ (fun s h => cookwareP_sat hw h)
    · exact comp _ (fun s h => timerP_sat hw h)
    · exact Sat.pure ⟨h, rfl⟩
  rintro comp s1 ⟨g1, h1⟩
  cases comp with
  | some ev => exact Sat.pushEv ⟨g1.setEvs _, h1⟩
  | none =>
    dsimp only at h1 ⊢
    refine Sat.bind (currentOffset_sat g1 ?_)
    refine Sat.bind (Sat.getCur ?_)
    have hget : ts[s1.cur]? = some ts[s1.cur] := List.getElem?_eq_getElem (by omega)
    refine Sat.bind (Sat.mono (bumpAny_sat g1 hget) ?_)
    rintro _ s2 ⟨-, g2, c2⟩
    refine Sat.bind (Sat.mono (consumeWhile_sat _ g2) ?_)
    rintro _ s3 ⟨g3, c3, -, -, -⟩
    refine Sat.bind (Sat.get ?_)
    try dsimp only
    have hr : RunAt (offAt ts s1.cur) ((s3.toks.take s3.cur).drop s1.cur) := by
      rw [g3.toks]; exact slice_runAt hw.run (by omega)
    refine Sat.bind (bpText_sat hr ?_)
    split
    · exact Sat.pushEv ⟨g3.setEvs _, by show s.cur < s3.cur; omega⟩
    · exact Sat.pure ⟨g3, by omega⟩

theorem stepLoop_sat (hw : WF ts) (fuel : Nat) (h : G ts e s) (hf : ts.length - s.cur ≤ fuel) :
    Sat (stepLoop (α := α) fuel) s (fun _ s' => G ts e s' ∧ s'.cur = ts.length) := by
  have hle := h.le
  induction fuel generalizing s with
  | zero =>
    unfold stepLoop
    refine Sat.bind (restToks_sat h ?_)
    have : ts.drop s.cur = [] := List.drop_eq_nil_of_le (by omega)
    rw [this]
    exact Sat.pure ⟨h, by omega⟩
  | succ fuel ih =>
    unfold stepLoop
    refine Sat.bind (restToks_sat h ?_)
    split
    · rename_i hemp
      have := drop_isEmpty_true hemp
      exact Sat.pure ⟨h, by omega⟩
    · rename_i hemp
      have hlt := drop_isEmpty_false (by simpa using hemp)
      refine Sat.bind (Sat.mono (stepOne_sat hw h hlt) ?_)
      rintro _ s1 ⟨g1, c1⟩
      exact ih g1 (by omega) g1.le

theorem parseStep_sat (hw : WF ts) (h : G ts e s) :
    Sat (parseStep (α := α)) s (fun _ s' => G ts e s' ∧ s'.cur = ts.length) := by
  unfold parseStep
  refine Sat.bind (Sat.pushEv ?_)
  have g1 := h.setEvs (s.evs.push (.start .step))
  refine Sat.bind (restToks_sat g1 ?_)
  refine Sat.bind (Sat.mono (stepLoop_sat hw _ g1 (by simp)) ?_)
  rintro _ s2 ⟨g2, c2⟩
  exact Sat.pushEv ⟨g2.setEvs _, c2⟩

/-! ### Text blocks, sections, metadata -/

/-- the part of one iteration of `parse_text_block` after the optional `>` marker -/
def textLineK (k : P α Unit) : P α Unit := do
  let start ← currentOffset
  let c0 ← getCur
  let _ ← consumeWhile (fun k => k != .newline)
  let _ ← consumeK .newline
  let s ← get
  let toks := (s.toks.take s.cur).drop c0
  let text ← bpText start toks
  if !text.isTextEmpty s.cs then
    pushEv (.text text)
    k
  else k

theorem textLineK_sat (hw : WF ts) (h : G ts e s) (k : P α Unit) (Q : Unit → BP α → Prop)
    (hk : ∀ s2 : BP α, G ts e s2 → s.cur ≤ s2.cur → (s.cur < ts.length → s.cur < s2.cur) → Sat k s2 Q) :
    Sat (textLineK (α := α) k) s Q := by
  unfold textLineK
  refine Sat.bind (currentOffset_sat h ?_)
  refine Sat.bind (Sat.getCur ?_)
  refine Sat.bind (Sat.mono (consumeWhile_sat _ h) ?_)
  rintro _ s1 ⟨g1, c1, -, -, hend⟩
  refine Sat.bind (Sat.mono (consumeK_sat _ g1) ?_)
  rintro r2 s2 ⟨g2, h2⟩
  have hprog : s1.cur ≤ s2.cur ∧ (s.cur < ts.length → s.cur < s2.cur) := by
    cases r2 with
    | some nl =>
      obtain ⟨-, -, c2⟩ := h2
      exact ⟨by omega, fun _ => by omega⟩
    | none =>
      obtain ⟨c2, hk⟩ := h2
      refine ⟨by omega, fun hlt => ?_⟩
      rcases Nat.lt_or_ge s.cur s1.cur with h' | h'
      · omega
      · exfalso
        have e1 : s1.cur = s.cur := by omega
        have hget : ts[s1.cur]? = some ts[s1.cur] := List.getElem?_eq_getElem (by omega)
        have := hend _ hget
        apply hk
        rw [hget]
        simp only [Option.map_some, Option.some.injEq]
        simpa using this
  refine Sat.bind (Sat.get ?_)
  dsimp only
  have hr : RunAt (offAt ts s.cur) ((s2.toks.take s2.cur).drop s.cur) := by
    rw [g2.toks]; exact slice_runAt hw.run (by omega)
  refine Sat.bind (bpText_sat hr ?_)
  split
  · refine Sat.bind (Sat.pushEv ?_)
    exact hk _ (g2.setEvs _) (by show s.cur ≤ s2.cur; omega) hprog.2
  · exact hk _ g2 (by omega) hprog.2

theorem textBlockLoop_sat (hw : WF ts) (fuel : Nat) (h : G ts e s) (hf : ts.length - s.cur ≤ fuel) :
    Sat (textBlockLoop (α := α) fuel) s (fun _ s' => G ts e s' ∧ s'.cur = ts.length) := by
  have hle := h.le
  induction fuel generalizing s with
  | zero =>
    unfold textBlockLoop
    refine Sat.bind (restToks_sat h ?_)
    have : ts.drop s.cur = [] := List.drop_eq_nil_of_le (by omega)
    rw [this]
    exact Sat.pure ⟨h, by omega⟩
  | succ fuel ih =>
    unfold textBlockLoop
    refine Sat.bind (restToks_sat h ?_)
    split
    · rename_i hemp
      have := drop_isEmpty_true hemp
      exact Sat.pure ⟨h, by omega⟩
    · rename_i hemp
      have hlt := drop_isEmpty_false (by simpa using hemp)
      have tail : ∀ s1 : BP α, G ts e s1 → s.cur ≤ s1.cur →
          Sat (textLineK (α := α) (textBlockLoop fuel)) s1
            (fun _ s' => G ts e s' ∧ s'.cur = ts.length) := by
        intro s1 g1 c1
        refine textLineK_sat hw g1 _ _ ?_
        intro s2 g2 c2 hp
        have hle2 := g2.le
        have hle1 := g1.le
        refine ih g2 ?_ g2.le
        rcases Nat.lt_or_ge s1.cur ts.length with h' | h'
        · have := hp h'; omega
        · omega
      refine Sat.bind (Sat.mono (consumeK_sat _ h) ?_)
      rintro r1 s1 ⟨g1, h1⟩
      cases r1 with
      | none => exact tail s1 g1 (by omega)
      | some m =>
        obtain ⟨-, -, c1⟩ := h1
        dsimp only
        refine Sat.bind (Sat.mono (consumeK_sat _ g1) ?_)
        rintro r2 s2 ⟨g2, h2⟩
        refine tail s2 g2 ?_
        cases r2 with
        | none => omega
        | some w => obtain ⟨-, -, c2⟩ := h2; omega

theorem parseTextBlock_sat (hw : WF ts) (h : G ts e s) :
    Sat (parseTextBlock (α := α)) s (fun _ s' => G ts e s' ∧ s'.cur = ts.length) := by
  unfold parseTextBlock
  refine Sat.bind (Sat.pushEv ?_)
  have g1 := h.setEvs (s.evs.push (.start .text))
  refine Sat.bind (restToks_sat g1 ?_)
  refine Sat.bind (Sat.mono (textBlockLoop_sat hw _ g1 (by simp)) ?_)
  rintro _ s2 ⟨g2, c2⟩
  exact Sat.pushEv ⟨g2.setEvs _, c2⟩

theorem sectionP_sat (hw : WF ts) (h : G ts e s) :
    Sat (sectionP (α := α)) s (fun r s' => G ts e s' ∧ (r.isSome = true → s'.cur = ts.length)) := by
  unfold sectionP
  refine Sat.bind (Sat.mono (consumeK_sat _ h) ?_)
  rintro r1 s1 ⟨g1, h1⟩
  cases r1 with
  | none => exact Sat.pure ⟨g1, by simp⟩
  | some m =>
    refine Sat.bind (Sat.mono (consumeWhile_sat _ g1) ?_)
    rintro _ s2 ⟨g2, c2, -, -, -⟩
    refine Sat.bind (currentOffset_sat g2 ?_)
    refine Sat.bind (Sat.mono (consumeWhile_sat _ g2) ?_)
    rintro nameT s3 ⟨g3, c3, hn, -, -⟩
    have hr : RunAt (offAt ts s2.cur) nameT := by rw [hn]; exact slice_runAt hw.run c3
    refine Sat.bind (bpText_sat hr ?_)
    refine Sat.bind (Sat.mono (consumeWhile_sat _ g3) ?_)
    rintro _ s4 ⟨g4, c4, -, -, -⟩
    unfold wsComments
    refine Sat.bind (Sat.mono (consumeWhile_sat _ g4) ?_)
    rintro _ s5 ⟨g5, c5, -, -, -⟩
    refine Sat.bind (restToks_sat g5 ?_)
    split
    · refine Sat.bind (Sat.pwarn ?_); intro evs
      exact Sat.pure ⟨g5.setEvs evs, by simp⟩
    · rename_i hemp
      refine Sat.bind (Sat.get ?_)
      have := drop_isEmpty_true (ts := ts) (c := s5.cur) (by simpa using hemp)
      have := g5.le
      exact Sat.pure ⟨g5, fun _ => by omega⟩

theorem metadataEntry_sat (hw : WF ts) (h : G ts e s) :
    Sat (metadataEntry (α := α)) s (fun r s' => G ts e s' ∧ (r.isSome = true → s'.cur = ts.length)) := by
  unfold metadataEntry
  refine Sat.bind (Sat.mono (consumeK_sat _ h) ?_)
  rintro r1 s1 ⟨g1, h1⟩
  cases r1 with
  | none => exact Sat.pure ⟨g1, by simp⟩
  | some m =>
    refine Sat.bind (currentOffset_sat g1 ?_)
    refine Sat.bind (Sat.mono (untilK_sat _ g1) ?_)
    rintro r2 s2 ⟨g2, h2⟩
    cases r2 with
    | none =>
      unfold bpSpan
      refine Sat.bind (Sat.bind (Sat.get ?_))
      refine tokensSpanP_sat (by rw [g2.toks]; exact hw.ne) ?_
      refine Sat.bind (Sat.pwarn ?_); intro evs
      exact Sat.pure ⟨g2.setEvs evs, by simp⟩
    | some keyT =>
      obtain ⟨c2, hkey, ⟨c, hc, hck⟩, -⟩ := h2
      have hr : RunAt (offAt ts s1.cur) keyT := by rw [hkey]; exact slice_runAt hw.run c2
      refine Sat.bind (bpText_sat hr ?_)
      refine Sat.bind (Sat.mono (bump_sat g2 hc (by simpa using hck)) ?_)
      rintro _ s3 ⟨-, g3, c3⟩
      refine Sat.bind (currentOffset_sat g3 ?_)
      refine Sat.bind (Sat.mono (consumeRest_sat g3) ?_)
      rintro valT s4 ⟨g4, c4, hv⟩
      have hr2 : RunAt (offAt ts s3.cur) valT := by rw [hv]; exact slice_runAt hw.run g3.le
      refine Sat.bind (bpText_sat hr2 ?_)
      refine Sat.bind (Sat.get ?_)
      dsimp only
      split
      · refine Sat.bind (Sat.perr ?_); intro evs
        exact Sat.pure ⟨g4.setEvs evs, fun _ => c4⟩
      · split
        · refine Sat.bind (Sat.pwarn ?_); intro evs
          exact Sat.pure ⟨g4.setEvs evs, fun _ => c4⟩
        · exact Sat.pure ⟨g4, fun _ => c4⟩

theorem parseMultilineBlock_sat (hw : WF ts) (h : G ts e s) :
    Sat (parseMultilineBlock (α := α)) s (fun _ s' => G ts e s' ∧ s'.cur = ts.length) := by
  unfold parseMultilineBlock
  refine Sat.bind (allToks_sat h ?_)
  split
  · refine Sat.bind (Sat.mono (consumeRest_sat h) ?_)
    rintro _ s1 ⟨g1, c1, -⟩
    exact Sat.pure ⟨g1, c1⟩
  · refine Sat.bind (peekK_sat h ?_)
    split
    · exact parseTextBlock_sat hw h
    · exact parseStep_sat hw h

theorem parseBlock_sat (oldStyle : Bool) (hw : WF ts) (h : G ts e s) :
    Sat (parseBlock (α := α) oldStyle) s (fun _ s' => G ts e s' ∧ s'.cur = ts.length) := by
  unfold parseBlock
  apply Sat.bind
  apply Sat.mono (Q := fun r s' => G ts e s' ∧ (r.isSome = true → s'.cur = ts.length))
  · refine Sat.bind (peekK_sat h ?_)
    split
    · apply withRecover_sat
      refine Sat.bind (Sat.mono (metadataEntry_sat hw h) ?_)
      rintro r1 s1 ⟨g1, h1⟩
      split
      · refine Sat.bind (Sat.get ?_)
        refine Sat.bind (hasExt_sat g1 ?_)
        split
        · exact Sat.pure ⟨g1, fun _ => h1 rfl⟩
        · exact Sat.pure ⟨g1.setCur h.le, by simp⟩
      · exact Sat.pure ⟨g1.setCur h.le, by simp⟩
    · apply withRecover_sat
      refine Sat.mono (sectionP_sat hw h) ?_
      rintro r1 s1 ⟨g1, h1⟩
      cases r1 with
      | none => exact ⟨g1.setCur h.le, by simp⟩
      | some ev => exact ⟨g1, h1⟩
    · exact Sat.pure ⟨h, by simp⟩
  rintro r s1 ⟨g1, h1⟩
  cases r with
  | some ev => exact Sat.pushEv ⟨g1.setEvs _, h1 rfl⟩
  | none => exact parseMultilineBlock_sat hw g1

/-- **No panic site of the block parser is reachable** on a non-empty run of adjacent tokens -/
theorem runBlock_no_panic (cs : CharSpec) (ext : Ext) (oldStyle : Bool) (b : List Tok)
    (evs : Array (Ev α)) (hw : WF b) : (runBlock cs ext oldStyle b evs none).2 = none := by
  have g0 : G b ext (⟨b, 0, ext, cs, evs, none⟩ : BP α) := ⟨rfl, rfl, rfl, Nat.zero_le _⟩
  have hne : b.isEmpty = false := by
    have := hw.ne
    cases b <;> simp_all
  have key : Sat (do
      if b.isEmpty then panicWith "BlockParser::new: empty tokens"
      parseBlock (α := α) oldStyle
      let s ← get
      if s.cur ≠ s.toks.length then panicWith "Block tokens not parsed") ⟨b, 0, ext, cs, evs, none⟩
      (fun _ s' => s'.panic = none) := by
    simp only [hne, Bool.false_eq_true, if_false]
    refine Sat.bind (Sat.mono (parseBlock_sat oldStyle hw g0) ?_)
    rintro _ s1 ⟨g1, c1⟩
    refine Sat.bind (Sat.get ?_)
    have : s1.cur = s1.toks.length := by rw [g1.toks]; exact c1
    simp only [this, ne_eq, not_true_eq_false, if_false]
    exact Sat.pure g1.panic
  exact key

theorem WF.of_chain {off : Nat} {b : List Tok} (hc : Chain off b) (he : EscapedOK b) (hne : b ≠ []) : WF b :=
  ⟨hne, (show RunAt off b from ⟨hc, he⟩).base⟩

/-- running the block parser over a list of well-formed blocks never sets the panic flag -/
theorem foldl_runBlock_no_panic (cs : CharSpec) (ext : Ext) (oldStyle : Bool) (blocks : List (List Tok))
    (evs0 : Array (Ev α)) (h : ∀ b ∈ blocks, WF b) :
    (blocks.foldl (fun acc b => runBlock (α := α) cs ext oldStyle b acc.1 acc.2) (evs0, none)).2 = none := by
  induction blocks generalizing evs0 with
  | nil => rfl
  | cons b bs ih =>
    rw [List.foldl_cons]
    have h1 := runBlock_no_panic (α := α) cs ext oldStyle b evs0 (h b (by simp))
    have e1 : runBlock (α := α) cs ext oldStyle b evs0 none =
        ((runBlock (α := α) cs ext oldStyle b evs0 none).1, none) := by
      apply Prod.ext
      · rfl
      · exact h1
    show (bs.foldl _ (runBlock (α := α) cs ext oldStyle b evs0 none)).2 = none
    rw [e1]
    exact ih _ (fun b' hb' => h b' (by simp [hb']))

end Cook
