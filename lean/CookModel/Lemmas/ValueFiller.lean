import CookModel.Syntax.Parser
/-
  C17, wave 7 (tag `w7v`): the value reader `numeric_value` / `range_value` (src/parser/quantity.rs)
  under blanks and comments inserted next to a blank between its tokens.

  `numeric_value` trims blanks and comments at both ends, reads `12`, `1.5`, `.5` from the trimmed
  tokens and otherwise reads the tokens that are neither blank nor comment (`1 / 2`, `1 [- c -] 1/2`).
  So (`w7v_numericValue_loose`) as soon as a blank or comment is left between the trimmed ends, the
  reading depends on the filtered tokens only, and (`w7v_numericValue_filler`) inserting further blanks
  and comments next to a blank changes nothing.  NOT true without the blank: `1.5` is a number and
  `1[- c -].5` is not (the decimal form wants the three tokens adjacent) — an insertion inside a word,
  not between words.
-/
set_option linter.unusedSectionVars false
set_option linter.unusedSimpArgs false
set_option linter.unusedVariables false
namespace Cook

variable {α : Type} [Arith α]

/-- blank or comment token: what `numeric_value` trims and skips -/
def w7vPad (t : Tok) : Bool := isWsComment t.kind

/-- the reading of `numeric_value` from the tokens that are neither blank nor comment -/
def w7vLoose (f : List Tok) : Option (Except Diag (Value α)) :=
  match f with
  | [i, x, s, y] =>
    if i.kind == .int && x.kind == .int && s.kind == .slash && y.kind == .int then
      some ((mixedNum (α := α) i x y).map .number) else none
  | [x, s, y] =>
    if x.kind == .int && s.kind == .slash && y.kind == .int then
      some ((fracNum (α := α) x y).map .number) else none
  | _ => none

theorem w7v_notWs (t : Tok) : notWsComment t = !w7vPad t := rfl

theorem w7v_dropWhile_all {β : Type} (p : β → Bool) : ∀ (P L : List β), (∀ x ∈ P, p x = true) →
    (P ++ L).dropWhile p = L.dropWhile p := by
  intro P
  induction P with
  | nil => intro L _; rfl
  | cons a r ih =>
    intro L h
    simp only [List.cons_append, List.dropWhile_cons, h a (List.mem_cons_self), if_true]
    exact ih L (fun x hx => h x (List.mem_cons_of_mem _ hx))

theorem w7v_dropWhile_allpad {β : Type} (p : β → Bool) (P : List β) (h : ∀ x ∈ P, p x = true) : P.dropWhile p = [] := by
  have := w7v_dropWhile_all p P [] h
  simpa using this

/-- `trimTokens` of `P ++ M ++ Q`, `P` and `Q` blank, `M` with visible ends -/
theorem w7v_trim_unique (P Q : List Tok) (M : List Tok) (b : Tok)
    (hP : ∀ x ∈ P, w7vPad x = true) (hQ : ∀ x ∈ Q, w7vPad x = true)
    (ha : ∀ t, (M ++ [b]).head? = some t → w7vPad t = false) (hb : w7vPad b = false) :
    trimTokens (P ++ (M ++ [b]) ++ Q) = M ++ [b] := by
  unfold trimTokens
  have h1 : (P ++ (M ++ [b]) ++ Q).dropWhile (fun t : Tok => isWsComment t.kind) = (M ++ [b]) ++ Q := by
    rw [List.append_assoc, w7v_dropWhile_all (fun t : Tok => isWsComment t.kind) P _ hP]
    cases hM : M ++ [b] with
    | nil => simp at hM
    | cons h r =>
      have := ha h (by rw [hM]; rfl)
      simp only [w7vPad] at this
      simp only [List.cons_append, List.dropWhile_cons, this, Bool.false_eq_true, if_false]
  rw [h1]
  have h2 : ((M ++ [b]) ++ Q).reverse = Q.reverse ++ (b :: M.reverse) := by simp
  rw [h2, w7v_dropWhile_all (fun t : Tok => isWsComment t.kind) Q.reverse _ (fun x hx => hQ x (List.mem_reverse.1 hx))]
  simp only [w7vPad] at hb
  simp only [List.dropWhile_cons, hb, Bool.false_eq_true, if_false, List.reverse_cons, List.reverse_reverse]

theorem w7v_trim_allpad (L : List Tok) (h : ∀ x ∈ L, w7vPad x = true) : trimTokens L = [] := by
  unfold trimTokens
  rw [w7v_dropWhile_allpad (fun t : Tok => isWsComment t.kind) L h]; rfl

/-- split a list at its first and last visible token -/
theorem w7v_split (L : List Tok) :
    (∀ x ∈ L, w7vPad x = true) ∨
    ∃ P M b Q, L = P ++ (M ++ [b]) ++ Q ∧ (∀ x ∈ P, w7vPad x = true) ∧ (∀ x ∈ Q, w7vPad x = true) ∧
      (∀ t, (M ++ [b]).head? = some t → w7vPad t = false) ∧ w7vPad b = false := by
  induction L with
  | nil => left; intro x hx; cases hx
  | cons a r ih =>
    by_cases hpa : w7vPad a = true
    · rcases ih with h | ⟨P, M, b, Q, e, hP, hQ, hh, hb⟩
      · left; intro x hx
        rcases List.mem_cons.1 hx with rfl | hx
        · exact hpa
        · exact h x hx
      · right
        refine ⟨a :: P, M, b, Q, by rw [e]; simp, ?_, hQ, hh, hb⟩
        intro x hx
        rcases List.mem_cons.1 hx with rfl | hx
        · exact hpa
        · exact hP x hx
    · have hpa' : w7vPad a = false := by simpa using hpa
      right
      rcases ih with h | ⟨P, M, b, Q, e, hP, hQ, hh, hb⟩
      · exact ⟨[], [], a, r, by simp, (by intro x hx; cases hx), h, (by intro t ht; simp at ht; subst ht; exact hpa'), hpa'⟩
      · refine ⟨[], a :: (P ++ M), b, Q, by rw [e]; simp, (by intro x hx; cases hx), hQ, ?_, hb⟩
        intro t ht
        simp at ht; subst ht; exact hpa'

theorem w7v_filter_pad (P : List Tok) (h : ∀ x ∈ P, w7vPad x = true) : P.filter notWsComment = [] := by
  rw [List.filter_eq_nil_iff]
  intro x hx
  simp [w7v_notWs, h x hx]

/-- **`numeric_value` with a blank or comment between the trimmed ends reads the filtered tokens** -/
theorem w7v_numericValue_loose (P Q : List Tok) (M : List Tok) (b : Tok)
    (hP : ∀ x ∈ P, w7vPad x = true) (hQ : ∀ x ∈ Q, w7vPad x = true)
    (ha : ∀ t, (M ++ [b]).head? = some t → w7vPad t = false) (hb : w7vPad b = false)
    (hin : (M ++ [b]).any w7vPad = true) :
    numericValue (α := α) (P ++ (M ++ [b]) ++ Q) = w7vLoose ((M ++ [b]).filter notWsComment) := by
  have htr := w7v_trim_unique P Q M b hP hQ ha hb
  unfold numericValue
  rw [htr]
  clear htr
  match M, ha, hin with
  | [], ha, hin => simp [hb] at hin
  | [a], ha, hin =>
    have h1 := ha a rfl
    simp [h1, hb] at hin
  | [a, d], ha, hin =>
    have h1 := ha a rfl
    have hd : w7vPad d = true := by simpa [h1, hb] using hin
    have hdk : (d.kind == TK.dot) = false := by
      simp only [w7vPad, isWsComment, Bool.or_eq_true, beq_iff_eq] at hd
      rcases hd with (h | h) | h <;> simp [h]
    simp [hdk, List.filter_cons, w7v_notWs, h1, hb, hd, w7vLoose]
  | a :: d :: e :: r, ha, hin =>
    obtain ⟨y, Y, hY⟩ : ∃ y Y, r ++ [b] = y :: Y := by cases r <;> simp
    simp only [List.cons_append, hY, List.isEmpty_cons, Bool.false_eq_true, if_false]
    generalize List.filter notWsComment (a :: d :: e :: y :: Y) = f
    unfold w7vLoose
    rcases f with _ | ⟨f1, _ | ⟨f2, _ | ⟨f3, _ | ⟨f4, _ | ⟨f5, f6⟩⟩⟩⟩⟩ <;> rfl

theorem w7v_filter_insert (A : List Tok) (F B : List Tok) (hF : ∀ x ∈ F, w7vPad x = true) :
    (A ++ F ++ B).filter notWsComment = (A ++ B).filter notWsComment := by
  simp only [List.filter_append, w7v_filter_pad F hF, List.append_nil]

/-- **Filler next to a blank does not change `numeric_value`.**  `A ++ [w] ++ B` are the tokens of a
    value, `w` a blank or comment token among them; `F` (blanks, comments) is inserted behind `w`. -/
theorem w7v_numericValue_filler (A : List Tok) (w : Tok) (F B : List Tok) (hw : w7vPad w = true)
    (hF : ∀ x ∈ F, w7vPad x = true) :
    numericValue (α := α) (A ++ [w] ++ F ++ B) = numericValue (α := α) (A ++ [w] ++ B) := by
  rcases w7v_split A with hA | ⟨P, M, a, Q, rfl, hP, hQ, hh, ha⟩
  · -- nothing visible in front: both trim to the trimmed `B`
    have e1 : ∀ X : List Tok, (∀ x ∈ X, w7vPad x = true) → numericValue (α := α) (X ++ B) = numericValue (α := α) B := by
      intro X hX
      unfold numericValue
      have : trimTokens (X ++ B) = trimTokens B := by
        unfold trimTokens; rw [w7v_dropWhile_all (fun t : Tok => isWsComment t.kind) X B hX]
      rw [this]
    rw [e1 (A ++ [w] ++ F), e1 (A ++ [w])]
    · intro x hx; simp only [List.mem_append, List.mem_singleton] at hx
      rcases hx with hx | rfl
      · exact hA x hx
      · exact hw
    · intro x hx; simp only [List.mem_append, List.mem_singleton] at hx
      rcases hx with (hx | rfl) | hx
      · exact hA x hx
      · exact hw
      · exact hF x hx
  · rcases w7v_split B with hB | ⟨P2, M2, b, Q2, rfl, hP2, hQ2, hh2, hb⟩
    · -- nothing visible behind: both trim to the trimmed front
      have e2 : ∀ X : List Tok, (∀ x ∈ X, w7vPad x = true) →
          numericValue (α := α) (P ++ (M ++ [a]) ++ X) = numericValue (α := α) (P ++ (M ++ [a]) ++ []) := by
        intro X hX
        unfold numericValue
        rw [w7v_trim_unique P X M a hP hX hh ha, w7v_trim_unique P [] M a hP (by intro x hx; cases hx) hh ha]
      have hX1 : ∀ x ∈ Q ++ [w] ++ F ++ B, w7vPad x = true := by
        intro x hx; simp only [List.mem_append, List.mem_singleton] at hx
        rcases hx with ((hx | rfl) | hx) | hx
        · exact hQ x hx
        · exact hw
        · exact hF x hx
        · exact hB x hx
      have hX2 : ∀ x ∈ Q ++ [w] ++ B, w7vPad x = true := by
        intro x hx; simp only [List.mem_append, List.mem_singleton] at hx
        rcases hx with (hx | rfl) | hx
        · exact hQ x hx
        · exact hw
        · exact hB x hx
      have r1 : P ++ (M ++ [a]) ++ Q ++ [w] ++ F ++ B = P ++ (M ++ [a]) ++ (Q ++ [w] ++ F ++ B) := by simp
      have r2 : P ++ (M ++ [a]) ++ Q ++ [w] ++ B = P ++ (M ++ [a]) ++ (Q ++ [w] ++ B) := by simp
      rw [r1, r2, e2 _ hX1, e2 _ hX2]
    · -- visible tokens on both sides: the blank `w` stays between the trimmed ends
      have r1 : P ++ (M ++ [a]) ++ Q ++ [w] ++ F ++ (P2 ++ (M2 ++ [b]) ++ Q2) =
          P ++ ((M ++ [a] ++ Q ++ [w] ++ F ++ P2 ++ M2) ++ [b]) ++ Q2 := by simp
      have r2 : P ++ (M ++ [a]) ++ Q ++ [w] ++ (P2 ++ (M2 ++ [b]) ++ Q2) =
          P ++ ((M ++ [a] ++ Q ++ [w] ++ P2 ++ M2) ++ [b]) ++ Q2 := by simp
      have hhd : ∀ (X : List Tok) t, (M ++ [a] ++ X ++ [b]).head? = some t → w7vPad t = false := by
        intro X t ht
        apply hh t
        cases M with
        | nil => simpa using ht
        | cons m r => simpa using ht
      rw [r1, r2]
      rw [w7v_numericValue_loose P Q2 _ b hP hQ2 (by simpa using hhd (Q ++ [w] ++ F ++ P2 ++ M2)) hb (by simp [hw]),
        w7v_numericValue_loose P Q2 _ b hP hQ2 (by simpa using hhd (Q ++ [w] ++ P2 ++ M2)) hb (by simp [hw])]
      congr 1
      have := w7v_filter_insert (M ++ [a] ++ Q ++ [w]) F (P2 ++ M2 ++ [b]) hF
      simpa using this

/-! ### ranges -/

def w7vMinus (t : Tok) : Bool := t.kind == .minus

theorem w7v_first (L : List Tok) :
    (∀ x ∈ L, w7vMinus x = false) ∨
    ∃ S m E, L = S ++ m :: E ∧ (∀ x ∈ S, w7vMinus x = false) ∧ w7vMinus m = true := by
  induction L with
  | nil => left; intro x hx; cases hx
  | cons a r ih =>
    by_cases ha : w7vMinus a = true
    · right; exact ⟨[], a, r, rfl, (by intro x hx; cases hx), ha⟩
    · have ha' : w7vMinus a = false := by simpa using ha
      rcases ih with h | ⟨S, m, E, e, hS, hm⟩
      · left; intro x hx
        rcases List.mem_cons.1 hx with rfl | hx
        · exact ha'
        · exact h x hx
      · right
        refine ⟨a :: S, m, E, by rw [e]; rfl, ?_, hm⟩
        intro x hx
        rcases List.mem_cons.1 hx with rfl | hx
        · exact ha'
        · exact hS x hx

/-- what `range_value` makes of the readings of the two sides of the first `-` -/
def w7vRange (s e : Option (Except Diag (Value α))) : Option (Except Diag (Value α)) :=
  match s with
  | none => none
  | some (.error d) => some (.error d)
  | some (.ok (.number s)) =>
    match e with
    | none => none
    | some (.error d) => some (.error d)
    | some (.ok (.number e)) => some (.ok (.range s e))
    | some (.ok v) => some (.ok v)
  | some (.ok v) => some (.ok v)

theorem w7v_rangeValue_none (re : Bool) (L : List Tok) (h : ∀ x ∈ L, w7vMinus x = false) :
    rangeValue (α := α) re L = none := by
  unfold rangeValue
  have : L.findIdx? (fun t => t.kind == .minus) = none := List.findIdx?_eq_none_iff.2 h
  rw [this]
  cases re <;> rfl

theorem w7v_rangeValue_split (S : List Tok) (m : Tok) (E : List Tok) (hS : ∀ x ∈ S, w7vMinus x = false)
    (hm : w7vMinus m = true) :
    rangeValue (α := α) true (S ++ m :: E) = w7vRange (numericValue (α := α) S) (numericValue (α := α) E) := by
  unfold rangeValue
  have h1 : (S ++ m :: E).findIdx? (fun t => t.kind == .minus) = some S.length := by
    have hn : S.findIdx? (fun t => t.kind == .minus) = none := List.findIdx?_eq_none_iff.2 hS
    simp only [w7vMinus] at hm
    rw [List.findIdx?_append, hn]
    simp [List.findIdx?_cons, hm]
  rw [h1]
  simp only [Bool.not_true, Bool.false_eq_true, if_false, List.take_left' rfl, List.drop_append, List.drop_length,
    List.nil_append, Nat.add_sub_cancel_left, List.drop_succ_cons, List.drop_zero]
  have hd : List.drop (S.length + 1) S = [] := List.drop_eq_nil_of_le (by omega)
  rw [hd]
  unfold w7vRange
  rfl

theorem w7v_pad_not_minus {t : Tok} (h : w7vPad t = true) : w7vMinus t = false := by
  simp only [w7vPad, isWsComment, Bool.or_eq_true, beq_iff_eq] at h
  rcases h with (h | h) | h <;> simp [w7vMinus, h]

/-- **Filler next to a blank does not change `range_value`** -/
theorem w7v_rangeValue_filler (re : Bool) (A : List Tok) (w : Tok) (F B : List Tok) (hw : w7vPad w = true)
    (hF : ∀ x ∈ F, w7vPad x = true) :
    rangeValue (α := α) re (A ++ [w] ++ F ++ B) = rangeValue (α := α) re (A ++ [w] ++ B) := by
  cases re with
  | false => unfold rangeValue; rfl
  | true =>
    rcases w7v_first A with hA | ⟨S, m, E, rfl, hS, hm⟩
    · rcases w7v_first B with hB | ⟨S, m, E, rfl, hS, hm⟩
      · rw [w7v_rangeValue_none, w7v_rangeValue_none]
        · intro x hx; simp only [List.mem_append, List.mem_singleton] at hx
          rcases hx with (hx | rfl) | hx
          · exact hA x hx
          · exact w7v_pad_not_minus hw
          · exact hB x hx
        · intro x hx; simp only [List.mem_append, List.mem_singleton] at hx
          rcases hx with ((hx | rfl) | hx) | hx
          · exact hA x hx
          · exact w7v_pad_not_minus hw
          · exact w7v_pad_not_minus (hF x hx)
          · exact hB x hx
      · have r1 : A ++ [w] ++ F ++ (S ++ m :: E) = (A ++ [w] ++ F ++ S) ++ m :: E := by simp
        have r2 : A ++ [w] ++ (S ++ m :: E) = (A ++ [w] ++ S) ++ m :: E := by simp
        rw [r1, r2, w7v_rangeValue_split _ m E _ hm, w7v_rangeValue_split _ m E _ hm, w7v_numericValue_filler A w F S hw hF]
        · intro x hx; simp only [List.mem_append, List.mem_singleton] at hx
          rcases hx with (hx | rfl) | hx
          · exact hA x hx
          · exact w7v_pad_not_minus hw
          · exact hS x hx
        · intro x hx; simp only [List.mem_append, List.mem_singleton] at hx
          rcases hx with ((hx | rfl) | hx) | hx
          · exact hA x hx
          · exact w7v_pad_not_minus hw
          · exact w7v_pad_not_minus (hF x hx)
          · exact hS x hx
    · have r1 : S ++ m :: E ++ [w] ++ F ++ B = S ++ m :: (E ++ [w] ++ F ++ B) := by simp
      have r2 : S ++ m :: E ++ [w] ++ B = S ++ m :: (E ++ [w] ++ B) := by simp
      rw [r1, r2, w7v_rangeValue_split S m _ hS hm, w7v_rangeValue_split S m _ hS hm, w7v_numericValue_filler E w F B hw hF]

/-- **Filler next to a blank does not change the number / range reading of a value** (`numOrRange`:
    `range_value(..).or_else(|| numeric_value(..))` of `parse_value` and `parse_advanced_quantity`) -/
theorem w7v_numOrRange_filler (re : Bool) (A : List Tok) (w : Tok) (F B : List Tok) (hw : w7vPad w = true)
    (hF : ∀ x ∈ F, w7vPad x = true) :
    numOrRange (α := α) re (A ++ [w] ++ F ++ B) = numOrRange (α := α) re (A ++ [w] ++ B) := by
  unfold numOrRange
  rw [w7v_rangeValue_filler re A w F B hw hF, w7v_numericValue_filler A w F B hw hF]

end Cook
