import CookModel.Lemmas.RecipeSimLoop
import CookModel.Lemmas.ClosingFold
import CookModel.Lemmas.CloseC03
/-
  C17: a static sufficient condition for `TextModeFree`.  Without the MODES extension the define
  mode never leaves `all`, so on a well-bracketed event stream (what the pull parser emits) a
  component event always meets a step buffer: the source-copying branch of text mode is unreachable.
-/
set_option linter.unusedSectionVars false
set_option linter.unusedVariables false
set_option linter.unusedSimpArgs false
namespace Cook
variable {α : Type} [Arith α]

abbrev dmOf : Col α → DefineMode := fun s => s.defineMode

theorem ingrSetReferencedFrom_dm (a b : Nat) (d : Ingredient (ScalableValue α)) :
    Pres (α := α) dmOf (ingrSetReferencedFrom a b d) := by
  unfold ingrSetReferencedFrom; pres
macro_rules | `(tactic| pres_leaf) => `(tactic| with_reducible exact ingrSetReferencedFrom_dm ..)

theorem ingrRegular_dm (env : Env) (input : Str) (li : Loc (PIngredient α)) (igr0 : Ingredient (ScalableValue α)) :
    Pres (α := α) dmOf (ingrRegular env input li igr0) := by
  unfold ingrRegular; pres
macro_rules | `(tactic| pres_leaf) => `(tactic| with_reducible exact ingrRegular_dm ..)

theorem ingrBuild_dm (env : Env) (input : Str) (li : Loc (PIngredient α)) (igr0 : Ingredient (ScalableValue α)) :
    Pres (α := α) dmOf (ingrBuild env input li igr0) := by
  unfold ingrBuild; pres
macro_rules | `(tactic| pres_leaf) => `(tactic| with_reducible exact ingrBuild_dm ..)

theorem ingredientA_dm (env : Env) (input : Str) (li : Loc (PIngredient α)) :
    Pres (α := α) dmOf (ingredientA env input li) := by
  unfold ingredientA; pres
macro_rules | `(tactic| pres_leaf) => `(tactic| with_reducible exact ingredientA_dm ..)

theorem cwSetReferencedFrom_dm (a b : Nat) (d : Cookware (ScalableValue α)) :
    Pres (α := α) dmOf (cwSetReferencedFrom a b d) := by
  unfold cwSetReferencedFrom; pres
macro_rules | `(tactic| pres_leaf) => `(tactic| with_reducible exact cwSetReferencedFrom_dm ..)

theorem cwResolve_dm (env : Env) (input : Str) (lc : Loc (PCookware α)) (cw0 : Cookware (ScalableValue α)) :
    Pres (α := α) dmOf (cwResolve env input lc cw0) := by
  unfold cwResolve; pres
macro_rules | `(tactic| pres_leaf) => `(tactic| with_reducible exact cwResolve_dm ..)

theorem cwBuild_dm (env : Env) (input : Str) (lc : Loc (PCookware α)) (cw0 : Cookware (ScalableValue α)) :
    Pres (α := α) dmOf (cwBuild env input lc cw0) := by
  unfold cwBuild; pres
macro_rules | `(tactic| pres_leaf) => `(tactic| with_reducible exact cwBuild_dm ..)

theorem cookwareA_dm (env : Env) (input : Str) (lc : Loc (PCookware α)) :
    Pres (α := α) dmOf (cookwareA env input lc) := by
  unfold cookwareA; pres
macro_rules | `(tactic| pres_leaf) => `(tactic| with_reducible exact cookwareA_dm ..)

theorem timerA_dm (env : Env) (lt : Loc (PTimer α)) : Pres (α := α) dmOf (timerA env lt) := by
  unfold timerA; pres
macro_rules | `(tactic| pres_leaf) => `(tactic| with_reducible exact timerA_dm ..)

theorem pushItem_dm (it : Item) : Pres (α := α) dmOf (pushItem it) := by
  unfold pushItem
  constructor
  intro s
  simp only [A_bind, A_get]
  cases s.block with
  | none => exact (Pres.ofDiag (f := dmOf) (DiagOnly.apanic _) (fun _ _ _ => rfl)).out s
  | some b => cases b with
    | step items => rfl
    | text t => exact (Pres.ofDiag (f := dmOf) (DiagOnly.apanic _) (fun _ _ _ => rfl)).out s
macro_rules | `(tactic| pres_leaf) => `(tactic| with_reducible exact pushItem_dm ..)

theorem inStepComponent_dm (env : Env) (input : Str) (ev : Ev α) : Pres (α := α) dmOf (inStepComponent env input ev) := by
  unfold inStepComponent; pres

theorem inBlockComponent_dm (env : Env) (input : Str) (ev : Ev α) (s : Col α) :
    (inBlockComponent env input ev s).2.defineMode = s.defineMode := by
  unfold inBlockComponent
  simp only [A_bind, A_get]
  cases s.block with
  | none => exact (Pres.ofDiag (f := dmOf) (DiagOnly.apanic _) (fun _ _ _ => rfl)).out s
  | some b => cases b with
    | step items => exact (inStepComponent_dm env input ev).out s
    | text t =>
      have := (inTextComponent_pres (α := α) input ev t).out s
      simp only [Prod.mk.injEq] at this
      exact this.2

theorem timeOverrideCheck_dm (k : StdKey) : Pres (α := α) dmOf (timeOverrideCheck k) := by
  unfold timeOverrideCheck; pres
macro_rules | `(tactic| pres_leaf) => `(tactic| with_reducible exact timeOverrideCheck_dm ..)

theorem metadataA_dm (env : Env) (hm : env.ext.has Gen.EXT_MODES = false) (k v : Text) :
    Pres (α := α) dmOf (metadataA env k v) := by
  unfold metadataA
  simp only [hm, Bool.false_and, Bool.false_eq_true, if_false]
  pres

/-- without the MODES extension no event changes the define mode -/
theorem processEvent_dm (env : Env) (hm : env.ext.has Gen.EXT_MODES = false) (input : Str) (ev : Ev α) (s : Col α) :
    (processEvent env input ev s).2.defineMode = s.defineMode := by
  cases ev with
  | frontMatter t => rfl
  | metadata k v => exact (metadataA_dm env hm k v).out s
  | «section» n => rfl
  | start k => rfl
  | stop k =>
    have := (endBlock_pres (α := α) k).out s
    simp only [Prod.mk.injEq] at this
    exact this.2
  | text t =>
    have := (inStepText_pres (α := α) env t).out s
    simp only [Prod.mk.injEq] at this
    exact this.2
  | error d => rfl
  | warning d => rfl
  | ingredient i => exact inBlockComponent_dm env input _ s
  | cookware i => exact inBlockComponent_dm env input _ s
  | timer i => exact inBlockComponent_dm env input _ s

/-- on a well-bracketed stream of parser-like events, analysed without the MODES extension from a
    state whose define mode is not `text`, the text-mode slice branch is never taken -/
theorem textModeFree_of_wb (env : Env) (hm : env.ext.has Gen.EXT_MODES = false) (input : Str) (evs : List (Ev α))
    (s : Col α) (o : Option BlockKind) (h : NP env s) (hb : BlockRel s o) (hd : s.defineMode ≠ .text)
    (hw : WBFrom o evs) (hev : ∀ ev ∈ evs, EvOK' ev) (hsp : SpansOK input evs) :
    TextModeFree env input evs s := by
  induction evs generalizing s o with
  | nil => trivial
  | cons ev rest ih =>
    obtain ⟨o', hw1, hw2⟩ := hw
    have hns : ¬ TextModeSliceAt ev s := by
      rintro ⟨hc, buf, hbuf⟩
      have ho : o = some .step := by
        cases ev <;> simp only [Ev.isComp, Bool.false_eq_true] at hc <;> simp only [wbStep] at hw1 <;>
          (split at hw1 <;> first | assumption | cases hw1)
      subst ho
      rcases hb with ⟨items, h1, _⟩ | ⟨t, _, h2 | h2⟩
      · rw [h1] at hbuf; cases hbuf
      · cases h2
      · exact hd h2
    obtain ⟨hnp, hbr⟩ := processEvent_np env input ev s o o' h hb hw1 (hev ev List.mem_cons_self)
      (hsp ev List.mem_cons_self)
    have hrest := ih _ o' hnp hbr (by rw [processEvent_dm env hm]; exact hd) hw2
      (fun e he' => hev e (List.mem_cons_of_mem _ he')) (fun e he' => hsp e (List.mem_cons_of_mem _ he'))
    cases ev <;> first | trivial | exact ⟨hns, hrest⟩

/-- the pull parser's events, analysed without the MODES extension -/
theorem pullEvents_textModeFree (env : Env) (hm : env.ext.has Gen.EXT_MODES = false) (s : List Char) :
    TextModeFree env s (pullEvents (α := α) env.cs env.ext s).1.toList {} :=
  textModeFree_of_wb env hm s _ {} none (NP.init env) rfl (by intro h; cases h)
    (pullEvents_wellBracketed env.cs env.ext s) (pullEvents_evOK' env.cs env.ext s) (pullEvents_spansOK env.cs env.ext s)

end Cook
