import CookModel.Lemmas.GroupConserve
/-
  Audit additions for C10 (see notes/audit-C10.md): order of merging, order of recipes, names of a list
  built from several recipes, cookware amounts with their references, `GroupedValue::merge`.
-/
namespace Cook
open Arith

/-! ### any order of merging -/

namespace GroupedQuantity

/-- `hs` merged into `g` one after the other -/
def mergeAll (ord : MapOrder Rat) (c : Converter Rat) (g : GroupedQuantity Rat)
    (hs : List (GroupedQuantity Rat)) : GroupedQuantity Rat :=
  hs.foldl (merge ord c) g

theorem audit_mergeAll_gsum {c : Converter Rat} {w : SQuantity Rat → Rat} (hw : Additive c w)
    (ord : MapOrder Rat) (hord : ord.IsPerm) (hs : List (GroupedQuantity Rat)) (g : GroupedQuantity Rat) :
    gsum w (mergeAll ord c g hs) = gsum w g + sumBy (gsum w) hs := by
  induction hs generalizing g with
  | nil => simp only [mergeAll, List.foldl_nil, sumBy_nil]; grind
  | cons h rest ih =>
    simp only [mergeAll, List.foldl_cons, sumBy_cons] at ih ⊢
    rw [ih, merge_gsum hw ord hord]; grind

end GroupedQuantity

/-! ### any order of recipes -/

theorem audit_addRecipes_perm_entryW {c : Converter Rat} {w : SQuantity Rat → Rat} (hw : Additive c w)
    (hf : FitInvariant c w) (ord ord' : MapOrder Rat) (hord : ord.IsPerm) (hord' : ord'.IsPerm)
    (rs rs' : List (ScaledRecipe Rat)) (hp : rs.Perm rs') (m m1 m2 : IngredientList Rat)
    (h1 : addRecipes ord c m rs = some m1) (h2 : addRecipes ord' c m rs' = some m2) (name : Str) :
    entryW w m1 name = entryW w m2 name := by
  rw [addRecipes_entryW hw hf ord hord rs m m1 h1, addRecipes_entryW hw hf ord' hord' rs' m m2 h2,
    sumBy_perm _ hp]

/-! ### names of a list built from several recipes -/

theorem audit_addRecipes_names {c : Converter Rat} (ord : MapOrder Rat) (rs : List (ScaledRecipe Rat))
    (m m' : IngredientList Rat) (h : addRecipes ord c m rs = some m')
    (step : ∀ (r : ScaledRecipe Rat) (a b : IngredientList Rat), addRecipe ord c a r = some b → ∀ name,
      ((b.get? name).isSome = true ↔ (a.get? name).isSome = true ∨
        ∃ i ∈ r.ingredients, i.relation.isDefinition = true ∧ i.modifiers.shouldBeListed = true ∧
          i.displayName = name))
    (name : Str) :
    (m'.get? name).isSome = true ↔ (m.get? name).isSome = true ∨
      ∃ r ∈ rs, ∃ i ∈ r.ingredients, i.relation.isDefinition = true ∧ i.modifiers.shouldBeListed = true ∧
        i.displayName = name := by
  induction rs generalizing m with
  | nil =>
    simp only [addRecipes, Option.some.injEq] at h
    subst h
    simp
  | cons r rest ih =>
    unfold addRecipes at h
    split at h
    · cases h
    · rename_i m1 hm1
      rw [ih m1 h, step r m m1 hm1 name]
      simp only [List.mem_cons, exists_eq_or_imp]
      constructor
      · rintro ((h | h) | h)
        · exact Or.inl h
        · exact Or.inr (Or.inl h)
        · exact Or.inr (Or.inr h)
      · rintro (h | h | h)
        · exact Or.inl (Or.inl h)
        · exact Or.inl (Or.inr h)
        · exact Or.inr h

/-! ### cookware amounts with their references -/

/-- the amounts at the given indices (indices out of range contribute nothing) -/
def amountsAt (all : List (Cookware (Value Rat))) (js : List Nat) : List (Value Rat) :=
  js.filterMap (fun j => (all[j]?).bind (·.quantity))

theorem audit_refAmounts_some {all : List (Cookware (Value Rat))} {js : List Nat}
    (h : ∀ j ∈ js, j < all.length) :
    ∃ qs, refAmounts all js = some qs ∧ qs.filterMap id = amountsAt all js := by
  induction js with
  | nil => exact ⟨[], rfl, rfl⟩
  | cons j rest ih =>
    obtain ⟨qs, hqs, hf⟩ := ih (fun x hx => h x (List.mem_cons_of_mem _ hx))
    have hj : j < all.length := h j List.mem_cons_self
    unfold refAmounts
    rw [List.getElem?_eq_getElem hj, hqs]
    refine ⟨_, rfl, ?_⟩
    simp only [amountsAt, List.filterMap_cons, List.getElem?_eq_getElem hj, Option.bind_some, id] at hf ⊢
    cases all[j].quantity with
    | none => simpa using hf
    | some q => simpa using hf

/-- with every `referenced_from` index in range, `all_amounts` yields the cookware's own amount followed
    by those of the referencing items, in that order -/
theorem audit_allAmounts_inRange {all : List (Cookware (Value Rat))} {i : Cookware (Value Rat)}
    (h : ∀ j ∈ i.relation.referencedFrom, j < all.length) :
    allAmounts all i = some (i.quantity.toList ++ amountsAt all i.relation.referencedFrom) := by
  obtain ⟨qs, hqs, hf⟩ := audit_refAmounts_some h
  unfold allAmounts
  rw [hqs]
  simp only [List.filterMap_cons, id]
  cases i.quantity with
  | none => simp [hf]
  | some q => simp [hf]

end Cook
