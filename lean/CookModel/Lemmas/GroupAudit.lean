import CookModel.Lemmas.GroupConserve
/-
  Audit additions for C10 (see notes/audit-C10.md): order of merging, order of recipes, names of a list
  built from several recipes, cookware amounts with their references, `GroupedValue::merge`.
-/
namespace Cook
open Arith

/-! ### any order of merging -/

namespace GroupedQuantity

/-- `hs` merged into `g` one after the other -/
def mergeAll (ord : MapOrder Rat) (c : Converter Rat) (g : GroupedQuantity Rat)
    (hs : List (GroupedQuantity Rat)) : GroupedQuantity Rat :=
  hs.foldl (merge ord c) g

theorem audit_mergeAll_gsum {c : Converter Rat} {w : SQuantity Rat → Rat} (hw : Additive c w)
    (ord : MapOrder Rat) (hord : ord.IsPerm) (hs : List (GroupedQuantity Rat)) (g : GroupedQuantity Rat) :
    gsum w (mergeAll ord c g hs) = gsum w g + sumBy (gsum w) hs := by
  induction hs generalizing g with
  | nil => simp only [mergeAll, List.foldl_nil, sumBy_nil]; grind
  | cons h rest ih =>
    simp only [mergeAll, List.foldl_cons, sumBy_cons] at ih ⊢
    rw [ih, merge_gsum hw ord hord]; grind

end GroupedQuantity

/-! ### any order of recipes -/

theorem audit_addRecipes_perm_entryW {c : Converter Rat} {w : SQuantity Rat → Rat} (hw : Additive c w)
    (hf : FitInvariant c w) (ord ord' : MapOrder Rat) (hord : ord.IsPerm) (hord' : ord'.IsPerm)
    (rs rs' : List (ScaledRecipe Rat)) (hp : rs.Perm rs') (m m1 m2 : IngredientList Rat)
    (h1 : addRecipes ord c m rs = some m1) (h2 : addRecipes ord' c m rs' = some m2) (name : Str) :
    entryW w m1 name = entryW w m2 name := by
  rw [addRecipes_entryW hw hf ord hord rs m m1 h1, addRecipes_entryW hw hf ord' hord' rs' m m2 h2,
    sumBy_perm _ hp]

/-! ### names of a list built from several recipes -/

theorem audit_addRecipes_names {c : Converter Rat} (ord : MapOrder Rat) (rs : List (ScaledRecipe Rat))
    (m m' : IngredientList Rat) (h : addRecipes ord c m rs = some m')
    (step : ∀ (r : ScaledRecipe Rat) (a b : IngredientList Rat), addRecipe ord c a r = some b → ∀ name,
      ((b.get? name).isSome = true ↔ (a.get? name).isSome = true ∨
        ∃ i ∈ r.ingredients, i.relation.isDefinition = true ∧ i.modifiers.shouldBeListed = true ∧
          i.displayName = name))
    (name : Str) :
    (m'.get? name).isSome = true ↔ (m.get? name).isSome = true ∨
      ∃ r ∈ rs, ∃ i ∈ r.ingredients, i.relation.isDefinition = true ∧ i.modifiers.shouldBeListed = true ∧
        i.displayName = name := by
  induction rs generalizing m with
  | nil =>
    simp only [addRecipes, Option.some.injEq] at h
    subst h
    simp
  | cons r rest ih =>
    unfold addRecipes at h
    split at h
    · cases h
    · rename_i m1 hm1
      rw [ih m1 h, step r m m1 hm1 name]
      simp only [List.mem_cons, exists_eq_or_imp]
      constructor
      · rintro ((h | h) | h)
        · exact Or.inl h
        · exact Or.inr (Or.inl h)
        · exact Or.inr (Or.inr h)
      · rintro (h | h | h)
        · exact Or.inl (Or.inl h)
        · exact Or.inl (Or.inr h)
        · exact Or.inr h

/-! ### cookware amounts with their references -/

/-- the amounts at the given indices (indices out of range contribute nothing) -/
def amountsAt (all : List (Cookware (Value Rat))) (js : List Nat) : List (Value Rat) :=
  js.filterMap (fun j => (all[j]?).bind (·.quantity))

theorem audit_refAmounts_some {all : List (Cookware (Value Rat))} {js : List Nat}
    (h : ∀ j ∈ js, j < all.length) :
    ∃ qs, refAmounts all js = some qs ∧ qs.filterMap id = amountsAt all js := by
  induction js with
  | nil => exact ⟨[], rfl, rfl⟩
  | cons j rest ih =>
    obtain ⟨qs, hqs, hf⟩ := ih (fun x hx => h x (List.mem_cons_of_mem _ hx))
    have hj : j < all.length := h j List.mem_cons_self
    unfold refAmounts
    rw [List.getElem?_eq_getElem hj, hqs]
    refine ⟨_, rfl, ?_⟩
    simp only [amountsAt, List.filterMap_cons, List.getElem?_eq_getElem hj, Option.bind_some, id] at hf ⊢
    cases all[j].quantity with
    | none => simpa using hf
    | some q => simpa using hf

/-- with every `referenced_from` index in range, `all_amounts` yields the cookware's own amount followed
    by those of the referencing items, in that order -/
theorem audit_allAmounts_inRange {all : List (Cookware (Value Rat))} {i : Cookware (Value Rat)}
    (h : ∀ j ∈ i.relation.referencedFrom, j < all.length) :
    allAmounts all i = some (i.quantity.toList ++ amountsAt all i.relation.referencedFrom) := by
  obtain ⟨qs, hqs, hf⟩ := audit_refAmounts_some h
  unfold allAmounts
  rw [hqs]
  simp only [List.filterMap_cons, id]
  cases i.quantity with
  | none => simp [hf]
  | some q => simp [hf]

/-! ### list building and aisle split composed: the weight of the entries whose name satisfies `p` -/

/-- the weight of everything a list holds under the names that satisfy `p` -/
def selW (w : SQuantity Rat → Rat) (p : Str → Bool) (m : IngredientList Rat) : Rat :=
  sumBy (fun e => if p e.1 = true then GroupedQuantity.gsum w e.2 else 0) m

theorem audit_selW_replace (w : SQuantity Rat → Rat) (p : Str → Bool) (k : Str) (v old : GroupedQuantity Rat)
    (m : IngredientList Rat) (h : BMap.get? m k = some old) :
    selW w p (BMap.replace k v m) = selW w p m - (if p k = true then GroupedQuantity.gsum w old else 0) +
      (if p k = true then GroupedQuantity.gsum w v else 0) := by
  induction m with
  | nil => simp [BMap.get?] at h
  | cons e rest ih =>
    unfold BMap.replace
    by_cases hek : e.1 = k
    · simp only [BMap.get?, hek, if_true, Option.some.injEq] at h
      subst h
      simp only [hek, if_true, selW, sumBy_cons]
      grind
    · simp only [BMap.get?, hek, if_false] at h
      have := ih h
      simp only [selW] at this
      simp only [hek, if_false, selW, sumBy_cons, this]
      grind

theorem audit_selW_insertSorted (w : SQuantity Rat → Rat) (p : Str → Bool) (k : Str) (v : GroupedQuantity Rat)
    (m : IngredientList Rat) :
    selW w p (BMap.insertSorted k v m) = selW w p m + (if p k = true then GroupedQuantity.gsum w v else 0) := by
  induction m with
  | nil => simp only [BMap.insertSorted, selW, sumBy_cons, sumBy_nil]; grind
  | cons e rest ih =>
    unfold BMap.insertSorted
    split
    · simp only [selW] at ih
      simp only [selW, sumBy_cons, ih]; grind
    · simp only [selW, sumBy_cons]; grind

theorem audit_selW_addIngredient {c : Converter Rat} {w : SQuantity Rat → Rat} (hw : Additive c w)
    (p : Str → Bool) (ord : MapOrder Rat) (hord : ord.IsPerm) (m : IngredientList Rat) (n : Str)
    (q : GroupedQuantity Rat) :
    selW w p (addIngredient ord c m n q) = selW w p m + (if p n = true then GroupedQuantity.gsum w q else 0) := by
  unfold addIngredient BMap.upsert
  split
  · rename_i old hold
    rw [audit_selW_replace w p n _ old m hold]
    simp only [Option.getD_some, GroupedQuantity.merge_gsum hw ord hord]
    split <;> grind
  · rw [audit_selW_insertSorted]
    simp only [Option.getD_none, GroupedQuantity.merge_gsum hw ord hord, GroupedQuantity.gsum_empty]
    split <;> grind

theorem audit_selW_foldl_addEntry {c : Converter Rat} {w : SQuantity Rat → Rat} (hw : Additive c w)
    (p : Str → Bool) (ord : MapOrder Rat) (hord : ord.IsPerm) (es : List (GroupedIngredient Rat))
    (m : IngredientList Rat) :
    selW w p (es.foldl (addEntry ord c) m) = selW w p m +
      sumBy (fun e => if e.ingredient.modifiers.shouldBeListed = true ∧ p e.ingredient.displayName = true
        then GroupedQuantity.gsum w e.quantity else 0) es := by
  induction es generalizing m with
  | nil => simp only [List.foldl_nil, sumBy_nil]; grind
  | cons e rest ih =>
    simp only [List.foldl_cons, sumBy_cons, ih]
    unfold addEntry
    by_cases hl : e.ingredient.modifiers.shouldBeListed = true
    · simp only [hl, Bool.not_true, Bool.false_eq_true, if_false, true_and,
        audit_selW_addIngredient hw p ord hord]
      grind
    · have hl' : e.ingredient.modifiers.shouldBeListed = false := by simpa using hl
      simp only [hl', Bool.not_false, if_true, Bool.false_eq_true, false_and, if_false]; grind

/-- what one recipe contributes to the names that satisfy `p`, by the recipe's own tables -/
def selContribution (w : SQuantity Rat → Rat) (p : Str → Bool) (r : ScaledRecipe Rat) : Rat :=
  sumBy (fun i => if i.listedDef = true ∧ p i.displayName = true
    then sumBy w (defQuantities r.ingredients i) else 0) r.ingredients

theorem audit_selW_addRecipe {c : Converter Rat} {w : SQuantity Rat → Rat} (hw : Additive c w)
    (hf : FitInvariant c w) (p : Str → Bool) (ord : MapOrder Rat) (hord : ord.IsPerm)
    (m m' : IngredientList Rat) (r : ScaledRecipe Rat) (h : addRecipe ord c m r = some m') :
    selW w p m' = selW w p m + selContribution w p r := by
  unfold addRecipe groupIngredients at h
  split at h
  · cases h
  · rename_i es hes
    simp only [Option.some.injEq] at h
    subst h
    obtain ⟨h1, h2, _⟩ := groupFrom_spec _ _ _ hes
    rw [audit_selW_foldl_addEntry hw p ord hord]
    congr 1
    have hsum : sumBy (fun e : GroupedIngredient Rat =>
          if e.ingredient.modifiers.shouldBeListed = true ∧ p e.ingredient.displayName = true
          then GroupedQuantity.gsum w e.quantity else 0) es =
        sumBy (fun e : GroupedIngredient Rat =>
          if e.ingredient.modifiers.shouldBeListed = true ∧ p e.ingredient.displayName = true
          then sumBy w (defQuantities r.ingredients e.ingredient) else 0) es := by
      apply sumBy_congr
      intro e he
      rw [groupQuantities_gsum hw hf (h2 e he)]
    rw [hsum, ← sumBy_map (fun i : Ingredient (Value Rat) =>
        if i.modifiers.shouldBeListed = true ∧ p i.displayName = true
        then sumBy w (defQuantities r.ingredients i) else 0) (·.ingredient) es, h1, sumBy_filter]
    unfold selContribution
    apply sumBy_congr
    intro i _
    unfold Ingredient.listedDef
    cases i.relation.isDefinition <;> simp

theorem audit_selW_addRecipes {c : Converter Rat} {w : SQuantity Rat → Rat} (hw : Additive c w)
    (hf : FitInvariant c w) (p : Str → Bool) (ord : MapOrder Rat) (hord : ord.IsPerm)
    (rs : List (ScaledRecipe Rat)) (m m' : IngredientList Rat) (h : addRecipes ord c m rs = some m') :
    selW w p m' = selW w p m + sumBy (selContribution w p) rs := by
  induction rs generalizing m with
  | nil =>
    simp only [addRecipes, Option.some.injEq] at h
    subst h
    simp only [sumBy_nil]; grind
  | cons r rest ih =>
    unfold addRecipes at h
    split at h
    · cases h
    · rename_i m1 hm1
      rw [ih m1 h, audit_selW_addRecipe hw hf p ord hord m m1 r hm1, sumBy_cons]; grind

/-- the quantities one recipe sends to the names that satisfy `p`: those of every listed definition
    whose display name satisfies `p`, with its references -/
def selRecipeQuantities (p : Str → Bool) (r : ScaledRecipe Rat) : List (SQuantity Rat) :=
  (r.ingredients.filter (fun i => i.listedDef && p i.displayName)).flatMap (defQuantities r.ingredients)

theorem audit_sumBy_selRecipeQuantities (w : SQuantity Rat → Rat) (p : Str → Bool) (r : ScaledRecipe Rat) :
    sumBy w (selRecipeQuantities p r) = selContribution w p r := by
  unfold selRecipeQuantities selContribution
  rw [sumBy_flatMap, sumBy_filter]
  apply sumBy_congr
  intro i _
  by_cases h1 : i.listedDef = true <;> by_cases h2 : p i.displayName = true <;> simp [h1, h2]

end Cook
