import CookModel.Analysis.FrontMatterCore
import CookModel.Lemmas.Lexer
import CookModel.Lemmas.Text
import CookModel.Lemmas.Spans
import CookModel.Lemmas.StdMetaText
/-
  Lemmas about the front-matter branch of the analysis (Analysis/FrontMatter.lean), tag `fmx_`:
  `yaml_find_key_position` returns the start of a line of the YAML text; every label the branch
  builds is such a position shifted by the offset of the slice; the shape of the diagnostics of the
  entry loop.
-/
namespace Cook
namespace FM
open SM (Y)

/-! ### the text of the front-matter event -/

theorem fmx_fromStr_text (s : Str) (off : Nat) : (Text.fromStr s off).text = s := by
  unfold Text.fromStr Text.appendStr Text.appendFrag Text.text
  cases s with
  | nil => simp [Text.empty, Text.span, Span.pos]
  | cons c t => simp [Text.empty, Text.span, Span.pos]

theorem fmx_fromStr_start (s : Str) (off : Nat) : (Text.fromStr s off).span.start = off := by
  unfold Text.fromStr Text.appendStr Text.appendFrag
  cases s with
  | nil => simp [Text.empty, Text.span, Span.pos]
  | cons c t => simp [Text.empty, Text.span, Span.pos]

/-! ### `yaml_find_key_position` -/

/-- ASCII white space is Unicode white space -/
theorem fmx_asciiWs_isWs (c : Char) (h : SM.isAsciiWs c = true) : SM.isWs c = true := by
  unfold SM.isAsciiWs at h
  unfold SM.isWs
  simp only [Bool.or_eq_true, beq_iff_eq, Bool.and_eq_true, decide_eq_true_eq] at h ⊢
  omega

/-- the text before the first separator is empty or starts like the text -/
theorem fmx_splitOnce_head {p : Char → Bool} {c : Char} {cs a b : Str}
    (h : SM.splitOnce p (c :: cs) = some (a, b)) : a = [] ∨ ∃ t, a = c :: t := by
  unfold SM.splitOnce at h
  split at h
  · simp only [Option.some.injEq, Prod.mk.injEq] at h; exact Or.inl h.1.symm
  · split at h
    · simp at h
    · simp only [Option.some.injEq, Prod.mk.injEq] at h; exact Or.inr ⟨_, h.1.symm⟩

/-- `start` is always 0: after `trim_start` the key text cannot begin with an ASCII blank -/
theorem fmx_keyLine_zero {key line : Str} {st : Nat} (h : keyLine key line = some st) : st = 0 := by
  unfold keyLine at h
  split at h
  · simp at h
  · rename_i r hr
    split at h
    · simp at h
    · split at h
      · simp only [Option.some.injEq] at h
        have hstop := SM.dropWhile_stops (p := SM.isWs) line
        have htw : r.1.takeWhile SM.isAsciiWs = [] := by
          unfold SM.trimStartBy at hr
          rcases hstop with h0 | ⟨c, rest, hc, hpc⟩
          · rw [h0] at hr; simp [SM.splitOnce] at hr
          · rw [hc] at hr
            have hr' : SM.splitOnce isColon (c :: rest) = some (r.1, r.2) := hr
            rcases fmx_splitOnce_head hr' with e | ⟨t, e⟩
            · rw [e]; rfl
            · rw [e]
              have : SM.isAsciiWs c = false := by
                cases hx : SM.isAsciiWs c with
                | false => rfl
                | true => rw [fmx_asciiWs_isWs c hx] at hpc; cases hpc
              simp [List.takeWhile, this]
        rw [htw] at h; simpa [utf8Len] using h.symm
      · simp at h

theorem fmx_splitIncl_flatten (p : Char → Bool) (s : Str) : (SM.splitIncl p s).flatten = s := by
  induction s with
  | nil => simp [SM.splitIncl]
  | cons c cs ih =>
    unfold SM.splitIncl
    split
    · simp [ih]
    · split
      · rename_i h; rw [h] at ih; simp at ih; simp [← ih]
      · rename_i x xs h; rw [h] at ih; simp at ih; simp [← ih]

/-- every piece of `split_inclusive` but the last ends with a separator -/
theorem fmx_splitIncl_ends (p : Char → Bool) (s : Str) :
    ∀ a x b, SM.splitIncl p s = a ++ x :: b → b ≠ [] → ∃ y c, x = y ++ [c] ∧ p c = true := by
  induction s with
  | nil => intro a x b h; simp [SM.splitIncl] at h
  | cons d ds ih =>
    intro a x b h hb
    unfold SM.splitIncl at h
    split at h
    · rename_i hd
      cases a with
      | nil =>
        simp only [List.nil_append, List.cons.injEq] at h
        exact ⟨[], d, by simp [h.1], hd⟩
      | cons a0 as =>
        simp only [List.cons_append, List.cons.injEq] at h
        exact ih as x b h.2 hb
    · split at h
      · cases a with
        | nil => simp only [List.nil_append, List.cons.injEq] at h; exact absurd h.2.symm hb
        | cons a0 as => simp at h
      · rename_i x0 xs hx
        cases a with
        | nil =>
          simp only [List.nil_append, List.cons.injEq] at h
          obtain ⟨y, c, e, hc⟩ := ih [] x0 xs (by simp [hx]) (by rw [h.2]; exact hb)
          exact ⟨d :: y, c, by rw [← h.1, e]; simp, hc⟩
        | cons a0 as =>
          simp only [List.cons_append, List.cons.injEq] at h
          exact ih (x0 :: as) x b (by rw [hx, h.2]; simp) hb

/-- a position is the start of a line of `text`: a character boundary that is 0 or follows a line feed -/
def LineStart (text : Str) (p : Nat) : Prop :=
  ∃ pre suf, text = pre ++ suf ∧ p = utf8Len pre ∧ suf ≠ [] ∧ (pre = [] ∨ ∃ q, pre = q ++ ['\n'])

theorem fmx_findKeyLoop_split (key : Str) (lines : List Str) (off p : Nat)
    (h : findKeyLoop key lines off = some p) :
    ∃ a x b, lines = a ++ x :: b ∧ p = off + utf8Len a.flatten ∧ keyLine key x = some 0 := by
  induction lines generalizing off with
  | nil => simp [findKeyLoop] at h
  | cons l ls ih =>
    unfold findKeyLoop at h
    split at h
    · rename_i st hst
      have h0 := fmx_keyLine_zero hst
      subst h0
      simp only [Option.some.injEq] at h
      exact ⟨[], l, ls, rfl, by simp [utf8Len, ← h], hst⟩
    · obtain ⟨a, x, b, e, hp, hk⟩ := ih _ h
      exact ⟨l :: a, x, b, by rw [e]; rfl, by rw [hp]; simp [utf8Len_append]; omega, hk⟩

theorem fmx_keyLine_nonempty {key : Str} {st : Nat} (h : keyLine key [] = some st) : False := by
  simp [keyLine, SM.trimStartBy, SM.splitOnce] at h

theorem fmx_flatten_ends {a : List Str} (h : ∀ x ∈ a, ∃ y c, x = y ++ [c] ∧ isNL c = true) :
    a.flatten = [] ∨ ∃ q, a.flatten = q ++ ['\n'] := by
  induction a with
  | nil => exact Or.inl rfl
  | cons x rest ih =>
    obtain ⟨y, c, e, hc⟩ := h x (by simp)
    have hc' : c = '\n' := by simpa [isNL] using hc
    rcases ih (fun z hz => h z (by simp [hz])) with h0 | ⟨q, hq⟩
    · exact Or.inr ⟨y, by simp [h0, e, hc']⟩
    · exact Or.inr ⟨x ++ q, by simp [hq]⟩

/-- **`yaml_find_key_position` returns the start of a line of the text** (never a position inside a
    line, whatever the indentation: `start` is 0) -/
theorem fmx_yamlFind_lineStart (text key : Str) (p : Nat) (h : yamlFindKeyPosition text key = some p) :
    LineStart text p := by
  unfold yamlFindKeyPosition at h
  obtain ⟨a, x, b, e, hp, hk⟩ := fmx_findKeyLoop_split key _ 0 p h
  have hfl := fmx_splitIncl_flatten isNL text
  rw [e] at hfl
  refine ⟨a.flatten, x ++ b.flatten, by rw [← hfl]; simp, by omega, ?_, ?_⟩
  · intro hx
    have : x = [] := (List.append_eq_nil_iff.mp hx).1
    rw [this] at hk; exact fmx_keyLine_nonempty hk
  · apply fmx_flatten_ends
    intro y hy
    obtain ⟨a1, a2, ha⟩ := List.append_of_mem hy
    exact fmx_splitIncl_ends isNL text a1 y (a2 ++ x :: b) (by rw [e, ha]; simp) (by simp)

theorem LineStart.boundary {text : Str} {p : Nat} (h : LineStart text p) : Boundary 0 text p := by
  obtain ⟨pre, suf, e, hp, _, _⟩ := h
  exact ⟨pre, suf, e, by omega⟩

/-- a boundary of a slice of the input, shifted by the offset of the slice, is a boundary of the input -/
theorem fmx_pos_ok {input text : Str} {off p : Nat} (hs : SliceAt 0 input off text) (hb : Boundary 0 text p) :
    SpanOK 0 input (Span.pos (off + p)) := by
  obtain ⟨pre, suf, e, ho⟩ := hs
  obtain ⟨a, b, e2, hp⟩ := hb
  have hB : Boundary 0 input (off + p) :=
    ⟨pre ++ a, b ++ suf, by rw [e, e2]; simp, by rw [ho, hp]; simp [utf8Len_append]⟩
  exact ⟨hB, hB, Nat.le_refl _⟩

/-! ### the labels and the shape of the diagnostics -/

/-- the label of a diagnostic of the front-matter branch: the start of a line of the YAML text whose
    key text is `key`, shifted by the offset of the slice -/
def KeyLabel (yamlStart : Nat) (text : Str) (l : Span) : Prop :=
  ∃ key p, yamlFindKeyPosition text key = some p ∧ l = Span.pos (yamlStart + p)

theorem fmx_keyLabels (yamlStart : Nat) (text : Str) (key : Y) :
    ∀ l ∈ keyLabels yamlStart text key, KeyLabel yamlStart text l := by
  intro l hl
  unfold keyLabels at hl
  cases h1 : SM.asStr key with
  | none => rw [h1] at hl; simp at hl
  | some ks =>
    rw [h1] at hl
    cases h2 : yamlFindKeyPosition text ks with
    | none => simp [h2] at hl
    | some pos =>
      simp only [h2, List.mem_singleton] at hl
      exact ⟨ks, pos, h2, hl⟩

theorem fmx_posLabel_find (yamlStart : Nat) (text key : Str) :
    ∀ l ∈ posLabel yamlStart (yamlFindKeyPosition text key), KeyLabel yamlStart text l := by
  intro l hl
  cases h : yamlFindKeyPosition text key with
  | none => rw [h] at hl; simp [posLabel] at hl
  | some p => rw [h] at hl; simp only [posLabel, List.mem_singleton] at hl; exact ⟨key, p, h, hl⟩

theorem fmx_posLabel_timeLoc (yamlStart : Nat) (text : Str) (kept : List (Y × Y)) (k : SM.StdKey) :
    ∀ l ∈ posLabel yamlStart (timeLoc text kept k), KeyLabel yamlStart text l := by
  unfold timeLoc
  split
  · exact fmx_posLabel_find yamlStart text _
  · intro l hl; simp [posLabel] at hl

/-- the diagnostics of the front-matter branch other than a YAML error -/
def FmDiag (yamlStart : Nat) (text : Str) (d : Diag) : Prop :=
  d.stage = .analysis ∧
  (d.kind = "metadata-validator" ∨ (d.kind = "std-unsupported-value" ∧ d.sev = .warning) ∨
    (d.kind = "time-overridden-fm" ∧ d.sev = .warning)) ∧
  ∀ l ∈ d.labels, KeyLabel yamlStart text l

theorem fmx_validatorDiag (v : Verdict) (yamlStart : Nat) (text : Str) (key : Y) :
    ∀ d ∈ validatorDiag v (keyLabels yamlStart text key), FmDiag yamlStart text d := by
  intro d hd
  unfold validatorDiag at hd
  split at hd
  · simp at hd
  · simp only [List.mem_singleton] at hd; subst hd
    exact ⟨rfl, Or.inl rfl, fmx_keyLabels _ _ _⟩
  · simp only [List.mem_singleton] at hd; subst hd
    exact ⟨rfl, Or.inl rfl, fmx_keyLabels _ _ _⟩

section
variable {α : Type} [Arith α]

/-- an invariant of the diagnostics of the entry loop: it suffices to check the two diagnostics one
    iteration can push -/
theorem fmx_foldl_inv (fe : Env α) (yamlStart : Nat) (text : Str) (P : Diag → Prop)
    (hv : ∀ (v : Verdict) (key : Y), ∀ d ∈ validatorDiag v (keyLabels yamlStart text key), P d)
    (hs : ∀ key : Y, P ⟨.warning, .analysis, "std-unsupported-value", keyLabels yamlStart text key⟩)
    (m : List (Y × Y)) (acc : Acc) (h : ∀ d ∈ acc.diags, P d) :
    ∀ d ∈ (m.foldl (entry fe yamlStart text) acc).diags, P d := by
  induction m generalizing acc with
  | nil => exact h
  | cons kv rest ih =>
    apply ih
    have hstd : ∀ (a : Acc) (key value : Y), (∀ d ∈ a.diags, P d) →
        ∀ d ∈ (stdEntry fe yamlStart text a key value).diags, P d := by
      intro a key value ha
      unfold stdEntry
      split
      · exact ha
      · split
        · exact ha
        · exact ha
        · intro d hd
          simp only [List.mem_append, List.mem_singleton] at hd
          rcases hd with hd | hd
          · exact ha d hd
          · subst hd; exact hs key
    unfold entry
    split
    · exact hstd _ _ _ h
    · rename_i f _
      have h1 : ∀ d ∈ acc.diags ++ validatorDiag (f acc.calls kv.1 kv.2) (keyLabels yamlStart text kv.1), P d := by
        intro d hd
        rcases List.mem_append.mp hd with hd | hd
        · exact h d hd
        · exact hv _ _ d hd
      simp only
      split
      · exact h1
      · split
        · exact h1
        · exact hstd _ _ _ h1

theorem fmx_entries_diags (fe : Env α) (yamlStart : Nat) (text : Str) (m : List (Y × Y)) :
    ∀ d ∈ (entries fe yamlStart text m).diags, FmDiag yamlStart text d :=
  fmx_foldl_inv fe yamlStart text (FmDiag yamlStart text)
    (fun v key => fmx_validatorDiag v yamlStart text key)
    (fun key => ⟨rfl, Or.inr (Or.inl ⟨rfl, rfl⟩), fmx_keyLabels _ _ _⟩)
    m {} (by intro d hd; simp at hd)

/-- the entry loop never pushes the time warning -/
theorem fmx_entries_kind (fe : Env α) (yamlStart : Nat) (text : Str) (m : List (Y × Y)) :
    ∀ d ∈ (entries fe yamlStart text m).diags, d.kind = "metadata-validator" ∨ d.kind = "std-unsupported-value" :=
  fmx_foldl_inv fe yamlStart text (fun d => d.kind = "metadata-validator" ∨ d.kind = "std-unsupported-value")
    (fun v key d hd => by
      unfold validatorDiag at hd
      split at hd
      · simp at hd
      · simp only [List.mem_singleton] at hd; subst hd; exact Or.inl rfl
      · simp only [List.mem_singleton] at hd; subst hd; exact Or.inl rfl)
    (fun key => Or.inr rfl)
    m {} (by intro d hd; simp at hd)

end

theorem fmx_timeWarn_diags (yamlStart : Nat) (text : Str) (kept : List (Y × Y)) :
    ∀ d ∈ timeWarn yamlStart text kept, FmDiag yamlStart text d := by
  intro d hd
  unfold timeWarn at hd
  split at hd
  · split at hd
    · simp only [List.mem_singleton] at hd; subst hd
      refine ⟨rfl, Or.inr (Or.inr ⟨rfl, rfl⟩), ?_⟩
      intro l hl
      simp only [List.mem_append] at hl
      rcases hl with (hl | hl) | hl
      · exact fmx_posLabel_timeLoc _ _ _ _ l hl
      · exact fmx_posLabel_timeLoc _ _ _ _ l hl
      · exact fmx_posLabel_find _ _ _ l hl
    · simp at hd
  · simp at hd

/-- every diagnostic of `process_frontmatter` on a decoded mapping is one of the three kinds with
    key-line labels -/
theorem fmx_process_ok_diags {α : Type} [Arith α] (fe : Env α) (yaml : Text) (m : List (Y × Y))
    (hd : fe.decode yaml.text = .ok m) :
    ∀ d ∈ (processFrontmatter fe yaml).diags, FmDiag yaml.span.start yaml.text d := by
  unfold processFrontmatter
  rw [hd]
  intro d h
  simp only [List.mem_append] at h
  rcases h with h | h
  · exact fmx_entries_diags fe _ _ m d h
  · exact fmx_timeWarn_diags _ _ _ d h

theorem fmx_keyLabel_ok {input text : Str} {off : Nat} {l : Span} (hs : SliceAt 0 input off text)
    (h : KeyLabel off text l) : SpanOK 0 input l := by
  obtain ⟨key, p, hp, e⟩ := h
  rw [e]
  exact fmx_pos_ok hs (fmx_yamlFind_lineStart text key p hp).boundary

/-! ### without a validator: one warning per rejected standard entry, nothing removed -/

/-- what one entry contributes to the report when there is no validator: the warning of the C13
    model (`SM.entryWarns`) with the key-line label -/
def entryWarning {α : Type} [Arith α] (fe : Env α) (yamlStart : Nat) (text : Str) (kv : Y × Y) : List Diag :=
  match SM.asStr kv.1 with
  | some ks =>
    if SM.entryWarns fe.conv fe.alpha ks kv.2 then
      [⟨.warning, .analysis, "std-unsupported-value", keyLabels yamlStart text kv.1⟩]
    else []
  | none => []

section
variable {α : Type} [Arith α]

theorem fmx_stdEntry_spec (fe : Env α) (yamlStart : Nat) (text : Str) (acc : Acc) (key value : Y) :
    (stdEntry fe yamlStart text acc key value).diags = acc.diags ++ entryWarning fe yamlStart text (key, value) ∧
    (stdEntry fe yamlStart text acc key value).kept = acc.kept := by
  unfold stdEntry entryWarning SM.entryWarns
  cases h1 : SM.asStr key with
  | none => simp
  | some ks =>
    simp only [Option.bind_some]
    cases h2 : SM.StdKey.fromStr ks with
    | none => simp
    | some sk =>
      cases h3 : SM.checkStdEntry fe.conv fe.alpha sk value with
      | none => simp [h3]
      | some o => cases o <;> simp [h3]

theorem fmx_foldl_noValidator (fe : Env α) (hv : fe.validator = none) (yamlStart : Nat) (text : Str)
    (m : List (Y × Y)) (acc : Acc) :
    (m.foldl (entry fe yamlStart text) acc).diags = acc.diags ++ m.flatMap (entryWarning fe yamlStart text) ∧
    (m.foldl (entry fe yamlStart text) acc).kept = acc.kept ++ m := by
  induction m generalizing acc with
  | nil => simp
  | cons kv rest ih =>
    have e : entry fe yamlStart text acc kv =
        stdEntry fe yamlStart text { acc with kept := acc.kept ++ [kv] } kv.1 kv.2 := by
      unfold entry; rw [hv]
    obtain ⟨s1, s2⟩ := fmx_stdEntry_spec fe yamlStart text { acc with kept := acc.kept ++ [kv] } kv.1 kv.2
    obtain ⟨i1, i2⟩ := ih (entry fe yamlStart text acc kv)
    simp only [List.foldl_cons, List.flatMap_cons]
    rw [i1, i2, e, s1, s2]
    simp

/-- without a validator the loop keeps every entry and pushes exactly the C13 warnings, in mapping order -/
theorem fmx_entries_noValidator (fe : Env α) (hv : fe.validator = none) (yamlStart : Nat) (text : Str)
    (m : List (Y × Y)) :
    (entries fe yamlStart text m).diags = m.flatMap (entryWarning fe yamlStart text) ∧
    (entries fe yamlStart text m).kept = m := by
  obtain ⟨a, b⟩ := fmx_foldl_noValidator fe hv yamlStart text m {}
  exact ⟨by unfold entries; rw [a]; simp, by unfold entries; rw [b]; simp⟩

end

/-! ### the time warning -/

theorem fmx_timeWarn_iff (yamlStart : Nat) (text : Str) (kept : List (Y × Y)) :
    (∃ d ∈ timeWarn yamlStart text kept, d.kind = "time-overridden-fm") ↔
    (hasKey kept .time = true ∧
      ((timeLoc text kept .prepTime).isSome = true ∨ (timeLoc text kept .cookTime).isSome = true)) := by
  unfold timeWarn
  by_cases h1 : hasKey kept .time = true
  · by_cases h2 : ((timeLoc text kept .prepTime).isSome || (timeLoc text kept .cookTime).isSome) = true
    · simp only [h1, h2, if_true]
      constructor
      · intro _; exact ⟨trivial, by simpa using h2⟩
      · intro _; exact ⟨_, List.mem_singleton.mpr rfl, rfl⟩
    · simp only [h1, h2]
      constructor
      · rintro ⟨d, hd, _⟩; simp at hd
      · rintro ⟨_, h⟩; exact absurd (by simpa using h) h2
  · simp only [h1]
    constructor
    · rintro ⟨d, hd, _⟩; simp at hd
    · rintro ⟨h, _⟩; cases h

theorem fmx_timeWarn_length (yamlStart : Nat) (text : Str) (kept : List (Y × Y)) :
    (timeWarn yamlStart text kept).length ≤ 1 := by
  unfold timeWarn; split <;> (try split) <;> simp

/-- "Time overriden" is pushed exactly when, after the removals, the mapping has the key `time` and
    has `prep time` or `cook time` on a line `yaml_find_key_position` recognises -/
theorem fmx_process_time_iff {α : Type} [Arith α] (fe : Env α) (yaml : Text) (m : List (Y × Y))
    (hd : fe.decode yaml.text = .ok m) :
    (∃ d ∈ (processFrontmatter fe yaml).diags, d.kind = "time-overridden-fm") ↔
    (hasKey (entries fe yaml.span.start yaml.text m).kept .time = true ∧
      ((timeLoc yaml.text (entries fe yaml.span.start yaml.text m).kept .prepTime).isSome = true ∨
       (timeLoc yaml.text (entries fe yaml.span.start yaml.text m).kept .cookTime).isSome = true)) := by
  rw [← fmx_timeWarn_iff yaml.span.start]
  unfold processFrontmatter
  rw [hd]
  constructor
  · rintro ⟨d, h, hk⟩
    simp only [List.mem_append] at h
    rcases h with h | h
    · rcases fmx_entries_kind fe _ _ m d h with e | e <;> rw [e] at hk <;> exact absurd hk (by decide)
    · exact ⟨d, h, hk⟩
  · rintro ⟨d, h, hk⟩
    exact ⟨d, List.mem_append.mpr (Or.inr h), hk⟩

theorem fmx_process_err {α : Type} [Arith α] (fe : Env α) (yaml : Text) (loc : Option Nat)
    (hd : fe.decode yaml.text = .err loc) :
    processFrontmatter fe yaml =
      ⟨none, none, [⟨.error, .analysis, "yaml-error", posLabel yaml.span.start loc⟩]⟩ := by
  unfold processFrontmatter; rw [hd]

/-! ### the removals: which entries stay in the mapping -/

/-- the entries the validator `f` leaves in the mapping (`include` of the `n`-th call) -/
def keptBy (f : Nat → Y → Y → Verdict) : Nat → List (Y × Y) → List (Y × Y)
  | _, [] => []
  | n, kv :: rest => if (f n kv.1 kv.2).incl then kv :: keptBy f (n + 1) rest else keptBy f (n + 1) rest

section
variable {α : Type} [Arith α]

theorem fmx_stdEntry_calls (fe : Env α) (yamlStart : Nat) (text : Str) (acc : Acc) (key value : Y) :
    (stdEntry fe yamlStart text acc key value).calls = acc.calls := by
  unfold stdEntry
  split
  · rfl
  · split <;> rfl

theorem fmx_foldl_kept (fe : Env α) (f : Nat → Y → Y → Verdict) (hv : fe.validator = some f)
    (yamlStart : Nat) (text : Str) (m : List (Y × Y)) (acc : Acc) :
    (m.foldl (entry fe yamlStart text) acc).kept = acc.kept ++ keptBy f acc.calls m := by
  induction m generalizing acc with
  | nil => simp [keptBy]
  | cons kv rest ih =>
    simp only [List.foldl_cons]
    rw [ih]
    unfold entry
    rw [hv]
    simp only
    by_cases hi : (f acc.calls kv.1 kv.2).incl = true
    · by_cases hr : (f acc.calls kv.1 kv.2).runStd = true
      · simp [hi, hr, keptBy, fmx_stdEntry_calls, (fmx_stdEntry_spec fe yamlStart text _ kv.1 kv.2).2]
      · simp [hi, hr, keptBy]
    · simp [hi, keptBy]

/-- **after the exclusions**: the mapping `process_frontmatter` stores is the decoded one without the
    entries for which the validator cleared `include` (in their order); without a validator, all of it -/
theorem fmx_entries_kept (fe : Env α) (yamlStart : Nat) (text : Str) (m : List (Y × Y)) :
    (entries fe yamlStart text m).kept =
      match fe.validator with
      | none => m
      | some f => keptBy f 0 m := by
  cases hv : fe.validator with
  | none => exact (fmx_entries_noValidator fe hv yamlStart text m).2
  | some f =>
    unfold entries
    rw [fmx_foldl_kept fe f hv]
    simp

end

theorem fmx_timeLoc_isSome (text : Str) (kept : List (Y × Y)) (k : SM.StdKey) :
    (timeLoc text kept k).isSome = true ↔
      (hasKey kept k = true ∧ (yamlFindKeyPosition text k.canon).isSome = true) := by
  unfold timeLoc
  by_cases h : hasKey kept k = true <;> simp [h]

theorem fmx_mapGet_mem {k : Str} {m : List (Y × Y)} {v : Y} (h : SM.mapGet k m = some v) :
    (Y.str k, v) ∈ m := by
  induction m with
  | nil => simp [SM.mapGet] at h
  | cons e rest ih =>
    obtain ⟨ek, ev⟩ := e
    cases ek with
    | str s =>
      unfold SM.mapGet at h
      split at h
      · rename_i hs
        simp only [Option.some.injEq] at h
        simp [hs, h]
      · exact List.mem_cons_of_mem _ (ih h)
    | _ => unfold SM.mapGet at h; exact List.mem_cons_of_mem _ (ih h)

end FM
end Cook
