import CookModel.Analysis.FrontMatter
import CookModel.Lemmas.Lexer
import CookModel.Lemmas.Text
import CookModel.Lemmas.Spans
import CookModel.Lemmas.StdMetaText
/-
  Lemmas about the front-matter branch of the analysis (Analysis/FrontMatter.lean), tag `fmx_`:
  `yaml_find_key_position` returns the start of a line of the YAML text; every label the branch
  builds is such a position shifted by the offset of the slice; the shape of the diagnostics of the
  entry loop.
-/
namespace Cook
namespace FM
open SM (Y)

/-! ### the text of the front-matter event -/

theorem fmx_fromStr_text (s : Str) (off : Nat) : (Text.fromStr s off).text = s := by
  unfold Text.fromStr Text.appendStr Text.appendFrag Text.text
  cases s with
  | nil => simp [Text.empty, Text.span, Span.pos]
  | cons c t => simp [Text.empty, Text.span, Span.pos]

theorem fmx_fromStr_start (s : Str) (off : Nat) : (Text.fromStr s off).span.start = off := by
  unfold Text.fromStr Text.appendStr Text.appendFrag
  cases s with
  | nil => simp [Text.empty, Text.span, Span.pos]
  | cons c t => simp [Text.empty, Text.span, Span.pos]

/-! ### `yaml_find_key_position` -/

/-- ASCII white space is Unicode white space -/
theorem fmx_asciiWs_isWs (c : Char) (h : SM.isAsciiWs c = true) : SM.isWs c = true := by
  unfold SM.isAsciiWs at h
  unfold SM.isWs
  simp only [Bool.or_eq_true, beq_iff_eq, Bool.and_eq_true, decide_eq_true_eq] at h ⊢
  omega

/-- the text before the first separator is empty or starts like the text -/
theorem fmx_splitOnce_head {p : Char → Bool} {c : Char} {cs a b : Str}
    (h : SM.splitOnce p (c :: cs) = some (a, b)) : a = [] ∨ ∃ t, a = c :: t := by
  unfold SM.splitOnce at h
  split at h
  · simp only [Option.some.injEq, Prod.mk.injEq] at h; exact Or.inl h.1.symm
  · split at h
    · simp at h
    · simp only [Option.some.injEq, Prod.mk.injEq] at h; exact Or.inr ⟨_, h.1.symm⟩

/-- `start` is always 0: after `trim_start` the key text cannot begin with an ASCII blank -/
theorem fmx_keyLine_zero {key line : Str} {st : Nat} (h : keyLine key line = some st) : st = 0 := by
  unfold keyLine at h
  split at h
  · simp at h
  · rename_i r hr
    split at h
    · simp at h
    · split at h
      · simp only [Option.some.injEq] at h
        have hstop := SM.dropWhile_stops (p := SM.isWs) line
        have htw : r.1.takeWhile SM.isAsciiWs = [] := by
          unfold SM.trimStartBy at hr
          rcases hstop with h0 | ⟨c, rest, hc, hpc⟩
          · rw [h0] at hr; simp [SM.splitOnce] at hr
          · rw [hc] at hr
            have hr' : SM.splitOnce isColon (c :: rest) = some (r.1, r.2) := hr
            rcases fmx_splitOnce_head hr' with e | ⟨t, e⟩
            · rw [e]; rfl
            · rw [e]
              have : SM.isAsciiWs c = false := by
                cases hx : SM.isAsciiWs c with
                | false => rfl
                | true => rw [fmx_asciiWs_isWs c hx] at hpc; cases hpc
              simp [List.takeWhile, this]
        rw [htw] at h; simpa [utf8Len] using h.symm
      · simp at h

theorem fmx_splitIncl_flatten (p : Char → Bool) (s : Str) : (SM.splitIncl p s).flatten = s := by
  induction s with
  | nil => simp [SM.splitIncl]
  | cons c cs ih =>
    unfold SM.splitIncl
    split
    · simp [ih]
    · split
      · rename_i h; rw [h] at ih; simp at ih; simp [← ih]
      · rename_i x xs h; rw [h] at ih; simp at ih; simp [← ih]

/-- every piece of `split_inclusive` but the last ends with a separator -/
theorem fmx_splitIncl_ends (p : Char → Bool) (s : Str) :
    ∀ a x b, SM.splitIncl p s = a ++ x :: b → b ≠ [] → ∃ y c, x = y ++ [c] ∧ p c = true := by
  induction s with
  | nil => intro a x b h; simp [SM.splitIncl] at h
  | cons d ds ih =>
    intro a x b h hb
    unfold SM.splitIncl at h
    split at h
    · rename_i hd
      cases a with
      | nil =>
        simp only [List.nil_append, List.cons.injEq] at h
        exact ⟨[], d, by simp [h.1], hd⟩
      | cons a0 as =>
        simp only [List.cons_append, List.cons.injEq] at h
        exact ih as x b h.2 hb
    · split at h
      · cases a with
        | nil => simp only [List.nil_append, List.cons.injEq] at h; exact absurd h.2.symm hb
        | cons a0 as => simp at h
      · rename_i x0 xs hx
        cases a with
        | nil =>
          simp only [List.nil_append, List.cons.injEq] at h
          obtain ⟨y, c, e, hc⟩ := ih [] x0 xs (by simp [hx]) (by rw [h.2]; exact hb)
          exact ⟨d :: y, c, by rw [← h.1, e]; simp, hc⟩
        | cons a0 as =>
          simp only [List.cons_append, List.cons.injEq] at h
          exact ih (x0 :: as) x b (by rw [hx, h.2]; simp) hb

/-- a position is the start of a line of `text`: a character boundary that is 0 or follows a line feed -/
def LineStart (text : Str) (p : Nat) : Prop :=
  ∃ pre suf, text = pre ++ suf ∧ p = utf8Len pre ∧ suf ≠ [] ∧ (pre = [] ∨ ∃ q, pre = q ++ ['\n'])

theorem fmx_findKeyLoop_split (key : Str) (lines : List Str) (off p : Nat)
    (h : findKeyLoop key lines off = some p) :
    ∃ a x b, lines = a ++ x :: b ∧ p = off + utf8Len a.flatten ∧ keyLine key x = some 0 := by
  induction lines generalizing off with
  | nil => simp [findKeyLoop] at h
  | cons l ls ih =>
    unfold findKeyLoop at h
    split at h
    · rename_i st hst
      have h0 := fmx_keyLine_zero hst
      subst h0
      simp only [Option.some.injEq] at h
      exact ⟨[], l, ls, rfl, by simp [utf8Len, ← h], hst⟩
    · obtain ⟨a, x, b, e, hp, hk⟩ := ih _ h
      exact ⟨l :: a, x, b, by rw [e]; rfl, by rw [hp]; simp [utf8Len_append]; omega, hk⟩

theorem fmx_keyLine_nonempty {key : Str} {st : Nat} (h : keyLine key [] = some st) : False := by
  simp [keyLine, SM.trimStartBy, SM.splitOnce] at h

theorem fmx_flatten_ends {a : List Str} (h : ∀ x ∈ a, ∃ y c, x = y ++ [c] ∧ isNL c = true) :
    a.flatten = [] ∨ ∃ q, a.flatten = q ++ ['\n'] := by
  induction a with
  | nil => exact Or.inl rfl
  | cons x rest ih =>
    obtain ⟨y, c, e, hc⟩ := h x (by simp)
    have hc' : c = '\n' := by simpa [isNL] using hc
    rcases ih (fun z hz => h z (by simp [hz])) with h0 | ⟨q, hq⟩
    · exact Or.inr ⟨y, by simp [h0, e, hc']⟩
    · exact Or.inr ⟨x ++ q, by simp [hq]⟩

/-- **`yaml_find_key_position` returns the start of a line of the text** (never a position inside a
    line, whatever the indentation: `start` is 0) -/
theorem fmx_yamlFind_lineStart (text key : Str) (p : Nat) (h : yamlFindKeyPosition text key = some p) :
    LineStart text p := by
  unfold yamlFindKeyPosition at h
  obtain ⟨a, x, b, e, hp, hk⟩ := fmx_findKeyLoop_split key _ 0 p h
  have hfl := fmx_splitIncl_flatten isNL text
  rw [e] at hfl
  refine ⟨a.flatten, x ++ b.flatten, by rw [← hfl]; simp, by omega, ?_, ?_⟩
  · intro hx
    have : x = [] := (List.append_eq_nil_iff.mp hx).1
    rw [this] at hk; exact fmx_keyLine_nonempty hk
  · apply fmx_flatten_ends
    intro y hy
    obtain ⟨a1, a2, ha⟩ := List.append_of_mem hy
    exact fmx_splitIncl_ends isNL text a1 y (a2 ++ x :: b) (by rw [e, ha]; simp) (by simp)

theorem LineStart.boundary {text : Str} {p : Nat} (h : LineStart text p) : Boundary 0 text p := by
  obtain ⟨pre, suf, e, hp, _, _⟩ := h
  exact ⟨pre, suf, e, by omega⟩

/-- a boundary of a slice of the input, shifted by the offset of the slice, is a boundary of the input -/
theorem fmx_pos_ok {input text : Str} {off p : Nat} (hs : SliceAt 0 input off text) (hb : Boundary 0 text p) :
    SpanOK 0 input (Span.pos (off + p)) := by
  obtain ⟨pre, suf, e, ho⟩ := hs
  obtain ⟨a, b, e2, hp⟩ := hb
  have hB : Boundary 0 input (off + p) :=
    ⟨pre ++ a, b ++ suf, by rw [e, e2]; simp, by rw [ho, hp]; simp [utf8Len_append]⟩
  exact ⟨hB, hB, Nat.le_refl _⟩

/-! ### the labels and the shape of the diagnostics -/

/-- the label of a diagnostic of the front-matter branch: the start of a line of the YAML text whose
    key text is `key`, shifted by the offset of the slice -/
def KeyLabel (yamlStart : Nat) (text : Str) (l : Span) : Prop :=
  ∃ key p, yamlFindKeyPosition text key = some p ∧ l = Span.pos (yamlStart + p)

theorem fmx_keyLabels (yamlStart : Nat) (text : Str) (key : Y) :
    ∀ l ∈ keyLabels yamlStart text key, KeyLabel yamlStart text l := by
  intro l hl
  unfold keyLabels at hl
  cases h1 : SM.asStr key with
  | none => rw [h1] at hl; simp at hl
  | some ks =>
    rw [h1] at hl
    cases h2 : yamlFindKeyPosition text ks with
    | none => simp [h2] at hl
    | some pos =>
      simp only [h2, List.mem_singleton] at hl
      exact ⟨ks, pos, h2, hl⟩

theorem fmx_posLabel_find (yamlStart : Nat) (text key : Str) :
    ∀ l ∈ posLabel yamlStart (yamlFindKeyPosition text key), KeyLabel yamlStart text l := by
  intro l hl
  cases h : yamlFindKeyPosition text key with
  | none => rw [h] at hl; simp [posLabel] at hl
  | some p => rw [h] at hl; simp only [posLabel, List.mem_singleton] at hl; exact ⟨key, p, h, hl⟩

theorem fmx_posLabel_timeLoc (yamlStart : Nat) (text : Str) (kept : List (Y × Y)) (k : SM.StdKey) :
    ∀ l ∈ posLabel yamlStart (timeLoc text kept k), KeyLabel yamlStart text l := by
  unfold timeLoc
  split
  · exact fmx_posLabel_find yamlStart text _
  · intro l hl; simp [posLabel] at hl

/-- the diagnostics of the front-matter branch other than a YAML error -/
def FmDiag (yamlStart : Nat) (text : Str) (d : Diag) : Prop :=
  d.stage = .analysis ∧
  (d.kind = "metadata-validator" ∨ (d.kind = "std-unsupported-value" ∧ d.sev = .warning) ∨
    (d.kind = "time-overridden-fm" ∧ d.sev = .warning)) ∧
  ∀ l ∈ d.labels, KeyLabel yamlStart text l

theorem fmx_validatorDiag (v : Verdict) (yamlStart : Nat) (text : Str) (key : Y) :
    ∀ d ∈ validatorDiag v (keyLabels yamlStart text key), FmDiag yamlStart text d := by
  intro d hd
  unfold validatorDiag at hd
  split at hd
  · simp at hd
  · simp only [List.mem_singleton] at hd; subst hd
    exact ⟨rfl, Or.inl rfl, fmx_keyLabels _ _ _⟩
  · simp only [List.mem_singleton] at hd; subst hd
    exact ⟨rfl, Or.inl rfl, fmx_keyLabels _ _ _⟩

section
variable {α : Type} [Arith α]

theorem fmx_stdEntry_diags (fe : Env α) (yamlStart : Nat) (text : Str) (acc : Acc) (key value : Y)
    (h : ∀ d ∈ acc.diags, FmDiag yamlStart text d) :
    ∀ d ∈ (stdEntry fe yamlStart text acc key value).diags, FmDiag yamlStart text d := by
  unfold stdEntry
  split
  · exact h
  · split
    · exact h
    · exact h
    · intro d hd
      simp only [List.mem_append, List.mem_singleton] at hd
      rcases hd with hd | hd
      · exact h d hd
      · subst hd; exact ⟨rfl, Or.inr (Or.inl ⟨rfl, rfl⟩), fmx_keyLabels _ _ _⟩

theorem fmx_entry_diags (fe : Env α) (yamlStart : Nat) (text : Str) (acc : Acc) (kv : Y × Y)
    (h : ∀ d ∈ acc.diags, FmDiag yamlStart text d) :
    ∀ d ∈ (entry fe yamlStart text acc kv).diags, FmDiag yamlStart text d := by
  unfold entry
  split
  · exact fmx_stdEntry_diags fe yamlStart text _ _ _ h
  · rename_i f _
    have h1 : ∀ d ∈ acc.diags ++ validatorDiag (f acc.calls kv.1 kv.2) (keyLabels yamlStart text kv.1),
        FmDiag yamlStart text d := by
      intro d hd
      rcases List.mem_append.mp hd with hd | hd
      · exact h d hd
      · exact fmx_validatorDiag _ _ _ _ d hd
    simp only
    split
    · exact h1
    · split
      · exact h1
      · exact fmx_stdEntry_diags fe yamlStart text _ _ _ h1

theorem fmx_foldl_diags (fe : Env α) (yamlStart : Nat) (text : Str) (m : List (Y × Y)) (acc : Acc)
    (h : ∀ d ∈ acc.diags, FmDiag yamlStart text d) :
    ∀ d ∈ (m.foldl (entry fe yamlStart text) acc).diags, FmDiag yamlStart text d := by
  induction m generalizing acc with
  | nil => exact h
  | cons kv rest ih => exact ih _ (fmx_entry_diags fe yamlStart text acc kv h)

theorem fmx_entries_diags (fe : Env α) (yamlStart : Nat) (text : Str) (m : List (Y × Y)) :
    ∀ d ∈ (entries fe yamlStart text m).diags, FmDiag yamlStart text d :=
  fmx_foldl_diags fe yamlStart text m {} (by intro d hd; simp at hd)

end

theorem fmx_timeWarn_diags (yamlStart : Nat) (text : Str) (kept : List (Y × Y)) :
    ∀ d ∈ timeWarn yamlStart text kept, FmDiag yamlStart text d := by
  intro d hd
  unfold timeWarn at hd
  split at hd
  · split at hd
    · simp only [List.mem_singleton] at hd; subst hd
      refine ⟨rfl, Or.inr (Or.inr ⟨rfl, rfl⟩), ?_⟩
      intro l hl
      simp only [List.mem_append] at hl
      rcases hl with (hl | hl) | hl
      · exact fmx_posLabel_timeLoc _ _ _ _ l hl
      · exact fmx_posLabel_timeLoc _ _ _ _ l hl
      · exact fmx_posLabel_find _ _ _ l hl
    · simp at hd
  · simp at hd

/-- every diagnostic of `process_frontmatter` on a decoded mapping is one of the three kinds with
    key-line labels -/
theorem fmx_process_ok_diags {α : Type} [Arith α] (fe : Env α) (yaml : Text) (m : List (Y × Y))
    (hd : fe.decode yaml.text = .ok m) :
    ∀ d ∈ (processFrontmatter fe yaml).diags, FmDiag yaml.span.start yaml.text d := by
  unfold processFrontmatter
  rw [hd]
  intro d h
  simp only [List.mem_append] at h
  rcases h with h | h
  · exact fmx_entries_diags fe _ _ m d h
  · exact fmx_timeWarn_diags _ _ _ d h

theorem fmx_keyLabel_ok {input text : Str} {off : Nat} {l : Span} (hs : SliceAt 0 input off text)
    (h : KeyLabel off text l) : SpanOK 0 input l := by
  obtain ⟨key, p, hp, e⟩ := h
  rw [e]
  exact fmx_pos_ok hs (fmx_yamlFind_lineStart text key p hp).boundary

end FM
end Cook
