import CookModel.Lemmas.DiagPlace
import CookModel.Lemmas.DiagPlaceQty
import CookModel.Lemmas.DiagInside
import CookModel.Lemmas.DiagInsideTimer
import CookModel.Lemmas.DiagExact
import CookModel.Lemmas.ParserNoPanic
/-
  C07 placement (`c07p_` prefix): a braces component `marker mods name { Q }` standing ANYWHERE in a step
  (tokens `A` before it, `rest` after it) is cut exactly as in isolation (`c07p_cut`), so the component
  parsers are their tails on the pieces (`c07p_ingredient_run`, …), and a component parser whose run is
  known is a piece of the step loop (`c07p_piece_of_ingredient`, …).
-/
set_option linter.unusedSectionVars false
set_option linter.unusedSimpArgs false
set_option linter.unusedVariables false
namespace Cook

variable {α : Type} [Arith α]

/-- the tokens of a braces component: marker, modifier tokens, name tokens, `{`, quantity tokens, `}` -/
def c07p_comp (tm : Tok) (ms nameT : List Tok) (tob : Tok) (Q : List Tok) (tcb : Tok) : List Tok :=
  tm :: (ms ++ (nameT ++ tob :: (Q ++ [tcb])))

/-- the body `comp_body` returns for it -/
def c07p_body (nameT : List Tok) (tob : Tok) (Q : List Tok) (tcb : Tok) : Body :=
  ⟨nameT, some ⟨tob.start, tcb.stop⟩, if Q.any (fun t => !isPadK t) then some Q else none⟩

theorem c07p_comp_length (tm : Tok) (ms nameT : List Tok) (tob : Tok) (Q : List Tok) (tcb : Tok) :
    (c07p_comp tm ms nameT tob Q tcb).length = 1 + ms.length + nameT.length + 1 + Q.length + 1 := by
  simp only [c07p_comp, List.length_cons, List.length_append, List.length_nil]; omega

/-- the token kinds make `tm ms nameT { Q }` a braces component of kind `k` under the extensions `e`:
    the marker; the modifier tokens are exactly `ms` (none when COMPONENT_MODIFIERS is off; otherwise
    modifier characters, and the token after them is neither a modifier character nor `(`); no `{` or
    marker among the name tokens; no `}` among the quantity tokens; what follows is not a `(` -/
structure PlShape (e : Ext) (k : TK) (tm : Tok) (ms nameT : List Tok) (tob : Tok) (Q : List Tok) (tcb : Tok)
    (rest : List Tok) : Prop where
  hk : tm.kind = k
  hm : (e.has Gen.EXT_COMPONENT_MODIFIERS = false ∧ ms = []) ∨
    (e.has Gen.EXT_COMPONENT_MODIFIERS = true ∧ (∀ m ∈ ms, modKind m.kind = true) ∧
      ∀ x, (nameT ++ [tob]).head? = some x → modKind x.kind = false ∧ x.kind ≠ .openParen)
  hn : ∀ t ∈ nameT, (t.kind == .openBrace || isMarker t.kind) = false
  hob : tob.kind = .openBrace
  hQ : ∀ t ∈ Q, t.kind ≠ .closeBrace
  hcb : tcb.kind = .closeBrace
  hrest : ∀ t, rest.head? = some t → t.kind ≠ .openParen

theorem c07p_setCur_congr (s : BP α) {a b : Nat} (h : a = b) : ({ s with cur := a } : BP α) = { s with cur := b } := by
  rw [h]

/-- the cut of a braces component in context -/
theorem c07p_cut (k : TK) (s : BP α) (A : List Tok) (tm : Tok) (ms nameT : List Tok) (tob : Tok) (Q : List Tok)
    (tcb : Tok) (rest : List Tok) (sh : PlShape s.ext k tm ms nameT tob Q tcb rest)
    (ht : s.toks = A ++ (c07p_comp tm ms nameT tob Q tcb ++ rest)) (hc : s.cur = A.length) :
    Cut k s ms (c07p_body nameT tob Q tcb)
      { s with cur := A.length + 1 } { s with cur := A.length + 1 + ms.length }
      { s with cur := A.length + (c07p_comp tm ms nameT tob Q tcb).length } ∧
    noteP ({ s with cur := A.length + (c07p_comp tm ms nameT tob Q tcb).length } : BP α) =
      (none, { s with cur := A.length + (c07p_comp tm ms nameT tob Q tcb).length }) := by
  have ht' : s.toks = A ++ tm :: (ms ++ (nameT ++ tob :: (Q ++ tcb :: rest))) := by
    rw [ht]; simp [c07p_comp]
  have h1 := consumeK_split_some k s A tm _ ht' hc sh.hk
  have h2 : modifiersP ({ s with cur := A.length + 1 } : BP α) = (ms, { s with cur := A.length + 1 + ms.length }) := by
    rcases sh.hm with ⟨hoff, hms⟩ | ⟨hon, hms, hx⟩
    · subst hms
      rw [modifiersP_off ({ s with cur := A.length + 1 } : BP α) hoff]; rfl
    · obtain ⟨x, R', hxr⟩ : ∃ x R', nameT ++ tob :: (Q ++ tcb :: rest) = x :: R' := by
        cases nameT with
        | nil => exact ⟨_, _, rfl⟩
        | cons n ns => exact ⟨_, _, rfl⟩
      have hxh : (nameT ++ [tob]).head? = some x := by
        cases nameT with
        | nil => simp at hxr ⊢; exact hxr.1
        | cons n ns => simp at hxr ⊢; exact hxr.1
      have hx' := hx x hxh
      have := modifiersP_on ({ s with cur := A.length + 1 } : BP α) hon (A ++ [tm]) ms x R'
        (by show s.toks = _; rw [ht', hxr]; simp) (by simp) hms hx'.1 hx'.2
      rw [this]
      exact congrArg (fun c => (ms, ({ s with cur := c } : BP α))) (by simp)
  have h3 := compBody_run ({ s with cur := A.length + 1 + ms.length } : BP α) (A ++ tm :: ms) nameT tob Q tcb rest
    (by show s.toks = _; rw [ht']; simp) (by simp; omega) sh.hn sh.hob sh.hQ sh.hcb
  have hlen : (A ++ tm :: ms).length + nameT.length + 1 + Q.length + 1 =
      A.length + (c07p_comp tm ms nameT tob Q tcb).length := by
    rw [c07p_comp_length]; simp only [List.length_append, List.length_cons]; omega
  rw [hlen] at h3
  refine ⟨⟨⟨tm, h1⟩, h2, h3⟩, ?_⟩
  exact noteP_none _ (A ++ c07p_comp tm ms nameT tob Q tcb) rest (by show s.toks = _; rw [ht]; simp)
    (by simp) sh.hrest

/-- `ingredient` on a braces component in context is its tail on the pieces -/
theorem c07p_ingredient_run (s : BP α) (A : List Tok) (tm : Tok) (ms nameT : List Tok) (tob : Tok) (Q : List Tok)
    (tcb : Tok) (rest : List Tok) (sh : PlShape s.ext .at tm ms nameT tob Q tcb rest)
    (ht : s.toks = A ++ (c07p_comp tm ms nameT tob Q tcb ++ rest)) (hc : s.cur = A.length) :
    ingredientP s = ingredientTail (offAt s.toks A.length)
      (offAt s.toks (A.length + (c07p_comp tm ms nameT tob Q tcb).length))
      (offAt s.toks (A.length + 1)) (offAt s.toks (A.length + 1 + ms.length)) ms (c07p_body nameT tob Q tcb) none
      { s with cur := A.length + (c07p_comp tm ms nameT tob Q tcb).length } := by
  obtain ⟨hcut, hnote⟩ := c07p_cut .at s A tm ms nameT tob Q tcb rest sh ht hc
  have := ingredientP_cut hcut hnote
  rw [this]
  simp only [curOff, hc]

theorem c07p_cookware_run (s : BP α) (A : List Tok) (tm : Tok) (ms nameT : List Tok) (tob : Tok) (Q : List Tok)
    (tcb : Tok) (rest : List Tok) (sh : PlShape s.ext .hash tm ms nameT tob Q tcb rest)
    (ht : s.toks = A ++ (c07p_comp tm ms nameT tob Q tcb ++ rest)) (hc : s.cur = A.length) :
    cookwareP s = cookwareTail (offAt s.toks A.length)
      (offAt s.toks (A.length + (c07p_comp tm ms nameT tob Q tcb).length))
      (offAt s.toks (A.length + 1)) (offAt s.toks (A.length + 1 + ms.length)) ms (c07p_body nameT tob Q tcb) none
      { s with cur := A.length + (c07p_comp tm ms nameT tob Q tcb).length } := by
  obtain ⟨hcut, hnote⟩ := c07p_cut .hash s A tm ms nameT tob Q tcb rest sh ht hc
  have := cookwareP_cut hcut hnote
  rw [this]
  simp only [curOff, hc]

theorem c07p_timer_run (s : BP α) (A : List Tok) (tm : Tok) (ms nameT : List Tok) (tob : Tok) (Q : List Tok)
    (tcb : Tok) (rest : List Tok) (sh : PlShape s.ext .tilde tm ms nameT tob Q tcb rest)
    (ht : s.toks = A ++ (c07p_comp tm ms nameT tob Q tcb ++ rest)) (hc : s.cur = A.length) :
    timerP s = timerTail (offAt s.toks A.length)
      (offAt s.toks (A.length + (c07p_comp tm ms nameT tob Q tcb).length))
      (offAt s.toks (A.length + 1 + ms.length)) ms (c07p_body nameT tob Q tcb)
      { s with cur := A.length + (c07p_comp tm ms nameT tob Q tcb).length } := by
  obtain ⟨hcut, -⟩ := c07p_cut .tilde s A tm ms nameT tob Q tcb rest sh ht hc
  have := timerP_cut hcut
  rw [this]
  simp only [curOff, hc]

/-! ### the tails leave the token list and the cursor alone -/

theorem c07p_indep_fields {β : Type} {m : P α β} (h : Indep m) (s : BP α) :
    (m s).2.cur = s.cur ∧ (m s).2.toks = s.toks := by
  have := h.out s s.toks s.cur
  have e : ({ s with toks := s.toks, cur := s.cur } : BP α) = s := by cases s; rfl
  rw [e] at this
  exact ⟨congrArg (fun p => p.2.cur) this, congrArg (fun p => p.2.toks) this⟩

theorem c07p_timerTail_cur (start stop nameOffset : Nat) (mtoks : List Tok) (body : Body) (s : BP α) :
    (timerTail (α := α) start stop nameOffset mtoks body s).2.cur = s.cur := by
  rw [timerTail_eq]
  show (timerRest2 start stop nameOffset body (checkNoteTimer (timerHead mtoks body s).2).2).2.cur = s.cur
  rw [(c07p_indep_fields (Indep.timerRest2 start stop nameOffset body) _).1, checkNoteTimer_exact]
  show (pushAll _ _).cur = s.cur
  rw [(pushAll_fields _ _).2.1, timerHead_frame]

/-! ### a component parser whose run is known is a piece of the step loop -/

theorem c07p_bp_eta (s s' : BP α) (h1 : s'.toks = s.toks) (h2 : s'.ext = s.ext) (h3 : s'.cs = s.cs)
    (h4 : s'.panic = s.panic) : s' = { s with cur := s'.cur, evs := s'.evs } := by
  cases s; cases s'; simp_all

theorem c07p_piece_of_ingredient (T A B rest : List Tok) (cs : CharSpec) (e : Ext) (hT : T = A ++ (B ++ rest))
    (hw : WF T) (tm : Tok) (r : List Tok) (hB : B = tm :: r) (hk : tm.kind = .at) (spec : List (Ev α) → Prop)
    (hrun : ∀ s : BP α, s.toks = T → s.cs = cs → s.ext = e → s.panic = none → s.cur = A.length →
      ∃ (l : List (Ev α)) (ev : Ev α), (ingredientP s).1 = some ev ∧ Pushed l s (ingredientP s).2 ∧
        (ingredientP s).2.cur = A.length + B.length ∧ spec (l ++ [ev])) :
    PlPieceAt T cs e A ⟨B, spec⟩ := by
  refine ⟨by simp [hB], ?_⟩
  intro s h1 h2 h3 h4 h5
  obtain ⟨l, ev, hr, hpu, hcur, hsp⟩ := hrun s h1 h2 h3 h4 h5
  have hG : G T e s := ⟨h1, h3, h4, by rw [h5, hT]; simp⟩
  have hsat := ingredientP_sat hw hG
  unfold Sat at hsat
  obtain ⟨g', -⟩ := hsat
  have heta := c07p_bp_eta s (ingredientP s).2 (by rw [g'.toks, h1]) (by rw [g'.ext, h3]) hpu.1
    (by rw [g'.panic, h4])
  refine ⟨l ++ [ev], (ingredientP s).2.evs.push ev, ?_, by simp [hpu.2.2], hsp⟩
  have hpk := peekK_split s A (B ++ rest) (by rw [h1, hT]) h5
  unfold stepOne
  simp only [bind, StateT.bind, hpk, hB, List.cons_append, List.head?_cons, Option.map_some, hk, withRecover_run, hr,
    Option.isNone_some, Bool.false_eq_true, if_false, pushEv_run]
  rw [heta, hcur, hB]

theorem c07p_piece_of_cookware (T A B rest : List Tok) (cs : CharSpec) (e : Ext) (hT : T = A ++ (B ++ rest))
    (hw : WF T) (tm : Tok) (r : List Tok) (hB : B = tm :: r) (hk : tm.kind = .hash) (spec : List (Ev α) → Prop)
    (hrun : ∀ s : BP α, s.toks = T → s.cs = cs → s.ext = e → s.panic = none → s.cur = A.length →
      ∃ (l : List (Ev α)) (ev : Ev α), (cookwareP s).1 = some ev ∧ Pushed l s (cookwareP s).2 ∧
        (cookwareP s).2.cur = A.length + B.length ∧ spec (l ++ [ev])) :
    PlPieceAt T cs e A ⟨B, spec⟩ := by
  refine ⟨by simp [hB], ?_⟩
  intro s h1 h2 h3 h4 h5
  obtain ⟨l, ev, hr, hpu, hcur, hsp⟩ := hrun s h1 h2 h3 h4 h5
  have hG : G T e s := ⟨h1, h3, h4, by rw [h5, hT]; simp⟩
  have hsat := cookwareP_sat hw hG
  unfold Sat at hsat
  obtain ⟨g', -⟩ := hsat
  have heta := c07p_bp_eta s (cookwareP s).2 (by rw [g'.toks, h1]) (by rw [g'.ext, h3]) hpu.1
    (by rw [g'.panic, h4])
  refine ⟨l ++ [ev], (cookwareP s).2.evs.push ev, ?_, by simp [hpu.2.2], hsp⟩
  have hpk := peekK_split s A (B ++ rest) (by rw [h1, hT]) h5
  unfold stepOne
  simp only [bind, StateT.bind, hpk, hB, List.cons_append, List.head?_cons, Option.map_some, hk, withRecover_run, hr,
    Option.isNone_some, Bool.false_eq_true, if_false, pushEv_run]
  rw [heta, hcur, hB]

theorem c07p_piece_of_timer (T A B rest : List Tok) (cs : CharSpec) (e : Ext) (hT : T = A ++ (B ++ rest))
    (hw : WF T) (tm : Tok) (r : List Tok) (hB : B = tm :: r) (hk : tm.kind = .tilde) (spec : List (Ev α) → Prop)
    (hrun : ∀ s : BP α, s.toks = T → s.cs = cs → s.ext = e → s.panic = none → s.cur = A.length →
      ∃ (l : List (Ev α)) (ev : Ev α), (timerP s).1 = some ev ∧ Pushed l s (timerP s).2 ∧
        (timerP s).2.cur = A.length + B.length ∧ spec (l ++ [ev])) :
    PlPieceAt T cs e A ⟨B, spec⟩ := by
  refine ⟨by simp [hB], ?_⟩
  intro s h1 h2 h3 h4 h5
  obtain ⟨l, ev, hr, hpu, hcur, hsp⟩ := hrun s h1 h2 h3 h4 h5
  have hG : G T e s := ⟨h1, h3, h4, by rw [h5, hT]; simp⟩
  have hsat := timerP_sat hw hG
  unfold Sat at hsat
  obtain ⟨g', -⟩ := hsat
  have heta := c07p_bp_eta s (timerP s).2 (by rw [g'.toks, h1]) (by rw [g'.ext, h3]) hpu.1
    (by rw [g'.panic, h4])
  refine ⟨l ++ [ev], (timerP s).2.evs.push ev, ?_, by simp [hpu.2.2], hsp⟩
  have hpk := peekK_split s A (B ++ rest) (by rw [h1, hT]) h5
  unfold stepOne
  simp only [bind, StateT.bind, hpk, hB, List.cons_append, List.head?_cons, Option.map_some, hk, withRecover_run, hr,
    Option.isNone_some, Bool.false_eq_true, if_false, pushEv_run]
  rw [heta, hcur, hB]

end Cook
