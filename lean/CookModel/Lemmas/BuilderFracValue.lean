import CookModel.Lemmas.BuilderAudit
/-
  C16 — the VALUE of a per-unit fractions entry (`build_fractions_config`, the loop over `cfg.unit`), as a closed form
  over the list of layers: the entries of all layers are applied in layer order, then iteration order; the LAST entry
  whose key resolves to a unit decides that unit's entry; its settings are completed, field by field, with what the unit
  inherits (quantity table, then the table of its system, then `all`), then with the defaults (`define`).
-/
namespace Cook.Bld
open Cook

variable {α : Type}

/-- the helper without any setting (every field `None`) -/
def FracH.empty : FracH α := { enabled := none, accuracy := none, maxDen := none, maxWhole := none }

theorem bfv_merge_empty (a : FracH α) : a.merge FracH.empty = a := by
  cases a; simp [FracH.merge, FracH.empty]

theorem bfv_empty_merge (a : FracH α) : FracH.empty.merge a = a := by
  cases a; simp [FracH.merge, FracH.empty]

theorem bfv_merge_assoc (a b c : FracH α) : (a.merge b).merge c = a.merge (b.merge c) := by
  simp [FracH.merge, Option.or_assoc]

/-- `system.and_then(|s| match s { Metric => metric, Imperial => imperial })` -/
def sysSel {β : Type} (metric imperial : Option β) : Option Sys → Option β
  | none => none
  | some .metric => metric
  | some .imperial => imperial

/-- what a unit inherits, as one record: field by field the first setting given by the quantity table, the table of the
    unit's system, `all` (in that order) -/
def inheritedH (quantity : PQ → Option (FracH α)) (metric imperial all : Option (FracH α)) (u : Unit α) : FracH α :=
  ((quantity u.quantity).getD FracH.empty).merge
    (((sysSel metric imperial u.system).getD FracH.empty).merge (all.getD FracH.empty))

/-- the settings of an entry `w` of a `unit` table for the unit `u`, before the defaults are filled in -/
def unitEntryH (inh : Unit α → Option (FracH α)) (u : Unit α) (w : FracW α) : FracH α :=
  match inh u with
  | none => w.get
  | some i => w.get.merge i

/-- `reduce(merge)` over the present tables is the merge of all three, absent ones counting as empty -/
theorem bfv_unitEntryH_inheritOf (quantity : PQ → Option (FracH α)) (metric imperial all : Option (FracH α)) (u : Unit α)
    (w : FracW α) :
    unitEntryH (inheritOf quantity metric imperial all) u w = w.get.merge (inheritedH quantity metric imperial all u) := by
  have key : inheritOf quantity metric imperial all u =
      match [quantity u.quantity, sysSel metric imperial u.system, all].filterMap id with
      | [] => none
      | h :: t => some (t.foldl FracH.merge h) := by
    unfold inheritOf
    cases u.system with
    | none => rfl
    | some s => cases s <;> rfl
  unfold unitEntryH inheritedH
  rw [key]
  cases quantity u.quantity <;> cases sysSel metric imperial u.system <;> cases all <;>
    simp [List.filterMap, bfv_merge_empty, bfv_empty_merge, bfv_merge_assoc]

/-! ## the unit loop as one loop over all entries -/

theorem bfv_unitLayer_append [Arith α] (c : Core α) (inh : Unit α → Option (FracH α)) (l1 l2 : List (Key × FracW α))
    (m : List (Nat × FracCfg α)) :
    unitLayer c inh (l1 ++ l2) m = match unitLayer c inh l1 m with
      | .error e => .error e
      | .ok m1 => unitLayer c inh l2 m1 := by
  induction l1 generalizing m with
  | nil => rfl
  | cons kw rest ih =>
    simp only [List.cons_append, unitLayer]
    split
    · rfl
    · split
      · rfl
      · exact ih _

/-- the loops over the layers are one loop over the concatenation of the layers' `unit` tables -/
theorem bfv_unitLayers_flat [Arith α] (c : Core α) (inh : Unit α → Option (FracH α)) (fs : List (FractionsDecl α))
    (m : List (Nat × FracCfg α)) : unitLayers c inh fs m = unitLayer c inh (fs.flatMap (·.unit)) m := by
  induction fs generalizing m with
  | nil => rfl
  | cons f fs ih =>
    rw [List.flatMap_cons, bfv_unitLayer_append]
    unfold unitLayers
    cases unitLayer c inh f.unit m with
    | error e => rfl
    | ok m1 => exact ih m1

/-- the last entry of `l` (in iteration order) whose key resolves to `id` -/
def lastEntryFor {β : Type} (idx : Index) (l : List (Key × β)) (id : Nat) : Option (Key × β) :=
  l.reverse.find? (fun kw => idxGet idx kw.1 == some id)

theorem bfv_lastEntryFor_cons {β : Type} (idx : Index) (kw : Key × β) (l : List (Key × β)) (id : Nat) :
    lastEntryFor idx (kw :: l) id =
      (lastEntryFor idx l id).or (if idxGet idx kw.1 = some id then some kw else none) := by
  unfold lastEntryFor
  rw [List.reverse_cons, List.find?_append]
  congr 1
  by_cases h : idxGet idx kw.1 = some id <;> simp [h]

/-- the value of every entry after one pass over `l`: the last entry addressing `id` decides, else the old value -/
theorem bfv_unitLayer_value [Arith α] (c : Core α) (inh : Unit α → Option (FracH α)) (l : List (Key × FracW α))
    (m m' : List (Nat × FracCfg α)) (h : unitLayer c inh l m = .ok m') (id : Nat) :
    mapGet m' id = match lastEntryFor c.index l id with
      | some kw => (c.units[id]?).map (fun u => (unitEntryH inh u.unit kw.2).define)
      | none => mapGet m id := by
  induction l generalizing m with
  | nil => simp only [unitLayer] at h; cases h; rfl
  | cons kw rest ih =>
    unfold unitLayer at h
    split at h
    · cases h
    · rename_i id0 hid0
      split at h
      · cases h
      · rename_i u0 hu0
        rw [ih _ h, bfv_lastEntryFor_cons]
        cases hl : lastEntryFor c.index rest id with
        | some kw' => rfl
        | none =>
          simp only [Option.none_or, mapGet_mapInsert, hid0, Option.some.injEq]
          by_cases hid : id = id0
          · subst hid
            simp only [↓reduceIte, hu0, Option.map_some, Option.some.injEq]
            rfl
          · have : ¬ id0 = id := fun e => hid e.symm
            simp [hid, this]

/-- `build_fractions_config`: the per-unit table -/
theorem bfv_buildFractions_unit [Arith α] (c : Core α) (layers : List (FractionsDecl α)) (fr : Fractions α)
    (h : buildFractions c layers = .ok fr) (id : Nat) :
    mapGet fr.unit id = (c.units[id]?).bind (fun u =>
      (lastEntryFor c.index (layers.flatMap (·.unit)) id).map (fun kw =>
        (kw.2.get.merge (inheritedH (quantityLayers layers (fun _ => none)) (lastLayer (·.metric) layers none)
          (lastLayer (·.imperial) layers none) (lastLayer (·.all) layers none) u.unit)).define)) := by
  unfold buildFractions at h
  simp only at h
  split at h
  · cases h
  · rename_i unit hunit
    cases h
    rw [bfv_unitLayers_flat] at hunit
    rw [bfv_unitLayer_value c _ _ [] unit hunit id]
    cases lastEntryFor c.index (layers.flatMap (·.unit)) id with
    | none => cases c.units[id]? <;> rfl
    | some kw =>
      cases c.units[id]? with
      | none => rfl
      | some u => simp only [Option.map_some, Option.bind_some, bfv_unitEntryH_inheritOf]

/-- in a consistent state "the key resolves to `id`" is "the key is one of the unit's keys" -/
theorem bfv_lastEntryFor_keys {β : Type} {c : Core α} (hinv : Inv c) (l : List (Key × β)) (id : Nat) (u : UnitB α)
    (hu : c.units[id]? = some u) :
    lastEntryFor c.index l id = l.reverse.find? (fun kw => decide (kw.1 ∈ u.unit.keys)) := by
  unfold lastEntryFor
  congr 1
  funext kw
  by_cases hk : kw.1 ∈ u.unit.keys
  · simp [hk, hinv.complete id u (by simp) hu kw.1 hk]
  · simp only [hk, decide_false, beq_eq_false_iff_ne, ne_eq]
    intro e
    obtain ⟨_, u', hu', hk'⟩ := hinv.sound _ _ e
    rw [hu] at hu'; cases hu'
    exact hk hk'

end Cook.Bld
