import CookModel.Lemmas.Collector
/-
  C07 placement, from the events to the report (`c07p_` prefix): every parse-stage error EVENT of the event
  stream is in the report of `parse_events`, wherever it stands in the stream, and there is no output.
-/
set_option linter.unusedSectionVars false
set_option linter.unusedSimpArgs false
set_option linter.unusedVariables false
namespace Cook

variable {α : Type} [Arith α]

theorem c07p_error_event_reported (env : Env) (input : Str) (evs : List (Ev α)) (s : Col α) (d : Diag)
    (h : Ev.error d ∈ evs) (hst : d.stage = .parse) :
    d ∈ (parseEventsLoop env input evs s).diags.toList ∧ (parseEventsLoop env input evs s).output = none := by
  refine ⟨?_, (parseEventsLoop_error_suppresses env input evs s ⟨d, h⟩).1⟩
  induction evs generalizing s with
  | nil => cases h
  | cons ev rest ih =>
    by_cases he : ∃ d0, ev = .error d0
    · obtain ⟨d0, rfl⟩ := he
      simp only [parseEventsLoop, Array.toList_filter, List.mem_filter, beq_iff_eq, Array.toList_append,
        Array.toList_push, List.mem_append, List.mem_singleton]
      refine ⟨?_, hst⟩
      simp only [List.mem_cons] at h
      rcases h with h | h
      · left; right
        cases h; rfl
      · right
        simp only [List.mem_filterMap]
        exact ⟨.error d, h, rfl⟩
    · rw [parseEventsLoop_cons_nonerror env input ev rest s he]
      apply ih
      simp only [List.mem_cons] at h
      rcases h with h | h
      · exact absurd ⟨d, h.symm⟩ he
      · exact h

end Cook
