import CookModel.Lemmas.ParserBlocks
/-
  Source locations (C04): byte positions that are character boundaries of the text, spans made of
  two such positions, and the basic facts: every position the block parser can compute from a run
  of adjacent tokens (token starts/ends, `current_offset`, `tokens_span`) is a boundary, and the
  texts `BlockParser::text` assembles have spans that are boundaries and fragments that are the
  slices of the source at their spans.
-/
set_option linter.unusedSectionVars false
set_option linter.unusedSimpArgs false
set_option linter.unusedVariables false
namespace Cook

/-- `p` is a byte position that is a character boundary of the text `w` laid out from offset `off` -/
def Boundary (off : Nat) (w : List Char) (p : Nat) : Prop :=
  ∃ pre suf, w = pre ++ suf ∧ p = off + utf8Len pre

/-- both ends are character boundaries inside the text, and `start ≤ end` -/
def SpanOK (off : Nat) (w : List Char) (s : Span) : Prop :=
  Boundary off w s.start ∧ Boundary off w s.stop ∧ s.start ≤ s.stop

/-- the token run `l`, laid out from byte `o`, is a piece of the text `w` laid out from `off` -/
def Emb (off : Nat) (w : List Char) (o : Nat) (l : List Tok) : Prop :=
  ∃ a c, w = a ++ l.flatMap (·.text) ++ c ∧ o = off + utf8Len a

variable {off : Nat} {w : List Char}

theorem Boundary.ge {p : Nat} (h : Boundary off w p) : off ≤ p := by
  obtain ⟨_, _, _, h2⟩ := h; omega

theorem Boundary.le_end {p : Nat} (h : Boundary off w p) : p ≤ off + utf8Len w := by
  obtain ⟨pre, suf, h1, h2⟩ := h
  rw [h1, utf8Len_append]; omega

theorem Boundary.first : Boundary off w off := ⟨[], w, rfl, by simp [utf8Len]⟩

theorem Boundary.last : Boundary off w (off + utf8Len w) := ⟨w, [], by simp, rfl⟩

theorem SpanOK.pos {p : Nat} (h : Boundary off w p) : SpanOK off w (Span.pos p) :=
  ⟨h, h, Nat.le_refl _⟩

theorem SpanOK.mk' {a b : Nat} (ha : Boundary off w a) (hb : Boundary off w b) (hle : a ≤ b) :
    SpanOK off w ⟨a, b⟩ := ⟨ha, hb, hle⟩

theorem SliceAt.start_boundary {p : Nat} {t : List Char} (h : SliceAt off w p t) : Boundary off w p := by
  obtain ⟨pre, suf, h1, h2⟩ := h
  exact ⟨pre, t ++ suf, by rw [h1]; simp, h2⟩

theorem SliceAt.stop_boundary {p : Nat} {t : List Char} (h : SliceAt off w p t) :
    Boundary off w (p + utf8Len t) := by
  obtain ⟨pre, suf, h1, h2⟩ := h
  exact ⟨pre ++ t, suf, h1, by rw [utf8Len_append, h2]; omega⟩

theorem SliceAt.spanOK {p : Nat} {t : List Char} (h : SliceAt off w p t) :
    SpanOK off w ⟨p, p + utf8Len t⟩ := ⟨h.start_boundary, h.stop_boundary, Nat.le_add_right _ _⟩

/-! ### positions of a chain of tokens -/

theorem lastStop_nil (o : Nat) : lastStop o [] = o := rfl

theorem lastStop_append (o : Nat) (a b : List Tok) : lastStop o (a ++ b) = lastStop (lastStop o a) b := by
  induction a generalizing o with
  | nil => rfl
  | cons t a ih => rw [List.cons_append, lastStop_cons, lastStop_cons, ih]

theorem chain_lastStop {o : Nat} {l : List Tok} (h : Chain o l) :
    lastStop o l = o + utf8Len (l.flatMap (·.text)) := by
  induction l generalizing o with
  | nil => simp [lastStop, utf8Len]
  | cons t l ih =>
    rw [lastStop_cons, ih h.2]
    simp only [List.flatMap_cons, utf8Len_append, Tok.stop, h.1]
    omega

theorem chain_le {o : Nat} {l : List Tok} (h : Chain o l) : o ≤ lastStop o l := by
  rw [chain_lastStop h]; omega

theorem getLast_getD_stop (l : List Tok) (d : Tok) : (l.getLast?.getD d).stop = lastStop d.stop l := by
  unfold lastStop
  cases l.getLast? <;> rfl

theorem tokensSpan_chain {o : Nat} {l : List Tok} (h : Chain o l) (hne : l ≠ []) :
    tokensSpan l = ⟨o, lastStop o l⟩ := by
  cases l with
  | nil => exact absurd rfl hne
  | cons t r =>
    unfold tokensSpan lastStop
    cases hl : (t :: r).getLast? with
    | none => simp at hl
    | some x => simp [h.1]

theorem Emb.lift {o : Nat} {l : List Tok} {p : Nat} (he : Emb off w o l)
    (hb : Boundary o (l.flatMap (·.text)) p) : Boundary off w p := by
  obtain ⟨a, c, h1, h2⟩ := he
  obtain ⟨pre, suf, h3, h4⟩ := hb
  refine ⟨a ++ pre, suf ++ c, ?_, ?_⟩
  · rw [h1, h3]; simp
  · rw [h4, h2, utf8Len_append]; omega

theorem Emb.liftSlice {o : Nat} {l : List Tok} {p : Nat} {t : List Char} (he : Emb off w o l)
    (hb : SliceAt o (l.flatMap (·.text)) p t) : SliceAt off w p t := by
  obtain ⟨a, c, h1, h2⟩ := he
  obtain ⟨pre, suf, h3, h4⟩ := hb
  refine ⟨a ++ pre, suf ++ c, ?_, ?_⟩
  · rw [h1, h3]; simp
  · rw [h4, h2, utf8Len_append]; omega

theorem Emb.liftSpan {o : Nat} {l : List Tok} {s : Span} (he : Emb off w o l)
    (hb : SpanOK o (l.flatMap (·.text)) s) : SpanOK off w s :=
  ⟨he.lift hb.1, he.lift hb.2.1, hb.2.2⟩

theorem Emb.self (o : Nat) (l : List Tok) : Emb o (l.flatMap (·.text)) o l :=
  ⟨[], [], by simp, by simp [utf8Len]⟩

theorem Emb.start {o : Nat} {l : List Tok} (he : Emb off w o l) : Boundary off w o :=
  he.lift Boundary.first

theorem Emb.stop {o : Nat} {l : List Tok} (hc : Chain o l) (he : Emb off w o l) :
    Boundary off w (lastStop o l) := by
  rw [chain_lastStop hc]; exact he.lift Boundary.last

theorem Emb.left {o : Nat} {a b : List Tok} (he : Emb off w o (a ++ b)) : Emb off w o a := by
  obtain ⟨x, c, h1, h2⟩ := he
  exact ⟨x, b.flatMap (·.text) ++ c, by rw [h1]; simp, h2⟩

theorem Emb.right {o : Nat} {a b : List Tok} (hc : Chain o a) (he : Emb off w o (a ++ b)) :
    Emb off w (lastStop o a) b := by
  obtain ⟨x, c, h1, h2⟩ := he
  refine ⟨x ++ a.flatMap (·.text), c, by rw [h1]; simp, ?_⟩
  rw [chain_lastStop hc, utf8Len_append, h2]; omega

theorem Emb.nil {o : Nat} (h : Boundary off w o) : Emb off w o [] := by
  obtain ⟨pre, suf, h1, h2⟩ := h
  exact ⟨pre, suf, by simpa using h1, h2⟩

/-- the span from the start to the end of an embedded chain -/
theorem Emb.spanOK {o : Nat} {l : List Tok} (hc : Chain o l) (he : Emb off w o l) :
    SpanOK off w ⟨o, lastStop o l⟩ := ⟨he.start, he.stop hc, chain_le hc⟩

theorem Emb.tokensSpan {o : Nat} {l : List Tok} (hc : Chain o l) (he : Emb off w o l) (hne : l ≠ []) :
    SpanOK off w (tokensSpan l) := by
  rw [tokensSpan_chain hc hne]; exact he.spanOK hc

/-- a run of adjacent tokens that is a piece of the text `w` -/
structure RunIn (off : Nat) (w : List Char) (o : Nat) (l : List Tok) : Prop where
  run : RunAt o l
  emb : Emb off w o l

theorem RunIn.append {o : Nat} {a b : List Tok} (h : RunIn off w o (a ++ b)) :
    RunIn off w o a ∧ RunIn off w (lastStop o a) b := by
  have hr := (runAt_append o a b).mp h.run
  exact ⟨⟨hr.1, h.emb.left⟩, ⟨hr.2, h.emb.right hr.1.1⟩⟩

theorem RunIn.nil {o : Nat} (h : Boundary off w o) : RunIn off w o [] := ⟨runAt_nil o, Emb.nil h⟩

theorem RunIn.start {o : Nat} {l : List Tok} (h : RunIn off w o l) : Boundary off w o := h.emb.start
theorem RunIn.stop {o : Nat} {l : List Tok} (h : RunIn off w o l) : Boundary off w (lastStop o l) :=
  h.emb.stop h.run.1
theorem RunIn.le {o : Nat} {l : List Tok} (h : RunIn off w o l) : o ≤ lastStop o l := chain_le h.run.1
theorem RunIn.spanOK {o : Nat} {l : List Tok} (h : RunIn off w o l) : SpanOK off w ⟨o, lastStop o l⟩ :=
  h.emb.spanOK h.run.1
theorem RunIn.tokensSpan {o : Nat} {l : List Tok} (h : RunIn off w o l) (hne : l ≠ []) :
    SpanOK off w (tokensSpan l) := h.emb.tokensSpan h.run.1 hne

theorem RunIn.cons {o : Nat} {t : Tok} {l : List Tok} (h : RunIn off w o (t :: l)) :
    t.start = o ∧ Boundary off w t.start ∧ Boundary off w t.stop ∧ RunIn off w t.stop l := by
  have h' : RunIn off w o ([t] ++ l) := h
  obtain ⟨h1, h2⟩ := h'.append
  have e : t.start = o := h.run.1.1
  have e2 : lastStop o [t] = t.stop := by simp [lastStop]
  rw [e2] at h2
  refine ⟨e, ?_, ?_, h2⟩
  · rw [e]; exact h.start
  · exact h2.start

theorem RunIn.headStart {o : Nat} {l : List Tok} (h : RunIn off w o l) :
    RunIn off w ((l.head?.map (·.start)).getD o) l := by
  cases l with
  | nil => exact h
  | cons t r => simp only [List.head?_cons, Option.map_some, Option.getD_some]; rw [h.cons.1]; exact h

/-- split at a token: what is before it, the token, what is after it -/
theorem RunIn.split {o : Nat} {l : List Tok} {i : Nat} {t : Tok} (h : RunIn off w o l)
    (ht : l[i]? = some t) :
    RunIn off w o (l.take i) ∧ t.start = lastStop o (l.take i) ∧ Boundary off w t.start ∧
      Boundary off w t.stop ∧ RunIn off w t.stop (l.drop (i + 1)) := by
  have hi : i < l.length := getElem?_lt ht
  have e1 : l = l.take i ++ (t :: l.drop (i + 1)) := by
    have h1 : l.drop i = t :: l.drop (i + 1) := by
      rw [List.drop_eq_getElem_cons hi]
      rw [List.getElem?_eq_getElem hi] at ht
      simp only [Option.some.injEq] at ht
      rw [ht]
    rw [← h1, List.take_append_drop]
  have h' := h
  rw [e1] at h'
  obtain ⟨h1, h2⟩ := h'.append
  obtain ⟨c1, c2, c3, c4⟩ := h2.cons
  exact ⟨h1, c1, c2, c3, c4⟩

theorem RunIn.tok {o : Nat} {l : List Tok} {t : Tok} (h : RunIn off w o l) (ht : t ∈ l) :
    SpanOK off w ⟨t.start, t.stop⟩ := by
  obtain ⟨i, hi, rfl⟩ := List.mem_iff_getElem.mp ht
  obtain ⟨-, -, c2, c3, -⟩ := h.split (List.getElem?_eq_getElem hi)
  exact ⟨c2, c3, by simp [Tok.stop]⟩

theorem RunIn.prefix {o : Nat} {l : List Tok} (h : RunIn off w o l) (n : Nat) : RunIn off w o (l.take n) := by
  have h' := h
  rw [← List.take_append_drop n l] at h'
  exact h'.append.1

theorem RunIn.suffix {o : Nat} {l : List Tok} (h : RunIn off w o l) (n : Nat) :
    RunIn off w (lastStop o (l.take n)) (l.drop n) := by
  have h' := h
  rw [← List.take_append_drop n l] at h'
  exact h'.append.2

theorem RunIn.slice {o : Nat} {l : List Tok} (h : RunIn off w o l) {i j : Nat} (hij : i ≤ j) :
    RunIn off w (lastStop o (l.take i)) (slice l i j) := by
  have hs := slice_split l hij
  have h' := h
  rw [hs] at h'
  exact h'.append.2.append.1

/-- the same for a chain only (no assumption on escaped tokens) -/
theorem Emb.slice {o : Nat} {l : List Tok} (hc : Chain o l) (he : Emb off w o l) {i j : Nat} (hij : i ≤ j) :
    Chain (lastStop o (l.take i)) (slice l i j) ∧ Emb off w (lastStop o (l.take i)) (slice l i j) := by
  have hs := slice_split l hij
  have hc' := hc
  have he' := he
  rw [hs] at hc' he'
  have c1 := (chain_append _ _ _).mp hc'
  have c2 := (chain_append _ _ _).mp c1.2
  have e1 := (he'.right c1.1).left
  exact ⟨c2.1, e1⟩

/-- adjacent tokens are ordered: each one ends where or before a later one starts -/
theorem chain_pairwise {o : Nat} {l : List Tok} (h : Chain o l) :
    l.Pairwise (fun a b => a.stop ≤ b.start) ∧ ∀ t ∈ l, o ≤ t.start := by
  induction l generalizing o with
  | nil => simp
  | cons t l ih =>
    obtain ⟨ih1, ih2⟩ := ih h.2
    refine ⟨List.pairwise_cons.mpr ⟨fun b hb => ih2 b hb, ih1⟩, ?_⟩
    intro x hx
    simp only [List.mem_cons] at hx
    rcases hx with rfl | hx
    · exact Nat.le_of_eq h.1.symm
    · have := ih2 x hx
      have : t.start ≤ t.stop := by simp [Tok.stop]
      have := h.1
      omega

/-! ### cursor positions of a block -/

theorem offAt_zero (ts : List Tok) : offAt ts 0 = baseOff ts := by simp [offAt, lastStop]

theorem offAt_slice {ts : List Tok} {i j : Nat} (hij : i ≤ j) :
    lastStop (offAt ts i) (slice ts i j) = offAt ts j := by
  have h1 : ts.take j = ts.take i ++ slice ts i j := by
    unfold slice
    have : ts.take i = (ts.take j).take i := by rw [List.take_take]; congr 1; omega
    rw [this, List.take_append_drop]
  unfold offAt
  rw [h1, lastStop_append]

/-- a block: a non-empty run of adjacent tokens that is a piece of the text `w` -/
structure WFI (off : Nat) (w : List Char) (ts : List Tok) : Prop where
  ne : ts ≠ []
  runIn : RunIn off w (baseOff ts) ts

theorem WFI.wf {ts : List Tok} (h : WFI off w ts) : WF ts := ⟨h.ne, h.runIn.run⟩

/-- every slice of a block is a run inside the text, starting at the `current_offset` of its left end -/
theorem WFI.slice {ts : List Tok} (h : WFI off w ts) {i j : Nat} (hij : i ≤ j) :
    RunIn off w (offAt ts i) (slice ts i j) := by
  have hs := slice_split ts hij
  have h' := h.runIn
  rw [hs] at h'
  have := h'.append.2.append.1
  rw [← hs] at this
  exact this

/-- `current_offset` is a character boundary at every cursor position -/
theorem WFI.offAt {ts : List Tok} (h : WFI off w ts) (i : Nat) : Boundary off w (offAt ts i) :=
  (h.slice (Nat.le_refl i)).start

theorem WFI.offAt_mono {ts : List Tok} (h : WFI off w ts) {i j : Nat} (hij : i ≤ j) :
    Cook.offAt ts i ≤ Cook.offAt ts j := by
  rw [← offAt_slice hij]; exact (h.slice hij).le

theorem WFI.span {ts : List Tok} (h : WFI off w ts) {i j : Nat} (hij : i ≤ j) :
    SpanOK off w ⟨Cook.offAt ts i, Cook.offAt ts j⟩ := ⟨h.offAt i, h.offAt j, h.offAt_mono hij⟩

theorem WFI.tokAt {ts : List Tok} (h : WFI off w ts) {i : Nat} {t : Tok} (ht : ts[i]? = some t) :
    t.start = Cook.offAt ts i ∧ t.stop = Cook.offAt ts (i + 1) := by
  refine ⟨?_, (offAt_succ ht).symm⟩
  have := (h.runIn.split ht).2.1
  rw [this]; rfl

/-- the span from the start of token `i` to the end of token `j ≥ i` -/
theorem WFI.span_toks {ts : List Tok} (h : WFI off w ts) {i j : Nat} {a b : Tok}
    (ha : ts[i]? = some a) (hb : ts[j]? = some b) (hij : i ≤ j) : SpanOK off w ⟨a.start, b.stop⟩ := by
  rw [(h.tokAt ha).1, (h.tokAt hb).2]; exact h.span (by omega)

theorem WFI.tok {ts : List Tok} (h : WFI off w ts) {i : Nat} {t : Tok} (ht : ts[i]? = some t) :
    SpanOK off w ⟨t.start, t.stop⟩ := h.span_toks ht ht (Nat.le_refl _)

theorem WFI.all {ts : List Tok} (h : WFI off w ts) : SpanOK off w (tokensSpan ts) :=
  h.runIn.tokensSpan h.ne

/-- a non-empty run inside the text is a block (`parse_quantity` runs a sub-parser on one) -/
theorem RunIn.wfi {o : Nat} {l : List Tok} (h : RunIn off w o l) (hne : l ≠ []) : WFI off w l := by
  refine ⟨hne, ?_⟩
  have := h.headStart
  cases l with
  | nil => exact absurd rfl hne
  | cons t r => exact this

/-! ### texts -/

/-- a text whose span is made of boundaries and whose fragments are the slices of the source at
    their offsets -/
def TextOK (off : Nat) (w : List Char) (t : Text) : Prop :=
  SpanOK off w t.span ∧ ∀ f ∈ t.frags, SliceAt off w f.offset f.text

theorem TextOK.frag_span {t : Text} (h : TextOK off w t) : ∀ f ∈ t.frags, SpanOK off w ⟨f.offset, f.stop⟩ :=
  fun f hf => (h.2 f hf).spanOK

theorem appendFrag_emptyOff (t : Text) (f : Frag) : (t.appendFrag f).emptyOff = t.emptyOff := by
  unfold Text.appendFrag
  split <;> split <;> rfl

theorem textStep_emptyOff (a : TextAcc) (tok : Tok) : (textStep a tok).t.emptyOff = a.t.emptyOff := by
  unfold textStep
  split <;> simp [Text.appendStr, appendFrag_emptyOff]

theorem foldl_textStep_emptyOff (l : List Tok) (a : TextAcc) :
    (l.foldl textStep a).t.emptyOff = a.t.emptyOff := by
  induction l generalizing a with
  | nil => rfl
  | cons t l ih => rw [List.foldl_cons, ih, textStep_emptyOff]

theorem buildText_emptyOff (o : Nat) (l : List Tok) : (buildText o l).emptyOff = o := by
  unfold buildText
  cases l with
  | nil => rfl
  | cons t0 r =>
    simp only
    split <;> simp only [Text.appendStr, appendFrag_emptyOff, foldl_textStep_emptyOff] <;> rfl

/-- the span of a text under construction: from the first fragment's offset to the last one's end -/
theorem FI.spanOK {o : Nat} {P : List Char} {hi : Nat} {t : Text} (h : FI o P hi t)
    (hb : Boundary o P t.emptyOff) : SpanOK o P t.span := by
  unfold Text.span
  split
  · exact SpanOK.pos hb
  · rename_i f fs heq
    have hf : f ∈ t.frags := by rw [heq]; simp
    have hfs := (h.frags f hf).2.1
    cases fs with
    | nil =>
      simp only [heq, List.getLast?_singleton, Option.getD_some]
      exact hfs.spanOK
    | cons g gs =>
      have hl : (t.frags.getLast?.getD f) ∈ g :: gs := by
        rw [heq, List.getLast?_cons_cons]
        cases hl : (g :: gs).getLast? with
        | none => simp at hl
        | some l => simpa using List.mem_of_getLast? hl
      have hlm : (t.frags.getLast?.getD f) ∈ t.frags := by
        rw [heq] at hl ⊢; exact List.mem_cons_of_mem _ hl
      have hls := (h.frags _ hlm).2.1
      have hord := h.ordered
      rw [heq, List.pairwise_cons] at hord
      have h1 := hord.1 _ hl
      refine ⟨hfs.start_boundary, hls.stop_boundary, ?_⟩
      have : f.offset ≤ f.stop := by simp [Frag.stop]
      show f.offset ≤ (t.frags.getLast?.getD f).offset + utf8Len (t.frags.getLast?.getD f).text
      omega

theorem FI.span_start_ge {o : Nat} {P : List Char} {hi : Nat} {t : Text} (h : FI o P hi t)
    (hb : o ≤ t.emptyOff) : o ≤ t.span.start := by
  unfold Text.span
  split
  · exact hb
  · rename_i f fs heq
    have hf : f ∈ t.frags := by rw [heq]; simp
    exact (h.frags f hf).2.1.start_boundary.ge

/-- **the text assembled from a run of adjacent tokens of the source**: its span and the spans of its
    fragments are made of character boundaries of the source, each fragment is the source slice at
    its offset -/
theorem RunIn.text {o : Nat} {l : List Tok} (h : RunIn off w o l) : TextOK off w (buildText o l) := by
  have hfi := buildText_FI o l h.run.1 h.run.2
  constructor
  · apply h.emb.liftSpan
    apply hfi.spanOK
    rw [buildText_emptyOff]; exact Boundary.first
  · intro f hf
    exact h.emb.liftSlice (hfi.frags f hf).2.1

/-- the span of the text lies between the start and the end of the run -/
theorem RunIn.text_range {o : Nat} {l : List Tok} (h : RunIn off w o l) :
    o ≤ (buildText o l).span.start ∧ (buildText o l).span.stop ≤ lastStop o l := by
  have hfi := buildText_FI o l h.run.1 h.run.2
  refine ⟨hfi.span_start_ge (by rw [buildText_emptyOff]; exact Nat.le_refl _), ?_⟩
  rw [chain_lastStop h.run.1]; exact hfi.span_stop_le

end Cook
