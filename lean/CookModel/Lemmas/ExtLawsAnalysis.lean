import CookModel.Lemmas.CollectorFrame
/-
  C02, the gates of the analysis pass (`RecipeCollector`): MODES in `metadata`, INLINE_QUANTITIES
  in step texts, ADVANCED_UNITS in the unit checks of ingredient references and timers.
-/
set_option linter.unusedSectionVars false
set_option linter.unusedSimpArgs false
set_option linter.unusedVariables false
namespace Cook

variable {α : Type} [Arith α]

/-- the same analysis environment under another extension set -/
def Env.withExt (env : Env) (e : Ext) : Env := { env with ext := e }

/-! ### INLINE_QUANTITIES -/

/-- a text without an ASCII digit contains no inline quantity -/
theorem findInlineQuantity_no_digit (env : Env) (fuel : Nat) (pre rest : Str)
    (h : rest.any isAsciiDigitC = false) : findInlineQuantity (α := α) env fuel pre rest = none := by
  have hd : rest.dropWhile (fun c => !isAsciiDigitC c) = [] := by
    induction rest with
    | nil => rfl
    | cons c r ih =>
      simp only [List.any_cons, Bool.or_eq_false_iff] at h
      rw [List.dropWhile_cons]
      simp only [h.1, Bool.not_false, if_true]
      exact ih h.2
  cases fuel with
  | zero => rfl
  | succ fuel =>
    unfold findInlineQuantity
    simp only [hd]

/-- … so the splitting loop leaves it as one text item -/
theorem inlineLoop_no_digit (env : Env) (fuel : Nat) (hay : Str) (items : List Item)
    (iq : Array (Quantity (Value α))) (h : hay.any isAsciiDigitC = false) (hne : hay ≠ []) :
    inlineLoop env (fuel + 1) hay items iq = (items ++ [.text hay], iq) := by
  unfold inlineLoop
  rw [findInlineQuantity_no_digit env _ _ _ h]
  have : hay.isEmpty = false := by cases hay <;> simp_all
  simp only [this, Bool.false_eq_true, if_false]

/-- the text is not empty and has no ASCII digit -/
def textCore (t : Text) : Bool := !t.text.isEmpty && !(t.text.any isAsciiDigitC)

theorem inStepTextStep_ext (env : Env) (e : Ext) (t : Text) (items : List Item) (h : textCore t = true) :
    inStepTextStep (α := α) (env.withExt e) t items = inStepTextStep env t items := by
  unfold textCore at h
  simp only [Bool.and_eq_true, Bool.not_eq_true', List.isEmpty_eq_false_iff] at h
  have key : ∀ env' : Env, env'.cs = env.cs → ∀ s : Col α, inStepTextStep (α := α) env' t items s =
      (if s.defineMode == .components then
        (if t.text.any env.cs.alnum then awarn "text-in-components-mode" [t.span] else pure ()) s
       else ((), { s with block := some (BlockBuf.step (items ++ [Item.text t.text])) })) := by
    intro env' hcs s
    unfold inStepTextStep
    rw [A_bind, A_get]
    dsimp only
    by_cases hd : (s.defineMode == DefineMode.components) = true
    · simp only [hd, if_true, hcs]
    · simp only [hd, Bool.false_eq_true, if_false]
      by_cases hx : env'.ext.has Gen.EXT_INLINE_QUANTITIES = true
      · simp only [hx, if_true, inlineLoop_no_digit env' _ _ _ _ h.2 h.1]
        rfl
      · simp only [hx, Bool.false_eq_true, if_false]
        rfl
  funext s
  exact (key (env.withExt e) rfl s).trans (key env rfl s).symm

/-- with INLINE_QUANTITIES off a step text becomes exactly one text item (outside components mode) -/
theorem inStepTextStep_inline_off (env : Env) (t : Text) (items : List Item) (s : Col α)
    (h : env.ext.has Gen.EXT_INLINE_QUANTITIES = false) (hd : s.defineMode ≠ .components) :
    inStepTextStep env t items s =
      ((), { s with block := some (BlockBuf.step (items ++ [Item.text t.text])) }) := by
  unfold inStepTextStep
  rw [A_bind, A_get]
  dsimp only
  have hd' : (s.defineMode == DefineMode.components) = false := by simpa using hd
  simp only [hd', h, Bool.false_eq_true, if_false]
  rfl

/-! ### MODES -/

/-- the trimmed key is `[…]` -/
def bracketedKey (cs : CharSpec) (key : Text) : Bool :=
  (key.trimmed cs).head? == some '[' && (key.trimmed cs).getLast? == some ']'

/-- what `metadata` does with an entry that is not a config key -/
def metadataPlain (env : Env) (key value : Text) : A α Unit := do
  let keyT := key.trimmed env.cs
  let valueT := value.outerTrimmed env.cs
  modify fun s => { s with oldStyleUsed := s.oldStyleUsed ++ [⟨key.span.start, value.span.stop⟩],
                           metaMap := metaInsert s.metaMap keyT valueT }
  match StdKey.ofStr (String.ofList keyT) with
  | none => pure ()
  | some sk =>
    match env.stdCheck sk valueT with
    | .rejected =>
      awarn "std-unsupported-value" [value.span, key.span]
      return
    | .servings sv => modify fun s => { s with servings := some sv }
    | .ok => pure ()
    modify fun s => { s with metaLocs :=
      (s.metaLocs.filter (fun p => p.1 != sk)) ++ [(sk, ⟨key.span.start, value.span.stop⟩)] }
    if stdKeyIsTime sk then timeOverrideCheck sk

theorem metadataA_plain (env : Env) (key value : Text)
    (h : (env.ext.has Gen.EXT_MODES && bracketedKey env.cs key) = false) :
    metadataA (α := α) env key value = metadataPlain env key value := by
  unfold metadataA metadataPlain bracketedKey at *
  funext s
  rw [A_bind, A_get]
  dsimp only
  rw [← Bool.and_assoc] at h
  simp only [h, Bool.false_and, Bool.false_eq_true, if_false]
  rfl

theorem metadataA_ext (env : Env) (e : Ext) (key value : Text) (h : bracketedKey env.cs key = false) :
    metadataA (α := α) (env.withExt e) key value = metadataA env key value := by
  rw [metadataA_plain, metadataA_plain]
  · rfl
  · rw [h, Bool.and_false]
  · show (e.has Gen.EXT_MODES && bracketedKey env.cs key) = false
    rw [h, Bool.and_false]

end Cook
