import CookModel.Lemmas.CollectorFrame
/-
  C02, the gates of the analysis pass (`RecipeCollector`): MODES in `metadata`, INLINE_QUANTITIES
  in step texts, ADVANCED_UNITS in the unit checks of ingredient references and timers.
-/
set_option linter.unusedSectionVars false
set_option linter.unusedSimpArgs false
set_option linter.unusedVariables false
namespace Cook

variable {α : Type} [Arith α]

/-- the same analysis environment under another extension set -/
def Env.withExt (env : Env) (e : Ext) : Env := { env with ext := e }

/-! ### INLINE_QUANTITIES -/

/-- a text without an ASCII digit contains no inline quantity -/
theorem findInlineQuantity_no_digit (env : Env) (fuel : Nat) (pre rest : Str)
    (h : rest.any isAsciiDigitC = false) : findInlineQuantity (α := α) env fuel pre rest = none := by
  have hd : rest.dropWhile (fun c => !isAsciiDigitC c) = [] := by
    induction rest with
    | nil => rfl
    | cons c r ih =>
      simp only [List.any_cons, Bool.or_eq_false_iff] at h
      rw [List.dropWhile_cons]
      simp only [h.1, Bool.not_false, if_true]
      exact ih h.2
  cases fuel with
  | zero => rfl
  | succ fuel =>
    unfold findInlineQuantity
    simp only [hd]

/-- … so the splitting loop leaves it as one text item -/
theorem inlineLoop_no_digit (env : Env) (fuel : Nat) (hay : Str) (items : List Item)
    (iq : Array (Quantity (Value α))) (h : hay.any isAsciiDigitC = false) (hne : hay ≠ []) :
    inlineLoop env (fuel + 1) hay items iq = (items ++ [.text hay], iq) := by
  unfold inlineLoop
  rw [findInlineQuantity_no_digit env _ _ _ h]
  have : hay.isEmpty = false := by cases hay <;> simp_all
  simp only [this, Bool.false_eq_true, if_false]

/-- the text is not empty and has no ASCII digit -/
def textCore (t : Text) : Bool := !t.text.isEmpty && !(t.text.any isAsciiDigitC)

theorem inStepTextStep_ext (env : Env) (e : Ext) (t : Text) (items : List Item) (h : textCore t = true) :
    inStepTextStep (α := α) (env.withExt e) t items = inStepTextStep env t items := by
  unfold textCore at h
  simp only [Bool.and_eq_true, Bool.not_eq_true', List.isEmpty_eq_false_iff] at h
  have key : ∀ env' : Env, env'.cs = env.cs → ∀ s : Col α, inStepTextStep (α := α) env' t items s =
      (if s.defineMode == .components then
        (if t.text.any env.cs.alnum then awarn "text-in-components-mode" [t.span] else pure ()) s
       else ((), { s with block := some (BlockBuf.step (items ++ [Item.text t.text])) })) := by
    intro env' hcs s
    unfold inStepTextStep
    rw [A_bind, A_get]
    dsimp only
    by_cases hd : (s.defineMode == DefineMode.components) = true
    · simp only [hd, if_true, hcs]
    · simp only [hd, Bool.false_eq_true, if_false]
      by_cases hx : env'.ext.has Gen.EXT_INLINE_QUANTITIES = true
      · simp only [hx, if_true, inlineLoop_no_digit env' _ _ _ _ h.2 h.1]
        rfl
      · simp only [hx, Bool.false_eq_true, if_false]
        rfl
  funext s
  exact (key (env.withExt e) rfl s).trans (key env rfl s).symm

/-- with INLINE_QUANTITIES off a step text becomes exactly one text item (outside components mode) -/
theorem inStepTextStep_inline_off (env : Env) (t : Text) (items : List Item) (s : Col α)
    (h : env.ext.has Gen.EXT_INLINE_QUANTITIES = false) (hd : s.defineMode ≠ .components) :
    inStepTextStep env t items s =
      ((), { s with block := some (BlockBuf.step (items ++ [Item.text t.text])) }) := by
  unfold inStepTextStep
  rw [A_bind, A_get]
  dsimp only
  have hd' : (s.defineMode == DefineMode.components) = false := by simpa using hd
  simp only [hd', h, Bool.false_eq_true, if_false]
  rfl

/-! ### MODES -/

/-- the trimmed key is `[…]` -/
def bracketedKey (cs : CharSpec) (key : Text) : Bool :=
  (key.trimmed cs).head? == some '[' && (key.trimmed cs).getLast? == some ']'

/-- what `metadata` does with an entry that is not a config key -/
def metadataPlain (env : Env) (key value : Text) : A α Unit := do
  let keyT := key.trimmed env.cs
  let valueT := value.outerTrimmed env.cs
  modify fun s => { s with oldStyleUsed := s.oldStyleUsed ++ [⟨key.span.start, value.span.stop⟩],
                           metaMap := metaInsert s.metaMap keyT valueT }
  match StdKey.ofStr (String.ofList keyT) with
  | none => pure ()
  | some sk =>
    match env.stdCheck sk valueT with
    | .rejected =>
      awarn "std-unsupported-value" [value.span, key.span]
      return
    | .servings sv => modify fun s => { s with servings := some sv }
    | .ok => pure ()
    modify fun s => { s with metaLocs :=
      (s.metaLocs.filter (fun p => p.1 != sk)) ++ [(sk, ⟨key.span.start, value.span.stop⟩)] }
    if stdKeyIsTime sk then timeOverrideCheck sk

theorem metadataA_plain (env : Env) (key value : Text)
    (h : (env.ext.has Gen.EXT_MODES && bracketedKey env.cs key) = false) :
    metadataA (α := α) env key value = metadataPlain env key value := by
  unfold metadataA metadataPlain bracketedKey at *
  funext s
  rw [A_bind, A_get]
  dsimp only
  rw [← Bool.and_assoc] at h
  simp only [h, Bool.false_and, Bool.false_eq_true, if_false]
  rfl

theorem metadataA_ext (env : Env) (e : Ext) (key value : Text) (h : bracketedKey env.cs key = false) :
    metadataA (α := α) (env.withExt e) key value = metadataA env key value := by
  rw [metadataA_plain, metadataA_plain]
  · rfl
  · rw [h, Bool.and_false]
  · show (e.has Gen.EXT_MODES && bracketedKey env.cs key) = false
    rw [h, Bool.and_false]

/-! ### ADVANCED_UNITS: the unit checks, and the whole fold -/

@[simp] theorem Env.withExt_ext (env : Env) (e : Ext) : (env.withExt e).ext = e := rfl
@[simp] theorem Env.withExt_cs (env : Env) (e : Ext) : (env.withExt e).cs = env.cs := rfl

theorem ingrUnitChecks_ext (env : Env) (e : Ext) (i : PIngredient α) (q : Quantity (ScalableValue α)) (idxs : List Nat) :
    ingrUnitChecks (env.withExt e) i q idxs = ingrUnitChecks env i q idxs := rfl

theorem resolveReference_ext (env : Env) (e : Ext) (c : String) (inh : Nat) (ex : List (Str × Modifiers))
    (name : Str) (mods : Modifiers) (l ml : Span) :
    resolveReference (α := α) (env.withExt e) c inh ex name mods l ml = resolveReference env c inh ex name mods l ml := rfl

theorem optQuantityOf_ext (env : Env) (e : Ext) (q : Option (Loc (PQuantity α))) (b : Bool) :
    optQuantityOf (env.withExt e) q b = optQuantityOf env q b := by
  cases q <;> rfl

theorem quantityOf_ext (env : Env) (e : Ext) (q : Loc (PQuantity α)) (b : Bool) :
    quantityOf (env.withExt e) q b = quantityOf env q b := rfl

theorem cookwareA_ext (env : Env) (e : Ext) (input : Str) (lc : Loc (PCookware α)) :
    cookwareA (env.withExt e) input lc = cookwareA env input lc := by
  unfold cookwareA cwBuild cwResolve
  have : ∀ q, optValueOf (α := α) (env.withExt e) q = optValueOf env q := by
    intro q; cases q <;> rfl
  simp only [this, resolveReference_ext, Env.withExt_cs]

section adv
variable (env : Env) (e : Ext) (hadv : e.has Gen.EXT_ADVANCED_UNITS = env.ext.has Gen.EXT_ADVANCED_UNITS)
include hadv

theorem ingrRefChecks_ext (input : Str) (li : Loc (PIngredient α)) (igr : Ingredient (ScalableValue α))
    (refTo : Nat) (defn : Ingredient (ScalableValue α)) (defLoc : Loc (PIngredient α)) :
    ingrRefChecks (env.withExt e) input li igr refTo defn defLoc = ingrRefChecks env input li igr refTo defn defLoc := by
  unfold ingrRefChecks
  simp only [Env.withExt_ext, hadv, ingrUnitChecks_ext]

theorem ingredientA_ext (input : Str) (li : Loc (PIngredient α)) :
    ingredientA (env.withExt e) input li = ingredientA env input li := by
  unfold ingredientA ingrBuild ingrRegular
  simp only [optQuantityOf_ext, resolveReference_ext, ingrRefChecks_ext env e hadv, Env.withExt_cs]

theorem timerA_ext (lt : Loc (PTimer α)) : timerA (env.withExt e) lt = timerA env lt := by
  have h1 : ∀ q r, timerQuantityChecks (α := α) (env.withExt e) q r = timerQuantityChecks env q r := by
    intro q r
    unfold timerQuantityChecks
    simp only [Env.withExt_ext, hadv]
    rfl
  have h2 : ∀ tq, timerQuantity (α := α) (env.withExt e) tq = timerQuantity env tq := by
    intro tq
    cases tq with
    | none => rfl
    | some q =>
      unfold timerQuantity
      simp only [h1, quantityOf_ext]
  unfold timerA
  simp only [h2, Env.withExt_cs]

theorem inBlockComponent_ext (input : Str) (ev : Ev α) :
    inBlockComponent (env.withExt e) input ev = inBlockComponent env input ev := by
  have h : inStepComponent (env.withExt e) input ev = inStepComponent env input ev := by
    unfold inStepComponent
    cases ev <;> simp only [ingredientA_ext env e hadv, cookwareA_ext, timerA_ext env e hadv]
  unfold inBlockComponent
  simp only [h]

end adv

/-- the event uses no syntax that an analysis gate reinterprets: a `>>` key is not `[…]`, a text
    is not empty and has no ASCII digit -/
def evCoreA (cs : CharSpec) : Ev α → Bool
  | .metadata k _ => !bracketedKey cs k
  | .text t => textCore t
  | _ => true

theorem processEvent_ext (env : Env) (e : Ext)
    (hadv : e.has Gen.EXT_ADVANCED_UNITS = env.ext.has Gen.EXT_ADVANCED_UNITS) (input : Str) (ev : Ev α)
    (h : evCoreA env.cs ev = true) :
    processEvent (env.withExt e) input ev = processEvent env input ev := by
  cases ev <;> first
    | rfl
    | (unfold processEvent; exact inBlockComponent_ext env e hadv input _)
    | (unfold processEvent
       simp only [evCoreA, Bool.not_eq_true'] at h
       exact metadataA_ext env e _ _ h)
    | (unfold processEvent inStepText
       simp only [evCoreA] at h
       simp only [inStepTextStep_ext env e _ _ h])

theorem parseEventsLoop_ext (env : Env) (e : Ext)
    (hadv : e.has Gen.EXT_ADVANCED_UNITS = env.ext.has Gen.EXT_ADVANCED_UNITS) (input : Str) (evs : List (Ev α))
    (h : evs.all (evCoreA env.cs) = true) (s : Col α) :
    parseEventsLoop (env.withExt e) input evs s = parseEventsLoop env input evs s := by
  induction evs generalizing s with
  | nil => rfl
  | cons ev rest ih =>
    simp only [List.all_cons, Bool.and_eq_true] at h
    have hp := processEvent_ext env e hadv input ev h.1
    cases ev <;> first
      | rfl
      | (simp only [parseEventsLoop]; rw [hp]; exact ih h.2 _)

end Cook
