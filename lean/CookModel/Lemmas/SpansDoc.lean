import CookModel.Lemmas.SpansEv
/-
  Source locations, document level (C04): the blocks the splitter cuts out of the token stream of
  the input are pieces of the input in source order, so the block-level invariant `TopInv` (all
  spans are `SpanOK 0 input`, content events in source order) holds of everything `pullEvents`
  produces.
-/
set_option linter.unusedSectionVars false
set_option linter.unusedSimpArgs false
set_option linter.unusedVariables false
namespace Cook

variable {α : Type} [Arith α] {off : Nat} {w : List Char}

/-- a list of blocks, each a piece of the text, in source order, all starting at or after `b` -/
def BlocksIn (off : Nat) (w : List Char) : Nat → List (List Tok) → Prop
  | _, [] => True
  | b, blk :: rest => WFI off w blk ∧ b ≤ baseOff blk ∧ BlocksIn off w (offAt blk blk.length) rest

theorem foldl_runBlock_ev (cs : CharSpec) (ext : Ext) (oldStyle : Bool) (blocks : List (List Tok))
    (evs0 : Array (Ev α)) {b : Nat} (hz : Boundary off w 0) (hinv : TopInv off w b evs0)
    (hbl : BlocksIn off w b blocks) :
    ∃ b', TopInv off w b'
      (blocks.foldl (fun acc blk => runBlock (α := α) cs ext oldStyle blk acc.1 acc.2) (evs0, none)).1 := by
  induction blocks generalizing evs0 b with
  | nil => exact ⟨b, hinv⟩
  | cons blk bs ih =>
    rw [List.foldl_cons]
    obtain ⟨hw, hb, hrest⟩ := hbl
    have h1 := runBlock_no_panic (α := α) cs ext oldStyle blk evs0 hw.wf
    have e1 : runBlock (α := α) cs ext oldStyle blk evs0 none =
        ((runBlock (α := α) cs ext oldStyle blk evs0 none).1, none) := by
      apply Prod.ext
      · rfl
      · exact h1
    show ∃ b', TopInv off w b' (bs.foldl _ (runBlock (α := α) cs ext oldStyle blk evs0 none)).1
    rw [e1]
    exact ih _ (runBlock_ev cs ext oldStyle blk evs0 hw hz hinv hb) hrest

theorem nextBlock_ne (ts b rest : List Tok) (h : nextBlock ts = some (b, rest)) : b ≠ [] := by
  unfold nextBlock at h
  split at h
  · cases h
  · rename_i li r hs
    simp only at h
    generalize (if li.isSingleLine = true then (([] : List Tok), r) else moreLines (r.length + 1) r) = m at h
    by_cases he : (trimTrailingNewlines (li.toks ++ m.1)).isEmpty
    · simp [he] at h
    · simp only [he, Bool.false_eq_true, if_false, Option.some.injEq, Prod.mk.injEq] at h
      rw [← h.1]
      intro h0; apply he; rw [h0]; rfl

theorem offAt_length {o : Nat} {l : List Tok} (h : RunIn off w o l) (hne : l ≠ []) :
    baseOff l = o ∧ offAt l l.length = lastStop o l := by
  cases l with
  | nil => exact absurd rfl hne
  | cons t r =>
    have e : baseOff (t :: r) = o := by simpa [baseOff] using h.cons.1
    refine ⟨e, ?_⟩
    unfold offAt
    rw [List.take_length, e]

/-- the blocks of a run of adjacent tokens that is a piece of the text are pieces of the text, in
    source order -/
theorem allBlocks_blocksIn (fuel : Nat) (ts : List Tok) (o : Nat) (h : RunIn off w o ts) {b : Nat}
    (hb : b ≤ o) : BlocksIn off w b (allBlocks fuel ts) := by
  induction fuel generalizing ts o b with
  | zero => simp [allBlocks, BlocksIn]
  | succ fuel ih =>
    unfold allBlocks
    split
    · trivial
    · rename_i blk rest hn
      obtain ⟨pre, mid, hsplit⟩ := nextBlock_split ts blk rest hn
      have hne := nextBlock_ne ts blk rest hn
      rw [hsplit] at h
      obtain ⟨hpre, h1⟩ := h.append
      obtain ⟨hblk, h2⟩ := h1.append
      obtain ⟨hmid, h3⟩ := h2.append
      obtain ⟨e1, e2⟩ := offAt_length hblk hne
      refine ⟨hblk.wfi hne, ?_, ?_⟩
      · rw [e1]; exact Nat.le_trans hb hpre.le
      · rw [e2]; exact ih rest _ h3 hmid.le

/-- what is assumed about the front-matter split (model of src/parser/frontmatter.rs) when the
    input has front matter: the cooklang part is a suffix of the input and its offset is the byte
    length of what precedes it; the YAML text is the input slice at its offset -/
def FrontMatterOffsetsOK (cs : CharSpec) (input : List Char) : Prop :=
  ∀ fm, parseFrontmatter cs input = some fm →
    (∃ pre, input = pre ++ fm.cookText ∧ fm.cookOffset = utf8Len pre) ∧
    TextOK 0 input (Text.fromStr fm.yamlText fm.yamlOffset)

theorem topInv_empty (b : Nat) : TopInv (α := α) off w b #[] :=
  ⟨by simp, by simp [SrcOrdered], by simp⟩

/-- **the whole document**: every event has good spans with respect to the input, and the content
    events are in source order -/
theorem pullEvents_topInv (cs : CharSpec) (ext : Ext) (input : List Char)
    (hfm : FrontMatterOffsetsOK cs input) :
    ∃ b, TopInv 0 input b (pullEvents (α := α) cs ext input).1 := by
  have hz : Boundary 0 input 0 := Boundary.first
  unfold pullEvents
  cases hp : parseFrontmatter cs input with
  | none =>
    simp only
    apply foldl_runBlock_ev cs ext true _ _ hz (topInv_empty 0)
    apply allBlocks_blocksIn _ _ 0 _ (Nat.le_refl _)
    unfold lex
    exact ⟨⟨lexFrom_chain cs 0 input, lexFrom_escapedOK cs 0 input⟩,
      ⟨[], [], by simp [lexFrom_tile], by simp [utf8Len]⟩⟩
  | some fm =>
    simp only
    obtain ⟨⟨pre, h1, h2⟩, h3⟩ := hfm fm hp
    apply foldl_runBlock_ev cs ext false _ _ hz (b := 0)
    · exact (topInv_empty 0).pushNone h3 rfl
    · apply allBlocks_blocksIn _ _ fm.cookOffset _ (Nat.zero_le _)
      exact ⟨⟨lexFrom_chain cs _ _, lexFrom_escapedOK cs _ _⟩,
        ⟨pre, [], by simp [lexFrom_tile, h1], by simp [h2]⟩⟩

theorem frontMatterOffsetsOK_of_none (cs : CharSpec) (input : List Char)
    (h : parseFrontmatter cs input = none) : FrontMatterOffsetsOK cs input := by
  intro fm hfm; rw [h] at hfm; cases hfm

end Cook
