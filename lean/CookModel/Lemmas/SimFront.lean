import CookModel.Lemmas.SimBlocks
import CookModel.Lemmas.SimParser
import CookModel.Lemmas.TrailingSpace
/-
  The front-matter split (`parseFrontmatter`, model of src/parser/frontmatter.rs) under CRLF
  conversion: the lines of `crlf s` are the converted lines of `s`; a line is a fence (`---` after
  `trim_end`) or blank before and after conversion (CR and LF are white space for `trim`); hence
  front matter is found in `crlf s` iff it is found in `s`, the YAML text and the recipe text of
  the converted input are the converted YAML text and recipe text.
-/
set_option linter.unusedSectionVars false
set_option linter.unusedVariables false
set_option linter.unusedSimpArgs false
namespace Cook

/-! ### lines -/

theorem crlfAux_cons (p : Bool) (c : Char) (t : List Char) :
    crlfAux p (c :: t) = (if c = '\n' ∧ p = false then ['\r', '\n'] else [c]) ++ crlfAux (c == '\r') t := rfl

theorem simfront_splitInclusive_crlfAux (p : Bool) (s : List Char) :
    splitInclusive (crlfAux p s) =
      match splitInclusive s with
      | [] => []
      | l :: ls => crlfAux p l :: ls.map crlf := by
  induction s generalizing p with
  | nil => rfl
  | cons c t ih =>
    by_cases hc : c = '\n'
    · subst hc
      have e : splitInclusive ('\n' :: t) = ['\n'] :: splitInclusive t := by simp [splitInclusive]
      rw [e]
      have iht := ih false
      have hmap : splitInclusive (crlfAux false t) = (splitInclusive t).map crlf := by
        rw [iht]
        cases splitInclusive t with
        | nil => rfl
        | cons l ls => rfl
      cases p
      · have e2 : crlfAux false ('\n' :: t) = '\r' :: '\n' :: crlfAux false t := by
          simp [crlfAux]
        rw [e2]
        have e3 : splitInclusive ('\r' :: '\n' :: crlfAux false t) =
            ['\r', '\n'] :: splitInclusive (crlfAux false t) := by
          simp [splitInclusive]
        rw [e3, hmap]
        rfl
      · have e2 : crlfAux true ('\n' :: t) = '\n' :: crlfAux false t := by
          simp [crlfAux]
        rw [e2]
        have e3 : splitInclusive ('\n' :: crlfAux false t) = ['\n'] :: splitInclusive (crlfAux false t) := by
          simp [splitInclusive]
        rw [e3, hmap]
        rfl
    · have e2 : crlfAux p (c :: t) = c :: crlfAux (c == '\r') t := by
        simp [crlfAux, hc]
      rw [e2]
      have e3 : ∀ x : List Char, splitInclusive (c :: x) =
          match splitInclusive x with
          | [] => [[c]]
          | l :: ls => (c :: l) :: ls := by
        intro x
        conv => lhs; unfold splitInclusive
        simp only [hc, if_false]
        cases splitInclusive x <;> rfl
      rw [e3, e3, ih (c == '\r')]
      cases splitInclusive t with
      | nil =>
        simp [crlfAux, hc]
      | cons l ls =>
        simp [crlfAux, hc]

/-- the lines of the converted input are the converted lines -/
theorem simfront_splitInclusive_crlf (s : List Char) : splitInclusive (crlf s) = (splitInclusive s).map crlf := by
  unfold crlf
  rw [simfront_splitInclusive_crlfAux]
  cases splitInclusive s with
  | nil => rfl
  | cons l ls => rfl

/-! ### `trim_end` and conversion -/

theorem simfront_trimEnd_append (ws : Char → Bool) (a x : List Char) :
    trimEnd ws (a ++ x) = if (trimEnd ws x).isEmpty then trimEnd ws a else a ++ trimEnd ws x := by
  unfold trimEnd
  rw [List.reverse_append, List.dropWhile_append]
  by_cases h : (List.dropWhile ws x.reverse).isEmpty = true
  · simp [h]
  · simp [h]

theorem simfront_crlfAux_ne_nil (p : Bool) (x : List Char) (h : x ≠ []) : crlfAux p x ≠ [] := by
  cases x with
  | nil => exact absurd rfl h
  | cons c t =>
    rw [crlfAux_cons]
    split <;> simp

theorem simfront_trimEnd_singleton (ws : Char → Bool) (c : Char) : trimEnd ws [c] = if ws c then [] else [c] := by
  unfold trimEnd
  by_cases h : ws c = true <;> simp [h]

/-- `trim_end` commutes with CRLF conversion when CR and LF are white space -/
theorem simfront_trimEnd_crlfAux (ws : Char → Bool) (hcr : ws '\r' = true) (hlf : ws '\n' = true) (p : Bool)
    (l : List Char) : trimEnd ws (crlfAux p l) = crlfAux p (trimEnd ws l) := by
  induction l generalizing p with
  | nil => rfl
  | cons c t ih =>
    rw [crlfAux_cons, simfront_trimEnd_append, ih]
    have hl : trimEnd ws (c :: t) = if (trimEnd ws t).isEmpty then trimEnd ws [c] else c :: trimEnd ws t := by
      have := simfront_trimEnd_append ws [c] t
      simpa using this
    rw [hl]
    by_cases he : (trimEnd ws t).isEmpty = true
    · have he' : trimEnd ws t = [] := by simpa using he
      rw [he']
      simp only [crlfAux, List.isEmpty_nil, if_true]
      by_cases hws : ws c = true
      · rw [simfront_trimEnd_singleton, hws]
        simp only [if_true, crlfAux]
        split
        · unfold trimEnd; simp [hcr, hlf]
        · rw [simfront_trimEnd_singleton, hws]; rfl
      · have hcn : c ≠ '\n' := by rintro rfl; exact hws hlf
        simp only [hcn, false_and, if_false]
        rw [simfront_trimEnd_singleton]
        simp [hws, crlfAux, hcn]
    · have hne : trimEnd ws t ≠ [] := by simpa using he
      have hne2 : (crlfAux (c == '\r') (trimEnd ws t)).isEmpty = false := by
        have := simfront_crlfAux_ne_nil (c == '\r') _ hne
        simpa using this
      simp only [he, hne2, Bool.false_eq_true, if_false]
      rw [crlfAux_cons]

theorem simfront_crlfAux_mem_nl (p : Bool) (x : List Char) (h : '\n' ∈ x) : '\n' ∈ crlfAux p x := by
  induction x generalizing p with
  | nil => cases h
  | cons c t ih =>
    rw [crlfAux_cons]
    simp only [List.mem_cons] at h
    rcases h with h | h
    · subst h
      split <;> simp
    · exact List.mem_append_right _ (ih _ h)

theorem simfront_crlfAux_no_nl (p : Bool) (x : List Char) (h : '\n' ∉ x) : crlfAux p x = x := by
  induction x generalizing p with
  | nil => rfl
  | cons c t ih =>
    rw [crlfAux_cons]
    simp only [List.mem_cons, not_or] at h
    have hc : c ≠ '\n' := fun e => h.1 e.symm
    simp [hc, ih _ h.2]

theorem simfront_crlf_eq_fence (x : List Char) : (crlf x == ['-', '-', '-']) = (x == ['-', '-', '-']) := by
  by_cases h : '\n' ∈ x
  · have h1 : '\n' ∈ crlf x := simfront_crlfAux_mem_nl _ _ h
    have e1 : (crlf x == ['-', '-', '-']) = false := by
      apply Bool.eq_false_iff.2
      intro he
      have : crlf x = ['-', '-', '-'] := by simpa using he
      rw [this] at h1
      simp at h1
    have e2 : (x == ['-', '-', '-']) = false := by
      apply Bool.eq_false_iff.2
      intro he
      have : x = ['-', '-', '-'] := by simpa using he
      rw [this] at h
      simp at h
    rw [e1, e2]
  · unfold crlf
    rw [simfront_crlfAux_no_nl _ _ h]

/-- a line is a fence after conversion iff it is one before -/
theorem simfront_isFence_crlf (cs : CharSpec) (hu : UwsNL cs) (l : List Char) :
    isFence cs (crlf l) = isFence cs l := by
  unfold isFence crlf
  rw [simfront_trimEnd_crlfAux cs.uws hu.cr hu.lf]
  exact simfront_crlf_eq_fence _

theorem simfront_crlfAux_all (ws : Char → Bool) (hcr : ws '\r' = true) (p : Bool) (l : List Char) :
    (crlfAux p l).all ws = l.all ws := by
  induction l generalizing p with
  | nil => rfl
  | cons c t ih =>
    rw [crlfAux_cons, List.all_append, ih, List.all_cons]
    congr 1
    split
    · rename_i h
      simp [h.1, hcr]
    · simp

theorem simfront_dropWhile_nil {p : Char → Bool} {l : List Char} (h : l.dropWhile p = []) : l.all p = true := by
  induction l with
  | nil => rfl
  | cons a t ih =>
    rw [List.dropWhile_cons] at h
    split at h
    · rename_i hp
      simp [hp, ih h]
    · cases h

theorem simfront_trim_isEmpty (ws : Char → Bool) (l : List Char) : (trim ws l).isEmpty = l.all ws := by
  unfold trim trimStart
  by_cases h : l.all ws = true
  · rw [h, tsp_dropWhile_all h]; rfl
  · have hf : l.all ws = false := by simpa using h
    rw [hf]
    have hne : l.dropWhile ws ≠ [] := by
      intro e
      exact h (simfront_dropWhile_nil e)
    cases hd : l.dropWhile ws with
    | nil => exact absurd hd hne
    | cons a r =>
      have ha : ws a = false := tsp_trimStart_head ws l a (by unfold trimStart; rw [hd]; rfl)
      have e := simfront_trimEnd_append ws [a] r
      simp only [List.singleton_append] at e
      rw [e]
      split
      · rw [simfront_trimEnd_singleton, ha]; rfl
      · rfl

/-- a line is blank after conversion iff it is blank before -/
theorem simfront_blank_crlf (cs : CharSpec) (hu : UwsNL cs) (l : List Char) :
    (trim cs.uws (crlf l)).isEmpty = (trim cs.uws l).isEmpty := by
  rw [simfront_trim_isEmpty, simfront_trim_isEmpty]
  exact simfront_crlfAux_all cs.uws hu.cr false l

/-! ### lines with offsets -/

/-- line/offset pairs: the converted line, at any offset -/
def LineCrlf (a' a : List Char × Nat) : Prop := a'.1 = crlf a.1

theorem simfront_lines_rel (L : List (List Char)) (o' o : Nat) :
    LRel LineCrlf (linesWithOffset (L.map crlf) o') (linesWithOffset L o) := by
  induction L generalizing o' o with
  | nil => exact .nil
  | cons l ls ih => exact .cons rfl (ih _ _)

def EndNL (l : List Char) : Prop := l.getLast? = some '\n'

/-- every line but the last ends with LF -/
def NLsL : List (List Char) → Prop
  | [] => True
  | l :: r => (r = [] ∨ EndNL l) ∧ NLsL r

def NLs : List (List Char × Nat) → Prop
  | [] => True
  | p :: r => (r = [] ∨ EndNL p.1) ∧ NLs r

theorem simfront_endNL_cons (c : Char) {l : List Char} (h : EndNL l) : EndNL (c :: l) := by
  unfold EndNL at *
  cases l with
  | nil => simp at h
  | cons a r => rw [List.getLast?_cons_cons]; exact h

theorem simfront_splitInclusive_NLsL (s : List Char) : NLsL (splitInclusive s) := by
  induction s with
  | nil => trivial
  | cons c t ih =>
    unfold splitInclusive
    split
    · exact ⟨Or.inr (by subst_vars; rfl), ih⟩
    · split
      · exact ⟨Or.inl rfl, trivial⟩
      · rename_i l ls heq
        rw [heq] at ih
        obtain ⟨h1, h2⟩ := ih
        refine ⟨?_, h2⟩
        rcases h1 with h1 | h1
        · exact Or.inl h1
        · exact Or.inr (simfront_endNL_cons c h1)

theorem simfront_linesWithOffset_NLs (L : List (List Char)) (o : Nat) (h : NLsL L) : NLs (linesWithOffset L o) := by
  induction L generalizing o with
  | nil => trivial
  | cons l ls ih =>
    obtain ⟨h1, h2⟩ := h
    refine ⟨?_, ih _ h2⟩
    rcases h1 with h1 | h1
    · left; subst h1; rfl
    · exact Or.inr h1

theorem NLs.dropWhile (p : List Char × Nat → Bool) {ls : List (List Char × Nat)} (h : NLs ls) : NLs (ls.dropWhile p) := by
  induction ls with
  | nil => trivial
  | cons a r ih =>
    rw [List.dropWhile_cons]
    split
    · exact ih h.2
    · exact h

theorem NLs.takeWhile (p : List Char × Nat → Bool) {ls : List (List Char × Nat)} (h : NLs ls) : NLs (ls.takeWhile p) := by
  induction ls with
  | nil => trivial
  | cons a r ih =>
    rw [List.takeWhile_cons]
    split
    · refine ⟨?_, ih h.2⟩
      rcases h.1 with h1 | h1
      · left; subst h1; rfl
      · exact Or.inr h1
    · trivial

theorem simfront_crlfAux_append_endNL (p : Bool) (a b : List Char) (h : EndNL a) :
    crlfAux p (a ++ b) = crlfAux p a ++ crlfAux false b := by
  induction a generalizing p with
  | nil => simp [EndNL] at h
  | cons c t ih =>
    cases t with
    | nil =>
      have hc : c = '\n' := by simpa [EndNL] using h
      subst hc
      simp only [List.singleton_append, crlfAux_cons, crlfAux, List.append_nil]
      rfl
    | cons c2 r =>
      have h2 : EndNL (c2 :: r) := by
        unfold EndNL at *
        rw [List.getLast?_cons_cons] at h; exact h
      rw [List.cons_append, crlfAux_cons, ih _ h2, crlfAux_cons (c := c) (t := c2 :: r), List.append_assoc]

/-- converting line by line is converting the text -/
theorem simfront_flatMap_crlf {ls' ls : List (List Char × Nat)} (h : LRel LineCrlf ls' ls) (hn : NLs ls) :
    ls'.flatMap (·.1) = crlf (ls.flatMap (·.1)) := by
  induction h with
  | nil => rfl
  | cons h1 hl ih =>
    rename_i a' a l' l
    simp only [List.flatMap_cons]
    rw [ih hn.2, h1]
    rcases hn.1 with e | e
    · subst e
      cases hl
      simp [crlf, crlfAux]
    · unfold crlf
      rw [simfront_crlfAux_append_endNL _ _ _ e]

/-! ### the split -/

/-- front matter of the converted input: converted YAML text, converted recipe text -/
def FmCrlf (fm' fm : FrontMatter) : Prop := fm'.yamlText = crlf fm.yamlText ∧ fm'.cookText = crlf fm.cookText

/-- **the front-matter split under CRLF conversion** -/
theorem crlf_frontmatter (cs : CharSpec) (hu : UwsNL cs) (s : List Char) :
    OptRel FmCrlf (parseFrontmatter cs (crlf s)) (parseFrontmatter cs s) := by
  unfold parseFrontmatter
  simp only
  rw [simfront_splitInclusive_crlf]
  have hl := simfront_lines_rel (splitInclusive s) 0 0
  have hn := simfront_linesWithOffset_NLs (splitInclusive s) 0 (simfront_splitInclusive_NLsL s)
  generalize linesWithOffset ((splitInclusive s).map crlf) 0 = ls' at hl
  generalize linesWithOffset (splitInclusive s) 0 = ls at hl hn
  have hp : PredAgree LineCrlf (fun l => !isFence cs l.1) (fun l => !isFence cs l.1) := by
    intro a b h
    unfold LineCrlf at h
    simp only [h, simfront_isFence_crlf cs hu]
  have hb : PredAgree LineCrlf (fun l => (trim cs.uws l.1).isEmpty) (fun l => (trim cs.uws l.1).isEmpty) := by
    intro a b h
    unfold LineCrlf at h
    simp only [h, simfront_blank_crlf cs hu]
  have hbefore := (hl.takeWhile hp).all hb
  have hrest := hl.dropWhile hp
  have hnrest := hn.dropWhile (fun l => !isFence cs l.1)
  rw [hbefore]
  generalize List.dropWhile (fun l : List Char × Nat => !isFence cs l.1) ls' = rest' at hrest
  generalize List.dropWhile (fun l : List Char × Nat => !isFence cs l.1) ls = rest at hrest hnrest
  cases hrest with
  | nil => exact OptRel.none_none
  | cons hf1 hr1 =>
    rename_i f1' f1 rest1' rest1
    dsimp only
    split
    · exact OptRel.none_none
    have hn1 : NLs rest1 := hnrest.2
    have hyaml := hr1.takeWhile hp
    have hrest2 := hr1.dropWhile hp
    have hnyaml := hn1.takeWhile (fun l => !isFence cs l.1)
    have hn2 := hn1.dropWhile (fun l => !isFence cs l.1)
    generalize List.dropWhile (fun l : List Char × Nat => !isFence cs l.1) rest1' = r2' at hrest2
    generalize List.dropWhile (fun l : List Char × Nat => !isFence cs l.1) rest1 = r2 at hrest2 hn2
    cases hrest2 with
    | nil => exact OptRel.none_none
    | cons hf2 hr2 =>
      exact OptRel.some_some ⟨simfront_flatMap_crlf hyaml hnyaml, simfront_flatMap_crlf hr2 hn2.2⟩

end Cook
