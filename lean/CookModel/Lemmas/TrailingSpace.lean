import CookModel.Lemmas.TextLaws
/-
  Trailing white space at the end of a token run does not change what `str::trim` leaves
  (`Text::text_trimmed`, `is_text_empty`), whatever the offsets.
-/
set_option linter.unusedSimpArgs false
namespace Cook

theorem tsp_dropWhile_all {p : Char → Bool} {l : List Char} (h : l.all p = true) : l.dropWhile p = [] := by
  induction l with
  | nil => rfl
  | cons a l ih =>
    simp only [List.all_cons, Bool.and_eq_true] at h
    simp [List.dropWhile_cons, h.1, ih h.2]

theorem tsp_trimEnd_append (ws : Char → Bool) (X W : List Char) (h : W.all ws = true) :
    trimEnd ws (X ++ W) = trimEnd ws X := by
  unfold trimEnd
  rw [List.reverse_append, List.dropWhile_append_of_pos]
  intro a ha
  rw [List.all_eq_true] at h
  exact h a (by simpa using ha)

theorem tsp_trimStart_append (ws : Char → Bool) (A W : List Char) (h : W.all ws = true) :
    ∃ W', W'.all ws = true ∧ trimStart ws (A ++ W) = trimStart ws A ++ W' := by
  unfold trimStart
  induction A with
  | nil => exact ⟨[], rfl, by simp [tsp_dropWhile_all h]⟩
  | cons a A ih =>
    by_cases ha : ws a = true
    · simpa [List.dropWhile_cons, ha] using ih
    · exact ⟨W, h, by simp [List.dropWhile_cons, ha]⟩

/-- `trim` ignores appended white space -/
theorem tsp_trim_append (ws : Char → Bool) (A W : List Char) (h : W.all ws = true) :
    trim ws (A ++ W) = trim ws A := by
  unfold trim
  obtain ⟨W', h1, h2⟩ := tsp_trimStart_append ws A W h
  rw [h2, tsp_trimEnd_append ws _ _ h1]

theorem tsp_foldl_snoc_ws (a : TextAcc) (xs : List Tok) (w : Tok) (hw : w.kind = .ws) :
    (xs ++ [w]).foldl textStep a =
      ⟨(xs.foldl textStep a).t, (xs.foldl textStep a).start, (xs.foldl textStep a).cur ++ w.text⟩ := by
  rw [List.foldl_append]
  simp [textStep, hw]

theorem tsp_appendStr_frags (t : Text) (s : List Char) (off : Nat) :
    (t.appendStr s off).frags = if s.isEmpty then t.frags else t.frags ++ [⟨s, off, false⟩] := by
  unfold Text.appendStr Text.appendFrag
  by_cases h1 : t.span.stop ≤ off <;> by_cases h2 : s.isEmpty = true <;> simp [h1, h2]

/-- emptiness test of a text whose last (pending) fragment gets white space appended -/
theorem tsp_isTextEmpty_appendStr (cs : CharSpec) (t : Text) (c W : List Char) (o : Nat) (h : W.all cs.uws = true) :
    (t.appendStr (c ++ W) o).isTextEmpty cs = (t.appendStr c o).isTextEmpty cs := by
  unfold Text.isTextEmpty
  rw [tsp_appendStr_frags, tsp_appendStr_frags]
  have hb : (trim cs.uws (c ++ W)).isEmpty = (trim cs.uws c).isEmpty := by rw [tsp_trim_append _ _ _ h]
  by_cases h1 : (c ++ W).isEmpty = true
  · have hc : c = [] := by
      cases c with
      | nil => rfl
      | cons _ _ => simp at h1
    subst hc
    have hW : W = [] := by simpa using h1
    subst hW
    rfl
  · by_cases h2 : c.isEmpty = true
    · have hc : c = [] := by simpa using h2
      subst hc
      simp only [h1, h2, Bool.false_eq_true, if_false, if_true, List.all_append, List.all_cons, List.all_nil,
        Bool.and_true]
      have : (trim cs.uws ([] ++ W)).isEmpty = true := by rw [hb]; rfl
      rw [this]; simp
    · simp only [h1, h2, Bool.false_eq_true, if_false, List.all_append, List.all_cons, List.all_nil, Bool.and_true, hb]

theorem tsp_bad_isTextEmpty (cs : CharSpec) (t : Text) (b : Bool) :
    ({ t with bad := b } : Text).isTextEmpty cs = t.isTextEmpty cs := rfl

theorem tsp_isTextEmpty_appendStr_nil (cs : CharSpec) (t : Text) (o : Nat) :
    (t.appendStr [] o).isTextEmpty cs = t.isTextEmpty cs := by
  unfold Text.isTextEmpty
  rw [tsp_appendStr_frags]; rfl

/-- **a trailing white-space token changes neither the trimmed text nor the emptiness test** -/
theorem tsp_buildText_snoc_ws (cs : CharSpec) (off : Nat) (xs : List Tok) (w : Tok) (hw : w.kind = .ws)
    (hu : w.text.all cs.uws = true) :
    (buildText off (xs ++ [w])).outerTrimmed cs = (buildText off xs).outerTrimmed cs ∧
    (buildText off (xs ++ [w])).trimmed cs = (buildText off xs).trimmed cs ∧
    (buildText off (xs ++ [w])).isTextEmpty cs = (buildText off xs).isTextEmpty cs := by
  have h1 : (buildText off (xs ++ [w])).outerTrimmed cs = (buildText off xs).outerTrimmed cs := by
    unfold Text.outerTrimmed
    rw [buildText_text, buildText_text]
    simp only [List.flatMap_append, List.flatMap_cons, List.flatMap_nil, List.append_nil]
    have : vis w = w.text := by simp [vis, hw]
    rw [this, tsp_trim_append _ _ _ hu]
  refine ⟨h1, by unfold Text.trimmed; rw [h1], ?_⟩
  cases xs with
  | nil =>
    have e := tsp_isTextEmpty_appendStr cs (Text.empty off) [] w.text w.start hu
    rw [tsp_isTextEmpty_appendStr_nil] at e
    simp only [List.nil_append] at e
    unfold buildText
    simp only [List.nil_append, List.foldl_cons, List.foldl_nil, textStep, hw]
    split
    · exact e
    · rw [tsp_bad_isTextEmpty]; exact e
  | cons t0 rest =>
    unfold buildText
    simp only [List.cons_append]
    have hf := tsp_foldl_snoc_ws ⟨Text.empty off, t0.start, []⟩ (t0 :: rest) w hw
    simp only [List.cons_append] at hf
    rw [hf]
    simp only
    have step1 := tsp_isTextEmpty_appendStr cs (List.foldl textStep ⟨Text.empty off, t0.start, []⟩ (t0 :: rest)).t
      (List.foldl textStep ⟨Text.empty off, t0.start, []⟩ (t0 :: rest)).cur w.text
      (List.foldl textStep ⟨Text.empty off, t0.start, []⟩ (t0 :: rest)).start hu
    split <;> (try simp only [tsp_bad_isTextEmpty]) <;> exact step1

/-! ### spaces in front of a line break inside a text: `text_trimmed` collapses them -/

/-- what `text_trimmed` computes from the characters of a text -/
def trimmedOf (ws : Char → Bool) (s : List Char) : List Char :=
  if hasDoubleSpace (trim ws s) then collapseSpaces ' ' (trim ws s) else trim ws s

theorem tsp_trimmed_eq (cs : CharSpec) (t : Text) : t.trimmed cs = trimmedOf cs.uws t.text := rfl

theorem tsp_collapse_id (prev : Char) (t : List Char) (h1 : hasDoubleSpace t = false)
    (h2 : prev = ' ' → t.head? ≠ some ' ') : collapseSpaces prev t = t := by
  induction t generalizing prev with
  | nil => rfl
  | cons c t ih =>
    have hc : c ≠ ' ' ∨ prev ≠ ' ' := by
      by_cases hp : prev = ' '
      · left; intro hc; exact h2 hp (by simp [hc])
      · right; exact hp
    unfold collapseSpaces
    rw [if_pos hc]
    congr 1
    apply ih
    · cases t with
      | nil => rfl
      | cons d u =>
        by_cases hcd : c = ' ' ∧ d = ' '
        · obtain ⟨rfl, rfl⟩ := hcd; simp [hasDoubleSpace] at h1
        · unfold hasDoubleSpace at h1
          split at h1
          · rename_i heq; simp only [List.cons.injEq] at heq; exact absurd ⟨heq.1, heq.2.1⟩ hcd
          · rename_i heq; simp only [List.cons.injEq] at heq; obtain ⟨_, rfl⟩ := heq; exact h1
          · rename_i heq; cases heq
    · intro hcp
      cases t with
      | nil => simp
      | cons d u =>
        intro hd
        simp only [List.head?_cons, Option.some.injEq] at hd
        subst hcp hd
        simp [hasDoubleSpace] at h1

theorem tsp_trimStart_head (ws : Char → Bool) (s : List Char) : ∀ c, (trimStart ws s).head? = some c → ws c = false := by
  intro c hc
  unfold trimStart at hc
  induction s with
  | nil => simp at hc
  | cons a s ih =>
    rw [List.dropWhile_cons] at hc
    split at hc
    · exact ih hc
    · rename_i ha
      simp only [List.head?_cons, Option.some.injEq] at hc
      subst hc; simpa using ha

theorem tsp_trimEnd_head (ws : Char → Bool) (s : List Char) (h : ∀ c, s.head? = some c → ws c = false) :
    ∀ c, (trimEnd ws s).head? = some c → ws c = false := by
  intro c hc
  cases s with
  | nil => simp [trimEnd] at hc
  | cons a s =>
    have ha := h a rfl
    -- trimEnd keeps the first character because it is not white space
    have : ∃ u, trimEnd ws (a :: s) = a :: u := by
      unfold trimEnd
      rw [List.reverse_cons]
      generalize s.reverse = r
      induction r with
      | nil => simp [List.dropWhile_cons, ha]
      | cons b r ih =>
        simp only [List.cons_append, List.dropWhile_cons]
        split
        · exact ih
        · exact ⟨(b :: r).reverse, by simp⟩
    obtain ⟨u, hu⟩ := this
    rw [hu] at hc
    simp only [List.head?_cons, Option.some.injEq] at hc
    subst hc; exact ha

/-- when the plain blank is white space, `text_trimmed` is "trim, then collapse runs of blanks" -/
theorem tsp_trimmedOf_eq (ws : Char → Bool) (hsp : ws ' ' = true) (s : List Char) :
    trimmedOf ws s = collapseSpaces ' ' (trim ws s) := by
  unfold trimmedOf
  split
  · rfl
  · rename_i h
    symm
    apply tsp_collapse_id _ _ (by simpa using h)
    intro _ hh
    have := tsp_trimEnd_head ws (trimStart ws s) (tsp_trimStart_head ws s) ' ' hh
    rw [hsp] at this; cases this

theorem tsp_collapse_dup (prev : Char) (A B : List Char) :
    collapseSpaces prev (A ++ ' ' :: ' ' :: B) = collapseSpaces prev (A ++ ' ' :: B) := by
  induction A generalizing prev with
  | nil =>
    simp only [List.nil_append]
    by_cases hp : prev = ' '
    · subst hp; simp [collapseSpaces]
    · simp [collapseSpaces, hp]
  | cons a A ih =>
    simp only [List.cons_append]
    unfold collapseSpaces
    split
    · rw [ih]
    · rw [ih]

theorem tsp_trimEnd_dup (ws : Char → Bool) (hsp : ws ' ' = true) (A B : List Char) :
    trimEnd ws (A ++ ' ' :: ' ' :: B) = trimEnd ws (A ++ ' ' :: B) ∨
    ∃ B2, trimEnd ws (A ++ ' ' :: ' ' :: B) = A ++ ' ' :: ' ' :: B2 ∧ trimEnd ws (A ++ ' ' :: B) = A ++ ' ' :: B2 := by
  unfold trimEnd
  simp only [List.reverse_append, List.reverse_cons, List.append_assoc, List.cons_append, List.nil_append]
  generalize B.reverse = R
  induction R with
  | nil =>
    left
    simp [List.dropWhile_cons, hsp]
  | cons b R ih =>
    simp only [List.cons_append, List.dropWhile_cons]
    split
    · exact ih
    · right
      exact ⟨(b :: R).reverse, by simp, by simp⟩

theorem tsp_trimStart_dup (ws : Char → Bool) (hsp : ws ' ' = true) (A B : List Char) :
    trimStart ws (A ++ ' ' :: ' ' :: B) = trimStart ws (A ++ ' ' :: B) ∨
    ∃ A2, trimStart ws (A ++ ' ' :: ' ' :: B) = A2 ++ ' ' :: ' ' :: B ∧ trimStart ws (A ++ ' ' :: B) = A2 ++ ' ' :: B := by
  unfold trimStart
  induction A with
  | nil => left; simp [List.dropWhile_cons, hsp]
  | cons a A ih =>
    simp only [List.cons_append, List.dropWhile_cons]
    split
    · exact ih
    · right; exact ⟨a :: A, rfl, rfl⟩

/-- one more blank next to a blank does not change `text_trimmed` -/
theorem tsp_trimmedOf_dup (ws : Char → Bool) (hsp : ws ' ' = true) (A B : List Char) :
    trimmedOf ws (A ++ ' ' :: ' ' :: B) = trimmedOf ws (A ++ ' ' :: B) := by
  rw [tsp_trimmedOf_eq ws hsp, tsp_trimmedOf_eq ws hsp]
  unfold trim
  rcases tsp_trimStart_dup ws hsp A B with e | ⟨A2, e1, e2⟩
  · rw [e]
  · rw [e1, e2]
    rcases tsp_trimEnd_dup ws hsp A2 B with e | ⟨B2, e3, e4⟩
    · rw [e]
    · rw [e3, e4, tsp_collapse_dup]

/-- any number of blanks in front of a blank -/
theorem tsp_trimmedOf_blanks (ws : Char → Bool) (hsp : ws ' ' = true) (A S B : List Char) (hS : ∀ c ∈ S, c = ' ') :
    trimmedOf ws (A ++ S ++ ' ' :: B) = trimmedOf ws (A ++ ' ' :: B) := by
  induction S generalizing A with
  | nil => simp
  | cons c S ih =>
    have hc : c = ' ' := hS c (by simp)
    subst hc
    have := ih (A ++ [' ']) (fun c hc => hS c (by simp [hc]))
    simp only [List.append_assoc, List.cons_append, List.nil_append] at this ⊢
    rw [this, tsp_trimmedOf_dup ws hsp]

/-- **blanks in front of a line break inside a text run do not change `text_trimmed`** -/
theorem tsp_buildText_ws_before_newline (cs : CharSpec) (hsp : cs.uws ' ' = true) (off off' : Nat)
    (xs ys : List Tok) (w nl : Tok) (hw : w.kind = .ws) (hS : ∀ c ∈ w.text, c = ' ')
    (hn : nl.kind = .newline) (hne : nl.text ≠ []) :
    (buildText off' (xs ++ [w, nl] ++ ys)).trimmed cs = (buildText off (xs ++ [nl] ++ ys)).trimmed cs := by
  rw [tsp_trimmed_eq, tsp_trimmed_eq, buildText_text, buildText_text]
  have e1 : vis w = w.text := by simp [vis, hw]
  have e2 : vis nl = [' '] := by simp [vis, hn, hne]
  simp only [List.flatMap_append, List.flatMap_cons, List.flatMap_nil, List.append_nil, e1, e2]
  have := tsp_trimmedOf_blanks cs.uws hsp (xs.flatMap vis) w.text (ys.flatMap vis) hS
  simpa [List.append_assoc] using this

end Cook
