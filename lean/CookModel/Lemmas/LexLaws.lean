import CookModel.Lemmas.Lexer
import CookModel.Lemmas.Text
import CookModel.Lemmas.TextLaws
/-
  Laws of the lexer model (`lexOne`, `lexFrom`, `lex`):
  * CRLF conversion does not change the token kinds nor the texts of tokens other than newlines
    and comments (C17);
  * the lexer reads back every well spelled token list (C01) and only produces well spelled
    token lists (C04).
-/
namespace Cook

/-! ## generic list facts -/

theorem lexlaws_take_takeWhile (p : Char → Bool) (l : List Char) :
    l.take (l.takeWhile p).length = l.takeWhile p := by
  induction l with
  | nil => simp
  | cons a l ih => by_cases h : p a <;> simp [h, ih]

theorem lexlaws_drop_takeWhile (p : Char → Bool) (l : List Char) :
    l.drop (l.takeWhile p).length = l.dropWhile p := by
  induction l with
  | nil => simp
  | cons a l ih => by_cases h : p a <;> simp [h, ih]

theorem lexlaws_cons_congr {α : Type} {a b : α} {l m : List α} (h1 : a = b) (h2 : l = m) : a :: l = b :: m := by
  rw [h1, h2]

/-! ## CRLF conversion -/

/-- `crlfAux prevCR s`: every `'\n'` that is not preceded by `'\r'` (`prevCR` tells whether the
    character before `s` was a `'\r'`) is replaced by `"\r\n"`. -/
def crlfAux (prevCR : Bool) : List Char → List Char
  | [] => []
  | c :: t => (if c = '\n' ∧ prevCR = false then ['\r', '\n'] else [c]) ++ crlfAux (c == '\r') t

/-- replace every `'\n'` that is not already preceded by `'\r'` with `"\r\n"` -/
def crlf (s : List Char) : List Char := crlfAux false s

/-- no `'\r'` that is not followed by `'\n'` (not needed by the lexer law, see `lexFrom_crlf`) -/
def noLoneCR : List Char → Bool
  | [] => true
  | c :: t => (c != '\r' || t.head? == some '\n') && noLoneCR t

/-- the inputs of the CRLF law: no backslash (an escape would take the LF before, the CR after
    the conversion).  A lone CR needs not be excluded at the level of the lexer: it starts a
    word (or is a punctuation token) before and after, and the conversion does not touch it. -/
def CrlfSafe (s : List Char) : Prop := '\\' ∉ s

instance (s : List Char) : Decidable (CrlfSafe s) := by unfold CrlfSafe; infer_instance

theorem crlfAux_true_of_head (t : List Char) (h : t.head? ≠ some '\n') :
    crlfAux true t = crlfAux false t := by
  cases t with
  | nil => rfl
  | cons c t =>
    have : c ≠ '\n' := by simpa using h
    simp [crlfAux, this]

@[simp] theorem crlf_nil : crlf [] = [] := rfl

theorem crlf_lf (t : List Char) : crlf ('\n' :: t) = '\r' :: '\n' :: crlf t := by
  simp [crlf, crlfAux]

theorem crlf_crlf (t : List Char) : crlf ('\r' :: '\n' :: t) = '\r' :: '\n' :: crlf t := by
  simp [crlf, crlfAux]

theorem crlf_other (c : Char) (t : List Char) (h1 : c ≠ '\n') (h2 : ¬ (c = '\r' ∧ t.head? = some '\n')) :
    crlf (c :: t) = c :: crlf t := by
  unfold crlf
  by_cases hc : c = '\r'
  · subst hc
    have : t.head? ≠ some '\n' := by simpa using h2
    simp [crlfAux, crlfAux_true_of_head t this]
  · have hb : (c == '\r') = false := by simpa using hc
    simp [crlfAux, h1, hb]

/-- induction along the three shapes of `crlf` -/
theorem crlf_induct {motive : List Char → Prop} (nil : motive [])
    (lf : ∀ t, motive t → motive ('\n' :: t))
    (crlf : ∀ t, motive t → motive ('\r' :: '\n' :: t))
    (other : ∀ c t, c ≠ '\n' → ¬ (c = '\r' ∧ t.head? = some '\n') → motive t → motive (c :: t))
    (s : List Char) : motive s := by
  have : ∀ n (s : List Char), s.length ≤ n → motive s := by
    intro n
    induction n with
    | zero => intro s hs; cases s with
      | nil => exact nil
      | cons _ _ => simp at hs
    | succ n ih =>
      intro s hs
      cases s with
      | nil => exact nil
      | cons c t =>
        simp only [List.length_cons] at hs
        by_cases h1 : c = '\n'
        · subst h1; exact lf t (ih t (by omega))
        · by_cases h2 : c = '\r' ∧ t.head? = some '\n'
          · obtain ⟨rfl, h3⟩ := h2
            cases t with
            | nil => simp at h3
            | cons d t =>
              simp only [List.head?_cons, Option.some.injEq] at h3
              subst h3
              simp only [List.length_cons] at hs
              exact crlf t (ih t (by omega))
          · exact other c t h1 h2 (ih t (by omega))
  exact this s.length s (Nat.le_refl _)

theorem crlf_head? (s : List Char) : (crlf s).head? = s.head?.map (fun c => if c = '\n' then '\r' else c) := by
  cases s with
  | nil => rfl
  | cons c t => by_cases h : c = '\n' <;> simp [crlf, crlfAux, h]

theorem crlf_head?_ne_lf (s : List Char) : (crlf s).head? ≠ some '\n' := by
  rw [crlf_head?]
  cases s with
  | nil => simp
  | cons c t => by_cases h : c = '\n' <;> simp [h]

theorem crlf_head?_eq {s : List Char} {x : Char} (h1 : x ≠ '\r') :
    (crlf s).head? = some x ↔ s.head? = some x ∧ x ≠ '\n' := by
  rw [crlf_head?]
  cases s with
  | nil => simp
  | cons c t =>
    by_cases h : c = '\n'
    · subst h; simp
      constructor
      · intro h; exact absurd h.symm h1
      · intro h; exact absurd h.1.symm h.2
    · simp [h]; intro h'; subst h'; exact h

theorem crlf_takeWhile (p : Char → Bool) (h1 : p '\r' = false) (h2 : p '\n' = false) (r : List Char) :
    (crlf r).takeWhile p = r.takeWhile p ∧ (crlf r).dropWhile p = crlf (r.dropWhile p) := by
  induction r using crlf_induct with
  | nil => simp
  | lf t _ => simp [crlf_lf, h1, h2]
  | crlf t _ => simp [crlf_crlf, h1]
  | other c t hc1 hc2 ih =>
    rw [crlf_other c t hc1 hc2]
    by_cases hp : p c
    · simp [hp, ih.1, ih.2]
    · simp [hp, crlf_other c t hc1 hc2]

/-- a line comment stops at the same `'\n'`; the CR inserted before it is swallowed by the comment -/
theorem crlf_dropWhile_nl (r : List Char) :
    (crlf r).dropWhile (· ≠ '\n') =
      match r.dropWhile (· ≠ '\n') with
      | [] => []
      | _ :: t => '\n' :: crlf t := by
  induction r using crlf_induct with
  | nil => simp
  | lf t _ => simp [crlf_lf]
  | crlf t _ => simp [crlf_crlf]
  | other c t hc1 hc2 ih =>
    rw [crlf_other c t hc1 hc2]
    simpa [hc1] using ih

theorem blockScan_step (c : Char) (t : List Char) (h : ¬ (c = '-' ∧ t.head? = some ']')) :
    blockScan (c :: t) = blockScan t + 1 := by
  rw [blockScan, Nat.add_comm]
  intro u h1 h2
  exact h ⟨h1, by rw [h2]; rfl⟩

theorem blockScan_close (t : List Char) : blockScan ('-' :: ']' :: t) = 2 := by
  simp [blockScan]

/-- a block comment ends at the same place -/
theorem crlf_blockScan (r : List Char) :
    (crlf r).drop (blockScan (crlf r)) = crlf (r.drop (blockScan r)) := by
  induction r using crlf_induct with
  | nil => simp [blockScan]
  | lf t ih =>
    rw [crlf_lf, blockScan_step '\n' t (by simp), blockScan_step '\r' _ (by simp),
      blockScan_step '\n' _ (by simp)]
    simpa using ih
  | crlf t ih =>
    rw [crlf_crlf, blockScan_step '\r' _ (by simp), blockScan_step '\n' _ (by simp),
      blockScan_step '\r' _ (by simp), blockScan_step '\n' _ (by simp)]
    simpa using ih
  | other c t hc1 hc2 ih =>
    rw [crlf_other c t hc1 hc2]
    by_cases hm : c = '-' ∧ t.head? = some ']'
    · obtain ⟨rfl, hh⟩ := hm
      cases t with
      | nil => simp at hh
      | cons d u =>
        simp only [List.head?_cons, Option.some.injEq] at hh
        subst hh
        rw [crlf_other ']' u (by decide) (by simp)]
        simp [blockScan_close]
    · have hm' : ¬ (c = '-' ∧ (crlf t).head? = some ']') := by
        intro h
        exact hm ⟨h.1, ((crlf_head?_eq (s := t) (x := ']') (by decide)).1 h.2).1⟩
      rw [blockScan_step c t hm, blockScan_step c _ hm']
      simpa using ih

theorem crlf_tw (p : Char → Bool) (h1 : p '\r' = false) (h2 : p '\n' = false) (r : List Char) :
    ((crlf r).takeWhile p).length = (r.takeWhile p).length ∧
    (crlf r).take (r.takeWhile p).length = r.take (r.takeWhile p).length ∧
    (crlf r).drop (r.takeWhile p).length = crlf (r.drop (r.takeWhile p).length) := by
  obtain ⟨e1, e2⟩ := crlf_takeWhile p h1 h2 r
  refine ⟨by rw [e1], ?_, ?_⟩
  · rw [lexlaws_take_takeWhile, ← e1, lexlaws_take_takeWhile, e1]
  · rw [lexlaws_drop_takeWhile, ← e1, lexlaws_drop_takeWhile, e2]

/-- the facts about the character tables the CRLF law needs: CR and LF are neither lexer
    whitespace nor word characters (true of the generated table: U+000A and U+000D carry only
    the `char::is_whitespace` bit) -/
structure CrlfSpec (cs : CharSpec) : Prop where
  ws_cr : cs.ws '\r' = false
  ws_lf : cs.ws '\n' = false
  word_cr : cs.wordChar '\r' = false
  word_lf : cs.wordChar '\n' = false

/-- the kinds whose text contains the line ending: their text changes under CRLF conversion -/
def crlfVolatile (k : TK) : Bool := k == .newline || k == .lineComment || k == .blockComment

/-- what CRLF conversion preserves of a token: its kind, and its text unless it is a newline or
    a comment -/
def tokAbs (t : Tok) : TK × List Char := (t.kind, if crlfVolatile t.kind then [] else t.text)

theorem lexFrom_cons (cs : CharSpec) (off : Nat) (c : Char) (rest : List Char) :
    lexFrom cs off (c :: rest) =
      ⟨(lexOne cs c rest).1, c :: rest.take (lexOne cs c rest).2, off⟩ ::
        lexFrom cs (off + utf8Len (c :: rest.take (lexOne cs c rest).2)) (rest.drop (lexOne cs c rest).2) := by
  rw [lexFrom]

theorem lexOne_lf (cs : CharSpec) (rest : List Char) : lexOne cs '\n' rest = (.newline, 0) := by
  simp [lexOne]

theorem lexOne_crlf (cs : CharSpec) (rest : List Char) : lexOne cs '\r' ('\n' :: rest) = (.newline, 1) := by
  simp [lexOne]

theorem lexlaws_dropWhile_head (p : Char → Bool) (r : List Char) (x : Char) (t : List Char)
    (h : r.dropWhile p = x :: t) : p x = false := by
  induction r with
  | nil => simp at h
  | cons a r ih =>
    by_cases hp : p a
    · simp [hp] at h; exact ih h
    · simp [hp] at h; rw [← h.1]; simpa using hp

theorem lexOne_crlf_step (cs : CharSpec) (hcs : CrlfSpec cs) (c : Char) (rest : List Char)
    (h1 : c ≠ '\\') (h2 : c ≠ '\n') (h3 : ¬ (c = '\r' ∧ rest.head? = some '\n')) :
    (lexOne cs c (crlf rest)).1 = (lexOne cs c rest).1 ∧
    (crlfVolatile (lexOne cs c rest).1 = false →
      (crlf rest).take (lexOne cs c (crlf rest)).2 = rest.take (lexOne cs c rest).2) ∧
    ((crlf rest).drop (lexOne cs c (crlf rest)).2 = crlf (rest.drop (lexOne cs c rest).2) ∨
      ∃ t, rest.drop (lexOne cs c rest).2 = '\n' :: t ∧
        (crlf rest).drop (lexOne cs c (crlf rest)).2 = '\n' :: crlf t) := by
  have h3' : ¬ (c = '\r' ∧ (crlf rest).head? = some '\n') := fun h => crlf_head?_ne_lf rest h.2
  have hgt : (crlf rest).head? = some '>' ↔ rest.head? = some '>' := by
    rw [crlf_head?_eq (by decide)]; simp
  have hmi : (crlf rest).head? = some '-' ↔ rest.head? = some '-' := by
    rw [crlf_head?_eq (by decide)]; simp
  by_cases c1 : c = '>'
  · subst c1
    by_cases hh : rest.head? = some '>'
    · cases rest with
      | nil => simp at hh
      | cons d t =>
        simp only [List.head?_cons, Option.some.injEq] at hh
        subst hh
        simp [lexOne, crlf_other '>' t (by decide) (by simp), crlfVolatile]
    · have hh' := mt hgt.1 hh
      simp [lexOne, hh, hh', crlfVolatile]
  by_cases c2 : c = '-'
  · subst c2
    by_cases hh : rest.head? = some '-'
    · have hh' := hmi.2 hh
      refine ⟨by simp [lexOne, hh, hh'], by simp [lexOne, hh, crlfVolatile], ?_⟩
      have e1 : (lexOne cs '-' rest).2 = (rest.takeWhile (· ≠ '\n')).length := by simp [lexOne, hh]
      have e2 : (lexOne cs '-' (crlf rest)).2 = ((crlf rest).takeWhile (· ≠ '\n')).length := by
        simp [lexOne, hh']
      rw [e1, e2, lexlaws_drop_takeWhile, lexlaws_drop_takeWhile, crlf_dropWhile_nl]
      cases hd : rest.dropWhile (· ≠ '\n') with
      | nil => left; simp
      | cons x t =>
        right
        have := lexlaws_dropWhile_head _ _ _ _ hd
        have hx : x = '\n' := by simpa using this
        subst hx
        exact ⟨t, rfl, rfl⟩
    · have hh' := mt hmi.1 hh
      simp [lexOne, hh, hh', crlfVolatile]
  by_cases c3 : c = '[' ∧ rest.head? = some '-'
  · obtain ⟨rfl, hh⟩ := c3
    have hh' := hmi.2 hh
    refine ⟨by simp [lexOne, hh, hh'], by simp [lexOne, hh, crlfVolatile], ?_⟩
    left
    cases rest with
    | nil => simp at hh
    | cons d t =>
      simp only [List.head?_cons, Option.some.injEq] at hh
      subst hh
      have e := crlf_other '-' t (by decide) (by simp)
      have e1 : (lexOne cs '[' ('-' :: t)).2 = blockScan t + 1 := by simp [lexOne, Nat.add_comm]
      have e2 : (lexOne cs '[' ('-' :: crlf t)).2 = blockScan (crlf t) + 1 := by simp [lexOne, Nat.add_comm]
      rw [e, e1, e2]
      simpa using crlf_blockScan t
  have c3' : ¬ (c = '[' ∧ (crlf rest).head? = some '-') := fun h => c3 ⟨h.1, hmi.1 h.2⟩
  have hd := crlf_tw isAsciiDigit (by decide) (by decide) rest
  have hw := crlf_tw cs.ws hcs.ws_cr hcs.ws_lf rest
  have hwc := crlf_tw cs.wordChar hcs.word_cr hcs.word_lf rest
  by_cases c4 : isAsciiDigit c
  · simp [lexOne, h1, h2, h3, h3', c1, c2, c3, c3', c4, crlfVolatile, hd]
  cases hs : singleKind c with
  | some k => simp [lexOne, h1, h2, h3, h3', c1, c2, c3, c3', c4, hs]
  | none =>
    by_cases c5 : cs.ws c
    · simp [lexOne, h1, h2, h3, h3', c1, c2, c3, c3', c4, hs, c5, crlfVolatile, hw]
    · by_cases c6 : cs.punct c
      · simp [lexOne, h1, h2, h3, h3', c1, c2, c3, c3', c4, hs, c5, c6]
      · simp [lexOne, h1, h2, h3, h3', c1, c2, c3, c3', c4, hs, c5, c6, crlfVolatile, hwc]

theorem CrlfSafe.tail {c : Char} {t : List Char} (h : CrlfSafe (c :: t)) : CrlfSafe t :=
  fun hm => h (List.mem_cons_of_mem _ hm)

theorem CrlfSafe.drop {s : List Char} (h : CrlfSafe s) (n : Nat) : CrlfSafe (s.drop n) :=
  fun hm => h (List.mem_of_mem_drop hm)

theorem CrlfSafe.head_ne {c : Char} {t : List Char} (h : CrlfSafe (c :: t)) : c ≠ '\\' := by
  intro hc; exact h (by simp [hc])

/-- CRLF conversion changes neither the kinds of the tokens nor the texts of the tokens other
    than newlines and comments (whatever the start offsets are). -/
theorem lexFrom_crlf (cs : CharSpec) (hcs : CrlfSpec cs) (s : List Char) (hs : CrlfSafe s) (off off' : Nat) :
    (lexFrom cs off' (crlf s)).map tokAbs = (lexFrom cs off s).map tokAbs := by
  have main : ∀ n (s : List Char), s.length ≤ n → CrlfSafe s → ∀ off off',
      (lexFrom cs off' (crlf s)).map tokAbs = (lexFrom cs off s).map tokAbs := by
    intro n
    induction n with
    | zero =>
      intro s hl _ off off'
      cases s with
      | nil => simp [lexFrom]
      | cons _ _ => simp at hl
    | succ n ih =>
      intro s hl hs off off'
      cases s with
      | nil => simp [lexFrom]
      | cons c rest =>
        simp only [List.length_cons] at hl
        by_cases h2 : c = '\n'
        · subst h2
          rw [crlf_lf, lexFrom_cons, lexFrom_cons]
          simp only [lexOne_lf, lexOne_crlf, List.map_cons, List.drop_succ_cons, List.drop_zero]
          exact lexlaws_cons_congr (by simp [tokAbs, crlfVolatile]) (ih rest (by omega) hs.tail _ _)
        by_cases h3 : c = '\r' ∧ rest.head? = some '\n'
        · obtain ⟨rfl, h4⟩ := h3
          obtain ⟨u, rfl⟩ : ∃ u, rest = '\n' :: u := by
            cases rest with
            | nil => simp at h4
            | cons d u => exact ⟨u, by simp at h4; rw [h4]⟩
          simp only [List.length_cons] at hl
          rw [crlf_crlf, lexFrom_cons, lexFrom_cons]
          simp only [lexOne_crlf, List.map_cons, List.drop_succ_cons, List.drop_zero]
          exact lexlaws_cons_congr (by simp [tokAbs, crlfVolatile]) (ih u (by omega) hs.tail.tail _ _)
        · have h1 := hs.head_ne
          rw [crlf_other c rest h2 h3, lexFrom_cons, lexFrom_cons]
          obtain ⟨hk, htxt, hrest⟩ := lexOne_crlf_step cs hcs c rest h1 h2 h3
          have hle := lexOne_le cs c rest
          simp only [List.map_cons]
          congr 1
          · unfold tokAbs
            simp only [hk]
            cases hv : crlfVolatile (lexOne cs c rest).1
            · simp [htxt hv]
            · simp
          · rcases hrest with e | ⟨t, e1, e2⟩
            · rw [e]
              exact ih _ (by rw [List.length_drop]; omega) (hs.tail.drop _) _ _
            · rw [e1, e2, lexFrom_cons, lexFrom_cons]
              simp only [lexOne_lf, List.map_cons, List.drop_zero]
              have hl2 : t.length ≤ n := by
                have := congrArg List.length e1
                rw [List.length_drop] at this
                simp only [List.length_cons] at this
                omega
              have hst : CrlfSafe t := by
                have := hs.tail.drop (lexOne cs c rest).2
                rw [e1] at this
                exact this.tail
              exact lexlaws_cons_congr (by simp [tokAbs, crlfVolatile]) (ih t hl2 hst _ _)
  exact main s.length s (Nat.le_refl _) hs off off'

theorem lex_crlf (cs : CharSpec) (hcs : CrlfSpec cs) (s : List Char) (hs : CrlfSafe s) :
    (lex cs (crlf s)).map tokAbs = (lex cs s).map tokAbs := lexFrom_crlf cs hcs s hs 0 0

/-- the visible text of a token, from what CRLF conversion preserves of it -/
def visAbs (a : TK × List Char) : List Char :=
  match a.1 with
  | .newline => [' ']
  | .lineComment | .blockComment => []
  | .escaped => a.2.tail
  | _ => a.2

theorem vis_eq_visAbs (t : Tok) (h : t.text ≠ []) : vis t = visAbs (tokAbs t) := by
  unfold vis visAbs tokAbs
  cases hk : t.kind <;> simp [crlfVolatile, h]

theorem lexFrom_map_vis (cs : CharSpec) (off : Nat) (s : List Char) :
    (lexFrom cs off s).map vis = ((lexFrom cs off s).map tokAbs).map visAbs := by
  rw [List.map_map]
  apply List.map_congr_left
  intro t ht
  exact vis_eq_visAbs t (lexFrom_nonempty cs off s t ht)

/-- token by token, the visible text is the same after CRLF conversion -/
theorem lex_crlf_vis (cs : CharSpec) (hcs : CrlfSpec cs) (s : List Char) (hs : CrlfSafe s) :
    (lex cs (crlf s)).map vis = (lex cs s).map vis := by
  unfold lex
  rw [lexFrom_map_vis, lexFrom_map_vis, lexFrom_crlf cs hcs s hs 0 0]

/-- every run (tokens `i … i+j-1`) has the same visible text after CRLF conversion -/
theorem lex_crlf_run_vis (cs : CharSpec) (hcs : CrlfSpec cs) (s : List Char) (hs : CrlfSafe s) (i j : Nat) :
    (((lex cs (crlf s)).drop i).take j).flatMap vis = (((lex cs s).drop i).take j).flatMap vis := by
  rw [List.flatMap_def, List.flatMap_def, List.map_take, List.map_take, List.map_drop, List.map_drop,
    lex_crlf_vis cs hcs s hs]

/-! ## spelling of tokens: what the lexer produces, and reads back -/

/-- the text a printer writes for a token list -/
def render (ts : List Tok) : List Char := ts.flatMap (·.text)

/-- `c` is none of the characters `advance_token` handles before the Unicode classes: backslash,
    `>`, `-`, LF, an ASCII digit, a character of the single character table; and with `look` the
    character after it, it neither opens a block comment (`[-`) nor is the CR of a CRLF -/
def fallsThrough (c : Char) (look : Option Char) : Bool :=
  c != '\\' && c != '>' && c != '-' && c != '\n' && !isAsciiDigit c && (singleKind c).isNone &&
  !(c == '[' && look == some '-') && !(c == '\r' && look == some '\n')

/-- `text` is the spelling of a token of kind `k` when the next character of the input is `next`
    (`none`: end of input): exactly the conditions under which `advance_token` produces that
    token with that text. -/
def spellOK (cs : CharSpec) (k : TK) (text : List Char) (next : Option Char) : Bool :=
  match text with
  | [] => false
  | c :: r =>
    match k with
    | .escaped => c == '\\' && (r.length == 1 || (r.isEmpty && next.isNone))
    | .metaStart => c == '>' && r == ['>']
    | .textStep => c == '>' && r.isEmpty && next != some '>'
    | .minus => c == '-' && r.isEmpty && next != some '-'
    | .lineComment =>
      c == '-' && r.head? == some '-' && r.all (· ≠ '\n') && (next.isNone || next == some '\n')
    | .blockComment =>
      c == '[' && r.head? == some '-' && blockScan r.tail == r.tail.length &&
        (['-', ']'].isSuffixOf r.tail || next.isNone)
    | .newline => (c == '\n' && r.isEmpty) || (c == '\r' && r == ['\n'])
    | .int => isAsciiDigit c && r.all isAsciiDigit && (c != '0' || r.isEmpty) && !(next.any isAsciiDigit)
    | .zeroInt => c == '0' && !r.isEmpty && r.all isAsciiDigit && !(next.any isAsciiDigit)
    | .ws => fallsThrough c (r ++ next.toList).head? && cs.ws c && r.all cs.ws && !(next.any cs.ws)
    | .punct => fallsThrough c (r ++ next.toList).head? && !cs.ws c && cs.punct c && r.isEmpty
    | .word =>
      fallsThrough c (r ++ next.toList).head? && !cs.ws c && !cs.punct c && r.all cs.wordChar &&
        !(next.any cs.wordChar)
    | k => r.isEmpty && singleKind c == some k

/-- every token is spelled as the lexer spells it, given the first character of what follows -/
def wellSpelled (cs : CharSpec) : List Tok → Bool
  | [] => true
  | t :: ts => spellOK cs t.kind t.text (render ts).head? && wellSpelled cs ts

/-- the token lists a printer may emit: each token's text is what the lexer produces for its
    kind when followed by the next token's first character (decidable) -/
abbrev WellSpelled (cs : CharSpec) (ts : List Tok) : Prop := wellSpelled cs ts = true

theorem lexlaws_takeWhile_append (p : Char → Bool) (r more : List Char) (h1 : r.all p = true)
    (h2 : more.head?.any p = false) : ((r ++ more).takeWhile p).length = r.length := by
  induction r with
  | nil =>
    cases more with
    | nil => simp
    | cons m ms => simp at h2; simp [h2]
  | cons a r ih =>
    simp only [List.all_cons, Bool.and_eq_true] at h1
    simp [h1.1, ih h1.2]

theorem singleTable_chars : ∀ q ∈ singleTable, q.1 ≠ '\\' ∧ q.1 ≠ '>' ∧ q.1 ≠ '-' ∧ q.1 ≠ '[' ∧ q.1 ≠ '\n' ∧
    q.1 ≠ '\r' ∧ isAsciiDigit q.1 = false := by decide

theorem singleKind_some {c : Char} {k : TK} (h : singleKind c = some k) :
    c ≠ '\\' ∧ c ≠ '>' ∧ c ≠ '-' ∧ c ≠ '[' ∧ c ≠ '\n' ∧ c ≠ '\r' ∧ isAsciiDigit c = false := by
  unfold singleKind at h
  cases hf : singleTable.find? (fun p => p.1 == c) with
  | none => rw [hf] at h; simp at h
  | some q =>
    have hm := List.mem_of_find?_eq_some hf
    have hq := List.find?_some hf
    have hc : q.1 = c := by simpa using hq
    rw [← hc]
    exact singleTable_chars q hm

theorem isAsciiDigit_ne {c : Char} (h : isAsciiDigit c = true) :
    c ≠ '\\' ∧ c ≠ '>' ∧ c ≠ '-' ∧ c ≠ '[' ∧ c ≠ '\n' ∧ c ≠ '\r' := by
  refine ⟨?_, ?_, ?_, ?_, ?_, ?_⟩ <;> (intro hc; subst hc; revert h; decide)

theorem lexOne_single (cs : CharSpec) {c : Char} {k : TK} (rest : List Char) (h : singleKind c = some k) :
    lexOne cs c rest = (k, 0) := by
  obtain ⟨h1, h2, h3, h4, h5, h6, h7⟩ := singleKind_some h
  simp [lexOne, h1, h2, h3, h4, h5, h6, h7, h]

theorem lexOne_digit (cs : CharSpec) {c : Char} (rest : List Char) (h : isAsciiDigit c = true) :
    lexOne cs c rest =
      (if c = '0' ∧ (rest.takeWhile isAsciiDigit).length > 0 then .zeroInt else .int,
        (rest.takeWhile isAsciiDigit).length) := by
  obtain ⟨h1, h2, h3, h4, h5, h6⟩ := isAsciiDigit_ne h
  simp [lexOne, h1, h2, h3, h4, h5, h6, h]

theorem lexOne_fall (cs : CharSpec) {c : Char} (rest : List Char) (h : fallsThrough c rest.head? = true) :
    lexOne cs c rest =
      if cs.ws c then (.ws, (rest.takeWhile cs.ws).length)
      else if cs.punct c then (.punct, 0)
      else (.word, (rest.takeWhile cs.wordChar).length) := by
  simp only [fallsThrough, Bool.and_eq_true, bne_iff_ne, ne_eq, Bool.not_eq_true', Option.isNone_iff_eq_none,
    Bool.and_eq_false_imp, beq_iff_eq] at h
  obtain ⟨⟨⟨⟨⟨⟨⟨h1, h2⟩, h3⟩, h4⟩, h5⟩, h6⟩, h7⟩, h8⟩ := h
  have h7' : ¬ (c = '[' ∧ rest.head? = some '-') := fun hh => by have := h7 hh.1; simp [hh.2] at this
  have h8' : ¬ (c = '\r' ∧ rest.head? = some '\n') := fun hh => by have := h8 hh.1; simp [hh.2] at this
  simp [lexOne, h1, h2, h3, h4, h5, h6, h7', h8']

theorem lexlaws_head_append (r more : List Char) : (r ++ more.head?.toList).head? = (r ++ more).head? := by
  cases r with
  | nil => cases more <;> simp
  | cons a r => simp

theorem blockScan_append (r more : List Char) (h1 : blockScan r = r.length)
    (h2 : ['-', ']'] <:+ r ∨ more = []) : blockScan (r ++ more) = r.length := by
  induction r with
  | nil =>
    rcases h2 with h2 | h2
    · simp at h2
    · simp [h2, blockScan]
  | cons c t ih =>
    by_cases hm : c = '-' ∧ t.head? = some ']'
    · obtain ⟨rfl, hh⟩ := hm
      cases t with
      | nil => simp at hh
      | cons d u =>
        simp only [List.head?_cons, Option.some.injEq] at hh
        subst hh
        rw [blockScan_close] at h1
        simp only [List.length_cons] at h1
        have : u = [] := List.eq_nil_of_length_eq_zero (by omega)
        subst this
        simp [blockScan_close]
    · rw [blockScan_step c t hm] at h1
      simp only [List.length_cons, Nat.add_right_cancel_iff] at h1
      have h2' : ['-', ']'] <:+ t ∨ more = [] := by
        rcases h2 with h2 | h2
        · rw [List.suffix_cons_iff] at h2
          rcases h2 with h2 | h2
          · simp only [List.cons.injEq] at h2
            exact absurd ⟨h2.1.symm, by rw [← h2.2]; rfl⟩ hm
          · exact Or.inl h2
        · exact Or.inr h2
      have hm' : ¬ (c = '-' ∧ (t ++ more).head? = some ']') := by
        intro hh
        cases t with
        | nil =>
          rcases h2' with h | h
          · simp at h
          · subst h; simp at hh
        | cons d u => exact hm ⟨hh.1, by simpa using hh.2⟩
      rw [List.cons_append, blockScan_step c _ hm', ih h1 h2']
      simp

/-- a token spelled as `spellOK` demands is what the lexer reads at the start of `text ++ more` -/
theorem lexOne_of_spellOK (cs : CharSpec) (k : TK) (c : Char) (r more : List Char)
    (h : spellOK cs k (c :: r) more.head? = true) : lexOne cs c (r ++ more) = (k, r.length) := by
  have hfall : ∀ (hf : fallsThrough c (r ++ more.head?.toList).head? = true), _ :=
    fun hf => lexOne_fall cs (r ++ more) (by rw [← lexlaws_head_append]; exact hf)
  cases k
  case escaped =>
    simp only [spellOK, Bool.and_eq_true, beq_iff_eq, Bool.or_eq_true, List.isEmpty_iff,
      Option.isNone_iff_eq_none] at h
    obtain ⟨rfl, h | ⟨rfl, h⟩⟩ := h
    · cases r with
      | nil => simp at h
      | cons a r => simp [lexOne]; simpa using h
    · cases more <;> simp_all [lexOne]
  case metaStart =>
    simp only [spellOK, Bool.and_eq_true, beq_iff_eq] at h
    obtain ⟨rfl, rfl⟩ := h
    simp [lexOne]
  case textStep =>
    simp only [spellOK, Bool.and_eq_true, beq_iff_eq, List.isEmpty_iff, bne_iff_ne, ne_eq] at h
    obtain ⟨⟨rfl, rfl⟩, h⟩ := h
    simp [lexOne, h]
  case minus =>
    simp only [spellOK, Bool.and_eq_true, beq_iff_eq, List.isEmpty_iff, bne_iff_ne, ne_eq] at h
    obtain ⟨⟨rfl, rfl⟩, h⟩ := h
    simp [lexOne, h]
  case lineComment =>
    simp only [spellOK, Bool.and_eq_true, beq_iff_eq, Bool.or_eq_true, Option.isNone_iff_eq_none] at h
    obtain ⟨⟨⟨rfl, h1⟩, h2⟩, h3⟩ := h
    have hh : (r ++ more).head? = some '-' := by
      cases r with
      | nil => simp at h1
      | cons a r => simpa using h1
    have := lexlaws_takeWhile_append (· ≠ '\n') r more (by simpa using h2)
      (by rcases h3 with h3 | h3 <;> simp [h3])
    simp only [lexOne, hh]
    simp
    simpa using this
  case blockComment =>
    simp only [spellOK, Bool.and_eq_true, beq_iff_eq, Bool.or_eq_true, Option.isNone_iff_eq_none,
      List.isSuffixOf_iff_suffix] at h
    obtain ⟨⟨⟨rfl, h1⟩, h2⟩, h3⟩ := h
    cases r with
    | nil => simp at h1
    | cons a r =>
      simp only [List.head?_cons, Option.some.injEq] at h1
      subst h1
      simp only [List.tail_cons] at h2 h3
      have := blockScan_append r more h2 (by
        rcases h3 with h3 | h3
        · exact Or.inl h3
        · right; cases more <;> simp_all)
      simp [lexOne, this, Nat.add_comm]
  case newline =>
    simp only [spellOK, Bool.and_eq_true, beq_iff_eq, Bool.or_eq_true, List.isEmpty_iff] at h
    rcases h with ⟨rfl, rfl⟩ | ⟨rfl, rfl⟩ <;> simp [lexOne]
  case int =>
    simp only [spellOK, Bool.and_eq_true, Bool.or_eq_true, bne_iff_ne, ne_eq, List.isEmpty_iff,
      Bool.not_eq_true'] at h
    obtain ⟨⟨⟨h1, h2⟩, h3⟩, h4⟩ := h
    have := lexlaws_takeWhile_append isAsciiDigit r more h2 h4
    rw [lexOne_digit cs _ h1, this]
    rcases h3 with h3 | rfl
    · simp [h3]
    · simp
  case zeroInt =>
    simp only [spellOK, Bool.and_eq_true, beq_iff_eq, Bool.not_eq_true', List.isEmpty_eq_false_iff] at h
    obtain ⟨⟨⟨rfl, h1⟩, h2⟩, h3⟩ := h
    have := lexlaws_takeWhile_append isAsciiDigit r more h2 h3
    rw [lexOne_digit cs _ (by decide), this]
    have : r.length > 0 := List.length_pos_iff.2 h1
    simp [this]
  case ws =>
    simp only [spellOK, Bool.and_eq_true, Bool.not_eq_true'] at h
    obtain ⟨⟨⟨h1, h2⟩, h3⟩, h4⟩ := h
    rw [hfall h1, lexlaws_takeWhile_append cs.ws r more h3 h4]
    simp [h2]
  case punct =>
    simp only [spellOK, Bool.and_eq_true, Bool.not_eq_true', List.isEmpty_iff] at h
    obtain ⟨⟨⟨h1, h2⟩, h3⟩, rfl⟩ := h
    rw [hfall h1]
    simp [h2, h3]
  case word =>
    simp only [spellOK, Bool.and_eq_true, Bool.not_eq_true'] at h
    obtain ⟨⟨⟨⟨h1, h2⟩, h3⟩, h4⟩, h5⟩ := h
    rw [hfall h1, lexlaws_takeWhile_append cs.wordChar r more h4 h5]
    simp [h2, h3]
  all_goals
    simp only [spellOK, Bool.and_eq_true, beq_iff_eq, List.isEmpty_iff] at h
    obtain ⟨rfl, h⟩ := h
    simpa using lexOne_single cs more h

theorem spellOK_nonempty {cs : CharSpec} {k : TK} {text : List Char} {next : Option Char}
    (h : spellOK cs k text next = true) : text ≠ [] := by
  intro h0; subst h0; simp [spellOK] at h

theorem lexFrom_render_cons (cs : CharSpec) (off : Nat) (t : Tok) (ts : List Tok)
    (h : spellOK cs t.kind t.text (render ts).head? = true) :
    lexFrom cs off (render (t :: ts)) =
      ⟨t.kind, t.text, off⟩ :: lexFrom cs (off + utf8Len t.text) (render ts) := by
  cases ht : t.text with
  | nil => rw [ht] at h; simp [spellOK] at h
  | cons c r =>
    rw [ht] at h
    have h1 := lexOne_of_spellOK cs t.kind c r (render ts) h
    have e : render (t :: ts) = c :: (r ++ render ts) := by simp [render, ht]
    rw [e, lexFrom_cons, h1]
    simp

/-- the lexer reads a well spelled token list back, token for token (kinds and texts) -/
theorem lexFrom_render (cs : CharSpec) (off : Nat) (ts : List Tok) (h : WellSpelled cs ts) :
    (lexFrom cs off (render ts)).map (fun t => (t.kind, t.text)) = ts.map (fun t => (t.kind, t.text)) := by
  induction ts generalizing off with
  | nil => simp [render, lexFrom]
  | cons t ts ih =>
    simp only [WellSpelled, wellSpelled, Bool.and_eq_true] at h
    rw [lexFrom_render_cons cs off t ts h.1]
    simp only [List.map_cons]
    rw [ih _ h.2]

/-- … and with the positions too, when the list carries contiguous positions from `off` -/
theorem lexFrom_render_chain (cs : CharSpec) (off : Nat) (ts : List Tok) (h : WellSpelled cs ts)
    (hc : Chain off ts) : lexFrom cs off (render ts) = ts := by
  induction ts generalizing off with
  | nil => simp [render, lexFrom]
  | cons t ts ih =>
    simp only [WellSpelled, wellSpelled, Bool.and_eq_true] at h
    obtain ⟨hs, hc'⟩ := hc
    rw [lexFrom_render_cons cs off t ts h.1]
    have : off + utf8Len t.text = t.stop := by simp [Tok.stop, hs]
    rw [this, ih _ h.2 hc']
    cases t
    simp_all

/-! ### the lexer only produces well spelled tokens -/

theorem blockScan_take (l : List Char) :
    blockScan (l.take (blockScan l)) = (l.take (blockScan l)).length ∧
    (['-', ']'] <:+ l.take (blockScan l) ∨ l.drop (blockScan l) = []) := by
  induction l with
  | nil => simp [blockScan]
  | cons c t ih =>
    by_cases hm : c = '-' ∧ t.head? = some ']'
    · obtain ⟨rfl, hh⟩ := hm
      cases t with
      | nil => simp at hh
      | cons d u =>
        simp only [List.head?_cons, Option.some.injEq] at hh
        subst hh
        simp [blockScan_close]
    · rw [blockScan_step c t hm]
      simp only [List.take_succ_cons, List.drop_succ_cons, List.length_cons]
      have hm' : ¬ (c = '-' ∧ (t.take (blockScan t)).head? = some ']') := by
        intro hh
        apply hm
        refine ⟨hh.1, ?_⟩
        have := hh.2
        cases t with
        | nil => simp at this
        | cons d u =>
          cases hb : blockScan (d :: u) with
          | zero => rw [hb] at this; simp at this
          | succ k => rw [hb] at this; simpa using this
      rw [blockScan_step c _ hm', ih.1]
      refine ⟨rfl, ?_⟩
      rcases ih.2 with h | h
      · exact Or.inl (List.suffix_cons_iff.2 (Or.inr h))
      · exact Or.inr h

theorem singleTable_kinds : ∀ q ∈ singleTable, q.2 ≠ .escaped ∧ q.2 ≠ .metaStart ∧ q.2 ≠ .textStep ∧ q.2 ≠ .minus ∧
    q.2 ≠ .lineComment ∧ q.2 ≠ .blockComment ∧ q.2 ≠ .newline ∧ q.2 ≠ .int ∧ q.2 ≠ .zeroInt ∧ q.2 ≠ .ws ∧
    q.2 ≠ .punct ∧ q.2 ≠ .word := by decide

theorem singleKind_kind {c : Char} {k : TK} (h : singleKind c = some k) :
    k ≠ .escaped ∧ k ≠ .metaStart ∧ k ≠ .textStep ∧ k ≠ .minus ∧ k ≠ .lineComment ∧ k ≠ .blockComment ∧
    k ≠ .newline ∧ k ≠ .int ∧ k ≠ .zeroInt ∧ k ≠ .ws ∧ k ≠ .punct ∧ k ≠ .word := by
  unfold singleKind at h
  cases hf : singleTable.find? (fun p => p.1 == c) with
  | none => rw [hf] at h; simp at h
  | some q =>
    rw [hf] at h
    simp only [Option.map_some, Option.some.injEq] at h
    rw [← h]
    exact singleTable_kinds q (List.mem_of_find?_eq_some hf)

theorem spellOK_single (cs : CharSpec) {c : Char} {k : TK} (next : Option Char) (h : singleKind c = some k) :
    spellOK cs k [c] next = true := by
  obtain ⟨h1, h2, h3, h4, h5, h6, h7, h8, h9, h10, h11, h12⟩ := singleKind_kind h
  cases k <;> first | contradiction | simp [spellOK, h]

theorem lexlaws_all_takeWhile (p : Char → Bool) (l : List Char) : (l.takeWhile p).all p = true := by
  induction l with
  | nil => simp
  | cons a l ih => by_cases h : p a <;> simp_all

theorem lexlaws_head_dropWhile (p : Char → Bool) (l : List Char) : (l.dropWhile p).head?.any p = false := by
  cases h : l.dropWhile p with
  | nil => simp
  | cons x t => simpa using lexlaws_dropWhile_head p l x t h

theorem lexlaws_span (p : Char → Bool) (rest : List Char) :
    (rest.take (rest.takeWhile p).length).all p = true ∧
    (rest.drop (rest.takeWhile p).length).head?.any p = false := by
  rw [lexlaws_take_takeWhile, lexlaws_drop_takeWhile]
  exact ⟨lexlaws_all_takeWhile p rest, lexlaws_head_dropWhile p rest⟩

theorem lexlaws_look (rest : List Char) (n : Nat) :
    (rest.take n ++ (rest.drop n).head?.toList).head? = rest.head? := by
  rw [lexlaws_head_append, List.take_append_drop]

theorem spellOK_lineComment_intro (cs : CharSpec) {r : List Char} {next : Option Char}
    (h1 : r.head? = some '-') (h2 : r.all (· ≠ '\n') = true) (h3 : next = none ∨ next = some '\n') :
    spellOK cs .lineComment ('-' :: r) next = true := by
  simp only [spellOK, Bool.and_eq_true, beq_iff_eq, Bool.or_eq_true, Option.isNone_iff_eq_none]
  exact ⟨⟨⟨trivial, h1⟩, h2⟩, h3⟩

theorem spellOK_int_intro (cs : CharSpec) {c : Char} {r : List Char} {next : Option Char}
    (h1 : isAsciiDigit c = true) (h2 : r.all isAsciiDigit = true) (h3 : c ≠ '0' ∨ r = [])
    (h4 : next.any isAsciiDigit = false) : spellOK cs .int (c :: r) next = true := by
  simp only [spellOK, Bool.and_eq_true, Bool.or_eq_true, bne_iff_ne, ne_eq, List.isEmpty_iff,
    Bool.not_eq_true']
  exact ⟨⟨⟨h1, h2⟩, h3⟩, h4⟩

theorem spellOK_zeroInt_intro (cs : CharSpec) {r : List Char} {next : Option Char}
    (h1 : r ≠ []) (h2 : r.all isAsciiDigit = true)
    (h4 : next.any isAsciiDigit = false) : spellOK cs .zeroInt ('0' :: r) next = true := by
  simp only [spellOK, Bool.and_eq_true, beq_iff_eq, Bool.not_eq_true', List.isEmpty_eq_false_iff]
  exact ⟨⟨⟨trivial, h1⟩, h2⟩, h4⟩

theorem spellOK_ws_intro (cs : CharSpec) {c : Char} {r : List Char} {next : Option Char}
    (h1 : fallsThrough c (r ++ next.toList).head? = true) (h2 : cs.ws c = true) (h3 : r.all cs.ws = true)
    (h4 : next.any cs.ws = false) : spellOK cs .ws (c :: r) next = true := by
  simp only [spellOK, Bool.and_eq_true, Bool.not_eq_true']
  exact ⟨⟨⟨h1, h2⟩, h3⟩, h4⟩

theorem spellOK_punct_intro (cs : CharSpec) {c : Char} {next : Option Char}
    (h1 : fallsThrough c next.toList.head? = true) (h2 : cs.ws c = false) (h3 : cs.punct c = true) :
    spellOK cs .punct [c] next = true := by
  simp only [spellOK, Bool.and_eq_true, Bool.not_eq_true', List.isEmpty_iff]
  exact ⟨⟨⟨by simpa using h1, h2⟩, h3⟩, trivial⟩

theorem spellOK_word_intro (cs : CharSpec) {c : Char} {r : List Char} {next : Option Char}
    (h1 : fallsThrough c (r ++ next.toList).head? = true) (h2 : cs.ws c = false) (h3 : cs.punct c = false)
    (h4 : r.all cs.wordChar = true) (h5 : next.any cs.wordChar = false) :
    spellOK cs .word (c :: r) next = true := by
  simp only [spellOK, Bool.and_eq_true, Bool.not_eq_true']
  exact ⟨⟨⟨⟨h1, h2⟩, h3⟩, h4⟩, h5⟩

/-- what the lexer produces at the start of `c :: rest` is spelled as `spellOK` demands, the
    next character being the first one the token did not take -/
theorem spellOK_of_lexOne (cs : CharSpec) (c : Char) (rest : List Char) :
    spellOK cs (lexOne cs c rest).1 (c :: rest.take (lexOne cs c rest).2)
      (rest.drop (lexOne cs c rest).2).head? = true := by
  by_cases c0 : c = '\\'
  · subst c0
    cases rest <;> simp [lexOne, spellOK]
  by_cases c1 : c = '>'
  · subst c1
    by_cases hh : rest.head? = some '>'
    · cases rest with
      | nil => simp at hh
      | cons d t =>
        simp only [List.head?_cons, Option.some.injEq] at hh
        subst hh
        simp [lexOne, spellOK]
    · simp [lexOne, hh, spellOK]
  by_cases c2 : c = '-'
  · subst c2
    by_cases hh : rest.head? = some '-'
    · have e : lexOne cs '-' rest = (.lineComment, (rest.takeWhile (· ≠ '\n')).length) := by
        simp [lexOne, hh]
      rw [e]
      simp only [lexlaws_take_takeWhile, lexlaws_drop_takeWhile]
      refine spellOK_lineComment_intro cs ?_ (lexlaws_all_takeWhile _ rest) ?_
      · cases rest with
        | nil => simp at hh
        | cons d t =>
          simp only [List.head?_cons, Option.some.injEq] at hh
          subst hh
          simp
      · cases hd : rest.dropWhile (· ≠ '\n') with
        | nil => simp
        | cons x t =>
          have := lexlaws_dropWhile_head _ _ _ _ hd
          simpa using this
    · simp [lexOne, hh, spellOK]
  by_cases c3 : c = '[' ∧ rest.head? = some '-'
  · obtain ⟨rfl, hh⟩ := c3
    cases rest with
    | nil => simp at hh
    | cons d t =>
      simp only [List.head?_cons, Option.some.injEq] at hh
      subst hh
      have e : lexOne cs '[' ('-' :: t) = (.blockComment, blockScan t + 1) := by
        simp [lexOne, Nat.add_comm]
      rw [e]
      obtain ⟨b1, b2⟩ := blockScan_take t
      simp only [spellOK, List.take_succ_cons, List.drop_succ_cons, List.head?_cons, List.tail_cons, b1,
        beq_self_eq_true, Bool.true_and, Bool.or_eq_true, List.isSuffixOf_iff_suffix,
        Option.isNone_iff_eq_none]
      rcases b2 with b2 | b2
      · exact Or.inl b2
      · right; rw [b2]; rfl
  by_cases c4 : c = '\n'
  · subst c4; simp [lexOne, spellOK]
  by_cases c5 : c = '\r' ∧ rest.head? = some '\n'
  · obtain ⟨rfl, hh⟩ := c5
    cases rest with
    | nil => simp at hh
    | cons d t =>
      simp only [List.head?_cons, Option.some.injEq] at hh
      subst hh
      simp [lexOne, spellOK]
  by_cases c6 : isAsciiDigit c = true
  · rw [lexOne_digit cs rest c6]
    obtain ⟨s1, s2⟩ := lexlaws_span isAsciiDigit rest
    by_cases hz : c = '0' ∧ (rest.takeWhile isAsciiDigit).length > 0
    · rw [if_pos hz]
      obtain ⟨rfl, hz⟩ := hz
      refine spellOK_zeroInt_intro cs ?_ s1 s2
      intro h0
      have := congrArg List.length h0
      rw [lexlaws_take_takeWhile] at this
      simp only [List.length_nil] at this
      omega
    · rw [if_neg hz]
      refine spellOK_int_intro cs c6 s1 ?_ s2
      by_cases h0 : c = '0'
      · right
        have : (rest.takeWhile isAsciiDigit).length = 0 := by
          have : ¬ ((rest.takeWhile isAsciiDigit).length > 0) := fun h => hz ⟨h0, h⟩
          omega
        rw [this]; rfl
      · exact Or.inl h0
  cases hs : singleKind c with
  | some k =>
    rw [lexOne_single cs rest hs]
    simpa using spellOK_single cs _ hs
  | none =>
    have hf : fallsThrough c rest.head? = true := by
      simp only [fallsThrough, Bool.and_eq_true, bne_iff_ne, ne_eq, Bool.not_eq_true', Option.isNone_iff_eq_none,
        Bool.and_eq_false_imp, beq_iff_eq]
      refine ⟨⟨⟨⟨⟨⟨⟨c0, c1⟩, c2⟩, c4⟩, by simpa using c6⟩, hs⟩, ?_⟩, ?_⟩
      · intro h; simpa using fun h' => c3 ⟨h, h'⟩
      · intro h; simpa using fun h' => c5 ⟨h, h'⟩
    rw [lexOne_fall cs rest hf]
    by_cases w : cs.ws c = true
    · obtain ⟨s1, s2⟩ := lexlaws_span cs.ws rest
      rw [if_pos w]
      exact spellOK_ws_intro cs (by rw [lexlaws_look]; exact hf) w s1 s2
    · rw [if_neg w]
      by_cases pc : cs.punct c = true
      · rw [if_pos pc]
        exact spellOK_punct_intro cs (by simpa using (lexlaws_look rest 0) ▸ hf) (by simpa using w) pc
      · obtain ⟨s1, s2⟩ := lexlaws_span cs.wordChar rest
        rw [if_neg pc]
        exact spellOK_word_intro cs (by rw [lexlaws_look]; exact hf) (by simpa using w) (by simpa using pc) s1 s2

/-- the lexer only produces well spelled token lists -/
theorem lexFrom_wellSpelled (cs : CharSpec) (off : Nat) (s : List Char) : WellSpelled cs (lexFrom cs off s) := by
  fun_induction lexFrom cs off s with
  | case1 => rfl
  | case2 off c rest r text ih =>
    simp only [WellSpelled, wellSpelled, Bool.and_eq_true]
    refine ⟨?_, ih⟩
    simp only [render, lexFrom_tile]
    exact spellOK_of_lexOne cs c rest

theorem wellSpelled_mem {cs : CharSpec} {ts : List Tok} (h : WellSpelled cs ts) {t : Tok} (ht : t ∈ ts) :
    ∃ next, spellOK cs t.kind t.text next = true := by
  induction ts with
  | nil => simp at ht
  | cons u us ih =>
    simp only [WellSpelled, wellSpelled, Bool.and_eq_true] at h
    simp only [List.mem_cons] at ht
    rcases ht with rfl | ht
    · exact ⟨_, h.1⟩
    · exact ih h.2 ht

/-- every token the lexer produces is spelled as its kind demands, for some next character -/
theorem lexFrom_kind_text (cs : CharSpec) (off : Nat) (s : List Char) :
    ∀ t ∈ lexFrom cs off s, ∃ next, spellOK cs t.kind t.text next = true :=
  fun _ ht => wellSpelled_mem (lexFrom_wellSpelled cs off s) ht

/-! what `spellOK` says kind by kind -/

theorem spellOK_int {cs : CharSpec} {text : List Char} {next : Option Char} (h : spellOK cs .int text next = true) :
    text ≠ [] ∧ text.all isAsciiDigit = true ∧ (text.head? ≠ some '0' ∨ text.length = 1) := by
  cases text with
  | nil => simp [spellOK] at h
  | cons c r =>
    simp only [spellOK, Bool.and_eq_true, Bool.or_eq_true, bne_iff_ne, ne_eq, List.isEmpty_iff,
      Bool.not_eq_true'] at h
    obtain ⟨⟨⟨h1, h2⟩, h3⟩, _⟩ := h
    refine ⟨by simp, by simp [h1, h2], ?_⟩
    rcases h3 with h3 | h3
    · left; simpa using h3
    · right; simp [h3]

theorem spellOK_zeroInt {cs : CharSpec} {text : List Char} {next : Option Char}
    (h : spellOK cs .zeroInt text next = true) :
    text.head? = some '0' ∧ text.length > 1 ∧ text.all isAsciiDigit = true := by
  cases text with
  | nil => simp [spellOK] at h
  | cons c r =>
    simp only [spellOK, Bool.and_eq_true, beq_iff_eq, Bool.not_eq_true', List.isEmpty_eq_false_iff] at h
    obtain ⟨⟨⟨rfl, h1⟩, h2⟩, _⟩ := h
    refine ⟨rfl, ?_, ?_⟩
    · have := List.length_pos_iff.2 h1
      simp only [List.length_cons]; omega
    · simp only [List.all_cons, h2, Bool.and_true]; decide

theorem spellOK_newline {cs : CharSpec} {text : List Char} {next : Option Char}
    (h : spellOK cs .newline text next = true) : text = ['\n'] ∨ text = ['\r', '\n'] := by
  cases text with
  | nil => simp [spellOK] at h
  | cons c r =>
    simp only [spellOK, Bool.and_eq_true, beq_iff_eq, Bool.or_eq_true, List.isEmpty_iff] at h
    rcases h with ⟨rfl, rfl⟩ | ⟨rfl, rfl⟩ <;> simp

theorem spellOK_escaped {cs : CharSpec} {text : List Char} {next : Option Char}
    (h : spellOK cs .escaped text next = true) :
    text.head? = some '\\' ∧ (text.length = 2 ∨ (text.length = 1 ∧ next = none)) := by
  cases text with
  | nil => simp [spellOK] at h
  | cons c r =>
    simp only [spellOK, Bool.and_eq_true, beq_iff_eq, Bool.or_eq_true, List.isEmpty_iff,
      Option.isNone_iff_eq_none] at h
    obtain ⟨rfl, h | ⟨rfl, h⟩⟩ := h
    · exact ⟨rfl, Or.inl (by simp [h])⟩
    · exact ⟨rfl, Or.inr ⟨rfl, h⟩⟩

theorem spellOK_lineComment {cs : CharSpec} {text : List Char} {next : Option Char}
    (h : spellOK cs .lineComment text next = true) :
    ['-', '-'] <+: text ∧ '\n' ∉ text ∧ (next = none ∨ next = some '\n') := by
  cases text with
  | nil => simp [spellOK] at h
  | cons c r =>
    simp only [spellOK, Bool.and_eq_true, beq_iff_eq, Bool.or_eq_true, Option.isNone_iff_eq_none] at h
    obtain ⟨⟨⟨rfl, h1⟩, h2⟩, h3⟩ := h
    cases r with
    | nil => simp at h1
    | cons d r =>
      simp only [List.head?_cons, Option.some.injEq] at h1
      subst h1
      refine ⟨by simp, ?_, h3⟩
      simp only [List.all_cons, Bool.and_eq_true, List.all_eq_true, decide_eq_true_eq] at h2
      simp only [List.mem_cons, not_or]
      exact ⟨by decide, by decide, fun hm => h2.2 _ hm rfl⟩

theorem spellOK_blockComment {cs : CharSpec} {text : List Char} {next : Option Char}
    (h : spellOK cs .blockComment text next = true) :
    ['[', '-'] <+: text ∧ (['-', ']'] <:+ text.drop 2 ∨ next = none) ∧
      blockScan (text.drop 2) = (text.drop 2).length := by
  cases text with
  | nil => simp [spellOK] at h
  | cons c r =>
    simp only [spellOK, Bool.and_eq_true, beq_iff_eq, Bool.or_eq_true, Option.isNone_iff_eq_none,
      List.isSuffixOf_iff_suffix] at h
    obtain ⟨⟨⟨rfl, h1⟩, h2⟩, h3⟩ := h
    cases r with
    | nil => simp at h1
    | cons d r =>
      simp only [List.head?_cons, Option.some.injEq] at h1
      subst h1
      simp only [List.tail_cons] at h2 h3
      exact ⟨by simp, by simpa using h3, by simpa using h2⟩

theorem spellOK_ws {cs : CharSpec} {text : List Char} {next : Option Char} (h : spellOK cs .ws text next = true) :
    text ≠ [] ∧ text.all cs.ws = true ∧ next.any cs.ws = false := by
  cases text with
  | nil => simp [spellOK] at h
  | cons c r =>
    simp only [spellOK, Bool.and_eq_true, Bool.not_eq_true'] at h
    obtain ⟨⟨⟨_, h2⟩, h3⟩, h4⟩ := h
    exact ⟨by simp, by simp [h2, h3], h4⟩

theorem spellOK_word {cs : CharSpec} {text : List Char} {next : Option Char} (h : spellOK cs .word text next = true) :
    text ≠ [] ∧ text.tail.all cs.wordChar = true ∧ next.any cs.wordChar = false ∧
      (∀ c, text.head? = some c → cs.ws c = false ∧ cs.punct c = false ∧ isAsciiDigit c = false ∧
        singleKind c = none) := by
  cases text with
  | nil => simp [spellOK] at h
  | cons c r =>
    simp only [spellOK, Bool.and_eq_true, Bool.not_eq_true'] at h
    obtain ⟨⟨⟨⟨h1, h2⟩, h3⟩, h4⟩, h5⟩ := h
    refine ⟨by simp, h4, h5, ?_⟩
    intro d hd
    simp only [List.head?_cons, Option.some.injEq] at hd
    subst hd
    simp only [fallsThrough, Bool.and_eq_true, Bool.not_eq_true', Option.isNone_iff_eq_none] at h1
    exact ⟨h2, h3, h1.1.1.1.2, h1.1.1.2⟩

theorem spellOK_punct {cs : CharSpec} {text : List Char} {next : Option Char} (h : spellOK cs .punct text next = true) :
    ∃ c, text = [c] ∧ cs.punct c = true ∧ cs.ws c = false ∧ singleKind c = none ∧ (c = '[' → next ≠ some '-') := by
  cases text with
  | nil => simp [spellOK] at h
  | cons c r =>
    simp only [spellOK, Bool.and_eq_true, Bool.not_eq_true', List.isEmpty_iff] at h
    obtain ⟨⟨⟨h1, h2⟩, h3⟩, rfl⟩ := h
    simp only [fallsThrough, Bool.and_eq_true, Bool.not_eq_true', Option.isNone_iff_eq_none,
      Bool.and_eq_false_imp, beq_iff_eq] at h1
    refine ⟨c, rfl, h3, h2, h1.1.1.2, ?_⟩
    intro hc hn
    have := h1.1.2 hc
    rw [hn] at this
    simp at this

/-- a token of a single character kind is exactly its character -/
theorem spellOK_singleChar {cs : CharSpec} {k : TK} {text : List Char} {next : Option Char}
    (hk : k ∈ singleTable.map (·.2)) (h : spellOK cs k text next = true) :
    ∃ c, text = [c] ∧ singleKind c = some k := by
  cases text with
  | nil => simp [spellOK] at h
  | cons c r =>
    simp only [singleTable, List.map_cons, List.map_nil, List.mem_cons, List.not_mem_nil, or_false] at hk
    rcases hk with rfl | rfl | rfl | rfl | rfl | rfl | rfl | rfl | rfl | rfl | rfl | rfl | rfl | rfl | rfl | rfl | rfl <;>
    · simp only [spellOK, Bool.and_eq_true, beq_iff_eq, List.isEmpty_iff] at h
      exact ⟨c, by rw [h.1], h.2⟩

theorem spellOK_fixed {cs : CharSpec} {text : List Char} {next : Option Char} :
    (spellOK cs .metaStart text next = true → text = ['>', '>']) ∧
    (spellOK cs .textStep text next = true → text = ['>'] ∧ next ≠ some '>') ∧
    (spellOK cs .minus text next = true → text = ['-'] ∧ next ≠ some '-') := by
  cases text with
  | nil => simp [spellOK]
  | cons c r =>
    simp only [spellOK, Bool.and_eq_true, beq_iff_eq, List.isEmpty_iff, bne_iff_ne, ne_eq]
    refine ⟨?_, ?_, ?_⟩
    · rintro ⟨rfl, rfl⟩; rfl
    · rintro ⟨⟨rfl, rfl⟩, h⟩; exact ⟨rfl, h⟩
    · rintro ⟨⟨rfl, rfl⟩, h⟩; exact ⟨rfl, h⟩

/-- Each token kind determines the shape of the token's text. -/
def KindText (cs : CharSpec) (k : TK) (text : List Char) : Prop :=
  (k = .int → text ≠ [] ∧ text.all isAsciiDigit = true ∧ (text.head? ≠ some '0' ∨ text.length = 1)) ∧
  (k = .zeroInt → text.head? = some '0' ∧ text.length > 1 ∧ text.all isAsciiDigit = true) ∧
  (k = .newline → text = ['\n'] ∨ text = ['\r', '\n']) ∧
  (k = .escaped → text.head? = some '\\' ∧ (text.length = 1 ∨ text.length = 2)) ∧
  (k = .lineComment → ['-', '-'] <+: text ∧ '\n' ∉ text) ∧
  (k = .blockComment → ['[', '-'] <+: text ∧ blockScan (text.drop 2) = (text.drop 2).length) ∧
  (k = .ws → text ≠ [] ∧ text.all cs.ws = true) ∧
  (k = .word → text ≠ [] ∧ text.tail.all cs.wordChar = true ∧
    ∀ c, text.head? = some c → cs.ws c = false ∧ cs.punct c = false ∧ isAsciiDigit c = false ∧ singleKind c = none) ∧
  (k = .punct → ∃ c, text = [c] ∧ cs.punct c = true ∧ cs.ws c = false ∧ singleKind c = none) ∧
  (k = .metaStart → text = ['>', '>']) ∧ (k = .textStep → text = ['>']) ∧ (k = .minus → text = ['-']) ∧
  (k ∈ singleTable.map (·.2) → ∃ c, text = [c] ∧ singleKind c = some k)

theorem spellOK_kindText {cs : CharSpec} {k : TK} {text : List Char} {next : Option Char}
    (h : spellOK cs k text next = true) : KindText cs k text := by
  refine ⟨?_, ?_, ?_, ?_, ?_, ?_, ?_, ?_, ?_, ?_, ?_, ?_, ?_⟩
  · rintro rfl; exact spellOK_int h
  · rintro rfl; exact spellOK_zeroInt h
  · rintro rfl; exact spellOK_newline h
  · rintro rfl
    obtain ⟨h1, h2⟩ := spellOK_escaped h
    exact ⟨h1, by rcases h2 with h2 | h2 <;> simp [h2]⟩
  · rintro rfl; exact ⟨(spellOK_lineComment h).1, (spellOK_lineComment h).2.1⟩
  · rintro rfl; exact ⟨(spellOK_blockComment h).1, (spellOK_blockComment h).2.2⟩
  · rintro rfl; exact ⟨(spellOK_ws h).1, (spellOK_ws h).2.1⟩
  · rintro rfl; exact ⟨(spellOK_word h).1, (spellOK_word h).2.1, (spellOK_word h).2.2.2⟩
  · rintro rfl
    obtain ⟨c, h1, h2, h3, h4, _⟩ := spellOK_punct h
    exact ⟨c, h1, h2, h3, h4⟩
  · rintro rfl; exact spellOK_fixed.1 h
  · rintro rfl; exact (spellOK_fixed.2.1 h).1
  · rintro rfl; exact (spellOK_fixed.2.2 h).1
  · intro hk; exact spellOK_singleChar hk h

theorem lexFrom_kindText (cs : CharSpec) (off : Nat) (s : List Char) :
    ∀ t ∈ lexFrom cs off s, KindText cs t.kind t.text := by
  intro t ht
  obtain ⟨next, h⟩ := lexFrom_kind_text cs off s t ht
  exact spellOK_kindText h

/-- a small character table for examples: blank and tab are whitespace, a few punctuation
    characters, ASCII letters and digits are word characters -/
def toyCharSpec : CharSpec where
  ws c := c = ' ' ∨ c = '\t'
  punct c := c = ',' ∨ c = '!' ∨ c = '['
  wordChar c := c.isAlphanum
  uws c := c.isWhitespace
  alnum c := c.isAlphanum

/-! ## CRLF conversion: how the texts of newlines and comments change -/

theorem crlf_takeWhile_nl (r : List Char) :
    (crlf r).takeWhile (· ≠ '\n') = r.takeWhile (· ≠ '\n') ∨
    (crlf r).takeWhile (· ≠ '\n') = r.takeWhile (· ≠ '\n') ++ ['\r'] := by
  induction r using crlf_induct with
  | nil => simp
  | lf t _ => right; simp [crlf_lf]
  | crlf t _ => left; simp [crlf_crlf]
  | other c t hc1 hc2 ih =>
    rw [crlf_other c t hc1 hc2]
    rcases ih with ih | ih
    · left; simp [hc1]; simpa using ih
    · right; simp [hc1]; simpa using ih

theorem crlf_blockScan_take (r : List Char) :
    (crlf r).take (blockScan (crlf r)) = crlf (r.take (blockScan r)) := by
  induction r using crlf_induct with
  | nil => simp [blockScan]
  | lf t ih =>
    rw [crlf_lf, blockScan_step '\n' t (by simp), blockScan_step '\r' _ (by simp),
      blockScan_step '\n' _ (by simp)]
    simp only [List.take_succ_cons]
    rw [crlf_lf, ih]
  | crlf t ih =>
    rw [crlf_crlf, blockScan_step '\r' _ (by simp), blockScan_step '\n' _ (by simp),
      blockScan_step '\r' _ (by simp), blockScan_step '\n' _ (by simp)]
    simp only [List.take_succ_cons]
    rw [crlf_crlf, ih]
  | other c t hc1 hc2 ih =>
    rw [crlf_other c t hc1 hc2]
    by_cases hm : c = '-' ∧ t.head? = some ']'
    · obtain ⟨rfl, hh⟩ := hm
      cases t with
      | nil => simp at hh
      | cons d u =>
        simp only [List.head?_cons, Option.some.injEq] at hh
        subst hh
        rw [crlf_other ']' u (by decide) (by simp)]
        simp only [blockScan_close, List.take_succ_cons, List.take_zero]
        decide
    · have hm' : ¬ (c = '-' ∧ (crlf t).head? = some ']') := by
        intro h
        exact hm ⟨h.1, ((crlf_head?_eq (s := t) (x := ']') (by decide)).1 h.2).1⟩
      rw [blockScan_step c t hm, blockScan_step c _ hm']
      simp only [List.take_succ_cons]
      have hc2' : ¬ (c = '\r' ∧ (t.take (blockScan t)).head? = some '\n') := by
        intro hh
        apply hc2
        refine ⟨hh.1, ?_⟩
        have := hh.2
        cases t with
        | nil => simp at this
        | cons d u =>
          cases hb : blockScan (d :: u) with
          | zero => rw [hb] at this; simp at this
          | succ k => rw [hb] at this; simpa using this
      rw [crlf_other c _ hc1 hc2', ih]

/-- how CRLF conversion changes one token: the kind stays; a newline becomes `"\r\n"` (or stays
    `"\n"` after a line comment, which then ends with the CR); a line comment stays or gets the CR appended; a block comment is converted inside; every other
    token keeps its text -/
def CrlfTok (t' t : Tok) : Prop :=
  t'.kind = t.kind ∧
  (t.kind = .newline → t'.text = ['\r', '\n'] ∨ t'.text = ['\n']) ∧
  (t.kind = .lineComment → t'.text = t.text ∨ t'.text = t.text ++ ['\r']) ∧
  (t.kind = .blockComment → t'.text = crlf t.text) ∧
  (crlfVolatile t.kind = false → t'.text = t.text)

theorem lexOne_kind_newline (cs : CharSpec) (c : Char) (rest : List Char) (h : (lexOne cs c rest).1 = .newline) :
    c = '\n' ∨ (c = '\r' ∧ rest.head? = some '\n') := by
  have := spellOK_of_lexOne cs c rest
  rw [h] at this
  rcases spellOK_newline this with e | e
  · left; simp only [List.cons.injEq] at e; exact e.1
  · right
    simp only [List.cons.injEq] at e
    refine ⟨e.1, ?_⟩
    cases rest with
    | nil => simp at e
    | cons d u =>
      cases hn : (lexOne cs c (d :: u)).2 with
      | zero => rw [hn] at e; simp at e
      | succ k => rw [hn] at e; simp at e; simp [e.2.1]

theorem lexOne_kind_lineComment (cs : CharSpec) (c : Char) (rest : List Char)
    (h : (lexOne cs c rest).1 = .lineComment) :
    c = '-' ∧ rest.head? = some '-' ∧ (lexOne cs c rest).2 = (rest.takeWhile (· ≠ '\n')).length := by
  have := spellOK_of_lexOne cs c rest
  rw [h] at this
  obtain ⟨⟨u, hu⟩, _⟩ := spellOK_lineComment this
  simp only [List.cons_append, List.nil_append, List.cons.injEq] at hu
  obtain ⟨rfl, hu⟩ := hu
  have hh : rest.head? = some '-' := by
    cases rest with
    | nil => simp at hu
    | cons d w =>
      cases hn : (lexOne cs '-' (d :: w)).2 with
      | zero => rw [hn] at hu; simp at hu
      | succ k => rw [hn] at hu; simp at hu; simp; exact hu.1.symm
  exact ⟨rfl, hh, by simp [lexOne, hh]⟩

theorem lexOne_kind_blockComment (cs : CharSpec) (c : Char) (rest : List Char)
    (h : (lexOne cs c rest).1 = .blockComment) :
    c = '[' ∧ ∃ t, rest = '-' :: t ∧ (lexOne cs c rest).2 = blockScan t + 1 := by
  have := spellOK_of_lexOne cs c rest
  rw [h] at this
  obtain ⟨⟨u, hu⟩, _⟩ := spellOK_blockComment this
  simp only [List.cons_append, List.nil_append, List.cons.injEq] at hu
  obtain ⟨rfl, hu⟩ := hu
  cases rest with
  | nil => simp at hu
  | cons d w =>
    cases hn : (lexOne cs '[' (d :: w)).2 with
    | zero => rw [hn] at hu; simp at hu
    | succ k =>
      rw [hn] at hu
      simp only [List.take_succ_cons, List.cons.injEq] at hu
      obtain ⟨rfl, _⟩ := hu
      refine ⟨rfl, w, rfl, ?_⟩
      rw [← hn]
      simp [lexOne, Nat.add_comm]

theorem crlfTok_step (cs : CharSpec) (hcs : CrlfSpec cs) (c : Char) (rest : List Char) (off off' : Nat)
    (h1 : c ≠ '\\') (h2 : c ≠ '\n') (h3 : ¬ (c = '\r' ∧ rest.head? = some '\n')) :
    CrlfTok ⟨(lexOne cs c (crlf rest)).1, c :: (crlf rest).take (lexOne cs c (crlf rest)).2, off'⟩
      ⟨(lexOne cs c rest).1, c :: rest.take (lexOne cs c rest).2, off⟩ := by
  obtain ⟨hk, htxt, _⟩ := lexOne_crlf_step cs hcs c rest h1 h2 h3
  refine ⟨hk, ?_, ?_, ?_, ?_⟩
  · intro hn
    rcases lexOne_kind_newline cs c rest hn with h | h
    · exact absurd h h2
    · exact absurd h h3
  · intro hl
    simp only at hl
    obtain ⟨rfl, _, e1⟩ := lexOne_kind_lineComment cs c rest hl
    obtain ⟨_, _, e2⟩ := lexOne_kind_lineComment cs '-' (crlf rest) (hk.trans hl)
    simp only [e1, e2, lexlaws_take_takeWhile]
    rcases crlf_takeWhile_nl rest with e | e
    · left; rw [e]
    · right; rw [e]; simp
  · intro hb
    simp only at hb
    obtain ⟨rfl, t, rfl, e1⟩ := lexOne_kind_blockComment cs c rest hb
    have ec := crlf_other '-' t (by decide) (by simp)
    obtain ⟨_, t2, et2, e2⟩ := lexOne_kind_blockComment cs '[' (crlf ('-' :: t)) (hk.trans hb)
    rw [ec] at et2
    simp only [List.cons.injEq, true_and] at et2
    subst et2
    simp only [e1, e2]
    rw [ec]
    simp only [List.take_succ_cons]
    rw [crlf_blockScan_take, crlf_other '[' _ (by decide) (by simp), crlf_other '-' _ (by decide) (by simp)]
  · intro hv
    simp only at hv ⊢
    rw [htxt hv]

/-- two token lists of the same length related token by token by `CrlfTok` -/
def CrlfToks : List Tok → List Tok → Prop
  | [], [] => True
  | a :: as, b :: bs => CrlfTok a b ∧ CrlfToks as bs
  | _, _ => False

/-- CRLF conversion, token by token: same kinds; newlines become CRLF, a line comment may get the
    CR appended, block comments are converted inside, every other token keeps its text -/
theorem lexFrom_crlf_toks (cs : CharSpec) (hcs : CrlfSpec cs) (s : List Char) (hs : CrlfSafe s) (off off' : Nat) :
    CrlfToks (lexFrom cs off' (crlf s)) (lexFrom cs off s) := by
  have main : ∀ n (s : List Char), s.length ≤ n → CrlfSafe s → ∀ off off',
      CrlfToks (lexFrom cs off' (crlf s)) (lexFrom cs off s) := by
    intro n
    induction n with
    | zero =>
      intro s hl _ off off'
      cases s with
      | nil => simp [lexFrom, CrlfToks]
      | cons _ _ => simp at hl
    | succ n ih =>
      intro s hl hs off off'
      cases s with
      | nil => simp [lexFrom, CrlfToks]
      | cons c rest =>
        simp only [List.length_cons] at hl
        by_cases h2 : c = '\n'
        · subst h2
          rw [crlf_lf, lexFrom_cons, lexFrom_cons]
          simp only [lexOne_lf, lexOne_crlf, List.drop_succ_cons, List.drop_zero, List.take_succ_cons, List.take_zero]
          exact ⟨by simp [CrlfTok, crlfVolatile], ih rest (by omega) hs.tail _ _⟩
        by_cases h3 : c = '\r' ∧ rest.head? = some '\n'
        · obtain ⟨rfl, h4⟩ := h3
          obtain ⟨u, rfl⟩ : ∃ u, rest = '\n' :: u := by
            cases rest with
            | nil => simp at h4
            | cons d u => exact ⟨u, by simp at h4; rw [h4]⟩
          simp only [List.length_cons] at hl
          rw [crlf_crlf, lexFrom_cons, lexFrom_cons]
          simp only [lexOne_crlf, List.drop_succ_cons, List.drop_zero, List.take_succ_cons, List.take_zero]
          exact ⟨by simp [CrlfTok, crlfVolatile], ih u (by omega) hs.tail.tail _ _⟩
        · have h1 := hs.head_ne
          rw [crlf_other c rest h2 h3, lexFrom_cons, lexFrom_cons]
          obtain ⟨_, _, hrest⟩ := lexOne_crlf_step cs hcs c rest h1 h2 h3
          have hle := lexOne_le cs c rest
          refine ⟨crlfTok_step cs hcs c rest _ _ h1 h2 h3, ?_⟩
          rcases hrest with e | ⟨t, e1, e2⟩
          · rw [e]
            exact ih _ (by rw [List.length_drop]; omega) (hs.tail.drop _) _ _
          · rw [e1, e2, lexFrom_cons, lexFrom_cons]
            simp only [lexOne_lf, List.drop_zero, List.take_zero]
            have hl2 : t.length ≤ n := by
              have := congrArg List.length e1
              rw [List.length_drop] at this
              simp only [List.length_cons] at this
              omega
            have hst : CrlfSafe t := by
              have := hs.tail.drop (lexOne cs c rest).2
              rw [e1] at this
              exact this.tail
            exact ⟨by simp [CrlfTok, crlfVolatile], ih t hl2 hst _ _⟩
  exact main s.length s (Nat.le_refl _) hs off off'

end Cook
