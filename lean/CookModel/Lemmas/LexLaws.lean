import CookModel.Lemmas.Lexer
import CookModel.Lemmas.Text
import CookModel.Lemmas.TextLaws
/-
  Laws of the lexer model (`lexOne`, `lexFrom`, `lex`):
  * CRLF conversion does not change the token kinds nor the texts of tokens other than newlines
    and comments (C17);
  * the lexer reads back every well spelled token list (C01) and only produces well spelled
    token lists (C04).
-/
namespace Cook

/-! ## generic list facts -/

theorem lexlaws_take_takeWhile (p : Char → Bool) (l : List Char) :
    l.take (l.takeWhile p).length = l.takeWhile p := by
  induction l with
  | nil => simp
  | cons a l ih => by_cases h : p a <;> simp [h, ih]

theorem lexlaws_drop_takeWhile (p : Char → Bool) (l : List Char) :
    l.drop (l.takeWhile p).length = l.dropWhile p := by
  induction l with
  | nil => simp
  | cons a l ih => by_cases h : p a <;> simp [h, ih]

theorem lexlaws_cons_congr {α : Type} {a b : α} {l m : List α} (h1 : a = b) (h2 : l = m) : a :: l = b :: m := by
  rw [h1, h2]

/-! ## CRLF conversion -/

/-- `crlfAux prevCR s`: every `'\n'` that is not preceded by `'\r'` (`prevCR` tells whether the
    character before `s` was a `'\r'`) is replaced by `"\r\n"`. -/
def crlfAux (prevCR : Bool) : List Char → List Char
  | [] => []
  | c :: t => (if c = '\n' ∧ prevCR = false then ['\r', '\n'] else [c]) ++ crlfAux (c == '\r') t

/-- replace every `'\n'` that is not already preceded by `'\r'` with `"\r\n"` -/
def crlf (s : List Char) : List Char := crlfAux false s

/-- no `'\r'` that is not followed by `'\n'` (not needed by the lexer law, see `lexFrom_crlf`) -/
def noLoneCR : List Char → Bool
  | [] => true
  | c :: t => (c != '\r' || t.head? == some '\n') && noLoneCR t

/-- the inputs of the CRLF law: no backslash (an escape would take the LF before, the CR after
    the conversion).  A lone CR needs not be excluded at the level of the lexer: it starts a
    word (or is a punctuation token) before and after, and the conversion does not touch it. -/
def CrlfSafe (s : List Char) : Prop := '\\' ∉ s

instance (s : List Char) : Decidable (CrlfSafe s) := by unfold CrlfSafe; infer_instance

theorem crlfAux_true_of_head (t : List Char) (h : t.head? ≠ some '\n') :
    crlfAux true t = crlfAux false t := by
  cases t with
  | nil => rfl
  | cons c t =>
    have : c ≠ '\n' := by simpa using h
    simp [crlfAux, this]

@[simp] theorem crlf_nil : crlf [] = [] := rfl

theorem crlf_lf (t : List Char) : crlf ('\n' :: t) = '\r' :: '\n' :: crlf t := by
  simp [crlf, crlfAux]

theorem crlf_crlf (t : List Char) : crlf ('\r' :: '\n' :: t) = '\r' :: '\n' :: crlf t := by
  simp [crlf, crlfAux]

theorem crlf_other (c : Char) (t : List Char) (h1 : c ≠ '\n') (h2 : ¬ (c = '\r' ∧ t.head? = some '\n')) :
    crlf (c :: t) = c :: crlf t := by
  unfold crlf
  by_cases hc : c = '\r'
  · subst hc
    have : t.head? ≠ some '\n' := by simpa using h2
    simp [crlfAux, crlfAux_true_of_head t this]
  · have hb : (c == '\r') = false := by simpa using hc
    simp [crlfAux, h1, hb]

/-- induction along the three shapes of `crlf` -/
theorem crlf_induct {motive : List Char → Prop} (nil : motive [])
    (lf : ∀ t, motive t → motive ('\n' :: t))
    (crlf : ∀ t, motive t → motive ('\r' :: '\n' :: t))
    (other : ∀ c t, c ≠ '\n' → ¬ (c = '\r' ∧ t.head? = some '\n') → motive t → motive (c :: t))
    (s : List Char) : motive s := by
  have : ∀ n (s : List Char), s.length ≤ n → motive s := by
    intro n
    induction n with
    | zero => intro s hs; cases s with
      | nil => exact nil
      | cons _ _ => simp at hs
    | succ n ih =>
      intro s hs
      cases s with
      | nil => exact nil
      | cons c t =>
        simp only [List.length_cons] at hs
        by_cases h1 : c = '\n'
        · subst h1; exact lf t (ih t (by omega))
        · by_cases h2 : c = '\r' ∧ t.head? = some '\n'
          · obtain ⟨rfl, h3⟩ := h2
            cases t with
            | nil => simp at h3
            | cons d t =>
              simp only [List.head?_cons, Option.some.injEq] at h3
              subst h3
              simp only [List.length_cons] at hs
              exact crlf t (ih t (by omega))
          · exact other c t h1 h2 (ih t (by omega))
  exact this s.length s (Nat.le_refl _)

theorem crlf_head? (s : List Char) : (crlf s).head? = s.head?.map (fun c => if c = '\n' then '\r' else c) := by
  cases s with
  | nil => rfl
  | cons c t => by_cases h : c = '\n' <;> simp [crlf, crlfAux, h]

theorem crlf_head?_ne_lf (s : List Char) : (crlf s).head? ≠ some '\n' := by
  rw [crlf_head?]
  cases s with
  | nil => simp
  | cons c t => by_cases h : c = '\n' <;> simp [h]

theorem crlf_head?_eq {s : List Char} {x : Char} (h1 : x ≠ '\r') :
    (crlf s).head? = some x ↔ s.head? = some x ∧ x ≠ '\n' := by
  rw [crlf_head?]
  cases s with
  | nil => simp
  | cons c t =>
    by_cases h : c = '\n'
    · subst h; simp
      constructor
      · intro h; exact absurd h.symm h1
      · intro h; exact absurd h.1.symm h.2
    · simp [h]; intro h'; subst h'; exact h

theorem crlf_takeWhile (p : Char → Bool) (h1 : p '\r' = false) (h2 : p '\n' = false) (r : List Char) :
    (crlf r).takeWhile p = r.takeWhile p ∧ (crlf r).dropWhile p = crlf (r.dropWhile p) := by
  induction r using crlf_induct with
  | nil => simp
  | lf t _ => simp [crlf_lf, h1, h2]
  | crlf t _ => simp [crlf_crlf, h1]
  | other c t hc1 hc2 ih =>
    rw [crlf_other c t hc1 hc2]
    by_cases hp : p c
    · simp [hp, ih.1, ih.2]
    · simp [hp, crlf_other c t hc1 hc2]

/-- a line comment stops at the same `'\n'`; the CR inserted before it is swallowed by the comment -/
theorem crlf_dropWhile_nl (r : List Char) :
    (crlf r).dropWhile (· ≠ '\n') =
      match r.dropWhile (· ≠ '\n') with
      | [] => []
      | _ :: t => '\n' :: crlf t := by
  induction r using crlf_induct with
  | nil => simp
  | lf t _ => simp [crlf_lf]
  | crlf t _ => simp [crlf_crlf]
  | other c t hc1 hc2 ih =>
    rw [crlf_other c t hc1 hc2]
    simpa [hc1] using ih

theorem blockScan_step (c : Char) (t : List Char) (h : ¬ (c = '-' ∧ t.head? = some ']')) :
    blockScan (c :: t) = blockScan t + 1 := by
  rw [blockScan, Nat.add_comm]
  intro u h1 h2
  exact h ⟨h1, by rw [h2]; rfl⟩

theorem blockScan_close (t : List Char) : blockScan ('-' :: ']' :: t) = 2 := by
  simp [blockScan]

/-- a block comment ends at the same place -/
theorem crlf_blockScan (r : List Char) :
    (crlf r).drop (blockScan (crlf r)) = crlf (r.drop (blockScan r)) := by
  induction r using crlf_induct with
  | nil => simp [blockScan]
  | lf t ih =>
    rw [crlf_lf, blockScan_step '\n' t (by simp), blockScan_step '\r' _ (by simp),
      blockScan_step '\n' _ (by simp)]
    simpa using ih
  | crlf t ih =>
    rw [crlf_crlf, blockScan_step '\r' _ (by simp), blockScan_step '\n' _ (by simp),
      blockScan_step '\r' _ (by simp), blockScan_step '\n' _ (by simp)]
    simpa using ih
  | other c t hc1 hc2 ih =>
    rw [crlf_other c t hc1 hc2]
    by_cases hm : c = '-' ∧ t.head? = some ']'
    · obtain ⟨rfl, hh⟩ := hm
      cases t with
      | nil => simp at hh
      | cons d u =>
        simp only [List.head?_cons, Option.some.injEq] at hh
        subst hh
        rw [crlf_other ']' u (by decide) (by simp)]
        simp [blockScan_close]
    · have hm' : ¬ (c = '-' ∧ (crlf t).head? = some ']') := by
        intro h
        exact hm ⟨h.1, ((crlf_head?_eq (s := t) (x := ']') (by decide)).1 h.2).1⟩
      rw [blockScan_step c t hm, blockScan_step c _ hm']
      simpa using ih

theorem crlf_tw (p : Char → Bool) (h1 : p '\r' = false) (h2 : p '\n' = false) (r : List Char) :
    ((crlf r).takeWhile p).length = (r.takeWhile p).length ∧
    (crlf r).take (r.takeWhile p).length = r.take (r.takeWhile p).length ∧
    (crlf r).drop (r.takeWhile p).length = crlf (r.drop (r.takeWhile p).length) := by
  obtain ⟨e1, e2⟩ := crlf_takeWhile p h1 h2 r
  refine ⟨by rw [e1], ?_, ?_⟩
  · rw [lexlaws_take_takeWhile, ← e1, lexlaws_take_takeWhile, e1]
  · rw [lexlaws_drop_takeWhile, ← e1, lexlaws_drop_takeWhile, e2]

/-- the facts about the character tables the CRLF law needs: CR and LF are neither lexer
    whitespace nor word characters (true of the generated table: U+000A and U+000D carry only
    the `char::is_whitespace` bit) -/
structure CrlfSpec (cs : CharSpec) : Prop where
  ws_cr : cs.ws '\r' = false
  ws_lf : cs.ws '\n' = false
  word_cr : cs.wordChar '\r' = false
  word_lf : cs.wordChar '\n' = false

/-- the kinds whose text contains the line ending: their text changes under CRLF conversion -/
def crlfVolatile (k : TK) : Bool := k == .newline || k == .lineComment || k == .blockComment

/-- what CRLF conversion preserves of a token: its kind, and its text unless it is a newline or
    a comment -/
def tokAbs (t : Tok) : TK × List Char := (t.kind, if crlfVolatile t.kind then [] else t.text)

theorem lexFrom_cons (cs : CharSpec) (off : Nat) (c : Char) (rest : List Char) :
    lexFrom cs off (c :: rest) =
      ⟨(lexOne cs c rest).1, c :: rest.take (lexOne cs c rest).2, off⟩ ::
        lexFrom cs (off + utf8Len (c :: rest.take (lexOne cs c rest).2)) (rest.drop (lexOne cs c rest).2) := by
  rw [lexFrom]

theorem lexOne_lf (cs : CharSpec) (rest : List Char) : lexOne cs '\n' rest = (.newline, 0) := by
  simp [lexOne]

theorem lexOne_crlf (cs : CharSpec) (rest : List Char) : lexOne cs '\r' ('\n' :: rest) = (.newline, 1) := by
  simp [lexOne]

theorem lexlaws_dropWhile_head (p : Char → Bool) (r : List Char) (x : Char) (t : List Char)
    (h : r.dropWhile p = x :: t) : p x = false := by
  induction r with
  | nil => simp at h
  | cons a r ih =>
    by_cases hp : p a
    · simp [hp] at h; exact ih h
    · simp [hp] at h; rw [← h.1]; simpa using hp

theorem lexOne_crlf_step (cs : CharSpec) (hcs : CrlfSpec cs) (c : Char) (rest : List Char)
    (h1 : c ≠ '\\') (h2 : c ≠ '\n') (h3 : ¬ (c = '\r' ∧ rest.head? = some '\n')) :
    (lexOne cs c (crlf rest)).1 = (lexOne cs c rest).1 ∧
    (crlfVolatile (lexOne cs c rest).1 = false →
      (crlf rest).take (lexOne cs c (crlf rest)).2 = rest.take (lexOne cs c rest).2) ∧
    ((crlf rest).drop (lexOne cs c (crlf rest)).2 = crlf (rest.drop (lexOne cs c rest).2) ∨
      ∃ t, rest.drop (lexOne cs c rest).2 = '\n' :: t ∧
        (crlf rest).drop (lexOne cs c (crlf rest)).2 = '\n' :: crlf t) := by
  have h3' : ¬ (c = '\r' ∧ (crlf rest).head? = some '\n') := fun h => crlf_head?_ne_lf rest h.2
  have hgt : (crlf rest).head? = some '>' ↔ rest.head? = some '>' := by
    rw [crlf_head?_eq (by decide)]; simp
  have hmi : (crlf rest).head? = some '-' ↔ rest.head? = some '-' := by
    rw [crlf_head?_eq (by decide)]; simp
  by_cases c1 : c = '>'
  · subst c1
    by_cases hh : rest.head? = some '>'
    · cases rest with
      | nil => simp at hh
      | cons d t =>
        simp only [List.head?_cons, Option.some.injEq] at hh
        subst hh
        simp [lexOne, crlf_other '>' t (by decide) (by simp), crlfVolatile]
    · have hh' := mt hgt.1 hh
      simp [lexOne, hh, hh', crlfVolatile]
  by_cases c2 : c = '-'
  · subst c2
    by_cases hh : rest.head? = some '-'
    · have hh' := hmi.2 hh
      refine ⟨by simp [lexOne, hh, hh'], by simp [lexOne, hh, crlfVolatile], ?_⟩
      have e1 : (lexOne cs '-' rest).2 = (rest.takeWhile (· ≠ '\n')).length := by simp [lexOne, hh]
      have e2 : (lexOne cs '-' (crlf rest)).2 = ((crlf rest).takeWhile (· ≠ '\n')).length := by
        simp [lexOne, hh']
      rw [e1, e2, lexlaws_drop_takeWhile, lexlaws_drop_takeWhile, crlf_dropWhile_nl]
      cases hd : rest.dropWhile (· ≠ '\n') with
      | nil => left; simp
      | cons x t =>
        right
        have := lexlaws_dropWhile_head _ _ _ _ hd
        have hx : x = '\n' := by simpa using this
        subst hx
        exact ⟨t, rfl, rfl⟩
    · have hh' := mt hmi.1 hh
      simp [lexOne, hh, hh', crlfVolatile]
  by_cases c3 : c = '[' ∧ rest.head? = some '-'
  · obtain ⟨rfl, hh⟩ := c3
    have hh' := hmi.2 hh
    refine ⟨by simp [lexOne, hh, hh'], by simp [lexOne, hh, crlfVolatile], ?_⟩
    left
    cases rest with
    | nil => simp at hh
    | cons d t =>
      simp only [List.head?_cons, Option.some.injEq] at hh
      subst hh
      have e := crlf_other '-' t (by decide) (by simp)
      have e1 : (lexOne cs '[' ('-' :: t)).2 = blockScan t + 1 := by simp [lexOne, Nat.add_comm]
      have e2 : (lexOne cs '[' ('-' :: crlf t)).2 = blockScan (crlf t) + 1 := by simp [lexOne, Nat.add_comm]
      rw [e, e1, e2]
      simpa using crlf_blockScan t
  have c3' : ¬ (c = '[' ∧ (crlf rest).head? = some '-') := fun h => c3 ⟨h.1, hmi.1 h.2⟩
  have hd := crlf_tw isAsciiDigit (by decide) (by decide) rest
  have hw := crlf_tw cs.ws hcs.ws_cr hcs.ws_lf rest
  have hwc := crlf_tw cs.wordChar hcs.word_cr hcs.word_lf rest
  by_cases c4 : isAsciiDigit c
  · simp [lexOne, h1, h2, h3, h3', c1, c2, c3, c3', c4, crlfVolatile, hd]
  cases hs : singleKind c with
  | some k => simp [lexOne, h1, h2, h3, h3', c1, c2, c3, c3', c4, hs]
  | none =>
    by_cases c5 : cs.ws c
    · simp [lexOne, h1, h2, h3, h3', c1, c2, c3, c3', c4, hs, c5, crlfVolatile, hw]
    · by_cases c6 : cs.punct c
      · simp [lexOne, h1, h2, h3, h3', c1, c2, c3, c3', c4, hs, c5, c6]
      · simp [lexOne, h1, h2, h3, h3', c1, c2, c3, c3', c4, hs, c5, c6, crlfVolatile, hwc]

theorem CrlfSafe.tail {c : Char} {t : List Char} (h : CrlfSafe (c :: t)) : CrlfSafe t :=
  fun hm => h (List.mem_cons_of_mem _ hm)

theorem CrlfSafe.drop {s : List Char} (h : CrlfSafe s) (n : Nat) : CrlfSafe (s.drop n) :=
  fun hm => h (List.mem_of_mem_drop hm)

theorem CrlfSafe.head_ne {c : Char} {t : List Char} (h : CrlfSafe (c :: t)) : c ≠ '\\' := by
  intro hc; exact h (by simp [hc])

/-- CRLF conversion changes neither the kinds of the tokens nor the texts of the tokens other
    than newlines and comments (whatever the start offsets are). -/
theorem lexFrom_crlf (cs : CharSpec) (hcs : CrlfSpec cs) (s : List Char) (hs : CrlfSafe s) (off off' : Nat) :
    (lexFrom cs off' (crlf s)).map tokAbs = (lexFrom cs off s).map tokAbs := by
  have main : ∀ n (s : List Char), s.length ≤ n → CrlfSafe s → ∀ off off',
      (lexFrom cs off' (crlf s)).map tokAbs = (lexFrom cs off s).map tokAbs := by
    intro n
    induction n with
    | zero =>
      intro s hl _ off off'
      cases s with
      | nil => simp [lexFrom]
      | cons _ _ => simp at hl
    | succ n ih =>
      intro s hl hs off off'
      cases s with
      | nil => simp [lexFrom]
      | cons c rest =>
        simp only [List.length_cons] at hl
        by_cases h2 : c = '\n'
        · subst h2
          rw [crlf_lf, lexFrom_cons, lexFrom_cons]
          simp only [lexOne_lf, lexOne_crlf, List.map_cons, List.drop_succ_cons, List.drop_zero]
          exact lexlaws_cons_congr (by simp [tokAbs, crlfVolatile]) (ih rest (by omega) hs.tail _ _)
        by_cases h3 : c = '\r' ∧ rest.head? = some '\n'
        · obtain ⟨rfl, h4⟩ := h3
          obtain ⟨u, rfl⟩ : ∃ u, rest = '\n' :: u := by
            cases rest with
            | nil => simp at h4
            | cons d u => exact ⟨u, by simp at h4; rw [h4]⟩
          simp only [List.length_cons] at hl
          rw [crlf_crlf, lexFrom_cons, lexFrom_cons]
          simp only [lexOne_crlf, List.map_cons, List.drop_succ_cons, List.drop_zero]
          exact lexlaws_cons_congr (by simp [tokAbs, crlfVolatile]) (ih u (by omega) hs.tail.tail _ _)
        · have h1 := hs.head_ne
          rw [crlf_other c rest h2 h3, lexFrom_cons, lexFrom_cons]
          obtain ⟨hk, htxt, hrest⟩ := lexOne_crlf_step cs hcs c rest h1 h2 h3
          have hle := lexOne_le cs c rest
          simp only [List.map_cons]
          congr 1
          · unfold tokAbs
            simp only [hk]
            cases hv : crlfVolatile (lexOne cs c rest).1
            · simp [htxt hv]
            · simp
          · rcases hrest with e | ⟨t, e1, e2⟩
            · rw [e]
              exact ih _ (by rw [List.length_drop]; omega) (hs.tail.drop _) _ _
            · rw [e1, e2, lexFrom_cons, lexFrom_cons]
              simp only [lexOne_lf, List.map_cons, List.drop_zero]
              have hl2 : t.length ≤ n := by
                have := congrArg List.length e1
                rw [List.length_drop] at this
                simp only [List.length_cons] at this
                omega
              have hst : CrlfSafe t := by
                have := hs.tail.drop (lexOne cs c rest).2
                rw [e1] at this
                exact this.tail
              exact lexlaws_cons_congr (by simp [tokAbs, crlfVolatile]) (ih t hl2 hst _ _)
  exact main s.length s (Nat.le_refl _) hs off off'

theorem lex_crlf (cs : CharSpec) (hcs : CrlfSpec cs) (s : List Char) (hs : CrlfSafe s) :
    (lex cs (crlf s)).map tokAbs = (lex cs s).map tokAbs := lexFrom_crlf cs hcs s hs 0 0

/-- the visible text of a token, from what CRLF conversion preserves of it -/
def visAbs (a : TK × List Char) : List Char :=
  match a.1 with
  | .newline => [' ']
  | .lineComment | .blockComment => []
  | .escaped => a.2.tail
  | _ => a.2

theorem vis_eq_visAbs (t : Tok) (h : t.text ≠ []) : vis t = visAbs (tokAbs t) := by
  unfold vis visAbs tokAbs
  cases hk : t.kind <;> simp [crlfVolatile, h]

theorem lexFrom_map_vis (cs : CharSpec) (off : Nat) (s : List Char) :
    (lexFrom cs off s).map vis = ((lexFrom cs off s).map tokAbs).map visAbs := by
  rw [List.map_map]
  apply List.map_congr_left
  intro t ht
  exact vis_eq_visAbs t (lexFrom_nonempty cs off s t ht)

/-- token by token, the visible text is the same after CRLF conversion -/
theorem lex_crlf_vis (cs : CharSpec) (hcs : CrlfSpec cs) (s : List Char) (hs : CrlfSafe s) :
    (lex cs (crlf s)).map vis = (lex cs s).map vis := by
  unfold lex
  rw [lexFrom_map_vis, lexFrom_map_vis, lexFrom_crlf cs hcs s hs 0 0]

/-- every run (tokens `i … i+j-1`) has the same visible text after CRLF conversion -/
theorem lex_crlf_run_vis (cs : CharSpec) (hcs : CrlfSpec cs) (s : List Char) (hs : CrlfSafe s) (i j : Nat) :
    (((lex cs (crlf s)).drop i).take j).flatMap vis = (((lex cs s).drop i).take j).flatMap vis := by
  rw [List.flatMap_def, List.flatMap_def, List.map_take, List.map_take, List.map_drop, List.map_drop,
    lex_crlf_vis cs hcs s hs]

end Cook
