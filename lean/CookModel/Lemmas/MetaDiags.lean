import CookModel.Lemmas.CollectorAgree
/-
  C14, diagnostics: the analysis-stage diagnostics ABOUT METADATA (`config-invalid-value`,
  `config-unknown-key`, `std-unsupported-value`, `time-overridden`, `meta-deprecated`) are emitted
  only while a `Metadata` event is processed (and at the end of the fold), and which ones are
  emitted depends only on the metadata part of the collector.  Same frame technique as
  `CollectorMeta.lean`, with the state projection extended by the filtered diagnostics.
-/
set_option linter.unusedSectionVars false
set_option linter.tactic.unusedName false
namespace Cook
variable {α : Type} [Arith α]

/-- the kinds of the analysis diagnostics about metadata -/
def metaKind (k : String) : Bool :=
  k == "config-invalid-value" || k == "config-unknown-key" || k == "std-unsupported-value" ||
  k == "time-overridden" || k == "meta-deprecated"

/-- an analysis-stage diagnostic about metadata -/
def Diag.isMeta (d : Diag) : Bool := d.stage == .analysis && metaKind d.kind

/-- the metadata part of the collector state together with its metadata diagnostics -/
structure MD where
  ms : MS
  ds : List Diag

def Col.md (s : Col α) : MD := ⟨s.ms, s.diags.toList.filter Diag.isMeta⟩

theorem Col.md_ms {s s' : Col α} (h : s.md = s'.md) : s.ms = s'.ms := congrArg MD.ms h

/-- started in a state whose metadata part and metadata diagnostics are `m`, `f` ends in such a state -/
structure PD {β : Type} (m : MD) (f : A α β) : Prop where
  run : ∀ s, s.md = m → (f s).2.md = m

theorem PD.pure {β : Type} {m : MD} (a : β) : PD (α := α) m (pure a) := ⟨fun _ h => h⟩

theorem PD.bind {β γ : Type} {m : MD} {f : A α β} {g : β → A α γ}
    (hf : PD m f) (hg : ∀ a, PD m (g a)) : PD m (f >>= g) :=
  ⟨fun s h => (hg (f s).1).run (f s).2 (hf.run s h)⟩

theorem PD.get_bind {γ : Type} {m : MD} {g : Col α → A α γ}
    (hg : ∀ s0 : Col α, s0.md = m → PD m (g s0)) : PD m ((get : A α (Col α)) >>= g) :=
  ⟨fun s h => (hg s h).run s h⟩

theorem PD.set {m : MD} (x : Col α) (h : x.md = m) : PD (α := α) m (set x : A α PUnit) := ⟨fun _ _ => h⟩

theorem PD.modify {m : MD} (k : Col α → Col α) (h : ∀ s, (k s).md = s.md) :
    PD (α := α) m (modify k : A α PUnit) := ⟨fun s hs => (h s).trans hs⟩

theorem md_push (s : Col α) (d : Diag) :
    Col.md { s with diags := s.diags.push d } =
      ⟨s.ms, s.diags.toList.filter Diag.isMeta ++ (if d.isMeta then [d] else [])⟩ := by
  unfold Col.md
  rw [Array.toList_push, List.filter_append]
  cases h : d.isMeta <;> simp [List.filter, h, Col.ms]

syntax "pd_leaf" : tactic
macro_rules | `(tactic| pd_leaf) => `(tactic| with_reducible exact PD.pure _)
macro_rules | `(tactic| pd_leaf) => `(tactic| assumption)
macro_rules | `(tactic| pd_leaf) => `(tactic| (with_reducible apply PD.set) <;> assumption)
macro_rules | `(tactic| pd_leaf) => `(tactic| (with_reducible apply PD.modify) <;> (intro s; rfl))

syntax "pd" : tactic
macro_rules | `(tactic| pd) => `(tactic| repeat' (first
  | intro _
  | pd_leaf
  | with_reducible apply_assumption (maxDepth := 1) -exfalso -symm
  | (extract_lets +onlyGivenNames x
     first
       | (have hjp : ∀ r, PD ‹MD› (x r) := by (intro r; unfold x; pd))
       | (have hjp : ∀ r r', PD ‹MD› (x r r') := by (intro r r'; unfold x; pd))
       | skip
     try clear_value x)
  | dsimp -zeta only
  | with_reducible apply PD.get_bind
  | with_reducible apply PD.bind
  | split))

theorem pd_apanic (m : MD) (site : String) : PD (α := α) m (apanic site) := by
  unfold apanic
  apply PD.modify
  intro s; split <;> rfl
macro_rules | `(tactic| pd_leaf) => `(tactic| with_reducible exact pd_apanic _ _)

/-- an error of another kind leaves the metadata diagnostics alone -/
theorem pd_aerr (m : MD) (k : String) (l : List Span) (hk : metaKind k = false) : PD (α := α) m (aerr k l) := by
  unfold aerr
  apply PD.modify
  intro s
  rw [md_push s ⟨.error, .analysis, k, l⟩]
  simp [Diag.isMeta, hk, Col.md]
macro_rules | `(tactic| pd_leaf) => `(tactic| with_reducible exact pd_aerr _ _ _ (by decide))
theorem pd_awarn (m : MD) (k : String) (l : List Span) (hk : metaKind k = false) : PD (α := α) m (awarn k l) := by
  unfold awarn
  apply PD.modify
  intro s
  rw [md_push s ⟨.warning, .analysis, k, l⟩]
  simp [Diag.isMeta, hk, Col.md]
macro_rules | `(tactic| pd_leaf) => `(tactic| with_reducible exact pd_awarn _ _ _ (by decide))

theorem pd_valueOf (m : MD) (env : Env) (v : PQValue α) (b : Bool) : PD (α := α) m (valueOf env v b) := by
  unfold valueOf; pd
macro_rules | `(tactic| pd_leaf) => `(tactic| with_reducible exact pd_valueOf _ _ _ _)
theorem pd_quantityOf (m : MD) (env : Env) (q : Loc (PQuantity α)) (b : Bool) : PD (α := α) m (quantityOf env q b) := by
  unfold quantityOf; pd
macro_rules | `(tactic| pd_leaf) => `(tactic| with_reducible exact pd_quantityOf _ _ _ _)
theorem pd_resolveReference (m : MD) (env : Env) (c : String) (inh : Nat) (ex : List (Str × Modifiers)) (n : Str)
    (mods : Modifiers) (l ml : Span) : PD (α := α) m (resolveReference (α := α) env c inh ex n mods l ml) := by
  unfold resolveReference; pd
macro_rules | `(tactic| pd_leaf) => `(tactic| with_reducible exact pd_resolveReference _ _ _ _ _ _ _ _ _)
theorem interRefTarget_kind (c : List Content) (n : Nat) (d : InterData) (kind : String)
    (h : interRefTarget c n d = .error kind) : metaKind kind = false := by
  unfold interRefTarget at h
  dsimp only at h
  repeat' (first | split at h | dsimp only at h)
  all_goals first
    | (cases h; done)
    | (injection h with h; subst h; decide)

theorem pd_resolveInterRef (m : MD) (d : Loc InterData) : PD (α := α) m (resolveInterRef (α := α) d) := by
  unfold resolveInterRef
  apply PD.get_bind
  intro s0 hs0
  dsimp only
  have hjp : PD m (match interRefTarget s0.cur.content s0.sections.length d.val with
      | .ok rel => (pure (some rel) : A α (Option IngredientRelation))
      | .error kind => do aerr kind [d.span]; pure none) := by
    split
    · exact PD.pure _
    · rename_i kind hk
      exact PD.bind (pd_aerr _ _ _ (interRefTarget_kind _ _ _ _ hk)) (fun _ => PD.pure _)
  split
  · exact PD.bind (pd_apanic _ _) (fun _ => hjp)
  · exact hjp
macro_rules | `(tactic| pd_leaf) => `(tactic| with_reducible exact pd_resolveInterRef _ _)
theorem pd_noteReferenceError (m : MD) (i : Str) (a b : Span) (c : Option Span) :
    PD (α := α) m (noteReferenceError (α := α) i a b c) := by
  unfold noteReferenceError; pd
macro_rules | `(tactic| pd_leaf) => `(tactic| with_reducible exact pd_noteReferenceError _ _ _ _ _)

theorem PD.forIn {β γ : Type} {m : MD} (l : List γ) (init : β) (body : γ → β → A α (ForInStep β))
    (h : ∀ a b, PD m (body a b)) : PD m (forIn l init body) := by
  induction l generalizing init with
  | nil => simp only [List.forIn_nil]; exact PD.pure _
  | cons a l ih =>
    simp only [List.forIn_cons]
    apply PD.bind (h a init)
    intro r
    split
    · exact PD.pure _
    · exact ih _
macro_rules | `(tactic| pd_leaf) => `(tactic| with_reducible apply PD.forIn)

theorem pd_optQuantityOf (m : MD) (env : Env) (q : Option (Loc (PQuantity α))) (b : Bool) : PD (α := α) m (optQuantityOf (α := α) env q b) := by
  unfold optQuantityOf; pd
macro_rules | `(tactic| pd_leaf) => `(tactic| with_reducible exact pd_optQuantityOf _ _ _ _)
theorem pd_optValueOf (m : MD) (env : Env) (q : Option (Loc (PQValue α))) : PD (α := α) m (optValueOf (α := α) env q) := by
  unfold optValueOf; pd
macro_rules | `(tactic| pd_leaf) => `(tactic| with_reducible exact pd_optValueOf _ _ _)
theorem pd_ingrInterChecks (m : MD) (i : PIngredient α) (igr : Ingredient (ScalableValue α)) : PD (α := α) m (ingrInterChecks (α := α) i igr) := by
  unfold ingrInterChecks; pd
macro_rules | `(tactic| pd_leaf) => `(tactic| with_reducible exact pd_ingrInterChecks _ _ _)
theorem pd_ingrInter (m : MD) (i : PIngredient α) (igr : Ingredient (ScalableValue α)) (d : Loc InterData) : PD (α := α) m (ingrInter (α := α) i igr d) := by
  unfold ingrInter; pd
macro_rules | `(tactic| pd_leaf) => `(tactic| with_reducible exact pd_ingrInter _ _ _ _)
theorem pd_ingrUnitChecks (m : MD) (env : Env) (i : PIngredient α) (newQ : Quantity (ScalableValue α)) (idxs : List Nat) : PD (α := α) m (ingrUnitChecks (α := α) env i newQ idxs) := by
  unfold ingrUnitChecks; pd
macro_rules | `(tactic| pd_leaf) => `(tactic| with_reducible exact pd_ingrUnitChecks _ _ _ _ _)
theorem pd_ingrRefChecks (m : MD) (env : Env) (input : Str) (li : Loc (PIngredient α)) (igr : Ingredient (ScalableValue α)) (refTo : Nat) (defn : Ingredient (ScalableValue α)) (defLoc : Loc (PIngredient α)) : PD (α := α) m (ingrRefChecks (α := α) env input li igr refTo defn defLoc) := by
  unfold ingrRefChecks; pd
macro_rules | `(tactic| pd_leaf) => `(tactic| with_reducible exact pd_ingrRefChecks _ _ _ _ _ _ _ _)
theorem pd_ingrSetReferencedFrom (m : MD) (refTo newIndex : Nat) (defn : Ingredient (ScalableValue α)) : PD (α := α) m (ingrSetReferencedFrom (α := α) refTo newIndex defn) := by
  unfold ingrSetReferencedFrom; pd
macro_rules | `(tactic| pd_leaf) => `(tactic| with_reducible exact pd_ingrSetReferencedFrom _ _ _ _)
theorem pd_ingrRegular (m : MD) (env : Env) (input : Str) (li : Loc (PIngredient α)) (igr0 : Ingredient (ScalableValue α)) : PD (α := α) m (ingrRegular (α := α) env input li igr0) := by
  unfold ingrRegular; pd
macro_rules | `(tactic| pd_leaf) => `(tactic| with_reducible exact pd_ingrRegular _ _ _ _ _)
theorem pd_ingrBuild (m : MD) (env : Env) (input : Str) (li : Loc (PIngredient α)) (igr0 : Ingredient (ScalableValue α)) : PD (α := α) m (ingrBuild (α := α) env input li igr0) := by
  unfold ingrBuild; pd
macro_rules | `(tactic| pd_leaf) => `(tactic| with_reducible exact pd_ingrBuild _ _ _ _ _)
theorem pd_cwRefChecks (m : MD) (input : Str) (lc : Loc (PCookware α)) (cw : Cookware (ScalableValue α)) (defn : Cookware (ScalableValue α)) (defLoc : Loc (PCookware α)) : PD (α := α) m (cwRefChecks (α := α) input lc cw defn defLoc) := by
  unfold cwRefChecks; pd
macro_rules | `(tactic| pd_leaf) => `(tactic| with_reducible exact pd_cwRefChecks _ _ _ _ _ _)
theorem pd_cwSetReferencedFrom (m : MD) (refTo newIndex : Nat) (defn : Cookware (ScalableValue α)) : PD (α := α) m (cwSetReferencedFrom (α := α) refTo newIndex defn) := by
  unfold cwSetReferencedFrom; pd
macro_rules | `(tactic| pd_leaf) => `(tactic| with_reducible exact pd_cwSetReferencedFrom _ _ _ _)
theorem pd_cwResolve (m : MD) (env : Env) (input : Str) (lc : Loc (PCookware α)) (cw0 : Cookware (ScalableValue α)) : PD (α := α) m (cwResolve (α := α) env input lc cw0) := by
  unfold cwResolve; pd
macro_rules | `(tactic| pd_leaf) => `(tactic| with_reducible exact pd_cwResolve _ _ _ _ _)
theorem pd_cwBuild (m : MD) (env : Env) (input : Str) (lc : Loc (PCookware α)) (cw0 : Cookware (ScalableValue α)) : PD (α := α) m (cwBuild (α := α) env input lc cw0) := by
  unfold cwBuild; pd
macro_rules | `(tactic| pd_leaf) => `(tactic| with_reducible exact pd_cwBuild _ _ _ _ _)
theorem pd_timerQuantityChecks (m : MD) (env : Env) (q : Loc (PQuantity α)) (r : Quantity (ScalableValue α)) : PD (α := α) m (timerQuantityChecks (α := α) env q r) := by
  unfold timerQuantityChecks; pd
macro_rules | `(tactic| pd_leaf) => `(tactic| with_reducible exact pd_timerQuantityChecks _ _ _ _)
theorem pd_timerQuantity (m : MD) (env : Env) (tq : Option (Loc (PQuantity α))) : PD (α := α) m (timerQuantity (α := α) env tq) := by
  unfold timerQuantity; pd
macro_rules | `(tactic| pd_leaf) => `(tactic| with_reducible exact pd_timerQuantity _ _ _)
theorem pd_ingredientA (m : MD) (env : Env) (input : Str) (li : Loc (PIngredient α)) :
    PD (α := α) m (ingredientA env input li) := by
  unfold ingredientA; pd
macro_rules | `(tactic| pd_leaf) => `(tactic| with_reducible exact pd_ingredientA _ _ _ _)
theorem pd_cookwareA (m : MD) (env : Env) (input : Str) (lc : Loc (PCookware α)) :
    PD (α := α) m (cookwareA env input lc) := by
  unfold cookwareA; pd
macro_rules | `(tactic| pd_leaf) => `(tactic| with_reducible exact pd_cookwareA _ _ _ _)
theorem pd_timerA (m : MD) (env : Env) (lt : Loc (PTimer α)) : PD (α := α) m (timerA env lt) := by
  unfold timerA; pd
macro_rules | `(tactic| pd_leaf) => `(tactic| with_reducible exact pd_timerA _ _ _)
theorem pd_inStepTextStep (m : MD) (env : Env) (t : Text) (items : List Item) : PD (α := α) m (inStepTextStep (α := α) env t items) := by
  unfold inStepTextStep; pd
macro_rules | `(tactic| pd_leaf) => `(tactic| with_reducible exact pd_inStepTextStep _ _ _ _)
theorem pd_inStepText (m : MD) (env : Env) (t : Text) : PD (α := α) m (inStepText (α := α) env t) := by
  unfold inStepText; pd
macro_rules | `(tactic| pd_leaf) => `(tactic| with_reducible exact pd_inStepText _ _ _)
theorem pd_pushItem (m : MD) (it : Item) : PD (α := α) m (pushItem (α := α) it) := by
  unfold pushItem; pd
macro_rules | `(tactic| pd_leaf) => `(tactic| with_reducible exact pd_pushItem _ _)
theorem pd_inStepComponent (m : MD) (env : Env) (input : Str) (ev : Ev α) : PD (α := α) m (inStepComponent (α := α) env input ev) := by
  unfold inStepComponent; pd
macro_rules | `(tactic| pd_leaf) => `(tactic| with_reducible exact pd_inStepComponent _ _ _ _)
theorem pd_inTextComponent (m : MD) (input : Str) (ev : Ev α) (buf : Str) : PD (α := α) m (inTextComponent (α := α) input ev buf) := by
  unfold inTextComponent; pd
macro_rules | `(tactic| pd_leaf) => `(tactic| with_reducible exact pd_inTextComponent _ _ _ _)
theorem pd_inBlockComponent (m : MD) (env : Env) (input : Str) (ev : Ev α) :
    PD (α := α) m (inBlockComponent env input ev) := by
  unfold inBlockComponent; pd
macro_rules | `(tactic| pd_leaf) => `(tactic| with_reducible exact pd_inBlockComponent _ _ _ _)
theorem pd_endBlockContent (m : MD) (kind : BlockKind) : PD (α := α) m (endBlockContent (α := α) kind) := by
  unfold endBlockContent; pd
macro_rules | `(tactic| pd_leaf) => `(tactic| with_reducible exact pd_endBlockContent _ _)
theorem pd_pushContent (m : MD) (c : Content) : PD (α := α) m (pushContent (α := α) c) := by
  unfold pushContent; pd
macro_rules | `(tactic| pd_leaf) => `(tactic| with_reducible exact pd_pushContent _ _)
theorem pd_endBlock (m : MD) (k : BlockKind) : PD (α := α) m (endBlock (α := α) k) := by
  unfold endBlock; pd
macro_rules | `(tactic| pd_leaf) => `(tactic| with_reducible exact pd_endBlock _ _)


/-! ### non-metadata events -/

/-- an event that is not `Metadata`/front matter, and whose diagnostic (if it is a parser warning)
    is a parse-stage one, leaves the metadata part and the metadata diagnostics untouched -/
theorem pd_processEvent (m : MD) (env : Env) (input : Str) (ev : Ev α) (h : ev.isKey = false)
    (hw : ∀ d, ev = .warning d → d.stage = .parse) :
    PD (α := α) m (processEvent env input ev) := by
  unfold processEvent
  cases ev with
  | warning d =>
    apply PD.modify
    intro s
    rw [md_push s d]
    simp [Diag.isMeta, hw d rfl, Col.md]
  | frontMatter t => simp [Ev.isKey] at h
  | metadata k v => simp [Ev.isKey] at h
  | _ => pd

/-! ### what a `Metadata` event does to the metadata part and the metadata diagnostics depends
    only on them -/

structure SD {β : Type} (f f' : A α β) : Prop where
  run : ∀ s s', s.md = s'.md → (f s).1 = (f' s').1 ∧ (f s).2.md = (f' s').2.md

theorem SD.pure {β : Type} (a : β) : SD (α := α) (pure a) (pure a) := ⟨fun _ _ h => ⟨rfl, h⟩⟩

theorem SD.bind {β γ : Type} {f f' : A α β} {g g' : β → A α γ}
    (hf : SD f f') (hg : ∀ a, SD (g a) (g' a)) : SD (f >>= g) (f' >>= g') := by
  refine ⟨fun s s' h => ?_⟩
  have h1 := hf.run s s' h
  have h2 := (hg (f s).1).run (f s).2 (f' s').2 h1.2
  have e1 : (f >>= g) s = g (f s).1 (f s).2 := rfl
  have e2 : (f' >>= g') s' = g' (f' s').1 (f' s').2 := rfl
  rw [e1, e2, ← h1.1]
  exact h2

theorem SD.get_bind {γ : Type} {g g' : Col α → A α γ}
    (hg : ∀ s0 s0' : Col α, s0.md = s0'.md → SD (g s0) (g' s0')) :
    SD ((get : A α (Col α)) >>= g) ((get : A α (Col α)) >>= g') :=
  ⟨fun s s' h => (hg s s' h).run s s' h⟩

theorem SD.modify (k : Col α → Col α) (h : ∀ s s', s.md = s'.md → (k s).md = (k s').md) :
    SD (α := α) (modify k : A α PUnit) (modify k) := ⟨fun s s' hs => ⟨rfl, h s s' hs⟩⟩

theorem sd_modify_pres (k : Col α → Col α) (h : ∀ s, (k s).md = s.md) :
    SD (α := α) (modify k : A α PUnit) (modify k) :=
  SD.modify k (fun s s' hs => by rw [h, h]; exact hs)

/-- an update of metadata fields only (diagnostics untouched) -/
theorem md_of_ms (k : Col α → Col α) (hd : ∀ s, (k s).diags = s.diags)
    (hm : ∀ s s', s.ms = s'.ms → (k s).ms = (k s').ms) :
    ∀ s s' : Col α, s.md = s'.md → (k s).md = (k s').md := by
  intro s s' h
  have h1 := congrArg MD.ms h
  have h2 := congrArg MD.ds h
  simp only [Col.md] at h1 h2 ⊢
  rw [hd, hd, hm s s' h1, h2]

macro "md_tac" : tactic => `(tactic| (
  apply md_of_ms
  · intro s; rfl
  · ms_tac))

theorem sd_apanic (site : String) : SD (α := α) (apanic site) (apanic site) := by
  unfold apanic
  apply sd_modify_pres
  intro s; split <;> rfl
theorem sd_push (d : Diag) : SD (α := α) (modify fun s => { s with diags := s.diags.push d } : A α PUnit)
    (modify fun s => { s with diags := s.diags.push d }) := by
  apply SD.modify
  intro s s' h
  rw [md_push, md_push]
  have h1 := congrArg MD.ms h
  have h2 := congrArg MD.ds h
  simp only [Col.md] at h1 h2
  rw [h1, h2]
theorem sd_aerr (k : String) (l : List Span) : SD (α := α) (aerr k l) (aerr k l) := sd_push _
theorem sd_awarn (k : String) (l : List Span) : SD (α := α) (awarn k l) (awarn k l) := sd_push _

syntax "sdc_leaf" : tactic
macro_rules | `(tactic| sdc_leaf) => `(tactic| with_reducible exact SD.pure _)
macro_rules | `(tactic| sdc_leaf) => `(tactic| with_reducible exact sd_apanic _)
macro_rules | `(tactic| sdc_leaf) => `(tactic| with_reducible exact sd_aerr _ _)
macro_rules | `(tactic| sdc_leaf) => `(tactic| with_reducible exact sd_awarn _ _)
macro_rules | `(tactic| sdc_leaf) => `(tactic| (with_reducible apply SD.modify) <;> md_tac)

syntax "sdt" : tactic
macro_rules | `(tactic| sdt) => `(tactic| repeat' (first
  | intro _
  | sdc_leaf
  | dsimp only
  | (with_reducible apply SD.get_bind
     intro s0 s0' h
     obtain ⟨h1, h2, h3, h4, h5, h6⟩ := ms_eq (Col.md_ms h)
     try simp only [h3, h5])
  | with_reducible apply SD.bind
  | split))

theorem sd_timeOverrideCheck (k : StdKey) : SD (α := α) (timeOverrideCheck (α := α) k) (timeOverrideCheck k) := by
  unfold timeOverrideCheck; sdt
macro_rules | `(tactic| sdc_leaf) => `(tactic| with_reducible exact sd_timeOverrideCheck _)

theorem sd_metadataA (env : Env) (k v : Text) : SD (α := α) (metadataA (α := α) env k v) (metadataA env k v) := by
  unfold metadataA; sdt

/-! ### the fold -/

/-- what the end of `parse_events` adds: the deprecation warning for old-style entries -/
def endMD (m : MD) : MD :=
  ⟨m.ms, m.ds ++ (if !m.ms.oldStyleUsed.isEmpty then
      [⟨.warning, .analysis, "meta-deprecated", m.ms.oldStyleUsed⟩] else [])⟩

theorem loop_output_md (env : Env) (input : Str) : ∀ (l : List (Ev α)) (s r : Col α),
    (parseEventsLoop env input l s).output = some r → r.md = endMD (finalOf env input l s).md := by
  intro l
  induction l with
  | nil =>
    intro s r h
    simp only [parseEventsLoop, Option.some.injEq] at h
    rw [← h]
    simp only [finalOf, List.foldl_nil]
    split
    · split
      · rename_i h1 h2
        rw [md_push]
        simp [endMD, Col.md, Col.ms, Diag.isMeta, metaKind] at h2 ⊢
        simp [h2]
      · rename_i h1 h2
        simp [endMD, Col.md, Col.ms] at h2 ⊢
        simp [h2]
    · split
      · rename_i h1 h2
        rw [md_push]
        simp [endMD, Col.md, Col.ms, Diag.isMeta, metaKind] at h2 ⊢
        simp [h2]
      · rename_i h1 h2
        simp [endMD, Col.md, Col.ms] at h2 ⊢
        simp [h2]
  | cons ev rest ih =>
    intro s r h
    cases ev with
    | error d => simp [parseEventsLoop] at h
    | _ =>
      simp only [parseEventsLoop] at h
      simpa [finalOf] using ih _ r h

/-- a parser event whose diagnostic, if it is a warning, is a parse-stage one -/
def WarnOK (ev : Ev α) : Prop := ∀ d, ev = .warning d → d.stage = .parse

theorem final_keys_md (env : Env) (input : Str) : ∀ (l : List (Ev α)) (s s' : Col α), s.md = s'.md →
    (∀ ev ∈ l, WarnOK ev) →
    (finalOf env input l s).md = (finalOf env input (l.filter Ev.isKey) s').md := by
  intro l
  induction l with
  | nil => intro s s' h _; exact h
  | cons ev rest ih =>
    intro s s' h hw
    have hw' : ∀ e ∈ rest, WarnOK e := fun e he => hw e (List.mem_cons_of_mem _ he)
    simp only [finalOf, List.foldl_cons, List.filter_cons]
    cases hkey : ev.isKey with
    | true =>
      simp only [if_true, List.foldl_cons]
      apply ih _ _ _ hw'
      cases ev with
      | metadata k v => exact ((sd_metadataA env k v).run s s' h).2
      | frontMatter t =>
        exact md_of_ms (fun s => { s with oldStyle := false, frontMatter := some t }) (fun _ => rfl)
          (by ms_tac) s s' h
      | _ => simp [Ev.isKey] at hkey
    | false =>
      simp only [Bool.false_eq_true, if_false]
      apply ih _ _ _ hw'
      exact ((pd_processEvent s.md env input ev hkey (hw ev (List.mem_cons_self ..))).run s rfl).trans h

/-- two event lists with the same metadata-carrying events (and parse-stage warnings only): whenever
    both analyses have output, the metadata parts AND the metadata diagnostics of the results agree -/
theorem events_agree_md (env : Env) (input : Str) (l1 l2 : List (Ev α))
    (hk : l1.filter Ev.isKey = l2.filter Ev.isKey)
    (hw1 : ∀ ev ∈ l1, WarnOK ev) (hw2 : ∀ ev ∈ l2, WarnOK ev)
    (r1 r2 : Col α) (h1 : (parseEvents env input l1).output = some r1)
    (h2 : (parseEvents env input l2).output = some r2) : r1.md = r2.md := by
  unfold parseEvents at h1 h2
  rw [loop_output_md env input l1 _ r1 h1, loop_output_md env input l2 _ r2 h2,
    final_keys_md env input l1 _ _ rfl hw1, final_keys_md env input l2 _ _ rfl hw2, hk]

end Cook
