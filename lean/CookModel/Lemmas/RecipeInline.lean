import CookModel.Lemmas.RecipeKeepComp
import CookModel.Lemmas.InlineScan
/-
  C05 through the analysis, wave 7: the INLINE_QUANTITIES extension.  A step text is cut at the inline
  quantities `find_inline_quantity` finds (src/analysis/event_consumer.rs:1341-1424, the `while let` of
  `in_step_text`).  Here:
  * the decomposition invariant of one iteration of the scan (`inlineStep`): a hit splits the whole text
    into `before ++ src ++ after`, where `src = sign ++ number ++ gap ++ unit` is a text the stored quantity
    was read from (`InlineSrc`); a failed candidate leaves the whole text unchanged (`ri_step`, `ri_find`);
  * induction over the splitting loop (`inlineLoop`): the items it adds RENDER BACK to the text it was given,
    text items verbatim and in order, an `InlineQuantity(k)` item as a source of `inlineQ[k]` (`ItemsRender`,
    `ri_loop`);
  * `BlockHas` / `rt_text_enters` of `Lemmas/RecipeText.lean` generalised from "the item `Text(t.text)`" to
    "a run of items that renders back to `t.text`" (`BlockHasP`, …), kept by every later event; the inline
    quantities only grow (`ri_event_inlineQ`).
  Specification-side vocabulary only (`InlineSrc`, `ItemsRender`, `ContentHasP`, …): no new model function.
-/
set_option linter.unusedSectionVars false
set_option linter.unusedSimpArgs false
set_option linter.unusedVariables false
namespace Cook
variable {α : Type} [Arith α]

/-! ### one iteration of the scan -/

/-- `src` is a source text of the inline quantity `q`: an optional `-`, a number text, white space, a unit
    text; `q` holds the number read from the (trimmed) number text — negated after a `-` — and the trimmed
    unit text, which is a unit the converter knows.  What is NOT kept of `src`: the white space between
    number and unit, and the spelling of the number. -/
def InlineSrc (env : Env) (src : Str) (q : Quantity (Value α)) : Prop :=
  ∃ (neg : Bool) (number gap unit : Str) (n : α),
    src = (if neg then ['-'] else []) ++ number ++ gap ++ unit ∧
    gap.all env.cs.uws = true ∧
    parseSimpleFloat (α := α) (trim env.cs.uws number) = some n ∧
    (env.findUnit (trim env.cs.uws unit)).isSome = true ∧
    q = ⟨.number (.regular (if neg then Arith.neg n else n)), some (trim env.cs.uws unit)⟩

/-- what one iteration of the scan keeps of the whole text `whole` -/
def InlineStepOK (env : Env) (whole : Str) : InlineStep α → Prop
  | .stop => True
  | .hit h => ∃ src, whole = h.before ++ src ++ h.after ∧ InlineSrc env src h.q
  | .retry p a => p.reverse ++ a = whole

theorem ri_take_len (x after : Str) : (x ++ after).take ((x ++ after).length - after.length) = x := by
  simp

theorem ri_neg_split (p : Str) (h : (p.head? == some '-') = true) : p.reverse = (p.drop 1).reverse ++ ['-'] := by
  cases p with
  | nil => simp at h
  | cons c r =>
    simp only [List.head?_cons, beq_iff_eq, Option.some.injEq] at h
    subst h
    simp

/-- a hit: the whole text is `before`, the source of the quantity, `after` -/
theorem ri_hit_leaf (env : Env) (p number gap unit after : Str) (n : α) (u : Nat)
    (hgap : gap.all env.cs.uws = true)
    (hx : parseSimpleFloat (α := α) (trim env.cs.uws number) = some n)
    (hu : env.findUnit (trim env.cs.uws unit) = some u) :
    ∃ src, p.reverse ++ (number ++ gap ++ unit ++ after) =
        (if (p.head? == some '-') = true then p.drop 1 else p).reverse ++ src ++ after ∧
      InlineSrc env src ⟨.number (.regular (if (p.head? == some '-') = true then Arith.neg n else n)),
        some (trim env.cs.uws unit)⟩ := by
  by_cases hneg : (p.head? == some '-') = true
  · refine ⟨['-'] ++ number ++ gap ++ unit, ?_, true, number, gap, unit, n, rfl, hgap, hx, by rw [hu]; rfl, ?_⟩
    · rw [if_pos hneg, ri_neg_split p hneg]; simp
    · simp only [hneg, if_true]
  · refine ⟨number ++ gap ++ unit, ?_, false, number, gap, unit, n, by simp, hgap, hx, by rw [hu]; rfl, ?_⟩
    · rw [if_neg hneg]; simp
    · simp only [hneg, if_false, Bool.false_eq_true]

/-- a failed candidate: nothing of the whole text is lost -/
theorem ri_retry_leaf (p x after : Str) :
    (((x ++ after).take ((x ++ after).length - after.length)).reverse ++ p).reverse ++ after =
      p.reverse ++ (x ++ after) := by
  rw [ri_take_len]; simp

theorem ri_dropWhile_split (r : Str) (ws : Char → Bool) :
    ∃ g, g.all ws = true ∧
      r = g ++ (if (r.any fun c => !ws c) = true then r.dropWhile ws else r) := by
  by_cases h : (r.any fun c => !ws c) = true
  · refine ⟨r.takeWhile ws, ?_, ?_⟩
    · exact List.all_takeWhile
    · rw [if_pos h]; exact (List.takeWhile_append_dropWhile).symm
  · exact ⟨[], rfl, by rw [if_neg h]; rfl⟩

/-- **decomposition invariant of one iteration of `find_inline_quantity`** -/
theorem ri_step (env : Env) (pre rest : Str) :
    InlineStepOK env (pre.reverse ++ rest) (inlineStep (α := α) env pre rest) := by
  have hsk : rest = rest.takeWhile (fun c => !isAsciiDigitC c) ++ rest.dropWhile (fun c => !isAsciiDigitC c) :=
    (List.takeWhile_append_dropWhile).symm
  unfold inlineStep
  dsimp only
  generalize rest.takeWhile (fun c => !isAsciiDigitC c) = sk at hsk ⊢
  cases hr : List.dropWhile (fun c => !isAsciiDigitC c) rest with
  | nil => trivial
  | cons d r' =>
    rw [hr] at hsk
    have hwhole : pre.reverse ++ rest = (sk.reverse ++ pre).reverse ++ (d :: r') := by rw [hsk]; simp
    rw [hwhole]
    generalize sk.reverse ++ pre = p
    have hw1 : d :: r' = (d :: r').takeWhile (fun c => !env.cs.uws c) ++ (d :: r').dropWhile (fun c => !env.cs.uws c) :=
      (List.takeWhile_append_dropWhile).symm
    dsimp only
    cases hf : List.findIdx? (fun c => !isAsciiDigitC c && c != '.' && !env.cs.uws c)
        (List.takeWhile (fun c => !env.cs.uws c) (d :: r')) with
    | some mid =>
      dsimp only
      generalize hw1e : List.takeWhile (fun c => !env.cs.uws c) (d :: r') = w1 at hw1 ⊢
      generalize hr1e : List.dropWhile (fun c => !env.cs.uws c) (d :: r') = r1 at hw1 ⊢
      have hsplit : d :: r' = w1.take mid ++ [] ++ w1.drop mid ++ r1 := by
        rw [hw1]; simp
      rw [hsplit]
      generalize hx : parseSimpleFloat (α := α) (trim env.cs.uws (List.take mid w1)) = x
      generalize hy : env.findUnit (trim env.cs.uws (List.drop mid w1)) = y
      cases x with
      | none => exact ri_retry_leaf p _ r1
      | some n =>
        cases y with
        | none => exact ri_retry_leaf p _ r1
        | some u => exact ri_hit_leaf env p _ [] _ r1 n u rfl hx hy
    | none =>
      dsimp only
      generalize hw1e : List.takeWhile (fun c => !env.cs.uws c) (d :: r') = w1 at hw1 ⊢
      generalize hr1e : List.dropWhile (fun c => !env.cs.uws c) (d :: r') = r1 at hw1 ⊢
      obtain ⟨g, hg, hr1⟩ := ri_dropWhile_split r1 env.cs.uws
      generalize hr2e : (if (r1.any fun c => !env.cs.uws c) = true then List.dropWhile env.cs.uws r1 else r1) = r2
        at hr1 ⊢
      by_cases he : r2.isEmpty = true
      · simp only [he, if_true]; trivial
      · simp only [he, if_false, Bool.false_eq_true]
        have hw2 : r2 = r2.takeWhile (fun c => !env.cs.uws c) ++ r2.dropWhile (fun c => !env.cs.uws c) :=
          (List.takeWhile_append_dropWhile).symm
        generalize List.takeWhile (fun c => !env.cs.uws c) r2 = w2 at hw2 ⊢
        generalize List.dropWhile (fun c => !env.cs.uws c) r2 = r3 at hw2 ⊢
        have hsplit : d :: r' = w1 ++ g ++ w2 ++ r3 := by
          rw [hw1, hr1, hw2]; simp
        rw [hsplit]
        generalize hx : parseSimpleFloat (α := α) (trim env.cs.uws w1) = x
        generalize hy : env.findUnit (trim env.cs.uws w2) = y
        cases x with
        | none => exact ri_retry_leaf p _ r3
        | some n =>
          cases y with
          | none => exact ri_retry_leaf p _ r3
          | some u => exact ri_hit_leaf env p _ g _ r3 n u hg hx hy

/-- **what a hit of `find_inline_quantity` keeps**: the scanned text is `before`, a source of the quantity,
    `after` — nothing else -/
theorem ri_find (env : Env) : ∀ (fuel : Nat) (pre rest : Str) (hit : InlineHit α),
    findInlineQuantity env fuel pre rest = some hit →
      ∃ src, pre.reverse ++ rest = hit.before ++ src ++ hit.after ∧ InlineSrc env src hit.q := by
  intro fuel
  induction fuel with
  | zero => intro pre rest hit h; simp [findInlineQuantity] at h
  | succ fuel ih =>
    intro pre rest hit h
    rw [findInlineQuantity_succ] at h
    have hs := ri_step (α := α) env pre rest
    cases hstep : inlineStep (α := α) env pre rest with
    | stop => rw [hstep] at h; cases h
    | hit x =>
      rw [hstep] at h hs
      simp only [Option.some.injEq] at h; subst h
      exact hs
    | retry p a =>
      rw [hstep] at h hs
      obtain ⟨src, e, hq⟩ := ih p a hit h
      exact ⟨src, by rw [← hs]; exact e, hq⟩

/-! ### the items render back to the text -/

/-- the items `l` render back to the text `txt`: text items verbatim and in order, an `InlineQuantity(k)` item
    as a source text of a quantity `q` with `R k q` (in the theorems: `q` is entry `k` of the inline-quantity
    table); no other item -/
def ItemsRender (env : Env) (R : Nat → Quantity (Value α) → Prop) : List Item → Str → Prop
  | [], txt => txt = []
  | .text τ :: rest, txt => ∃ txt', txt = τ ++ txt' ∧ ItemsRender env R rest txt'
  | .inlineQuantity k :: rest, txt =>
    ∃ src txt' q, txt = src ++ txt' ∧ R k q ∧ InlineSrc env src q ∧ ItemsRender env R rest txt'
  | .ingredient _ :: _, _ => False
  | .cookware _ :: _, _ => False
  | .timer _ :: _, _ => False

variable {R R' : Nat → Quantity (Value α) → Prop}

theorem ri_render_append (env : Env) : ∀ (a b : List Item) (x y : Str),
    ItemsRender env R a x → ItemsRender env R b y → ItemsRender env R (a ++ b) (x ++ y) := by
  intro a
  induction a with
  | nil =>
    intro b x y ha hb
    simp only [ItemsRender] at ha
    subst ha
    exact hb
  | cons it a ih =>
    intro b x y ha hb
    cases it with
    | text τ =>
      obtain ⟨x', e, hr⟩ := ha
      exact ⟨x' ++ y, by rw [e]; simp, ih b x' y hr hb⟩
    | inlineQuantity k =>
      obtain ⟨src, x', q, e, hR, hs, hr⟩ := ha
      exact ⟨src, x' ++ y, q, by rw [e]; simp, hR, hs, ih b x' y hr hb⟩
    | ingredient i => exact ha.elim
    | cookware i => exact ha.elim
    | timer i => exact ha.elim

theorem ri_render_mono (env : Env) (hRR : ∀ k q, R k q → R' k q) : ∀ (l : List Item) (x : Str),
    ItemsRender env R l x → ItemsRender env R' l x := by
  intro l
  induction l with
  | nil => intro x h; exact h
  | cons it l ih =>
    intro x h
    cases it with
    | text τ =>
      obtain ⟨x', e, hr⟩ := h
      exact ⟨x', e, ih x' hr⟩
    | inlineQuantity k =>
      obtain ⟨src, x', q, e, hR, hs, hr⟩ := h
      exact ⟨src, x', q, e, hRR k q hR, hs, ih x' hr⟩
    | ingredient i => exact h.elim
    | cookware i => exact h.elim
    | timer i => exact h.elim

theorem ri_render_ne (env : Env) {l : List Item} {x : Str} (h : ItemsRender env R l x) (hne : x ≠ []) : l ≠ [] := by
  rintro rfl
  exact hne h

/-- every character of the rendered text is in a text item or in the source of an inline quantity -/
theorem ri_render_char (env : Env) (ch : Char) : ∀ (l : List Item) (x : Str), ItemsRender env R l x → ch ∈ x →
    (∃ τ, Item.text τ ∈ l ∧ ch ∈ τ) ∨
    (∃ k src q, Item.inlineQuantity k ∈ l ∧ R k q ∧ InlineSrc env src q ∧ ch ∈ src) := by
  intro l
  induction l with
  | nil => intro x h hc; simp only [ItemsRender] at h; subst h; cases hc
  | cons it l ih =>
    intro x h hc
    cases it with
    | text τ =>
      obtain ⟨x', e, hr⟩ := h
      rw [e, List.mem_append] at hc
      rcases hc with hc | hc
      · exact Or.inl ⟨τ, List.mem_cons_self, hc⟩
      · rcases ih x' hr hc with ⟨τ', h1, h2⟩ | ⟨k, src, q, h1, h2⟩
        · exact Or.inl ⟨τ', List.mem_cons_of_mem _ h1, h2⟩
        · exact Or.inr ⟨k, src, q, List.mem_cons_of_mem _ h1, h2⟩
    | inlineQuantity k =>
      obtain ⟨src, x', q, e, hR, hs, hr⟩ := h
      rw [e, List.mem_append] at hc
      rcases hc with hc | hc
      · exact Or.inr ⟨k, src, q, List.mem_cons_self, hR, hs, hc⟩
      · rcases ih x' hr hc with ⟨τ', h1, h2⟩ | ⟨k', src', q', h1, h2⟩
        · exact Or.inl ⟨τ', List.mem_cons_of_mem _ h1, h2⟩
        · exact Or.inr ⟨k', src', q', List.mem_cons_of_mem _ h1, h2⟩
    | ingredient i => exact h.elim
    | cookware i => exact h.elim
    | timer i => exact h.elim

/-- the inline-quantity table only grows in the splitting loop (any fuel) -/
theorem ri_loop_iq_prefix (env : Env) : ∀ (fuel : Nat) (hay : Str) (items : List Item)
    (iq : Array (Quantity (Value α))), ∃ more, (inlineLoop env fuel hay items iq).2.toList = iq.toList ++ more := by
  intro fuel
  induction fuel with
  | zero => intro hay items iq; unfold inlineLoop; exact ⟨[], by simp⟩
  | succ fuel ih =>
    intro hay items iq
    unfold inlineLoop
    split
    · rename_i hit _
      dsimp only
      obtain ⟨more, h⟩ := ih hit.after
        ((if hit.before.isEmpty = true then items else items ++ [Item.text hit.before]) ++ [Item.inlineQuantity iq.size])
        (iq.push hit.q)
      exact ⟨hit.q :: more, by rw [h]; simp⟩
    · exact ⟨[], by simp⟩

/-- **induction over the splitting loop**: the items it adds render back to the text it was given; an
    `InlineQuantity(k)` item as a source of entry `k` of the table it returns -/
theorem ri_loop (env : Env) (hd : DigitsNotWs env.cs) : ∀ (fuel : Nat) (hay : Str) (items : List Item)
    (iq : Array (Quantity (Value α))), hay.length < fuel →
    ∃ extra more, (inlineLoop env fuel hay items iq).1 = items ++ extra ∧
      (inlineLoop env fuel hay items iq).2.toList = iq.toList ++ more ∧
      ItemsRender env (fun k q => (iq.toList ++ more)[k]? = some q) extra hay := by
  intro fuel
  induction fuel with
  | zero => intro hay items iq h; omega
  | succ fuel ih =>
    intro hay items iq hlen
    unfold inlineLoop
    cases hf : findInlineQuantity (α := α) env (hay.length + 1) [] hay with
    | none =>
      dsimp only
      by_cases he : hay.isEmpty = true
      · refine ⟨[], [], by simp [he], by simp, ?_⟩
        show hay = []
        simpa using he
      · exact ⟨[.text hay], [], by simp [he], by simp, [], by simp, rfl⟩
    | some hit =>
      dsimp only
      obtain ⟨src, e, hq⟩ := ri_find env _ _ _ hit hf
      have hp := inlineScan_progress env hd _ _ _ hit hf
      obtain ⟨extra', more', h1, h2, h3⟩ := ih hit.after
        ((if hit.before.isEmpty = true then items else items ++ [Item.text hit.before]) ++ [Item.inlineQuantity iq.size])
        (iq.push hit.q) (by omega)
      refine ⟨(if hit.before.isEmpty = true then [] else [Item.text hit.before]) ++ [Item.inlineQuantity iq.size] ++ extra',
        hit.q :: more', ?_, ?_, ?_⟩
      · rw [h1]; split <;> simp
      · rw [h2]; simp
      · have e' : hay = hit.before ++ (src ++ hit.after) := by simpa using e
        rw [e']
        have hR : ∀ (k : Nat) (q : Quantity (Value α)), ((iq.push hit.q).toList ++ more')[k]? = some q →
            (iq.toList ++ hit.q :: more')[k]? = some q := by
          intro k q h; simpa using h
        have h3' := ri_render_mono env hR _ _ h3
        have hmid : ItemsRender env (fun k q => (iq.toList ++ hit.q :: more')[k]? = some q)
            ([Item.inlineQuantity iq.size] ++ extra') (src ++ hit.after) :=
          ⟨src, hit.after, hit.q, rfl, by simp, hq, h3'⟩
        rw [List.append_assoc]
        refine ri_render_append env _ _ _ _ ?_ hmid
        by_cases hb : hit.before.isEmpty = true
        · rw [if_pos hb]
          show hit.before = []
          simpa using hb
        · rw [if_neg hb]
          exact ⟨[], by simp, rfl⟩

/-! ### the open block, generalised: a run of items with the property `P` -/

/-- the content item holds the text `τ`: a step has a run of items with `P`; a text block contains `τ` -/
def ContentHasP (P : List Item → Prop) (τ : Str) : Content → Prop
  | .step st => ∃ a extra b, st.items = a ++ extra ++ b ∧ P extra
  | .text buf => τ <:+: buf

def SecsHaveP (P : List Item → Prop) (τ : Str) (secs : List Section) : Prop :=
  ∃ sec ∈ secs, ∃ ct ∈ sec.content, ContentHasP P τ ct

def BlockHasP (P : List Item → Prop) (τ : Str) (s : Col α) : Prop :=
  (∃ items a extra b, s.block = some (.step items) ∧ items = a ++ extra ++ b ∧ extra ≠ [] ∧ P extra ∧
    s.defineMode ≠ .components) ∨
  (∃ buf, s.block = some (.text buf) ∧ τ <:+: buf ∧ τ ≠ [])

def TextKeptP (P : List Item → Prop) (τ : Str) (s : Col α) : Prop :=
  SecsHaveP P τ (s.sections ++ [s.cur]) ∨ BlockHasP P τ s

variable {P P' : List Item → Prop} {τ : Str}

theorem ri_secs_mono_P (hPP : ∀ l, P l → P' l) {secs : List Section} (h : SecsHaveP P τ secs) :
    SecsHaveP P' τ secs := by
  obtain ⟨sec, hm, ct, hct, hh⟩ := h
  refine ⟨sec, hm, ct, hct, ?_⟩
  cases ct with
  | step st =>
    obtain ⟨a, extra, b, e, hp⟩ := hh
    exact ⟨a, extra, b, e, hPP _ hp⟩
  | text buf => exact hh

theorem ri_secs_push {secs : List Section} {cur : Section} (h : SecsHaveP P τ (secs ++ [cur])) :
    SecsHaveP P τ (if (!cur.isEmpty) = true then secs ++ [cur] else secs) := by
  obtain ⟨sec, hm, ct, hct, hh⟩ := h
  simp only [List.mem_append, List.mem_singleton] at hm
  rcases hm with hm | rfl
  · refine ⟨sec, ?_, ct, hct, hh⟩
    split
    · simp [hm]
    · exact hm
  · have hne : sec.isEmpty = false := by
      unfold Section.isEmpty
      cases hc : sec.content with
      | nil => rw [hc] at hct; cases hct
      | cons _ _ => simp
    refine ⟨sec, ?_, ct, hct, hh⟩
    rw [hne]; simp

theorem ri_secs_mono {env : Env} {ev : Ev α} {s s' : Col α} (h : Trans env ev s s')
    (hk : SecsHaveP P τ (s.sections ++ [s.cur])) : SecsHaveP P τ (s'.sections ++ [s'.cur]) := by
  cases h with
  | keep hsec hcur => rw [hsec, hcur]; exact hk
  | newSection name _ hsec hcur =>
    obtain ⟨sec, hm, ct, hct, hh⟩ := ri_secs_push hk
    rw [hsec]
    exact ⟨sec, List.mem_append_left _ hm, ct, hct, hh⟩
  | pushBlock c hsec hcur =>
    obtain ⟨sec, hm, ct, hct, hh⟩ := hk
    rw [hsec, hcur]
    simp only [List.mem_append, List.mem_singleton] at hm
    rcases hm with hm | rfl
    · exact ⟨sec, List.mem_append_left _ hm, ct, hct, hh⟩
    · exact ⟨_, List.mem_append_right _ (List.mem_singleton.2 rfl), ct, List.mem_append_left _ hct, hh⟩
  | ingr ings igr hsec hcur => rw [hsec, hcur]; exact hk
  | cw cws cwn hsec hcur => rw [hsec, hcur]; exact hk

/-- the `End` event pushes the open block that holds `τ` -/
theorem ri_stop (k : BlockKind) (s : Col α) (hk : BlockHasP P τ s) :
    SecsHaveP P τ ((endBlock k s).2.sections ++ [(endBlock k s).2.cur]) := by
  rcases hk with ⟨items, a, extra, b, h1, h2, hne, hp, h3⟩ | ⟨buf, h1, h2, h3⟩
  · have hine : items ≠ [] := by
      rw [h2]; intro h0; simp at h0; exact hne h0.2.1
    obtain ⟨e1, e2⟩ := rt_endBlock_step k s items h1 hine h3
    exact ⟨(endBlock k s).2.cur, by simp, Content.step ⟨items, s.stepCounter⟩, by rw [e2]; simp,
      a, extra, b, h2, hp⟩
  · obtain ⟨e1, e2⟩ := rt_endBlock_text k s buf h1 (rt_infix_ne h2 h3)
    exact ⟨(endBlock k s).2.cur, by simp, Content.text buf, by rw [e2]; simp, h2⟩

/-- what a `Text` event does to the open block, INLINE_QUANTITIES on or off -/
theorem ri_text_block (env : Env) (t : Text) (s : Col α) :
    (inStepText env t s).2.defineMode = s.defineMode ∧
    (∀ items, s.block = some (.step items) → s.defineMode ≠ .components →
      (inStepText env t s).2.block = some (.step
        (if env.ext.has Gen.EXT_INLINE_QUANTITIES = true
          then (inlineLoop env (t.text.length + 1) t.text items s.inlineQ).1 else items ++ [Item.text t.text])) ∧
      (inStepText env t s).2.inlineQ =
        (if env.ext.has Gen.EXT_INLINE_QUANTITIES = true
          then (inlineLoop env (t.text.length + 1) t.text items s.inlineQ).2 else s.inlineQ)) ∧
    (∀ buf, s.block = some (.text buf) → (inStepText env t s).2.block = some (.text (buf ++ t.text))) := by
  have e := (inStepText_pres env t).out s
  simp only [Prod.mk.injEq] at e
  refine ⟨e.2, ?_, ?_⟩
  · intro items hb hm
    unfold inStepText
    simp +instances only [A_bind, A_get, hb]
    unfold inStepTextStep
    have hc1 : (s.defineMode == DefineMode.components) = false := by
      cases hd : s.defineMode <;> simp_all
    by_cases hiq : env.ext.has Gen.EXT_INLINE_QUANTITIES = true
    · simp +instances only [A_bind, A_get, A_ite, A_modify, A_pure, hc1, hiq, Bool.false_eq_true, if_false, if_true]
      refine ⟨?_, ?_⟩ <;> first | trivial | rfl
    · simp +instances only [A_bind, A_get, A_ite, A_modify, A_pure, hc1, hiq, Bool.false_eq_true, if_false]
      refine ⟨?_, ?_⟩ <;> first | trivial | rfl
  · intro buf hb
    unfold inStepText
    simp +instances only [A_bind, A_get, hb, A_modify]

theorem ri_text_keeps (env : Env) (t : Text) (s : Col α) (hk : BlockHasP P τ s) :
    BlockHasP P τ (inStepText env t s).2 := by
  obtain ⟨hm, hs, ht⟩ := ri_text_block env t s
  rcases hk with ⟨items, a, extra, b, h1, h2, hne, hp, h3⟩ | ⟨buf, h1, h2, h3⟩
  · obtain ⟨hblk, -⟩ := hs items h1 h3
    have hex : ∃ extra', (if env.ext.has Gen.EXT_INLINE_QUANTITIES = true
          then (inlineLoop env (t.text.length + 1) t.text items s.inlineQ).1 else items ++ [Item.text t.text]) =
        items ++ extra' := by
      split
      · obtain ⟨extra', he, -⟩ := inlineLoop_order env (t.text.length + 1) t.text items s.inlineQ
        exact ⟨extra', he⟩
      · exact ⟨_, rfl⟩
    obtain ⟨extra', he⟩ := hex
    rw [he] at hblk
    exact Or.inl ⟨_, a, extra, b ++ extra', hblk, by rw [h2]; simp, hne, hp, by rw [hm]; exact h3⟩
  · refine Or.inr ⟨_, ht buf h1, ?_, h3⟩
    obtain ⟨x, y, hxy⟩ := h2
    exact ⟨x, y ++ t.text, by rw [← hxy]; simp⟩

/-- **the `Text` event's own text enters the open block**: as a run of items that renders back to it, an
    `InlineQuantity(k)` item as a source of entry `k` of the table after the event -/
theorem ri_text_enters (env : Env) (hd : DigitsNotWs env.cs) (t : Text) (s : Col α) (k : BlockKind)
    (hb : BlockRel s (some k)) (hm : s.defineMode ≠ .components) (hne : t.text ≠ []) :
    BlockHasP (fun e => ItemsRender env (fun i q => (inStepText env t s).2.inlineQ[i]? = some q) e t.text)
      t.text (inStepText env t s).2 := by
  obtain ⟨hmode, hs, ht⟩ := ri_text_block env t s
  rcases hb with ⟨items, h1, -⟩ | ⟨buf, h1, -⟩
  · obtain ⟨hblk, hiqe⟩ := hs items h1 hm
    by_cases hiq : env.ext.has Gen.EXT_INLINE_QUANTITIES = true
    · rw [if_pos hiq] at hblk hiqe
      obtain ⟨extra, more, e1, e2, hr⟩ := ri_loop env hd (t.text.length + 1) t.text items s.inlineQ (by omega)
      rw [e1] at hblk
      have hr' : ItemsRender env (fun i q => (inStepText env t s).2.inlineQ[i]? = some q) extra t.text := by
        refine ri_render_mono env ?_ _ _ hr
        intro i q h
        rw [hiqe, ← Array.getElem?_toList, e2]
        exact h
      exact Or.inl ⟨_, items, extra, [], hblk, by simp, ri_render_ne env hr' hne, hr', by rw [hmode]; exact hm⟩
    · rw [if_neg hiq] at hblk
      exact Or.inl ⟨_, items, [Item.text t.text], [], hblk, by simp, by simp, ⟨[], by simp, rfl⟩,
        by rw [hmode]; exact hm⟩
  · exact Or.inr ⟨_, ht buf h1, ⟨buf, [], by simp⟩, hne⟩

/-- a component keeps what the open block holds -/
theorem ri_component_keeps (env : Env) (input : Str) (ev : Ev α) (s : Col α) (hnp : NP env s)
    (hev : EvOK' ev) (hcomp : (∃ i, ev = .ingredient i) ∨ (∃ c, ev = .cookware c) ∨ (∃ t, ev = .timer t))
    (hk : BlockHasP P τ s) : BlockHasP P τ (inBlockComponent env input ev s).2 := by
  unfold inBlockComponent
  simp +instances only [A_bind, A_get]
  rcases hk with ⟨items, a, extra, b, h1, h2, hne, hp, h3⟩ | ⟨buf, h1, h2, h3⟩
  · rw [h1]
    simp only []
    unfold inStepComponent
    rcases hcomp with ⟨li, rfl⟩ | ⟨lc, rfl⟩ | ⟨lt, rfl⟩
    · simp only [A_bind]
      obtain ⟨dg, p, ings, igr, e1, -, -⟩ := ingredientA_spec env input li s hnp.inv.locI hnp.inv.itab.nonREF_def hev.1
      have hblk : (ingredientA env input li s).2.block = s.block := by rw [e1]
      rw [pushItem_step' _ items s (ingredientA env input li s).2 hblk h1, e1]
      exact Or.inl ⟨_, a, extra, b ++ [Item.ingredient s.ingredients.size], rfl, by rw [h2]; simp, hne, hp, h3⟩
    · simp only [A_bind]
      obtain ⟨dg, p, cws, cw, e1, -, -⟩ := cookwareA_spec env input lc s hnp.inv.locC hnp.inv.ctab.nonREF_def
      have hblk : (cookwareA env input lc s).2.block = s.block := by rw [e1]
      rw [pushItem_step' _ items s (cookwareA env input lc s).2 hblk h1, e1]
      exact Or.inl ⟨_, a, extra, b ++ [Item.cookware s.cookware.size], rfl, by rw [h2]; simp, hne, hp, h3⟩
    · simp only [A_bind]
      obtain ⟨dg, p, tm, e1, -, -⟩ := timerA_spec env lt s
      have hblk : (timerA env lt s).2.block = s.block := by rw [e1]
      rw [pushItem_step' _ items s (timerA env lt s).2 hblk h1, e1]
      exact Or.inl ⟨_, a, extra, b ++ [Item.timer s.timers.size], rfl, by rw [h2]; simp, hne, hp, h3⟩
  · rw [h1]
    simp only []
    obtain ⟨hm, hblk⟩ := rt_inTextComponent_block input ev buf s
    refine Or.inr ?_
    rcases hblk with hblk | ⟨sl, hblk⟩
    · exact ⟨buf, hblk.trans h1, h2, h3⟩
    · refine ⟨_, hblk, ?_, h3⟩
      obtain ⟨x, y, hxy⟩ := h2
      exact ⟨x, y ++ sl, by rw [← hxy]; simp⟩

theorem ri_blockHas_frame {s s' : Col α} (hb : s'.block = s.block) (hm : s'.defineMode = s.defineMode)
    (hk : BlockHasP P τ s) : BlockHasP P τ s' := by
  rcases hk with ⟨items, a, extra, b, h1, h2, hne, hp, h3⟩ | ⟨buf, h1, h2, h3⟩
  · exact Or.inl ⟨items, a, extra, b, hb.trans h1, h2, hne, hp, by rw [hm]; exact h3⟩
  · exact Or.inr ⟨buf, hb.trans h1, h2, h3⟩

/-- one event keeps what is kept (INLINE_QUANTITIES on or off) -/
theorem ri_event_kept (env : Env) (input : Str) (ev : Ev α) (s : Col α) (o o' : Option BlockKind)
    (hnp : NP env s) (hb : BlockRel s o) (hw : wbStep o ev = some o') (hev : EvOK' ev)
    (hk : TextKeptP P τ s) : TextKeptP P τ (processEvent env input ev s).2 := by
  rcases hk with hsec | hblk
  · exact Or.inl (ri_secs_mono (processEvent_trans env input ev s hnp.inv hev.evOK) hsec)
  · have noblk : s.block = none → False := by
      intro h0
      rcases hblk with ⟨items, a, extra, b, h1, -⟩ | ⟨buf, h1, -⟩ <;> rw [h0] at h1 <;> cases h1
    cases ev with
    | frontMatter t =>
      simp only [processEvent, A_modify]
      exact Or.inr (ri_blockHas_frame rfl rfl hblk)
    | warning d =>
      simp only [processEvent, A_modify]
      exact Or.inr (ri_blockHas_frame rfl rfl hblk)
    | error d =>
      simp only [processEvent, A_pure]
      exact Or.inr hblk
    | «section» name =>
      simp only [processEvent, A_modify]
      exact Or.inr (ri_blockHas_frame rfl rfl hblk)
    | metadata k v =>
      exfalso
      simp only [wbStep] at hw
      split at hw
      · rename_i ho; subst ho; exact noblk hb
      · cases hw
    | start kind =>
      exfalso
      simp only [wbStep] at hw
      split at hw
      · rename_i ho; subst ho; exact noblk hb
      · cases hw
    | stop kind =>
      simp only [processEvent]
      exact Or.inl (ri_stop kind s hblk)
    | text t =>
      simp only [processEvent]
      exact Or.inr (ri_text_keeps env t s hblk)
    | ingredient i =>
      simp only [processEvent]
      exact Or.inr (ri_component_keeps env input _ s hnp hev (Or.inl ⟨i, rfl⟩) hblk)
    | cookware c =>
      simp only [processEvent]
      exact Or.inr (ri_component_keeps env input _ s hnp hev (Or.inr (Or.inl ⟨c, rfl⟩)) hblk)
    | timer t =>
      simp only [processEvent]
      exact Or.inr (ri_component_keeps env input _ s hnp hev (Or.inr (Or.inr ⟨t, rfl⟩)) hblk)

/-! ### the inline-quantity table only grows -/

theorem ri_endBlock_inlineQ (k : BlockKind) (s : Col α) : (endBlock k s).2.inlineQ = s.inlineQ := by
  unfold endBlock
  simp +instances only [A_bind, A_modify]
  obtain ⟨d, p, h⟩ := (endBlockContent_diagOnly k).out s
  rw [h]
  cases (endBlockContent k s).1 with
  | none => rfl
  | some c =>
    simp only []
    unfold pushContent
    simp +instances only [A_bind, A_get, A_ite, A_modify, A_pure]
    split <;> rfl

theorem ri_inStepText_inlineQ (env : Env) (t : Text) (s : Col α) :
    ∃ more, (inStepText env t s).2.inlineQ.toList = s.inlineQ.toList ++ more := by
  unfold inStepText
  simp +instances only [A_bind, A_get]
  cases hb : s.block with
  | none =>
    simp only []
    exact ⟨[], by rw [((DiagOnly.apanic _).coreOnly.out s).2.2.2.2.2.1]; simp⟩
  | some buf =>
    cases buf with
    | text b => exact ⟨[], by simp [A_modify]⟩
    | step items =>
      simp only []
      unfold inStepTextStep
      simp +instances only [A_bind, A_get, A_ite, A_modify, A_pure, awarn]
      repeat' split
      all_goals first
        | exact ri_loop_iq_prefix env _ _ _ _
        | exact ⟨[], by simp⟩

/-- every event keeps the entries of the inline-quantity table -/
theorem ri_event_inlineQ (env : Env) (input : Str) (ev : Ev α) (s : Col α) (hi : Inv env s) (hev : EvOK ev) :
    ∃ more, (processEvent env input ev s).2.inlineQ.toList = s.inlineQ.toList ++ more := by
  have hsame : ∀ s' : Col α, s'.inlineQ = s.inlineQ → ∃ more, s'.inlineQ.toList = s.inlineQ.toList ++ more :=
    fun s' h => ⟨[], by rw [h]; simp⟩
  have hcomp : ∀ e : Ev α, ((∃ i, e = .ingredient i) ∨ (∃ c, e = .cookware c) ∨ (∃ t, e = .timer t)) → EvOK e →
      (inBlockComponent env input e s).2.inlineQ = s.inlineQ := by
    intro e he hok
    unfold inBlockComponent
    simp +instances only [A_bind, A_get]
    cases hb : s.block with
    | none => simp only []; exact ((DiagOnly.apanic _).coreOnly.out s).2.2.2.2.2.1
    | some buf =>
      cases buf with
      | text b => simp only []; exact ((inTextComponent_coreOnly input e b).out s).2.2.2.2.2.1
      | step items =>
        simp only []
        unfold inStepComponent
        rcases he with ⟨li, rfl⟩ | ⟨lc, rfl⟩ | ⟨lt, rfl⟩
        · simp only [A_bind]
          obtain ⟨dg, p, ings, igr, e1, -, -⟩ := ingredientA_spec env input li s hi.locI hi.itab.nonREF_def hok
          have hblk : (ingredientA env input li s).2.block = s.block := by rw [e1]
          rw [pushItem_step' _ items s (ingredientA env input li s).2 hblk hb, e1]
        · simp only [A_bind]
          obtain ⟨dg, p, cws, cw, e1, -, -⟩ := cookwareA_spec env input lc s hi.locC hi.ctab.nonREF_def
          have hblk : (cookwareA env input lc s).2.block = s.block := by rw [e1]
          rw [pushItem_step' _ items s (cookwareA env input lc s).2 hblk hb, e1]
        · simp only [A_bind]
          obtain ⟨dg, p, tm, e1, -⟩ := rkc_timerA_pushed env lt s
          have hblk : (timerA env lt s).2.block = s.block := by rw [e1]
          rw [pushItem_step' _ items s (timerA env lt s).2 hblk hb, e1]
  cases ev with
  | frontMatter t => exact hsame _ rfl
  | «section» name => exact hsame _ rfl
  | start kind => exact hsame _ rfl
  | error d => exact hsame _ rfl
  | warning d => exact hsame _ rfl
  | metadata k v => exact hsame _ ((metadataA_coreOnly env k v).out s).2.2.2.2.2.1
  | stop kind => exact hsame _ (ri_endBlock_inlineQ kind s)
  | text t => exact ri_inStepText_inlineQ env t s
  | ingredient i => exact hsame _ (hcomp _ (Or.inl ⟨i, rfl⟩) hev)
  | cookware c => exact hsame _ (hcomp _ (Or.inr (Or.inl ⟨c, rfl⟩)) hev)
  | timer t => exact hsame _ (hcomp _ (Or.inr (Or.inr ⟨t, rfl⟩)) hev)

theorem ri_getElem_of_prefix {β : Type} {a b : Array β} {more : List β} (h : b.toList = a.toList ++ more)
    {k : Nat} {q : β} (hk : a[k]? = some q) : b[k]? = some q := by
  rw [← Array.getElem?_toList, h]
  rw [← Array.getElem?_toList] at hk
  have hlt : k < a.toList.length := by
    rcases Nat.lt_or_ge k a.toList.length with h | h
    · exact h
    · rw [List.getElem?_eq_none h] at hk; cases hk
  rw [List.getElem?_append_left hlt]
  exact hk

/-! ### `parse` -/

/-- **`parse`: the text of every `Text` event reaches the recipe, INLINE_QUANTITIES on or off**: a text block
    contains it, or a step has a run of items that renders back to it -/
theorem ri_parse_text (env : Env) (input : Str) (hd : DigitsNotWs env.cs) (c : Col α)
    (hout : (parseRecipe (α := α) env input).output = some c) (pre post : List (Ev α)) (t : Text)
    (hsplit : (pullEvents (α := α) env.cs env.ext input).1.toList = pre ++ Ev.text t :: post)
    (hm : (collectorAfter env input pre ({} : Col α)).defineMode ≠ .components) (hne : t.text ≠ []) :
    SecsHaveP (fun e => ItemsRender env (fun i q => c.inlineQ[i]? = some q) e t.text) t.text c.sections := by
  obtain ⟨o1, o1', hat, hw, hev, hsp, hrest⟩ := rk_parse_reach env input c hout pre post _ hsplit
  obtain ⟨hnp', hb'⟩ := hat.next
  have hok : ∃ k, o1 = some k := by
    have hw1 := hat.wb
    cases o1 with
    | none => simp [wbStep] at hw1
    | some k => exact ⟨k, rfl⟩
  obtain ⟨k, rfl⟩ := hok
  have henter := ri_text_enters env hd t (collectorAfter env input pre ({} : Col α)) k hat.rel hm hne
  have hpe : (processEvent env input (Ev.text t) (collectorAfter env input pre ({} : Col α))).2 =
      (inStepText env t (collectorAfter env input pre ({} : Col α))).2 := by
    simp only [processEvent]
  rw [hpe] at hnp' hb' hrest
  generalize (inStepText env t (collectorAfter env input pre ({} : Col α))).2 = s1 at henter hnp' hb' hrest
  obtain ⟨sF, hK, -, hbn, hfin⟩ := rk_fold_pres env input
    (fun s => TextKeptP (fun e => ItemsRender env (fun i q => s1.inlineQ[i]? = some q) e t.text) t.text s ∧
      ∀ i q, s1.inlineQ[i]? = some q → s.inlineQ[i]? = some q) post
    (fun ev hmem s o o' hat' hk => by
      refine ⟨ri_event_kept env input ev s o o' hat'.np hat'.rel hat'.wb hat'.ok hk.1, ?_⟩
      intro i q hq
      obtain ⟨more, hmore⟩ := ri_event_inlineQ env input ev s hat'.np.inv hat'.ok.evOK
      exact ri_getElem_of_prefix hmore (hk.2 i q hq))
    s1 o1' hnp' hb' hw hev hsp c hrest ⟨Or.inr henter, fun _ _ h => h⟩
  obtain ⟨hkept, hgrow⟩ := hK
  obtain ⟨-, -, -, hq, -, hsec⟩ := rk_final env input sF c hfin
  have hsecs : SecsHaveP (fun e => ItemsRender env (fun i q => s1.inlineQ[i]? = some q) e t.text) t.text
      (sF.sections ++ [sF.cur]) := by
    rcases hkept with h | h
    · exact h
    · exfalso
      rcases h with ⟨items, a, extra, b, h1, -⟩ | ⟨buf, h1, -⟩ <;> rw [hbn] at h1 <;> cases h1
  rw [hsec]
  refine ri_secs_mono_P ?_ (ri_secs_push hsecs)
  intro l hl
  exact ri_render_mono env (fun i q h => by rw [hq]; exact hgrow i q h) _ _ hl

/-! ### characters -/

/-- the character occurs in a `Text` item of a step of the recipe, in a source text (`InlineSrc`) of an inline
    quantity a step refers to, or in a text block -/
def RecipeHasCharQ (env : Env) (c : Col α) (ch : Char) : Prop :=
  ∃ sec ∈ c.sections, ∃ ct ∈ sec.content,
    (∃ st τ, ct = .step st ∧ Item.text τ ∈ st.items ∧ ch ∈ τ) ∨
    (∃ st k q src, ct = .step st ∧ Item.inlineQuantity k ∈ st.items ∧ c.inlineQ[k]? = some q ∧
      InlineSrc env src q ∧ ch ∈ src) ∨
    (∃ buf, ct = .text buf ∧ ch ∈ buf)

theorem ri_hasChar {env : Env} {c : Col α} {τ : Str} {ch : Char}
    (h : SecsHaveP (fun e => ItemsRender env (fun i q => c.inlineQ[i]? = some q) e τ) τ c.sections)
    (hc : ch ∈ τ) : RecipeHasCharQ env c ch := by
  obtain ⟨sec, hsec, ct, hct, hh⟩ := h
  refine ⟨sec, hsec, ct, hct, ?_⟩
  cases ct with
  | step st =>
    obtain ⟨a, extra, b, e, hr⟩ := hh
    have hsub : ∀ it ∈ extra, it ∈ st.items := by
      intro it hit; rw [e]; simp [hit]
    rcases ri_render_char env ch extra τ hr hc with ⟨τ', h1, h2⟩ | ⟨k, src, q, h1, h2, h3, h4⟩
    · exact Or.inl ⟨st, τ', rfl, hsub _ h1, h2⟩
    · exact Or.inr (Or.inl ⟨st, k, q, src, rfl, hsub _ h1, h2, h3, h4⟩)
  | text buf =>
    obtain ⟨x, y, hxy⟩ := hh
    exact Or.inr (Or.inr ⟨buf, rfl, by rw [← hxy]; simp [hc]⟩)

/-- a small environment for the examples: the toy character table, INLINE_QUANTITIES on, the one unit `g` -/
def riToyEnv : Env := ⟨toyCharSpec, ⟨128⟩, fun u => if u = ['g'] then some 0 else none, fun _ _ => .ok, fun c => [c], 0⟩

end Cook
