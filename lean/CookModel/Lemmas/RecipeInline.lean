import CookModel.Lemmas.RecipeKeepComp
import CookModel.Lemmas.InlineScan
/-
  C05 through the analysis, wave 7: the INLINE_QUANTITIES extension.  A step text is cut at the inline
  quantities `find_inline_quantity` finds (src/analysis/event_consumer.rs:1341-1424, the `while let` of
  `in_step_text`).  Here:
  * the decomposition invariant of one iteration of the scan (`inlineStep`): a hit splits the whole text
    into `before ++ src ++ after`, where `src = sign ++ number ++ gap ++ unit` is a text the stored quantity
    was read from (`InlineSrc`); a failed candidate leaves the whole text unchanged (`ri_step`, `ri_find`);
  * induction over the splitting loop (`inlineLoop`): the items it adds RENDER BACK to the text it was given,
    text items verbatim and in order, an `InlineQuantity(k)` item as a source of `inlineQ[k]` (`ItemsRender`,
    `ri_loop`);
  * `BlockHas` / `rt_text_enters` of `Lemmas/RecipeText.lean` generalised from "the item `Text(t.text)`" to
    "a run of items that renders back to `t.text`" (`BlockHasP`, …), kept by every later event; the inline
    quantities only grow (`ri_event_inlineQ`).
  Specification-side vocabulary only (`InlineSrc`, `ItemsRender`, `ContentHasP`, …): no new model function.
-/
set_option linter.unusedSectionVars false
set_option linter.unusedSimpArgs false
set_option linter.unusedVariables false
namespace Cook
variable {α : Type} [Arith α]

/-! ### one iteration of the scan -/

/-- `src` is a source text of the inline quantity `q`: an optional `-`, a number text, white space, a unit
    text; `q` holds the number read from the (trimmed) number text — negated after a `-` — and the trimmed
    unit text, which is a unit the converter knows.  What is NOT kept of `src`: the white space between
    number and unit, and the spelling of the number. -/
def InlineSrc (env : Env) (src : Str) (q : Quantity (Value α)) : Prop :=
  ∃ (neg : Bool) (number gap unit : Str) (n : α),
    src = (if neg then ['-'] else []) ++ number ++ gap ++ unit ∧
    gap.all env.cs.uws = true ∧
    parseSimpleFloat (α := α) (trim env.cs.uws number) = some n ∧
    (env.findUnit (trim env.cs.uws unit)).isSome = true ∧
    q = ⟨.number (.regular (if neg then Arith.neg n else n)), some (trim env.cs.uws unit)⟩

/-- what one iteration of the scan keeps of the whole text `whole` -/
def InlineStepOK (env : Env) (whole : Str) : InlineStep α → Prop
  | .stop => True
  | .hit h => ∃ src, whole = h.before ++ src ++ h.after ∧ InlineSrc env src h.q
  | .retry p a => p.reverse ++ a = whole

theorem ri_take_len (x after : Str) : (x ++ after).take ((x ++ after).length - after.length) = x := by
  simp

theorem ri_neg_split (p : Str) (h : (p.head? == some '-') = true) : p.reverse = (p.drop 1).reverse ++ ['-'] := by
  cases p with
  | nil => simp at h
  | cons c r =>
    simp only [List.head?_cons, beq_iff_eq, Option.some.injEq] at h
    subst h
    simp

/-- a hit: the whole text is `before`, the source of the quantity, `after` -/
theorem ri_hit_leaf (env : Env) (p number gap unit after : Str) (n : α) (u : Nat)
    (hgap : gap.all env.cs.uws = true)
    (hx : parseSimpleFloat (α := α) (trim env.cs.uws number) = some n)
    (hu : env.findUnit (trim env.cs.uws unit) = some u) :
    ∃ src, p.reverse ++ (number ++ gap ++ unit ++ after) =
        (if (p.head? == some '-') = true then p.drop 1 else p).reverse ++ src ++ after ∧
      InlineSrc env src ⟨.number (.regular (if (p.head? == some '-') = true then Arith.neg n else n)),
        some (trim env.cs.uws unit)⟩ := by
  by_cases hneg : (p.head? == some '-') = true
  · refine ⟨['-'] ++ number ++ gap ++ unit, ?_, true, number, gap, unit, n, rfl, hgap, hx, by rw [hu]; rfl, ?_⟩
    · rw [if_pos hneg, ri_neg_split p hneg]; simp
    · simp only [hneg, if_true]
  · refine ⟨number ++ gap ++ unit, ?_, false, number, gap, unit, n, by simp, hgap, hx, by rw [hu]; rfl, ?_⟩
    · rw [if_neg hneg]; simp
    · simp only [hneg, if_false, Bool.false_eq_true]

/-- a failed candidate: nothing of the whole text is lost -/
theorem ri_retry_leaf (p x after : Str) :
    (((x ++ after).take ((x ++ after).length - after.length)).reverse ++ p).reverse ++ after =
      p.reverse ++ (x ++ after) := by
  rw [ri_take_len]; simp

theorem ri_dropWhile_split (r : Str) (ws : Char → Bool) :
    ∃ g, g.all ws = true ∧
      r = g ++ (if (r.any fun c => !ws c) = true then r.dropWhile ws else r) := by
  by_cases h : (r.any fun c => !ws c) = true
  · refine ⟨r.takeWhile ws, ?_, ?_⟩
    · exact List.all_takeWhile
    · rw [if_pos h]; exact (List.takeWhile_append_dropWhile).symm
  · exact ⟨[], rfl, by rw [if_neg h]; rfl⟩

/-- **decomposition invariant of one iteration of `find_inline_quantity`** -/
theorem ri_step (env : Env) (pre rest : Str) :
    InlineStepOK env (pre.reverse ++ rest) (inlineStep (α := α) env pre rest) := by
  have hsk : rest = rest.takeWhile (fun c => !isAsciiDigitC c) ++ rest.dropWhile (fun c => !isAsciiDigitC c) :=
    (List.takeWhile_append_dropWhile).symm
  unfold inlineStep
  dsimp only
  generalize rest.takeWhile (fun c => !isAsciiDigitC c) = sk at hsk ⊢
  cases hr : List.dropWhile (fun c => !isAsciiDigitC c) rest with
  | nil => trivial
  | cons d r' =>
    rw [hr] at hsk
    have hwhole : pre.reverse ++ rest = (sk.reverse ++ pre).reverse ++ (d :: r') := by rw [hsk]; simp
    rw [hwhole]
    generalize sk.reverse ++ pre = p
    have hw1 : d :: r' = (d :: r').takeWhile (fun c => !env.cs.uws c) ++ (d :: r').dropWhile (fun c => !env.cs.uws c) :=
      (List.takeWhile_append_dropWhile).symm
    dsimp only
    cases hf : List.findIdx? (fun c => !isAsciiDigitC c && c != '.' && !env.cs.uws c)
        (List.takeWhile (fun c => !env.cs.uws c) (d :: r')) with
    | some mid =>
      dsimp only
      generalize hw1e : List.takeWhile (fun c => !env.cs.uws c) (d :: r') = w1 at hw1 ⊢
      generalize hr1e : List.dropWhile (fun c => !env.cs.uws c) (d :: r') = r1 at hw1 ⊢
      have hsplit : d :: r' = w1.take mid ++ [] ++ w1.drop mid ++ r1 := by
        rw [hw1]; simp
      rw [hsplit]
      generalize hx : parseSimpleFloat (α := α) (trim env.cs.uws (List.take mid w1)) = x
      generalize hy : env.findUnit (trim env.cs.uws (List.drop mid w1)) = y
      cases x with
      | none => exact ri_retry_leaf p _ r1
      | some n =>
        cases y with
        | none => exact ri_retry_leaf p _ r1
        | some u => exact ri_hit_leaf env p _ [] _ r1 n u rfl hx hy
    | none =>
      dsimp only
      generalize hw1e : List.takeWhile (fun c => !env.cs.uws c) (d :: r') = w1 at hw1 ⊢
      generalize hr1e : List.dropWhile (fun c => !env.cs.uws c) (d :: r') = r1 at hw1 ⊢
      obtain ⟨g, hg, hr1⟩ := ri_dropWhile_split r1 env.cs.uws
      generalize hr2e : (if (r1.any fun c => !env.cs.uws c) = true then List.dropWhile env.cs.uws r1 else r1) = r2
        at hr1 ⊢
      by_cases he : r2.isEmpty = true
      · simp only [he, if_true]; trivial
      · simp only [he, if_false, Bool.false_eq_true]
        have hw2 : r2 = r2.takeWhile (fun c => !env.cs.uws c) ++ r2.dropWhile (fun c => !env.cs.uws c) :=
          (List.takeWhile_append_dropWhile).symm
        generalize List.takeWhile (fun c => !env.cs.uws c) r2 = w2 at hw2 ⊢
        generalize List.dropWhile (fun c => !env.cs.uws c) r2 = r3 at hw2 ⊢
        have hsplit : d :: r' = w1 ++ g ++ w2 ++ r3 := by
          rw [hw1, hr1, hw2]; simp
        rw [hsplit]
        generalize hx : parseSimpleFloat (α := α) (trim env.cs.uws w1) = x
        generalize hy : env.findUnit (trim env.cs.uws w2) = y
        cases x with
        | none => exact ri_retry_leaf p _ r3
        | some n =>
          cases y with
          | none => exact ri_retry_leaf p _ r3
          | some u => exact ri_hit_leaf env p _ g _ r3 n u hg hx hy

/-- **what a hit of `find_inline_quantity` keeps**: the scanned text is `before`, a source of the quantity,
    `after` — nothing else -/
theorem ri_find (env : Env) : ∀ (fuel : Nat) (pre rest : Str) (hit : InlineHit α),
    findInlineQuantity env fuel pre rest = some hit →
      ∃ src, pre.reverse ++ rest = hit.before ++ src ++ hit.after ∧ InlineSrc env src hit.q := by
  intro fuel
  induction fuel with
  | zero => intro pre rest hit h; simp [findInlineQuantity] at h
  | succ fuel ih =>
    intro pre rest hit h
    rw [findInlineQuantity_succ] at h
    have hs := ri_step (α := α) env pre rest
    cases hstep : inlineStep (α := α) env pre rest with
    | stop => rw [hstep] at h; cases h
    | hit x =>
      rw [hstep] at h hs
      simp only [Option.some.injEq] at h; subst h
      exact hs
    | retry p a =>
      rw [hstep] at h hs
      obtain ⟨src, e, hq⟩ := ih p a hit h
      exact ⟨src, by rw [← hs]; exact e, hq⟩

end Cook
