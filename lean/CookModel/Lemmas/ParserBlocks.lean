import CookModel.Syntax.Blocks
import CookModel.Lemmas.ParserNoPanic
/-
  The blocks the splitter (`nextBlock`, `allBlocks`) produces consist of tokens of the stream, so
  side conditions that hold token-wise (`EscapedOK`) carry over from the lexer; and the lifting
  of `runBlock_no_panic` to `pullEvents`.
-/
set_option linter.unusedSectionVars false
set_option linter.unusedSimpArgs false
set_option linter.unusedVariables false
namespace Cook

variable {α : Type} [Arith α]

theorem takeWhile_mem {β : Type} (p : β → Bool) (l : List β) : ∀ x ∈ l.takeWhile p, x ∈ l :=
  fun x hx => (List.takeWhile_sublist p).subset hx

theorem dropWhile_mem {β : Type} (p : β → Bool) (l : List β) : ∀ x ∈ l.dropWhile p, x ∈ l :=
  fun x hx => (List.dropWhile_sublist p).subset hx

theorem pullLine_mem (ts : List Tok) (li : LineInfo) (rest : List Tok)
    (h : pullLine ts = some (li, rest)) : (∀ t ∈ li.toks, t ∈ ts) ∧ (∀ t ∈ rest, t ∈ ts) := by
  unfold pullLine at h
  cases ts with
  | nil => simp at h
  | cons t0 tl =>
    simp only at h
    have hd := dropWhile_mem (fun t : Tok => t.kind != .newline) (t0 :: tl)
    have ht := takeWhile_mem (fun t : Tok => t.kind != .newline) (t0 :: tl)
    split at h
    · rename_i nl rest' heq
      simp only [Option.some.injEq, Prod.mk.injEq] at h
      rw [heq] at hd
      constructor
      · intro t htm
        rw [← h.1] at htm
        simp only [List.mem_append, List.mem_singleton] at htm
        rcases htm with htm | rfl
        · exact ht t htm
        · exact hd t (by simp)
      · intro t htm
        rw [← h.2] at htm
        exact hd t (by simp [htm])
    · simp only [Option.some.injEq, Prod.mk.injEq] at h
      constructor
      · intro t htm
        rw [← h.1] at htm
        exact ht t htm
      · intro t htm
        rw [← h.2] at htm; simp at htm

theorem skipEmptyLines_mem (fuel : Nat) (ts : List Tok) (li : LineInfo) (rest : List Tok)
    (h : skipEmptyLines fuel ts = some (li, rest)) : (∀ t ∈ li.toks, t ∈ ts) ∧ (∀ t ∈ rest, t ∈ ts) := by
  induction fuel generalizing ts with
  | zero => simp [skipEmptyLines] at h
  | succ fuel ih =>
    unfold skipEmptyLines at h
    split at h
    · cases h
    · rename_i li' rest' hp
      obtain ⟨m1, m2⟩ := pullLine_mem ts li' rest' hp
      split at h
      · obtain ⟨a1, a2⟩ := ih rest' h
        exact ⟨fun t ht => m2 t (a1 t ht), fun t ht => m2 t (a2 t ht)⟩
      · simp only [Option.some.injEq, Prod.mk.injEq] at h
        rw [← h.1, ← h.2]; exact ⟨m1, m2⟩

theorem moreLines_mem (fuel : Nat) (ts : List Tok) :
    (∀ t ∈ (moreLines fuel ts).1, t ∈ ts) ∧ (∀ t ∈ (moreLines fuel ts).2, t ∈ ts) := by
  induction fuel generalizing ts with
  | zero => simp [moreLines]
  | succ fuel ih =>
    unfold moreLines
    split
    · simp
    · split
      · simp
      · rename_i li rest hp
        obtain ⟨m1, m2⟩ := pullLine_mem ts li rest hp
        split
        · exact ⟨by simp, m2⟩
        · obtain ⟨a1, a2⟩ := ih rest
          constructor
          · intro t ht
            simp only [List.mem_append] at ht
            rcases ht with ht | ht
            · exact m1 t ht
            · exact m2 t (a1 t ht)
          · intro t ht
            exact m2 t (a2 t ht)

theorem trimTrailingNewlines_mem (l : List Tok) : ∀ t ∈ trimTrailingNewlines l, t ∈ l := by
  intro t ht
  unfold trimTrailingNewlines at ht
  simp only [List.mem_reverse] at ht
  have := dropWhile_mem _ _ t ht
  simpa using this

theorem nextBlock_mem (ts b rest : List Tok) (h : nextBlock ts = some (b, rest)) :
    (∀ t ∈ b, t ∈ ts) ∧ (∀ t ∈ rest, t ∈ ts) := by
  unfold nextBlock at h
  split at h
  · cases h
  · rename_i li r hs
    obtain ⟨m1, m2⟩ := skipEmptyLines_mem _ ts li r hs
    simp only at h
    have hm : (∀ t ∈ (if li.isSingleLine = true then (([] : List Tok), r) else moreLines (r.length + 1) r).1, t ∈ r) ∧
        (∀ t ∈ (if li.isSingleLine = true then (([] : List Tok), r) else moreLines (r.length + 1) r).2, t ∈ r) := by
      split
      · simp
      · exact moreLines_mem _ r
    generalize (if li.isSingleLine = true then (([] : List Tok), r) else moreLines (r.length + 1) r) = m at h hm
    by_cases he : (trimTrailingNewlines (li.toks ++ m.1)).isEmpty
    · simp [he] at h
    · simp only [he, Bool.false_eq_true, if_false, Option.some.injEq, Prod.mk.injEq] at h
      rw [← h.1, ← h.2]
      constructor
      · intro t ht
        have := trimTrailingNewlines_mem _ t ht
        simp only [List.mem_append] at this
        rcases this with h1 | h1
        · exact m1 t h1
        · exact m2 t (hm.1 t h1)
      · intro t ht
        exact m2 t (hm.2 t ht)

/-- every token of every block is a token of the stream -/
theorem allBlocks_mem (fuel : Nat) (ts : List Tok) : ∀ b ∈ allBlocks fuel ts, ∀ t ∈ b, t ∈ ts := by
  induction fuel generalizing ts with
  | zero => simp [allBlocks]
  | succ fuel ih =>
    unfold allBlocks
    split
    · simp
    · rename_i b rest hn
      obtain ⟨m1, m2⟩ := nextBlock_mem ts b rest hn
      intro b' hb'
      simp only [List.mem_cons] at hb'
      rcases hb' with rfl | hb'
      · exact m1
      · exact fun t ht => m2 t (ih rest b' hb' t ht)

theorem EscapedOK.of_mem {a b : List Tok} (h : EscapedOK a) (hm : ∀ t ∈ b, t ∈ a) : EscapedOK b :=
  fun t ht => h t (hm t ht)

/-! ### The metadata-only scanner (`next_metadata_block`) -/

theorem runAt_suffix {off : Nat} {a b : List Tok} (h : RunAt off (a ++ b)) : ∃ o, RunAt o b :=
  ⟨_, ((runAt_append off a b).mp h).2⟩

theorem runAt_prefix {off : Nat} {a b : List Tok} (h : RunAt off (a ++ b)) : RunAt off a :=
  ((runAt_append off a b).mp h).1

theorem seekMeta_spec (last : TK) (ts ts' : List Tok) (h : seekMeta last ts = some ts') :
    (∃ pre, ts = pre ++ ts') ∧ ∃ t l, ts' = t :: l ∧ t.kind = .metaStart := by
  induction ts generalizing last with
  | nil => simp [seekMeta] at h
  | cons t rest ih =>
    unfold seekMeta at h
    split at h
    · rename_i hc
      simp only [Option.some.injEq] at h
      subst h
      simp only [Bool.and_eq_true, beq_iff_eq] at hc
      exact ⟨⟨[], rfl⟩, t, rest, rfl, hc.2⟩
    · obtain ⟨⟨pre, hp⟩, h2⟩ := ih _ h
      exact ⟨⟨t :: pre, by rw [hp]; rfl⟩, h2⟩

/-- every `>>` line the metadata scanner cuts out is a non-empty run of adjacent tokens -/
theorem metaBlocks_wf (fuel : Nat) (last : TK) (ts : List Tok) (off : Nat) (h : RunAt off ts) :
    ∀ b ∈ metaBlocks fuel last ts, WF b := by
  induction fuel generalizing last ts off with
  | zero => simp [metaBlocks]
  | succ fuel ih =>
    unfold metaBlocks
    split
    · simp
    · rename_i ts' hs
      obtain ⟨⟨pre, hp⟩, t, l, htl, hk⟩ := seekMeta_spec _ _ _ hs
      rw [hp] at h
      obtain ⟨o, ho⟩ := runAt_suffix h
      have hsplit := List.takeWhile_append_dropWhile (p := fun t : Tok => t.kind != .newline) (l := ts')
      intro b hb
      simp only [List.mem_cons] at hb
      rcases hb with rfl | hb
      · have hr : RunAt o (ts'.takeWhile (fun t => t.kind != .newline)) := by
          rw [← hsplit] at ho; exact runAt_prefix ho
        refine ⟨?_, hr.base⟩
        rw [htl, List.takeWhile_cons]
        simp [hk]
      · rw [← hsplit] at ho
        obtain ⟨o2, ho2⟩ := runAt_suffix ho
        have h3 : ts'.dropWhile (fun t => t.kind != .newline) =
            (ts'.dropWhile (fun t => t.kind != .newline)).take 1 ++
              (ts'.dropWhile (fun t => t.kind != .newline)).drop 1 := (List.take_append_drop 1 _).symm
        rw [h3] at ho2
        obtain ⟨o3, ho3⟩ := runAt_suffix ho2
        exact ih _ _ o3 ho3 b hb

theorem runMetaBlock_no_panic (cs : CharSpec) (ext : Ext) (b : List Tok) (evs : Array (Ev α))
    (hw : WF b) : (runMetaBlock cs ext b evs none).2 = none := by
  have g0 : G b ext (⟨b, 0, ext, cs, evs, none⟩ : BP α) := ⟨rfl, rfl, rfl, Nat.zero_le _⟩
  have hne : b.isEmpty = false := by
    have := hw.ne
    cases b <;> simp_all
  have key : Sat (do
      if b.isEmpty then panicWith "BlockParser::new: empty tokens"
      match ← metadataEntry (α := α) with
      | some ev =>
        pushEv ev
        let s ← get
        if s.cur ≠ s.toks.length then panicWith "Block tokens not parsed"
      | none => pure ()) ⟨b, 0, ext, cs, evs, none⟩
      (fun _ s' => s'.panic = none) := by
    simp only [hne, Bool.false_eq_true, if_false]
    refine Sat.bind (Sat.mono (metadataEntry_sat hw g0) ?_)
    rintro r s1 ⟨g1, c1⟩
    cases r with
    | none => exact Sat.pure g1.panic
    | some ev =>
      refine Sat.bind (Sat.pushEv ?_)
      refine Sat.bind (Sat.get ?_)
      have : s1.cur = s1.toks.length := by rw [g1.toks]; exact c1 rfl
      simp only [this, ne_eq, not_true_eq_false, if_false]
      exact Sat.pure g1.panic
  exact key

theorem foldl_runMetaBlock_no_panic (cs : CharSpec) (ext : Ext) (blocks : List (List Tok))
    (evs0 : Array (Ev α)) (h : ∀ b ∈ blocks, WF b) :
    (blocks.foldl (fun acc b => runMetaBlock (α := α) cs ext b acc.1 acc.2) (evs0, none)).2 = none := by
  induction blocks generalizing evs0 with
  | nil => rfl
  | cons b bs ih =>
    rw [List.foldl_cons]
    have h1 := runMetaBlock_no_panic (α := α) cs ext b evs0 (h b (by simp))
    have e1 : runMetaBlock (α := α) cs ext b evs0 none =
        ((runMetaBlock (α := α) cs ext b evs0 none).1, none) := by
      apply Prod.ext
      · rfl
      · exact h1
    show (bs.foldl _ (runMetaBlock (α := α) cs ext b evs0 none)).2 = none
    rw [e1]
    exact ih _ (fun b' hb' => h b' (by simp [hb']))

/-- the metadata-only pull parser (`into_meta_iter`) never reaches a panic site -/
theorem pullMetaEvents_no_panic (cs : CharSpec) (ext : Ext) (input : List Char) :
    (pullMetaEvents (α := α) cs ext input).2 = none := by
  unfold pullMetaEvents
  split
  · rfl
  · apply foldl_runMetaBlock_no_panic
    exact metaBlocks_wf _ _ _ 0 ⟨lexFrom_chain cs 0 input, lexFrom_escapedOK cs 0 input⟩

/-! ### Blocks are contiguous pieces of the token stream -/

theorem pullLine_split (ts : List Tok) (li : LineInfo) (rest : List Tok)
    (h : pullLine ts = some (li, rest)) : ts = li.toks ++ rest := by
  unfold pullLine at h
  cases ts with
  | nil => simp at h
  | cons t0 tl =>
    simp only at h
    have hsplit := List.takeWhile_append_dropWhile (p := fun t : Tok => t.kind != .newline) (l := t0 :: tl)
    split at h
    · rename_i nl rest' heq
      simp only [Option.some.injEq, Prod.mk.injEq] at h
      rw [← h.1, ← h.2]
      rw [heq] at hsplit
      show _ = (_ ++ [nl]) ++ rest'
      rw [List.append_assoc]
      exact hsplit.symm
    · rename_i heq
      simp only [Option.some.injEq, Prod.mk.injEq] at h
      rw [← h.1, ← h.2]
      rw [heq] at hsplit
      exact hsplit.symm

theorem skipEmptyLines_split (fuel : Nat) (ts : List Tok) (li : LineInfo) (rest : List Tok)
    (h : skipEmptyLines fuel ts = some (li, rest)) : ∃ pre, ts = pre ++ (li.toks ++ rest) := by
  induction fuel generalizing ts with
  | zero => simp [skipEmptyLines] at h
  | succ fuel ih =>
    unfold skipEmptyLines at h
    split at h
    · cases h
    · rename_i li' rest' hp
      have e1 := pullLine_split ts li' rest' hp
      split at h
      · obtain ⟨pre, hpre⟩ := ih rest' h
        exact ⟨li'.toks ++ pre, by rw [e1, hpre]; simp⟩
      · simp only [Option.some.injEq, Prod.mk.injEq] at h
        rw [← h.1, ← h.2]; exact ⟨[], e1⟩

theorem moreLines_split (fuel : Nat) (ts : List Tok) :
    ∃ mid, ts = (moreLines fuel ts).1 ++ (mid ++ (moreLines fuel ts).2) := by
  induction fuel generalizing ts with
  | zero => exact ⟨[], by simp [moreLines]⟩
  | succ fuel ih =>
    unfold moreLines
    split
    · exact ⟨[], by simp⟩
    · split
      · exact ⟨[], by simp⟩
      · rename_i li rest hp
        have e1 := pullLine_split ts li rest hp
        split
        · exact ⟨li.toks, by simp [e1]⟩
        · obtain ⟨mid, hmid⟩ := ih rest
          refine ⟨mid, ?_⟩
          simp only [List.append_assoc]
          rw [← hmid]; exact e1

theorem trimTrailingNewlines_split (l : List Tok) : ∃ suf, l = trimTrailingNewlines l ++ suf := by
  have hsplit := List.takeWhile_append_dropWhile (p := fun t : Tok => t.kind == .newline) (l := l.reverse)
  refine ⟨(l.reverse.takeWhile (fun t => t.kind == .newline)).reverse, ?_⟩
  unfold trimTrailingNewlines
  rw [← List.reverse_append, hsplit, List.reverse_reverse]

theorem nextBlock_split (ts b rest : List Tok) (h : nextBlock ts = some (b, rest)) :
    ∃ pre mid, ts = pre ++ (b ++ (mid ++ rest)) := by
  unfold nextBlock at h
  split at h
  · cases h
  · rename_i li r hs
    obtain ⟨pre, hpre⟩ := skipEmptyLines_split _ ts li r hs
    simp only at h
    have hm : ∃ mid, r = (if li.isSingleLine = true then (([] : List Tok), r) else moreLines (r.length + 1) r).1 ++
        (mid ++ (if li.isSingleLine = true then (([] : List Tok), r) else moreLines (r.length + 1) r).2) := by
      split
      · exact ⟨[], by simp⟩
      · exact moreLines_split _ r
    generalize (if li.isSingleLine = true then (([] : List Tok), r) else moreLines (r.length + 1) r) = m at h hm
    by_cases he : (trimTrailingNewlines (li.toks ++ m.1)).isEmpty
    · simp [he] at h
    · simp only [he, Bool.false_eq_true, if_false, Option.some.injEq, Prod.mk.injEq] at h
      obtain ⟨mid, hmid⟩ := hm
      obtain ⟨suf, hsuf⟩ := trimTrailingNewlines_split (li.toks ++ m.1)
      refine ⟨pre, suf ++ mid, ?_⟩
      rw [← h.1, ← h.2, hpre]
      have : li.toks ++ r = (li.toks ++ m.1) ++ (mid ++ m.2) := by
        rw [List.append_assoc, ← hmid]
      rw [this, hsuf]
      simp only [List.append_assoc]
      congr 2
      rw [← hsuf]

/-- every block the splitter produces from a run of adjacent tokens is a run of adjacent tokens -/
theorem allBlocks_runAt (fuel : Nat) (ts : List Tok) (off : Nat) (h : RunAt off ts) :
    ∀ b ∈ allBlocks fuel ts, ∃ o, RunAt o b := by
  induction fuel generalizing ts off with
  | zero => simp [allBlocks]
  | succ fuel ih =>
    unfold allBlocks
    split
    · simp
    · rename_i b rest hn
      obtain ⟨pre, mid, hsplit⟩ := nextBlock_split ts b rest hn
      rw [hsplit] at h
      obtain ⟨o1, h1⟩ := runAt_suffix h
      intro b' hb'
      simp only [List.mem_cons] at hb'
      rcases hb' with rfl | hb'
      · exact ⟨o1, runAt_prefix h1⟩
      · obtain ⟨o2, h2⟩ := runAt_suffix h1
        obtain ⟨o3, h3⟩ := runAt_suffix h2
        exact ih rest o3 h3 b' hb'

end Cook
