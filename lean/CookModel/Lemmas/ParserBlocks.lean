import CookModel.Syntax.Blocks
import CookModel.Lemmas.ParserNoPanic
/-
  The blocks the splitter (`nextBlock`, `allBlocks`) produces consist of tokens of the stream, so
  side conditions that hold token-wise (`EscapedOK`) carry over from the lexer; and the lifting
  of `runBlock_no_panic` to `pullEvents`.
-/
set_option linter.unusedSectionVars false
set_option linter.unusedSimpArgs false
set_option linter.unusedVariables false
namespace Cook

variable {α : Type} [Arith α]

theorem takeWhile_mem {β : Type} (p : β → Bool) (l : List β) : ∀ x ∈ l.takeWhile p, x ∈ l :=
  fun x hx => (List.takeWhile_sublist p).subset hx

theorem dropWhile_mem {β : Type} (p : β → Bool) (l : List β) : ∀ x ∈ l.dropWhile p, x ∈ l :=
  fun x hx => (List.dropWhile_sublist p).subset hx

theorem pullLine_mem (ts : List Tok) (li : LineInfo) (rest : List Tok)
    (h : pullLine ts = some (li, rest)) : (∀ t ∈ li.toks, t ∈ ts) ∧ (∀ t ∈ rest, t ∈ ts) := by
  unfold pullLine at h
  cases ts with
  | nil => simp at h
  | cons t0 tl =>
    simp only at h
    have hd := dropWhile_mem (fun t : Tok => t.kind != .newline) (t0 :: tl)
    have ht := takeWhile_mem (fun t : Tok => t.kind != .newline) (t0 :: tl)
    split at h
    · rename_i nl rest' heq
      simp only [Option.some.injEq, Prod.mk.injEq] at h
      rw [heq] at hd
      constructor
      · intro t htm
        rw [← h.1] at htm
        simp only [List.mem_append, List.mem_singleton] at htm
        rcases htm with htm | rfl
        · exact ht t htm
        · exact hd t (by simp)
      · intro t htm
        rw [← h.2] at htm
        exact hd t (by simp [htm])
    · simp only [Option.some.injEq, Prod.mk.injEq] at h
      constructor
      · intro t htm
        rw [← h.1] at htm
        exact ht t htm
      · intro t htm
        rw [← h.2] at htm; simp at htm

theorem skipEmptyLines_mem (fuel : Nat) (ts : List Tok) (li : LineInfo) (rest : List Tok)
    (h : skipEmptyLines fuel ts = some (li, rest)) : (∀ t ∈ li.toks, t ∈ ts) ∧ (∀ t ∈ rest, t ∈ ts) := by
  induction fuel generalizing ts with
  | zero => simp [skipEmptyLines] at h
  | succ fuel ih =>
    unfold skipEmptyLines at h
    split at h
    · cases h
    · rename_i li' rest' hp
      obtain ⟨m1, m2⟩ := pullLine_mem ts li' rest' hp
      split at h
      · obtain ⟨a1, a2⟩ := ih rest' h
        exact ⟨fun t ht => m2 t (a1 t ht), fun t ht => m2 t (a2 t ht)⟩
      · simp only [Option.some.injEq, Prod.mk.injEq] at h
        rw [← h.1, ← h.2]; exact ⟨m1, m2⟩

theorem moreLines_mem (fuel : Nat) (ts : List Tok) :
    (∀ t ∈ (moreLines fuel ts).1, t ∈ ts) ∧ (∀ t ∈ (moreLines fuel ts).2, t ∈ ts) := by
  induction fuel generalizing ts with
  | zero => simp [moreLines]
  | succ fuel ih =>
    unfold moreLines
    split
    · simp
    · split
      · simp
      · rename_i li rest hp
        obtain ⟨m1, m2⟩ := pullLine_mem ts li rest hp
        split
        · exact ⟨by simp, m2⟩
        · obtain ⟨a1, a2⟩ := ih rest
          constructor
          · intro t ht
            simp only [List.mem_append] at ht
            rcases ht with ht | ht
            · exact m1 t ht
            · exact m2 t (a1 t ht)
          · intro t ht
            exact m2 t (a2 t ht)

theorem trimTrailingNewlines_mem (l : List Tok) : ∀ t ∈ trimTrailingNewlines l, t ∈ l := by
  intro t ht
  unfold trimTrailingNewlines at ht
  simp only [List.mem_reverse] at ht
  have := dropWhile_mem _ _ t ht
  simpa using this

theorem nextBlock_mem (ts b rest : List Tok) (h : nextBlock ts = some (b, rest)) :
    (∀ t ∈ b, t ∈ ts) ∧ (∀ t ∈ rest, t ∈ ts) := by
  unfold nextBlock at h
  split at h
  · cases h
  · rename_i li r hs
    obtain ⟨m1, m2⟩ := skipEmptyLines_mem _ ts li r hs
    simp only at h
    have hm : (∀ t ∈ (if li.isSingleLine = true then (([] : List Tok), r) else moreLines (r.length + 1) r).1, t ∈ r) ∧
        (∀ t ∈ (if li.isSingleLine = true then (([] : List Tok), r) else moreLines (r.length + 1) r).2, t ∈ r) := by
      split
      · simp
      · exact moreLines_mem _ r
    generalize (if li.isSingleLine = true then (([] : List Tok), r) else moreLines (r.length + 1) r) = m at h hm
    by_cases he : (trimTrailingNewlines (li.toks ++ m.1)).isEmpty
    · simp [he] at h
    · simp only [he, Bool.false_eq_true, if_false, Option.some.injEq, Prod.mk.injEq] at h
      rw [← h.1, ← h.2]
      constructor
      · intro t ht
        have := trimTrailingNewlines_mem _ t ht
        simp only [List.mem_append] at this
        rcases this with h1 | h1
        · exact m1 t h1
        · exact m2 t (hm.1 t h1)
      · intro t ht
        exact m2 t (hm.2 t ht)

/-- every token of every block is a token of the stream -/
theorem allBlocks_mem (fuel : Nat) (ts : List Tok) : ∀ b ∈ allBlocks fuel ts, ∀ t ∈ b, t ∈ ts := by
  induction fuel generalizing ts with
  | zero => simp [allBlocks]
  | succ fuel ih =>
    unfold allBlocks
    split
    · simp
    · rename_i b rest hn
      obtain ⟨m1, m2⟩ := nextBlock_mem ts b rest hn
      intro b' hb'
      simp only [List.mem_cons] at hb'
      rcases hb' with rfl | hb'
      · exact m1
      · exact fun t ht => m2 t (ih rest b' hb' t ht)

theorem EscapedOK.of_mem {a b : List Tok} (h : EscapedOK a) (hm : ∀ t ∈ b, t ∈ a) : EscapedOK b :=
  fun t ht => h t (hm t ht)

end Cook
