import CookModel.Lemmas.ConvertExample
import CookModel.Lemmas.FitChoice
/-
  A converter on which `ScaledQuantity::fit` is NOT idempotent (wave `w6numeric`): the shipped imperial volume units
  (tsp, tbsp, cup with the shipped fraction limits), the default system set to imperial, and one extra volume unit
  WITHOUT a system (`gl`, 0.1923481585 l) with fractions enabled.  `0.41 gl` is a third of a cup.
  First `fit`: no fraction for 0.41 in `gl` (`try_fraction`), so `convert(SameSystem)` to the default system's list:
  `best_unit` picks tbsp (5.33 tbsp), and — the source unit having no system — only `try_fraction` IN tbsp is tried
  (whole part 5 > max_whole 4: none).  Second `fit`: tbsp has a system, so `fit_fraction` now searches the whole
  imperial list and finds `1/3 c`.
-/
namespace Cook.FidW
open Cook Cook.Ex

def tsp := mkUnit 1 ['t','s','p'] (4928921/1000000000) 0 .volume (some .imperial)
def tbsp := mkUnit 2 ['t','b','s','p'] (3696691/250000000) 0 .volume (some .imperial)
def cupU := mkUnit 4 ['c'] (59147059/250000000) 0 .volume (some .imperial)
def lit := mkUnit 10 ['l'] 1 0 .volume (some .metric)
def gl := mkUnit 50 ['g','l'] (1923481585/10000000000) 0 .volume none

def cfgW (maxDen maxWhole : Nat) : FracCfg Const :=
  { enabled := true, accuracy := k (1/20), maxDen := maxDen, maxWhole := maxWhole }

def desc : ConverterDesc Const :=
  { allUnits := [lit, tsp, tbsp, cupU, gl, g, degC, m, Ex.s],
    best := fun q => match q with
      | .volume => .bySystem [lit] [tsp, tbsp, cupU]
      | .mass => .unified [g]
      | .temperature => .unified [degC]
      | .length => .unified [m]
      | .time => .unified [Ex.s],
    fractions := { all := none, metric := some (cfg false), imperial := some (cfg true),
                   quantity := [], unit := [(1, cfgW 8 5), (2, cfgW 3 4), (50, cfgW 4 4294967295)] },
    defaultSystem := .imperial }

def conv : Converter Rat :=
  match Converter.ofDesc desc (mkTable Rat Gen.DENOMS) with
  | some c => c
  | none => Converter.empty (mkTable Rat Gen.DENOMS)

def q0 : SQuantity Rat := ⟨.number (.regular (41/100)), some ['g','l']⟩

end Cook.FidW
