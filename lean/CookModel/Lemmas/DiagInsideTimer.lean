import CookModel.Lemmas.DiagInside
/-
  C07, placement for timers: every label of every diagnostic `timer` pushes lies inside the timer's
  span, except for the warning `note-not-allowed:timer`, whose labels are on the note that FOLLOWS
  the timer.  The tail of `timer` is head (modifiers / alias not allowed) ; `check_note` ; rest; the
  head and the rest do not look at the token list, `check_note` pushes at most that one warning.
-/
set_option linter.unusedSectionVars false
set_option linter.unusedSimpArgs false
set_option linter.unusedVariables false
namespace Cook

variable {α : Type} [Arith α]

def timerHeadA (mtoks : List Tok) : P α Unit :=
  if !mtoks.isEmpty then perr "modifiers-not-allowed:timer" [tokensSpan mtoks] else pure ()

def timerHeadB (body : Body) : P α Unit := do
  if ← hasExt Gen.EXT_COMPONENT_ALIAS then
    match body.name.findIdx? (fun t => t.kind == .or) with
    | some i =>
      let sep := (body.name[i]?).getD dummyTok
      perr "alias-not-allowed:timer" [⟨sep.start, ((body.name.getLast?).getD sep).stop⟩]
    | none => pure ()

def timerHead (mtoks : List Tok) (body : Body) : P α Unit :=
  timerHeadA mtoks >>= fun _ => timerHeadB body

def timerRest2 (start stop nameOffset : Nat) (body : Body) : P α (Option (Ev α)) := do
  let name ← bpText nameOffset body.name
  let cs := (← get).cs
  let quantity ← timerQty body
  timerFinish start stop nameOffset body name cs quantity

theorem timerTail_eq (start stop nameOffset : Nat) (mtoks : List Tok) (body : Body) (s : BP α) :
    timerTail (α := α) start stop nameOffset mtoks body s =
      (timerHead mtoks body >>= fun _ => checkNoteTimer >>= fun _ => timerRest2 start stop nameOffset body) s := by
  unfold timerTail timerHead timerHeadA timerHeadB timerRest2
  cases hm : mtoks.isEmpty <;> cases he : s.ext.has Gen.EXT_COMPONENT_ALIAS <;>
    cases hi : body.name.findIdx? (fun t => t.kind == .or) <;>
    simp [bind, StateT.bind, hasExt, perr, pushEv, modify, modifyGet, MonadStateOf.modifyGet, StateT.modifyGet,
      get, getThe, MonadStateOf.get, StateT.get, pure, StateT.pure, hm, he, hi]

/-! ### independence -/

theorem Indep.timerHead (mtoks : List Tok) (body : Body) : Indep (timerHead (α := α) mtoks body) := by
  unfold Cook.timerHead Cook.timerHeadA Cook.timerHeadB; indep_auto

theorem Indep.timerQty (body : Body) : Indep (timerQty (α := α) body) := by
  unfold Cook.timerQty; indep_auto

theorem Indep.timerFinish (start stop nameOffset : Nat) (body : Body) (name : Text) (cs : CharSpec)
    (q0 : Option (Loc (PQuantity α))) : Indep (timerFinish (α := α) start stop nameOffset body name cs q0) := by
  unfold Cook.timerFinish; indep_auto

theorem Indep.timerRest2 (start stop nameOffset : Nat) (body : Body) :
    Indep (timerRest2 (α := α) start stop nameOffset body) := by
  unfold Cook.timerRest2
  apply Indep.bind (Indep.bpText _ _)
  intro name
  refine Indep.get_bind (fun s0 => ?_) (fun _ _ _ => rfl)
  apply Indep.bind (Indep.timerQty _)
  intro q
  exact Indep.timerFinish ..

/-- the head only pushes events -/
theorem timerHead_frame (mtoks : List Tok) (body : Body) (s : BP α) :
    (timerHead (α := α) mtoks body s).2 = { s with evs := (timerHead (α := α) mtoks body s).2.evs } := by
  unfold timerHead timerHeadA timerHeadB
  cases hm : mtoks.isEmpty <;> cases he : s.ext.has Gen.EXT_COMPONENT_ALIAS <;>
    cases hi : body.name.findIdx? (fun t => t.kind == .or) <;>
    simp [bind, StateT.bind, hasExt, perr, pushEv, modify, modifyGet, MonadStateOf.modifyGet, StateT.modifyGet,
      get, getThe, MonadStateOf.get, StateT.get, pure, StateT.pure, hm, he, hi]

/-! ### the event invariant -/

section ge
variable {off : Nat} {w : List Char} {Pv : Array (Ev α) → Prop} {ts : List Tok} {e : Ext} {s : BP α}

theorem timerHead_ge (hc : Ctx off w Pv ts) (h : GE Pv ts e s) {mtoks : List Tok} {body : Body} {o no : Nat}
    (hrm : RunIn off w o mtoks) (hname : RunIn off w no body.name) :
    Sat (timerHead (α := α) mtoks body) s (fun _ s' => GE Pv ts e s') := by
  unfold timerHead
  have hrest : ∀ s1 : BP α, GE Pv ts e s1 → Sat (timerHeadB (α := α) body) s1 (fun _ s' => GE Pv ts e s') := by
    intro s1 g1
    unfold timerHeadB
    refine Sat.bind (Sat.hasExt ?_)
    split
    · split
      · rename_i i hfi
        have hlt : i < body.name.length := by
          rw [List.findIdx?_eq_some_iff_getElem] at hfi
          exact hfi.1
        have hget : body.name[i]? = some body.name[i] := List.getElem?_eq_getElem hlt
        simp only [hget, Option.getD_some]
        exact Sat.perrE (g1.err hc (one_label (hname.sepToEnd hget)))
      · exact Sat.pure g1
    · exact Sat.pure g1
  refine Sat.bind ?_
  unfold timerHeadA
  split
  · rename_i hne
    have hne' : mtoks ≠ [] := by intro h0; rw [h0] at hne; simp at hne
    refine Sat.perrE ?_
    exact hrest _ (h.err hc (one_label (hrm.tokensSpan hne')))
  · exact Sat.pure (hrest _ h)

theorem timerFinish_ge (hc : Ctx off w Pv ts) (h : GE Pv ts e s) (start stop nameOffset : Nat) (body : Body)
    (name : Text) (cs : CharSpec) (q0 : Option (Loc (PQuantity α)))
    (hnb : Boundary off w nameOffset) (hns : Boundary off w name.span.stop)
    (hcl : ∀ sp, body.close = some sp → SpanOK off w sp ∧ nameOffset ≤ sp.stop) :
    Sat (timerFinish (α := α) start stop nameOffset body name cs q0) s (fun _ s' => GE Pv ts e s') := by
  have hl1 : SpanOK off w (body.close.getD (Span.pos name.span.stop)) := by
    cases hcl' : body.close with
    | none => exact SpanOK.pos hns
    | some sp => exact (hcl sp hcl').1
  have hl2 : SpanOK off w (timerNeitherSpan nameOffset body) := by
    unfold timerNeitherSpan
    split
    · rename_i sp hsp
      exact ⟨hnb, (hcl sp hsp).1.2.1, (hcl sp hsp).2⟩
    · exact SpanOK.pos hnb
  unfold timerFinish
  dsimp only
  refine Sat.bind (Sat.hasExt ?_)
  cases q0 with
  | some q =>
    simp only [Option.isNone_some, Bool.false_and, Bool.false_eq_true, if_false, Bool.and_false]
    refine Sat.bind (Sat.pure ?_)
    refine Sat.bind (Sat.pure ?_)
    exact Sat.pure h
  | none =>
    cases he : s.ext.has Gen.EXT_TIMER_REQUIRES_TIME
    · simp only [Option.isNone_none, Bool.and_false, Bool.false_eq_true, if_false]
      cases hn : name.isTextEmpty cs
      · simp only [Bool.false_eq_true, if_false, Option.isNone_some, Bool.false_and]
        exact Sat.pure h
      · simp only [if_true, Option.isNone_none, Bool.and_self]
        refine Sat.bind (Sat.perrE ?_)
        exact Sat.pure (h.err hc (one_label hl2))
    · simp only [Option.isNone_none, Bool.and_self, if_true]
      refine Sat.bind (Sat.perrE ?_)
      have g1 := h.err hc (kind := "timer-missing-quantity") (one_label hl1)
      simp only [Option.isNone_some, Bool.and_false, Bool.false_eq_true, if_false]
      exact Sat.pure g1

theorem timerRest2_ge (hc : Ctx off w Pv ts) (h : GE Pv ts e s) (start stop nameOffset : Nat) {body : Body}
    (hname : RunIn off w nameOffset body.name) (hq : ∀ q, body.quantity = some q → WFI off w q)
    (hcl : ∀ sp, body.close = some sp → SpanOK off w sp ∧ nameOffset ≤ sp.stop) :
    Sat (timerRest2 (α := α) start stop nameOffset body) s (fun _ s' => GE Pv ts e s') := by
  unfold timerRest2 timerQty
  refine Sat.bind (bpText_sat hname.run ?_)
  refine Sat.bind (Sat.get ?_)
  dsimp only
  apply Sat.bind
  apply Sat.mono (Q := fun _ s' => GE Pv ts e s')
  · split
    · rename_i qt hqt
      refine Sat.bind (Sat.mono (parseQuantity_ev hc (hq qt hqt) h) ?_)
      rintro q s7 ⟨g7, c7, hqr⟩
      split
      · refine Sat.bind (Sat.perrE ?_)
        exact Sat.pure (g7.err hc (one_label (SpanOK.pos hqr.1.2.1.1.2.1)))
      · exact Sat.pure g7
    · exact Sat.pure h
  · rintro quantity s7 g7
    exact timerFinish_ge hc g7 start stop nameOffset body _ _ quantity hname.start hname.text.1.2.1 hcl

end ge

/-- `check_note` of a timer pushes nothing or exactly the warning `note-not-allowed:timer` -/
theorem checkNoteTimer_evs (s : BP α) :
    Sat (checkNoteTimer (α := α)) s (fun _ s' => s'.evs = s.evs ∨
      ∃ a b, s'.evs = s.evs.push (.warning ⟨.warning, .parse, "note-not-allowed:timer", [a, b]⟩)) := by
  unfold checkNoteTimer
  apply Sat.bind
  apply Sat.mono (Q := fun _ s' => s'.evs = s.evs ∨
      ∃ a b, s'.evs = s.evs.push (.warning ⟨.warning, .parse, "note-not-allowed:timer", [a, b]⟩))
  · apply withRecover_sat
    refine Sat.bind (Sat.mono ((FQ.consumeK _).sat s) ?_)
    rintro r1 s1 q1
    cases r1 with
    | none => exact Sat.pure (Or.inl q1.2.2)
    | some op =>
      refine Sat.bind (Sat.mono ((FQ.untilK _).sat s1) ?_)
      rintro r2 s2 q2
      cases r2 with
      | none => exact Sat.pure (Or.inl (q2.2.2.trans q1.2.2))
      | some n =>
        refine Sat.bind (Sat.mono ((FQ.bump _).sat s2) ?_)
        rintro cp s3 q3
        refine Sat.bind (Sat.pwarnE ?_)
        refine Sat.pure (Or.inr ⟨⟨op.start, cp.stop⟩, Span.pos op.start, ?_⟩)
        show s3.evs.push _ = s.evs.push _
        rw [q3.2.2, q2.2.2, q1.2.2]
  · rintro _ s1 h1
    exact Sat.pure h1

theorem timerFinish_span (start stop nameOffset : Nat) (body : Body) (name : Text) (cs : CharSpec)
    (q0 : Option (Loc (PQuantity α))) (s : BP α) :
    Sat (timerFinish (α := α) start stop nameOffset body name cs q0) s
      (fun r _ => ∀ t, r = some (.timer t) → t.span = ⟨start, stop⟩) := by
  unfold timerFinish
  dsimp only
  refine Sat.bind_any (α := α) ?_; intro b s1
  repeat (first
    | (refine Sat.bind_any (α := α) ?_; intro _ _)
    | split
    | (refine Sat.pure (α := α) ?_; intro t ht; simp only [Option.some.injEq, Ev.timer.injEq] at ht
       subst ht; rfl))

theorem timerRest2_span (start stop nameOffset : Nat) (body : Body) (s : BP α) :
    Sat (timerRest2 (α := α) start stop nameOffset body) s
      (fun r _ => ∀ t, r = some (.timer t) → t.span = ⟨start, stop⟩) := by
  unfold timerRest2
  refine Sat.bind_any (α := α) ?_; intro _ _
  refine Sat.bind_any (α := α) ?_; intro _ _
  refine Sat.bind_any (α := α) ?_; intro _ _
  exact timerFinish_span (α := α) start stop nameOffset body _ _ _ _

def noteWarn (x : Ev α) : Prop :=
  ∃ a b, x = .warning ⟨.warning, .parse, "note-not-allowed:timer", [a, b]⟩

/-- **every label of every diagnostic `timer` pushes lies inside the timer's span**, except for the
    warning about a note following the timer -/
theorem timerP_labels_inside {ts : List Tok} {e : Ext} {s s' : BP α} {t : Loc (PTimer α)}
    (hw : WF ts) (h : G ts e s) (hrun : timerP s = (some (.timer t), s')) :
    t.span.start = offAt ts s.cur ∧
    ∃ l, s'.evs.toList = s.evs.toList ++ l ∧ ∀ x ∈ l, DiagEv (Span.Inside t.span) x ∨ noteWarn x := by
  obtain ⟨mtoks, body, s1, s2, s3, hc⟩ := timerP_some_cut hrun
  have q3 : Same s s3 := hc.same
  have hcut := timerP_cut hc
  -- the invariant at the end of the cut
  have g3 : G ts e s3 := by
    obtain ⟨⟨tk, h1⟩, h2, h3⟩ := hc
    have ge0 : GE (fun _ => True) ts e s := ⟨h, trivial⟩
    obtain ⟨g1, -, -, -⟩ := Sat.of_run (consumeK_ge .tilde ge0) h1
    obtain ⟨g2, -, -, -⟩ := Sat.of_run (modifiersP_ev g1) h2
    exact (Sat.of_run (compBody_slices g2.g) h3).1
  -- the three parts of the tail
  rcases hH : timerHead (α := α) mtoks body s3 with ⟨u1, sA⟩
  rcases hN : checkNoteTimer (α := α) sA with ⟨u2, sN⟩
  have hR : timerP s = timerRest2 (curOff s) (curOff s3) (curOff s2) body sN := by
    rw [hcut, timerTail_eq]
    show timerRest2 _ _ _ _ (checkNoteTimer (timerHead mtoks body s3).2).2 = _
    rw [hH]
    show timerRest2 _ _ _ _ (checkNoteTimer sA).2 = _
    rw [hN]
  have hfr : sA = { s3 with evs := sA.evs } := by
    have := timerHead_frame (α := α) mtoks body s3
    rw [hH] at this; exact this
  have gA : G ts e sA := by rw [hfr]; exact g3.setEvs _
  have cA : sA.cur = s3.cur := by rw [hfr]
  obtain ⟨gN, cN⟩ := Sat.of_run (checkNoteTimer_sat gA) hN
  have cN3 : sN.cur = s3.cur := cN.trans cA
  -- head: run on the tokens of the timer
  obtain ⟨hlt, e0, e3, -, comp, w, hcomp, hwd, hwfi, ge3, hname, hq, hm, hrm, hpos, hclose⟩ :=
    cut_restrict' hw h hc g3 (Nat.le_refl _)
  have hHe := timerHead_ge (tailCtx (α := α) hwfi s3.evs.toList) ge3 hrm hname
  unfold Sat at hHe
  rw [(Indep.timerHead mtoks body).out s3 comp comp.length, hH] at hHe
  obtain ⟨lH, hlH, hallH⟩ := hHe.evs
  -- check_note
  have hNe := Sat.of_run (checkNoteTimer_evs sA) hN
  -- rest: run on the tokens of the timer
  obtain ⟨-, -, eN, -, comp', w', hcomp', hwd', hwfi', geN, hname', hq', -, -, -, hclose'⟩ :=
    cut_restrict' hw h hc gN (Nat.le_of_eq cN3.symm)
  have hRe := timerRest2_ge (tailCtx (α := α) hwfi' sN.evs.toList) geN (curOff s) (curOff s3) (curOff s2)
    hname' hq' hclose'
  unfold Sat at hRe
  rw [(Indep.timerRest2 ..).out sN comp' comp'.length, ← hR, hrun] at hRe
  obtain ⟨lR, hlR, hallR⟩ := hRe.evs
  -- the span of the timer
  have hsp := timerRest2_span (α := α) (curOff s) (curOff s3) (curOff s2) body sN
  unfold Sat at hsp
  rw [← hR, hrun] at hsp
  have hspan := hsp t rfl
  rw [e0, e3] at hspan
  have hin3 : ∀ sp, SpanOK (offAt ts s.cur) w sp → Span.Inside t.span sp := by
    intro sp hsp'
    rw [hspan]
    subst hwd hcomp
    exact spanOK_inside hw (Nat.le_of_lt hlt) hsp'
  have hinN : ∀ sp, SpanOK (offAt ts s.cur) w' sp → Span.Inside t.span sp := by
    intro sp hsp'
    rw [hspan]
    subst hwd' hcomp'
    have := spanOK_inside hw (c0 := s.cur) (c4 := sN.cur) (by omega) hsp'
    rw [cN3] at this
    exact this
  refine ⟨by rw [hspan], ?_⟩
  rcases hNe with hsame | ⟨a, b, hpush⟩
  · refine ⟨lH ++ lR, ?_, ?_⟩
    · rw [hlR, hsame, hlH, q3.2.2, List.append_assoc]
    · intro x hx
      simp only [List.mem_append] at hx
      rcases hx with hx | hx
      · exact Or.inl ((hallH x hx).mono hin3)
      · exact Or.inl ((hallR x hx).mono hinN)
  · refine ⟨lH ++ [.warning ⟨.warning, .parse, "note-not-allowed:timer", [a, b]⟩] ++ lR, ?_, ?_⟩
    · rw [hlR, hpush]
      simp only [Array.toList_push]
      rw [hlH, q3.2.2]
      simp only [List.append_assoc]
    · intro x hx
      simp only [List.mem_append, List.mem_singleton] at hx
      rcases hx with (hx | hx) | hx
      · exact Or.inl ((hallH x hx).mono hin3)
      · exact Or.inr ⟨a, b, hx⟩
      · exact Or.inl ((hallR x hx).mono hinN)

end Cook
