import CookModel.Lemmas.SpansDoc
import CookModel.Lemmas.SpansFront
import CookModel.Lemmas.SpansMeta
/-
  C04, row 5b: the fragments of every text of every event are in increasing order, pairwise disjoint and
  non-empty — at document level.

  `TextOK` (Lemmas/Spans.lean) says that the span of a text is made of boundaries and that each fragment
  is the source slice at its offset; it does not say how the fragments of one text lie to each other.
  `TextOKO` adds `TextOrd` (pairwise `f.stop ≤ g.offset`, no empty fragment).  Every text of every event
  is assembled by `BlockParser::text` from a run of adjacent tokens (`RunIn.text`), which gives both
  (`RunIn.textO`), so the sweep of Lemmas/SpansEv.lean goes through with `TextOKO` in the place of
  `TextOK`.  The section "sweep" below IS that text: the declarations of SpansEv.lean that mention
  `TextOK` directly or indirectly, copied mechanically with the suffix `O` on every copied name and
  `RunIn.text` replaced by `RunIn.textO`; everything that does not depend on `TextOK` (`GE`, `Ctx`, the
  number parsers, the modifier parsers, `EvIn`, `Ev.srcSpan`, …) is used from SpansEv.lean as it is.
-/
set_option linter.unusedSectionVars false
set_option linter.unusedSimpArgs false
set_option linter.unusedVariables false
set_option linter.deprecated false
namespace Cook

variable {α : Type} [Arith α]

/-- the fragments of a text lie in increasing order without overlapping, and none is empty -/
def TextOrd (t : Text) : Prop :=
  t.frags.Pairwise (fun f g => f.stop ≤ g.offset) ∧ ∀ f ∈ t.frags, f.text ≠ []

/-- `TextOK` and `TextOrd` -/
def TextOKO (off : Nat) (w : List Char) (t : Text) : Prop :=
  SpanOK off w t.span ∧ ((∀ f ∈ t.frags, SliceAt off w f.offset f.text) ∧ TextOrd t)

theorem TextOKO.textOK {off : Nat} {w : List Char} {t : Text} (h : TextOKO off w t) : TextOK off w t := ⟨h.1, h.2.1⟩
theorem TextOKO.ord {off : Nat} {w : List Char} {t : Text} (h : TextOKO off w t) : TextOrd t := h.2.2

/-- the text assembled from a run of adjacent tokens of the source: `TextOK`, and its fragments are ordered,
    disjoint and non-empty -/
theorem RunIn.textO {off : Nat} {w : List Char} {o : Nat} {l : List Tok} (h : RunIn off w o l) :
    TextOKO off w (buildText o l) := by
  have hfi := buildText_FI o l h.run.1 h.run.2
  exact ⟨h.text.1, h.text.2, hfi.ordered, fun f hf => (hfi.frags f hf).1⟩

theorem fragO_fromStr (off : Nat) (w : List Char) (y : List Char) (o : Nat)
    (h : TextOK off w (Text.fromStr y o)) : TextOKO off w (Text.fromStr y o) := by
  refine ⟨h.1, h.2, ?_⟩
  unfold Text.fromStr Text.appendStr Text.appendFrag TextOrd
  cases y with
  | nil => simp [Text.empty, Text.span, Span.pos]
  | cons c r => simp [Text.empty, Text.span, Span.pos]

variable {off : Nat} {w : List Char} {Pv : Array (Ev α) → Prop} {ts : List Tok} {e : Ext} {s : BP α}

/-! ### sweep (mechanical copy of the `TextOK`-dependent part of Lemmas/SpansEv.lean) -/

def PQuantityOKO (off : Nat) (w : List Char) (q : PQuantity α) : Prop :=
  PQValueOK off w q.value ∧ OptOK (TextOKO off w) q.unit

def LocQOKO (off : Nat) (w : List Char) (q : Loc (PQuantity α)) : Prop :=
  SpanOK off w q.span ∧ PQuantityOKO off w q.val

/-- every source location inside an event is a span of two character boundaries of the text, every
    text is faithful (`TextOKO`), every label of a diagnostic is such a span -/
def EvSpansOKO (off : Nat) (w : List Char) : Ev α → Prop
  | .frontMatter t => TextOKO off w t
  | .metadata k v => TextOKO off w k ∧ TextOKO off w v ∧ k.span.stop ≤ v.span.start
  | .«section» n => OptOK (TextOKO off w) n
  | .start _ => True
  | .stop _ => True
  | .text t => TextOKO off w t
  | .ingredient i => SpanOK off w i.span ∧ SpanOK off w i.val.modifiers.span ∧
      OptOK (fun d => SpanOK off w d.span) i.val.inter ∧ TextOKO off w i.val.name ∧
      OptOK (TextOKO off w) i.val.alias ∧ OptOK (LocQOKO off w) i.val.quantity ∧
      OptOK (TextOKO off w) i.val.note
  | .cookware c => SpanOK off w c.span ∧ SpanOK off w c.val.modifiers.span ∧
      TextOKO off w c.val.name ∧ OptOK (TextOKO off w) c.val.alias ∧
      OptOK (fun q => SpanOK off w q.span ∧ PQValueOK off w q.val) c.val.quantity ∧
      OptOK (TextOKO off w) c.val.note
  | .timer t => SpanOK off w t.span ∧ OptOK (TextOKO off w) t.val.name ∧
      OptOK (LocQOKO off w) t.val.quantity
  | .error d => DiagOK off w d
  | .warning d => DiagOK off w d

/-- what `parse_quantity` returns: all spans fine, and the unit separator `%` lies before the end of
    the unit text (the cookware diagnostic builds a span from the two) -/
def PQRetO (off : Nat) (w : List Char) (r : ParsedQuantity α) : Prop :=
  LocQOKO off w r.quantity ∧ OptOK (SpanOK off w) r.unitSep ∧
  ∀ sep u, r.unitSep = some sep → r.quantity.val.unit = some u → sep.start ≤ u.span.stop

theorem parseRegularQuantity_evO (hc : Ctx off w Pv ts) (h : GE Pv ts e s) :
    Sat (parseRegularQuantity (α := α)) s (fun r s' => GE Pv ts e s' ∧ PQRetO off w r) := by
  unfold parseRegularQuantity
  refine Sat.bind (Sat.mono (qvalue_ev hc h) ?_)
  rintro value s1 ⟨g1, c1, hval⟩
  apply Sat.bind
  apply Sat.mono (Q := fun (u : Option (Span × Text)) s' => GE Pv ts e s' ∧
    OptOK (fun p => SpanOK off w p.1 ∧ TextOKO off w p.2 ∧ p.1.start ≤ p.2.span.stop) u)
  · refine Sat.bind (peekK_sat g1.g ?_)
    split
    · rename_i hk
      obtain ⟨t, ht, -⟩ := peek_some hk
      refine Sat.bind (Sat.mono (bumpAny_ge g1 ht) ?_)
      rintro sep s2 ⟨rfl, g2, c2⟩
      refine Sat.bind (Sat.mono (consumeRest_ge g2) ?_)
      rintro ut s3 ⟨g3, c3, hut⟩
      have hr : RunIn off w sep.stop ut := by
        rw [hut, ← offAt_succ ht, ← c2]; exact hc.wfi.slice g2.le
      refine Sat.bind (bpText_sat hr.run ?_)
      refine Sat.pure ⟨g3, hc.wfi.tok ht, hr.textO, ?_⟩
      have := hr.text_range
      have := hr.textO.1.2.2
      show sep.start ≤ (buildText sep.stop ut).span.stop
      have : sep.start ≤ sep.stop := by simp [Tok.stop]
      omega
    · exact Sat.pure ⟨g1, trivial⟩
  · intro unit s2 ⟨g2, hu⟩
    have hall := hc.wfi.all
    refine Sat.bind (Sat.get ?_)
    dsimp only
    split
    · rename_i sep ut
      split
      · refine Sat.bind (Sat.pwarnE ?_)
        have g3 := g2.warn hc (kind := "empty-unit") (one_label hu.1)
        refine Sat.bind (Sat.get ?_)
        refine Sat.bind (tokensSpanP_sat (by rw [g3.g.toks]; exact hc.wfi.ne) ?_)
        refine Sat.pure ⟨g3, ⟨?_, hval, trivial⟩, hu.1, ?_⟩
        · rw [g3.g.toks]; exact hall
        · intro _ _ _ h0; cases h0
      · refine Sat.bind (Sat.get ?_)
        refine Sat.bind (tokensSpanP_sat (by rw [g2.g.toks]; exact hc.wfi.ne) ?_)
        refine Sat.pure ⟨g2, ⟨?_, hval, hu.2.1⟩, hu.1, ?_⟩
        · rw [g2.g.toks]; exact hall
        · intro sep' u' h1 h2
          simp only [Option.map_some, Option.some.injEq] at h1 h2
          subst h1 h2
          exact hu.2.2
    · refine Sat.bind (Sat.get ?_)
      refine Sat.bind (tokensSpanP_sat (by rw [g2.g.toks]; exact hc.wfi.ne) ?_)
      refine Sat.pure ⟨g2, ⟨?_, hval, trivial⟩, trivial, ?_⟩
      · rw [g2.g.toks]; exact hall
      · intro _ _ h0; cases h0

theorem parseAdvancedQuantity_evO (hc : Ctx off w Pv ts) (h : GE Pv ts e s) :
    Sat (parseAdvancedQuantity (α := α)) s (fun r s' => GE Pv ts e s' ∧ OptOK (PQRetO off w) r) := by
  unfold parseAdvancedQuantity
  refine Sat.bind (allToks_sat h.g ?_)
  dsimp only
  split
  · exact Sat.pure ⟨h, trivial⟩
  refine Sat.bind (Sat.mono (scalingLock_ev hc h) ?_)
  rintro lock s1 ⟨g1, c1, hlock⟩
  unfold wsComments
  refine Sat.bind (Sat.mono (consumeWhile_ge _ g1) ?_)
  rintro _ s2 ⟨g2, c2, -, -, hend2⟩
  refine Sat.bind (Sat.mono (consumeWhile_ge _ g2) ?_)
  rintro vt s3 ⟨g3, c3, hvt, -, -⟩
  split
  · exact Sat.pure ⟨g3, trivial⟩
  rename_i l hl
  split
  · exact Sat.pure ⟨g3, trivial⟩
  have hne : (vt.reverse.dropWhile (fun t => t.kind == .ws || t.kind == .blockComment)).reverse ≠ [] := by
    cases hv : vt with
    | nil => rw [hv] at hl; simp at hl
    | cons t rest =>
      rw [hv] at hvt
      have ht := hend2 t (slice_head hvt.symm)
      apply rtrim_ne_nil _ _ t (by simp)
      simp only [isWsComment, Bool.or_eq_false_iff] at ht
      simp [ht.1.1, ht.2]
  have hrv : RunIn off w (offAt ts s2.cur)
      (vt.reverse.dropWhile (fun t => t.kind == .ws || t.kind == .blockComment)).reverse := by
    obtain ⟨suf, hsuf⟩ := rtrim_prefix (fun t => t.kind == .ws || t.kind == .blockComment) vt
    have h0 : RunIn off w (offAt ts s2.cur) vt := by rw [hvt]; exact hc.wfi.slice c3
    rw [hsuf] at h0
    exact h0.append.1
  split
  · rename_i hemp
    exfalso; apply hne
    simpa using hemp
  refine Sat.bind (Sat.mono (consumeRest_ge g3) ?_)
  rintro ut s5 ⟨g5, c5, hut⟩
  split
  · exact Sat.pure ⟨g5, trivial⟩
  rename_i hutne
  have hutne' : ut ≠ [] := by intro h0; rw [h0] at hutne; simp at hutne
  try dsimp only
  refine Sat.bind (hasExt_sat g5.g ?_)
  split
  · exact Sat.pure ⟨g5, trivial⟩
  rename_i r hr
  have hrun : RunIn off w (offAt ts s3.cur) ut := by rw [hut]; exact hc.wfi.slice g3.le
  apply Sat.bind
  apply Sat.mono (Q := fun _ s' => GE Pv ts e s')
  · split
    · exact Sat.pure g5
    · rename_i d
      refine Sat.bind (Sat.pushEv ?_)
      exact Sat.pure (g5.push (hc.diag _ _ g5.evs (numOrRange_err hrv.toksOK hr)).1)
  rintro v s6 g6
  have hunit := hrun.headStartNe hutne' 0
  refine Sat.bind (bpText_sat hunit.run ?_)
  refine Sat.bind (tokensSpanP_sat hc.wfi.ne ?_)
  refine Sat.pure ⟨g6, ⟨hc.wfi.all, ⟨hrv.tokensSpan hne, hlock⟩, hunit.textO⟩, trivial, ?_⟩
  intro _ _ h0; cases h0

/-- `parse_quantity`: the sub-parser over the tokens between the braces -/
theorem parseQuantity_evO {q : List Tok} (hc : Ctx off w Pv ts) (hq : WFI off w q) (h : GE Pv ts e s) :
    Sat (parseQuantity (α := α) q) s (fun r s' => GE Pv ts e s' ∧ s'.cur = s.cur ∧ PQRetO off w r) := by
  unfold parseQuantity
  have hne : q.isEmpty = false := by
    have := hq.ne
    cases q <;> simp_all
  have hcq : Ctx off w Pv q := ⟨hq, hc.diag⟩
  simp only [hne, Bool.false_eq_true, if_false]
  refine Sat.bind (Sat.get ?_)
  refine Sat.bind (Sat.set ?_)
  have g0 : GE Pv q e ({ s with toks := q, cur := 0 } : BP α) :=
    ⟨⟨rfl, h.g.ext, h.g.panic, Nat.zero_le _⟩, h.evs⟩
  apply Sat.bind
  apply Sat.mono (Q := fun r s' => GE Pv q e s' ∧ OptOK (PQRetO off w) r)
  · refine Sat.bind (hasExt_sat g0.g ?_)
    split
    · apply withRecover_sat
      refine Sat.mono (parseAdvancedQuantity_evO hcq g0) ?_
      rintro r s1 ⟨g1, hr⟩
      cases r with
      | none => exact ⟨g1.setCur (Nat.zero_le _), trivial⟩
      | some b => exact ⟨g1, hr⟩
    · exact Sat.pure ⟨g0, trivial⟩
  rintro adv s1 ⟨g1, hadv⟩
  apply Sat.bind
  apply Sat.mono (Q := fun r s' => GE Pv q e s' ∧ PQRetO off w r)
  · split
    · exact Sat.pure ⟨g1, hadv⟩
    · exact parseRegularQuantity_evO hcq g1
  rintro r s2 ⟨g2, hr⟩
  refine Sat.bind (Sat.modify ?_)
  exact Sat.pure ⟨⟨⟨h.g.toks, g2.g.ext, g2.g.panic, h.g.le⟩, g2.evs⟩, rfl, hr⟩

theorem noteP_evO (hc : Ctx off w Pv ts) (h : GE Pv ts e s) :
    Sat (noteP (α := α)) s (fun r s' => GE Pv ts e s' ∧ s.cur ≤ s'.cur ∧ OptOK (TextOKO off w) r) := by
  unfold noteP
  apply withRecover_sat
  refine Sat.bind (Sat.mono (consumeK_ge _ h) ?_)
  rintro r1 s1 ⟨g1, h1⟩
  cases r1 with
  | none => exact Sat.pure ⟨g1.setCur h.le, Nat.le_refl _, trivial⟩
  | some o =>
    obtain ⟨-, -, c1⟩ := h1
    refine Sat.bind (currentOffset_sat g1.g ?_)
    refine Sat.bind (Sat.mono (untilK_ge _ g1) ?_)
    rintro r2 s2 ⟨g2, h2⟩
    cases r2 with
    | none => exact Sat.pure ⟨g2.setCur h.le, Nat.le_refl _, trivial⟩
    | some n =>
      obtain ⟨c2, hn, ⟨c, hcl, hck⟩, -⟩ := h2
      refine Sat.bind (Sat.mono (bump_ge g2 hcl (by simpa using hck)) ?_)
      rintro _ s3 ⟨-, g3, c3⟩
      have hr : RunIn off w (offAt ts s1.cur) n := by rw [hn]; exact hc.wfi.slice c2
      refine Sat.bind (bpText_sat hr.run ?_)
      exact Sat.pure ⟨g3, by omega, hr.textO⟩

theorem parseAlias_evO (hc : Ctx off w Pv ts) (container : String) {toks : List Tok} {o : Nat}
    (hr : RunIn off w o toks) (h : GE Pv ts e s) :
    Sat (parseAlias (α := α) container toks o) s (fun r s' => GE Pv ts e s' ∧ s'.cur = s.cur ∧
      TextOKO off w r.1 ∧ OptOK (TextOKO off w) r.2) := by
  unfold parseAlias
  refine Sat.bind (hasExt_sat h.g ?_)
  dsimp only
  split
  · refine Sat.bind (bpText_sat hr.run ?_)
    exact Sat.pure ⟨h, rfl, hr.textO, trivial⟩
  · rename_i i hi
    have hfi : toks.findIdx? (fun t => t.kind == .or) = some i := by
      split at hi
      · exact hi
      · cases hi
    have hlt : i < toks.length := by
      rw [List.findIdx?_eq_some_iff_getElem] at hfi
      exact hfi.1
    have hget : toks[i]? = some toks[i] := List.getElem?_eq_getElem hlt
    obtain ⟨hr1, -, hb1, hb2, hr2⟩ := hr.split hget
    simp only [hget, Option.getD_some]
    refine Sat.bind (bpText_sat hr2.run ?_)
    refine Sat.bind (Sat.get ?_)
    apply Sat.bind
    apply Sat.mono (Q := fun r s' => GE Pv ts e s' ∧ s'.cur = s.cur ∧ OptOK (TextOKO off w) r)
    · split
      · refine Sat.bind (Sat.perrE ?_)
        refine Sat.pure ⟨h.err hc (one_label ?_), rfl, trivial⟩
        rw [getLast_getD_stop]
        refine ⟨hb1, hr2.stop, ?_⟩
        have := hr2.le
        have : toks[i].start ≤ toks[i].stop := by simp [Tok.stop]
        show toks[i].start ≤ lastStop toks[i].stop _
        omega
      · split
        · refine Sat.bind (Sat.perrE ?_)
          exact Sat.pure ⟨h.err hc (one_label ⟨hb1, hb2, by simp [Tok.stop]⟩), rfl, trivial⟩
        · exact Sat.pure ⟨h, rfl, hr2.textO⟩
    rintro alias s1 ⟨g1, c1, ha⟩
    refine Sat.bind (bpText_sat hr1.run ?_)
    exact Sat.pure ⟨g1, c1, hr1.textO, ha⟩

theorem checkEmptyName_evO (hc : Ctx off w Pv ts) (container : String) (name : Text)
    (hn : TextOKO off w name) (h : GE Pv ts e s) :
    Sat (checkEmptyName (α := α) container name) s (fun _ s' => GE Pv ts e s' ∧ s'.cur = s.cur) := by
  unfold checkEmptyName
  refine Sat.bind (Sat.get ?_)
  split
  · refine Sat.perrE ?_
    exact ⟨h.err hc (one_label hn.1), rfl⟩
  · exact Sat.pure ⟨h, rfl⟩

/-- what a component parser returns: an event with good spans, located between the cursor before
    and the cursor after -/
def CompRetO (off : Nat) (w : List Char) (ts : List Tok) (c c' : Nat) (r : Option (Ev α)) : Prop :=
  OptOK (fun ev => EvSpansOKO off w ev ∧ EvIn ts c c' ev) r

theorem ingredientP_evxO (hc : Ctx off w Pv ts) (h : GE Pv ts e s) :
    Sat (ingredientP (α := α)) s (fun r s' => GE Pv ts e s' ∧ (r.isSome = true → s.cur < s'.cur) ∧
      CompRetO off w ts s.cur s'.cur r ∧ EvAt ts s.cur s'.cur r) := by
  unfold ingredientP
  refine Sat.bind (currentOffset_sat h.g ?_)
  refine Sat.bind (Sat.mono (consumeK_ge _ h) ?_)
  rintro r1 s1 ⟨g1, h1⟩
  cases r1 with
  | none => exact Sat.pure ⟨g1, by simp, trivial, EvAt.none⟩
  | some m =>
    obtain ⟨-, -, c1⟩ := h1
    refine Sat.bind (currentOffset_sat g1.g ?_)
    refine Sat.bind (Sat.mono (modifiersP_ev g1) ?_)
    rintro mtoks s2 ⟨g2, c2, hm, hmt⟩
    have hrm : RunIn off w (offAt ts s1.cur) mtoks := by rw [hmt]; exact hc.wfi.slice c2
    refine Sat.bind (currentOffset_sat g2.g ?_)
    refine Sat.bind (Sat.mono (compBody_ev hc g2) ?_)
    rintro r3 s3 ⟨g3, h3⟩
    cases r3 with
    | none => exact Sat.pure ⟨g3, by simp, trivial, EvAt.none⟩
    | some body =>
      obtain ⟨c3, hname, hq, -⟩ := h3
      refine Sat.bind (Sat.mono (noteP_evO hc g3) ?_)
      rintro note s4 ⟨g4, c4, hnote⟩
      refine Sat.bind (currentOffset_sat g4.g ?_)
      refine Sat.bind (Sat.mono (parseAlias_evO hc "ingredient" hname g4) ?_)
      rintro ⟨name, alias⟩ s5 ⟨g5, c5, hnm, hal⟩
      dsimp only at hnm hal ⊢
      refine Sat.bind (Sat.mono (checkEmptyName_evO hc "ingredient" name hnm g5) ?_)
      rintro _ s6 ⟨g6, c6⟩
      refine Sat.bind (Sat.mono (parseModifiers_ev hc mtoks _ g6 hm hrm (hc.wfi.offAt _)) ?_)
      rintro pm s7 ⟨g7, c7, -, hfsp, hint⟩
      apply Sat.bind
      apply Sat.mono (Q := fun r s' => GE Pv ts e s' ∧ s'.cur = s7.cur ∧ OptOK (LocQOKO off w) r)
      · split
        · rename_i qt hqt
          refine Sat.bind (Sat.mono (parseQuantity_evO hc (hq qt hqt) g7) ?_)
          rintro q s8 ⟨g8, c8, hqr⟩
          exact Sat.pure ⟨g8, c8, hqr.1⟩
        · exact Sat.pure ⟨g7, rfl, trivial⟩
      rintro quantity s8 ⟨g8, c8, hqo⟩
      have hcur : s8.cur = s4.cur := by omega
      refine Sat.pure ⟨g8, fun _ => by omega, ⟨⟨?_, hfsp, hint, hnm, hal, hqo, hnote⟩, ?_⟩, ?_⟩
      · exact hc.wfi.span (by omega)
      · intro sp hsp
        simp only [Ev.srcSpan, Option.some.injEq] at hsp
        subst hsp
        exact ⟨Nat.le_refl _, hc.wfi.offAt_mono (by omega)⟩
      · intro ev hev
        simp only [Option.some.injEq] at hev
        subst hev
        show some _ = some _
        rw [hcur]

theorem ingredientP_evO (hc : Ctx off w Pv ts) (h : GE Pv ts e s) :
    Sat (ingredientP (α := α)) s (fun r s' => GE Pv ts e s' ∧ (r.isSome = true → s.cur < s'.cur) ∧
      CompRetO off w ts s.cur s'.cur r) :=
  Sat.mono (ingredientP_evxO hc h) (fun _ _ h => ⟨h.1, h.2.1, h.2.2.1⟩)


theorem cookwareP_evxO (hc : Ctx off w Pv ts) (h : GE Pv ts e s) :
    Sat (cookwareP (α := α)) s (fun r s' => GE Pv ts e s' ∧ (r.isSome = true → s.cur < s'.cur) ∧
      CompRetO off w ts s.cur s'.cur r ∧ EvAt ts s.cur s'.cur r) := by
  unfold cookwareP
  refine Sat.bind (currentOffset_sat h.g ?_)
  refine Sat.bind (Sat.mono (consumeK_ge _ h) ?_)
  rintro r1 s1 ⟨g1, h1⟩
  cases r1 with
  | none => exact Sat.pure ⟨g1, by simp, trivial, EvAt.none⟩
  | some m =>
    obtain ⟨-, -, c1⟩ := h1
    refine Sat.bind (currentOffset_sat g1.g ?_)
    refine Sat.bind (Sat.mono (modifiersP_ev g1) ?_)
    rintro mtoks s2 ⟨g2, c2, hm, hmt⟩
    have hrm : RunIn off w (offAt ts s1.cur) mtoks := by rw [hmt]; exact hc.wfi.slice c2
    refine Sat.bind (currentOffset_sat g2.g ?_)
    refine Sat.bind (Sat.mono (compBody_ev hc g2) ?_)
    rintro r3 s3 ⟨g3, h3⟩
    cases r3 with
    | none => exact Sat.pure ⟨g3, by simp, trivial, EvAt.none⟩
    | some body =>
      obtain ⟨c3, hname, hq, -⟩ := h3
      refine Sat.bind (Sat.mono (noteP_evO hc g3) ?_)
      rintro note s4 ⟨g4, c4, hnote⟩
      refine Sat.bind (currentOffset_sat g4.g ?_)
      refine Sat.bind (Sat.mono (parseAlias_evO hc "cookware" hname g4) ?_)
      rintro ⟨name, alias⟩ s5 ⟨g5, c5, hnm, hal⟩
      dsimp only at hnm hal ⊢
      refine Sat.bind (Sat.mono (checkEmptyName_evO hc "cookware" name hnm g5) ?_)
      rintro _ s6 ⟨g6, c6⟩
      apply Sat.bind
      apply Sat.mono (Q := fun r s' => GE Pv ts e s' ∧ s'.cur = s6.cur ∧
        OptOK (fun q : Loc (PQValue α) => SpanOK off w q.span ∧ PQValueOK off w q.val) r)
      · split
        · rename_i qt hqt
          refine Sat.bind (Sat.mono (parseQuantity_evO hc (hq qt hqt) g6) ?_)
          rintro q s7 ⟨g7, c7, hqr⟩
          split
          · rename_i unit hunit
            have hut : TextOKO off w unit := by
              have := hqr.1.2.2
              rw [hunit] at this; exact this
            refine Sat.bind (Sat.perrE ?_)
            refine Sat.pure ⟨g7.err hc (one_label ?_), c7, hqr.1.1, hqr.1.2.1⟩
            split
            · rename_i sep hsep
              have hs : SpanOK off w sep := by
                have := hqr.2.1
                rw [hsep] at this; exact this
              exact ⟨hs.1, hut.1.2.1, hqr.2.2 sep unit hsep hunit⟩
            · exact hut.1
          · exact Sat.pure ⟨g7, c7, hqr.1.1, hqr.1.2.1⟩
        · exact Sat.pure ⟨g6, rfl, trivial⟩
      rintro quantity s7 ⟨g7, c7, hqo⟩
      refine Sat.bind (Sat.mono (parseModifiers_ev hc mtoks _ g7 hm hrm (hc.wfi.offAt _)) ?_)
      rintro pm s8 ⟨g8, c8, hrec, hfsp, hint⟩
      have fin : ∀ s9 : BP α, GE Pv ts e s9 → s9.cur = s8.cur →
          Sat (pure (some (Ev.cookware ⟨⟨pm.flags, name, alias, quantity, note⟩,
              ⟨offAt ts s.cur, offAt ts s4.cur⟩⟩)) : P α (Option (Ev α))) s9
            (fun r s' => GE Pv ts e s' ∧ (r.isSome = true → s.cur < s'.cur) ∧
              CompRetO off w ts s.cur s'.cur r ∧ EvAt ts s.cur s'.cur r) := by
        intro s9 g9 c9
        have hcur : s9.cur = s4.cur := by omega
        refine Sat.pure ⟨g9, fun _ => by omega, ⟨⟨?_, hfsp, hnm, hal, hqo, hnote⟩, ?_⟩, ?_⟩
        · exact hc.wfi.span (by omega)
        · intro sp hsp
          simp only [Ev.srcSpan, Option.some.injEq] at hsp
          subst hsp
          exact ⟨Nat.le_refl _, hc.wfi.offAt_mono (by omega)⟩
        · intro ev hev
          simp only [Option.some.injEq] at hev
          subst hev
          show some _ = some _
          rw [hcur]
      have hrcp : ∀ s9 : BP α, GE Pv ts e s9 → s9.cur = s8.cur →
          Sat (do
            if pm.flags.val.contains Modifiers.RECIPE then
              match mtoks.find? (fun t => t.kind == .at) with
              | some t => perr "cookware-recipe-modifier" [⟨t.start, t.stop⟩]
              | none => panicWith "no recipe token in modifiers with recipe"
            return some (Ev.cookware ⟨⟨pm.flags, name, alias, quantity, note⟩,
              ⟨offAt ts s.cur, offAt ts s4.cur⟩⟩) : P α (Option (Ev α))) s9
            (fun r s' => GE Pv ts e s' ∧ (r.isSome = true → s.cur < s'.cur) ∧
              CompRetO off w ts s.cur s'.cur r ∧ EvAt ts s.cur s'.cur r) := by
        intro s9 g9 c9
        split
        · rename_i hcc
          obtain ⟨t, htm, htk⟩ := hrec hcc
          split
          · rename_i t' hfind
            refine Sat.bind (Sat.perrE ?_)
            exact fin _ (g9.err hc (one_label (hrm.tok (List.mem_of_find?_eq_some hfind)))) c9
          · rename_i hnone
            exfalso
            rw [List.find?_eq_none] at hnone
            exact hnone t htm (by simp [htk])
        · exact Sat.bind (Sat.pure (fin _ g9 c9))
      split
      · rename_i d hd
        refine Sat.bind (Sat.perrE ?_)
        refine hrcp _ (g8.err hc (one_label ?_)) rfl
        have := hint
        rw [hd] at this; exact this
      · exact Sat.bind (Sat.pure (hrcp _ g8 rfl))

theorem cookwareP_evO (hc : Ctx off w Pv ts) (h : GE Pv ts e s) :
    Sat (cookwareP (α := α)) s (fun r s' => GE Pv ts e s' ∧ (r.isSome = true → s.cur < s'.cur) ∧
      CompRetO off w ts s.cur s'.cur r) :=
  Sat.mono (cookwareP_evxO hc h) (fun _ _ h => ⟨h.1, h.2.1, h.2.2.1⟩)

theorem recoverPQuantity_okO (hz : Boundary off w 0) : LocQOKO off w (recoverPQuantity (α := α)) :=
  ⟨SpanOK.pos hz, ⟨SpanOK.pos hz, trivial⟩, trivial⟩

/-- `timer`.  `hz`: position 0 is a boundary of the text (the spans of the recovered quantity the
    parser substitutes for a missing one are the documented `(0, 0)`) -/
theorem timerP_evxO (hc : Ctx off w Pv ts) (hz : Boundary off w 0) (h : GE Pv ts e s) :
    Sat (timerP (α := α)) s (fun r s' => GE Pv ts e s' ∧ (r.isSome = true → s.cur < s'.cur) ∧
      CompRetO off w ts s.cur s'.cur r ∧ EvAt ts s.cur s'.cur r) := by
  unfold timerP
  refine Sat.bind (currentOffset_sat h.g ?_)
  refine Sat.bind (Sat.mono (consumeK_ge _ h) ?_)
  rintro r1 s1 ⟨g1, h1⟩
  cases r1 with
  | none => exact Sat.pure ⟨g1, by simp, trivial, EvAt.none⟩
  | some m =>
    obtain ⟨-, -, c1⟩ := h1
    refine Sat.bind (Sat.mono (modifiersP_ev g1) ?_)
    rintro mtoks s2 ⟨g2, c2, hm, hmt⟩
    have hrm : RunIn off w (offAt ts s1.cur) mtoks := by rw [hmt]; exact hc.wfi.slice c2
    refine Sat.bind (currentOffset_sat g2.g ?_)
    refine Sat.bind (Sat.mono (compBody_ev hc g2) ?_)
    rintro r3 s3 ⟨g3, h3⟩
    cases r3 with
    | none => exact Sat.pure ⟨g3, by simp, trivial, EvAt.none⟩
    | some body =>
      obtain ⟨c3, hname, hq, hclose⟩ := h3
      refine Sat.bind (currentOffset_sat g3.g ?_)
      have hrec := recoverPQuantity_okO (α := α) hz
      have hnt := hname.textO
      try simp -zeta only
      extract_lets +onlyGivenNames -underBinder jp1
      have hjp1 : ∀ (r : Unit) (s4 : BP α), GE Pv ts e s4 → s4.cur = s3.cur → Sat (jp1 r) s4
          (fun r s' => GE Pv ts e s' ∧ (r.isSome = true → s.cur < s'.cur) ∧
            CompRetO off w ts s.cur s'.cur r ∧ EvAt ts s.cur s'.cur r) := by
        intro r s4 g4 c4
        simp -zeta only [jp1]
        refine Sat.bind (hasExt_sat g4.g ?_)
        try simp -zeta only
        extract_lets +onlyGivenNames -underBinder jp2
        have hjp2 : ∀ (r : Unit) (s5 : BP α), GE Pv ts e s5 → s5.cur = s3.cur → Sat (jp2 r) s5
            (fun r s' => GE Pv ts e s' ∧ (r.isSome = true → s.cur < s'.cur) ∧
              CompRetO off w ts s.cur s'.cur r ∧ EvAt ts s.cur s'.cur r) := by
          intro r s5 g5 c5
          simp -zeta only [jp2]
          refine Sat.bind (Sat.mono (checkNoteTimer_ev hc g5) ?_)
          rintro _ s6 ⟨g6, c6⟩
          refine Sat.bind (bpText_sat hname.run ?_)
          refine Sat.bind (Sat.get ?_)
          try simp -zeta only
          extract_lets +onlyGivenNames -underBinder cs
          apply Sat.bind
          apply Sat.mono (Q := fun r s' => GE Pv ts e s' ∧ s'.cur = s3.cur ∧ OptOK (LocQOKO off w) r)
          · split
            · rename_i qt hqt
              refine Sat.bind (Sat.mono (parseQuantity_evO hc (hq qt hqt) g6) ?_)
              rintro q s7 ⟨g7, c7, hqr⟩
              dsimp only
              split
              · refine Sat.bind (Sat.perrE ?_)
                exact Sat.pure ⟨g7.err hc (one_label (SpanOK.pos hqr.1.2.1.1.2.1)), (by show s7.cur = s3.cur; omega), hqr.1⟩
              · exact Sat.pure ⟨g7, by omega, hqr.1⟩
            · exact Sat.pure ⟨g6, by omega, trivial⟩
          rintro quantity s7 ⟨g7, c7, hqo⟩
          refine Sat.bind (hasExt_sat g7.g ?_)
          try simp -zeta only
          extract_lets +onlyGivenNames -underBinder jp3
          have hjp3 : ∀ (r : Unit) (qo : Option (Loc (PQuantity α))) (s8 : BP α), GE Pv ts e s8 →
              s8.cur = s3.cur → OptOK (LocQOKO off w) qo → Sat (jp3 r qo) s8
              (fun r s' => GE Pv ts e s' ∧ (r.isSome = true → s.cur < s'.cur) ∧
                CompRetO off w ts s.cur s'.cur r ∧ EvAt ts s.cur s'.cur r) := by
            intro r qo s8 g8 c8 hqo8
            simp -zeta only [jp3]
            try simp -zeta only
            extract_lets +onlyGivenNames -underBinder nameO jp4
            have hnO : OptOK (TextOKO off w) nameO := by
              simp only [nameO]
              split
              · trivial
              · exact hnt
            have hjp4 : ∀ (r : Unit) (qo : Option (Loc (PQuantity α))) (s9 : BP α), GE Pv ts e s9 →
                s9.cur = s3.cur → OptOK (LocQOKO off w) qo → Sat (jp4 r qo) s9
                (fun r s' => GE Pv ts e s' ∧ (r.isSome = true → s.cur < s'.cur) ∧
                  CompRetO off w ts s.cur s'.cur r ∧ EvAt ts s.cur s'.cur r) := by
              intro r qo s9 g9 c9 hqo9
              simp -zeta only [jp4]
              refine Sat.pure ⟨g9, fun _ => by omega, ⟨⟨?_, hnO, hqo9⟩, ?_⟩, ?_⟩
              · exact hc.wfi.span (by omega)
              · intro sp hsp
                simp only [Ev.srcSpan, Option.some.injEq] at hsp
                subst hsp
                exact ⟨Nat.le_refl _, hc.wfi.offAt_mono (by omega)⟩
              · intro ev hev
                simp only [Option.some.injEq] at hev
                subst hev
                show some _ = some _
                rw [c9]
            clear_value jp4 nameO
            split
            · dsimp only
              refine Sat.bind (Sat.perrE ?_)
              refine hjp4 _ _ _ (g8.err hc (one_label ?_)) c8 hrec
              split
              · rename_i sp hsp
                obtain ⟨h1, h2⟩ := hclose sp hsp
                exact ⟨hc.wfi.offAt _, h1.2.1, h2⟩
              · exact SpanOK.pos (hc.wfi.offAt _)
            · exact hjp4 _ _ _ g8 c8 hqo8
          clear_value jp3
          split
          · dsimp only
            refine Sat.bind (Sat.perrE ?_)
            refine hjp3 _ _ _ (g7.err hc (one_label ?_)) c7 hrec
            cases hcl : body.close with
            | none => exact SpanOK.pos hnt.1.2.1
            | some sp => exact (hclose sp hcl).1
          · exact hjp3 _ _ _ g7 c7 hqo
        clear_value jp2
        split
        · split
          · rename_i i hfi
            have hlt : i < body.name.length := by
              rw [List.findIdx?_eq_some_iff_getElem] at hfi
              exact hfi.1
            have hget : body.name[i]? = some body.name[i] := List.getElem?_eq_getElem hlt
            simp only [hget, Option.getD_some]
            refine Sat.bind (Sat.perrE ?_)
            exact hjp2 _ _ (g4.err hc (one_label (hname.sepToEnd hget))) c4
          · exact hjp2 _ _ g4 c4
        · exact hjp2 _ _ g4 c4
      clear_value jp1
      split
      · rename_i hne
        have hne' : mtoks ≠ [] := by intro h0; rw [h0] at hne; simp at hne
        refine Sat.bind (Sat.perrE ?_)
        exact hjp1 _ _ (g3.err hc (one_label (hrm.tokensSpan hne'))) rfl
      · exact hjp1 _ _ g3 rfl

theorem timerP_evO (hc : Ctx off w Pv ts) (hz : Boundary off w 0) (h : GE Pv ts e s) :
    Sat (timerP (α := α)) s (fun r s' => GE Pv ts e s' ∧ (r.isSome = true → s.cur < s'.cur) ∧
      CompRetO off w ts s.cur s'.cur r) :=
  Sat.mono (timerP_evxO hc hz h) (fun _ _ h => ⟨h.1, h.2.1, h.2.2.1⟩)

/-- the invariant of the event queue: every event has good spans, the content events are in source
    order, and all of them end at or before byte `b` -/
structure TopInvO (off : Nat) (w : List Char) (b : Nat) (evs : Array (Ev α)) : Prop where
  ok : ∀ ev ∈ evs.toList, EvSpansOKO off w ev
  ord : SrcOrdered evs.toList
  bound : ∀ ev ∈ evs.toList, ∀ sp, ev.srcSpan = some sp → sp.stop ≤ b

theorem TopInvO.mono {b b' : Nat} {evs : Array (Ev α)} (h : TopInvO off w b evs) (hb : b ≤ b') :
    TopInvO off w b' evs :=
  ⟨h.ok, h.ord, fun ev hev sp hsp => Nat.le_trans (h.bound ev hev sp hsp) hb⟩

theorem TopInvO.push {b b' : Nat} {evs : Array (Ev α)} {ev : Ev α} (h : TopInvO off w b evs)
    (hok : EvSpansOKO off w ev) (hb : b ≤ b')
    (hin : ∀ sp, ev.srcSpan = some sp → b ≤ sp.start ∧ sp.stop ≤ b') : TopInvO off w b' (evs.push ev) := by
  refine ⟨?_, ?_, ?_⟩
  · intro x hx
    simp only [Array.toList_push, List.mem_append, List.mem_singleton] at hx
    rcases hx with hx | rfl
    · exact h.ok x hx
    · exact hok
  · unfold SrcOrdered
    rw [Array.toList_push, List.pairwise_append]
    refine ⟨h.ord, by simp, ?_⟩
    intro a ha c hc' sa sb hsa hsb
    simp only [List.mem_singleton] at hc'
    subst hc'
    exact Nat.le_trans (h.bound a ha sa hsa) (hin sb hsb).1
  · intro x hx sp hsp
    simp only [Array.toList_push, List.mem_append, List.mem_singleton] at hx
    rcases hx with hx | rfl
    · exact Nat.le_trans (h.bound x hx sp hsp) hb
    · exact (hin sp hsp).2

theorem TopInvO.pushNone {b : Nat} {evs : Array (Ev α)} {ev : Ev α} (h : TopInvO off w b evs)
    (hok : EvSpansOKO off w ev) (hn : ev.srcSpan = none) : TopInvO off w b (evs.push ev) :=
  h.push hok (Nat.le_refl _) (fun sp hsp => by rw [hn] at hsp; cases hsp)

theorem topCtxO (hw : WFI off w ts) (b : Nat) : Ctx off w (TopInvO (α := α) off w b) ts :=
  ⟨hw, fun evs d h hd => ⟨h.pushNone hd rfl, h.pushNone hd rfl⟩⟩

theorem GE.boundO {b b' : Nat} (h : GE (TopInvO off w b) ts e s) (hb : b ≤ b') : GE (TopInvO off w b') ts e s :=
  h.mono (fun hi => hi.mono hb)

/-- one iteration of the `while` of `parse_step` -/
theorem stepOne_evO (hw : WFI off w ts) (hz : Boundary off w 0) {b : Nat} (h : GE (TopInvO off w b) ts e s)
    (hb : b ≤ offAt ts s.cur) (hlt : s.cur < ts.length) :
    Sat (stepOne (α := α)) s (fun _ s' => GE (TopInvO off w (offAt ts s'.cur)) ts e s' ∧ s.cur < s'.cur) := by
  have hc := topCtxO (α := α) hw b
  unfold stepOne
  apply Sat.bind
  apply Sat.mono (Q := fun r s' => GE (TopInvO off w b) ts e s' ∧
    match r with
    | none => s'.cur = s.cur
    | some ev => s.cur < s'.cur ∧ EvSpansOKO off w ev ∧ EvIn ts s.cur s'.cur ev)
  · have comp : ∀ (p : P α (Option (Ev α))),
        (∀ s : BP α, GE (TopInvO off w b) ts e s → Sat p s (fun r s' => GE (TopInvO off w b) ts e s' ∧
          (r.isSome = true → s.cur < s'.cur) ∧ CompRetO off w ts s.cur s'.cur r)) →
        Sat (withRecover p) s (fun r s' => GE (TopInvO off w b) ts e s' ∧
          match r with
          | none => s'.cur = s.cur
          | some ev => s.cur < s'.cur ∧ EvSpansOKO off w ev ∧ EvIn ts s.cur s'.cur ev) := by
      intro p hp
      apply withRecover_sat
      refine Sat.mono (hp s h) ?_
      rintro r s1 ⟨g1, h1, h2⟩
      cases r with
      | none => exact ⟨g1.setCur h.le, rfl⟩
      | some ev => exact ⟨g1, h1 rfl, h2.1, h2.2⟩
    refine Sat.bind (peekK_sat h.g ?_)
    split
    · exact comp _ (fun s h => ingredientP_evO hc h)
    · exact comp _ (fun s h => cookwareP_evO hc h)
    · exact comp _ (fun s h => timerP_evO hc hz h)
    · exact Sat.pure ⟨h, rfl⟩
  rintro comp s1 ⟨g1, h1⟩
  cases comp with
  | some ev =>
    obtain ⟨c1, hok, hin⟩ := h1
    refine Sat.pushEv ⟨g1.push (g1.evs.push hok ?_ ?_), c1⟩
    · exact Nat.le_trans hb (hw.offAt_mono (Nat.le_of_lt c1))
    · intro sp hsp
      obtain ⟨h2, h3⟩ := hin sp hsp
      exact ⟨Nat.le_trans hb h2, h3⟩
  | none =>
    dsimp only at h1 ⊢
    refine Sat.bind (currentOffset_sat g1.g ?_)
    refine Sat.bind (Sat.getCur ?_)
    have hget : ts[s1.cur]? = some ts[s1.cur] := List.getElem?_eq_getElem (by omega)
    refine Sat.bind (Sat.mono (bumpAny_ge g1 hget) ?_)
    rintro _ s2 ⟨-, g2, c2⟩
    refine Sat.bind (Sat.mono (consumeWhile_ge _ g2) ?_)
    rintro _ s3 ⟨g3, c3, -, -, -⟩
    refine Sat.bind (Sat.get ?_)
    try dsimp only
    have hle : s1.cur ≤ s3.cur := by omega
    have hr : RunIn off w (offAt ts s1.cur) ((s3.toks.take s3.cur).drop s1.cur) := by
      rw [g3.g.toks]; exact hw.slice hle
    have hb3 : b ≤ offAt ts s3.cur := Nat.le_trans hb (hw.offAt_mono (by omega))
    refine Sat.bind (bpText_sat hr.run ?_)
    split
    · refine Sat.pushEv ⟨g3.push (g3.evs.push (ev := .text _) hr.textO hb3 ?_), by show s.cur < s3.cur; omega⟩
      intro sp hsp
      simp only [Ev.srcSpan, Option.some.injEq] at hsp
      subst hsp
      have hrg := hr.text_range
      have e1 : lastStop (offAt ts s1.cur) ((s3.toks.take s3.cur).drop s1.cur) = offAt ts s3.cur := by
        rw [g3.g.toks]; exact offAt_slice hle
      rw [e1] at hrg
      refine ⟨?_, hrg.2⟩
      have hb1 : b ≤ offAt ts s1.cur := by rw [h1]; exact hb
      exact Nat.le_trans hb1 hrg.1
    · exact Sat.pure ⟨g3.boundO hb3, by omega⟩

theorem stepLoop_evO (hw : WFI off w ts) (hz : Boundary off w 0) (fuel : Nat) {b : Nat}
    (h : GE (TopInvO off w b) ts e s) (hb : b ≤ offAt ts s.cur) (hf : ts.length - s.cur ≤ fuel) :
    Sat (stepLoop (α := α) fuel) s
      (fun _ s' => GE (TopInvO off w (offAt ts ts.length)) ts e s' ∧ s'.cur = ts.length) := by
  have hle := h.le
  induction fuel generalizing s b with
  | zero =>
    unfold stepLoop
    refine Sat.bind (restToks_sat h.g ?_)
    have : ts.drop s.cur = [] := List.drop_eq_nil_of_le (by omega)
    rw [this]
    have e1 : s.cur = ts.length := by omega
    exact Sat.pure ⟨h.boundO (by rw [← e1]; exact hb), e1⟩
  | succ fuel ih =>
    unfold stepLoop
    refine Sat.bind (restToks_sat h.g ?_)
    split
    · rename_i hemp
      have := drop_isEmpty_true hemp
      have e1 : s.cur = ts.length := by omega
      exact Sat.pure ⟨h.boundO (by rw [← e1]; exact hb), e1⟩
    · rename_i hemp
      have hlt := drop_isEmpty_false (by simpa using hemp)
      refine Sat.bind (Sat.mono (stepOne_evO hw hz h hb hlt) ?_)
      rintro _ s1 ⟨g1, c1⟩
      exact ih g1 (Nat.le_refl _) (by omega) g1.le

theorem parseStep_evO (hw : WFI off w ts) (hz : Boundary off w 0) {b : Nat}
    (h : GE (TopInvO off w b) ts e s) (hb : b ≤ offAt ts s.cur) :
    Sat (parseStep (α := α)) s
      (fun _ s' => GE (TopInvO off w (offAt ts ts.length)) ts e s' ∧ s'.cur = ts.length) := by
  unfold parseStep
  refine Sat.bind (Sat.pushEv ?_)
  have g1 : GE (TopInvO off w b) ts e { s with evs := s.evs.push (.start .step) } :=
    h.push (h.evs.pushNone trivial rfl)
  refine Sat.bind (restToks_sat g1.g ?_)
  refine Sat.bind (Sat.mono (stepLoop_evO hw hz _ g1 hb (by simp)) ?_)
  rintro _ s2 ⟨g2, c2⟩
  exact Sat.pushEv ⟨g2.push (g2.evs.pushNone trivial rfl), c2⟩

theorem textLineK_evO (hw : WFI off w ts) {b : Nat} (h : GE (TopInvO off w b) ts e s)
    (hb : b ≤ offAt ts s.cur) (k : P α Unit) (Q : Unit → BP α → Prop)
    (hk : ∀ (s2 : BP α), GE (TopInvO off w (offAt ts s2.cur)) ts e s2 → s.cur ≤ s2.cur →
      (s.cur < ts.length → s.cur < s2.cur) → Sat k s2 Q) :
    Sat (textLineK (α := α) k) s Q := by
  unfold textLineK
  refine Sat.bind (currentOffset_sat h.g ?_)
  refine Sat.bind (Sat.getCur ?_)
  refine Sat.bind (Sat.mono (consumeWhile_ge _ h) ?_)
  rintro _ s1 ⟨g1, c1, -, -, hend⟩
  refine Sat.bind (Sat.mono (consumeK_ge _ g1) ?_)
  rintro r2 s2 ⟨g2, h2⟩
  have hprog : s1.cur ≤ s2.cur ∧ (s.cur < ts.length → s.cur < s2.cur) := by
    cases r2 with
    | some nl =>
      obtain ⟨-, -, c2⟩ := h2
      exact ⟨by omega, fun _ => by omega⟩
    | none =>
      obtain ⟨c2, hk⟩ := h2
      refine ⟨by omega, fun hlt => ?_⟩
      rcases Nat.lt_or_ge s.cur s1.cur with h' | h'
      · omega
      · exfalso
        have e1 : s1.cur = s.cur := by omega
        have hget : ts[s1.cur]? = some ts[s1.cur] := List.getElem?_eq_getElem (by omega)
        have := hend _ hget
        apply hk
        rw [hget]
        simp only [Option.map_some, Option.some.injEq]
        simpa using this
  refine Sat.bind (Sat.get ?_)
  dsimp only
  have hle : s.cur ≤ s2.cur := by omega
  have hr : RunIn off w (offAt ts s.cur) ((s2.toks.take s2.cur).drop s.cur) := by
    rw [g2.g.toks]; exact hw.slice hle
  have hb2 : b ≤ offAt ts s2.cur := Nat.le_trans hb (hw.offAt_mono hle)
  refine Sat.bind (bpText_sat hr.run ?_)
  split
  · refine Sat.bind (Sat.pushEv ?_)
    refine hk _ (g2.push (g2.evs.push (ev := .text _) hr.textO hb2 ?_)) (by show s.cur ≤ s2.cur; omega) hprog.2
    intro sp hsp
    simp only [Ev.srcSpan, Option.some.injEq] at hsp
    subst hsp
    have hrg := hr.text_range
    have e1 : lastStop (offAt ts s.cur) ((s2.toks.take s2.cur).drop s.cur) = offAt ts s2.cur := by
      rw [g2.g.toks]; exact offAt_slice hle
    rw [e1] at hrg
    exact ⟨Nat.le_trans hb hrg.1, hrg.2⟩
  · exact hk _ (g2.boundO hb2) (by omega) hprog.2

theorem textBlockLoop_evO (hw : WFI off w ts) (fuel : Nat) {b : Nat} (h : GE (TopInvO off w b) ts e s)
    (hb : b ≤ offAt ts s.cur) (hf : ts.length - s.cur ≤ fuel) :
    Sat (textBlockLoop (α := α) fuel) s
      (fun _ s' => GE (TopInvO off w (offAt ts ts.length)) ts e s' ∧ s'.cur = ts.length) := by
  have hle := h.le
  induction fuel generalizing s b with
  | zero =>
    unfold textBlockLoop
    refine Sat.bind (restToks_sat h.g ?_)
    have : ts.drop s.cur = [] := List.drop_eq_nil_of_le (by omega)
    rw [this]
    have e1 : s.cur = ts.length := by omega
    exact Sat.pure ⟨h.boundO (by rw [← e1]; exact hb), e1⟩
  | succ fuel ih =>
    unfold textBlockLoop
    refine Sat.bind (restToks_sat h.g ?_)
    split
    · rename_i hemp
      have := drop_isEmpty_true hemp
      have e1 : s.cur = ts.length := by omega
      exact Sat.pure ⟨h.boundO (by rw [← e1]; exact hb), e1⟩
    · rename_i hemp
      have hlt := drop_isEmpty_false (by simpa using hemp)
      have tail : ∀ s1 : BP α, GE (TopInvO off w b) ts e s1 → s.cur ≤ s1.cur →
          Sat (textLineK (α := α) (textBlockLoop fuel)) s1
            (fun _ s' => GE (TopInvO off w (offAt ts ts.length)) ts e s' ∧ s'.cur = ts.length) := by
        intro s1 g1 c1
        refine textLineK_evO hw g1 (Nat.le_trans hb (hw.offAt_mono c1)) _ _ ?_
        intro s2 g2 c2 hp
        have hle2 := g2.le
        have hle1 := g1.le
        refine ih g2 (Nat.le_refl _) ?_ g2.le
        rcases Nat.lt_or_ge s1.cur ts.length with h' | h'
        · have := hp h'; omega
        · omega
      refine Sat.bind (Sat.mono (consumeK_ge _ h) ?_)
      rintro r1 s1 ⟨g1, h1⟩
      cases r1 with
      | none => exact tail s1 g1 (by omega)
      | some m =>
        obtain ⟨-, -, c1⟩ := h1
        dsimp only
        refine Sat.bind (Sat.mono (consumeK_ge _ g1) ?_)
        rintro r2 s2 ⟨g2, h2⟩
        refine tail s2 g2 ?_
        cases r2 with
        | none => omega
        | some w => obtain ⟨-, -, c2⟩ := h2; omega

theorem parseTextBlock_evO (hw : WFI off w ts) {b : Nat} (h : GE (TopInvO off w b) ts e s)
    (hb : b ≤ offAt ts s.cur) :
    Sat (parseTextBlock (α := α)) s
      (fun _ s' => GE (TopInvO off w (offAt ts ts.length)) ts e s' ∧ s'.cur = ts.length) := by
  unfold parseTextBlock
  refine Sat.bind (Sat.pushEv ?_)
  have g1 : GE (TopInvO off w b) ts e { s with evs := s.evs.push (.start .text) } :=
    h.push (h.evs.pushNone trivial rfl)
  refine Sat.bind (restToks_sat g1.g ?_)
  refine Sat.bind (Sat.mono (textBlockLoop_evO hw _ g1 hb (by simp)) ?_)
  rintro _ s2 ⟨g2, c2⟩
  exact Sat.pushEv ⟨g2.push (g2.evs.pushNone trivial rfl), c2⟩

theorem sectionP_evO (hc : Ctx off w Pv ts) (h : GE Pv ts e s) :
    Sat (sectionP (α := α)) s (fun r s' => GE Pv ts e s' ∧ (r.isSome = true → s'.cur = ts.length) ∧
      CompRetO off w ts s.cur s'.cur r) := by
  unfold sectionP
  refine Sat.bind (Sat.mono (consumeK_ge _ h) ?_)
  rintro r1 s1 ⟨g1, h1⟩
  cases r1 with
  | none => exact Sat.pure ⟨g1, by simp, trivial⟩
  | some m =>
    obtain ⟨-, -, c1⟩ := h1
    refine Sat.bind (Sat.mono (consumeWhile_ge _ g1) ?_)
    rintro _ s2 ⟨g2, c2, -, -, -⟩
    refine Sat.bind (currentOffset_sat g2.g ?_)
    refine Sat.bind (Sat.mono (consumeWhile_ge _ g2) ?_)
    rintro nameT s3 ⟨g3, c3, hn, -, -⟩
    have hr : RunIn off w (offAt ts s2.cur) nameT := by rw [hn]; exact hc.wfi.slice c3
    have hrg := hr.text_range
    have e1 : lastStop (offAt ts s2.cur) nameT = offAt ts s3.cur := by rw [hn]; exact offAt_slice c3
    rw [e1] at hrg
    refine Sat.bind (bpText_sat hr.run ?_)
    refine Sat.bind (Sat.mono (consumeWhile_ge _ g3) ?_)
    rintro _ s4 ⟨g4, c4, -, -, -⟩
    unfold wsComments
    refine Sat.bind (Sat.mono (consumeWhile_ge _ g4) ?_)
    rintro _ s5 ⟨g5, c5, -, -, -⟩
    refine Sat.bind (restToks_sat g5.g ?_)
    split
    · rename_i hne
      refine Sat.bind (Sat.pwarnE ?_)
      refine Sat.pure ⟨g5.warn hc (one_label ?_), by simp, trivial⟩
      rw [drop_eq_slice]
      apply (hc.wfi.slice g5.le).tokensSpan
      rw [← drop_eq_slice]; intro h0; rw [h0] at hne; simp at hne
    · rename_i hemp
      refine Sat.bind (Sat.get ?_)
      have := drop_isEmpty_true (ts := ts) (c := s5.cur) (by simpa using hemp)
      have := g5.le
      refine Sat.pure ⟨g5, fun _ => by omega, ?_, ?_⟩
      · show OptOK (TextOKO off w) (if _ then none else some _)
        split
        · trivial
        · exact hr.textO
      · intro sp hsp
        split at hsp
        · simp [Ev.srcSpan] at hsp
        · simp only [Ev.srcSpan, Option.some.injEq] at hsp
          subst hsp
          have h1 := hc.wfi.offAt_mono (show s.cur ≤ s2.cur by omega)
          have h2 := hc.wfi.offAt_mono (show s3.cur ≤ s5.cur by omega)
          exact ⟨by omega, by omega⟩

theorem metadataEntry_evO (hc : Ctx off w Pv ts) (h : GE Pv ts e s) :
    Sat (metadataEntry (α := α)) s (fun r s' => GE Pv ts e s' ∧ (r.isSome = true → s'.cur = ts.length) ∧
      CompRetO off w ts s.cur s'.cur r) := by
  unfold metadataEntry
  refine Sat.bind (Sat.mono (consumeK_ge _ h) ?_)
  rintro r1 s1 ⟨g1, h1⟩
  cases r1 with
  | none => exact Sat.pure ⟨g1, by simp, trivial⟩
  | some m =>
    obtain ⟨-, -, c1⟩ := h1
    refine Sat.bind (currentOffset_sat g1.g ?_)
    refine Sat.bind (Sat.mono (untilK_ge _ g1) ?_)
    rintro r2 s2 ⟨g2, h2⟩
    cases r2 with
    | none =>
      unfold bpSpan
      refine Sat.bind (Sat.bind (Sat.get ?_))
      refine tokensSpanP_sat (by rw [g2.g.toks]; exact hc.wfi.ne) ?_
      refine Sat.bind (Sat.pwarnE ?_)
      refine Sat.pure ⟨g2.warn hc (one_label ?_), by simp, trivial⟩
      rw [g2.g.toks]; exact hc.wfi.all
    | some keyT =>
      obtain ⟨c2, hkey, ⟨c, hcl, hck⟩, -⟩ := h2
      have hr : RunIn off w (offAt ts s1.cur) keyT := by rw [hkey]; exact hc.wfi.slice c2
      refine Sat.bind (bpText_sat hr.run ?_)
      refine Sat.bind (Sat.mono (bump_ge g2 hcl (by simpa using hck)) ?_)
      rintro _ s3 ⟨-, g3, c3⟩
      refine Sat.bind (currentOffset_sat g3.g ?_)
      refine Sat.bind (Sat.mono (consumeRest_ge g3) ?_)
      rintro valT s4 ⟨g4, c4, hv⟩
      have hr2 : RunIn off w (offAt ts s3.cur) valT := by rw [hv]; exact hc.wfi.slice g3.le
      refine Sat.bind (bpText_sat hr2.run ?_)
      refine Sat.bind (Sat.get ?_)
      dsimp only
      have hok : EvSpansOKO off w (Ev.metadata (α := α) (buildText (offAt ts s1.cur) keyT)
          (buildText (offAt ts s3.cur) valT)) := by
        refine ⟨hr.textO, hr2.textO, ?_⟩
        have hrg := hr.text_range
        have hrg2 := hr2.text_range
        have e1 : lastStop (offAt ts s1.cur) keyT = offAt ts s2.cur := by rw [hkey]; exact offAt_slice c2
        rw [e1] at hrg
        have h1 := hc.wfi.offAt_mono (show s2.cur ≤ s3.cur by omega)
        omega
      have hin : EvIn ts s.cur s4.cur (Ev.metadata (α := α) (buildText (offAt ts s1.cur) keyT)
          (buildText (offAt ts s3.cur) valT)) := by
        intro sp hsp
        simp only [Ev.srcSpan, Option.some.injEq] at hsp
        subst hsp
        have hrg := hr.text_range
        have hrg2 := hr2.text_range
        have e2 : lastStop (offAt ts s3.cur) valT = offAt ts s4.cur := by
          rw [hv, c4]; exact offAt_slice g3.le
        rw [e2] at hrg2
        have h1 := hc.wfi.offAt_mono (show s.cur ≤ s1.cur by omega)
        exact ⟨by show offAt ts s.cur ≤ (buildText _ keyT).span.start; omega, hrg2.2⟩
      split
      · refine Sat.bind (Sat.perrE ?_)
        exact Sat.pure ⟨g4.err hc (one_label hr.textO.1), fun _ => c4, hok, hin⟩
      · split
        · refine Sat.bind (Sat.pwarnE ?_)
          exact Sat.pure ⟨g4.warn hc (two_labels hr2.textO.1 hr.textO.1), fun _ => c4, hok, hin⟩
        · exact Sat.pure ⟨g4, fun _ => c4, hok, hin⟩

theorem parseMultilineBlock_evO (hw : WFI off w ts) (hz : Boundary off w 0) {b : Nat}
    (h : GE (TopInvO off w b) ts e s) (hb : b ≤ offAt ts s.cur) :
    Sat (parseMultilineBlock (α := α)) s
      (fun _ s' => GE (TopInvO off w (offAt ts ts.length)) ts e s' ∧ s'.cur = ts.length) := by
  unfold parseMultilineBlock
  refine Sat.bind (allToks_sat h.g ?_)
  split
  · refine Sat.bind (Sat.mono (consumeRest_ge h) ?_)
    rintro _ s1 ⟨g1, c1, -⟩
    exact Sat.pure ⟨g1.boundO (Nat.le_trans hb (hw.offAt_mono h.le)), c1⟩
  · refine Sat.bind (peekK_sat h.g ?_)
    split
    · exact parseTextBlock_evO hw h hb
    · exact parseStep_evO hw hz h hb

theorem parseBlock_evO (oldStyle : Bool) (hw : WFI off w ts) (hz : Boundary off w 0) {b : Nat}
    (h : GE (TopInvO off w b) ts e s) (hb : b ≤ offAt ts s.cur) :
    Sat (parseBlock (α := α) oldStyle) s
      (fun _ s' => GE (TopInvO off w (offAt ts ts.length)) ts e s' ∧ s'.cur = ts.length) := by
  have hc := topCtxO (α := α) hw b
  unfold parseBlock
  apply Sat.bind
  apply Sat.mono (Q := fun r s' => GE (TopInvO off w b) ts e s' ∧
    match r with
    | none => s'.cur = s.cur
    | some ev => s'.cur = ts.length ∧ EvSpansOKO off w ev ∧ EvIn ts s.cur ts.length ev)
  · refine Sat.bind (peekK_sat h.g ?_)
    split
    · apply withRecover_sat
      refine Sat.bind (Sat.mono (metadataEntry_evO hc h) ?_)
      rintro r1 s1 ⟨g1, h1, h2⟩
      split
      · refine Sat.bind (Sat.get ?_)
        refine Sat.bind (hasExt_sat g1.g ?_)
        split
        · refine Sat.pure ⟨g1, h1 rfl, h2.1, ?_⟩
          have := h2.2
          rw [h1 rfl] at this
          exact this
        · exact Sat.pure ⟨g1.setCur h.le, rfl⟩
      · exact Sat.pure ⟨g1.setCur h.le, rfl⟩
    · apply withRecover_sat
      refine Sat.mono (sectionP_evO hc h) ?_
      rintro r1 s1 ⟨g1, h1, h2⟩
      cases r1 with
      | none => exact ⟨g1.setCur h.le, rfl⟩
      | some ev =>
        refine ⟨g1, h1 rfl, h2.1, ?_⟩
        have := h2.2
        rw [h1 rfl] at this
        exact this
    · exact Sat.pure ⟨h, rfl⟩
  rintro r s1 ⟨g1, h1⟩
  cases r with
  | some ev =>
    obtain ⟨c1, hok, hin⟩ := h1
    have hbl : b ≤ offAt ts ts.length := Nat.le_trans hb (hw.offAt_mono h.le)
    refine Sat.pushEv ⟨g1.push (g1.evs.push hok hbl ?_), c1⟩
    intro sp hsp
    obtain ⟨h2, h3⟩ := hin sp hsp
    exact ⟨Nat.le_trans hb h2, h3⟩
  | none =>
    dsimp only at h1
    exact parseMultilineBlock_evO hw hz g1 (by rw [h1]; exact hb)

/-- **one block**: if the queue is fine before (`TopInvO` with all content events ending at or before
    the start of the block), it is fine after, with all content events ending at or before the end
    of the block -/
theorem runBlock_evO (cs : CharSpec) (ext : Ext) (oldStyle : Bool) (blk : List Tok) (evs : Array (Ev α))
    (hw : WFI off w blk) (hz : Boundary off w 0) {b : Nat} (hinv : TopInvO off w b evs)
    (hb : b ≤ baseOff blk) :
    TopInvO off w (offAt blk blk.length) (runBlock cs ext oldStyle blk evs none).1 := by
  have g0 : GE (TopInvO off w b) blk ext (⟨blk, 0, ext, cs, evs, none⟩ : BP α) :=
    ⟨⟨rfl, rfl, rfl, Nat.zero_le _⟩, hinv⟩
  have hne : blk.isEmpty = false := by
    have := hw.ne
    cases blk <;> simp_all
  have key : Sat (do
      if blk.isEmpty then panicWith "BlockParser::new: empty tokens"
      parseBlock (α := α) oldStyle
      let s ← get
      if s.cur ≠ s.toks.length then panicWith "Block tokens not parsed") ⟨blk, 0, ext, cs, evs, none⟩
      (fun _ s' => TopInvO off w (offAt blk blk.length) s'.evs) := by
    simp only [hne, Bool.false_eq_true, if_false]
    refine Sat.bind (Sat.mono (parseBlock_evO oldStyle hw hz g0 (by rw [offAt_zero]; exact hb)) ?_)
    rintro _ s1 ⟨g1, c1⟩
    refine Sat.bind (Sat.get ?_)
    have : s1.cur = s1.toks.length := by rw [g1.g.toks]; exact c1
    simp only [this, ne_eq, not_true_eq_false, if_false]
    exact Sat.pure g1.evs
  exact key


/-! ### document level -/

theorem fragO_optOK_imp {β : Type} {p q : β → Prop} (h : ∀ x, p x → q x) : ∀ {o : Option β}, OptOK p o → OptOK q o
  | none, _ => trivial
  | some x, hx => h x hx

theorem LocQOKO.locQOK {q : Loc (PQuantity α)} (h : LocQOKO off w q) : LocQOK off w q :=
  ⟨h.1, h.2.1, fragO_optOK_imp (fun _ => TextOKO.textOK) h.2.2⟩

/-- the strengthened predicate implies the one of Lemmas/SpansEv.lean -/
theorem EvSpansOKO.evSpansOK {ev : Ev α} (h : EvSpansOKO off w ev) : EvSpansOK off w ev := by
  cases ev with
  | frontMatter t => exact TextOKO.textOK h
  | metadata k v => exact ⟨h.1.textOK, h.2.1.textOK, h.2.2⟩
  | «section» n => exact fragO_optOK_imp (fun _ => TextOKO.textOK) h
  | start k => trivial
  | stop k => trivial
  | text t => exact TextOKO.textOK h
  | ingredient i =>
    exact ⟨h.1, h.2.1, h.2.2.1, h.2.2.2.1.textOK, fragO_optOK_imp (fun _ => TextOKO.textOK) h.2.2.2.2.1,
      fragO_optOK_imp (fun _ => LocQOKO.locQOK) h.2.2.2.2.2.1, fragO_optOK_imp (fun _ => TextOKO.textOK) h.2.2.2.2.2.2⟩
  | cookware c =>
    exact ⟨h.1, h.2.1, h.2.2.1.textOK, fragO_optOK_imp (fun _ => TextOKO.textOK) h.2.2.2.1, h.2.2.2.2.1,
      fragO_optOK_imp (fun _ => TextOKO.textOK) h.2.2.2.2.2⟩
  | timer t => exact ⟨h.1, fragO_optOK_imp (fun _ => TextOKO.textOK) h.2.1, fragO_optOK_imp (fun _ => LocQOKO.locQOK) h.2.2⟩
  | error d => exact h
  | warning d => exact h

theorem topInvO_empty (b : Nat) : TopInvO (α := α) off w b #[] :=
  ⟨by simp, by simp [SrcOrdered], by simp⟩

theorem foldl_runBlock_evO (cs : CharSpec) (ext : Ext) (oldStyle : Bool) (blocks : List (List Tok))
    (evs0 : Array (Ev α)) {b : Nat} (hz : Boundary off w 0) (hinv : TopInvO off w b evs0)
    (hbl : BlocksIn off w b blocks) :
    ∃ b', TopInvO off w b'
      (blocks.foldl (fun acc blk => runBlock (α := α) cs ext oldStyle blk acc.1 acc.2) (evs0, none)).1 := by
  induction blocks generalizing evs0 b with
  | nil => exact ⟨b, hinv⟩
  | cons blk bs ih =>
    rw [List.foldl_cons]
    obtain ⟨hw, hb, hrest⟩ := hbl
    have h1 := runBlock_no_panic (α := α) cs ext oldStyle blk evs0 hw.wf
    have e1 : runBlock (α := α) cs ext oldStyle blk evs0 none =
        ((runBlock (α := α) cs ext oldStyle blk evs0 none).1, none) := by
      apply Prod.ext
      · rfl
      · exact h1
    show ∃ b', TopInvO off w b' (bs.foldl _ (runBlock (α := α) cs ext oldStyle blk evs0 none)).1
    rw [e1]
    exact ih _ (runBlock_evO cs ext oldStyle blk evs0 hw hz hinv hb) hrest

/-- **the whole document**: every event has good spans with respect to the input and texts whose fragments are
    faithful, ordered, disjoint and non-empty -/
theorem pullEvents_topInvO (cs : CharSpec) (ext : Ext) (input : List Char) :
    ∃ b, TopInvO 0 input b (pullEvents (α := α) cs ext input).1 := by
  have hz : Boundary 0 input 0 := Boundary.first
  have hfm := frontMatterOffsetsOK cs input
  unfold pullEvents
  cases hp : parseFrontmatter cs input with
  | none =>
    simp only
    apply foldl_runBlock_evO cs ext true _ _ hz (topInvO_empty 0)
    apply allBlocks_blocksIn _ _ 0 _ (Nat.le_refl _)
    unfold lex
    exact ⟨⟨lexFrom_chain cs 0 input, lexFrom_escapedOK cs 0 input⟩,
      ⟨[], [], by simp [lexFrom_tile], by simp [utf8Len]⟩⟩
  | some fm =>
    simp only
    obtain ⟨⟨pre, h1, h2⟩, h3⟩ := hfm fm hp
    apply foldl_runBlock_evO cs ext false _ _ hz (b := 0)
    · exact (topInvO_empty 0).pushNone (fragO_fromStr _ _ _ _ h3) rfl
    · apply allBlocks_blocksIn _ _ fm.cookOffset _ (Nat.zero_le _)
      exact ⟨⟨lexFrom_chain cs _ _, lexFrom_escapedOK cs _ _⟩,
        ⟨pre, [], by simp [lexFrom_tile, h1], by simp [h2]⟩⟩

/-! ### the metadata-only stream -/

theorem runMetaBlock_evO (cs : CharSpec) (ext : Ext) (blk : List Tok) (evs : Array (Ev α))
    (hw : WFI off w blk) {b : Nat} (hinv : TopInvO off w b evs) (hb : b ≤ baseOff blk) :
    TopInvO off w (offAt blk blk.length) (runMetaBlock cs ext blk evs none).1 := by
  have hc := topCtxO (α := α) hw b
  have g0 : GE (TopInvO off w b) blk ext (⟨blk, 0, ext, cs, evs, none⟩ : BP α) :=
    ⟨⟨rfl, rfl, rfl, Nat.zero_le _⟩, hinv⟩
  have hne : blk.isEmpty = false := by
    have := hw.ne
    cases blk <;> simp_all
  have hbl : b ≤ offAt blk blk.length := by
    have := hw.offAt_mono (Nat.zero_le blk.length)
    rw [offAt_zero] at this; omega
  have key : Sat (do
      if blk.isEmpty then panicWith "BlockParser::new: empty tokens"
      match ← metadataEntry (α := α) with
      | some ev =>
        pushEv ev
        let s ← get
        if s.cur ≠ s.toks.length then panicWith "Block tokens not parsed"
      | none => pure ()) ⟨blk, 0, ext, cs, evs, none⟩
      (fun _ s' => TopInvO off w (offAt blk blk.length) s'.evs) := by
    simp only [hne, Bool.false_eq_true, if_false]
    refine Sat.bind (Sat.mono (metadataEntry_evO hc g0) ?_)
    rintro r s1 ⟨g1, c1, hr⟩
    cases r with
    | none => exact Sat.pure (g1.evs.mono hbl)
    | some ev =>
      refine Sat.bind (Sat.pushEv ?_)
      refine Sat.bind (Sat.get ?_)
      have : s1.cur = s1.toks.length := by rw [g1.g.toks]; exact c1 rfl
      simp only [this, ne_eq, not_true_eq_false, if_false]
      refine Sat.pure (g1.evs.push hr.1 hbl ?_)
      intro sp hsp
      obtain ⟨h2, h3⟩ := hr.2 sp hsp
      rw [c1 rfl] at h3
      refine ⟨?_, h3⟩
      have : offAt blk 0 ≤ sp.start := h2
      rw [offAt_zero] at this; omega
  exact key

theorem foldl_runMetaBlock_evO (cs : CharSpec) (ext : Ext) (blocks : List (List Tok))
    (evs0 : Array (Ev α)) {b : Nat} (hinv : TopInvO off w b evs0) (hbl : BlocksIn off w b blocks) :
    ∃ b', TopInvO off w b'
      (blocks.foldl (fun acc blk => runMetaBlock (α := α) cs ext blk acc.1 acc.2) (evs0, none)).1 := by
  induction blocks generalizing evs0 b with
  | nil => exact ⟨b, hinv⟩
  | cons blk bs ih =>
    rw [List.foldl_cons]
    obtain ⟨hw, hb, hrest⟩ := hbl
    have h1 := runMetaBlock_no_panic (α := α) cs ext blk evs0 hw.wf
    have e1 : runMetaBlock (α := α) cs ext blk evs0 none =
        ((runMetaBlock (α := α) cs ext blk evs0 none).1, none) := by
      apply Prod.ext
      · rfl
      · exact h1
    show ∃ b', TopInvO off w b' (bs.foldl _ (runMetaBlock (α := α) cs ext blk evs0 none)).1
    rw [e1]
    exact ih _ (runMetaBlock_evO cs ext blk evs0 hw hinv hb) hrest

theorem pullMetaEvents_topInvO (cs : CharSpec) (ext : Ext) (input : List Char) :
    ∃ b, TopInvO 0 input b (pullMetaEvents (α := α) cs ext input).1 := by
  unfold pullMetaEvents
  cases hp : parseFrontmatter cs input with
  | some fm =>
    simp only
    exact ⟨0, (topInvO_empty 0).pushNone (fragO_fromStr _ _ _ _ (frontMatterOffsetsOK cs input fm hp).2) rfl⟩
  | none =>
    simp only
    apply foldl_runMetaBlock_evO cs ext _ _ (topInvO_empty 0)
    apply metaBlocks_blocksIn _ _ _ 0 _ (Nat.le_refl _)
    unfold lex
    exact ⟨⟨lexFrom_chain cs 0 input, lexFrom_escapedOK cs 0 input⟩,
      ⟨[], [], by simp [lexFrom_tile], by simp [utf8Len]⟩⟩

/-! ### reading `TextOrd` -/

/-- every fragment of an ordered text lies inside the span of the text -/
theorem TextOrd.frag_in_span {t : Text} (h : TextOrd t) : ∀ f ∈ t.frags, t.span.start ≤ f.offset ∧ f.stop ≤ t.span.stop := by
  intro f hf
  unfold Text.span
  cases hfr : t.frags with
  | nil => rw [hfr] at hf; cases hf
  | cons f0 fs =>
    simp only
    have hp := h.1
    rw [hfr] at hp hf
    have hoff : ∀ g : Frag, g.offset ≤ g.stop := fun g => by simp [Frag.stop]
    -- the last fragment
    have hlast : ∀ g ∈ f0 :: fs, g.stop ≤ (((f0 :: fs).getLast?).getD f0).stop := by
      intro g hg
      cases hl : (f0 :: fs).getLast? with
      | none => simp at hl
      | some l =>
        simp only [Option.getD_some]
        obtain ⟨ys, hys⟩ : ∃ ys, f0 :: fs = ys ++ [l] := by
          have := List.getLast?_eq_some_iff.1 hl
          exact this
        rw [hys] at hp hg
        rw [List.pairwise_append] at hp
        simp only [List.mem_append, List.mem_singleton] at hg
        rcases hg with hg | rfl
        · exact Nat.le_trans (hp.2.2 g hg l (by simp)) (hoff l)
        · exact Nat.le_refl _
    refine ⟨?_, hlast f hf⟩
    simp only [List.mem_cons] at hf
    rcases hf with rfl | hf
    · exact Nat.le_refl _
    · exact Nat.le_trans (hoff f0) ((List.pairwise_cons.1 hp).1 f hf)

end Cook
