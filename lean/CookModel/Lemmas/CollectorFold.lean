import CookModel.Lemmas.CollectorTable
/-
  The invariant of the collector state (C06) and its preservation by every event.
-/
namespace Cook
variable {α : Type} [Arith α]
set_option linter.unusedSectionVars false

/-- the two states agree on the fields the invariant talks about -/
def CoreEq (s s' : Col α) : Prop :=
  s'.sections = s.sections ∧ s'.cur = s.cur ∧ s'.ingredients = s.ingredients ∧ s'.cookware = s.cookware ∧
  s'.timers = s.timers ∧ s'.inlineQ = s.inlineQ ∧ s'.locIngr = s.locIngr ∧ s'.locCw = s.locCw ∧
  s'.stepCounter = s.stepCounter ∧ (s'.block = s.block ∨ ∃ t, s'.block = some (.text t))

theorem CoreEq.refl (s : Col α) : CoreEq s s := ⟨rfl, rfl, rfl, rfl, rfl, rfl, rfl, rfl, rfl, Or.inl rfl⟩

theorem CoreEq.trans {a b c : Col α} (h1 : CoreEq a b) (h2 : CoreEq b c) : CoreEq a c := by
  obtain ⟨a1, a2, a3, a4, a5, a6, a7, a8, a9, a10⟩ := h1
  obtain ⟨b1, b2, b3, b4, b5, b6, b7, b8, b9, b10⟩ := h2
  refine ⟨b1.trans a1, b2.trans a2, b3.trans a3, b4.trans a4, b5.trans a5, b6.trans a6, b7.trans a7,
    b8.trans a8, b9.trans a9, ?_⟩
  rcases b10 with b10 | ⟨t, ht⟩
  · rcases a10 with a10 | ⟨t, ht⟩
    · exact Or.inl (b10.trans a10)
    · exact Or.inr ⟨t, b10.trans ht⟩
  · exact Or.inr ⟨t, ht⟩

/-- `m` changes none of the fields the invariant talks about -/
structure CoreOnly {β : Type} (m : A α β) : Prop where
  out : ∀ s, CoreEq s (m s).2

theorem DiagOnly.coreOnly {β : Type} {m : A α β} (h : DiagOnly m) : CoreOnly m := by
  constructor
  intro s
  obtain ⟨d, p, hp⟩ := h.out s
  rw [hp]
  exact CoreEq.refl s

theorem CoreOnly.pure {β : Type} (a : β) : CoreOnly (α := α) (Pure.pure a : A α β) := ⟨fun s => CoreEq.refl s⟩
theorem CoreOnly.get : CoreOnly (α := α) (get : A α (Col α)) := ⟨fun s => CoreEq.refl s⟩
theorem CoreOnly.bind {β γ : Type} {m : A α β} {f : β → A α γ} (hm : CoreOnly m) (hf : ∀ a, CoreOnly (f a)) :
    CoreOnly (m >>= f) := ⟨fun s => (hm.out s).trans ((hf (m s).1).out (m s).2)⟩
theorem CoreOnly.ite {β : Type} {c : Prop} [Decidable c] {a b : A α β} (ha : CoreOnly a) (hb : CoreOnly b) :
    CoreOnly (if c then a else b) := by
  split <;> assumption
theorem CoreOnly.modify (f : Col α → Col α) (hf : ∀ s, CoreEq s (f s)) : CoreOnly (modify f : A α PUnit) :=
  ⟨fun s => hf s⟩

syntax "core_leaf" : tactic
macro_rules | `(tactic| core_leaf) => `(tactic| first
  | with_reducible exact CoreOnly.pure _
  | with_reducible exact CoreOnly.get
  | with_reducible exact DiagOnly.coreOnly (DiagOnly.apanic _)
  | with_reducible exact DiagOnly.coreOnly (DiagOnly.aerr _ _)
  | with_reducible exact DiagOnly.coreOnly (DiagOnly.awarn _ _)
  | ((with_reducible apply CoreOnly.modify); intro s; exact ⟨rfl, rfl, rfl, rfl, rfl, rfl, rfl, rfl, rfl, Or.inl rfl⟩)
  | ((with_reducible apply CoreOnly.modify); intro s; exact ⟨rfl, rfl, rfl, rfl, rfl, rfl, rfl, rfl, rfl, Or.inr ⟨_, rfl⟩⟩)
  | assumption)

macro "core_only" : tactic => `(tactic|
  repeat (first
    | core_leaf
    | with_reducible apply CoreOnly.bind
    | with_reducible apply CoreOnly.ite
    | intro _
    | dsimp only
    | split))




theorem timeOverrideCheck_coreOnly (k : StdKey) : CoreOnly (timeOverrideCheck (α := α) k) := by
  unfold timeOverrideCheck
  apply CoreOnly.bind
  · exact CoreOnly.get
  intro s
  dsimp only
  apply CoreOnly.ite
  · apply CoreOnly.bind
    · core_leaf
    intro _
    apply CoreOnly.bind
    · core_leaf
    intro _
    apply CoreOnly.ite
    · core_leaf
    · core_leaf
  · apply CoreOnly.bind
    · core_leaf
    intro _
    apply CoreOnly.ite
    · core_leaf
    · core_leaf
macro_rules | `(tactic| core_leaf) => `(tactic| with_reducible exact timeOverrideCheck_coreOnly _)

theorem metadataA_coreOnly (env : Env) (k v : Text) : CoreOnly (metadataA (α := α) env k v) := by
  unfold metadataA
  core_only

/-! ### the invariant -/

def ItemOK (ni nc nt nq : Nat) : Item → Prop
  | .text _ => True
  | .ingredient i => i < ni
  | .cookware i => i < nc
  | .timer i => i < nt
  | .inlineQuantity i => i < nq

theorem ItemOK.mono {ni nc nt nq ni' nc' nt' nq' : Nat} {it : Item} (h : ItemOK ni nc nt nq it)
    (h1 : ni ≤ ni') (h2 : nc ≤ nc') (h3 : nt ≤ nt') (h4 : nq ≤ nq') : ItemOK ni' nc' nt' nq' it := by
  cases it <;> simp only [ItemOK] at h ⊢ <;> omega

/-- a pushed content is not empty and its items address existing components -/
def ContentOK (ni nc nt nq : Nat) (ct : Content) : Prop :=
  ct ≠ .text [] ∧ ∀ st, ct = .step st → st.items ≠ [] ∧ ∀ it ∈ st.items, ItemOK ni nc nt nq it

theorem ContentOK.mono {ni nc nt nq ni' nc' nt' nq' : Nat} {ct : Content} (h : ContentOK ni nc nt nq ct)
    (h1 : ni ≤ ni') (h2 : nc ≤ nc') (h3 : nt ≤ nt') (h4 : nq ≤ nq') : ContentOK ni' nc' nt' nq' ct :=
  ⟨h.1, fun st hst => ⟨(h.2 st hst).1, fun it hit => ((h.2 st hst).2 it hit).mono h1 h2 h3 h4⟩⟩

def stepNum : Content → Option Nat
  | .step st => some st.number
  | .text _ => none

/-- the steps of a section are numbered 1, 2, … -/
def Numbered (content : List Content) : Prop :=
  content.filterMap stepNum = List.range' 1 (content.filter Content.isStep).length

theorem Numbered.nil : Numbered [] := rfl

theorem Numbered.push_text {content : List Content} (h : Numbered content) (t : Str) :
    Numbered (content ++ [.text t]) := by
  unfold Numbered at h ⊢
  simp only [List.filterMap_append, List.filter_append, List.filterMap_cons, stepNum, List.filterMap_nil,
    List.append_nil, List.filter_cons, Content.isStep, Bool.false_eq_true, if_false, List.filter_nil]
  exact h

theorem Numbered.push_step {content : List Content} (h : Numbered content) (items : List Item) :
    Numbered (content ++ [.step ⟨items, (content.filter Content.isStep).length + 1⟩]) := by
  unfold Numbered at h ⊢
  simp only [List.filterMap_append, List.filter_append, List.filterMap_cons, stepNum, List.filterMap_nil,
    List.filter_cons, Content.isStep, if_true, List.filter_nil, List.length_append, List.length_cons,
    List.length_nil, h]
  simp only [Nat.zero_add, List.range'_concat, Nat.one_mul, Nat.add_comm]

structure Inv (env : Env) (s : Col α) : Prop where
  locI : s.locIngr.size = s.ingredients.size
  locC : s.locCw.size = s.cookware.size
  itab : IngrTable env s.ingredients
  ctab : CwTable env s.cookware
  timers : ∀ t ∈ s.timers.toList, t.name.isSome = true ∨ t.quantity.isSome = true
  secs : ∀ sec ∈ s.sections, ¬ sec.isEmpty = true ∧ Numbered sec.content ∧
    ∀ ct ∈ sec.content, ContentOK s.ingredients.size s.cookware.size s.timers.size s.inlineQ.size ct
  cur : Numbered s.cur.content ∧
    ∀ ct ∈ s.cur.content, ContentOK s.ingredients.size s.cookware.size s.timers.size s.inlineQ.size ct
  counter : s.stepCounter = (s.cur.content.filter Content.isStep).length + 1
  blk : ∀ items, s.block = some (.step items) →
    ∀ it ∈ items, ItemOK s.ingredients.size s.cookware.size s.timers.size s.inlineQ.size it

theorem Inv.init (env : Env) : Inv (α := α) env {} where
  locI := rfl
  locC := rfl
  itab := IngrTable.empty env
  ctab := CwTable.empty env
  timers := fun t h => by simp at h
  secs := fun sec h => by simp at h
  cur := ⟨Numbered.nil, fun ct h => by simp at h⟩
  counter := rfl
  blk := fun items h => by simp at h

theorem Inv.congr {env : Env} {s s' : Col α} (h : CoreEq s s') (hi : Inv env s) : Inv env s' := by
  obtain ⟨h1, h2, h3, h4, h5, h6, h7, h8, h9, h10⟩ := h
  constructor
  · rw [h7, h3]; exact hi.locI
  · rw [h8, h4]; exact hi.locC
  · rw [h3]; exact hi.itab
  · rw [h4]; exact hi.ctab
  · rw [h5]; exact hi.timers
  · rw [h1, h3, h4, h5, h6]; exact hi.secs
  · rw [h2, h3, h4, h5, h6]; exact hi.cur
  · rw [h9, h2]; exact hi.counter
  · rw [h3, h4, h5, h6]
    intro items hb
    rcases h10 with h10 | ⟨t, ht⟩
    · exact hi.blk items (h10 ▸ hb)
    · rw [ht] at hb; cases hb

/-- the state keeps its sections and current section; the tables only grow -/
theorem Inv.grow {env : Env} {s s' : Col α} (hi : Inv env s)
    (hsec : s'.sections = s.sections) (hcur : s'.cur = s.cur) (hctr : s'.stepCounter = s.stepCounter)
    (hni : s.ingredients.size ≤ s'.ingredients.size) (hnc : s.cookware.size ≤ s'.cookware.size)
    (hnt : s.timers.size ≤ s'.timers.size) (hnq : s.inlineQ.size ≤ s'.inlineQ.size)
    (locI : s'.locIngr.size = s'.ingredients.size) (locC : s'.locCw.size = s'.cookware.size)
    (itab : IngrTable env s'.ingredients) (ctab : CwTable env s'.cookware)
    (timers : ∀ t ∈ s'.timers.toList, t.name.isSome = true ∨ t.quantity.isSome = true)
    (blk : ∀ items, s'.block = some (.step items) →
      ∀ it ∈ items, ItemOK s'.ingredients.size s'.cookware.size s'.timers.size s'.inlineQ.size it) :
    Inv env s' where
  locI := locI
  locC := locC
  itab := itab
  ctab := ctab
  timers := timers
  secs := by
    rw [hsec]
    intro sec hsec
    obtain ⟨h1, h2, h3⟩ := hi.secs sec hsec
    exact ⟨h1, h2, fun ct hct => (h3 ct hct).mono hni hnc hnt hnq⟩
  cur := by
    rw [hcur]
    exact ⟨hi.cur.1, fun ct hct => (hi.cur.2 ct hct).mono hni hnc hnt hnq⟩
  counter := by rw [hctr, hcur]; exact hi.counter
  blk := blk

/-- events the parser can produce: intermediate data comes with the REF modifier, a timer has a name
    or a quantity -/
def EvOK : Ev α → Prop
  | .ingredient i => i.val.inter.isSome = true → i.val.modifiers.val.contains Modifiers.REF = true
  | .timer t => t.val.name.isSome = true ∨ t.val.quantity.isSome = true
  | _ => True

/-! ### step text -/

theorem inlineLoop_spec (env : Env) (fuel : Nat) (hay : Str) (items : List Item) (iq : Array (Quantity (Value α))) :
    iq.size ≤ (inlineLoop env fuel hay items iq).2.size ∧
    ∀ it ∈ (inlineLoop env fuel hay items iq).1, it ∈ items ∨ (∃ t, it = .text t) ∨
      (∃ i, it = .inlineQuantity i ∧ i < (inlineLoop env fuel hay items iq).2.size) := by
  induction fuel generalizing hay items iq with
  | zero =>
    unfold inlineLoop
    exact ⟨Nat.le_refl _, fun it h => Or.inl h⟩
  | succ fuel ih =>
    unfold inlineLoop
    split
    · rename_i hit _
      dsimp only
      have := ih hit.after
        ((if hit.before.isEmpty = true then items else items ++ [Item.text hit.before]) ++ [Item.inlineQuantity iq.size])
        (iq.push hit.q)
      rw [Array.size_push] at this
      refine ⟨by omega, ?_⟩
      intro it hit'
      rcases this.2 it hit' with h | h | h
      · simp only [List.mem_append, List.mem_singleton] at h
        rcases h with h | h
        · split at h
          · exact Or.inl h
          · simp only [List.mem_append, List.mem_singleton] at h
            rcases h with h | h
            · exact Or.inl h
            · exact Or.inr (Or.inl ⟨_, h⟩)
        · exact Or.inr (Or.inr ⟨_, h, by omega⟩)
      · exact Or.inr (Or.inl h)
      · exact Or.inr (Or.inr h)
    · refine ⟨Nat.le_refl _, ?_⟩
      intro it hit'
      split at hit'
      · exact Or.inl hit'
      · simp only [List.mem_append, List.mem_singleton] at hit'
        rcases hit' with h | h
        · exact Or.inl h
        · exact Or.inr (Or.inl ⟨_, h⟩)

theorem inStepTextStep_inv (env : Env) (t : Text) (items : List Item) (s : Col α) (hi : Inv env s)
    (hb : s.block = some (.step items)) : Inv env (inStepTextStep env t items s).2 := by
  unfold inStepTextStep
  simp +instances only [A_bind, A_get, A_ite, A_modify, A_pure, awarn]
  split
  · split
    · refine Inv.congr (s := s) ?_ hi; exact ⟨rfl, rfl, rfl, rfl, rfl, rfl, rfl, rfl, rfl, Or.inl rfl⟩
    · exact hi
  · split
    · have hl := inlineLoop_spec env (t.text.length + 1) t.text items s.inlineQ
      refine hi.grow rfl rfl rfl (Nat.le_refl _) (Nat.le_refl _) (Nat.le_refl _) hl.1 hi.locI hi.locC hi.itab hi.ctab
        hi.timers ?_
      intro items' hb' it hit
      simp only [Option.some.injEq, BlockBuf.step.injEq] at hb'
      subst hb'
      rcases hl.2 it hit with h | ⟨tx, h⟩ | ⟨i, h, hlt⟩
      · exact (hi.blk items hb it h).mono (Nat.le_refl _) (Nat.le_refl _) (Nat.le_refl _) hl.1
      · rw [h]; trivial
      · rw [h]; exact hlt
    · refine hi.grow rfl rfl rfl (Nat.le_refl _) (Nat.le_refl _) (Nat.le_refl _) (Nat.le_refl _) hi.locI hi.locC
        hi.itab hi.ctab hi.timers ?_
      intro items' hb' it hit
      simp only [Option.some.injEq, BlockBuf.step.injEq] at hb'
      subst hb'
      simp only [List.mem_append, List.mem_singleton] at hit
      rcases hit with h | h
      · exact hi.blk items hb it h
      · rw [h]; trivial

theorem inStepText_inv (env : Env) (t : Text) (s : Col α) (hi : Inv env s) : Inv env (inStepText env t s).2 := by
  unfold inStepText
  simp +instances only [A_bind, A_get]
  cases hb : s.block with
  | none =>
    simp only []
    exact hi.congr ((DiagOnly.apanic _).coreOnly.out s)
  | some buf =>
    cases buf with
    | step items => simp only []; exact inStepTextStep_inv env t items s hi hb
    | text b =>
      simp only [A_modify]
      refine Inv.congr (s := s) ?_ hi; exact ⟨rfl, rfl, rfl, rfl, rfl, rfl, rfl, rfl, rfl, Or.inr ⟨_, rfl⟩⟩

/-! ### components -/

theorem pushItem_step (it : Item) (items : List Item) (s : Col α) (hb : s.block = some (.step items)) :
    pushItem it s = (⟨⟩, { s with block := some (.step (items ++ [it])) }) := by
  unfold pushItem
  simp +instances only [A_bind, A_get, hb, A_set]

theorem pushItem_step' (it : Item) (items : List Item) (s s' : Col α) (hs : s'.block = s.block)
    (hb : s.block = some (.step items)) :
    pushItem it s' = (⟨⟩, { s' with block := some (.step (items ++ [it])) }) :=
  pushItem_step it items s' (hs.trans hb)

theorem inStepComponent_inv (env : Env) (input : Str) (ev : Ev α) (items : List Item) (s : Col α) (hi : Inv env s)
    (hb : s.block = some (.step items)) (hev : EvOK ev) : Inv env (inStepComponent env input ev s).2 := by
  unfold inStepComponent
  have hpanic : Inv env (apanic "Unexpected event in step" s).2 := hi.congr ((DiagOnly.apanic _).coreOnly.out s)
  cases ev with
  | ingredient li =>
    simp only [A_bind]
    obtain ⟨dg, p, ings, igr, h1, h2, h3⟩ := ingredientA_spec env input li s hi.locI hi.itab.nonREF_def hev
    have hblk : (ingredientA env input li s).2.block = s.block := by rw [h1]
    rw [pushItem_step' _ items s (ingredientA env input li s).2 hblk hb, h1]
    simp only []
    refine hi.grow rfl rfl rfl ?_ (Nat.le_refl _) (Nat.le_refl _) (Nat.le_refl _) ?_ hi.locC
      (hi.itab.step ings igr h3) hi.ctab hi.timers ?_
    · simp only [Array.size_push, h2]; omega
    · simp only [Array.size_push, h2, hi.locI]
    · intro items' hb' it hit
      simp only [Option.some.injEq, BlockBuf.step.injEq] at hb'
      subst hb'
      simp only [List.mem_append, List.mem_singleton] at hit
      rcases hit with h | h
      · exact (hi.blk items hb it h).mono (by simp only [Array.size_push, h2]; omega) (Nat.le_refl _)
          (Nat.le_refl _) (Nat.le_refl _)
      · rw [h]; simp only [ItemOK, Array.size_push, h2]; omega
  | cookware lc =>
    simp only [A_bind]
    obtain ⟨dg, p, cws, cw, h1, h2, h3⟩ := cookwareA_spec env input lc s hi.locC hi.ctab.nonREF_def
    have hblk : (cookwareA env input lc s).2.block = s.block := by rw [h1]
    rw [pushItem_step' _ items s (cookwareA env input lc s).2 hblk hb, h1]
    simp only []
    refine hi.grow rfl rfl rfl (Nat.le_refl _) ?_ (Nat.le_refl _) (Nat.le_refl _) hi.locI ?_
      hi.itab (hi.ctab.step cws cw h3) hi.timers ?_
    · simp only [Array.size_push, h2]; omega
    · simp only [Array.size_push, h2, hi.locC]
    · intro items' hb' it hit
      simp only [Option.some.injEq, BlockBuf.step.injEq] at hb'
      subst hb'
      simp only [List.mem_append, List.mem_singleton] at hit
      rcases hit with h | h
      · exact (hi.blk items hb it h).mono (Nat.le_refl _) (by simp only [Array.size_push, h2]; omega)
          (Nat.le_refl _) (Nat.le_refl _)
      · rw [h]; simp only [ItemOK, Array.size_push, h2]; omega
  | timer lt =>
    simp only [A_bind]
    obtain ⟨dg, p, tm, h1, h2, h3⟩ := timerA_spec env lt s
    have hblk : (timerA env lt s).2.block = s.block := by rw [h1]
    rw [pushItem_step' _ items s (timerA env lt s).2 hblk hb, h1]
    simp only []
    refine hi.grow rfl rfl rfl (Nat.le_refl _) (Nat.le_refl _) ?_ (Nat.le_refl _) hi.locI hi.locC
      hi.itab hi.ctab ?_ ?_
    · simp only [Array.size_push]; omega
    · intro t ht
      simp only [Array.toList_push, List.mem_append, List.mem_singleton] at ht
      rcases ht with ht | ht
      · exact hi.timers t ht
      · rw [ht, h2, h3]; exact hev
    · intro items' hb' it hit
      simp only [Option.some.injEq, BlockBuf.step.injEq] at hb'
      subst hb'
      simp only [List.mem_append, List.mem_singleton] at hit
      rcases hit with h | h
      · exact (hi.blk items hb it h).mono (Nat.le_refl _) (Nat.le_refl _)
          (by simp only [Array.size_push]; omega) (Nat.le_refl _)
      · rw [h]; simp only [ItemOK, Array.size_push]; omega
  | frontMatter _ => exact hpanic
  | metadata _ _ => exact hpanic
  | «section» _ => exact hpanic
  | start _ => exact hpanic
  | stop _ => exact hpanic
  | text _ => exact hpanic
  | error _ => exact hpanic
  | warning _ => exact hpanic

theorem inTextComponent_coreOnly (input : Str) (ev : Ev α) (buf : Str) : CoreOnly (inTextComponent input ev buf) := by
  unfold inTextComponent
  core_only

theorem inBlockComponent_inv (env : Env) (input : Str) (ev : Ev α) (s : Col α) (hi : Inv env s) (hev : EvOK ev) :
    Inv env (inBlockComponent env input ev s).2 := by
  unfold inBlockComponent
  simp +instances only [A_bind, A_get]
  cases hb : s.block with
  | none =>
    simp only []
    exact hi.congr ((DiagOnly.apanic _).coreOnly.out s)
  | some buf =>
    cases buf with
    | step items => simp only []; exact inStepComponent_inv env input ev items s hi hb hev
    | text b => simp only []; exact hi.congr ((inTextComponent_coreOnly input ev b).out s)

/-! ### end of a block -/

theorem endBlockContent_diagOnly (kind : BlockKind) : DiagOnly (endBlockContent (α := α) kind) := by
  unfold endBlockContent
  diag_only

theorem A_if_then_fst {β : Type} (c : Prop) [Decidable c] (m : A α Unit) (x : β) (s : Col α) :
    ((if c then (m >>= fun _ => pure x) else pure x : A α β) s).1 = x := by
  split <;> rfl

theorem endBlockContent_val (kind : BlockKind) (s : Col α) :
    (endBlockContent kind s).1 = match s.block with
      | some (.step items) => some (Content.step ⟨items, s.stepCounter⟩)
      | some (.text t) => some (Content.text t)
      | none => none := by
  unfold endBlockContent
  simp +instances only [A_bind, A_get]
  cases hb : s.block with
  | none => rfl
  | some buf =>
    cases buf with
    | step items => exact A_if_then_fst _ _ _ _
    | text b => exact A_if_then_fst _ _ _ _

/-- pushing a non-empty content whose items are in range, numbered with the step counter -/
theorem Inv.pushContent {env : Env} {s : Col α} (hi : Inv env s) (c : Content) (dg : Array Diag) (p : Option String)
    (hc : ContentOK s.ingredients.size s.cookware.size s.timers.size s.inlineQ.size c)
    (hn : ∀ st, c = .step st → st.number = s.stepCounter) :
    Inv env { s with diags := dg, panic := p, block := none,
                     stepCounter := if c.isStep = true then s.stepCounter + 1 else s.stepCounter,
                     cur := { s.cur with content := s.cur.content ++ [c] } } where
  locI := hi.locI
  locC := hi.locC
  itab := hi.itab
  ctab := hi.ctab
  timers := hi.timers
  secs := hi.secs
  blk := fun items h => by cases h
  cur := by
    refine ⟨?_, ?_⟩
    · cases c with
      | text t => exact hi.cur.1.push_text t
      | step st =>
        have := hi.cur.1.push_step st.items
        rw [← hi.counter, ← hn st rfl] at this
        exact this
    · intro ct hct
      simp only [List.mem_append, List.mem_singleton] at hct
      rcases hct with h | h
      · exact hi.cur.2 ct h
      · rw [h]; exact hc
  counter := by
    cases c with
    | text t =>
      simp only [Content.isStep, Bool.false_eq_true, if_false, List.filter_append, List.filter_cons, List.filter_nil,
        List.append_nil]
      exact hi.counter
    | step st =>
      simp only [Content.isStep, if_true, List.filter_append, List.filter_cons, List.filter_nil,
        List.length_append, List.length_cons, List.length_nil]
      have := hi.counter
      omega

theorem endBlock_inv (env : Env) (kind : BlockKind) (s : Col α) (hi : Inv env s) : Inv env (endBlock kind s).2 := by
  unfold endBlock
  simp +instances only [A_bind, A_modify]
  obtain ⟨d, p, h⟩ := (endBlockContent_diagOnly kind).out s
  have hv := endBlockContent_val kind s
  have hplain : ∀ (d' : Array Diag) (p' : Option String), Inv env { s with diags := d', panic := p', block := none } :=
    fun d' p' => hi.grow rfl rfl rfl (Nat.le_refl _) (Nat.le_refl _) (Nat.le_refl _) (Nat.le_refl _)
      hi.locI hi.locC hi.itab hi.ctab hi.timers (fun items hb => by cases hb)
  rw [hv]
  cases hb : s.block with
  | none =>
    simp only [A_pure, h]
    exact hplain d p
  | some buf =>
    cases buf with
    | step items =>
      simp only []
      unfold pushContent
      simp +instances only [A_bind, A_get, A_ite, A_modify, A_pure, h]
      split
      · rename_i hcond
        simp only [Bool.and_eq_true, Bool.not_eq_true', Content.isEmptyContent, List.isEmpty_eq_false_iff] at hcond
        refine hi.pushContent (.step ⟨items, s.stepCounter⟩) d p ⟨(by intro hc; cases hc), ?_⟩ ?_
        · intro st hst
          cases hst
          exact ⟨hcond.2, hi.blk items hb⟩
        · intro st hst; cases hst; rfl
      · exact hplain d p
    | text t =>
      simp only []
      unfold pushContent
      simp +instances only [A_bind, A_get, A_ite, A_modify, A_pure, h]
      split
      · rename_i hcond
        simp only [Bool.and_eq_true, Bool.not_eq_true', Content.isEmptyContent, List.isEmpty_eq_false_iff] at hcond
        refine hi.pushContent (.text t) d p ⟨?_, ?_⟩ ?_
        · intro hc; cases hc; exact hcond.2 rfl
        · intro st hst; cases hst
        · intro st hst; cases hst
      · exact hplain d p

/-! ### every event -/

theorem processEvent_inv (env : Env) (input : Str) (ev : Ev α) (s : Col α) (hi : Inv env s) (hev : EvOK ev) :
    Inv env (processEvent env input ev s).2 := by
  cases ev with
  | frontMatter t =>
    simp only [processEvent, A_modify]
    refine Inv.congr (s := s) ?_ hi; exact ⟨rfl, rfl, rfl, rfl, rfl, rfl, rfl, rfl, rfl, Or.inl rfl⟩
  | metadata k v =>
    simp only [processEvent]
    exact hi.congr ((metadataA_coreOnly env k v).out s)
  | «section» name =>
    simp only [processEvent, A_modify]
    refine ⟨hi.locI, hi.locC, hi.itab, hi.ctab, hi.timers, ?_, ⟨Numbered.nil, fun ct h => by cases h⟩, rfl, hi.blk⟩
    intro sec hsec
    dsimp only at hsec
    split at hsec
    · simp only [List.mem_append, List.mem_singleton] at hsec
      rcases hsec with h | h
      · exact hi.secs sec h
      · rename_i hne
        rw [h]
        exact ⟨by simpa using hne, hi.cur.1, hi.cur.2⟩
    · exact hi.secs sec hsec
  | start kind =>
    simp only [processEvent, A_modify]
    refine hi.grow rfl rfl rfl (Nat.le_refl _) (Nat.le_refl _) (Nat.le_refl _) (Nat.le_refl _) hi.locI hi.locC
      hi.itab hi.ctab hi.timers ?_
    intro items hb it hit
    dsimp only at hb
    split at hb
    · cases hb
    · cases kind <;> simp only [Option.some.injEq, BlockBuf.step.injEq, reduceCtorEq] at hb
      subst hb; cases hit
  | stop kind => simp only [processEvent]; exact endBlock_inv env kind s hi
  | text t => simp only [processEvent]; exact inStepText_inv env t s hi
  | ingredient i => simp only [processEvent]; exact inBlockComponent_inv env input _ s hi hev
  | cookware c => simp only [processEvent]; exact inBlockComponent_inv env input _ s hi hev
  | timer t => simp only [processEvent]; exact inBlockComponent_inv env input _ s hi hev
  | error d => simp only [processEvent]; exact hi
  | warning d =>
    simp only [processEvent, A_modify]
    refine Inv.congr (s := s) ?_ hi; exact ⟨rfl, rfl, rfl, rfl, rfl, rfl, rfl, rfl, rfl, Or.inl rfl⟩

/-- what holds of the collector returned at the end of the event list -/
structure FinalInv (env : Env) (c : Col α) : Prop where
  itab : IngrTable env c.ingredients
  ctab : CwTable env c.cookware
  timers : ∀ t ∈ c.timers.toList, t.name.isSome = true ∨ t.quantity.isSome = true
  secs : ∀ sec ∈ c.sections, ¬ sec.isEmpty = true ∧ Numbered sec.content ∧
    ∀ ct ∈ sec.content, ContentOK c.ingredients.size c.cookware.size c.timers.size c.inlineQ.size ct

theorem parseEventsLoop_inv (env : Env) (input : Str) (evs : List (Ev α)) (s c : Col α) (hi : Inv env s)
    (hev : ∀ ev ∈ evs, EvOK ev) (hc : (parseEventsLoop env input evs s).output = some c) : FinalInv env c := by
  induction evs generalizing s with
  | nil =>
    simp only [parseEventsLoop, Option.some.injEq] at hc
    subst hc
    refine ⟨?_, ?_, ?_, ?_⟩
    · split <;> split <;> exact hi.itab
    · split <;> split <;> exact hi.ctab
    · split <;> split <;> exact hi.timers
    · have key : ∀ sec ∈ (if (!s.cur.isEmpty) = true then s.sections ++ [s.cur] else s.sections),
          ¬ sec.isEmpty = true ∧ Numbered sec.content ∧
          ∀ ct ∈ sec.content, ContentOK s.ingredients.size s.cookware.size s.timers.size s.inlineQ.size ct := by
        intro sec hsec
        split at hsec
        · simp only [List.mem_append, List.mem_singleton] at hsec
          rcases hsec with h | h
          · exact hi.secs sec h
          · rename_i hne
            rw [h]
            exact ⟨by simpa using hne, hi.cur.1, hi.cur.2⟩
        · exact hi.secs sec hsec
      split <;> split <;> rename_i h1 h2 <;> simp only [h1, if_true, if_false] at key <;> exact key
  | cons ev rest ih =>
    by_cases he : ∃ d0, ev = .error d0
    · obtain ⟨d0, rfl⟩ := he
      simp only [parseEventsLoop] at hc
      cases hc
    · rw [parseEventsLoop_cons_nonerror env input ev rest s he] at hc
      exact ih _ (processEvent_inv env input ev s hi (hev ev List.mem_cons_self))
        (fun e he' => hev e (List.mem_cons_of_mem _ he')) hc

end Cook
