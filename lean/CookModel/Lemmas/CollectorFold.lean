import CookModel.Lemmas.CollectorTable
/-
  The invariant of the collector state (C06) and its preservation by every event.
-/
namespace Cook
variable {α : Type} [Arith α]
set_option linter.unusedSectionVars false

/-- the two states agree on the fields the invariant talks about -/
def CoreEq (s s' : Col α) : Prop :=
  s'.sections = s.sections ∧ s'.cur = s.cur ∧ s'.ingredients = s.ingredients ∧ s'.cookware = s.cookware ∧
  s'.timers = s.timers ∧ s'.inlineQ = s.inlineQ ∧ s'.locIngr = s.locIngr ∧ s'.locCw = s.locCw ∧
  s'.stepCounter = s.stepCounter ∧ s'.block = s.block

theorem CoreEq.refl (s : Col α) : CoreEq s s := ⟨rfl, rfl, rfl, rfl, rfl, rfl, rfl, rfl, rfl, rfl⟩

theorem CoreEq.trans {a b c : Col α} (h1 : CoreEq a b) (h2 : CoreEq b c) : CoreEq a c := by
  obtain ⟨a1, a2, a3, a4, a5, a6, a7, a8, a9, a10⟩ := h1
  obtain ⟨b1, b2, b3, b4, b5, b6, b7, b8, b9, b10⟩ := h2
  exact ⟨b1.trans a1, b2.trans a2, b3.trans a3, b4.trans a4, b5.trans a5, b6.trans a6, b7.trans a7,
    b8.trans a8, b9.trans a9, b10.trans a10⟩

/-- `m` changes none of the fields the invariant talks about -/
structure CoreOnly {β : Type} (m : A α β) : Prop where
  out : ∀ s, CoreEq s (m s).2

theorem DiagOnly.coreOnly {β : Type} {m : A α β} (h : DiagOnly m) : CoreOnly m := by
  constructor
  intro s
  obtain ⟨d, p, hp⟩ := h.out s
  rw [hp]
  exact CoreEq.refl s

theorem CoreOnly.pure {β : Type} (a : β) : CoreOnly (α := α) (Pure.pure a : A α β) := ⟨fun s => CoreEq.refl s⟩
theorem CoreOnly.get : CoreOnly (α := α) (get : A α (Col α)) := ⟨fun s => CoreEq.refl s⟩
theorem CoreOnly.bind {β γ : Type} {m : A α β} {f : β → A α γ} (hm : CoreOnly m) (hf : ∀ a, CoreOnly (f a)) :
    CoreOnly (m >>= f) := ⟨fun s => (hm.out s).trans ((hf (m s).1).out (m s).2)⟩
theorem CoreOnly.ite {β : Type} {c : Prop} [Decidable c] {a b : A α β} (ha : CoreOnly a) (hb : CoreOnly b) :
    CoreOnly (if c then a else b) := by
  split <;> assumption
theorem CoreOnly.modify (f : Col α → Col α) (hf : ∀ s, CoreEq s (f s)) : CoreOnly (modify f : A α PUnit) :=
  ⟨fun s => hf s⟩

syntax "core_leaf" : tactic
macro_rules | `(tactic| core_leaf) => `(tactic| first
  | with_reducible exact CoreOnly.pure _
  | with_reducible exact CoreOnly.get
  | with_reducible exact DiagOnly.coreOnly (DiagOnly.apanic _)
  | with_reducible exact DiagOnly.coreOnly (DiagOnly.aerr _ _)
  | with_reducible exact DiagOnly.coreOnly (DiagOnly.awarn _ _)
  | ((with_reducible apply CoreOnly.modify); intro s; exact ⟨rfl, rfl, rfl, rfl, rfl, rfl, rfl, rfl, rfl, rfl⟩)
  | assumption)

macro "core_only" : tactic => `(tactic|
  repeat (first
    | core_leaf
    | with_reducible apply CoreOnly.bind
    | with_reducible apply CoreOnly.ite
    | intro _
    | dsimp only
    | split))




theorem timeOverrideCheck_coreOnly (k : StdKey) : CoreOnly (timeOverrideCheck (α := α) k) := by
  unfold timeOverrideCheck
  apply CoreOnly.bind
  · exact CoreOnly.get
  intro s
  dsimp only
  apply CoreOnly.ite
  · apply CoreOnly.bind
    · core_leaf
    intro _
    apply CoreOnly.bind
    · core_leaf
    intro _
    apply CoreOnly.ite
    · core_leaf
    · core_leaf
  · apply CoreOnly.bind
    · core_leaf
    intro _
    apply CoreOnly.ite
    · core_leaf
    · core_leaf
macro_rules | `(tactic| core_leaf) => `(tactic| with_reducible exact timeOverrideCheck_coreOnly _)

theorem metadataA_coreOnly (env : Env) (k v : Text) : CoreOnly (metadataA (α := α) env k v) := by
  unfold metadataA
  core_only

end Cook
