import CookModel.Lemmas.SpansDoc
/-
  The offsets of the front-matter split (`parseFrontmatter`, model of src/parser/frontmatter.rs):
  the cooklang part is a suffix of the input laid out at its offset, the YAML text is the input
  slice at its offset.
-/
set_option linter.unusedSectionVars false
set_option linter.unusedSimpArgs false
set_option linter.unusedVariables false
namespace Cook

theorem splitInclusive_flatten (s : List Char) : (splitInclusive s).flatten = s := by
  induction s with
  | nil => rfl
  | cons c t ih =>
    unfold splitInclusive
    split
    · simp [ih]
    · split
      · rename_i heq
        rw [heq] at ih
        simp at ih
        simp [← ih]
      · rename_i l ls heq
        rw [heq] at ih
        simp at ih ⊢
        exact ih

/-- lines laid out one after the other from `off` -/
def Laid : Nat → List (List Char × Nat) → Prop
  | _, [] => True
  | off, p :: r => p.2 = off ∧ Laid (off + utf8Len p.1) r

theorem linesWithOffset_laid (ls : List (List Char)) (off : Nat) : Laid off (linesWithOffset ls off) := by
  induction ls generalizing off with
  | nil => trivial
  | cons l ls ih => exact ⟨rfl, ih _⟩

theorem linesWithOffset_text (ls : List (List Char)) (off : Nat) :
    (linesWithOffset ls off).flatMap (·.1) = ls.flatten := by
  induction ls generalizing off with
  | nil => rfl
  | cons l ls ih => simp [linesWithOffset, ih]

theorem laid_append (off : Nat) (A B : List (List Char × Nat)) (h : Laid off (A ++ B)) :
    Laid (off + utf8Len (A.flatMap (·.1))) B := by
  induction A generalizing off with
  | nil => simpa [utf8Len] using h
  | cons p A ih =>
    obtain ⟨h1, h2⟩ := h
    have := ih _ h2
    simp only [List.flatMap_cons, utf8Len_append]
    rw [← Nat.add_assoc]; exact this

theorem textOK_fromStr {w : List Char} {t : List Char} {p : Nat} (h : SliceAt 0 w p t) :
    TextOK 0 w (Text.fromStr t p) := by
  unfold Text.fromStr Text.appendStr Text.appendFrag
  have h0 : (Text.empty p).span.stop ≤ p := Nat.le_refl _
  simp only [h0, if_true]
  split
  · exact ⟨SpanOK.pos h.start_boundary, by simp [Text.empty]⟩
  · constructor
    · have := h.spanOK
      simpa [Text.span, Text.empty, Frag.stop] using this
    · intro f hf
      simp only [Text.empty, List.nil_append, List.mem_singleton] at hf
      subst hf
      exact h

/-- **the offsets of the front-matter split are right** -/
theorem frontMatterOffsetsOK (cs : CharSpec) (s : List Char) : FrontMatterOffsetsOK cs s := by
  intro fm h
  unfold parseFrontmatter at h
  simp only at h
  generalize hls : linesWithOffset (splitInclusive s) 0 = ls at h
  have htext : ls.flatMap (·.1) = s := by rw [← hls, linesWithOffset_text, splitInclusive_flatten]
  have hlaid : Laid 0 ls := by rw [← hls]; exact linesWithOffset_laid _ _
  have hsplit1 := List.takeWhile_append_dropWhile (p := fun l : List Char × Nat => !isFence cs l.1) (l := ls)
  split at h
  · cases h
  rename_i f1 rest1 hrest
  split at h
  · cases h
  split at h
  · cases h
  rename_i f2 rest2 hrest2
  have hsplit2 := List.takeWhile_append_dropWhile (p := fun l : List Char × Nat => !isFence cs l.1) (l := rest1)
  simp only [Option.some.injEq] at h
  subst h
  rw [hrest] at hsplit1
  rw [hrest2] at hsplit2
  generalize List.takeWhile (fun l : List Char × Nat => !isFence cs l.1) ls = B at hsplit1
  generalize List.takeWhile (fun l : List Char × Nat => !isFence cs l.1) rest1 = Y at hsplit2
  subst hsplit2
  subst hsplit1
  have l1 := laid_append 0 B _ hlaid
  obtain ⟨a1, l2⟩ := l1
  have l3 := laid_append _ Y _ l2
  obtain ⟨a2, -⟩ := l3
  simp only [List.flatMap_append, List.flatMap_cons] at htext
  simp only
  constructor
  · refine ⟨B.flatMap (·.1) ++ f1.1 ++ Y.flatMap (·.1) ++ f2.1, ?_, ?_⟩
    · rw [← htext]; simp
    · rw [a2]; simp only [utf8Len_append]; omega
  · apply textOK_fromStr
    refine ⟨B.flatMap (·.1) ++ f1.1, f2.1 ++ rest2.flatMap (·.1), ?_, ?_⟩
    · rw [← htext]; simp
    · rw [a1]; simp only [utf8Len_append]; omega

end Cook
