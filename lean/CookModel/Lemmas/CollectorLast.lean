import CookModel.Lemmas.CollectorTrans
import CookModel.Lemmas.CollectorRefIff
/-
  C01 / C06: a regular reference resolves to the LAST earlier non-reference component of the same
  name (`rposition` in `resolve_reference`, src/analysis/event_consumer.rs:1067-1079): between the
  target and the referrer no component of the table is a non-REF component with that name.
  (`last_` prefix.)
-/
set_option linter.unusedSectionVars false
set_option linter.unusedSimpArgs false
set_option linter.unusedVariables false
namespace Cook
variable {α : Type} [Arith α]

theorem last_getLast_max (l : List Nat) (hp : l.Pairwise (· < ·)) (t : Nat) (h : l.getLast? = some t) :
    ∀ j ∈ l, j ≤ t := by
  obtain ⟨ys, rfl⟩ := List.getLast?_eq_some_iff.1 h
  rw [List.pairwise_append] at hp
  intro j hj
  rcases List.mem_append.1 hj with hj | hj
  · exact Nat.le_of_lt (hp.2.2 j hj t (by simp))
  · simp only [List.mem_singleton] at hj; omega

/-- `rposition`: no later entry is a non-REF entry of the same name -/
theorem sameNameIdx_last (env : Env) (existing : List (Str × Modifiers)) (name : Str) (t : Nat)
    (h : sameNameIdx env existing name = some t) (j : Nat) (n : Str) (m : Modifiers) (hj : t < j)
    (he : existing[j]? = some (n, m)) : ¬ (m.contains Modifiers.REF = false ∧ nameEq env name n = true) := by
  rintro ⟨h1, h2⟩
  unfold sameNameIdx at h
  have hp : ((List.range existing.length).filter (fun i =>
      match existing[i]? with
      | some (n, m) => !m.contains Modifiers.REF && nameEq env name n
      | none => false)).Pairwise (· < ·) :=
    List.Pairwise.sublist List.filter_sublist List.pairwise_lt_range
  have hlen : j < existing.length := by
    rcases Nat.lt_or_ge j existing.length with hh | hh
    · exact hh
    · rw [List.getElem?_eq_none hh] at he; cases he
  have := last_getLast_max _ hp t h j (by
    simp only [List.mem_filter, List.mem_range]
    exact ⟨hlen, by rw [he]; simp [h1, h2]⟩)
  omega

/-- the table as `resolve_reference` sees it -/
def ingrKeys (ings : Array (Ingredient (ScalableValue α))) : List (Str × Modifiers) :=
  ings.toList.map (fun x => (x.name, x.modifiers))

def cwKeys (cws : Array (Cookware (ScalableValue α))) : List (Str × Modifiers) :=
  cws.toList.map (fun x => (x.name, x.modifiers))

theorem ingrRegular_target (env : Env) (input : Str) (li : Loc (PIngredient α)) (igr0 : Ingredient (ScalableValue α))
    (s : Col α) (t : Nat) (tg : Option RefTarget) (h0 : ∃ b, igr0.relation = ⟨.definition [] b, none⟩)
    (h : (ingrRegular env input li igr0 s).1.relation = ⟨.reference t, tg⟩) :
    sameNameIdx env (ingrKeys s.ingredients) igr0.name = some t := by
  unfold ingrRegular at h
  simp +instances only [A_bind, A_get] at h
  have hout := resolveReference_out (α := α) env "ingredient"
    (Modifiers.HIDDEN ||| Modifiers.OPT ||| Modifiers.RECIPE) (s.ingredients.toList.map (fun x => (x.name, x.modifiers)))
    igr0.name igr0.modifiers li.span li.val.modifiers.span s
  generalize resolveReference (α := α) env "ingredient"
    (Modifiers.HIDDEN ||| Modifiers.OPT ||| Modifiers.RECIPE) (s.ingredients.toList.map (fun x => (x.name, x.modifiers)))
    igr0.name igr0.modifiers li.span li.val.modifiers.span s = rr at h hout
  cases ho : rr.1.2 with
  | none =>
    simp only [ho, A_pure] at h
    obtain ⟨b, hb⟩ := h0
    rw [hb] at h
    cases h
  | some o =>
    obtain ⟨hsn, _⟩ := hout o ho
    rw [ho] at h
    simp +instances only [A_bind, A_get, A_pure] at h
    cases h1 : rr.2.ingredients[o.refTo]? <;> cases h2 : rr.2.locIngr[o.refTo]? <;>
      simp +instances only [h1, h2, A_bind, A_pure] at h <;>
      simp only [IngredientRelation.mk.injEq, ComponentRelation.reference.injEq] at h
    all_goals (rw [← h.1]; exact hsn)

theorem cwResolve_target (env : Env) (input : Str) (lc : Loc (PCookware α)) (cw0 : Cookware (ScalableValue α))
    (s : Col α) (t : Nat) (h0 : ∃ b, cw0.relation = .definition [] b)
    (h : (cwResolve env input lc cw0 s).1.relation = .reference t) :
    sameNameIdx env (cwKeys s.cookware) cw0.name = some t := by
  unfold cwResolve at h
  simp +instances only [A_bind, A_get] at h
  have hout := resolveReference_out (α := α) env "cookware item"
    (Modifiers.HIDDEN ||| Modifiers.OPT) (s.cookware.toList.map (fun x => (x.name, x.modifiers)))
    cw0.name cw0.modifiers lc.span lc.val.modifiers.span s
  generalize resolveReference (α := α) env "cookware item"
    (Modifiers.HIDDEN ||| Modifiers.OPT) (s.cookware.toList.map (fun x => (x.name, x.modifiers)))
    cw0.name cw0.modifiers lc.span lc.val.modifiers.span s = rr at h hout
  cases ho : rr.1.2 with
  | none =>
    simp only [ho, A_pure] at h
    obtain ⟨b, hb⟩ := h0
    rw [hb] at h
    cases h
  | some o =>
    obtain ⟨hsn, _⟩ := hout o ho
    rw [ho] at h
    simp +instances only [A_bind, A_get, A_pure] at h
    cases h1 : rr.2.cookware[o.refTo]? <;> cases h2 : rr.2.locCw[o.refTo]? <;>
      simp +instances only [h1, h2, A_bind, A_pure] at h <;>
      simp only [ComponentRelation.reference.injEq] at h
    all_goals (rw [← h]; exact hsn)

/-! ### how an ingredient / cookware event extends the table, with the target of the new entry -/

theorem last_ingrBuild (env : Env) (input : Str) (li : Loc (PIngredient α)) (igr0 : Ingredient (ScalableValue α))
    (s : Col α) (hloc : s.locIngr.size = s.ingredients.size)
    (hdef : ∀ (k : Nat) (ig : Ingredient (ScalableValue α)), s.ingredients[k]? = some ig →
      ig.modifiers.contains Modifiers.REF = false → ∃ rf b, ig.relation.relation = .definition rf b)
    (hev : li.val.inter.isSome = true → igr0.modifiers.contains Modifiers.REF = true)
    (h0 : ∃ b, igr0.relation = ⟨.definition [] b, none⟩) :
    ∃ ings igr, (ingrBuild env input li igr0 s).2.ingredients = ings.push igr ∧
      (ingrBuild env input li igr0 s).2.cookware = s.cookware ∧
      ings.size = s.ingredients.size ∧ IngrStep env s ings igr ∧ igr.name = igr0.name ∧
      ∀ t, igr.relation = ⟨.reference t, some .ingredient⟩ →
        sameNameIdx env (ingrKeys s.ingredients) igr0.name = some t := by
  obtain ⟨dg, p, ings, igr, h1, h2, h3⟩ := ingrBuild_spec env input li igr0 s hloc hdef hev h0
  have hpush : (ingrBuild env input li igr0 s).2.ingredients =
      ((match li.val.inter with
        | some d => ingrInter li.val igr0 d
        | none => ingrRegular env input li igr0) s).2.ingredients.push
      ((match li.val.inter with
        | some d => ingrInter li.val igr0 d
        | none => ingrRegular env input li igr0) s).1 := by
    unfold ingrBuild
    rfl
  have hi : (ingrBuild env input li igr0 s).2.ingredients = ings.push igr := by rw [h1]
  have hc : (ingrBuild env input li igr0 s).2.cookware = s.cookware := by rw [h1]
  rw [hi] at hpush
  obtain ⟨higr, _⟩ := Array.push_eq_push.1 hpush
  refine ⟨ings, igr, hi, hc, h2, h3, ?_, ?_⟩
  · rw [higr]
    cases hd : li.val.inter with
    | some d =>
      simp only []
      rcases ingrInter_val li.val igr0 d s with hv | ⟨rel, _, hv⟩ <;> rw [hv]
    | none =>
      simp only []
      obtain ⟨_, _, _, _, hname, _⟩ := ingrRegular_spec env input li igr0 s hloc hdef
      exact hname
  · intro t ht
    rw [higr] at ht
    cases hd : li.val.inter with
    | some d =>
      rw [hd] at ht
      simp only [] at ht
      rcases ingrInter_val li.val igr0 d s with hv | ⟨rel, hrel, hv⟩
      · rw [hv] at ht
        obtain ⟨b, hb⟩ := h0
        rw [hb] at ht; cases ht
      · rw [hv] at ht
        simp only [] at ht
        rcases interRefTarget_inRange _ _ _ _ hrel with ⟨i, hi', _⟩ | ⟨i, hi', _⟩ <;> rw [hi'] at ht <;> cases ht
    | none =>
      rw [hd] at ht
      simp only [] at ht
      exact ingrRegular_target env input li igr0 s t _ h0 ht

theorem last_cwBuild (env : Env) (input : Str) (lc : Loc (PCookware α)) (cw0 : Cookware (ScalableValue α))
    (s : Col α) (hloc : s.locCw.size = s.cookware.size)
    (hdef : ∀ (k : Nat) (cw : Cookware (ScalableValue α)), s.cookware[k]? = some cw →
      cw.modifiers.contains Modifiers.REF = false → ∃ rf b, cw.relation = .definition rf b)
    (h0 : ∃ b, cw0.relation = .definition [] b) :
    ∃ cws cw, (cwBuild env input lc cw0 s).2.cookware = cws.push cw ∧
      (cwBuild env input lc cw0 s).2.ingredients = s.ingredients ∧
      cws.size = s.cookware.size ∧ CwStep env s cws cw ∧ cw.name = cw0.name ∧
      ∀ t, cw.relation = .reference t → sameNameIdx env (cwKeys s.cookware) cw0.name = some t := by
  obtain ⟨dg, p, cws, cw, h1, h2, h3⟩ := cwBuild_spec env input lc cw0 s hloc hdef h0
  have hpush : (cwBuild env input lc cw0 s).2.cookware =
      (cwResolve env input lc cw0 s).2.cookware.push (cwResolve env input lc cw0 s).1 := by
    unfold cwBuild
    rfl
  have hi : (cwBuild env input lc cw0 s).2.cookware = cws.push cw := by rw [h1]
  have hc : (cwBuild env input lc cw0 s).2.ingredients = s.ingredients := by rw [h1]
  rw [hi] at hpush
  obtain ⟨hcw, _⟩ := Array.push_eq_push.1 hpush
  refine ⟨cws, cw, hi, hc, h2, h3, ?_, ?_⟩
  · rw [hcw]
    obtain ⟨_, _, _, _, hname, _⟩ := cwResolve_spec env input lc cw0 s hloc hdef
    exact hname
  · intro t ht
    rw [hcw] at ht
    exact cwResolve_target env input lc cw0 s t h0 ht

/-- what an event does to the two tables -/
structure TabStep (env : Env) (s s' : Col α) : Prop where
  ingr : s'.ingredients = s.ingredients ∨
    ∃ ings igr, s'.ingredients = ings.push igr ∧ ings.size = s.ingredients.size ∧ IngrStep env s ings igr ∧
      ∀ t, igr.relation = ⟨.reference t, some .ingredient⟩ → sameNameIdx env (ingrKeys s.ingredients) igr.name = some t
  cw : s'.cookware = s.cookware ∨
    ∃ cws cw, s'.cookware = cws.push cw ∧ cws.size = s.cookware.size ∧ CwStep env s cws cw ∧
      ∀ t, cw.relation = .reference t → sameNameIdx env (cwKeys s.cookware) cw.name = some t

theorem TabStep.of_same {env : Env} {s s' : Col α} (h : s'.ingredients = s.ingredients ∧ s'.cookware = s.cookware) :
    TabStep env s s' := ⟨Or.inl h.1, Or.inl h.2⟩

theorem last_ingrBuild_tab (env : Env) (input : Str) (li : Loc (PIngredient α)) (igr0 : Ingredient (ScalableValue α))
    (s : Col α) (d0 : Array Diag) (p0 : Option String) (hi : Inv env s)
    (hev : li.val.inter.isSome = true → igr0.modifiers.contains Modifiers.REF = true)
    (h0 : ∃ b, igr0.relation = ⟨.definition [] b, none⟩) :
    TabStep env s (ingrBuild env input li igr0 { s with diags := d0, panic := p0 }).2 := by
  obtain ⟨ings, igr, h1, h2, h3, h4, h5, h6⟩ :=
    last_ingrBuild env input li igr0 { s with diags := d0, panic := p0 } hi.locI hi.itab.nonREF_def hev h0
  exact ⟨Or.inr ⟨ings, igr, h1, h3, h4, fun t ht => by rw [h5]; exact h6 t ht⟩, Or.inl h2⟩

theorem last_cwBuild_tab (env : Env) (input : Str) (lc : Loc (PCookware α)) (cw0 : Cookware (ScalableValue α))
    (s : Col α) (d0 : Array Diag) (p0 : Option String) (hi : Inv env s) (h0 : ∃ b, cw0.relation = .definition [] b) :
    TabStep env s (cwBuild env input lc cw0 { s with diags := d0, panic := p0 }).2 := by
  obtain ⟨cws, cw, h1, h2, h3, h4, h5, h6⟩ :=
    last_cwBuild env input lc cw0 { s with diags := d0, panic := p0 } hi.locC hi.ctab.nonREF_def h0
  exact ⟨Or.inl h2, Or.inr ⟨cws, cw, h1, h3, h4, fun t ht => by rw [h5]; exact h6 t ht⟩⟩

theorem last_ingredientA (env : Env) (input : Str) (li : Loc (PIngredient α)) (s : Col α) (hi : Inv env s)
    (hev : li.val.inter.isSome = true → li.val.modifiers.val.contains Modifiers.REF = true) :
    TabStep env s (ingredientA env input li s).2 := by
  unfold ingredientA
  simp +instances only [A_bind, A_get]
  obtain ⟨d0, p0, h0⟩ := (optQuantityOf_diagOnly env li.val.quantity true).out s
  generalize optQuantityOf env li.val.quantity true s = qq at h0 ⊢
  rw [h0]
  exact last_ingrBuild_tab env input li _ s d0 p0 hi hev ⟨_, rfl⟩

theorem last_cookwareA (env : Env) (input : Str) (lc : Loc (PCookware α)) (s : Col α) (hi : Inv env s) :
    TabStep env s (cookwareA env input lc s).2 := by
  unfold cookwareA
  simp +instances only [A_bind, A_get]
  obtain ⟨d0, p0, h0⟩ := (optValueOf_diagOnly env lc.val.quantity).out s
  generalize optValueOf env lc.val.quantity s = qq at h0 ⊢
  rw [h0]
  exact last_cwBuild_tab env input lc _ s d0 p0 hi ⟨_, rfl⟩

theorem TabStep.then_same {env : Env} {s s1 s' : Col α} (h : TabStep env s s1)
    (h2 : s'.ingredients = s1.ingredients ∧ s'.cookware = s1.cookware) : TabStep env s s' := by
  obtain ⟨a, b⟩ := h
  exact ⟨by rw [h2.1]; exact a, by rw [h2.2]; exact b⟩

theorem last_processEvent (env : Env) (input : Str) (ev : Ev α) (s : Col α) (hi : Inv env s) (hev : EvOK ev) :
    TabStep env s (processEvent env input ev s).2 := by
  have hfr : ∀ {β : Type} (m : A α β), Fr True m → ∀ s1 : Col α,
      (m s1).2.ingredients = s1.ingredients ∧ (m s1).2.cookware = s1.cookware :=
    fun m h s1 => (h.out s1).2 trivial
  cases ev with
  | frontMatter t => exact .of_same ⟨rfl, rfl⟩
  | metadata k v => exact .of_same (hfr _ (metadataA_fr env k v) s)
  | «section» name => exact .of_same ⟨rfl, rfl⟩
  | start kind => exact .of_same ⟨rfl, rfl⟩
  | stop kind => exact .of_same (hfr _ (endBlock_fr kind) s)
  | text t => exact .of_same (hfr _ (inStepText_fr env t) s)
  | error d => exact .of_same ⟨rfl, rfl⟩
  | warning d => exact .of_same ⟨rfl, rfl⟩
  | ingredient li =>
    show TabStep env s (inBlockComponent env input (.ingredient li) s).2
    unfold inBlockComponent
    simp +instances only [A_bind, A_get]
    cases hb : s.block with
    | none =>
      simp only []
      obtain ⟨d, p, hp⟩ := (DiagOnly.apanic (α := α) "Content outside block").out s
      rw [hp]; exact .of_same ⟨rfl, rfl⟩
    | some buf =>
      cases buf with
      | text b => simp only []; exact .of_same (hfr _ (inTextComponent_fr input _ b) s)
      | step items =>
        simp only [inStepComponent, A_bind]
        exact (last_ingredientA env input li s hi hev).then_same (hfr _ (pushItem_fr _) _)
  | cookware lc =>
    show TabStep env s (inBlockComponent env input (.cookware lc) s).2
    unfold inBlockComponent
    simp +instances only [A_bind, A_get]
    cases hb : s.block with
    | none =>
      simp only []
      obtain ⟨d, p, hp⟩ := (DiagOnly.apanic (α := α) "Content outside block").out s
      rw [hp]; exact .of_same ⟨rfl, rfl⟩
    | some buf =>
      cases buf with
      | text b => simp only []; exact .of_same (hfr _ (inTextComponent_fr input _ b) s)
      | step items =>
        simp only [inStepComponent, A_bind]
        exact (last_cookwareA env input lc s hi).then_same (hfr _ (pushItem_fr _) _)
  | timer lt =>
    show TabStep env s (inBlockComponent env input (.timer lt) s).2
    unfold inBlockComponent
    simp +instances only [A_bind, A_get]
    cases hb : s.block with
    | none =>
      simp only []
      obtain ⟨d, p, hp⟩ := (DiagOnly.apanic (α := α) "Content outside block").out s
      rw [hp]; exact .of_same ⟨rfl, rfl⟩
    | some buf =>
      cases buf with
      | text b => simp only []; exact .of_same (hfr _ (inTextComponent_fr input _ b) s)
      | step items =>
        simp only [inStepComponent, A_bind]
        have h1 := hfr _ (timerA_fr env lt) s
        have h2 := hfr _ (pushItem_fr (Item.timer (timerA env lt s).1)) (timerA env lt s).2
        exact .of_same ⟨h2.1.trans h1.1, h2.2.trans h1.2⟩

/-! ### the invariant: a reference skips no candidate -/

/-- between the target of a regular ingredient reference and the referrer there is no non-REF
    ingredient of the referrer's name -/
def LastI (env : Env) (ings : Array (Ingredient (ScalableValue α))) : Prop :=
  ∀ (k : Nat) (ig : Ingredient (ScalableValue α)), ings[k]? = some ig →
    ∀ t, ig.relation = ⟨.reference t, some .ingredient⟩ →
      ∀ (j : Nat) (x : Ingredient (ScalableValue α)), t < j → j < k → ings[j]? = some x →
        ¬ (x.modifiers.contains Modifiers.REF = false ∧ nameEq env ig.name x.name = true)

def LastC (env : Env) (cws : Array (Cookware (ScalableValue α))) : Prop :=
  ∀ (k : Nat) (cw : Cookware (ScalableValue α)), cws[k]? = some cw →
    ∀ t, cw.relation = .reference t →
      ∀ (j : Nat) (x : Cookware (ScalableValue α)), t < j → j < k → cws[j]? = some x →
        ¬ (x.modifiers.contains Modifiers.REF = false ∧ nameEq env cw.name x.name = true)

/-- an entry of the table after the back-link update is the old entry up to its relation, and is the
    old entry itself when it is a reference -/
theorem IngrStep.old_entry {env : Env} {s : Col α} {ings : Array (Ingredient (ScalableValue α))}
    {igr : Ingredient (ScalableValue α)} (hstep : IngrStep env s ings igr) (j : Nat)
    (x : Ingredient (ScalableValue α)) (hx : ings[j]? = some x) :
    ∃ x0, s.ingredients[j]? = some x0 ∧ x0.name = x.name ∧ x0.modifiers = x.modifiers ∧
      (∀ t tg, x.relation = ⟨.reference t, tg⟩ → x0 = x) := by
  rcases hstep with ⟨he, _⟩ | ⟨he, _⟩ | ⟨t, defn, rf, b, h1, h2, h3, h4, h5, h6, he⟩
  · rw [he] at hx; exact ⟨x, hx, rfl, rfl, fun _ _ _ => rfl⟩
  · rw [he] at hx; exact ⟨x, hx, rfl, rfl, fun _ _ _ => rfl⟩
  · rw [he, Array.getElem?_setIfInBounds] at hx
    split at hx
    · rename_i hjt
      split at hx
      · cases hx
        exact ⟨defn, by rw [← hjt]; exact h1, rfl, rfl, fun t' tg hr => by cases hr⟩
      · cases hx
    · exact ⟨x, hx, rfl, rfl, fun _ _ _ => rfl⟩

theorem CwStep.old_entry {env : Env} {s : Col α} {cws : Array (Cookware (ScalableValue α))}
    {cw : Cookware (ScalableValue α)} (hstep : CwStep env s cws cw) (j : Nat)
    (x : Cookware (ScalableValue α)) (hx : cws[j]? = some x) :
    ∃ x0, s.cookware[j]? = some x0 ∧ x0.name = x.name ∧ x0.modifiers = x.modifiers ∧
      (∀ t, x.relation = .reference t → x0 = x) := by
  rcases hstep with ⟨he, _⟩ | ⟨t, defn, rf, b, h1, h2, h3, h4, h5, h6, he⟩
  · rw [he] at hx; exact ⟨x, hx, rfl, rfl, fun _ _ => rfl⟩
  · rw [he, Array.getElem?_setIfInBounds] at hx
    split at hx
    · rename_i hjt
      split at hx
      · cases hx
        exact ⟨defn, by rw [← hjt]; exact h1, rfl, rfl, fun t' hr => by cases hr⟩
      · cases hx
    · exact ⟨x, hx, rfl, rfl, fun _ _ => rfl⟩

theorem last_keys_get (ings : Array (Ingredient (ScalableValue α))) (j : Nat) (x : Ingredient (ScalableValue α))
    (h : ings[j]? = some x) : (ingrKeys ings)[j]? = some (x.name, x.modifiers) := by
  simp [ingrKeys, h]

theorem last_cwKeys_get (cws : Array (Cookware (ScalableValue α))) (j : Nat) (x : Cookware (ScalableValue α))
    (h : cws[j]? = some x) : (cwKeys cws)[j]? = some (x.name, x.modifiers) := by
  simp [cwKeys, h]

theorem TabStep.lastI {env : Env} {s s' : Col α} (h : TabStep env s s') (hl : LastI env s.ingredients) :
    LastI env s'.ingredients := by
  rcases h.ingr with he | ⟨ings, igr, he, hsz, hstep, htarget⟩
  · rw [he]; exact hl
  · rw [he]
    intro k ig hk t hrel j x htj hjk hx
    have hjlt : j < ings.size := by
      have := lt_size_of_getElem? hk
      simp only [Array.size_push] at this
      omega
    rw [Array.getElem?_push, if_neg (by omega)] at hx
    obtain ⟨x0, hx0, hn, hm, _⟩ := hstep.old_entry j x hx
    rw [Array.getElem?_push] at hk
    split at hk
    · -- the new entry
      cases hk
      have hsn := htarget t hrel
      have := sameNameIdx_last env _ _ t hsn j x0.name x0.modifiers htj (last_keys_get _ j x0 hx0)
      rw [hn, hm] at this
      exact this
    · -- an old entry that is a reference: unchanged
      obtain ⟨ig0, hig0, _, _, hsame⟩ := hstep.old_entry k ig hk
      have := hsame t _ hrel
      subst this
      have := hl k ig0 hig0 t hrel j x0 htj hjk hx0
      rw [hn, hm] at this
      exact this

theorem TabStep.lastC {env : Env} {s s' : Col α} (h : TabStep env s s') (hl : LastC env s.cookware) :
    LastC env s'.cookware := by
  rcases h.cw with he | ⟨cws, cw, he, hsz, hstep, htarget⟩
  · rw [he]; exact hl
  · rw [he]
    intro k c hk t hrel j x htj hjk hx
    have hjlt : j < cws.size := by
      have := lt_size_of_getElem? hk
      simp only [Array.size_push] at this
      omega
    rw [Array.getElem?_push, if_neg (by omega)] at hx
    obtain ⟨x0, hx0, hn, hm, _⟩ := hstep.old_entry j x hx
    rw [Array.getElem?_push] at hk
    split at hk
    · cases hk
      have hsn := htarget t hrel
      have := sameNameIdx_last env _ _ t hsn j x0.name x0.modifiers htj (last_cwKeys_get _ j x0 hx0)
      rw [hn, hm] at this
      exact this
    · obtain ⟨c0, hc0, _, _, hsame⟩ := hstep.old_entry k c hk
      have := hsame t hrel
      subst this
      have := hl k c0 hc0 t hrel j x0 htj hjk hx0
      rw [hn, hm] at this
      exact this

theorem parseEventsLoop_last (env : Env) (input : Str) (evs : List (Ev α)) (s c : Col α) (hi : Inv env s)
    (hl : LastI env s.ingredients ∧ LastC env s.cookware) (hev : ∀ ev ∈ evs, EvOK ev)
    (hc : (parseEventsLoop env input evs s).output = some c) :
    LastI env c.ingredients ∧ LastC env c.cookware := by
  induction evs generalizing s with
  | nil =>
    simp only [parseEventsLoop, Option.some.injEq] at hc
    subst hc
    refine ⟨?_, ?_⟩
    · split <;> split <;> exact hl.1
    · split <;> split <;> exact hl.2
  | cons ev rest ih =>
    by_cases he : ∃ d0, ev = .error d0
    · obtain ⟨d0, rfl⟩ := he
      simp only [parseEventsLoop] at hc
      cases hc
    · rw [parseEventsLoop_cons_nonerror env input ev rest s he] at hc
      have hst := last_processEvent env input ev s hi (hev ev List.mem_cons_self)
      exact ih _ (processEvent_inv env input ev s hi (hev ev List.mem_cons_self))
        ⟨hst.lastI hl.1, hst.lastC hl.2⟩
        (fun e he' => hev e (List.mem_cons_of_mem _ he')) hc

theorem LastI.empty (env : Env) : LastI (α := α) env #[] := fun k ig h => by simp at h
theorem LastC.empty (env : Env) : LastC (α := α) env #[] := fun k ig h => by simp at h

end Cook
