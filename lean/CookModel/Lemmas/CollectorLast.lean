import CookModel.Lemmas.CollectorTrans
import CookModel.Lemmas.CollectorRefIff
/-
  C01 / C06: a regular reference resolves to the LAST earlier non-reference component of the same
  name (`rposition` in `resolve_reference`, src/analysis/event_consumer.rs:1067-1079): between the
  target and the referrer no component of the table is a non-REF component with that name.
  (`last_` prefix.)
-/
set_option linter.unusedSectionVars false
set_option linter.unusedSimpArgs false
set_option linter.unusedVariables false
namespace Cook
variable {α : Type} [Arith α]

theorem last_getLast_max (l : List Nat) (hp : l.Pairwise (· < ·)) (t : Nat) (h : l.getLast? = some t) :
    ∀ j ∈ l, j ≤ t := by
  obtain ⟨ys, rfl⟩ := List.getLast?_eq_some_iff.1 h
  rw [List.pairwise_append] at hp
  intro j hj
  rcases List.mem_append.1 hj with hj | hj
  · exact Nat.le_of_lt (hp.2.2 j hj t (by simp))
  · simp only [List.mem_singleton] at hj; omega

/-- `rposition`: no later entry is a non-REF entry of the same name -/
theorem sameNameIdx_last (env : Env) (existing : List (Str × Modifiers)) (name : Str) (t : Nat)
    (h : sameNameIdx env existing name = some t) (j : Nat) (n : Str) (m : Modifiers) (hj : t < j)
    (he : existing[j]? = some (n, m)) : ¬ (m.contains Modifiers.REF = false ∧ nameEq env name n = true) := by
  rintro ⟨h1, h2⟩
  unfold sameNameIdx at h
  have hp : ((List.range existing.length).filter (fun i =>
      match existing[i]? with
      | some (n, m) => !m.contains Modifiers.REF && nameEq env name n
      | none => false)).Pairwise (· < ·) :=
    List.Pairwise.sublist List.filter_sublist List.pairwise_lt_range
  have hlen : j < existing.length := by
    rcases Nat.lt_or_ge j existing.length with hh | hh
    · exact hh
    · rw [List.getElem?_eq_none hh] at he; cases he
  have := last_getLast_max _ hp t h j (by
    simp only [List.mem_filter, List.mem_range]
    exact ⟨hlen, by rw [he]; simp [h1, h2]⟩)
  omega

/-- the table as `resolve_reference` sees it -/
def ingrKeys (ings : Array (Ingredient (ScalableValue α))) : List (Str × Modifiers) :=
  ings.toList.map (fun x => (x.name, x.modifiers))

def cwKeys (cws : Array (Cookware (ScalableValue α))) : List (Str × Modifiers) :=
  cws.toList.map (fun x => (x.name, x.modifiers))

theorem ingrRegular_target (env : Env) (input : Str) (li : Loc (PIngredient α)) (igr0 : Ingredient (ScalableValue α))
    (s : Col α) (t : Nat) (tg : Option RefTarget) (h0 : ∃ b, igr0.relation = ⟨.definition [] b, none⟩)
    (h : (ingrRegular env input li igr0 s).1.relation = ⟨.reference t, tg⟩) :
    sameNameIdx env (ingrKeys s.ingredients) igr0.name = some t := by
  unfold ingrRegular at h
  simp +instances only [A_bind, A_get] at h
  have hout := resolveReference_out (α := α) env "ingredient"
    (Modifiers.HIDDEN ||| Modifiers.OPT ||| Modifiers.RECIPE) (s.ingredients.toList.map (fun x => (x.name, x.modifiers)))
    igr0.name igr0.modifiers li.span li.val.modifiers.span s
  generalize resolveReference (α := α) env "ingredient"
    (Modifiers.HIDDEN ||| Modifiers.OPT ||| Modifiers.RECIPE) (s.ingredients.toList.map (fun x => (x.name, x.modifiers)))
    igr0.name igr0.modifiers li.span li.val.modifiers.span s = rr at h hout
  cases ho : rr.1.2 with
  | none =>
    simp only [ho, A_pure] at h
    obtain ⟨b, hb⟩ := h0
    rw [hb] at h
    cases h
  | some o =>
    obtain ⟨hsn, _⟩ := hout o ho
    rw [ho] at h
    simp +instances only [A_bind, A_get, A_pure] at h
    cases h1 : rr.2.ingredients[o.refTo]? <;> cases h2 : rr.2.locIngr[o.refTo]? <;>
      simp +instances only [h1, h2, A_bind, A_pure] at h <;>
      simp only [IngredientRelation.mk.injEq, ComponentRelation.reference.injEq] at h
    all_goals (rw [← h.1]; exact hsn)

theorem cwResolve_target (env : Env) (input : Str) (lc : Loc (PCookware α)) (cw0 : Cookware (ScalableValue α))
    (s : Col α) (t : Nat) (h0 : ∃ b, cw0.relation = .definition [] b)
    (h : (cwResolve env input lc cw0 s).1.relation = .reference t) :
    sameNameIdx env (cwKeys s.cookware) cw0.name = some t := by
  unfold cwResolve at h
  simp +instances only [A_bind, A_get] at h
  have hout := resolveReference_out (α := α) env "cookware item"
    (Modifiers.HIDDEN ||| Modifiers.OPT) (s.cookware.toList.map (fun x => (x.name, x.modifiers)))
    cw0.name cw0.modifiers lc.span lc.val.modifiers.span s
  generalize resolveReference (α := α) env "cookware item"
    (Modifiers.HIDDEN ||| Modifiers.OPT) (s.cookware.toList.map (fun x => (x.name, x.modifiers)))
    cw0.name cw0.modifiers lc.span lc.val.modifiers.span s = rr at h hout
  cases ho : rr.1.2 with
  | none =>
    simp only [ho, A_pure] at h
    obtain ⟨b, hb⟩ := h0
    rw [hb] at h
    cases h
  | some o =>
    obtain ⟨hsn, _⟩ := hout o ho
    rw [ho] at h
    simp +instances only [A_bind, A_get, A_pure] at h
    cases h1 : rr.2.cookware[o.refTo]? <;> cases h2 : rr.2.locCw[o.refTo]? <;>
      simp +instances only [h1, h2, A_bind, A_pure] at h <;>
      simp only [ComponentRelation.reference.injEq] at h
    all_goals (rw [← h]; exact hsn)

/-! ### how an ingredient / cookware event extends the table, with the target of the new entry -/

theorem last_ingrBuild (env : Env) (input : Str) (li : Loc (PIngredient α)) (igr0 : Ingredient (ScalableValue α))
    (s : Col α) (hloc : s.locIngr.size = s.ingredients.size)
    (hdef : ∀ (k : Nat) (ig : Ingredient (ScalableValue α)), s.ingredients[k]? = some ig →
      ig.modifiers.contains Modifiers.REF = false → ∃ rf b, ig.relation.relation = .definition rf b)
    (hev : li.val.inter.isSome = true → igr0.modifiers.contains Modifiers.REF = true)
    (h0 : ∃ b, igr0.relation = ⟨.definition [] b, none⟩) :
    ∃ ings igr, (ingrBuild env input li igr0 s).2.ingredients = ings.push igr ∧
      (ingrBuild env input li igr0 s).2.cookware = s.cookware ∧
      ings.size = s.ingredients.size ∧ IngrStep env s ings igr ∧ igr.name = igr0.name ∧
      ∀ t, igr.relation = ⟨.reference t, some .ingredient⟩ →
        sameNameIdx env (ingrKeys s.ingredients) igr0.name = some t := by
  obtain ⟨dg, p, ings, igr, h1, h2, h3⟩ := ingrBuild_spec env input li igr0 s hloc hdef hev h0
  have hpush : (ingrBuild env input li igr0 s).2.ingredients =
      ((match li.val.inter with
        | some d => ingrInter li.val igr0 d
        | none => ingrRegular env input li igr0) s).2.ingredients.push
      ((match li.val.inter with
        | some d => ingrInter li.val igr0 d
        | none => ingrRegular env input li igr0) s).1 := by
    unfold ingrBuild
    rfl
  have hi : (ingrBuild env input li igr0 s).2.ingredients = ings.push igr := by rw [h1]
  have hc : (ingrBuild env input li igr0 s).2.cookware = s.cookware := by rw [h1]
  rw [hi] at hpush
  obtain ⟨higr, _⟩ := Array.push_eq_push.1 hpush
  refine ⟨ings, igr, hi, hc, h2, h3, ?_, ?_⟩
  · rw [higr]
    cases hd : li.val.inter with
    | some d =>
      simp only []
      rcases ingrInter_val li.val igr0 d s with hv | ⟨rel, _, hv⟩ <;> rw [hv]
    | none =>
      simp only []
      obtain ⟨_, _, _, _, hname, _⟩ := ingrRegular_spec env input li igr0 s hloc hdef
      exact hname
  · intro t ht
    rw [higr] at ht
    cases hd : li.val.inter with
    | some d =>
      rw [hd] at ht
      simp only [] at ht
      rcases ingrInter_val li.val igr0 d s with hv | ⟨rel, hrel, hv⟩
      · rw [hv] at ht
        obtain ⟨b, hb⟩ := h0
        rw [hb] at ht; cases ht
      · rw [hv] at ht
        simp only [] at ht
        rcases interRefTarget_inRange _ _ _ _ hrel with ⟨i, hi', _⟩ | ⟨i, hi', _⟩ <;> rw [hi'] at ht <;> cases ht
    | none =>
      rw [hd] at ht
      simp only [] at ht
      exact ingrRegular_target env input li igr0 s t _ h0 ht

theorem last_cwBuild (env : Env) (input : Str) (lc : Loc (PCookware α)) (cw0 : Cookware (ScalableValue α))
    (s : Col α) (hloc : s.locCw.size = s.cookware.size)
    (hdef : ∀ (k : Nat) (cw : Cookware (ScalableValue α)), s.cookware[k]? = some cw →
      cw.modifiers.contains Modifiers.REF = false → ∃ rf b, cw.relation = .definition rf b)
    (h0 : ∃ b, cw0.relation = .definition [] b) :
    ∃ cws cw, (cwBuild env input lc cw0 s).2.cookware = cws.push cw ∧
      (cwBuild env input lc cw0 s).2.ingredients = s.ingredients ∧
      cws.size = s.cookware.size ∧ CwStep env s cws cw ∧ cw.name = cw0.name ∧
      ∀ t, cw.relation = .reference t → sameNameIdx env (cwKeys s.cookware) cw0.name = some t := by
  obtain ⟨dg, p, cws, cw, h1, h2, h3⟩ := cwBuild_spec env input lc cw0 s hloc hdef h0
  have hpush : (cwBuild env input lc cw0 s).2.cookware =
      (cwResolve env input lc cw0 s).2.cookware.push (cwResolve env input lc cw0 s).1 := by
    unfold cwBuild
    rfl
  have hi : (cwBuild env input lc cw0 s).2.cookware = cws.push cw := by rw [h1]
  have hc : (cwBuild env input lc cw0 s).2.ingredients = s.ingredients := by rw [h1]
  rw [hi] at hpush
  obtain ⟨hcw, _⟩ := Array.push_eq_push.1 hpush
  refine ⟨cws, cw, hi, hc, h2, h3, ?_, ?_⟩
  · rw [hcw]
    obtain ⟨_, _, _, _, hname, _⟩ := cwResolve_spec env input lc cw0 s hloc hdef
    exact hname
  · intro t ht
    rw [hcw] at ht
    exact cwResolve_target env input lc cw0 s t h0 ht

/-- what an event does to the two tables -/
structure TabStep (env : Env) (s s' : Col α) : Prop where
  ingr : s'.ingredients = s.ingredients ∨
    ∃ ings igr, s'.ingredients = ings.push igr ∧ ings.size = s.ingredients.size ∧ IngrStep env s ings igr ∧
      ∀ t, igr.relation = ⟨.reference t, some .ingredient⟩ → sameNameIdx env (ingrKeys s.ingredients) igr.name = some t
  cw : s'.cookware = s.cookware ∨
    ∃ cws cw, s'.cookware = cws.push cw ∧ cws.size = s.cookware.size ∧ CwStep env s cws cw ∧
      ∀ t, cw.relation = .reference t → sameNameIdx env (cwKeys s.cookware) cw.name = some t

theorem TabStep.of_same {env : Env} {s s' : Col α} (h : s'.ingredients = s.ingredients ∧ s'.cookware = s.cookware) :
    TabStep env s s' := ⟨Or.inl h.1, Or.inl h.2⟩

theorem last_ingrBuild_tab (env : Env) (input : Str) (li : Loc (PIngredient α)) (igr0 : Ingredient (ScalableValue α))
    (s : Col α) (d0 : Array Diag) (p0 : Option String) (hi : Inv env s)
    (hev : li.val.inter.isSome = true → igr0.modifiers.contains Modifiers.REF = true)
    (h0 : ∃ b, igr0.relation = ⟨.definition [] b, none⟩) :
    TabStep env s (ingrBuild env input li igr0 { s with diags := d0, panic := p0 }).2 := by
  obtain ⟨ings, igr, h1, h2, h3, h4, h5, h6⟩ :=
    last_ingrBuild env input li igr0 { s with diags := d0, panic := p0 } hi.locI hi.itab.nonREF_def hev h0
  exact ⟨Or.inr ⟨ings, igr, h1, h3, h4, fun t ht => by rw [h5]; exact h6 t ht⟩, Or.inl h2⟩

theorem last_cwBuild_tab (env : Env) (input : Str) (lc : Loc (PCookware α)) (cw0 : Cookware (ScalableValue α))
    (s : Col α) (d0 : Array Diag) (p0 : Option String) (hi : Inv env s) (h0 : ∃ b, cw0.relation = .definition [] b) :
    TabStep env s (cwBuild env input lc cw0 { s with diags := d0, panic := p0 }).2 := by
  obtain ⟨cws, cw, h1, h2, h3, h4, h5, h6⟩ :=
    last_cwBuild env input lc cw0 { s with diags := d0, panic := p0 } hi.locC hi.ctab.nonREF_def h0
  exact ⟨Or.inl h2, Or.inr ⟨cws, cw, h1, h3, h4, fun t ht => by rw [h5]; exact h6 t ht⟩⟩

theorem last_ingredientA (env : Env) (input : Str) (li : Loc (PIngredient α)) (s : Col α) (hi : Inv env s)
    (hev : li.val.inter.isSome = true → li.val.modifiers.val.contains Modifiers.REF = true) :
    TabStep env s (ingredientA env input li s).2 := by
  unfold ingredientA
  simp +instances only [A_bind, A_get]
  obtain ⟨d0, p0, h0⟩ := (optQuantityOf_diagOnly env li.val.quantity true).out s
  generalize optQuantityOf env li.val.quantity true s = qq at h0 ⊢
  rw [h0]
  exact last_ingrBuild_tab env input li _ s d0 p0 hi hev ⟨_, rfl⟩

theorem last_cookwareA (env : Env) (input : Str) (lc : Loc (PCookware α)) (s : Col α) (hi : Inv env s) :
    TabStep env s (cookwareA env input lc s).2 := by
  unfold cookwareA
  simp +instances only [A_bind, A_get]
  obtain ⟨d0, p0, h0⟩ := (optValueOf_diagOnly env lc.val.quantity).out s
  generalize optValueOf env lc.val.quantity s = qq at h0 ⊢
  rw [h0]
  exact last_cwBuild_tab env input lc _ s d0 p0 hi ⟨_, rfl⟩

theorem TabStep.then_same {env : Env} {s s1 s' : Col α} (h : TabStep env s s1)
    (h2 : s'.ingredients = s1.ingredients ∧ s'.cookware = s1.cookware) : TabStep env s s' := by
  obtain ⟨a, b⟩ := h
  exact ⟨by rw [h2.1]; exact a, by rw [h2.2]; exact b⟩

theorem last_processEvent (env : Env) (input : Str) (ev : Ev α) (s : Col α) (hi : Inv env s) (hev : EvOK ev) :
    TabStep env s (processEvent env input ev s).2 := by
  have hfr : ∀ {β : Type} (m : A α β), Fr True m → ∀ s1 : Col α,
      (m s1).2.ingredients = s1.ingredients ∧ (m s1).2.cookware = s1.cookware :=
    fun m h s1 => (h.out s1).2 trivial
  cases ev with
  | frontMatter t => exact .of_same ⟨rfl, rfl⟩
  | metadata k v => exact .of_same (hfr _ (metadataA_fr env k v) s)
  | «section» name => exact .of_same ⟨rfl, rfl⟩
  | start kind => exact .of_same ⟨rfl, rfl⟩
  | stop kind => exact .of_same (hfr _ (endBlock_fr kind) s)
  | text t => exact .of_same (hfr _ (inStepText_fr env t) s)
  | error d => exact .of_same ⟨rfl, rfl⟩
  | warning d => exact .of_same ⟨rfl, rfl⟩
  | ingredient li =>
    show TabStep env s (inBlockComponent env input (.ingredient li) s).2
    unfold inBlockComponent
    simp +instances only [A_bind, A_get]
    cases hb : s.block with
    | none =>
      simp only []
      obtain ⟨d, p, hp⟩ := (DiagOnly.apanic (α := α) "Content outside block").out s
      rw [hp]; exact .of_same ⟨rfl, rfl⟩
    | some buf =>
      cases buf with
      | text b => simp only []; exact .of_same (hfr _ (inTextComponent_fr input _ b) s)
      | step items =>
        simp only [inStepComponent, A_bind]
        exact (last_ingredientA env input li s hi hev).then_same (hfr _ (pushItem_fr _) _)
  | cookware lc =>
    show TabStep env s (inBlockComponent env input (.cookware lc) s).2
    unfold inBlockComponent
    simp +instances only [A_bind, A_get]
    cases hb : s.block with
    | none =>
      simp only []
      obtain ⟨d, p, hp⟩ := (DiagOnly.apanic (α := α) "Content outside block").out s
      rw [hp]; exact .of_same ⟨rfl, rfl⟩
    | some buf =>
      cases buf with
      | text b => simp only []; exact .of_same (hfr _ (inTextComponent_fr input _ b) s)
      | step items =>
        simp only [inStepComponent, A_bind]
        exact (last_cookwareA env input lc s hi).then_same (hfr _ (pushItem_fr _) _)
  | timer lt =>
    show TabStep env s (inBlockComponent env input (.timer lt) s).2
    unfold inBlockComponent
    simp +instances only [A_bind, A_get]
    cases hb : s.block with
    | none =>
      simp only []
      obtain ⟨d, p, hp⟩ := (DiagOnly.apanic (α := α) "Content outside block").out s
      rw [hp]; exact .of_same ⟨rfl, rfl⟩
    | some buf =>
      cases buf with
      | text b => simp only []; exact .of_same (hfr _ (inTextComponent_fr input _ b) s)
      | step items =>
        simp only [inStepComponent, A_bind]
        have h1 := hfr _ (timerA_fr env lt) s
        have h2 := hfr _ (pushItem_fr (Item.timer (timerA env lt s).1)) (timerA env lt s).2
        exact .of_same ⟨h2.1.trans h1.1, h2.2.trans h1.2⟩

end Cook
