import CookModel.Syntax.Parser
/-
  What a token contributes to the text of a run (`Text::text` of `BlockParser::text`), whatever
  the offsets are: comments contribute nothing, a newline one space, an escape its tail.
-/
namespace Cook

/-- visible text of one token inside a text run -/
def vis (t : Tok) : List Char :=
  match t.kind with
  | .newline => if t.text.isEmpty then [] else [' ']
  | .lineComment | .blockComment => []
  | .escaped => t.text.tail
  | _ => t.text

theorem Text.text_appendFrag (t : Text) (f : Frag) :
    (t.appendFrag f).text = t.text ++ (if f.text.isEmpty then [] else if f.soft then [' '] else f.text) := by
  unfold Text.appendFrag Text.text
  by_cases he : f.text.isEmpty
  · simp [he]; split <;> simp
  · simp [he]; split <;> simp

theorem Text.text_appendStr (t : Text) (s : List Char) (off : Nat) : (t.appendStr s off).text = t.text ++ s := by
  unfold Text.appendStr
  rw [Text.text_appendFrag]
  by_cases he : s.isEmpty
  · simp [he]; simpa using he
  · simp [he]

theorem textStep_text (a : TextAcc) (tok : Tok) :
    (textStep a tok).t.text ++ (textStep a tok).cur = a.t.text ++ a.cur ++ vis tok := by
  unfold textStep vis
  cases hk : tok.kind <;> simp only [Text.text_appendFrag, Text.text_appendStr] <;>
    (try (by_cases he : tok.text.isEmpty <;> simp [he])) <;> simp

theorem foldl_textStep_text (ts : List Tok) (a : TextAcc) :
    (ts.foldl textStep a).t.text ++ (ts.foldl textStep a).cur = a.t.text ++ a.cur ++ ts.flatMap vis := by
  induction ts generalizing a with
  | nil => simp
  | cons t ts ih =>
    rw [List.foldl_cons, ih, textStep_text]
    simp

/-- the characters of an assembled text are the visible characters of its tokens, in order -/
theorem buildText_text (off : Nat) (ts : List Tok) : (buildText off ts).text = ts.flatMap vis := by
  unfold buildText
  cases ts with
  | nil => simp [Text.empty, Text.text]
  | cons t0 rest =>
    simp only
    have h := foldl_textStep_text (t0 :: rest) ⟨Text.empty off, t0.start, []⟩
    have hbad : ∀ (t : Text) (b : Bool), ({ t with bad := b } : Text).text = t.text := by
      intro t b; rfl
    split
    · rw [Text.text_appendStr, h]; simp [Text.empty, Text.text]
    · rw [hbad, Text.text_appendStr, h]; simp [Text.empty, Text.text]

end Cook
