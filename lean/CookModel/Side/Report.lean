import CookModel.Analysis.Collector
import CookModel.Gen.ReportColors
/-
  Model of what `SourceReport::write` / `write_report` (src/error.rs:304-320, 461-550) do with the labels of a
  diagnostic before and while handing them to the external renderer (codesnake 0.2.1), as far as it is logic:

    * order of the diagnostics: all warnings, then all errors (src/error.rs:313-318);
    * `labels.sort_unstable_by_key(|l| l.0)` — by `Span`'s derived `Ord` (start, then end) (error.rs:514);
    * `ColorGenerator::next` — an index into a 7-entry table that wraps around (error.rs:461-484), one colour
      per label in sorted order; the table lookup `COLORS[self.0]` is a panic site;
    * `LineIndex::new` (codesnake lib.rs:127-140): start offset and text of every line; `LineIndex::get`;
    * `Block::new` (lib.rs:257-330): `None` — the report then prints the message only (error.rs:527-530) — when a
      label has `start > end`, when a label does not start strictly after the start of the previous one and at or
      after its end, or when an offset is outside the source; `debug_assert!(start.line_no <= end.line_no)`;
    * the pieces of source text that end up painted in the label's colour (`Parts::segment`, lib.rs:520-545):
      `&line[start.bytes..end.bytes]` for a label inside one line; for a label over several lines the rest of the
      first line, every line in between, and the beginning of the last line.  Each `&line[a..b]` is a panic site
      (offset inside a character).  The model cuts the same bytes out of the whole source (`sliceBytes`, absolute
      offsets `line_start + bytes`), which is the same slice of the same string;
    * `map_code`: a tab in a piece is shown as four spaces (error.rs:535).

  Not modelled: display widths (unicode-width), the snakes, label texts, hints.
  Tied to the code by the driver operation `report_prep` (Driver/Report.lean) against the coloured text
  `SourceReport::write` produces (harness/src/props/c04.rs, `report_prep_case`).
-/
namespace Cook

/-- `Span`'s derived `Ord`: by `start`, then by `end` -/
def Span.le (a b : Span) : Bool := a.start < b.start || (a.start == b.start && a.stop ≤ b.stop)

/-- `sort_unstable_by_key(|l| l.0)`.  The key is the whole span, so elements with equal keys are equal spans and
    the unspecified order of equal keys of an unstable sort cannot be seen in the list of spans. -/
def sortLabels (labels : List Span) : List Span := labels.mergeSort Span.le

/-- `ColorGenerator::COLORS` (src/error.rs:465-473), by yansi colour name: the table scraped from the source by
    translators/gen_report_colors.py (Gen/ReportColors.lean), not typed by hand.  `colorNext` takes the wrap-around
    point from its length, as the code does (`COLORS.len() - 1`). -/
def reportColors : List String := Gen.reportColorsTable

/-- `ColorGenerator::next`: `COLORS[self.0]` (`none` = index out of range), then advance with wrap-around -/
def colorNext (i : Nat) : Option String × Nat :=
  (reportColors[i]?, if i = reportColors.length - 1 then 0 else i + 1)

/-- one colour per label, in order; `none` if a table lookup would be out of range -/
def assignColors : Nat → List Span → Option (List (Span × String))
  | _, [] => some []
  | i, l :: rest =>
    match (colorNext i).1, assignColors (colorNext i).2 rest with
    | some c, some r => some ((l, c) :: r)
    | _, _ => none

/-- the lines of a text: `'\n'` separates lines and belongs to none (`"a\n"` has the lines `a` and the empty line) -/
def splitLines : List Char → List (List Char)
  | [] => [[]]
  | c :: r =>
    if c = '\n' then [] :: splitLines r
    else match splitLines r with
      | l :: ls => (c :: l) :: ls
      | [] => [[c]]

/-- the start offset of every line: each line starts one byte (the `'\n'`) after the end of the previous one -/
def withStarts : Nat → List (List Char) → List (Nat × List Char)
  | _, [] => []
  | s, l :: rest => (s, l) :: withStarts (s + utf8Len l + 1) rest

/-- `LineIndex::new`: `(start offset, text)` of every line.  (The code collects the offsets of the `'\n'`s with
    `char_indices` and cuts `&s[start..end]` between them; these offsets are character boundaries by construction.) -/
def lineIndex (src : List Char) : List (Nat × List Char) := withStarts 0 (splitLines src)

/-- `LineIndex::get`: the line with `line_start ≤ offset ≤ line_start + line.len()` and its number -/
def reportLineOfGo (off : Nat) : Nat → List (Nat × List Char) → Option (Nat × Nat × List Char)
  | _, [] => none
  | n, (st, txt) :: rest => if st ≤ off ∧ off ≤ st + utf8Len txt then some (n, st, txt) else reportLineOfGo off (n + 1) rest

def reportLineOf (idx : List (Nat × List Char)) (off : Nat) : Option (Nat × Nat × List Char) := reportLineOfGo off 0 idx

/-- a piece of source text painted in a label's colour: 0-based line number, colour, text (tabs expanded) -/
structure Piece where
  lineNo : Nat
  color : String
  text : List Char
deriving Repr, DecidableEq

inductive PrepResult where
  | noLabels                       -- the diagnostic has no label: no code block
  | rejected                       -- `Block::new` returned `None`: message only
  | panic (site : String)
  | block (pieces : List Piece)
deriving Repr, DecidableEq

/-- `label.code.start <= prev.start || label.code.start < prev.end` against the previous range, if any -/
def prevClash (prev : Option Span) (l : Span) : Bool :=
  match prev with
  | some p => decide (l.start ≤ p.start) || decide (l.start < p.stop)
  | none => false

/-- the acceptance test of `Block::new` on the label ranges, in order (`prev` = the previous range): every label
    has `start ≤ end`, does not clash with the previous one, and both its ends have an index entry -/
def blockAccepts (idx : List (Nat × List Char)) : Option Span → List Span → Bool
  | _, [] => true
  | prev, l :: rest =>
    decide (l.start ≤ l.stop) && !prevClash prev l && (reportLineOf idx l.start).isSome && (reportLineOf idx l.stop).isSome &&
      blockAccepts idx (some l) rest

def expandTabs (s : List Char) : List Char := s.flatMap (fun c => if c = '\t' then [' ', ' ', ' ', ' '] else [c])

/-- the whole lines strictly between two line numbers (`idx.0[line_no]` for `line_no in a + 1..b` is a panic site) -/
def middleLines (idx : List (Nat × List Char)) (color : String) (a b : Nat) : Except String (List Piece) :=
  if b ≤ idx.length then
    .ok ((((idx.drop (a + 1)).take (b - (a + 1))).zipIdx).map (fun p => ⟨a + 1 + p.2, color, expandTabs p.1.2⟩))
  else .error "codesnake: idx.0[line_no]"

/-- the painted pieces of one accepted label; `none` = a slice would panic -/
def labelPieces (src : List Char) (idx : List (Nat × List Char)) (l : Span) (color : String) :
    Except String (List Piece) :=
  match reportLineOf idx l.start, reportLineOf idx l.stop with
  | some (n1, st1, t1), some (n2, st2, _) =>
    if n1 > n2 then .error "codesnake: debug_assert start.line_no <= end.line_no"
    else if n1 = n2 then
      match sliceBytes src l.start l.stop with
      | some t => .ok [⟨n1, color, expandTabs t⟩]
      | none => .error "codesnake: slice of a line at label offsets"
    else
      match sliceBytes src l.start (st1 + utf8Len t1), sliceBytes src st2 l.stop, middleLines idx color n1 n2 with
      | some a, some b, .ok mid => .ok (⟨n1, color, expandTabs a⟩ :: (mid ++ [⟨n2, color, expandTabs b⟩]))
      | _, _, .error e => .error e
      | _, _, _ => .error "codesnake: slice of a line at label offsets"
  | _, _ => .error "codesnake: index entry of an accepted label"

def allPieces (src : List Char) (idx : List (Nat × List Char)) : List (Span × String) → Except String (List Piece)
  | [] => .ok []
  | (l, c) :: rest =>
    match labelPieces src idx l c, allPieces src idx rest with
    | .ok a, .ok b => .ok (a ++ b)
    | .error e, _ => .error e
    | _, .error e => .error e

/-- `write_report` for one diagnostic with the given labels, as far as the code block is concerned -/
def reportDiag (src : List Char) (labels : List Span) : PrepResult :=
  if labels.isEmpty then .noLabels else
  let sorted := sortLabels labels
  match assignColors 0 sorted with
  | none => .panic "ColorGenerator::next: COLORS[self.0]"
  | some colored =>
    let idx := lineIndex src
    if !blockAccepts idx none sorted then .rejected else
    match allPieces src idx colored with
    | .ok ps => .block ps
    | .error e => .panic e

/-- `SourceReport::write`: warnings first, then errors, each in the order of the report -/
def reportOrder (diags : List Diag) : List Diag :=
  diags.filter (fun d => d.sev == .warning) ++ diags.filter (fun d => d.sev == .error)

def reportPrep (src : List Char) (diags : List Diag) : List PrepResult :=
  (reportOrder diags).map (fun d => reportDiag src d.labels)

end Cook
