import CookModel.Analysis.Collector
/-
  Model of what `SourceReport::write` / `write_report` (src/error.rs:304-320, 461-550) do with the labels of a
  diagnostic before and while handing them to the external renderer (codesnake 0.2.1), as far as it is logic:

    * order of the diagnostics: all warnings, then all errors (src/error.rs:313-318);
    * `labels.sort_unstable_by_key(|l| l.0)` — by `Span`'s derived `Ord` (start, then end) (error.rs:514);
    * `ColorGenerator::next` — an index into a 7-entry table that wraps around (error.rs:461-484), one colour
      per label in sorted order; the table lookup `COLORS[self.0]` is a panic site;
    * `LineIndex::new` (codesnake lib.rs:127-140): start offset and text of every line; `LineIndex::get`;
    * `Block::new` (lib.rs:257-330): `None` — the report then prints the message only (error.rs:527-530) — when a
      label has `start > end`, when a label does not start strictly after the start of the previous one and at or
      after its end, or when an offset is outside the source; `debug_assert!(start.line_no <= end.line_no)`;
    * the pieces of source text that end up painted in the label's colour (`Parts::segment`, lib.rs:520-545):
      `&line[start.bytes..end.bytes]` for a label inside one line; for a label over several lines the rest of the
      first line, every line in between, and the beginning of the last line.  Each `&line[a..b]` is a panic site
      (offset inside a character).  The model cuts the same bytes out of the whole source (`sliceBytes`, absolute
      offsets `line_start + bytes`), which is the same slice of the same string;
    * `map_code`: a tab in a piece is shown as four spaces (error.rs:535).

  Not modelled: display widths (unicode-width), the snakes, label texts, hints.
  Tied to the code by the driver operation `report_prep` (Driver/Report.lean) against the coloured text
  `SourceReport::write` produces (harness/src/props/c04.rs, `report_prep_case`).
-/
namespace Cook

/-- `Span`'s derived `Ord`: by `start`, then by `end` -/
def Span.le (a b : Span) : Bool := a.start < b.start || (a.start == b.start && a.stop ≤ b.stop)

/-- `sort_unstable_by_key(|l| l.0)`.  The key is the whole span, so elements with equal keys are equal spans and
    the unspecified order of equal keys of an unstable sort cannot be seen in the list of spans. -/
def sortLabels (labels : List Span) : List Span := labels.mergeSort Span.le

/-- `ColorGenerator::COLORS` (src/error.rs:465-473), by yansi colour name -/
def reportColors : List String :=
  ["BrightMagenta", "BrightGreen", "BrightCyan", "BrightBlue", "BrightGreen", "BrightYellow", "BrightRed"]

/-- `ColorGenerator::next`: `COLORS[self.0]` (`none` = index out of range), then advance with wrap-around -/
def colorNext (i : Nat) : Option String × Nat :=
  (reportColors[i]?, if i = reportColors.length - 1 then 0 else i + 1)

/-- one colour per label, in order; `none` if a table lookup would be out of range -/
def assignColors : Nat → List Span → Option (List (Span × String))
  | _, [] => some []
  | i, l :: rest =>
    match (colorNext i).1, assignColors (colorNext i).2 rest with
    | some c, some r => some ((l, c) :: r)
    | _, _ => none

/-- `LineIndex::new`: `(start offset, text)` of every line; `'\n'` separates lines and belongs to none -/
def lineIndexGo : Nat → List Char → List Char → List (Nat × List Char)
  | start, acc, [] => [(start, acc.reverse)]
  | start, acc, c :: r =>
    if c = '\n' then (start, acc.reverse) :: lineIndexGo (start + utf8Len acc.reverse + 1) [] r
    else lineIndexGo start (c :: acc) r

def lineIndex (src : List Char) : List (Nat × List Char) := lineIndexGo 0 [] src

/-- `LineIndex::get`: the line with `line_start ≤ offset ≤ line_start + line.len()` and its number -/
def lineOfGo (off : Nat) : Nat → List (Nat × List Char) → Option (Nat × Nat × List Char)
  | _, [] => none
  | n, (st, txt) :: rest => if st ≤ off ∧ off ≤ st + utf8Len txt then some (n, st, txt) else lineOfGo off (n + 1) rest

def lineOf (idx : List (Nat × List Char)) (off : Nat) : Option (Nat × Nat × List Char) := lineOfGo off 0 idx

/-- a piece of source text painted in a label's colour: 0-based line number, colour, text (tabs expanded) -/
structure Piece where
  lineNo : Nat
  color : String
  text : List Char
deriving Repr, DecidableEq

inductive PrepResult where
  | noLabels                       -- the diagnostic has no label: no code block
  | rejected                       -- `Block::new` returned `None`: message only
  | panic (site : String)
  | block (pieces : List Piece)
deriving Repr, DecidableEq

/-- the acceptance test of `Block::new` on the label ranges, in order (`prev` = the previous range) -/
def blockAccepts (idx : List (Nat × List Char)) : Option Span → List Span → Bool
  | _, [] => true
  | prev, l :: rest =>
    if l.start > l.stop then false
    else if (match prev with | some p => l.start ≤ p.start || l.start < p.stop | none => false) then false
    else if (lineOf idx l.start).isNone || (lineOf idx l.stop).isNone then false
    else blockAccepts idx (some l) rest

def expandTabs (s : List Char) : List Char := s.flatMap (fun c => if c = '\t' then [' ', ' ', ' ', ' '] else [c])

/-- the whole lines strictly between two line numbers -/
def middleLines (idx : List (Nat × List Char)) (color : String) (a b : Nat) : List Piece :=
  (List.range (b - (a + 1))).filterMap (fun k => (idx[a + 1 + k]?).map (fun p => ⟨a + 1 + k, color, expandTabs p.2⟩))

/-- the painted pieces of one accepted label; `none` = a slice would panic -/
def labelPieces (src : List Char) (idx : List (Nat × List Char)) (l : Span) (color : String) :
    Except String (List Piece) :=
  match lineOf idx l.start, lineOf idx l.stop with
  | some (n1, st1, t1), some (n2, st2, _) =>
    if n1 > n2 then .error "codesnake: debug_assert start.line_no <= end.line_no"
    else if n1 = n2 then
      match sliceBytes src l.start l.stop with
      | some t => .ok [⟨n1, color, expandTabs t⟩]
      | none => .error "codesnake: slice of a line at label offsets"
    else
      match sliceBytes src l.start (st1 + utf8Len t1), sliceBytes src st2 l.stop with
      | some a, some b => .ok (⟨n1, color, expandTabs a⟩ :: (middleLines idx color n1 n2 ++ [⟨n2, color, expandTabs b⟩]))
      | _, _ => .error "codesnake: slice of a line at label offsets"
  | _, _ => .error "codesnake: index entry of an accepted label"

def allPieces (src : List Char) (idx : List (Nat × List Char)) : List (Span × String) → Except String (List Piece)
  | [] => .ok []
  | (l, c) :: rest =>
    match labelPieces src idx l c, allPieces src idx rest with
    | .ok a, .ok b => .ok (a ++ b)
    | .error e, _ => .error e
    | _, .error e => .error e

/-- `write_report` for one diagnostic with the given labels, as far as the code block is concerned -/
def reportDiag (src : List Char) (labels : List Span) : PrepResult :=
  if labels.isEmpty then .noLabels else
  let sorted := sortLabels labels
  match assignColors 0 sorted with
  | none => .panic "ColorGenerator::next: COLORS[self.0]"
  | some colored =>
    let idx := lineIndex src
    if !blockAccepts idx none sorted then .rejected else
    match allPieces src idx colored with
    | .ok ps => .block ps
    | .error e => .panic e

/-- `SourceReport::write`: warnings first, then errors, each in the order of the report -/
def reportOrder (diags : List Diag) : List Diag :=
  diags.filter (fun d => d.sev == .warning) ++ diags.filter (fun d => d.sev == .error)

def reportPrep (src : List Char) (diags : List Diag) : List PrepResult :=
  (reportOrder diags).map (fun d => reportDiag src d.labels)

end Cook
