import CookModel.Analysis.Model
/-
  Model of the serde (JSON) image of a recipe: `#[derive(Serialize, Deserialize)]` with the
  attributes of src/model.rs, src/quantity.rs, src/scale.rs, src/metadata.rs, src/parser/model.rs,
  as serde_json executes them.

  * `Json` is the JSON document as a tree with ORDERED objects (serde_json writes struct fields in
    declaration order; equality of trees is equality of the produced text, see `Json.render` in
    Driver/Serde.lean).
  * Object keys are the enumeration `Key` (the field / tag names of the Rust types) plus
    `Key.other s` for the keys of the metadata map.
  * Numbers: integers (`u32`, `usize`, YAML integers) are exact; an `f64` is the token the JSON
    library prints.  Printing/parsing is the abstract pair `NumCodec.print/parse`; the hypothesis
    `RoundTrips` (parse ∘ print = id on finite values) is a fact about serde_json built with
    `float_roundtrip` (trusted base).  A non-finite `f64` is written as `null` (and cannot be read
    back: that is why the property is about finite numbers).
  * `Metadata.map` (a `serde_yaml::Mapping`) is an opaque JSON object: the model only covers
    metadata that IS JSON-representable (every mapping key, at any depth, a string; no tagged
    value) — this is built into the type `Metadata := List (Str × Json)`.  Front matter outside
    that class (`1: x`, `true: y`, `~: z`, `? [a, b]`, `!tag v`) is accepted by the parser and does
    NOT survive serialization: known finding F-C15-1 (KNOWN_FINDINGS.json), re-found by the
    oracle on the implementation in every run; the model cannot express it.
  * `ScaleOutcome::Error(#[serde(skip)] ScaleError)`: the payload is not written and is read back as
    `ScaleError::default()` (`UndefinedError`).
-/
namespace Cook.Serde
open Cook

/-- field and tag names -/
inductive Key where
  | type | value | start | «end» | whole | num | den | err | unit
  | name | content | items | number | index
  | alias | quantity | note | reference | relation | modifiers | components
  | referencedFrom | definedInStep | referencesTo | referenceTarget
  | metadata | map | sections | ingredients | cookware | timers | inlineQuantities | data
  | target | factor
  | other (s : Str)
deriving Repr, DecidableEq

inductive NumTok where
  | int (i : Int)
  | float (repr : Str)
deriving Repr, DecidableEq

inductive Json where
  | null
  | bool (b : Bool)
  | num (t : NumTok)
  | str (s : Str)
  | arr (xs : List Json)
  | obj (kvs : List (Key × Json))
deriving Repr, Inhabited

/-- abstract printer/parser of `f64` JSON number tokens -/
structure NumCodec (α : Type) where
  print : α → Str
  parse : Str → Option α

def NumCodec.RoundTrips {α} [Arith α] (c : NumCodec α) : Prop :=
  ∀ x : α, Arith.isFinite x = true → c.parse (c.print x) = some x

/-! ## generic pieces -/

def lookup : List (Key × Json) → Key → Option Json
  | [], _ => none
  | (k', v) :: rest, k => if k' = k then some v else lookup rest k

/-- a struct field: missing key = error (`Option` fields are written as `null`, never omitted) -/
def Json.field : Json → Key → Option Json
  | .obj kvs, k => lookup kvs k
  | _, _ => none

def encNat (n : Nat) : Json := .num (.int n)
def decNat : Json → Option Nat
  | .num (.int i) => if 0 ≤ i then some i.toNat else none
  | _ => none

def encStr (s : Str) : Json := .str s
def decStr : Json → Option Str
  | .str s => some s
  | _ => none

def encBool (b : Bool) : Json := .bool b
def decBool : Json → Option Bool
  | .bool b => some b
  | _ => none

def encOpt {β} (f : β → Json) : Option β → Json
  | none => .null
  | some x => f x
def decOpt {β} (f : Json → Option β) : Json → Option (Option β)
  | .null => some none
  | j => (f j).map some

def encList {β} (f : β → Json) (l : List β) : Json := .arr (l.map f)
def mapOpt {β γ} (f : β → Option γ) : List β → Option (List γ)
  | [] => some []
  | x :: rest =>
    match f x with
    | none => none
    | some y =>
      match mapOpt f rest with
      | none => none
      | some ys => some (y :: ys)
def decList {β} (f : Json → Option β) : Json → Option (List β)
  | .arr xs => mapOpt f xs
  | _ => none

/-- `f64`: serde_json writes `null` for NaN and the infinities -/
def encF64 {α} [Arith α] (c : NumCodec α) (x : α) : Json :=
  if Arith.isFinite x then .num (.float (c.print x)) else .null
/-- an `f64` field also accepts an integer literal -/
def decF64 {α} [Arith α] (c : NumCodec α) : Json → Option α
  | .num (.float s) => c.parse s
  | .num (.int i) => some (Arith.ofInt i)
  | _ => none

/-- tag strings -/
inductive Tag where
  | regular | fraction | number | range | text | fixed | linear | step
  | ingredient | cookware | timer | inlineQuantity | definition | reference | section
  | DefaultScaling | Scaled | scaled | noQuantity | error
deriving Repr, DecidableEq

def Tag.str : Tag → Str
  | .regular => ['r', 'e', 'g', 'u', 'l', 'a', 'r']
  | .fraction => ['f', 'r', 'a', 'c', 't', 'i', 'o', 'n']
  | .number => ['n', 'u', 'm', 'b', 'e', 'r']
  | .range => ['r', 'a', 'n', 'g', 'e']
  | .text => ['t', 'e', 'x', 't']
  | .fixed => ['f', 'i', 'x', 'e', 'd']
  | .linear => ['l', 'i', 'n', 'e', 'a', 'r']
  | .step => ['s', 't', 'e', 'p']
  | .ingredient => ['i', 'n', 'g', 'r', 'e', 'd', 'i', 'e', 'n', 't']
  | .cookware => ['c', 'o', 'o', 'k', 'w', 'a', 'r', 'e']
  | .timer => ['t', 'i', 'm', 'e', 'r']
  | .inlineQuantity => ['i', 'n', 'l', 'i', 'n', 'e', 'Q', 'u', 'a', 'n', 't', 'i', 't', 'y']
  | .definition => ['d', 'e', 'f', 'i', 'n', 'i', 't', 'i', 'o', 'n']
  | .reference => ['r', 'e', 'f', 'e', 'r', 'e', 'n', 'c', 'e']
  | .section => ['s', 'e', 'c', 't', 'i', 'o', 'n']
  | .DefaultScaling => ['D', 'e', 'f', 'a', 'u', 'l', 't', 'S', 'c', 'a', 'l', 'i', 'n', 'g']
  | .Scaled => ['S', 'c', 'a', 'l', 'e', 'd']
  | .scaled => ['s', 'c', 'a', 'l', 'e', 'd']
  | .noQuantity => ['n', 'o', 'Q', 'u', 'a', 'n', 't', 'i', 't', 'y']
  | .error => ['e', 'r', 'r', 'o', 'r']

def Tag.all : List Tag := [.regular, .fraction, .number, .range, .text, .fixed, .linear, .step, .ingredient, .cookware, .timer, .inlineQuantity, .definition, .reference, .section, .DefaultScaling, .Scaled, .scaled, .noQuantity, .error]

def Tag.ofStr (s : Str) : Option Tag := Tag.all.find? (fun t => t.str == s)

/-- the JSON spelling of a known key (serde field names; `rename_all` does not touch fields here) -/
def Key.str : Key → Str
  | .type => ['t', 'y', 'p', 'e']
  | .value => ['v', 'a', 'l', 'u', 'e']
  | .start => ['s', 't', 'a', 'r', 't']
  | .«end» => ['e', 'n', 'd']
  | .whole => ['w', 'h', 'o', 'l', 'e']
  | .num => ['n', 'u', 'm']
  | .den => ['d', 'e', 'n']
  | .err => ['e', 'r', 'r']
  | .unit => ['u', 'n', 'i', 't']
  | .name => ['n', 'a', 'm', 'e']
  | .content => ['c', 'o', 'n', 't', 'e', 'n', 't']
  | .items => ['i', 't', 'e', 'm', 's']
  | .number => ['n', 'u', 'm', 'b', 'e', 'r']
  | .index => ['i', 'n', 'd', 'e', 'x']
  | .alias => ['a', 'l', 'i', 'a', 's']
  | .quantity => ['q', 'u', 'a', 'n', 't', 'i', 't', 'y']
  | .note => ['n', 'o', 't', 'e']
  | .reference => ['r', 'e', 'f', 'e', 'r', 'e', 'n', 'c', 'e']
  | .relation => ['r', 'e', 'l', 'a', 't', 'i', 'o', 'n']
  | .modifiers => ['m', 'o', 'd', 'i', 'f', 'i', 'e', 'r', 's']
  | .components => ['c', 'o', 'm', 'p', 'o', 'n', 'e', 'n', 't', 's']
  | .referencedFrom => ['r', 'e', 'f', 'e', 'r', 'e', 'n', 'c', 'e', 'd', '_', 'f', 'r', 'o', 'm']
  | .definedInStep => ['d', 'e', 'f', 'i', 'n', 'e', 'd', '_', 'i', 'n', '_', 's', 't', 'e', 'p']
  | .referencesTo => ['r', 'e', 'f', 'e', 'r', 'e', 'n', 'c', 'e', 's', '_', 't', 'o']
  | .referenceTarget => ['r', 'e', 'f', 'e', 'r', 'e', 'n', 'c', 'e', '_', 't', 'a', 'r', 'g', 'e', 't']
  | .metadata => ['m', 'e', 't', 'a', 'd', 'a', 't', 'a']
  | .map => ['m', 'a', 'p']
  | .sections => ['s', 'e', 'c', 't', 'i', 'o', 'n', 's']
  | .ingredients => ['i', 'n', 'g', 'r', 'e', 'd', 'i', 'e', 'n', 't', 's']
  | .cookware => ['c', 'o', 'o', 'k', 'w', 'a', 'r', 'e']
  | .timers => ['t', 'i', 'm', 'e', 'r', 's']
  | .inlineQuantities => ['i', 'n', 'l', 'i', 'n', 'e', '_', 'q', 'u', 'a', 'n', 't', 'i', 't', 'i', 'e', 's']
  | .data => ['d', 'a', 't', 'a']
  | .target => ['t', 'a', 'r', 'g', 'e', 't']
  | .factor => ['f', 'a', 'c', 't', 'o', 'r']
  | .other s => s

def Key.known : List Key := [.type, .value, .start, .«end», .whole, .num, .den, .err, .unit, .name, .content, .items, .number, .index, .alias, .quantity, .note, .reference, .relation, .modifiers, .components, .referencedFrom, .definedInStep, .referencesTo, .referenceTarget, .metadata, .map, .sections, .ingredients, .cookware, .timers, .inlineQuantities, .data, .target, .factor]


/-! ## the recipe types -/

section Types
variable {α : Type} [Arith α] (c : NumCodec α)

def strTag : Json → Option Tag
  | .str s => Tag.ofStr s
  | _ => none

/-- `#[serde(tag = "type", content = "value")]` -/
def adj (t : Tag) (v : Json) : Json := .obj [(.type, .str t.str), (.value, v)]
def Json.tagOf (j : Json) : Option Tag := (j.field .type).bind strTag

/-! `quantity::Number` -/
def encNumber : Number α → Json
  | .regular v => adj .regular (encF64 c v)
  | .fraction w n d e =>
    adj .fraction (.obj [(.whole, encNat w), (.num, encNat n), (.den, encNat d), (.err, encF64 c e)])

def decFraction (v : Json) : Option (Number α) :=
  match (v.field .whole).bind decNat, (v.field .num).bind decNat, (v.field .den).bind decNat,
        (v.field .err).bind (decF64 c) with
  | some w, some n, some d, some e => some (.fraction w n d e)
  | _, _, _, _ => none

def decNumber (j : Json) : Option (Number α) :=
  match j.tagOf, j.field .value with
  | some .regular, some v => (decF64 c v).map .regular
  | some .fraction, some v => decFraction c v
  | _, _ => none

/-! `quantity::Value` -/
def encValue : Value α → Json
  | .number n => adj .number (encNumber c n)
  | .range s e => adj .range (.obj [(.start, encNumber c s), (.end, encNumber c e)])
  | .text t => adj .text (.str t)

def decRange (v : Json) : Option (Value α) :=
  match (v.field .start).bind (decNumber c), (v.field .end).bind (decNumber c) with
  | some s, some e => some (.range s e)
  | _, _ => none

def decValue (j : Json) : Option (Value α) :=
  match j.tagOf, j.field .value with
  | some .number, some v => (decNumber c v).map .number
  | some .range, some v => decRange c v
  | some .text, some v => (decStr v).map .text
  | _, _ => none

/-! `quantity::ScalableValue` -/
def encScalable : ScalableValue α → Json
  | .fixed v => adj .fixed (encValue c v)
  | .linear v => adj .linear (encValue c v)

def decScalable (j : Json) : Option (ScalableValue α) :=
  match j.tagOf, j.field .value with
  | some .fixed, some v => (decValue c v).map .fixed
  | some .linear, some v => (decValue c v).map .linear
  | _, _ => none

/-! `quantity::Quantity<V>` -/
def encQuantity {V} (ev : V → Json) (q : Quantity V) : Json :=
  .obj [(.value, ev q.value), (.unit, encOpt encStr q.unit)]

def decQuantity {V} (dv : Json → Option V) (j : Json) : Option (Quantity V) :=
  match (j.field .value).bind dv, (j.field .unit).bind (decOpt decStr) with
  | some v, some u => some ⟨v, u⟩
  | _, _ => none

/-! `model::Item` — `#[serde(tag = "type", rename_all = "camelCase")]` -/
def encItem : Item → Json
  | .text v => .obj [(.type, .str Tag.text.str), (.value, .str v)]
  | .ingredient i => .obj [(.type, .str Tag.ingredient.str), (.index, encNat i)]
  | .cookware i => .obj [(.type, .str Tag.cookware.str), (.index, encNat i)]
  | .timer i => .obj [(.type, .str Tag.timer.str), (.index, encNat i)]
  | .inlineQuantity i => .obj [(.type, .str Tag.inlineQuantity.str), (.index, encNat i)]

def decItem (j : Json) : Option Item :=
  match j.tagOf with
  | some .text => ((j.field .value).bind decStr).map .text
  | some .ingredient => ((j.field .index).bind decNat).map .ingredient
  | some .cookware => ((j.field .index).bind decNat).map .cookware
  | some .timer => ((j.field .index).bind decNat).map .timer
  | some .inlineQuantity => ((j.field .index).bind decNat).map .inlineQuantity
  | _ => none

/-! `model::Step`, `Content`, `Section` -/
def encStep (s : Step) : Json := .obj [(.items, encList encItem s.items), (.number, encNat s.number)]
def decStep (j : Json) : Option Step :=
  match (j.field .items).bind (decList decItem), (j.field .number).bind decNat with
  | some items, some n => some ⟨items, n⟩
  | _, _ => none

def encContent : Content → Json
  | .step s => adj .step (encStep s)
  | .text t => adj .text (.str t)
def decContent (j : Json) : Option Content :=
  match j.tagOf, j.field .value with
  | some .step, some v => (decStep v).map .step
  | some .text, some v => (decStr v).map .text
  | _, _ => none

def encSection (s : Section) : Json :=
  .obj [(.name, encOpt encStr s.name), (.content, encList encContent s.content)]
def decSection (j : Json) : Option Section :=
  match (j.field .name).bind (decOpt decStr), (j.field .content).bind (decList decContent) with
  | some n, some ct => some ⟨n, ct⟩
  | _, _ => none

/-! `model::ComponentRelation` (internally tagged) and `IngredientRelation` (the relation
    flattened next to `reference_target`) -/
def relFields : ComponentRelation → List (Key × Json)
  | .definition rf b =>
    [(.type, .str Tag.definition.str), (.referencedFrom, encList encNat rf), (.definedInStep, encBool b)]
  | .reference t => [(.type, .str Tag.reference.str), (.referencesTo, encNat t)]

def encRelation (r : ComponentRelation) : Json := .obj (relFields r)

def decRelation (j : Json) : Option ComponentRelation :=
  match j.tagOf with
  | some .definition =>
    match (j.field .referencedFrom).bind (decList decNat), (j.field .definedInStep).bind decBool with
    | some rf, some b => some (.definition rf b)
    | _, _ => none
  | some .reference => ((j.field .referencesTo).bind decNat).map .reference
  | _ => none

def encTarget : RefTarget → Json
  | .ingredient => .str Tag.ingredient.str
  | .step => .str Tag.step.str
  | .section => .str Tag.section.str
def decTarget (j : Json) : Option RefTarget :=
  match strTag j with
  | some .ingredient => some .ingredient
  | some .step => some .step
  | some .section => some .section
  | _ => none

def encIngRelation (r : IngredientRelation) : Json :=
  .obj (relFields r.relation ++ [(.referenceTarget, encOpt encTarget r.referenceTarget)])

/-- flatten: the relation is read from the same object (unknown keys are ignored by the inner
    deserializer), `reference_target` from its own key -/
def decIngRelation (j : Json) : Option IngredientRelation :=
  match decRelation j, (j.field .referenceTarget).bind (decOpt decTarget) with
  | some r, some t => some ⟨r, t⟩
  | _, _ => none

def encReference (r : RecipeReference) : Json :=
  .obj [(.name, .str r.name), (.components, encList encStr r.components)]
def decReference (j : Json) : Option RecipeReference :=
  match (j.field .name).bind decStr, (j.field .components).bind (decList decStr) with
  | some n, some cs => some ⟨n, cs⟩
  | _, _ => none

/-! `parser::Modifiers` — bitflags' human readable form `"A | B"` -/
def modNames : List (Nat × Str) :=
  [(1, ['R', 'E', 'C', 'I', 'P', 'E']), (2, ['R', 'E', 'F']), (4, ['H', 'I', 'D', 'D', 'E', 'N']),
   (8, ['O', 'P', 'T']), (16, ['N', 'E', 'W'])]

def joinBar : List Str → Str
  | [] => []
  | [x] => x
  | x :: rest => x ++ [' ', '|', ' '] ++ joinBar rest

/-- `bitflags::parser::to_writer` for a value without unknown bits -/
def encModsStr (m : Modifiers) : Str :=
  joinBar ((modNames.filter (fun p => (m.bits &&& p.1) == p.1)).map Prod.snd)

def encMods (m : Modifiers) : Json := .str (encModsStr m)

def splitBar : Str → List Str
  | [] => [[]]
  | ch :: rest =>
    if ch = '|' then [] :: splitBar rest
    else match splitBar rest with
      | h :: t => (ch :: h) :: t
      | [] => [[ch]]

def trimSp (s : Str) : Str := ((s.dropWhile (· = ' ')).reverse.dropWhile (· = ' ')).reverse

def flagOfName (s : Str) : Option Nat := (modNames.find? (fun p => p.2 == s)).map Prod.fst

/-- `bitflags::parser::from_str` (names only; hexadecimal remainders do not occur) -/
def decModsStr (s : Str) : Option Modifiers :=
  if trimSp s = [] then some ⟨0⟩
  else ((splitBar s).foldl (fun acc tok =>
    match acc, flagOfName (trimSp tok) with
    | some b, some f => some (b ||| f)
    | _, _ => none) (some 0)).map Modifiers.mk

def decMods : Json → Option Modifiers
  | .str s => decModsStr s
  | _ => none

/-! `model::Ingredient<V>`, `Cookware<V>`, `Timer<V>` -/
def encIngredient {V} (ev : V → Json) (i : Ingredient V) : Json :=
  .obj [(.name, .str i.name), (.alias, encOpt encStr i.alias), (.quantity, encOpt (encQuantity ev) i.quantity),
        (.note, encOpt encStr i.note), (.reference, encOpt encReference i.reference),
        (.relation, encIngRelation i.relation), (.modifiers, encMods i.modifiers)]

def decIngredient {V} (dv : Json → Option V) (j : Json) : Option (Ingredient V) :=
  match (j.field .name).bind decStr, (j.field .alias).bind (decOpt decStr),
        (j.field .quantity).bind (decOpt (decQuantity dv)), (j.field .note).bind (decOpt decStr),
        (j.field .reference).bind (decOpt decReference), (j.field .relation).bind decIngRelation,
        (j.field .modifiers).bind decMods with
  | some n, some a, some q, some nt, some rf, some rl, some m => some ⟨n, a, q, nt, rf, rl, m⟩
  | _, _, _, _, _, _, _ => none

def encCookware {V} (ev : V → Json) (i : Cookware V) : Json :=
  .obj [(.name, .str i.name), (.alias, encOpt encStr i.alias), (.quantity, encOpt ev i.quantity),
        (.note, encOpt encStr i.note), (.relation, encRelation i.relation), (.modifiers, encMods i.modifiers)]

def decCookware {V} (dv : Json → Option V) (j : Json) : Option (Cookware V) :=
  match (j.field .name).bind decStr, (j.field .alias).bind (decOpt decStr),
        (j.field .quantity).bind (decOpt dv), (j.field .note).bind (decOpt decStr),
        (j.field .relation).bind decRelation, (j.field .modifiers).bind decMods with
  | some n, some a, some q, some nt, some rl, some m => some ⟨n, a, q, nt, rl, m⟩
  | _, _, _, _, _, _ => none

def encTimer {V} (ev : V → Json) (t : Timer V) : Json :=
  .obj [(.name, encOpt encStr t.name), (.quantity, encOpt (encQuantity ev) t.quantity)]

def decTimer {V} (dv : Json → Option V) (j : Json) : Option (Timer V) :=
  match (j.field .name).bind (decOpt decStr), (j.field .quantity).bind (decOpt (decQuantity dv)) with
  | some n, some q => some ⟨n, q⟩
  | _, _ => none

/-! `metadata::Metadata` — `{ "map": { … } }`, the mapping as an opaque JSON object -/
abbrev Metadata := List (Str × Json)

def encMetadata (m : Metadata) : Json := .obj [(.map, .obj (m.map (fun p => (Key.other p.1, p.2))))]

def decMetaEntry : Key × Json → Option (Str × Json)
  | (.other s, v) => some (s, v)
  | _ => none

def decMetadata (j : Json) : Option Metadata :=
  match j.field .map with
  | some (.obj kvs) => mapOpt decMetaEntry kvs
  | _ => none

/-! `scale::Servings`, `Scaled`, `ScaledData`, `ScaleTarget`, `ScaleOutcome` -/
abbrev Servings := Option (List Nat)

def encServings (s : Servings) : Json := encOpt (encList encNat) s
def decServings (j : Json) : Option Servings := decOpt (decList decNat) j

/-- which `ScaleError` an `Error` outcome carries (not serialized) -/
inductive ScaleErrorKind where
  | textValue | notScalable | notDefined | undefined
deriving Repr, DecidableEq

inductive ScaleOutcome where
  | scaled | fixed | noQuantity
  | error (e : ScaleErrorKind)
deriving Repr, DecidableEq

def encOutcome : ScaleOutcome → Json
  | .scaled => .str Tag.scaled.str
  | .fixed => .str Tag.fixed.str
  | .noQuantity => .str Tag.noQuantity.str
  | .error _ => .str Tag.error.str

/-- `#[serde(skip)]` on the payload: filled with `ScaleError::default()` -/
def decOutcome (j : Json) : Option ScaleOutcome :=
  match strTag j with
  | some .scaled => some .scaled
  | some .fixed => some .fixed
  | some .noQuantity => some .noQuantity
  | some .error => some (.error .undefined)
  | _ => none

inductive Scaled (α : Type) where
  | defaultScaling
  | scaled (factor : α) (ingredients cookware timers : List ScaleOutcome)
deriving Repr

def encScaled : Scaled α → Json
  | .defaultScaling => .obj [(.type, .str Tag.DefaultScaling.str)]
  | .scaled f i cw t =>
    .obj [(.type, .str Tag.Scaled.str), (.target, .obj [(.factor, encF64 c f)]),
          (.ingredients, encList encOutcome i), (.cookware, encList encOutcome cw), (.timers, encList encOutcome t)]

def decScaled (j : Json) : Option (Scaled α) :=
  match j.tagOf with
  | some .DefaultScaling => some .defaultScaling
  | some .Scaled =>
    match (j.field .target).bind (fun t => (t.field .factor).bind (decF64 c)),
          (j.field .ingredients).bind (decList decOutcome), (j.field .cookware).bind (decList decOutcome),
          (j.field .timers).bind (decList decOutcome) with
    | some f, some i, some cw, some t => some (.scaled f i cw t)
    | _, _, _, _ => none
  | _ => none

/-! `model::Recipe<D, V>` -/
structure FullRecipe (α V D : Type) where
  metadata : Metadata
  recipe : Recipe α V
  data : D

def encRecipe {V D} (ev : V → Json) (ed : D → Json) (r : FullRecipe α V D) : Json :=
  .obj [(.metadata, encMetadata r.metadata),
        (.sections, encList encSection r.recipe.sections),
        (.ingredients, encList (encIngredient ev) r.recipe.ingredients),
        (.cookware, encList (encCookware ev) r.recipe.cookware),
        (.timers, encList (encTimer ev) r.recipe.timers),
        (.inlineQuantities, encList (encQuantity (encValue c)) r.recipe.inlineQuantities),
        (.data, ed r.data)]

def decRecipe {V D} (dv : Json → Option V) (dd : Json → Option D) (j : Json) : Option (FullRecipe α V D) :=
  match (j.field .metadata).bind decMetadata, (j.field .sections).bind (decList decSection),
        (j.field .ingredients).bind (decList (decIngredient dv)), (j.field .cookware).bind (decList (decCookware dv)),
        (j.field .timers).bind (decList (decTimer dv)),
        (j.field .inlineQuantities).bind (decList (decQuantity (decValue c))), (j.field .data).bind dd with
  | some m, some s, some i, some cw, some t, some iq, some d => some ⟨m, ⟨s, i, cw, t, iq⟩, d⟩
  | _, _, _, _, _, _, _ => none

/-- `serde_json::to_value(&ScalableRecipe)` -/
def encScalableRecipe (r : FullRecipe α (ScalableValue α) Servings) : Json :=
  encRecipe c (encScalable c) encServings r
def decScalableRecipe (j : Json) : Option (FullRecipe α (ScalableValue α) Servings) :=
  decRecipe c (decScalable c) decServings j

/-- `serde_json::to_value(&ScaledRecipe)` -/
def encScaledRecipe (r : FullRecipe α (Value α) (Scaled α)) : Json :=
  encRecipe c (encValue c) (encScaled c) r
def decScaledRecipe (j : Json) : Option (FullRecipe α (Value α) (Scaled α)) :=
  decRecipe c (decValue c) (decScaled c) j

end Types

/-! ## "finite numbers" -/

section Finite
variable {α : Type} [Arith α]

def numberFinite : Number α → Prop
  | .regular v => Arith.isFinite v = true
  | .fraction _ _ _ e => Arith.isFinite e = true

def valueFinite : Value α → Prop
  | .number n => numberFinite n
  | .range s e => numberFinite s ∧ numberFinite e
  | .text _ => True

def scalableFinite : ScalableValue α → Prop
  | .fixed v => valueFinite v
  | .linear v => valueFinite v

def optFinite {β} (p : β → Prop) : Option β → Prop
  | none => True
  | some x => p x

/-- every number of the recipe is finite (`fin` says it for the value type `V`) -/
structure RecipeFinite {V} (fin : V → Prop) (r : Recipe α V) : Prop where
  ingredients : ∀ i ∈ r.ingredients, optFinite (fun q => fin q.value) i.quantity
  cookware : ∀ i ∈ r.cookware, optFinite fin i.quantity
  timers : ∀ i ∈ r.timers, optFinite (fun q => fin q.value) i.quantity
  inlineQuantities : ∀ q ∈ r.inlineQuantities, valueFinite q.value

/-- the modifier bits are the five declared flags (always so for a parsed recipe) -/
def RecipeModsKnown {V} (r : Recipe α V) : Prop :=
  (∀ i ∈ r.ingredients, i.modifiers.bits < 32) ∧ (∀ i ∈ r.cookware, i.modifiers.bits < 32)

def scaledFinite : Scaled α → Prop
  | .defaultScaling => True
  | .scaled f _ _ _ => Arith.isFinite f = true

/-- an `Error` outcome is read back with the default payload -/
def ScaleOutcome.normalize : ScaleOutcome → ScaleOutcome
  | .error _ => .error .undefined
  | o => o

def Scaled.normalize : Scaled α → Scaled α
  | .defaultScaling => .defaultScaling
  | .scaled f i cw t => .scaled f (i.map ScaleOutcome.normalize) (cw.map ScaleOutcome.normalize) (t.map ScaleOutcome.normalize)

end Finite

end Cook.Serde
