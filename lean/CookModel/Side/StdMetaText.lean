/-
  Text routines of `std` used by src/metadata.rs, re-implemented over `List Char`.
  Each one is tied to the Rust routine by the correspondence ops of C13 and characterised
  independently in Lemmas/StdMetaText.lean (split/join, trim, words).
-/
namespace Cook.SM

abbrev Str := List Char

/-! ### character classes -/

/-- `char::is_whitespace` (Unicode `White_Space`) -/
def isWs (c : Char) : Bool :=
  let n := c.toNat
  (9 ≤ n && n ≤ 13) || n == 32 || n == 0x85 || n == 0xA0 || n == 0x1680 ||
  (0x2000 ≤ n && n ≤ 0x200A) || n == 0x2028 || n == 0x2029 || n == 0x202F || n == 0x205F || n == 0x3000

/-- `u8::is_ascii_whitespace` (space, \t, \n, \x0C, \r — not \x0B) -/
def isAsciiWs (c : Char) : Bool :=
  let n := c.toNat
  n == 32 || n == 9 || n == 10 || n == 12 || n == 13

/-- `char::is_ascii_digit` -/
def isDigit (c : Char) : Bool := 48 ≤ c.toNat && c.toNat ≤ 57

/-- `char::is_ascii_alphabetic` -/
def isAsciiAlpha (c : Char) : Bool :=
  (65 ≤ c.toNat && c.toNat ≤ 90) || (97 ≤ c.toNat && c.toNat ≤ 122)

/-- `char::is_ascii_alphanumeric` -/
def isAsciiAlnum (c : Char) : Bool := isAsciiAlpha c || isDigit c

/-- `char::to_ascii_lowercase` -/
def asciiLower (c : Char) : Char :=
  if 65 ≤ c.toNat && c.toNat ≤ 90 then Char.ofNat (c.toNat + 32) else c

/-- `iter().map(f).collect::<Option<Vec<_>>>()` -/
def mapOpt {α β : Type} (f : α → Option β) : List α → Option (List β)
  | [] => some []
  | a :: as => match f a with
    | none => none
    | some b => match mapOpt f as with
      | none => none
      | some bs => some (b :: bs)

/-! ### splitting -/

/-- first piece and remaining pieces of `str::split(pred)` -/
def splitAux (p : Char → Bool) : Str → Str × List Str
  | [] => ([], [])
  | c :: cs =>
    if p c then ([], (splitAux p cs).1 :: (splitAux p cs).2)
    else (c :: (splitAux p cs).1, (splitAux p cs).2)

/-- `str::split(pred)`: always at least one piece -/
def split (p : Char → Bool) (s : Str) : List Str := (splitAux p s).1 :: (splitAux p s).2

/-- `str::split_inclusive(pred)`: every piece but possibly the last ends in a separator; no empty piece -/
def splitIncl (p : Char → Bool) : Str → List Str
  | [] => []
  | c :: cs =>
    if p c then [c] :: splitIncl p cs
    else match splitIncl p cs with
      | [] => [[c]]
      | x :: xs => (c :: x) :: xs

/-- `str::split_whitespace` -/
def words (s : Str) : List Str := (split isWs s).filter (fun w => !w.isEmpty)

/-- `str::split_once(char)` -/
def splitOnce (p : Char → Bool) : Str → Option (Str × Str)
  | [] => none
  | c :: cs =>
    if p c then some ([], cs)
    else match splitOnce p cs with
      | none => none
      | some r => some (c :: r.1, r.2)

/-- `str::strip_prefix(&str)` -/
def stripPrefix : Str → Str → Option Str
  | [], s => some s
  | _ :: _, [] => none
  | a :: as, c :: cs => if a = c then stripPrefix as cs else none

/-- `str::split_once(&str)`: split at the first occurrence of `pat` (non-empty) -/
def splitOnceStr (pat : Str) : Str → Option (Str × Str)
  | [] => (stripPrefix pat []).map (fun r => ([], r))
  | c :: cs =>
    match stripPrefix pat (c :: cs) with
    | some r => some ([], r)
    | none => match splitOnceStr pat cs with
      | none => none
      | some r => some (c :: r.1, r.2)

/-! ### trimming -/

def trimStartBy (p : Char → Bool) (s : Str) : Str := s.dropWhile p
def trimEndBy (p : Char → Bool) (s : Str) : Str := (s.reverse.dropWhile p).reverse
/-- `str::trim` -/
def trim (s : Str) : Str := trimEndBy isWs (trimStartBy isWs s)
/-- `str::trim_ascii_end` -/
def trimAsciiEnd (s : Str) : Str := trimEndBy isAsciiWs s

/-- `str::strip_suffix(char)` -/
def stripSuffixChar (c : Char) (s : Str) : Option Str :=
  match s.reverse with
  | [] => none
  | d :: r => if d = c then some r.reverse else none

/-- `str::ends_with(char)` -/
def endsWith (c : Char) (s : Str) : Bool := s.getLast? == some c

/-! ### integers -/

def digitVal (c : Char) : Nat := c.toNat - 48

/-- value of a digit string, most significant first (Horner) -/
def natOfDigits (ds : Str) : Nat := ds.foldl (fun a c => 10 * a + digitVal c) 0

/-- the integer syntax of `u32::from_str` (`+`? digit+), value unbounded -/
def stripPlus : Str → Str
  | [] => []
  | c :: t => if c = '+' then t else c :: t

def parseNatLit (s : Str) : Option Nat :=
  if !(stripPlus s).isEmpty && (stripPlus s).all isDigit then some (natOfDigits (stripPlus s)) else none

def u32Max : Nat := 4294967295

/-- `str::parse::<u32>()` (`None` = any `ParseIntError`) -/
def parseU32 (s : Str) : Option Nat :=
  match parseNatLit s with
  | some n => if n ≤ u32Max then some n else none
  | none => none

/-- `u32::checked_add` / `checked_mul` -/
def checkedAdd (a b : Nat) : Option Nat := if a + b ≤ u32Max then some (a + b) else none
def checkedMul (a b : Nat) : Option Nat := if a * b ≤ u32Max then some (a * b) else none

/-! ### the syntax accepted by `f64::from_str` -/

/-- a decimal literal: sign, integer digits, fraction digits, exponent -/
structure DecLit where
  neg : Bool
  int : Str
  frac : Str
  exp : Int
deriving DecidableEq, Repr

inductive F64Syn where
  | nan
  | inf (neg : Bool)
  | dec (d : DecLit)
deriving DecidableEq, Repr

/-- optional sign of the exponent and the remaining text -/
def expSign : Str → Bool × Str
  | [] => (false, [])
  | c :: t => if c = '-' then (true, t) else if c = '+' then (false, t) else (false, c :: t)

/-- `e`/`E`, optional sign, at least one digit, nothing else; or nothing at all -/
def parseExp : Str → Option Int
  | [] => some 0
  | c :: t =>
    if c = 'e' || c = 'E' then
      let ds := (expSign t).2
      if !ds.isEmpty && ds.all isDigit then
        some (if (expSign t).1 then -(natOfDigits ds : Int) else (natOfDigits ds : Int))
      else none
    else none

/-- optional `.digits`: the fraction digits and the rest -/
def fracPart : Str → Str × Str
  | [] => ([], [])
  | c :: t => if c = '.' then (t.takeWhile isDigit, t.dropWhile isDigit) else ([], c :: t)

/-- `dec2flt::parse::parse_number` on the text after the sign (the whole text must be consumed) -/
def parseDecBody (neg : Bool) (s : Str) : Option DecLit :=
  let i := s.takeWhile isDigit
  let f := fracPart (s.dropWhile isDigit)
  if i.isEmpty && f.1.isEmpty then none
  else match parseExp f.2 with
    | some e => some ⟨neg, i, f.1, e⟩
    | none => none

/-- `parse_inf_nan` (case-insensitive `nan`, `inf`, `infinity`) -/
def parseInfNan (neg : Bool) (s : Str) : Option F64Syn :=
  let l := s.map asciiLower
  if l = ['n', 'a', 'n'] then some .nan
  else if l = ['i', 'n', 'f'] || l = ['i', 'n', 'f', 'i', 'n', 'i', 't', 'y'] then some (.inf neg)
  else none

/-- leading sign of a float literal -/
def floatSign (s : Str) : Bool × Str := expSign s

/-- `f64::from_str`, syntax only -/
def parseF64Syn (s : Str) : Option F64Syn :=
  let body := (floatSign s).2
  if body.isEmpty then none
  else match parseDecBody (floatSign s).1 body with
    | some d => some (.dec d)
    | none => parseInfNan (floatSign s).1 body

end Cook.SM
