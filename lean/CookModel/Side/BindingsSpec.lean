import CookModel.Side.Bindings
/-
  Vocabulary of property C19 ("the FFI view mirrors the core recipe and combines amounts
  faithfully"), independent of the functions of Side/Bindings.lean: what it means for a view
  element to mirror a core element, which inputs contribute to a (name, unit, kind) key.
-/
namespace Cook.Ffi
open Cook

/-- element-wise relation of two lists of the same length (core Lean has no `Forall₂`) -/
inductive Forall₂ {β γ : Type} (R : β → γ → Prop) : List β → List γ → Prop where
  | nil : Forall₂ R [] []
  | cons {a b l₁ l₂} : R a b → Forall₂ R l₁ l₂ → Forall₂ R (a :: l₁) (b :: l₂)

/-! ## Mirror relations -/

/-- a view item mirrors a core item: same text / same index; an inline quantity is shown as an
    empty text item -/
inductive ItemMirrors : Item → FItem → Prop where
  | text (v : Str) : ItemMirrors (.text v) (.text v)
  | ingredient (i : Nat) : ItemMirrors (.ingredient i) (.ingredientRef i)
  | cookware (i : Nat) : ItemMirrors (.cookware i) (.cookwareRef i)
  | timer (i : Nat) : ItemMirrors (.timer i) (.timerRef i)
  | inlineQuantity (i : Nat) : ItemMirrors (.inlineQuantity i) (.text [])

def FItem.ingIndex : FItem → Option Nat
  | .ingredientRef i => some i
  | _ => none
def FItem.cwIndex : FItem → Option Nat
  | .cookwareRef i => some i
  | _ => none
def FItem.tmIndex : FItem → Option Nat
  | .timerRef i => some i
  | _ => none

/-- same items in order; the step's three reference lists are the indices of its reference items
    in order -/
structure StepMirrors (s : Step) (f : FStep) : Prop where
  items : Forall₂ ItemMirrors s.items f.items
  ingredientRefs : f.ingredientRefs = f.items.filterMap FItem.ingIndex
  cookwareRefs : f.cookwareRefs = f.items.filterMap FItem.cwIndex
  timerRefs : f.timerRefs = f.items.filterMap FItem.tmIndex

inductive BlockMirrors : Content → Block → Prop where
  | step (s : Step) (f : FStep) : StepMirrors s f → BlockMirrors (.step s) (.stepBlock f)
  | text (t : Str) : BlockMirrors (.text t) (.noteBlock t)

def Block.ingredientRefs : Block → List Nat
  | .stepBlock s => s.ingredientRefs
  | .noteBlock _ => []
def Block.cookwareRefs : Block → List Nat
  | .stepBlock s => s.cookwareRefs
  | .noteBlock _ => []
def Block.timerRefs : Block → List Nat
  | .stepBlock s => s.timerRefs
  | .noteBlock _ => []

/-- same title, one block per content element in order; each of the section's three reference
    lists is the concatenation of its steps' lists -/
structure SectionMirrors (s : Section) (f : FSection) : Prop where
  title : f.title = s.name
  blocks : Forall₂ BlockMirrors s.content f.blocks
  ingredientRefs : f.ingredientRefs = f.blocks.flatMap Block.ingredientRefs
  cookwareRefs : f.cookwareRefs = f.blocks.flatMap Block.cookwareRefs
  timerRefs : f.timerRefs = f.blocks.flatMap Block.timerRefs

/-- numbers are exposed by their value (`Number::value`), text as it is -/
inductive ValueMirrors {α} [Arith α] : Value α → FValue α → Prop where
  | number (n : Number α) : ValueMirrors (.number n) (.number n.value)
  | range (s e : Number α) : ValueMirrors (.range s e) (.range s.value e.value)
  | text (t : Str) : ValueMirrors (.text t) (.text t)

inductive QuantityMirrors {α} [Arith α] : Option (Quantity (Value α)) → Option (Amount α) → Prop where
  | none : QuantityMirrors none none
  | some (q : Quantity (Value α)) (a : Amount α) :
      a.units = q.unit → ValueMirrors q.value a.quantity → QuantityMirrors (some q) (some a)

/-- a cookware amount is a bare value: no unit -/
inductive AmountMirrors {α} [Arith α] : Option (Value α) → Option (Amount α) → Prop where
  | none : AmountMirrors none none
  | some (v : Value α) (a : Amount α) :
      a.units = none → ValueMirrors v a.quantity → AmountMirrors (some v) (some a)

structure IngredientMirrors {α} [Arith α] (c : Ingredient (Value α)) (f : FIngredient α) : Prop where
  name : f.name = c.name
  amount : QuantityMirrors c.quantity f.amount
  note : f.descriptor = c.note

/-- (the view has no cookware note) -/
structure CookwareMirrors {α} [Arith α] (c : Cookware (Value α)) (f : FCookware α) : Prop where
  name : f.name = c.name
  amount : AmountMirrors c.quantity f.amount

/-- a timer without a name is exposed with the empty name (`Some("")`) -/
structure TimerMirrors {α} [Arith α] (c : Timer (Value α)) (f : FTimer α) : Prop where
  name : f.name = some (c.name.getD [])
  amount : QuantityMirrors c.quantity f.amount

/-- the core recipe's item indices are in range (part of C06's invariant) -/
def ItemInRange {α V} (r : Recipe α V) : Item → Prop
  | .ingredient i => i < r.ingredients.length
  | .cookware i => i < r.cookware.length
  | .timer i => i < r.timers.length
  | _ => True

def IndicesInRange {α V} (r : Recipe α V) : Prop :=
  ∀ sec ∈ r.sections, ∀ s, Content.step s ∈ sec.content → ∀ it ∈ s.items, ItemInRange r it

/-- a `u32` index can address that many components -/
def FitsU32 {α V} (r : Recipe α V) : Prop :=
  r.ingredients.length ≤ 4294967296 ∧ r.cookware.length ≤ 4294967296 ∧ r.timers.length ≤ 4294967296

/-- what a view item dereferences to, related to the core recipe -/
def ItemResolves {α} [Arith α] (r : ScaledRecipe α) (v : CooklangRecipe α) : FItem → Prop
  | .ingredientRef i => ∃ c f, r.ingredients[i]? = some c ∧ IngredientMirrors c f ∧
      derefComponent v (.ingredientRef i) = .ok (.ingredient f) ∧ derefIngredient v i = .ok f
  | .cookwareRef i => ∃ c f, r.cookware[i]? = some c ∧ CookwareMirrors c f ∧
      derefComponent v (.cookwareRef i) = .ok (.cookware f) ∧ derefCookware v i = .ok f
  | .timerRef i => ∃ c f, r.timers[i]? = some c ∧ TimerMirrors c f ∧
      derefComponent v (.timerRef i) = .ok (.timer f) ∧ derefTimer v i = .ok f
  | .text t => derefComponent v (.text t) = .ok (.text t)

/-! ## Which inputs contribute to a key -/

/-- the numeric amounts of the ingredients called `name` whose unit text is `unit`
    (a missing unit counts as the empty text), in input order -/
def numbersOf {α} (ings : List (FIngredient α)) (name unit : Str) : List α :=
  ings.filterMap fun i =>
    match i.amount with
    | some ⟨.number v, u⟩ => if i.name = name ∧ u.getD [] = unit then some v else none
    | _ => none

def rangesOf {α} (ings : List (FIngredient α)) (name unit : Str) : List (α × α) :=
  ings.filterMap fun i =>
    match i.amount with
    | some ⟨.range s e, u⟩ => if i.name = name ∧ u.getD [] = unit then some (s, e) else none
    | _ => none

def textsOf {α} (ings : List (FIngredient α)) (name unit : Str) : List Str :=
  ings.filterMap fun i =>
    match i.amount with
    | some ⟨.text t, u⟩ => if i.name = name ∧ u.getD [] = unit then some t else none
    | _ => none

/-- ingredients called `name` without an amount (or with the `Empty` amount and unit text `unit`) -/
def emptiesOf {α} (ings : List (FIngredient α)) (name unit : Str) : List Unit :=
  ings.filterMap fun i =>
    match i.amount with
    | some ⟨.empty, u⟩ => if i.name = name ∧ u.getD [] = unit then some () else none
    | none => if i.name = name ∧ unit = [] then some () else none
    | _ => none

/-- a combined list is a map: every name once, every (unit, kind) key once per name -/
def IngredientList.IsMap {α} (m : IngredientList α) : Prop :=
  (m.map Prod.fst).Nodup ∧ ∀ p ∈ m, (p.2.map Prod.fst).Nodup

end Cook.Ffi
