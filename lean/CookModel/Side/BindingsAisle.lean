import CookModel.Side.Bindings
import CookModel.Side.Aisle
/-
  Model of the aisle wrapper of the bindings crate
  (bindings/src/aisle.rs: `AisleIngredient`, `AisleCategory`, `AisleConf`, `AisleConf::category_for`,
  `into_category`; bindings/src/lib.rs: `parse_aisle_config`).

  * `parse_aisle_config` calls the core `cooklang::aisle::parse` (model: `Aisle.parse`, property C11) and
    `unwrap`s: every error of the core parser is a panic of the wrapper.
  * `into_category` takes the first name of every ingredient line with `it.next().unwrap()`: an
    ingredient without a name would be a panic (a value here; `C19_aisle_total` shows no parsed
    configuration has one).
  * The reverse cache is a `HashMap<String, String>` filled with `insert` (the last insertion under a key
    stays): an association list with `AList.insert`.  `category_for` is `cache.get(name).cloned()`.
  * The wrapper object is immutable after construction (`&self`, no interior mutability: a `Vec` and a
    `HashMap`); a call is modelled as a transition (object, answer) so that "the history of calls does
    not matter" can be stated (`FAisleConf.run`).  The core `AisleConf`'s private `len` cell (capacity
    hint of `ingredients_info`) is never read: the wrapper copies `parsed.categories` and drops the rest.
-/
namespace Cook.Ffi
open Cook

/-- `HashMap::insert`: the value of an existing key is replaced, a new key is added -/
def AList.insert {κ β} [DecidableEq κ] : AList κ β → κ → β → AList κ β
  | [], k, v => [(k, v)]
  | (k', v') :: rest, k, v => if k' = k then (k', v) :: rest else (k', v') :: AList.insert rest k v

/-- `AisleIngredient` of the bindings -/
structure AisleIngredient where
  name : Str
  aliases : List Str
deriving Repr, Inhabited, DecidableEq

/-- `AisleCategory` of the bindings -/
structure AisleCategory where
  name : Str
  ingredients : List AisleIngredient
deriving Repr, Inhabited, DecidableEq

/-- `AisleConf` of the bindings: the categories and the reverse cache name ↦ category name -/
structure FAisleConf where
  categories : List AisleCategory
  cache : AList Str Str
deriving Repr, Inhabited, DecidableEq

/-- body of the closure of `into_category`: `it.next().unwrap()`, the rest are the aliases -/
def intoAisleIngredient (i : Aisle.Ingredient) : Except Panic AisleIngredient :=
  match i.names with
  | [] => .error (.unwrapNone "into_category")
  | n :: rest => .ok ⟨n, rest⟩

/-- `original.ingredients.iter().for_each(..)` of `into_category` -/
def intoAisleIngredients : List Aisle.Ingredient → Except Panic (List AisleIngredient)
  | [] => .ok []
  | i :: rest =>
    match intoAisleIngredient i with
    | .error e => .error e
    | .ok fi =>
      match intoAisleIngredients rest with
      | .error e => .error e
      | .ok r => .ok (fi :: r)

/-- `into_category` -/
def intoCategory (c : Aisle.Category) : Except Panic AisleCategory :=
  match intoAisleIngredients c.ingredients with
  | .error e => .error e
  | .ok igrs => .ok ⟨c.name, igrs⟩

/-- "building cache", one ingredient: its name, then every alias, each mapped to the category name -/
def cacheIngredient (cat : Str) (cache : AList Str Str) (i : AisleIngredient) : AList Str Str :=
  i.aliases.foldl (fun c a => AList.insert c a cat) (AList.insert cache i.name cat)

/-- "building cache", one category -/
def cacheCategory (cache : AList Str Str) (c : AisleCategory) : AList Str Str :=
  c.ingredients.foldl (cacheIngredient c.name) cache

/-- `parsed.categories.iter().for_each(..)` of `parse_aisle_config`; `acc` holds the two local
    variables `categories` and `cache` -/
def parseAisleLoop : List Aisle.Category → FAisleConf → Except Panic FAisleConf
  | [], acc => .ok acc
  | c :: rest, acc =>
    match intoCategory c with
    | .error e => .error e
    | .ok cat => parseAisleLoop rest ⟨acc.categories ++ [cat], cacheCategory acc.cache cat⟩

/-- `parse_aisle_config`: `parse(&input).unwrap()`, then the loop -/
def parseAisleConfig (input : Str) : Except Panic FAisleConf :=
  match Aisle.parse input with
  | .error _ => .error (.unwrapNone "parse_aisle_config")
  | .ok c => parseAisleLoop c.categories ⟨[], []⟩

/-- `AisleConf::category_for`: `self.cache.get(&ingredient_name).cloned()` -/
def FAisleConf.categoryFor (c : FAisleConf) (name : Str) : Option Str := AList.get c.cache name

/-- one call of `category_for` as a transition of the object: the object afterwards, and the answer
    (`&self`: the object is the same afterwards) -/
def FAisleConf.call (c : FAisleConf) (name : Str) : FAisleConf × Option Str := (c, c.categoryFor name)

/-- a history of calls on one object: the object afterwards and the answers in order -/
def FAisleConf.run (c : FAisleConf) : List Str → FAisleConf × List (Option Str)
  | [] => (c, [])
  | q :: qs =>
    let step := c.call q
    let rest := FAisleConf.run step.1 qs
    (rest.1, step.2 :: rest.2)

end Cook.Ffi
