import CookModel.Side.Builder
import CookModel.Side.StdMetaBuilt
import CookModel.Num.Convert
/-
  C16 ∩ C09 — the converter the builder model produces (`Bld.Converter`, Side/Builder.lean), read as the converter
  the conversion model works with (`Cook.Converter`, Num/Units.lean, Num/Convert.lean).

  In the Rust code both are the one `Converter` struct (src/convert/mod.rs): `all_units: Vec<Arc<Unit>>`,
  `unit_index`, `quantity_index`, `best: EnumMap<PhysicalQuantity, BestConversionsStore>`, `fractions`,
  `default_system`.  The builder model keeps unit ids as numbers (positions in `all_units`, as the code does); the
  conversion model holds the `Unit` records themselves, each carrying its id, and finds a unit by scanning the keys
  (equal to the index lookup when the index is consistent: `C16_builder_inv`).  `convOfBuilt` resolves the ids:

    * unit `i` of `all_units` becomes a `Cook.Unit` with `id := i`;
    * a best-list entry `(threshold, id)` becomes `(threshold, all_units[id])` (`all_units[id]` is what
      `BestConversions::best_unit` / `fit_fraction` index; ids are in range: `C16_best_lists`, restated for the
      translation as `C16_built_best_entries`);
    * `fractions.quantity` (an `EnumMap`/map by quantity) becomes the association list `Fractions.config` looks up;
      `fractions.unit` is keyed by unit id on both sides;
    * `fracTable` is the static table of src/quantity.rs.

  `SM.convOfBuilt` (Side/StdMetaBuilt.lean) is the view `src/metadata.rs` takes of the same object; `SM.viewOf` below
  is that view taken of a `Cook.Converter`, and the two agree on every built converter (`C16_built_views_agree`).

  Not tied to the code by a driver operation of its own: the tie is `C16_built_bundled_is_generated` (the translation
  of the converter built from the shipped file IS the generated `Converter.bundled`, which the C09 runs compare with
  `Converter::bundled()` operation by operation).
-/
namespace Cook.Bld
open Cook

variable {α : Type}

def pqOf : PQ → PhysQ
  | .volume => .volume | .mass => .mass | .length => .length | .temperature => .temperature | .time => .time

def pqTo : PhysQ → PQ
  | .volume => .volume | .mass => .mass | .length => .length | .temperature => .temperature | .time => .time

def sysOf : Sys → System
  | .metric => .metric | .imperial => .imperial

/-- unit `id` of `all_units` -/
def unitOfBuilt (id : Nat) (u : Unit α) : Cook.Unit α :=
  { id := id, names := u.names, symbols := u.symbols, aliases := u.aliases, ratio := u.ratio,
    difference := u.difference, pq := pqOf u.quantity, system := u.system.map sysOf }

/-- `BestConversions(Vec<(f64, usize)>)` with the ids resolved in `all_units` -/
def bestOfBuilt (units : List (Unit α)) (l : List (α × Nat)) : BestConversions α :=
  ⟨l.filterMap (fun e => (units[e.2]?).map (fun u => (e.1, unitOfBuilt e.2 u)))⟩

def storeOfBuilt (units : List (Unit α)) : BestStore α → Cook.BestStore α
  | .unified l => .unified (bestOfBuilt units l)
  | .bySystem m i => .bySystem (bestOfBuilt units m) (bestOfBuilt units i)

def cfgOfBuilt (c : FracCfg α) : Cook.FracCfg α :=
  { enabled := c.enabled, accuracy := c.accuracy, maxDen := c.maxDen, maxWhole := c.maxWhole }

def fractionsOfBuilt (f : Fractions α) : Cook.Fractions α :=
  { all := f.all.map cfgOfBuilt, metric := f.metric.map cfgOfBuilt, imperial := f.imperial.map cfgOfBuilt,
    quantity := PhysQ.all.filterMap (fun q => (f.quantity (pqTo q)).map (fun c => (q, cfgOfBuilt c))),
    unit := f.unit.map (fun e => (e.1, cfgOfBuilt e.2)) }

/-- the store of quantity `q` in the `EnumMap` (a built converter has one per quantity) -/
def bestOfQuantity [Arith α] (conv : Converter α) (q : PhysQ) : Cook.BestStore α :=
  match conv.best.find? (fun e => decide (e.1 = pqTo q)) with
  | some e => storeOfBuilt conv.units e.2
  | none => emptyBest

/-- the built converter as the conversion model's `Converter` -/
def convOfBuilt [Arith α] (conv : Converter α) : Cook.Converter α :=
  { allUnits := conv.units.mapIdx unitOfBuilt,
    best := bestOfQuantity conv,
    fractions := fractionsOfBuilt conv.fractions,
    defaultSystem := sysOf conv.defaultSystem,
    fracTable := mkTable α Gen.DENOMS }

end Cook.Bld

namespace Cook.SM
open Cook

/-- what `src/metadata.rs` sees of a `Cook.Converter`: the time flag, ratio and difference of `all_units()`, and
    `find_unit` with the unit's position as its identity -/
def viewOf {α : Type} [Arith α] (c : Converter α) : Conv α :=
  { units := c.allUnits.map (fun u => { isTime := decide (u.pq = .time), ratio := u.ratio, diff := u.difference }),
    index := fun k => (c.findUnit k).map (·.id) }

end Cook.SM
