import CookModel.Side.StdMeta
/-
  C13 — the accessors of `Metadata` (src/metadata.rs:116-217) over the whole mapping: look the
  canonical name of a standard key up, then apply the `CooklangValueExt` accessor of
  Side/StdMeta.lean.  `Metadata::time` combines three keys.

  ADDED BY THE CLAUSE AUDIT (notes/audit-C13.md).  Tied to the code by the driver operation
  `sm_metadata` (Driver/Tie.lean): harness/src/props/c13.rs compares every accessor with the real
  `Metadata` accessors on the metadata map of parsed recipes (`entry`, `time_precedence_cases`); the
  harness also checks `Metadata::time` against the documentation with its own oracle, signature
  `c13:metadata-time-precedence`.
-/
namespace Cook.SM
open Cook

/-- `Metadata::get(StdKey)` (src/metadata.rs:117-119, `MetaIndex for StdKey` 233-237): the entry
    under the canonical name of the key (`StdKey::as_ref`) -/
def metaGet (k : StdKey) (m : List (Y × Y)) : Option Y := mapGet k.canon m

/-- `Metadata::title` (src/metadata.rs:137-139) -/
def metaTitle (m : List (Y × Y)) : Option Str := (metaGet .title m).bind asStr

/-- `Metadata::description` (src/metadata.rs:144-147) -/
def metaDescription (m : List (Y × Y)) : Option Str := (metaGet .description m).bind asStr

/-- `Metadata::tags` (src/metadata.rs:152-154) -/
def metaTags (m : List (Y × Y)) : Option (List Str) := (metaGet .tags m).bind valueAsTags

/-- `Metadata::author` (src/metadata.rs:161-164) -/
def metaAuthor (alpha : Char → Bool) (m : List (Y × Y)) : Option NameUrl := (metaGet .author m).bind (asNameAndUrl alpha)

/-- `Metadata::source` (src/metadata.rs:171-174) -/
def metaSource (alpha : Char → Bool) (m : List (Y × Y)) : Option NameUrl := (metaGet .source m).bind (asNameAndUrl alpha)

/-- `Metadata::servings` (src/metadata.rs:206-209) -/
def metaServings (m : List (Y × Y)) : Option (List Nat) := (metaGet .servings m).bind valueAsServings

/-- `Metadata::locale` (src/metadata.rs:213-216) -/
def metaLocale (m : List (Y × Y)) : Option (Str × Option Str) := (metaGet .locale m).bind valueAsLocale

section
variable {α : Type} [Arith α]

/-- `.get(key).and_then(|v| v.as_minutes(converter))` -/
def metaMinutes (c : Conv α) (k : StdKey) (m : List (Y × Y)) : Option Nat :=
  (metaGet k m).bind (fun v => (valueAsMinutes c v).toOption)

/-- `Metadata::time` (src/metadata.rs:181-200): the `time` key `as_time`; only when that key is
    MISSING, the combination of `prep time` and `cook time`, each `as_minutes` -/
def metaTime (c : Conv α) (m : List (Y × Y)) : Option RecipeTime :=
  match metaGet .time m with
  | some v => (valueAsTime c v).toOption
  | none =>
    if (metaMinutes c .prepTime m).isSome || (metaMinutes c .cookTime m).isSome
    then some (.composed (metaMinutes c .prepTime m) (metaMinutes c .cookTime m)) else none

/-- does the `Metadata` accessor that reads the key return something?  (`prep time` / `cook time`
    are read by `Metadata::time`, and only when there is no `time` key; keys without an accessor
    count as "something") -/
def metaGives (c : Conv α) (alpha : Char → Bool) (k : StdKey) (m : List (Y × Y)) : Bool :=
  match k with
  | .title => (metaTitle m).isSome
  | .description => (metaDescription m).isSome
  | .tags => (metaTags m).isSome
  | .author => (metaAuthor alpha m).isSome
  | .source => (metaSource alpha m).isSome
  | .servings => (metaServings m).isSome
  | .locale => (metaLocale m).isSome
  | .time => (metaTime c m).isSome
  | .prepTime => (metaMinutes c .prepTime m).isSome
  | .cookTime => (metaMinutes c .cookTime m).isSome
  | .course | .difficulty | .cuisine | .diet | .images => true

end

end Cook.SM
