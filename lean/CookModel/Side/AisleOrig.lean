import CookModel.Side.Aisle
/-
  The code of src/aisle.rs BEFORE the two repairs (upstream 7d5a086), kept to show that the
  theorems of C11 are sensitive to the two defects:
    7a  `assert!(s_ptr <= input_ptr.add(input.len() - 1))` — an empty slice at the very end
        of the input fails it (and `input.len() - 1` underflows for an empty input);
    7b  the line is trimmed with `trim_ascii`, its names with `trim`.
  Only what differs from Side/Aisle.lean is redefined; `write`, `lookup`, the text
  primitives are shared.  (Validated against the unrepaired tree with
  `C11_ORIG=1 VERIF_REPO=<tree at 7d5a086> ./check C11 quick`, see notes/selftest-C11.md.)
-/
namespace Cook.Aisle.Orig
open Cook.Aisle

def trimAsciiEndChars : List Char → List Char
  | [] => []
  | c :: cs => if (trimAsciiEndChars cs).isEmpty && isAsciiWhitespace c then [] else c :: trimAsciiEndChars cs

/-- `trim_ascii` = `trim_ascii_start` then `trim_ascii_end` (an all-blank text gives the empty
    slice at its END) -/
def trimAscii (s : Slice) : Slice :=
  ⟨s.off + utf8Len (s.chars.takeWhile isAsciiWhitespace), trimAsciiEndChars (s.chars.dropWhile isAsciiWhitespace)⟩

def calcSpan (inLen : Nat) (s : Slice) : Except Err Span :=
  if inLen = 0 then .error (.panic "attempt to subtract with overflow: input.len() - 1")
  else if s.off ≤ inLen - 1 then .ok s.span
  else .error (.panic "assertion failed: s_ptr <= input_ptr.add(input.len() - 1)")

def catLine (inLen : Nat) (st : St) (line : Slice) : Except Err St :=
  if line.chars.length < 2 then .error (.panic "slice index: &line[1..line.len() - 1]") else
  if (inner line).chars.elem '|' then
    (calcSpan inLen (inner line)).bind fun sp => .error (.invalidCategory sp)
  else
    match findUsed st.usedCats (inner line).chars with
    | some other =>
      (calcSpan inLen other).bind fun sp1 =>
      (calcSpan inLen (inner line)).bind fun sp2 =>
      .error (.duplicateCategory (inner line).chars sp1 sp2)
    | none =>
      .ok { cats := pushCur st, cur := some ⟨(inner line).chars, []⟩,
            usedCats := inner line :: st.usedCats, usedNames := st.usedNames }

def addNames (inLen : Nat) (used : List Slice) : List Slice → Except Err (List Slice)
  | [] => .ok used
  | seg :: rest =>
    match findUsed used (trim seg).chars with
    | some other =>
      (calcSpan inLen other).bind fun sp1 =>
      (calcSpan inLen (trim seg)).bind fun sp2 =>
      .error (.duplicateIngredient (trim seg).chars sp1 sp2)
    | none => addNames inLen (trim seg :: used) rest

def igrLine (inLen : Nat) (st : St) (line : Slice) : Except Err St :=
  match addNames inLen st.usedNames (slicesFrom line.off (pieces '|' line.chars)) with
  | .error e => .error e
  | .ok used =>
    match st.cur with
    | some cat =>
      .ok { cats := st.cats,
            cur := some ⟨cat.name, cat.ingredients ++ [⟨(pieces '|' line.chars).map trimChars⟩]⟩,
            usedCats := st.usedCats, usedNames := used }
    | none => (calcSpan inLen line).bind fun sp => .error (.expectedCategory sp)

def stepLine (inLen : Nat) (st : St) (raw : Slice) : Except Err St :=
  if isCatLine (trimAscii (stripComment raw)).chars then catLine inLen st (trimAscii (stripComment raw))
  else if !(trimAscii (stripComment raw)).chars.isEmpty then igrLine inLen st (trimAscii (stripComment raw))
  else .ok st

def parseLines (inLen : Nat) (st : St) : List Slice → Except Err St
  | [] => .ok st
  | l :: ls =>
    match stepLine inLen st l with
    | .error e => .error e
    | .ok st' => parseLines inLen st' ls

def parse (input : List Char) : Except Err Conf :=
  match parseLines (utf8Len input) St.init (lines input) with
  | .error e => .error e
  | .ok st => .ok ⟨pushCur st⟩

end Cook.Aisle.Orig
