import CookModel.Side.BindingsEntry
import CookModel.Side.BindingsSpec
/-
  Vocabulary of the C19 statements about the rest of the bindings' public surface (aisle wrapper,
  metadata map, reference lists), independent of the functions of Side/BindingsAisle.lean and
  Side/BindingsEntry.lean.
-/
namespace Cook.Ffi
open Cook

/-- the wrapper's ingredient shows the names of the core ingredient line: the first as `name`, the
    others, in order, as `aliases` -/
structure AisleIngredientMirrors (i : Aisle.Ingredient) (f : AisleIngredient) : Prop where
  names : i.names = f.name :: f.aliases

/-- same category name, one wrapper ingredient per ingredient line, in order -/
structure AisleCategoryMirrors (c : Aisle.Category) (f : AisleCategory) : Prop where
  name : f.name = c.name
  ingredients : Forall₂ AisleIngredientMirrors c.ingredients f.ingredients

/-- the entries of the core metadata map that the view can show: key and value both read as strings -/
def stringEntries (es : List MetaEntry) : List (Str × Str) :=
  es.filterMap fun e =>
    match e.key, e.value with
    | some k, some v => some (k, v)
    | _, _ => none

/-- every index of three reference lists resolves (`deref_*` do not panic) to the image of the core
    component with that index (`ItemResolves`, Side/BindingsSpec.lean) -/
def RefsResolve {α} [Arith α] (r : ScaledRecipe α) (v : CooklangRecipe α) (ing cw tm : List Nat) : Prop :=
  (∀ i ∈ ing, ItemResolves r v (.ingredientRef i)) ∧
  (∀ i ∈ cw, ItemResolves r v (.cookwareRef i)) ∧
  (∀ i ∈ tm, ItemResolves r v (.timerRef i))

end Cook.Ffi
