import CookModel.Side.AisleSink
/-
  C11 — the byte level of the aisle round trip.

  `aisle::write` puts BYTES into an `impl io::Write`; a caller reads them back with `std::str::from_utf8` and hands the
  `&str` to `aisle::parse`.  This file models the two conversions by hand over `Nat` arithmetic:

  * `utf8EncNat n`  — the UTF-8 form of the scalar value `n` (`char::encode_utf8`): 1–4 bytes by range.
  * `utf8Encode s`  — `String::as_bytes` of the text `s`.
  * `utf8DecNat bs` — `std::str::from_utf8` (core `run_utf8_validation`, the table of RFC 3629 / Unicode Table 3-7):
        first byte  00..7F                                   1 byte
                    C2..DF  + cont                           2 bytes   (C0, C1: overlong → error)
                    E0 + A0..BF + cont                       3 bytes   (E0 80..9F: overlong)
                    E1..EC, EE..EF + cont + cont
                    ED + 80..9F + cont                                 (ED A0..BF: surrogate)
                    F0 + 90..BF + cont + cont                4 bytes   (F0 80..8F: overlong)
                    F1..F3 + cont + cont + cont
                    F4 + 80..8F + cont + cont                          (F4 90..: > 10FFFF)
                    anything else (80..BF stray continuation, F5..FF), or too few bytes → error (`none`)
    `cont` = 80..BF.  `none` = `Err(Utf8Error)`; `some s` = `Ok(s)`.
  * `utf8Decode bs` — the same over `UInt8`.

  Tie: driver operations `utf8_enc <text>` / `utf8_dec <bytes>` (Driver/Aisle.lean), compared in harness/src/props/c11.rs
  with `str::as_bytes` / `std::str::from_utf8`.
-/
namespace Cook.Aisle

/-- `char::encode_utf8` of the scalar value `n`, bytes as naturals -/
def utf8EncNat (n : Nat) : List Nat :=
  if n < 0x80 then [n]
  else if n < 0x800 then [0xC0 + n / 64, 0x80 + n % 64]
  else if n < 0x10000 then [0xE0 + n / 4096, 0x80 + n / 64 % 64, 0x80 + n % 64]
  else [0xF0 + n / 262144, 0x80 + n / 4096 % 64, 0x80 + n / 64 % 64, 0x80 + n % 64]

/-- `String::as_bytes`: the text as UTF-8 bytes -/
def utf8Encode (s : List Char) : List UInt8 := (s.flatMap fun c => utf8EncNat c.toNat).map UInt8.ofNat

/-- a continuation byte `10xxxxxx` -/
def utf8Cont (b : Nat) : Bool := 0x80 ≤ b && b ≤ 0xBF

/-- the admissible second byte after a three-byte lead `b0` (E0..EF) -/
def utf8Second3 (b0 b1 : Nat) : Bool :=
  if b0 = 0xE0 then 0xA0 ≤ b1 && b1 ≤ 0xBF
  else if b0 = 0xED then 0x80 ≤ b1 && b1 ≤ 0x9F
  else utf8Cont b1

/-- the admissible second byte after a four-byte lead `b0` (F0..F4) -/
def utf8Second4 (b0 b1 : Nat) : Bool :=
  if b0 = 0xF0 then 0x90 ≤ b1 && b1 ≤ 0xBF
  else if b0 = 0xF4 then 0x80 ≤ b1 && b1 ≤ 0x8F
  else utf8Cont b1

/-- `str::from_utf8` over bytes as naturals; `none` = `Err(Utf8Error)` -/
def utf8DecNat : List Nat → Option (List Char)
  | [] => some []
  | b0 :: r =>
    if b0 < 0x80 then (utf8DecNat r).map (Char.ofNat b0 :: ·)
    else if 0xC2 ≤ b0 ∧ b0 ≤ 0xDF then
      match r with
      | b1 :: r =>
        if utf8Cont b1 then (utf8DecNat r).map (Char.ofNat ((b0 - 0xC0) * 64 + (b1 - 0x80)) :: ·) else none
      | _ => none
    else if 0xE0 ≤ b0 ∧ b0 ≤ 0xEF then
      match r with
      | b1 :: b2 :: r =>
        if utf8Second3 b0 b1 && utf8Cont b2 then
          (utf8DecNat r).map (Char.ofNat ((b0 - 0xE0) * 4096 + (b1 - 0x80) * 64 + (b2 - 0x80)) :: ·)
        else none
      | _ => none
    else if 0xF0 ≤ b0 ∧ b0 ≤ 0xF4 then
      match r with
      | b1 :: b2 :: b3 :: r =>
        if utf8Second4 b0 b1 && utf8Cont b2 && utf8Cont b3 then
          (utf8DecNat r).map
            (Char.ofNat ((b0 - 0xF0) * 262144 + (b1 - 0x80) * 4096 + (b2 - 0x80) * 64 + (b3 - 0x80)) :: ·)
        else none
      | _ => none
    else none

/-- `std::str::from_utf8` -/
def utf8Decode (bs : List UInt8) : Option (List Char) := utf8DecNat (bs.map UInt8.toNat)

end Cook.Aisle
