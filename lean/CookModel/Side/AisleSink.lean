import CookModel.Side.Aisle
/-
  C11 — `aisle::write` as the sequence of calls it makes on its destination (`impl std::io::Write`).

  `Aisle.write` (Side/Aisle.lean) is the TEXT the function produces.  The Rust function does not build that text: it
  formats piece by piece into the destination with `write!` / `writeln!`, i.e. `Write::write_fmt`, which hands every
  literal piece and every argument to `Write::write_all`, and `write_all` calls `Write::write` until the piece is
  consumed (`Ok(0)` on a non-empty piece is `Err(WriteZero)`).  A destination may accept fewer bytes than offered
  (a pipe, a socket, `&mut [u8]`); this file models such destinations and the calls made on them.

  `Sink`: accepts at most `perCall` bytes per `write` call and `cap` bytes in all (`Vec<u8>`: both unbounded;
  `&mut [u8]`: `cap` = its length; the harness' `Lim` sink has both).  `writePieces` is the fragmentation of the
  current source (`"[{}]"` + newline, first name, `"|{}"`, newline, newline); the theorems do not depend on it beyond
  `(writePieces c).flatten = write c`.
-/
namespace Cook.Aisle

/-- UTF-8 bytes of a text -/
def utf8 (l : List Char) : List UInt8 := l.flatMap String.utf8EncodeChar

structure Sink where
  perCall : Nat
  cap : Nat
  out : List UInt8
deriving Repr, DecidableEq

/-- room left -/
def Sink.room (s : Sink) : Nat := s.cap - s.out.length

/-- `Write::write`: the sink takes a prefix of the buffer and says how long it was -/
def Sink.write (s : Sink) (buf : List UInt8) : Sink × Nat :=
  ({ s with out := s.out ++ buf.take (min (min s.perCall s.room) buf.length) }, min (min s.perCall s.room) buf.length)

/-- `Write::write_all` (std): `while !buf.is_empty() { match self.write(buf) { Ok(0) => return Err(WriteZero),
    Ok(n) => buf = &buf[n..], … } }`; `false` = `Err(WriteZero)`.  The sink keeps what it got. -/
def writeAll (s : Sink) (buf : List UInt8) : Sink × Bool :=
  if buf.isEmpty then (s, true)
  else if (s.write buf).2 = 0 then ((s.write buf).1, false)
  else writeAll (s.write buf).1 (buf.drop (s.write buf).2)
termination_by buf.length
decreasing_by
  simp only [List.length_drop]
  have : buf.length ≠ 0 := by
    intro h; simp_all [List.isEmpty_iff, List.length_eq_zero_iff]
  omega

/-- consecutive `write_all` calls joined by `?` -/
def writeAllSeq (s : Sink) : List (List UInt8) → Sink × Bool
  | [] => (s, true)
  | p :: ps => if (writeAll s p).2 then writeAllSeq (writeAll s p).1 ps else ((writeAll s p).1, false)

/-- the pieces of one ingredient line: `write!(w, "{}", first)`, `write!(w, "|{}", name)` for the others, `writeln!(w)` -/
def igrPieces (i : Ingredient) : List (List Char) :=
  match i.names with
  | [] => []
  | n :: ns => n :: ns.flatMap (fun m => [['|'], m]) ++ [['\n']]

/-- `writeln!(w, "[{}]", name)`, the ingredient lines, `writeln!(w)` -/
def catPieces (c : Category) : List (List Char) :=
  [['['], c.name, [']', '\n']] ++ c.ingredients.flatMap igrPieces ++ [['\n']]

def writePieces (c : Conf) : List (List Char) := c.categories.flatMap catPieces

/-- `aisle::write(conf, sink)`: the sink afterwards and `true` = `Ok(())`, `false` = `Err(WriteZero)` -/
def writeTo (c : Conf) (s : Sink) : Sink × Bool := writeAllSeq s ((writePieces c).map utf8)

end Cook.Aisle
