import CookModel.Side.Serde
/-
  Model of `==` (`PartialEq`) on the serialised recipe types, as the property "deserializes to an EQUAL
  recipe" (C15) means it.

  Source (src/model.rs, src/quantity.rs, src/scale.rs, src/metadata.rs, src/parser/model.rs):
  * every type under `ScalableRecipe` DERIVES `PartialEq` — `Recipe<D, V>` (metadata, sections, ingredients,
    cookware, timers, inline_quantities, data), `Metadata` (`map`), `Servings`, `Section`, `Content`, `Step`, `Item`,
    `Ingredient`, `Cookware`, `Timer`, `Quantity`, `Value`, `ScalableValue`, `RecipeReference`,
    `IngredientRelation`, `ComponentRelation`, `IngredientReferenceTarget`, `Modifiers` — i.e. compares ALL
    fields, and none of these fields carries `#[serde(skip)]`: what `==` looks at is what the JSON carries;
  * the one hand-written impl is `impl PartialEq for Number`: `self.value().eq(&other.value())` — numbers are
    compared BY VALUE (`1/2` as a fraction equals `0.5`), with f64 `==` (NaN differs from itself);
  * the one skipped field, the payload of `ScaleOutcome::Error(#[serde(skip)] ScaleError)`, lives in `ScaledData`:
    `ScaledRecipe` = `Recipe<Scaled, Value>` has NO `==` (`Scaled`, `ScaledData`, `ScaleOutcome`, `ScaleTarget` do
    not implement `PartialEq`), so no equality ever sees it; for scaled recipes "equal" is equality of the JSON
    image (`C15_reencode_scaled`).
  * `serde_yaml::Mapping` equality (the metadata map) is the YAML library's; it is the parameter `meq`
    (reflexive: the library compares NaN numbers as equal).  The driver instantiates it with equality of the
    JSON-representable image, entry by entry in order (`Json.beq`).

  Tied to the code by the driver operation `eq scalable` (Driver/SerdeEq.lean): `a == b` of two real
  `ScalableRecipe`s against `eqScalableRecipe` of their S-expressions.
-/
namespace Cook.Serde
open Cook

mutual
/-- structural equality of JSON trees (objects are ordered) -/
def Json.beq : Json → Json → Bool
  | .null, .null => true
  | .bool a, .bool b => a == b
  | .num a, .num b => decide (a = b)
  | .str a, .str b => decide (a = b)
  | .arr a, .arr b => Json.beqList a b
  | .obj a, .obj b => Json.beqObj a b
  | _, _ => false
def Json.beqList : List Json → List Json → Bool
  | [], [] => true
  | x :: xs, y :: ys => Json.beq x y && Json.beqList xs ys
  | _, _ => false
def Json.beqObj : List (Key × Json) → List (Key × Json) → Bool
  | [], [] => true
  | (k, x) :: xs, (k', y) :: ys => decide (k = k') && Json.beq x y && Json.beqObj xs ys
  | _, _ => false
end

/-- equality of two metadata maps as the driver evaluates it: same entries in the same order -/
def metaBeq : Metadata → Metadata → Bool
  | [], [] => true
  | (k, x) :: xs, (k', y) :: ys => decide (k = k') && Json.beq x y && metaBeq xs ys
  | _, _ => false

section Eq
variable {α : Type} [Arith α]

/-- `impl PartialEq for Number` (quantity.rs:118): `self.value().eq(&other.value())` -/
def eqNumber (a b : Number α) : Bool := Arith.eq a.value b.value

/-- derived `PartialEq` of `Value` -/
def eqValue : Value α → Value α → Bool
  | .number a, .number b => eqNumber a b
  | .range s e, .range s' e' => eqNumber s s' && eqNumber e e'
  | .text a, .text b => decide (a = b)
  | _, _ => false

/-- derived `PartialEq` of `ScalableValue` -/
def eqScalable : ScalableValue α → ScalableValue α → Bool
  | .fixed a, .fixed b => eqValue a b
  | .linear a, .linear b => eqValue a b
  | _, _ => false

/-- `Option<T>` -/
def eqOpt {β} (f : β → β → Bool) : Option β → Option β → Bool
  | none, none => true
  | some a, some b => f a b
  | _, _ => false

/-- `Vec<T>` / slices: same length, element-wise -/
def eqList {β} (f : β → β → Bool) : List β → List β → Bool
  | [], [] => true
  | a :: as, b :: bs => f a b && eqList f as bs
  | _, _ => false

/-- derived `PartialEq` of `Quantity<V>` -/
def eqQuantity {V} (ev : V → V → Bool) (a b : Quantity V) : Bool :=
  ev a.value b.value && decide (a.unit = b.unit)

/-- derived `PartialEq` of `Ingredient<V>`: all seven fields -/
def eqIngredient {V} (ev : V → V → Bool) (a b : Ingredient V) : Bool :=
  decide (a.name = b.name) && decide (a.alias = b.alias) && eqOpt (eqQuantity ev) a.quantity b.quantity &&
  decide (a.note = b.note) && decide (a.reference = b.reference) && decide (a.relation = b.relation) &&
  decide (a.modifiers = b.modifiers)

/-- derived `PartialEq` of `Cookware<V>`: all six fields -/
def eqCookware {V} (ev : V → V → Bool) (a b : Cookware V) : Bool :=
  decide (a.name = b.name) && decide (a.alias = b.alias) && eqOpt ev a.quantity b.quantity &&
  decide (a.note = b.note) && decide (a.relation = b.relation) && decide (a.modifiers = b.modifiers)

/-- derived `PartialEq` of `Timer<V>` -/
def eqTimer {V} (ev : V → V → Bool) (a b : Timer V) : Bool :=
  decide (a.name = b.name) && eqOpt (eqQuantity ev) a.quantity b.quantity

/-- derived `PartialEq` of `Recipe<D, V>`: metadata, sections, ingredients, cookware, timers,
    inline_quantities, data — every field, in this order -/
def eqRecipe {V D} (meq : Metadata → Metadata → Bool) (ev : V → V → Bool) (ed : D → D → Bool)
    (a b : FullRecipe α V D) : Bool :=
  meq a.metadata b.metadata && decide (a.recipe.sections = b.recipe.sections) &&
  eqList (eqIngredient ev) a.recipe.ingredients b.recipe.ingredients &&
  eqList (eqCookware ev) a.recipe.cookware b.recipe.cookware &&
  eqList (eqTimer ev) a.recipe.timers b.recipe.timers &&
  eqList (eqQuantity eqValue) a.recipe.inlineQuantities b.recipe.inlineQuantities &&
  ed a.data b.data

/-- `ScalableRecipe == ScalableRecipe` (`Servings` derives `PartialEq, Eq`) -/
def eqScalableRecipe (meq : Metadata → Metadata → Bool) (a b : FullRecipe α (ScalableValue α) Servings) : Bool :=
  eqRecipe meq eqScalable (fun x y => decide (x = y)) a b

end Eq

/-! ### "no number is NaN": what makes `==` reflexive -/

section SelfEq
variable {α : Type} [Arith α]

/-- the value of the number is equal to itself (for an f64: it is not NaN; every rational) -/
def numberSelfEq (n : Number α) : Prop := Arith.eq n.value n.value = true

def valueSelfEq : Value α → Prop
  | .number n => numberSelfEq n
  | .range s e => numberSelfEq s ∧ numberSelfEq e
  | .text _ => True

def scalableSelfEq : ScalableValue α → Prop
  | .fixed v => valueSelfEq v
  | .linear v => valueSelfEq v

/-- no number of the recipe has a NaN value (`ok` says it for the value type `V`) -/
structure RecipeSelfEq {V} (ok : V → Prop) (r : Recipe α V) : Prop where
  ingredients : ∀ i ∈ r.ingredients, optFinite (fun q => ok q.value) i.quantity
  cookware : ∀ i ∈ r.cookware, optFinite ok i.quantity
  timers : ∀ i ∈ r.timers, optFinite (fun q => ok q.value) i.quantity
  inlineQuantities : ∀ q ∈ r.inlineQuantities, valueSelfEq q.value

end SelfEq

end Cook.Serde
