/-
  Model of /repo/src/aisle.rs (aisle configuration: `parse`, `write`, `ingredients_info`),
  AS REPAIRED by the two "fix:" patches in /verif/fixes (DESIGN.md §8 items 7a, 7b):
    7a  `calc_span`'s upper assertion compares with the end of the input (was: last byte);
    7b  a line is trimmed with `str::trim` like its names (was: `trim_ascii`).
  The code before the repair is kept in `Side/AisleOrig.lean` together with the
  machine-checked witnesses of the two defects.

  Text is `List Char`; positions are byte offsets (`utf8Len` of the text before), so a
  `Slice` is the model of a `&str` borrowed from the input: where it starts and what it
  contains.  Every function below follows the statement order of the Rust code.
-/
namespace Cook.Aisle

/-! ### text primitives (std routines re-implemented; tied to std by the correspondence run) -/

/-- number of UTF-8 bytes of a text -/
def utf8Len : List Char → Nat
  | [] => 0
  | c :: cs => c.utf8Size + utf8Len cs

/-- `char::is_whitespace`: the Unicode `White_Space` property (checked against std over all
    scalar values by the harness, op `ws_table`). -/
def isWhitespace (c : Char) : Bool :=
  (9 ≤ c.toNat && c.toNat ≤ 13) || c.toNat == 0x20 || c.toNat == 0x85 || c.toNat == 0xA0 ||
  c.toNat == 0x1680 || (0x2000 ≤ c.toNat && c.toNat ≤ 0x200A) || c.toNat == 0x2028 ||
  c.toNat == 0x2029 || c.toNat == 0x202F || c.toNat == 0x205F || c.toNat == 0x3000

/-- `u8::is_ascii_whitespace` (space, \t, \n, \x0C, \r — not \x0B); only the code before
    repair 7b uses it. -/
def isAsciiWhitespace (c : Char) : Bool :=
  c.toNat == 0x20 || c.toNat == 9 || c.toNat == 10 || c.toNat == 12 || c.toNat == 13

/-- a `&str` that borrows from the input: byte offset of its start, and its text -/
structure Slice where
  off : Nat
  chars : List Char
deriving Repr, DecidableEq

structure Span where
  start : Nat
  stop : Nat
deriving Repr, DecidableEq

def Slice.span (s : Slice) : Span := ⟨s.off, s.off + utf8Len s.chars⟩

/-- `split(sep)`: the first piece and the pieces after it (there is always a first piece) -/
def splitOn (sep : Char) : List Char → List Char × List (List Char)
  | [] => ([], [])
  | c :: cs =>
    let r := splitOn sep cs
    if c = sep then ([], r.1 :: r.2) else (c :: r.1, r.2)

def pieces (sep : Char) (l : List Char) : List (List Char) := (splitOn sep l).1 :: (splitOn sep l).2

/-- the pieces of a split as slices: each starts one separator byte (`|`, `\n`: one byte)
    after the end of the one before -/
def slicesFrom (off : Nat) : List (List Char) → List Slice
  | [] => []
  | p :: ps => ⟨off, p⟩ :: slicesFrom (off + utf8Len p + 1) ps

/-- `strip_suffix('\r')` or the text itself -/
def stripCRChars : List Char → List Char
  | [] => []
  | [c] => if c = '\r' then [] else [c]
  | c :: c2 :: cs => c :: stripCRChars (c2 :: cs)

def stripCR (s : Slice) : Slice := ⟨s.off, stripCRChars s.chars⟩

/-- `str::lines` on the pieces of `split('\n')`: a piece that was terminated by `\n` loses one
    trailing `\r`; the last piece (not terminated) is a line only if it is not empty and
    keeps a trailing `\r` (std ≥ 1.77: `split_inclusive('\n')` + strip `\n` then `\r`). -/
def finishLines : List Slice → List Slice
  | [] => []
  | [last] => if last.chars.isEmpty then [] else [last]
  | s :: s2 :: rest => stripCR s :: finishLines (s2 :: rest)

def lines (input : List Char) : List Slice := finishLines (slicesFrom 0 (pieces '\n' input))

/-- `line.split_once("//")` keeps what is before the first `//` -/
def stripCommentChars : List Char → List Char
  | [] => []
  | [c] => [c]
  | c :: c2 :: cs => if c = '/' ∧ c2 = '/' then [] else c :: stripCommentChars (c2 :: cs)

def stripComment (s : Slice) : Slice := ⟨s.off, stripCommentChars s.chars⟩

/-- text without trailing white space -/
def trimEndChars : List Char → List Char
  | [] => []
  | c :: cs => if (trimEndChars cs).isEmpty && isWhitespace c then [] else c :: trimEndChars cs

def trimChars (l : List Char) : List Char := trimEndChars (l.dropWhile isWhitespace)

/-- `str::trim` (= `trim_matches(char::is_whitespace)`): when everything is white space the
    result is the empty slice at the START of the text (`i = j = 0`), otherwise it starts
    at the first non-white character. -/
def trim (s : Slice) : Slice :=
  if (s.chars.dropWhile isWhitespace).isEmpty then ⟨s.off, []⟩
  else ⟨s.off + utf8Len (s.chars.takeWhile isWhitespace), trimEndChars (s.chars.dropWhile isWhitespace)⟩

/-- `line.starts_with('[') && line.ends_with(']')` -/
def isCatLine (l : List Char) : Bool := l.head? == some '[' && l.getLast? == some ']'

/-- text of `&line[1..line.len() - 1]` -/
def innerChars (l : List Char) : List Char := (l.drop 1).dropLast

/-- `&line[1..line.len() - 1]` (the first character is one byte long where this is used;
    the model measures it) -/
def inner (line : Slice) : Slice := ⟨line.off + utf8Len (line.chars.take 1), innerChars line.chars⟩

/-! ### configuration, errors -/

structure Ingredient where
  names : List (List Char)
deriving Repr, DecidableEq

structure Category where
  name : List Char
  ingredients : List Ingredient
deriving Repr, DecidableEq

/-- `AisleConf` (the `len` cache cell is 0 in every parsed configuration and is not modelled) -/
structure Conf where
  categories : List Category
deriving Repr, DecidableEq

inductive Err where
  | invalidCategory (span : Span)                                    -- Parse "Invalid category name"
  | expectedCategory (span : Span)                                   -- Parse "Expected category"
  | duplicateCategory (name : List Char) (first second : Span)
  | duplicateIngredient (name : List Char) (first second : Span)
  | panic (site : String)
deriving Repr, DecidableEq

def Err.spans : Err → List Span
  | .invalidCategory s => [s]
  | .expectedCategory s => [s]
  | .duplicateCategory _ a b => [a, b]
  | .duplicateIngredient _ a b => [a, b]
  | .panic _ => []

/-- the closure `calc_span`.  `assert!(s_ptr >= input_ptr)`: offsets are naturals counted
    from the start of the input, nothing to test.  `assert!(s_ptr <= input_ptr + input.len())`
    (after repair 7a) is the test below; its failure is a panic value. -/
def calcSpan (inLen : Nat) (s : Slice) : Except Err Span :=
  if s.off ≤ inLen then .ok s.span else .error (.panic "calc_span: assertion failed: s_ptr <= end of input")

/-! ### parse -/

/-- the local variables of `parse` -/
structure St where
  cats : List Category          -- `categories`
  cur : Option Category         -- `current_category`
  usedCats : List Slice         -- `used_categories` (a set of borrowed names; newest first)
  usedNames : List Slice        -- `used_names`
deriving Repr

def St.init : St := ⟨[], none, [], []⟩

/-- `if let Some(cat) = current { categories.push(cat) }` -/
def pushCur (st : St) : List Category :=
  match st.cur with
  | some c => st.cats ++ [c]
  | none => st.cats

/-- `HashSet::get`: the stored slice equal (as text) to the key -/
def findUsed (used : List Slice) (key : List Char) : Option Slice :=
  used.find? (fun o => o.chars == key)

/-- the branch for a `[...]` line -/
def catLine (inLen : Nat) (st : St) (line : Slice) : Except Err St :=
  if line.chars.length < 2 then .error (.panic "slice index: &line[1..line.len() - 1]") else
  if (inner line).chars.elem '|' then
    (calcSpan inLen (inner line)).bind fun sp => .error (.invalidCategory sp)
  else
    match findUsed st.usedCats (inner line).chars with
    | some other =>
      (calcSpan inLen other).bind fun sp1 =>
      (calcSpan inLen (inner line)).bind fun sp2 =>
      .error (.duplicateCategory (inner line).chars sp1 sp2)
    | none =>
      .ok { cats := pushCur st, cur := some ⟨(inner line).chars, []⟩,
            usedCats := inner line :: st.usedCats, usedNames := st.usedNames }

/-- the loop `for mut n in line.split('|')` with the duplicate test -/
def addNames (inLen : Nat) (used : List Slice) : List Slice → Except Err (List Slice)
  | [] => .ok used
  | seg :: rest =>
    match findUsed used (trim seg).chars with
    | some other =>
      (calcSpan inLen other).bind fun sp1 =>
      (calcSpan inLen (trim seg)).bind fun sp2 =>
      .error (.duplicateIngredient (trim seg).chars sp1 sp2)
    | none => addNames inLen (trim seg :: used) rest

/-- the branch for a non-empty line that is not a category -/
def igrLine (inLen : Nat) (st : St) (line : Slice) : Except Err St :=
  match addNames inLen st.usedNames (slicesFrom line.off (pieces '|' line.chars)) with
  | .error e => .error e
  | .ok used =>
    match st.cur with
    | some cat =>
      .ok { cats := st.cats,
            cur := some ⟨cat.name, cat.ingredients ++ [⟨(pieces '|' line.chars).map trimChars⟩]⟩,
            usedCats := st.usedCats, usedNames := used }
    | none => (calcSpan inLen line).bind fun sp => .error (.expectedCategory sp)

/-- one iteration of `for mut line in input.lines()` -/
def stepLine (inLen : Nat) (st : St) (raw : Slice) : Except Err St :=
  if isCatLine (trim (stripComment raw)).chars then catLine inLen st (trim (stripComment raw))
  else if !(trim (stripComment raw)).chars.isEmpty then igrLine inLen st (trim (stripComment raw))
  else .ok st

def parseLines (inLen : Nat) (st : St) : List Slice → Except Err St
  | [] => .ok st
  | l :: ls =>
    match stepLine inLen st l with
    | .error e => .error e
    | .ok st' => parseLines inLen st' ls

def parse (input : List Char) : Except Err Conf :=
  match parseLines (utf8Len input) St.init (lines input) with
  | .error e => .error e
  | .ok st => .ok ⟨pushCur st⟩

/-! ### write -/

/-- pieces written one after the other with `sep` between them -/
def joinSep (sep : Char) : List (List Char) → List Char
  | [] => []
  | [n] => n
  | n :: n2 :: ns => n ++ sep :: joinSep sep (n2 :: ns)

/-- first name, then `|name` for every further one -/
abbrev joinBar (ns : List (List Char)) : List Char := joinSep '|' ns

/-- an ingredient without names writes nothing, otherwise its names and a newline -/
def writeIgr (i : Ingredient) : List Char :=
  if i.names.isEmpty then [] else joinBar i.names ++ ['\n']

def writeCat (c : Category) : List Char :=
  '[' :: c.name ++ [']', '\n'] ++ c.ingredients.flatMap writeIgr ++ ['\n']

def write (c : Conf) : List Char := c.categories.flatMap writeCat

/-! ### ingredients_info -/

structure Info where
  name : List Char
  common : List Char
  category : List Char
deriving Repr, DecidableEq

def igrEntries (cat : List Char) (i : Ingredient) : List (List Char × Info) :=
  match i.names with
  | [] => []                                              -- `let Some(common) = names.first() else continue`
  | common :: _ => i.names.map fun n => (n, ⟨n, common, cat⟩)

/-- the `map.insert` calls of `ingredients_info`, in order -/
def infoEntries (c : Conf) : List (List Char × Info) :=
  c.categories.flatMap fun cat => cat.ingredients.flatMap (igrEntries cat.name)

/-- `ingredients_info().get(name)`: the last insertion under that key is the one that stays -/
def lookup (c : Conf) (name : List Char) : Option Info :=
  ((infoEntries c).reverse.find? (fun e => e.1 == name)).map (·.2)

end Cook.Aisle
