import CookModel.Basic.Arith
/-
  C16 — data types of the converter builder model (src/convert/units_file.rs, src/convert/mod.rs).

  A `UnitsFile` is the ALREADY DESERIALISED configuration layer (TOML/serde is not modelled; the
  harness sends the Rust value as an S-expression).  Text is `List Char`.  Hash maps of the file
  that the builder ITERATES (`extend.units`, `fractions.unit`, `fractions.quantity`) are lists in
  the iteration order the real hash map had: the order is an explicit parameter and the theorems
  quantify over it.
-/
namespace Cook.Bld

abbrev Key := List Char

/-- `PhysicalQuantity`, in the order of the Rust enum (the order `enum_map!` evaluates in). -/
inductive PQ | volume | mass | length | temperature | time
  deriving DecidableEq, Repr

def PQ.all : List PQ := [.volume, .mass, .length, .temperature, .time]

theorem PQ.mem_all (q : PQ) : q ∈ PQ.all := by cases q <;> simp [PQ.all]

/-- `System` (`Default` = metric). -/
inductive Sys | metric | imperial
  deriving DecidableEq, Repr

/-- `Precedence` (`Default` = before). -/
inductive Prec | before | after | override
  deriving DecidableEq, Repr

/-- `SIPrefix`, in the order of the Rust enum (the iteration order of `EnumMap<SIPrefix, _>`). -/
inductive SIPrefix | kilo | hecto | deca | deci | centi | milli
  deriving DecidableEq, Repr

def SIPrefix.all : List SIPrefix := [.kilo, .hecto, .deca, .deci, .centi, .milli]

theorem SIPrefix.mem_all (p : SIPrefix) : p ∈ SIPrefix.all := by cases p <;> simp [SIPrefix.all]

/-- `UnitEntry` -/
structure UnitEntry (α : Type) where
  names : List Key
  symbols : List Key
  aliases : List Key
  ratio : α
  difference : α
  expandSi : Bool

/-- `Units` -/
inductive UnitsDecl (α : Type)
  | unified (us : List (UnitEntry α))
  | bySystem (metric imperial unspecified : List (UnitEntry α))

/-- `BestUnits` -/
inductive BestDecl
  | unified (l : List Key)
  | bySystem (metric imperial : List Key)

/-- `QuantityGroup` -/
structure QuantityGroup (α : Type) where
  quantity : PQ
  best : Option BestDecl
  units : Option (UnitsDecl α)

/-- `ExtendUnitEntry` -/
structure ExtendEntry (α : Type) where
  ratio : Option α
  difference : Option α
  names : Option (List Key)
  symbols : Option (List Key)
  aliases : Option (List Key)

/-- `Extend`; `units` in the iteration order of the hash map. -/
structure Extend (α : Type) where
  precedence : Prec
  units : List (Key × ExtendEntry α)

/-- `SI`; an `EnumMap<SIPrefix, Vec<String>>` is a function. -/
structure SIConf where
  prefixes : Option (SIPrefix → List Key)
  symbolPrefixes : Option (SIPrefix → List Key)
  precedence : Prec

/-- `FractionsConfigHelper` (accuracy is an `f32`; it is carried as the `α` value it widens to). -/
structure FracH (α : Type) where
  enabled : Option Bool
  accuracy : Option α
  maxDen : Option Nat
  maxWhole : Option Nat

/-- `FractionsConfigWrapper` -/
inductive FracW (α : Type)
  | toggle (b : Bool)
  | custom (c : FracH α)

/-- `units_file::Fractions`; `quantity` and `unit` in the iteration order of their hash maps. -/
structure FractionsDecl (α : Type) where
  all : Option (FracW α)
  metric : Option (FracW α)
  imperial : Option (FracW α)
  quantity : List (PQ × FracW α)
  unit : List (Key × FracW α)

/-- `UnitsFile` -/
structure UnitsFile (α : Type) where
  defaultSystem : Option Sys
  si : Option SIConf
  fractions : Option (FractionsDecl α)
  extend : Option (Extend α)
  quantity : List (QuantityGroup α)

end Cook.Bld
