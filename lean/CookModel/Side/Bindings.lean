import CookModel.Analysis.Model
/-
  Model of the FFI view of the bindings crate
  (bindings/src/model.rs, bindings/src/lib.rs: `into_simple_recipe`, `into_item`, the three
  `From` impls, `extract_value`, `into_group_quantity`, `merge_grouped_quantities`,
  `add_to_ingredient_list`, `expand_with_ingredients`, `combine_ingredients(_selected)`,
  `merge_ingredient_lists`, `deref_*`).

  * Vectors are lists; `push` is `++ [x]`, `extend` is `++`.
  * `usize as u32` is `% 2^32` (`toU32`), `u32 as usize` is the identity.
  * Hash maps are association lists (`AList`): `get`, `entry().and_modify().or_insert()`,
    `insert` on an absent key.  Where the code ITERATES a hash map (`right.iter()` in the two merge
    functions) the order of the list IS the iteration order; the theorems quantify over its
    permutations.
  * `unwrap()` on `None` and the four `panic!("Unexpected type")` are `Except.error`.
  * The view's `metadata` map (string-valued entries of the YAML map) is not part of the model
    (the property does not speak about it; `Recipe` of Analysis/Model.lean has no metadata).
-/
namespace Cook.Ffi
open Cook

/-- `x as u32` for a `usize` -/
def toU32 (n : Nat) : Nat := n % 4294967296

inductive Panic where
  | unwrapNone (site : String)
  | unexpectedType
deriving Repr, DecidableEq

instance {ε β : Type} [DecidableEq ε] [DecidableEq β] : DecidableEq (Except ε β)
  | .ok a, .ok b => if h : a = b then isTrue (h ▸ rfl) else isFalse (fun e => h (Except.ok.inj e))
  | .error a, .error b => if h : a = b then isTrue (h ▸ rfl) else isFalse (fun e => h (Except.error.inj e))
  | .ok _, .error _ => isFalse (fun e => nomatch e)
  | .error _, .ok _ => isFalse (fun e => nomatch e)

/-! ## The view types (bindings/src/model.rs) -/

/-- `model::Value` of the bindings -/
inductive FValue (α : Type) where
  | number (value : α)
  | range (s e : α)
  | text (value : Str)
  | empty
deriving Repr, Inhabited, DecidableEq

structure Amount (α : Type) where
  quantity : FValue α
  units : Option Str
deriving Repr, Inhabited, DecidableEq

structure FIngredient (α : Type) where
  name : Str
  amount : Option (Amount α)
  descriptor : Option Str
deriving Repr, Inhabited, DecidableEq

structure FCookware (α : Type) where
  name : Str
  amount : Option (Amount α)
deriving Repr, Inhabited, DecidableEq

structure FTimer (α : Type) where
  name : Option Str
  amount : Option (Amount α)
deriving Repr, Inhabited, DecidableEq

inductive FItem where
  | text (value : Str)
  | ingredientRef (index : Nat)
  | cookwareRef (index : Nat)
  | timerRef (index : Nat)
deriving Repr, Inhabited, DecidableEq

structure FStep where
  items : List FItem
  ingredientRefs : List Nat
  cookwareRefs : List Nat
  timerRefs : List Nat
deriving Repr, Inhabited, DecidableEq

inductive Block where
  | stepBlock (s : FStep)
  | noteBlock (text : Str)
deriving Repr, Inhabited, DecidableEq

structure FSection where
  title : Option Str
  blocks : List Block
  ingredientRefs : List Nat
  cookwareRefs : List Nat
  timerRefs : List Nat
deriving Repr, Inhabited, DecidableEq

structure CooklangRecipe (α : Type) where
  sections : List FSection
  ingredients : List (FIngredient α)
  cookware : List (FCookware α)
  timers : List (FTimer α)
deriving Repr, Inhabited

inductive Component (α : Type) where
  | ingredient (c : FIngredient α)
  | cookware (c : FCookware α)
  | timer (c : FTimer α)
  | text (value : Str)
deriving Repr, Inhabited, DecidableEq

/-! ## Conversion of the core recipe -/

/-- `extract_value` -/
def extractValue {α} [Arith α] : Value α → FValue α
  | .number n => .number n.value
  | .range s e => .range s.value e.value
  | .text t => .text t

/-- `impl Amountable for Quantity<Value>` -/
def extractAmountQ {α} [Arith α] (q : Quantity (Value α)) : Amount α :=
  { quantity := extractValue q.value, units := q.unit }

/-- `impl Amountable for Value` -/
def extractAmountV {α} [Arith α] (v : Value α) : Amount α :=
  { quantity := extractValue v, units := none }

/-- `impl From<&cooklang::Ingredient<Value>> for Ingredient` -/
def fromIngredient {α} [Arith α] (i : Ingredient (Value α)) : FIngredient α :=
  { name := i.name, amount := i.quantity.map extractAmountQ, descriptor := i.note }

/-- `impl From<&cooklang::Cookware<Value>> for Cookware` -/
def fromCookware {α} [Arith α] (c : Cookware (Value α)) : FCookware α :=
  { name := c.name, amount := c.quantity.map extractAmountV }

/-- `impl From<&cooklang::Timer<Value>> for Timer`: `Some(name.unwrap_or_default())` -/
def fromTimer {α} [Arith α] (t : Timer (Value α)) : FTimer α :=
  { name := some (t.name.getD []), amount := t.quantity.map extractAmountQ }

/-- `into_item` -/
def intoItem : Item → FItem
  | .text v => .text v
  | .ingredient i => .ingredientRef (toU32 i)
  | .cookware i => .cookwareRef (toU32 i)
  | .timer i => .timerRef (toU32 i)
  | .inlineQuantity _ => .text []

/-- the four local vectors of the step loop -/
structure StepAcc where
  items : List FItem
  ing : List Nat
  cw : List Nat
  tm : List Nat
deriving Repr, DecidableEq

/-- body of `for item in &step.items` -/
def stepBody (acc : StepAcc) (item : Item) : StepAcc :=
  let it := intoItem item
  let acc1 : StepAcc := match it with
    | .ingredientRef i => { acc with ing := acc.ing ++ [i] }
    | .cookwareRef i => { acc with cw := acc.cw ++ [i] }
    | .timerRef i => { acc with tm := acc.tm ++ [i] }
    | .text _ => acc
  { acc1 with items := acc1.items ++ [it] }

def stepLoop (items : List Item) : StepAcc := items.foldl stepBody ⟨[], [], [], []⟩

/-- the four local vectors of the section loop -/
structure SecAcc where
  blocks : List Block
  ing : List Nat
  cw : List Nat
  tm : List Nat
deriving Repr, DecidableEq

/-- body of `for content in &section.content` -/
def secBody (acc : SecAcc) : Content → SecAcc
  | .step s =>
    let a := stepLoop s.items
    { blocks := acc.blocks ++ [.stepBlock ⟨a.items, a.ing, a.cw, a.tm⟩],
      ing := acc.ing ++ a.ing, cw := acc.cw ++ a.cw, tm := acc.tm ++ a.tm }
  | .text t => { acc with blocks := acc.blocks ++ [.noteBlock t] }

def secLoop (content : List Content) : SecAcc := content.foldl secBody ⟨[], [], [], []⟩

/-- body of `for section in &recipe.sections` -/
def intoSection (s : Section) : FSection :=
  let a := secLoop s.content
  { title := s.name, blocks := a.blocks, ingredientRefs := a.ing, cookwareRefs := a.cw, timerRefs := a.tm }

/-- `into_simple_recipe` (without the metadata map) -/
def intoSimpleRecipe {α} [Arith α] (r : ScaledRecipe α) : CooklangRecipe α :=
  { ingredients := r.ingredients.map fromIngredient,
    cookware := r.cookware.map fromCookware,
    timers := r.timers.map fromTimer,
    sections := r.sections.foldl (fun acc s => acc ++ [intoSection s]) [] }

/-! ## `deref_*` (bindings/src/lib.rs) -/

def getOrPanic {β} (l : List β) (i : Nat) (site : String) : Except Panic β :=
  match l[i]? with
  | some x => .ok x
  | none => .error (.unwrapNone site)

def derefIngredient {α} (r : CooklangRecipe α) (index : Nat) : Except Panic (FIngredient α) :=
  getOrPanic r.ingredients index "deref_ingredient"

def derefCookware {α} (r : CooklangRecipe α) (index : Nat) : Except Panic (FCookware α) :=
  getOrPanic r.cookware index "deref_cookware"

def derefTimer {α} (r : CooklangRecipe α) (index : Nat) : Except Panic (FTimer α) :=
  getOrPanic r.timers index "deref_timer"

def derefComponent {α} (r : CooklangRecipe α) : FItem → Except Panic (Component α)
  | .ingredientRef i => (getOrPanic r.ingredients i "deref_component").map .ingredient
  | .cookwareRef i => (getOrPanic r.cookware i "deref_component").map .cookware
  | .timerRef i => (getOrPanic r.timers i "deref_component").map .timer
  | .text v => .ok (.text v)

/-! ## Combining ingredients -/

inductive QuantityType where
  | number | range | text | empty
deriving Repr, Inhabited, DecidableEq

structure GKey where
  name : Str
  unitType : QuantityType
deriving Repr, Inhabited, DecidableEq

/-- association list standing for a `HashMap` -/
abbrev AList (κ β : Type) := List (κ × β)

def AList.get {κ β} [DecidableEq κ] : AList κ β → κ → Option β
  | [], _ => none
  | (k', v) :: rest, k => if k' = k then some v else AList.get rest k

def AList.keys {κ β} (m : AList κ β) : List κ := m.map Prod.fst

/-- `GroupedQuantity = HashMap<GroupedQuantityKey, Value>` -/
abbrev GroupedQuantity (α : Type) := AList GKey (FValue α)
/-- `IngredientList = HashMap<String, GroupedQuantity>` -/
abbrev IngredientList (α : Type) := AList Str (GroupedQuantity α)

def FValue.kind {α} : FValue α → QuantityType
  | .number _ => .number
  | .range _ _ => .range
  | .text _ => .text
  | .empty => .empty

/-- `into_group_quantity`: a one-entry map -/
def intoGroupQuantity {α} (amount : Option (Amount α)) : GroupedQuantity α :=
  match amount with
  | some a => [(⟨a.units.getD [], a.quantity.kind⟩, a.quantity)]
  | none => [(⟨[], .empty⟩, .empty)]

/-- the closure of `and_modify` in `merge_grouped_quantities`: `stored` is the value in the map,
    `value` the one that is added; `match key.unit_type` with the `let … else panic!` pairs in the
    order of the source (the added value is destructured first) -/
def modifyStored {α} [Arith α] (ty : QuantityType) (value stored : FValue α) : Except Panic (FValue α) :=
  match ty with
  | .number =>
    match value with
    | .number a =>
      match stored with
      | .number s => .ok (.number (s + a))
      | _ => .error .unexpectedType
    | _ => .error .unexpectedType
  | .range =>
    match value with
    | .range st en =>
      match stored with
      | .range s e => .ok (.range (s + st) (e + en))
      | _ => .error .unexpectedType
    | _ => .error .unexpectedType
  | .text =>
    match value with
    | .text a =>
      match stored with
      | .text s => .ok (.text (s ++ a))
      | _ => .error .unexpectedType
    | _ => .error .unexpectedType
  | .empty => .ok stored

/-- `left.entry(key).and_modify(..).or_insert(value)` -/
def entryModify {α} [Arith α] : GroupedQuantity α → GKey → FValue α → Except Panic (GroupedQuantity α)
  | [], key, value => .ok [(key, value)]
  | (k, stored) :: rest, key, value =>
    if k = key then
      (modifyStored key.unitType value stored).map (fun v => (k, v) :: rest)
    else
      (entryModify rest key value).map (fun r => (k, stored) :: r)

/-- `merge_grouped_quantities`: `right.iter().for_each(..)`, the list order of `right` is the
    iteration order -/
def mergeGroupedQuantities {α} [Arith α] (left : GroupedQuantity α) : GroupedQuantity α → Except Panic (GroupedQuantity α)
  | [] => .ok left
  | (key, value) :: rest => do
    let l ← entryModify left key value
    mergeGroupedQuantities l rest

/-- `add_to_ingredient_list`: `get_mut(name)` → merge, else `insert` -/
def addToIngredientList {α} [Arith α] : IngredientList α → Str → GroupedQuantity α → Except Panic (IngredientList α)
  | [], name, q => .ok [(name, q)]
  | (n, g) :: rest, name, q =>
    if n = name then
      (mergeGroupedQuantities g q).map (fun g' => (n, g') :: rest)
    else
      (addToIngredientList rest name q).map (fun r => (n, g) :: r)

/-- `expand_with_ingredients` -/
def expandWithIngredients {α} [Arith α] (ingredients : List (FIngredient α)) :
    IngredientList α → List Nat → Except Panic (IngredientList α)
  | base, [] => .ok base
  | base, index :: rest => do
    let ingredient ← getOrPanic ingredients index "expand_with_ingredients"
    let base' ← addToIngredientList base ingredient.name (intoGroupQuantity ingredient.amount)
    expandWithIngredients ingredients base' rest

/-- `combine_ingredients_selected` -/
def combineIngredientsSelected {α} [Arith α] (ingredients : List (FIngredient α)) (indices : List Nat) :
    Except Panic (IngredientList α) :=
  expandWithIngredients ingredients [] indices

/-- `combine_ingredients`: `(0..len).map(|i| i as u32)` -/
def combineIngredients {α} [Arith α] (ingredients : List (FIngredient α)) : Except Panic (IngredientList α) :=
  combineIngredientsSelected ingredients ((List.range ingredients.length).map toU32)

/-- `left.entry(name).or_default()` followed by the merge -/
def entryOrDefaultMerge {α} [Arith α] : IngredientList α → Str → GroupedQuantity α → Except Panic (IngredientList α)
  | [], name, q => (mergeGroupedQuantities [] q).map (fun g => [(name, g)])
  | (n, g) :: rest, name, q =>
    if n = name then
      (mergeGroupedQuantities g q).map (fun g' => (n, g') :: rest)
    else
      (entryOrDefaultMerge rest name q).map (fun r => (n, g) :: r)

/-- `merge_ingredient_lists` (public, not exported over the FFI) -/
def mergeIngredientLists {α} [Arith α] (left : IngredientList α) : IngredientList α → Except Panic (IngredientList α)
  | [] => .ok left
  | (name, g) :: rest => do
    let l ← entryOrDefaultMerge left name g
    mergeIngredientLists l rest

/-- the value stored for ingredient `name` under `key` -/
def IngredientList.value {α} (m : IngredientList α) (name : Str) (key : GKey) : Option (FValue α) :=
  (AList.get m name).bind (fun g => AList.get g key)

end Cook.Ffi
