import CookModel.Side.Aisle
/-
  Specification-level vocabulary for property C11: what it means for a span to be legal,
  an independent description of the line structure of an aisle file (a right fold, where
  the code is a left-to-right state machine), and the well-formedness predicate that
  characterises the configurations `parse` can return.
-/
namespace Cook.Aisle

/-- results of `parse` can be compared (used by the `example`s and the driver) -/
instance instDecEqResult : DecidableEq (Except Err Conf) := fun a b =>
  match a, b with
  | .ok x, .ok y => if h : x = y then isTrue (by rw [h]) else isFalse (fun e => by cases e; exact h rfl)
  | .error x, .error y => if h : x = y then isTrue (by rw [h]) else isFalse (fun e => by cases e; exact h rfl)
  | .ok _, .error _ => isFalse (fun e => by cases e)
  | .error _, .ok _ => isFalse (fun e => by cases e)

/-- `sp` is the byte span of an occurrence of `text` inside `input`
    (so it is inside the input, and both ends are char boundaries) -/
def SpanOf (input : List Char) (sp : Span) (text : List Char) : Prop :=
  ∃ pre post, input = pre ++ text ++ post ∧ sp.start = utf8Len pre ∧ sp.stop = utf8Len pre + utf8Len text

/-- `n` is a char boundary of `input`: the byte length of a prefix -/
def IsBoundary (input : List Char) (n : Nat) : Prop := ∃ pre post, input = pre ++ post ∧ utf8Len pre = n

/-- inside the input and on char boundaries -/
def SpanLegal (input : List Char) (sp : Span) : Prop :=
  sp.start ≤ sp.stop ∧ sp.stop ≤ utf8Len input ∧ IsBoundary input sp.start ∧ IsBoundary input sp.stop

/-- what an error value must satisfy: not a panic, and every span is the span of the text
    the error is about -/
def ErrOK (input : List Char) : Err → Prop
  | .invalidCategory sp => ∃ text, SpanOf input sp text ∧ '|' ∈ text
  | .expectedCategory sp => ∃ text, SpanOf input sp text ∧ text ≠ []
  | .duplicateCategory n a b => SpanOf input a n ∧ SpanOf input b n
  | .duplicateIngredient n a b => SpanOf input a n ∧ SpanOf input b n
  | .panic _ => False

/-! ### line structure -/

inductive LineKind where
  | blank
  | cat (name : List Char)
  | igr (names : List (List Char))
deriving Repr, DecidableEq

/-- what a line is, from its text alone: comment removed, trimmed; `[name]`, nothing, or
    the trimmed `|`-separated names -/
def classify (raw : List Char) : LineKind :=
  if isCatLine (trimChars (stripCommentChars raw)) then .cat (innerChars (trimChars (stripCommentChars raw)))
  else if (trimChars (stripCommentChars raw)).isEmpty then .blank
  else .igr ((pieces '|' (trimChars (stripCommentChars raw))).map trimChars)

/-- grouping as a right fold: (ingredient lines before the first category of the suffix,
    categories of the suffix with their ingredient lines) -/
def groupR : List LineKind → List Ingredient × List Category
  | [] => ([], [])
  | .blank :: ks => groupR ks
  | .igr ns :: ks => (⟨ns⟩ :: (groupR ks).1, (groupR ks).2)
  | .cat n :: ks => ([], ⟨n, (groupR ks).1⟩ :: (groupR ks).2)

/-- the texts of the lines of a file -/
def lineTexts (input : List Char) : List (List Char) := (lines input).map (·.chars)

/-! ### the range of `parse` -/

/-- the text contains `//` -/
def hasComment : List Char → Bool
  | [] => false
  | [_] => false
  | c :: c2 :: cs => (c == '/' && c2 == '/') || hasComment (c2 :: cs)

def allNames (cs : List Category) : List (List Char) := cs.flatMap fun c => c.ingredients.flatMap (·.names)

structure CatNameOK (n : List Char) : Prop where
  noBar : '|' ∉ n
  noNewline : '\n' ∉ n
  noComment : hasComment n = false

structure NameOK (n : List Char) : Prop where
  trimmed : trimChars n = n
  noBar : '|' ∉ n
  noNewline : '\n' ∉ n
  noComment : hasComment n = false

structure IgrWF (ns : List (List Char)) : Prop where
  nonempty : ns ≠ []
  names : ∀ n ∈ ns, NameOK n
  notCat : isCatLine (joinBar ns) = false
  notBlank : joinBar ns ≠ []

structure CatWF (c : Category) : Prop where
  name : CatNameOK c.name
  igrs : ∀ i ∈ c.ingredients, IgrWF i.names

/-- well-formed configurations: exactly what `parse` returns (`C11_parse_wf`) and what
    survives `write` + `parse` (`C11_roundtrip_wf`) -/
structure WF (c : Conf) : Prop where
  cats : ∀ cat ∈ c.categories, CatWF cat
  catsNodup : (c.categories.map (·.name)).Nodup
  namesNodup : (allNames c.categories).Nodup

end Cook.Aisle
