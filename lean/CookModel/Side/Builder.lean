import CookModel.Side.BuilderTypes
import CookModel.Gen.UnitsFile
/-
  C16 — model of `ConverterBuilder` (src/convert/builder.rs), as repaired by
  fixes/0001-fix-reject-best-units-of-another-physical-quantity-w.patch.

  Statement order, error order and the places where the Rust code indexes / unwraps / asserts are
  kept: each of those is `Except.error (.panic site)`.  Numeric fields are over `[Arith α]`.
  Hash maps that are only looked up are association lists (`Index`); hash maps that are iterated
  are lists given by the caller (see BuilderTypes.lean).
-/
namespace Cook.Bld
open Cook

/-! ## Results -/

/-- `ConverterBuilderError` (+ panic sites). Payloads: the offending key where the Rust error has one. -/
inductive Err
  | duplicateUnit (k : Key)
  | duplicateExtendUnit (k : Key)
  | invalidExtendExpanded (k : Key)
  | unknownUnit (k : Key)
  | emptyUnit
  | emptyUnitKey
  /-- `noneGiven = false`: "empty list of units"; `true`: "no best units given" -/
  | emptyBest (q : PQ) (noneGiven : Bool)
  | emptySIPrefixes
  /-- added by the repair: a best unit that belongs to another physical quantity -/
  | bestUnitQuantity (k : Key) (q : PQ) (uq : PQ)
  | panic (site : String)
  deriving DecidableEq, Repr

def Err.isPanic : Err → Bool
  | .panic _ => true
  | _ => false

/-- `Unit` -/
structure Unit (α : Type) where
  names : List Key
  symbols : List Key
  aliases : List Key
  ratio : α
  difference : α
  quantity : PQ
  system : Option Sys

/-- `Unit::all_keys` -/
def Unit.keys {α : Type} (u : Unit α) : List Key := u.names ++ u.symbols ++ u.aliases

/-- `UnitBuilder` -/
structure UnitB (α : Type) where
  unit : Unit α
  isExpanded : Bool
  expandSi : Bool
  expanded : Option (SIPrefix → Nat)

/-! ## The unit index (`UnitIndex`, a `HashMap<Arc<str>, usize>`) -/

abbrev Index := List (Key × Nat)

/-- `HashMap::get` -/
def idxGet : Index → Key → Option Nat
  | [], _ => none
  | (k', v) :: t, k => if k = k' then some v else idxGet t k

/-- `HashMap::remove` -/
def idxErase (idx : Index) (k : Key) : Index := idx.filter (fun e => decide (e.1 ≠ k))

/-- `char::is_whitespace` (Unicode `White_Space`) -/
def isWs (c : Char) : Bool :=
  let n := c.toNat
  (9 ≤ n && n ≤ 13) || n == 32 || n == 0x85 || n == 0xA0 || n == 0x1680 || (0x2000 ≤ n && n ≤ 0x200A)
    || n == 0x2028 || n == 0x2029 || n == 0x202F || n == 0x205F || n == 0x3000

/-- `key.trim().is_empty()` -/
def isBlankKey (k : Key) : Bool := k.all isWs

/-- the loop of `UnitIndex::add_unit` -/
def indexAddKeys (id : Nat) : List Key → Index → Except Err Index
  | [], idx => .ok idx
  | k :: ks, idx =>
    if isBlankKey k then .error .emptyUnitKey
    else match idxGet idx k with
      | some _ => .error (.duplicateUnit k)
      | none => indexAddKeys id ks ((k, id) :: idx)

/-- `UnitIndex::add_unit` (`added == 0` iff the unit has no key at all) -/
def indexAddUnit {α : Type} (idx : Index) (u : Unit α) (id : Nat) : Except Err Index :=
  match indexAddKeys id u.keys idx with
  | .error e => .error e
  | .ok idx' => if u.keys.isEmpty then .error .emptyUnit else .ok idx'

/-- `UnitIndex::remove_unit` -/
def indexRemoveKeys (idx : Index) : List Key → Index
  | [] => idx
  | k :: ks => indexRemoveKeys (idxErase idx k) ks

/-! ## Units and index together -/

structure Core (α : Type) where
  units : List (UnitB α)
  index : Index

/-- `ConverterBuilder::add_unit` -/
def Core.addUnit {α : Type} (c : Core α) (u : UnitB α) : Except Err (Core α × Nat) :=
  match indexAddUnit c.index u.unit c.units.length with
  | .error e => .error e
  | .ok idx => .ok ({ units := c.units ++ [u], index := idx }, c.units.length)

def mkUnitB {α : Type} (q : PQ) (sys : Option Sys) (e : UnitEntry α) : UnitB α :=
  { unit := { names := e.names, symbols := e.symbols, aliases := e.aliases, ratio := e.ratio,
              difference := e.difference, quantity := q, system := sys },
    isExpanded := false, expandSi := e.expandSi, expanded := none }

/-- the closure `add_units` of `add_units_file` -/
def addUnitsList {α : Type} (q : PQ) (sys : Option Sys) : List (UnitEntry α) → Core α → Except Err (Core α)
  | [], c => .ok c
  | e :: es, c =>
    match c.addUnit (mkUnitB q sys e) with
    | .error err => .error err
    | .ok r => addUnitsList q sys es r.1

def addGroupUnits {α : Type} (q : PQ) : Option (UnitsDecl α) → Core α → Except Err (Core α)
  | none, c => .ok c
  | some (.unified us), c => addUnitsList q none us c
  | some (.bySystem m i u), c =>
    match addUnitsList q (some .metric) m c with
    | .error e => .error e
    | .ok c1 =>
      match addUnitsList q (some .imperial) i c1 with
      | .error e => .error e
      | .ok c2 => addUnitsList q none u c2

/-! ## The builder -/

structure Builder (α : Type) where
  core : Core α
  extend : List (Extend α)
  si : SIConf
  fractions : List (FractionsDecl α)
  best : PQ → Option BestDecl
  defaultSystem : Sys

/-- `ConverterBuilder::default()` -/
def Builder.empty {α : Type} : Builder α :=
  { core := { units := [], index := [] }, extend := [], si := { prefixes := none, symbolPrefixes := none, precedence := .before },
    fractions := [], best := fun _ => none, defaultSystem := .metric }

def bestDeclEmpty : BestDecl → Bool
  | .unified v => v.isEmpty
  | .bySystem m i => m.isEmpty || i.isEmpty

def setBest (f : PQ → Option BestDecl) (q : PQ) (v : Option BestDecl) : PQ → Option BestDecl :=
  fun q' => if q' = q then v else f q'

/-- one iteration of `for group in units.quantity` -/
def addGroup {α : Type} (b : Builder α) (g : QuantityGroup α) : Except Err (Builder α) :=
  match addGroupUnits g.quantity g.units b.core with
  | .error e => .error e
  | .ok c =>
    match g.best with
    | none => .ok { b with core := c }
    | some bd =>
      if bestDeclEmpty bd then .error (.emptyBest g.quantity false)
      else .ok { b with core := c, best := setBest b.best g.quantity (some bd) }

def addGroups {α : Type} : List (QuantityGroup α) → Builder α → Except Err (Builder α)
  | [], b => .ok b
  | g :: gs, b =>
    match addGroup b g with
    | .error e => .error e
    | .ok b' => addGroups gs b'

/-- `join_prefixes` -/
def joinPrefixes (a b : Option (SIPrefix → List Key)) (bPrec : Prec) : Option (SIPrefix → List Key) :=
  match a, b with
  | none, none => none
  | none, some v => some v
  | some v, none => some v
  | some a, some b =>
    match bPrec with
    | .before => some (fun p => b p ++ a p)
    | .after => some (fun p => a p ++ b p)
    | .override => some b

def joinSI (cur new : SIConf) : SIConf :=
  { prefixes := joinPrefixes cur.prefixes new.prefixes new.precedence,
    symbolPrefixes := joinPrefixes cur.symbolPrefixes new.symbolPrefixes new.precedence,
    precedence := new.precedence }

/-- the part of `add_units_file` after the quantity groups -/
def addFileSettings {α : Type} (b : Builder α) (f : UnitsFile α) : Builder α :=
  let b1 := match f.extend with | some e => { b with extend := b.extend ++ [e] } | none => b
  let b2 := match f.si with | some si => { b1 with si := joinSI b1.si si } | none => b1
  let b3 := match f.defaultSystem with | some s => { b2 with defaultSystem := s } | none => b2
  match f.fractions with | some fr => { b3 with fractions := b3.fractions ++ [fr] } | none => b3

/-- `ConverterBuilder::add_units_file` -/
def addUnitsFile {α : Type} (b : Builder α) (f : UnitsFile α) : Except Err (Builder α) :=
  match addGroups f.quantity b with
  | .error e => .error e
  | .ok b' => .ok (addFileSettings b' f)

def addFiles {α : Type} : List (UnitsFile α) → Builder α → Except Err (Builder α)
  | [], b => .ok b
  | f :: fs, b =>
    match addUnitsFile b f with
    | .error e => .error e
    | .ok b' => addFiles fs b'

/-! ## SI expansion -/

def prefixRatio {α : Type} [Arith α] : SIPrefix → α
  | .kilo => Arith.const Gen.SI_RATIO_KILO
  | .hecto => Arith.const Gen.SI_RATIO_HECTO
  | .deca => Arith.const Gen.SI_RATIO_DECA
  | .deci => Arith.const Gen.SI_RATIO_DECI
  | .centi => Arith.const Gen.SI_RATIO_CENTI
  | .milli => Arith.const Gen.SI_RATIO_MILLI

/-- `prefixes.flat_map(|p| keys.map(|n| format!("{p}{n}")))` -/
def prefixed (pre : List Key) (keys : List Key) : List Key :=
  pre.flatMap (fun p => keys.map (fun n => p ++ n))

/-- the body of the `enum_map!` in `expand_si` -/
def expandOne {α : Type} [Arith α] (u : UnitB α) (pfx sym : SIPrefix → List Key) (p : SIPrefix) : UnitB α :=
  { unit := { names := prefixed (pfx p) u.unit.names, symbols := prefixed (sym p) u.unit.symbols, aliases := [],
              ratio := Arith.mul u.unit.ratio (prefixRatio p), difference := u.unit.difference,
              quantity := u.unit.quantity, system := u.unit.system },
    isExpanded := true, expandSi := false, expanded := none }

/-- `expand_si` -/
def expandSi {α : Type} [Arith α] (u : UnitB α) (si : SIConf) : Except Err (SIPrefix → UnitB α) :=
  if !u.expandSi then .error (.panic "expand_si:assert")
  else match si.prefixes, si.symbolPrefixes with
    | some pfx, some sym => .ok (expandOne u pfx sym)
    | _, _ => .error .emptySIPrefixes

def setP (m : SIPrefix → Nat) (p : SIPrefix) (v : Nat) : SIPrefix → Nat := fun p' => if p' = p then v else m p'

/-- `for (prefix, unit) in new_units { new_units_ids[prefix] = self.add_unit(unit)? }` -/
def addExpanded {α : Type} (new : SIPrefix → UnitB α) : List SIPrefix → Core α → (SIPrefix → Nat) →
    Except Err (Core α × (SIPrefix → Nat))
  | [], c, m => .ok (c, m)
  | p :: ps, c, m =>
    match c.addUnit (new p) with
    | .error e => .error e
    | .ok r => addExpanded new ps r.1 (setP m p r.2)

/-- one iteration of the expansion loop of `finish` -/
def expandAt {α : Type} [Arith α] (si : SIConf) (c : Core α) (id : Nat) : Except Err (Core α) :=
  match c.units[id]? with
  | none => .error (.panic "finish:index")
  | some u =>
    if u.expandSi then
      match expandSi u si with
      | .error e => .error e
      | .ok new =>
        match addExpanded new SIPrefix.all c (fun _ => 0) with
        | .error e => .error e
        | .ok r =>
          match r.1.units[id]? with
          | none => .error (.panic "finish:index")
          | some u' => .ok { r.1 with units := r.1.units.set id { u' with expanded := some r.2 } }
    else .ok c

def expandLoop {α : Type} [Arith α] (si : SIConf) : List Nat → Core α → Except Err (Core α)
  | [], c => .ok c
  | id :: ids, c =>
    match expandAt si c id with
    | .error e => .error e
    | .ok c' => expandLoop si ids c'

/-- `for id in 0..self.all_units.len()` (the bound is evaluated once) -/
def expandAll {α : Type} [Arith α] (si : SIConf) (c : Core α) : Except Err (Core α) :=
  expandLoop si (List.range c.units.length) c

/-! ## Extend blocks -/

def entryTouchesBase {α : Type} (e : ExtendEntry α) : Bool :=
  e.ratio.isSome || e.difference.isSome || e.names.isSome || e.symbols.isSome

/-- first loop of `apply_extend_groups`: resolve the keys with the current index -/
def resolveExtend {α : Type} (c : Core α) : List (Key × ExtendEntry α) → List (Nat × ExtendEntry α) →
    Except Err (List (Nat × ExtendEntry α))
  | [], acc => .ok acc
  | ke :: rest, acc =>
    match idxGet c.index ke.1 with
    | none => .error (.unknownUnit ke.1)
    | some id =>
      if acc.any (fun x => x.1 == id) then .error (.duplicateExtendUnit ke.1)
      else match c.units[id]? with
        | none => .error (.panic "extend:index")
        | some u =>
          if u.isExpanded && entryTouchesBase ke.2 then .error (.invalidExtendExpanded ke.1)
          else resolveExtend c rest (acc ++ [(id, ke.2)])

/-- the loop `for (_, expanded) in expanded_units { self.remove_unit_rec(all_units, &all_units[*expanded]) }` -/
def removeChildren {α : Type} (rec : Index → UnitB α → Except Err Index) (units : List (UnitB α)) (m : SIPrefix → Nat) :
    List SIPrefix → Index → Except Err Index
  | [], idx => .ok idx
  | p :: ps, idx =>
    match units[m p]? with
    | none => .error (.panic "remove_unit_rec:index")
    | some ch =>
      match rec idx ch with
      | .error e => .error e
      | .ok idx' => removeChildren rec units m ps idx'

/-- `UnitIndex::remove_unit_rec`; `fuel` bounds the recursion depth (running out is a panic value) -/
def removeUnitRec {α : Type} (units : List (UnitB α)) : Nat → Index → UnitB α → Except Err Index
  | 0, _, _ => .error (.panic "remove_unit_rec:depth")
  | fuel + 1, idx, u =>
    match u.expanded with
    | none => .ok (indexRemoveKeys idx u.unit.keys)
    | some m =>
      match removeChildren (fun i ch => removeUnitRec units fuel i ch) units m SIPrefix.all idx with
      | .error e => .error e
      | .ok idx' => .ok (indexRemoveKeys idx' u.unit.keys)

/-- `join_alias_vec` -/
def joinAlias (target src : List Key) : Prec → List Key
  | .before => src ++ target
  | .after => target ++ src
  | .override => src

def optJoin (target : List Key) (src : Option (List Key)) (pr : Prec) : List Key :=
  match src with
  | none => target
  | some s => joinAlias target s pr

/-- "edit the unit" -/
def editUnit {α : Type} (u : Unit α) (pr : Prec) (e : ExtendEntry α) : Unit α :=
  { u with ratio := e.ratio.getD u.ratio, difference := e.difference.getD u.difference,
           names := optJoin u.names e.names pr, symbols := optJoin u.symbols e.symbols pr,
           aliases := optJoin u.aliases e.aliases pr }

/-- `all_units[expanded_id] = expanded_unit; all_units[expanded_id].aliases = old_unit_aliases` -/
def UnitB.withAliases {α : Type} (u : UnitB α) (al : List Key) : UnitB α :=
  { u with unit := { u.unit with aliases := al } }

/-- the unit after "edit the unit" -/
def UnitB.edit {α : Type} (u : UnitB α) (pr : Prec) (e : ExtendEntry α) : UnitB α :=
  { u with unit := editUnit u.unit pr e }

/-- one iteration of the loop of `update_expanded_units` -/
def updateExpandedOne {α : Type} (id : Nat) (new : SIPrefix → UnitB α) (c : Core α) (p : SIPrefix) :
    Except Err (Core α) :=
  match c.units[id]? with
  | none => .error (.panic "update_expanded:index")
  | some u =>
    match u.expanded with
    | none => .error (.panic "update_expanded:unwrap")
    | some m =>
      match c.units[m p]? with
      | none => .error (.panic "update_expanded:index")
      | some old =>
        let nu : UnitB α := (new p).withAliases old.unit.aliases
        match indexAddUnit c.index nu.unit (m p) with
        | .error e => .error e
        | .ok idx => .ok { units := c.units.set (m p) nu, index := idx }

def updateExpandedLoop {α : Type} (id : Nat) (new : SIPrefix → UnitB α) : List SIPrefix → Core α → Except Err (Core α)
  | [], c => .ok c
  | p :: ps, c =>
    match updateExpandedOne id new c p with
    | .error e => .error e
    | .ok c' => updateExpandedLoop id new ps c'

/-- `update_expanded_units` -/
def updateExpanded {α : Type} [Arith α] (si : SIConf) (id : Nat) (c : Core α) : Except Err (Core α) :=
  match c.units[id]? with
  | none => .error (.panic "update_expanded:index")
  | some u =>
    match expandSi u si with
    | .error e => .error e
    | .ok new => updateExpandedLoop id new SIPrefix.all c

/-- one iteration of the second loop of `apply_extend_groups` -/
def applyExtendOne {α : Type} [Arith α] (si : SIConf) (pr : Prec) (c : Core α) (ie : Nat × ExtendEntry α) :
    Except Err (Core α) :=
  match c.units[ie.1]? with
  | none => .error (.panic "extend:index")
  | some u =>
    match removeUnitRec c.units (c.units.length + 1) c.index u with
    | .error e => .error e
    | .ok idx =>
      let u' : UnitB α := u.edit pr ie.2
      let c1 : Core α := { units := c.units.set ie.1 u', index := idx }
      match (if u'.expandSi then updateExpanded si ie.1 c1 else .ok c1) with
      | .error e => .error e
      | .ok c2 =>
        match c2.units[ie.1]? with
        | none => .error (.panic "extend:index")
        | some u2 =>
          match indexAddUnit c2.index u2.unit ie.1 with
          | .error e => .error e
          | .ok idx' => .ok { c2 with index := idx' }

def applyExtendList {α : Type} [Arith α] (si : SIConf) (pr : Prec) : List (Nat × ExtendEntry α) → Core α → Except Err (Core α)
  | [], c => .ok c
  | ie :: rest, c =>
    match applyExtendOne si pr c ie with
    | .error e => .error e
    | .ok c' => applyExtendList si pr rest c'

/-- one extend block: resolve, then apply -/
def applyExtendGroup {α : Type} [Arith α] (si : SIConf) (c : Core α) (g : Extend α) : Except Err (Core α) :=
  match resolveExtend c g.units [] with
  | .error e => .error e
  | .ok upd => applyExtendList si g.precedence upd c

/-- `apply_extend_groups` -/
def applyExtendGroups {α : Type} [Arith α] (si : SIConf) : List (Extend α) → Core α → Except Err (Core α)
  | [], c => .ok c
  | g :: gs, c =>
    match applyExtendGroup si c g with
    | .error e => .error e
    | .ok c' => applyExtendGroups si gs c'

/-! ## Best units -/

/-- `convert_f64` (src/convert/mod.rs), with its assertion -/
def convertF {α : Type} [Arith α] (v : α) (fromU toU : Unit α) : Except Err α :=
  if fromU.quantity ≠ toU.quantity then .error (.panic "convert_f64:assert")
  else .ok (Arith.sub (Arith.div (Arith.mul (Arith.add v fromU.difference) fromU.ratio) toU.ratio) toU.difference)

/-- resolve the names of a best list (as repaired: a unit of another quantity is a build error) -/
def resolveBest {α : Type} (c : Core α) (q : PQ) : List Key → Except Err (List Nat)
  | [] => .ok []
  | k :: ks =>
    match idxGet c.index k with
    | none => .error (.unknownUnit k)
    | some id =>
      match c.units[id]? with
      | none => .error (.panic "best:index")
      | some u =>
        if u.unit.quantity ≠ q then .error (.bestUnitQuantity k q u.unit.quantity)
        else match resolveBest c q ks with
          | .error e => .error e
          | .ok ids => .ok (id :: ids)

/-- stable insertion: `x` (which came first) goes before the first element that is not less than it -/
def insertByRatio {α : Type} [Arith α] (x : α × Nat) : List (α × Nat) → List (α × Nat)
  | [] => [x]
  | y :: ys => if Arith.lt y.1 x.1 then y :: insertByRatio x ys else x :: y :: ys

/-- `sort_by` (stable) with `a.ratio.partial_cmp(&b.ratio).unwrap_or(Less)`: on a total order every stable sort
    gives this list (elements are inserted from the right, equal ratios keep their order) -/
def sortByRatio {α : Type} [Arith α] : List (α × Nat) → List (α × Nat)
  | [] => []
  | x :: xs => insertByRatio x (sortByRatio xs)

/-- ratio of every id (the comparator indexes `all_units`) -/
def withRatios {α : Type} (c : Core α) : List Nat → Except Err (List (α × Nat))
  | [] => .ok []
  | id :: ids =>
    match c.units[id]? with
    | none => .error (.panic "best:index")
    | some u =>
      match withRatios c ids with
      | .error e => .error e
      | .ok rs => .ok ((u.unit.ratio, id) :: rs)

/-- thresholds of the units after the base -/
def thresholds {α : Type} [Arith α] (c : Core α) (base : UnitB α) : List Nat → Except Err (List (α × Nat))
  | [] => .ok []
  | id :: ids =>
    match c.units[id]? with
    | none => .error (.panic "best:index")
    | some u =>
      match convertF (Arith.ofNat 1) u.unit base.unit with
      | .error e => .error e
      | .ok v =>
        match thresholds c base ids with
        | .error e => .error e
        | .ok rs => .ok ((v, id) :: rs)

/-- `BestConversions::new` -/
def bestConversions {α : Type} [Arith α] (c : Core α) (q : PQ) (names : List Key) : Except Err (List (α × Nat)) :=
  match resolveBest c q names with
  | .error e => .error e
  | .ok ids =>
    match withRatios c ids with
    | .error e => .error e
    | .ok rs =>
      match (sortByRatio rs).map (·.2) with
      | [] => .error (.panic "best:unwrap")
      | baseId :: rest =>
        match c.units[baseId]? with
        | none => .error (.panic "best:index")
        | some base =>
          match thresholds c base rest with
          | .error e => .error e
          | .ok ts => .ok ((Arith.ofNat 1, baseId) :: ts)

/-- `BestConversionsStore` -/
inductive BestStore (α : Type)
  | unified (l : List (α × Nat))
  | bySystem (metric imperial : List (α × Nat))

/-- `BestConversionsStore::new` -/
def bestStore {α : Type} [Arith α] (c : Core α) (q : PQ) : BestDecl → Except Err (BestStore α)
  | .unified names =>
    match bestConversions c q names with
    | .error e => .error e
    | .ok l => .ok (.unified l)
  | .bySystem m i =>
    match bestConversions c q m with
    | .error e => .error e
    | .ok lm =>
      match bestConversions c q i with
      | .error e => .error e
      | .ok li => .ok (.bySystem lm li)

/-- the `enum_map!` of `finish`: quantities in enum order, first error wins -/
def bestAll {α : Type} [Arith α] (c : Core α) (best : PQ → Option BestDecl) : List PQ → Except Err (List (PQ × BestStore α))
  | [] => .ok []
  | q :: qs =>
    match best q with
    | none => .error (.emptyBest q true)
    | some bd =>
      match bestStore c q bd with
      | .error e => .error e
      | .ok s =>
        match bestAll c best qs with
        | .error e => .error e
        | .ok rest => .ok ((q, s) :: rest)

/-! ## Fractions -/

/-- `FractionsConfig` -/
structure FracCfg (α : Type) where
  enabled : Bool
  accuracy : α
  maxDen : Nat
  maxWhole : Nat

/-- `FractionsConfigWrapper::get` -/
def FracW.get {α : Type} : FracW α → FracH α
  | .toggle b => { enabled := some b, accuracy := none, maxDen := none, maxWhole := none }
  | .custom c => c

/-- `FractionsConfigHelper::merge` -/
def FracH.merge {α : Type} (a b : FracH α) : FracH α :=
  { enabled := a.enabled.or b.enabled, accuracy := a.accuracy.or b.accuracy,
    maxDen := a.maxDen.or b.maxDen, maxWhole := a.maxWhole.or b.maxWhole }

/-- `f32::clamp` -/
def clampA {α : Type} [Arith α] (lo hi x : α) : α :=
  if Arith.lt x lo then lo else if Arith.lt hi x then hi else x

/-- `Ord::clamp` on `u8` -/
def clampN (lo hi x : Nat) : Nat := if x < lo then lo else if hi < x then hi else x

/-- `FractionsConfigHelper::define` -/
def FracH.define {α : Type} [Arith α] (h : FracH α) : FracCfg α :=
  { enabled := h.enabled.getD Gen.FRAC_DEFAULT_ENABLED,
    accuracy := clampA (Arith.const Gen.FRAC_ACC_LO) (Arith.const Gen.FRAC_ACC_HI)
                  (h.accuracy.getD (Arith.const Gen.FRAC_DEFAULT_ACCURACY)),
    maxDen := clampN Gen.FRAC_DEN_LO Gen.FRAC_DEN_HI (h.maxDen.getD Gen.FRAC_DEFAULT_MAXDEN),
    maxWhole := h.maxWhole.getD Gen.FRAC_DEFAULT_MAXWHOLE }

/-- `acc = cfg.field.map(get).or(acc)` over the layers -/
def lastLayer {α : Type} (sel : FractionsDecl α → Option (FracW α)) : List (FractionsDecl α) → Option (FracH α) → Option (FracH α)
  | [], acc => acc
  | f :: fs, acc => lastLayer sel fs (((sel f).map FracW.get).or acc)

def setQ {α : Type} (m : PQ → Option (FracH α)) (q : PQ) (v : FracH α) : PQ → Option (FracH α) :=
  fun q' => if q' = q then some v else m q'

/-- `quantity.insert(q, cfg.get())` over one layer -/
def quantityLayer {α : Type} : List (PQ × FracW α) → (PQ → Option (FracH α)) → (PQ → Option (FracH α))
  | [], m => m
  | qw :: rest, m => quantityLayer rest (setQ m qw.1 qw.2.get)

def quantityLayers {α : Type} : List (FractionsDecl α) → (PQ → Option (FracH α)) → (PQ → Option (FracH α))
  | [], m => m
  | f :: fs, m => quantityLayers fs (quantityLayer f.quantity m)

/-- `HashMap<usize, _>::insert` -/
def mapInsert {β : Type} (m : List (Nat × β)) (k : Nat) (v : β) : List (Nat × β) :=
  (k, v) :: m.filter (fun e => e.1 != k)

def mapGet {β : Type} : List (Nat × β) → Nat → Option β
  | [], _ => none
  | (k', v) :: t, k => if k = k' then some v else mapGet t k

/-- the settings a unit inherits: quantity, then system, then `all`, merged in that order -/
def inheritOf {α : Type} (quantity : PQ → Option (FracH α)) (metric imperial all : Option (FracH α)) (u : Unit α) :
    Option (FracH α) :=
  let sys : Option (FracH α) := match u.system with
    | none => none
    | some .metric => metric
    | some .imperial => imperial
  let l := [quantity u.quantity, sys, all].filterMap id
  match l with
  | [] => none
  | h :: t => some (t.foldl FracH.merge h)

structure Fractions (α : Type) where
  all : Option (FracCfg α)
  metric : Option (FracCfg α)
  imperial : Option (FracCfg α)
  quantity : PQ → Option (FracCfg α)
  unit : List (Nat × FracCfg α)

/-- the unit loop of `build_fractions_config` over one layer -/
def unitLayer {α : Type} [Arith α] (c : Core α) (inh : Unit α → Option (FracH α)) :
    List (Key × FracW α) → List (Nat × FracCfg α) → Except Err (List (Nat × FracCfg α))
  | [], m => .ok m
  | kw :: rest, m =>
    match idxGet c.index kw.1 with
    | none => .error (.unknownUnit kw.1)
    | some id =>
      match c.units[id]? with
      | none => .error (.panic "fractions:index")
      | some u =>
        let cfg := match inh u.unit with
          | none => kw.2.get
          | some i => kw.2.get.merge i
        unitLayer c inh rest (mapInsert m id cfg.define)

def unitLayers {α : Type} [Arith α] (c : Core α) (inh : Unit α → Option (FracH α)) :
    List (FractionsDecl α) → List (Nat × FracCfg α) → Except Err (List (Nat × FracCfg α))
  | [], m => .ok m
  | f :: fs, m =>
    match unitLayer c inh f.unit m with
    | .error e => .error e
    | .ok m' => unitLayers c inh fs m'

/-- `build_fractions_config` -/
def buildFractions {α : Type} [Arith α] (c : Core α) (layers : List (FractionsDecl α)) : Except Err (Fractions α) :=
  let all := lastLayer (·.all) layers none
  let metric := lastLayer (·.metric) layers none
  let imperial := lastLayer (·.imperial) layers none
  let quantity := quantityLayers layers (fun _ => none)
  match unitLayers c (inheritOf quantity metric imperial all) layers [] with
  | .error e => .error e
  | .ok unit =>
    .ok { all := all.map FracH.define, metric := metric.map FracH.define, imperial := imperial.map FracH.define,
          quantity := fun q => (quantity q).map FracH.define, unit := unit }

/-! ## finish -/

/-- `Converter` -/
structure Converter (α : Type) where
  units : List (Unit α)
  index : Index
  quantityIndex : PQ → List Nat
  best : List (PQ × BestStore α)
  fractions : Fractions α
  defaultSystem : Sys

/-- ids of the units of a quantity, in id order -/
def quantityIds {α : Type} (units : List (UnitB α)) (q : PQ) : List Nat :=
  (List.range units.length).filter (fun id => match units[id]? with | some u => decide (u.unit.quantity = q) | none => false)

/-- the first half of `finish`: SI expansion, then the extend blocks -/
def finishCore {α : Type} [Arith α] (b : Builder α) : Except Err (Core α) :=
  match expandAll b.si b.core with
  | .error e => .error e
  | .ok c => applyExtendGroups b.si b.extend c

/-- the second half of `finish` -/
def package {α : Type} [Arith α] (b : Builder α) (c : Core α) : Except Err (Converter α) :=
  match bestAll c b.best PQ.all with
  | .error e => .error e
  | .ok best =>
    match buildFractions c b.fractions with
    | .error e => .error e
    | .ok fr =>
      .ok { units := c.units.map (·.unit), index := c.index, quantityIndex := quantityIds c.units,
            best := best, fractions := fr, defaultSystem := b.defaultSystem }

/-- `ConverterBuilder::finish` -/
def finish {α : Type} [Arith α] (b : Builder α) : Except Err (Converter α) :=
  match finishCore b with
  | .error e => .error e
  | .ok c => package b c

/-- layers added in order to a new builder, then `finish`; the first error ends the build -/
def build {α : Type} [Arith α] (files : List (UnitsFile α)) : Except Err (Converter α) :=
  match addFiles files Builder.empty with
  | .error e => .error e
  | .ok b => finish b

/-- the builder state `finish` packages (kept for the statements about SI-prefixed forms) -/
def buildCore {α : Type} [Arith α] (files : List (UnitsFile α)) : Except Err (Builder α × Core α) :=
  match addFiles files Builder.empty with
  | .error e => .error e
  | .ok b =>
    match finishCore b with
    | .error e => .error e
    | .ok c => .ok (b, c)

/-- `Converter::bundled()` / `Converter::default()` with the `bundled_units` feature -/
def bundled {α : Type} [Arith α] : Except Err (Converter α) := build [Gen.shippedFile]

end Cook.Bld
