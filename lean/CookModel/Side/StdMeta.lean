import CookModel.Basic.Arith
import CookModel.Side.StdMetaText
import CookModel.Gen.StdMetaConsts
/-
  Model of src/metadata.rs (as repaired by fixes/0001–0003 of C13): the interpretation of the
  standard metadata values and the parse-time check of the analysis.

  Numeric code is written once over `[Arith α]`; a decimal literal accepted by the model's own
  syntax function (`parseF64Syn`, the grammar of `f64::from_str`) is evaluated with
  `Arith.ofDecimal` (exact over `Rat`, correctly rounded over `Float`).
  Errors are kept only as far as the code looks at them: `MetadataError::BadType` versus
  anything else (`value_as_time` branches on it); everything else is `none`.
-/
namespace Cook.SM
open Cook Arith Gen.SM

/-! ### YAML values (`serde_yaml::Value`, as far as the code looks) -/

/-- `serde_yaml::Number`: what `as_u64()` and `to_string()` give -/
structure YNum where
  u64 : Option Nat
  text : Str

inductive Y where
  | null
  | bool
  | num (n : YNum)
  | str (s : Str)
  | seq (l : List Y)
  | map (l : List (Y × Y))
  | tagged

/-- `Mapping::get(&str)` (keys of a mapping are unique) -/
def mapGet (k : Str) : List (Y × Y) → Option Y
  | [] => none
  | (.str s, v) :: r => if s = k then some v else mapGet k r
  | _ :: r => mapGet k r

/-- `CooklangValueExt::as_u32` -/
def asU32 : Y → Option Nat
  | .num n => match n.u64 with
    | some k => if k ≤ u32Max then some k else none
    | none => none
  | _ => none

/-- `Value::as_str` -/
def asStr : Y → Option Str
  | .str s => some s
  | _ => none

/-- `CooklangValueExt::as_str_like` -/
def asStrLike : Y → Option Str
  | .str s => some s
  | .num n => some n.text
  | _ => none

/-! ### tags -/

/-- the de-duplication loop of `value_as_tags` -/
def tagLoop (acc : List Str) : List Str → List Str
  | [] => acc
  | t :: ts => if t.isEmpty || acc.contains t then tagLoop acc ts else tagLoop (acc ++ [t]) ts

def isComma (c : Char) : Bool := c = ','
def isPipe (c : Char) : Bool := c = '|'

/-- `value_as_tags(..).ok()` -/
def valueAsTags : Y → Option (List Str)
  | .str s => some (tagLoop [] ((split isComma s).map trim))
  | .seq l => match mapOpt asStrLike l with
    | some es => some (tagLoop [] es)
    | none => none
  | _ => none

/-! ### servings -/

/-- `extract_value` -/
def extractValue (s : Str) : Option Nat := parseU32 (s.takeWhile isAsciiAlnum)

/-- one element of a servings sequence -/
def servingOfElem (e : Y) : Option Nat :=
  match asU32 e with
  | some n => some n
  | none => match e with
    | .str s => extractValue s
    | _ => none

/-- `Vec::dedup` -/
def dedupAdj : List Nat → List Nat
  | [] => []
  | a :: t => match t with
    | [] => [a]
    | b :: _ => if a = b then dedupAdj t else a :: dedupAdj t

/-- `sort_unstable(); dedup(); len()` -/
def dedupLen (l : List Nat) : Nat := (dedupAdj (l.mergeSort (fun a b => decide (a ≤ b)))).length

def rawServings (v : Y) : Option (List Nat) :=
  match asU32 v with
  | some n => some [n]
  | none => match v with
    | .str s => mapOpt (fun e => extractValue (trim e)) (split isPipe s)
    | .seq l => mapOpt servingOfElem l
    | _ => none

/-- `value_as_servings(..).ok()` -/
def valueAsServings (v : Y) : Option (List Nat) :=
  match rawServings v with
  | some l => if l.length != dedupLen l then none else some l
  | none => none

/-! ### locale -/

def utf8Len (s : Str) : Nat := (s.map Char.utf8Size).sum

def validateLocalePart (s : Str) : Bool := utf8Len s == 2 && s.all isAsciiAlpha

def isUnderscore (c : Char) : Bool := c = '_'

/-- `value_as_locale(..).ok()` -/
def valueAsLocale : Y → Option (Str × Option Str)
  | .str s => match splitOnce isUnderscore s with
    | some r => if validateLocalePart r.1 && validateLocalePart r.2 then some (r.1, some r.2) else none
    | none => if validateLocalePart s then some (s, none) else none
  | _ => none

/-! ### name and URL -/

structure NameUrl where
  name : Option Str
  url : Option Str
deriving DecidableEq, Repr

/-- the `filter` of `NameAndUrl::new` -/
def nuFilter : Option Str → Option Str
  | none => none
  | some s => if (trim s).isEmpty then none else some (trim s)

def NameUrl.new (name url : Option Str) : NameUrl := ⟨nuFilter name, nuFilter url⟩

def isSlash (c : Char) : Bool := c = '/'
def isLt (c : Char) : Bool := c = '<'
def isAngle (c : Char) : Bool := c = '<' || c = '>'
def schemeSep : Str := [':', '/', '/']

/-- the host part: up to the first `/` -/
def urlHost (rest : Str) : Str :=
  match splitOnce isSlash rest with
  | some r => r.1
  | none => rest

/-- `is_url`; `alpha` is `char::is_alphabetic` -/
def isUrl (alpha : Char → Bool) (s : Str) : Bool :=
  match splitOnceStr schemeSep s with
  | none => false
  | some r =>
    if r.2.isEmpty || !r.1.all alpha then false
    else if (urlHost r.2).isEmpty || (urlHost r.2).any isWs then false
    else true

/-- the `Name <Url>` branch of `NameAndUrl::parse` (fix 0003: the URL is validated as documented) -/
def angleForm (alpha : Char → Bool) (s : Str) : Option (Str × Str) :=
  match stripSuffixChar '>' (trimAsciiEnd s) with
  | none => none
  | some s1 => match splitOnce isLt s1 with
    | none => none
    | some r => if !r.2.any isAngle && isUrl alpha (trim r.2) then some r else none

/-- `NameAndUrl::parse` -/
def parseNameUrl (alpha : Char → Bool) (s : Str) : NameUrl :=
  match angleForm alpha s with
  | some r => NameUrl.new (some r.1) (some r.2)
  | none => if isUrl alpha s then NameUrl.new none (some s) else NameUrl.new (some s) none

def nameKey : Str := ['n', 'a', 'm', 'e']
def urlKey : Str := ['u', 'r', 'l']

/-- `CooklangValueExt::as_name_and_url` -/
def asNameAndUrl (alpha : Char → Bool) (v : Y) : Option NameUrl :=
  match asStrLike v with
  | some s => some (parseNameUrl alpha s)
  | none => match v with
    | .map m =>
      if ((mapGet nameKey m).bind asStr).isNone && ((mapGet urlKey m).bind asStr).isNone then none
      else some (NameUrl.new ((mapGet nameKey m).bind asStr) ((mapGet urlKey m).bind asStr))
    | _ => none

/-! ### time -/

/-- a unit of a converter, as far as `dynamic_time_units` looks -/
structure TUnit (α : Type) where
  isTime : Bool
  ratio : α
  diff : α

/-- `Converter`: the units and the name index (`find_unit` returns the unit *and* its identity) -/
structure Conv (α : Type) where
  units : List (TUnit α)
  index : Str → Option Nat

def Conv.find {α} (c : Conv α) (name : Str) : Option (Nat × TUnit α) :=
  match c.index name with
  | none => none
  | some i => match c.units[i]? with
    | none => none
    | some u => some (i, u)

/-- result of `str::parse::<f64>()` -/
inductive PF (α : Type) where
  | err
  | nonfinite
  | val (x : α)

section
variable {α : Type} [Arith α]

/-- value of a decimal literal: ±(int.frac)·10^exp -/
def decValue (d : DecLit) : α :=
  let m := natOfDigits (d.int ++ d.frac)
  let k : Int := d.exp - (d.frac.length : Int)
  let x : α := if 0 ≤ k then Arith.ofDecimal (m * 10 ^ k.toNat) 0 else Arith.ofDecimal m (-k).toNat
  if d.neg then Arith.neg x else x

/-- `str::parse::<f64>()` -/
def parseF64 (s : Str) : PF α :=
  match parseF64Syn s with
  | none => .err
  | some .nan => .nonfinite
  | some (.inf _) => .nonfinite
  | some (.dec d) => .val (decValue d)

/-- `round_minutes` (fix 0001): whole minutes or nothing, never a saturated cast -/
def roundMinutes (x : α) : Option Nat :=
  if Arith.ge (Arith.round x) (Arith.ofNat 0) && Arith.le (Arith.round x) (Arith.ofNat u32Max)
  then some (Arith.toU32 (Arith.round x)) else none

def applySteps (v : α) : List HcStep → α
  | [] => v
  | .mul c :: r => applySteps (v * Arith.const c) r
  | .div c :: r => applySteps (v / Arith.const c) r

/-- `hard_coded_time_units` -/
def hardCoded (v : α) (unit : Str) : Option α :=
  match HC_UNITS.find? (fun row => row.1.contains unit) with
  | some row => some (applySteps v row.2)
  | none => none

/-- the `minutes` unit of `dynamic_time_units` -/
def findMinutes (c : Conv α) : Option (Nat × TUnit α) := MINUTES_NAMES.findSome? c.find

/-- `Converter::convert_f64` (identity on the same unit object) -/
def convertF64 (v : α) (from_ to : Nat × TUnit α) : α :=
  if from_.1 = to.1 then v else ((v + from_.2.diff) * from_.2.ratio) / to.2.ratio - to.2.diff

/-- `dynamic_time_units` -/
def dynamicTime (c : Conv α) (v : α) (unit : Str) : Option α :=
  match findMinutes c with
  | none => none
  | some m =>
    if !m.2.isTime then none
    else match c.find unit with
      | none => none
      | some u => if !u.2.isTime then none else some (convertF64 v u m)

/-- the closure `to_minutes` -/
def toMinutes (c : Conv α) (v : α) (unit : Str) : Option α :=
  if c.units.length = 0 then hardCoded v unit else dynamicTime c v unit

def isNumCh (c : Char) : Bool := isDigit c || c = '.'

/-- one `number`/`unit` pair: parse the number, convert, add -/
def pairStep (c : Conv α) (total : α) (number unit : Str) : Option α :=
  match parseF64 (α := α) number with
  | .val x => match toMinutes c x unit with
    | some m => some (total + m)
    | none => none
  | _ => none

/-- the `while let Some(part) = parts.next()` loop of `parse_time_with_units` -/
def pairLoop (c : Conv α) (total : α) (parts : List Str) : Option α :=
  match parts with
  | [] => some total
  | part :: rest =>
    if part.all isNumCh then
      match rest with
      | [] => none
      | unit :: rest' =>
        match pairStep c total part unit with
        | some t => pairLoop c t rest'
        | none => none
    else
      match pairStep c total (part.takeWhile isNumCh) (part.dropWhile isNumCh) with
      | some t => pairLoop c t rest
      | none => none
termination_by parts.length

/-- `parse_time_with_units(..).ok()` -/
def parseTimeWithUnits (c : Conv α) (s : Str) : Option Nat :=
  match pairLoop c (Arith.ofNat 0) (words s) with
  | some total => roundMinutes total
  | none => none

def isHM (c : Char) : Bool := c = H_SEP || c = M_SEP

/-- the `loop` of `parse_common_time_format` over the pieces of `split_inclusive` -/
def commonLoop (hoursFound : Bool) (total : Nat) : List Str → Option Nat
  | [] => some total
  | p :: rest =>
    if endsWith H_SEP p && !hoursFound then
      match parseU32 p.dropLast with
      | none => none
      | some h => match checkedMul h HOUR_MINUTES with
        | none => none
        | some hm => match checkedAdd total hm with
          | none => none
          | some t => commonLoop true t rest
    else if endsWith M_SEP p then
      match parseU32 p.dropLast with
      | none => none
      | some m => match checkedAdd total m with
        | none => none
        | some t => if rest.isEmpty then some t else none
    else none

/-- `parse_common_time_format` -/
def commonTime (s : Str) : Option Nat :=
  if s.isEmpty then none else commonLoop false 0 (splitIncl isHM s)

/-- the float fall-back of `parse_time` -/
def floatFallback (s : Str) : Option Nat :=
  match parseF64 (α := α) s with
  | .val x => roundMinutes x
  | _ => none

/-- `parse_time(..).ok()` -/
def parseTime (c : Conv α) (s : Str) : Option Nat :=
  if s.isEmpty then none
  else match commonTime s with
    | some n => some n
    | none => match parseTimeWithUnits c s with
      | some n => some n
      | none => floatFallback (α := α) s

/-- what the code distinguishes among `MetadataError`s -/
inductive MErr where
  | badType
  | other
deriving DecidableEq, Repr

/-- `value_as_minutes` -/
def valueAsMinutes (c : Conv α) (v : Y) : Except MErr Nat :=
  match v with
  | .str s => match parseTime c s with
    | some n => .ok n
    | none => .error .other
  | _ => match asU32 v with
    | some n => .ok n
    | none => .error .badType

inductive RecipeTime where
  | total (n : Nat)
  | composed (prep cook : Option Nat)
deriving DecidableEq, Repr

/-- `.map(|v| value_as_minutes(v, converter)).transpose()` -/
def optMinutes (c : Conv α) : Option Y → Except MErr (Option Nat)
  | none => .ok none
  | some v => match valueAsMinutes c v with
    | .ok n => .ok (some n)
    | .error e => .error e

def prepKey : Str := ['p', 'r', 'e', 'p']
def cookKey : Str := ['c', 'o', 'o', 'k']

/-- the mapping branch of `value_as_time` (fix 0002: a mapping with neither entry is refused) -/
def composedTime (c : Conv α) (m : List (Y × Y)) : Except MErr RecipeTime :=
  match optMinutes c (mapGet prepKey m) with
  | .error e => .error e
  | .ok prep => match optMinutes c (mapGet cookKey m) with
    | .error e => .error e
    | .ok cook => if prep.isNone && cook.isNone then .error .other else .ok (.composed prep cook)

/-- `value_as_time` -/
def valueAsTime (c : Conv α) (v : Y) : Except MErr RecipeTime :=
  match valueAsMinutes c v with
  | .ok t => .ok (.total t)
  | .error .other => .error .other
  | .error .badType => match v with
    | .map m => composedTime c m
    | _ => .error .badType

end

/-! ### the standard keys and the parse-time check -/

inductive StdKey where
  | title | description | tags | author | source | course | time | prepTime | cookTime
  | servings | difficulty | cuisine | diet | images | locale
deriving DecidableEq, Repr

def StdKey.all : List StdKey :=
  [.title, .description, .tags, .author, .source, .course, .time, .prepTime, .cookTime,
   .servings, .difficulty, .cuisine, .diet, .images, .locale]

/-- the Rust name of the variant (ties the generated tables to the enumeration) -/
def StdKey.variant : StdKey → Str
  | .title => ['T', 'i', 't', 'l', 'e']
  | .description => ['D', 'e', 's', 'c', 'r', 'i', 'p', 't', 'i', 'o', 'n']
  | .tags => ['T', 'a', 'g', 's']
  | .author => ['A', 'u', 't', 'h', 'o', 'r']
  | .source => ['S', 'o', 'u', 'r', 'c', 'e']
  | .course => ['C', 'o', 'u', 'r', 's', 'e']
  | .time => ['T', 'i', 'm', 'e']
  | .prepTime => ['P', 'r', 'e', 'p', 'T', 'i', 'm', 'e']
  | .cookTime => ['C', 'o', 'o', 'k', 'T', 'i', 'm', 'e']
  | .servings => ['S', 'e', 'r', 'v', 'i', 'n', 'g', 's']
  | .difficulty => ['D', 'i', 'f', 'f', 'i', 'c', 'u', 'l', 't', 'y']
  | .cuisine => ['C', 'u', 'i', 's', 'i', 'n', 'e']
  | .diet => ['D', 'i', 'e', 't']
  | .images => ['I', 'm', 'a', 'g', 'e', 's']
  | .locale => ['L', 'o', 'c', 'a', 'l', 'e']

def StdKey.ofVariant (v : Str) : Option StdKey := StdKey.all.find? (fun k => k.variant = v)

/-- `StdKey::from_str(..).ok()` -/
def StdKey.fromStr (s : Str) : Option StdKey :=
  match STD_KEY_NAMES.find? (fun p => p.1 = s) with
  | some p => StdKey.ofVariant p.2
  | none => none

/-- `StdKey::as_ref` -/
def StdKey.canon (k : StdKey) : Str :=
  match STD_KEY_CANON.find? (fun p => p.1 = k.variant) with
  | some p => p.2
  | none => []

section
variable {α : Type} [Arith α]

/-- `check_std_entry`: `none` = `Err(_)` (the analysis then warns "Unsupported value for key"),
    `some (some l)` = servings to store for scaling -/
def checkStdEntry (c : Conv α) (alpha : Char → Bool) (key : StdKey) (v : Y) :
    Option (Option (List Nat)) :=
  match key with
  | .servings => match valueAsServings v with
    | some l => some (some l)
    | none => none
  | .tags => match valueAsTags v with
    | some _ => some none
    | none => none
  | .time => match valueAsTime c v with
    | .ok _ => some none
    | .error _ => none
  | .prepTime | .cookTime => match valueAsMinutes c v with
    | .ok _ => some none
    | .error _ => none
  | .title | .description => match asStr v with
    | some _ => some none
    | none => none
  | .locale => match valueAsLocale v with
    | some _ => some none
    | none => none
  | .author | .source => match asNameAndUrl alpha v with
    | some _ => some none
    | none => none
  | .course | .difficulty | .cuisine | .diet | .images => some none

/-- what the `Metadata` accessor of a key returns for the value stored under it, reduced to
    "something / nothing" (`Metadata::{title, description, tags, author, source, time, servings,
    locale}`; `prep time`/`cook time` are read by `Metadata::time` through `as_minutes`) -/
def accessorGives (c : Conv α) (alpha : Char → Bool) (key : StdKey) (v : Y) : Bool :=
  match key with
  | .servings => (valueAsServings v).isSome
  | .tags => (valueAsTags v).isSome
  | .time => (valueAsTime c v).toOption.isSome
  | .prepTime | .cookTime => (valueAsMinutes c v).toOption.isSome
  | .title | .description => (asStr v).isSome
  | .locale => (valueAsLocale v).isSome
  | .author | .source => (asNameAndUrl alpha v).isSome
  | .course | .difficulty | .cuisine | .diet | .images => true

/-- the analysis of one metadata entry (`process_frontmatter` / `metadata`): does it warn? -/
def entryWarns (c : Conv α) (alpha : Char → Bool) (key : Str) (v : Y) : Bool :=
  match StdKey.fromStr key with
  | none => false
  | some k => (checkStdEntry c alpha k v).isNone

end

end Cook.SM
