import CookModel.Side.StdMeta
import CookModel.Side.Builder
/-
  C13 ∩ C16 — what `src/metadata.rs` sees of a `Converter` produced by the builder: `all_units()`
  with `physical_quantity == Time`, `ratio`, `difference` (dynamic_time_units, src/metadata.rs:802-822),
  and `find_unit` (src/convert/mod.rs:141-145: one lookup in the unit index; the unit's position
  in `all_units` is its identity).

  ADDED BY THE CLAUSE AUDIT (notes/audit-C13.md): not yet tied to the code by a driver operation (the
  harness sends this very abstraction of the real converter to the `sm_*` operations, computed on
  the Rust side: harness/src/props/c13.rs `conv_info`).
-/
namespace Cook.SM
open Cook

/-- the std-metadata view of a built converter -/
def convOfBuilt {α : Type} (conv : Bld.Converter α) : Conv α :=
  { units := conv.units.map (fun u => { isTime := decide (u.quantity = .time), ratio := u.ratio, diff := u.difference }),
    index := Bld.idxGet conv.index }

end Cook.SM
