import CookModel.Side.StdMeta
import CookModel.Lemmas.StdMetaText
/-
  `Spec`: the documented forms of the standard metadata values, written independently of the
  code's control flow: as grammars (existential decompositions of the text), with unbounded
  naturals / exact rationals, literal separators and factors (`h`, `m`, 60, the unit names of
  the documentation) instead of the constants generated from the source.

  Text vocabulary shared with the model and characterised in Lemmas/StdMetaText.lean:
  `SplitBy` (pieces between separators), `TrimmedBy` (`trim`), `Words` below (`split_whitespace`).
-/
namespace Cook.SM.Spec
open Cook Cook.SM

/-- element-wise relation between two lists of the same length -/
def Forall2 {α β : Type} (R : α → β → Prop) : List α → List β → Prop
  | [], [] => True
  | a :: as, b :: bs => R a b ∧ Forall2 R as bs
  | _, _ => False

def AllDigits (t : Str) : Prop := ∀ c ∈ t, isDigit c = true

/-- positional value of a digit string -/
def decVal : Str → Nat
  | [] => 0
  | c :: cs => digitVal c * 10 ^ cs.length + decVal cs

/-- a natural number in Rust's integer syntax: optional `+`, at least one digit -/
def NatLit (t : Str) (v : Nat) : Prop :=
  ∃ ds, ds ≠ [] ∧ AllDigits ds ∧ (t = ds ∨ t = '+' :: ds) ∧ v = decVal ds

/-- `2^32`: what a `u32` cannot hold -/
def u32Bound : Nat := 4294967296

/-! ### time -/

/-- the compact format: `<H>h`, `<M>m`, `<H>h<M>m` (hours first), read as 60·H + M -/
inductive HhMm : Str → Nat → Prop
  | h {a : Str} {x : Nat} : NatLit a x → HhMm (a ++ ['h']) (60 * x)
  | m {b : Str} {y : Nat} : NatLit b y → HhMm (b ++ ['m']) y
  | hm {a b : Str} {x y : Nat} : NatLit a x → NatLit b y → HhMm (a ++ ['h'] ++ b ++ ['m']) (60 * x + y)

/-- a plain decimal number: `digits`, `digits.`, `digits.digits`, `.digits` -/
def DecNum (t : Str) (x : Rat) : Prop :=
  ∃ i f, AllDigits i ∧ AllDigits f ∧
    ((t = i ∧ f = [] ∧ i ≠ []) ∨ (t = i ++ '.' :: f ∧ (i ≠ [] ∨ f ≠ []))) ∧
    x = (decVal i : Rat) + (decVal f : Rat) / ((10 ^ f.length : Nat) : Rat)

/-- 10^k for an integer k -/
def pow10 (k : Int) : Rat := (10 : Rat) ^ k

/-- optional sign -/
def Sign (t : Str) (neg : Bool) : Prop := (t = [] ∧ neg = false) ∨ (t = ['+'] ∧ neg = false) ∨ (t = ['-'] ∧ neg = true)

/-- optional exponent part: `e`/`E`, optional sign, digits -/
def ExpPart (t : Str) (k : Int) : Prop :=
  (t = [] ∧ k = 0) ∨
  ∃ c sg ds neg, (c = 'e' ∨ c = 'E') ∧ Sign sg neg ∧ ds ≠ [] ∧ AllDigits ds ∧ t = c :: (sg ++ ds) ∧
    k = if neg then -(decVal ds : Int) else (decVal ds : Int)

/-- a number in Rust's float syntax (finite): sign, decimal number, exponent -/
def FloatNum (t : Str) (x : Rat) : Prop :=
  ∃ sg body ex neg m k, Sign sg neg ∧ DecNum body m ∧ ExpPart ex k ∧ t = sg ++ body ++ ex ∧
    x = (if neg then -1 else 1) * m * pow10 k

/-- `ws` are the maximal runs of non-blank characters of `s` (`split_whitespace`) -/
inductive Words : Str → List Str → Prop
  | nil {g : Str} : AllSat isWs g → Words g []
  | cons {g w rest : Str} {ws : List Str} : AllSat isWs g → w ≠ [] → NoneSat isWs w →
      StopsAt (fun c => !isWs c) rest → Words rest ws → Words (g ++ w ++ rest) (w :: ws)

/-- the documented hard-coded units of the empty converter: minutes per unit -/
def hardFactor (u : Str) : Option Rat :=
  if u = ['s'] ∨ u = ['s','e','c'] ∨ u = ['s','e','c','s'] ∨ u = ['s','e','c','o','n','d'] ∨ u = ['s','e','c','o','n','d','s'] then some (1 / 60)
  else if u = ['m'] ∨ u = ['m','i','n'] ∨ u = ['m','i','n','u','t','e'] ∨ u = ['m','i','n','u','t','e','s'] then some 1
  else if u = ['h'] ∨ u = ['h','o','u','r'] ∨ u = ['h','o','u','r','s'] then some 60
  else if u = ['d'] ∨ u = ['d','a','y'] ∨ u = ['d','a','y','s'] then some 1440
  else none

/-- the unit a converter uses as the minute: the first of `min`, `minute`, `minutes`, `m` it knows -/
def minuteUnit (c : Conv Rat) : Option (Nat × TUnit Rat) :=
  match c.find ['m','i','n'] with
  | some u => some u
  | none => match c.find ['m','i','n','u','t','e'] with
    | some u => some u
    | none => match c.find ['m','i','n','u','t','e','s'] with
      | some u => some u
      | none => c.find ['m']

/-- `x` units `u` in minutes: the converter's own conversion to its minute unit when it has units,
    the hard-coded table when it is empty -/
def unitMinutes (c : Conv Rat) (x : Rat) (u : Str) : Option Rat :=
  if c.units = [] then (hardFactor u).map (fun f => x * f)
  else match minuteUnit c with
    | none => none
    | some m => match c.find u with
      | none => none
      | some un =>
        if m.2.isTime = true ∧ un.2.isTime = true then
          some ((x + un.2.diff) * un.2.ratio / m.2.ratio - m.2.diff)
        else none

/-- number–unit pairs over the words of the text: the unit is attached (`90min`) or the next word (`90 min`) -/
inductive PairWords (toMin : Rat → Str → Option Rat) : List Str → Rat → Prop
  | nil : PairWords toMin [] 0
  | attached {num unit : Str} {x m t : Rat} {ws : List Str} :
      DecNum num x → StopsAt isNumCh unit → unit ≠ [] → toMin x unit = some m → PairWords toMin ws t →
      PairWords toMin ((num ++ unit) :: ws) (m + t)
  | spaced {num unit : Str} {x m t : Rat} {ws : List Str} :
      DecNum num x → toMin x unit = some m → PairWords toMin ws t →
      PairWords toMin (num :: unit :: ws) (m + t)

/-- the text read as number–unit pairs gives `n` whole minutes (rounded half away from zero) -/
def PairsReading (c : Conv Rat) (s : Str) (n : Nat) : Prop :=
  ∃ ws t, Words s ws ∧ PairWords (unitMinutes c) ws t ∧ (n : Int) = ratRound t

/-- the text read as a plain number of minutes -/
def NumberReading (s : Str) (n : Nat) : Prop := ∃ x, FloatNum s x ∧ (n : Int) = ratRound x

/-- `n` is one of the documented readings of the text -/
def Reading (c : Conv Rat) (s : Str) (n : Nat) : Prop := HhMm s n ∨ PairsReading c s n ∨ NumberReading s n

/-- The minutes a text stands for: the first of the three forms (compact, pairs, plain number)
    under which it has a reading a `u32` can hold. -/
def Minutes (c : Conv Rat) (s : Str) (n : Nat) : Prop :=
  s ≠ [] ∧ n < u32Bound ∧
  (HhMm s n
   ∨ ((¬ ∃ k, HhMm s k ∧ k < u32Bound) ∧ PairsReading c s n)
   ∨ ((¬ ∃ k, HhMm s k ∧ k < u32Bound) ∧ (¬ ∃ k, PairsReading c s k ∧ k < u32Bound) ∧ NumberReading s n))

/-- minutes of a YAML value: a text as above, or a natural number -/
def MinutesOf (c : Conv Rat) : Y → Nat → Prop
  | .str s, n => Minutes c s n
  | .num k, n => k.u64 = some n ∧ n < u32Bound
  | _, _ => False

/-- an optional entry of the mapping form -/
def OptMinutes (c : Conv Rat) : Option Y → Option Nat → Prop
  | none, r => r = none
  | some v, r => ∃ n, MinutesOf c v n ∧ r = some n

/-- `time`: a total, or a mapping with `prep` and/or `cook` -/
def TimeOf (c : Conv Rat) (v : Y) : RecipeTime → Prop
  | .total n => MinutesOf c v n
  | .composed p k => ∃ m, v = .map m ∧ OptMinutes c (mapGet prepKey m) p ∧ OptMinutes c (mapGet cookKey m) k ∧
      (p ≠ none ∨ k ≠ none)

/-! ### servings -/

/-- the number an entry starts with: its maximal ASCII-alphanumeric prefix is a digit string -/
def LeadNat (e : Str) (n : Nat) : Prop :=
  ∃ p r, e = p ++ r ∧ p ≠ [] ∧ AllDigits p ∧ StopsAt isAsciiAlnum r ∧ n = decVal p

/-- one element of a servings list: a natural number or a text starting with one -/
def ServingElem : Y → Nat → Prop
  | .num k, n => (k.u64 = some n ∧ n < u32Bound)
  | .str s, n => LeadNat s n ∧ n < u32Bound
  | _, _ => False

/-- servings: one number, the leading numbers of the `|`-separated entries of a text, or of a list;
    no duplicates -/
def Servings : Y → List Nat → Prop
  | .num k, l => ∃ n, k.u64 = some n ∧ n < u32Bound ∧ l = [n]
  | .str s, l => ∃ es, SplitBy '|' s es ∧ Forall2 (fun e n => LeadNat (trim e) n ∧ n < u32Bound) es l ∧ l.Nodup
  | .seq ys, l => Forall2 ServingElem ys l ∧ l.Nodup
  | _, _ => False

/-! ### tags -/

/-- keep the first occurrence of every entry -/
def firstOccurrences : List Str → List Str
  | [] => []
  | x :: xs => x :: (firstOccurrences xs).filter (fun y => y ≠ x)

/-- text or number as text -/
def StrLike : Y → Str → Prop
  | .str s, t => t = s
  | .num k, t => t = k.text
  | _, _ => False

/-- tags: the trimmed entries of a comma-separated text, or the entries of a list; empty entries
    dropped, first occurrences kept -/
def Tags : Y → List Str → Prop
  | .str s, l => ∃ es, SplitBy ',' s es ∧ l = firstOccurrences ((es.map trim).filter (fun e => e ≠ []))
  | .seq ys, l => ∃ es, Forall2 StrLike ys es ∧ l = firstOccurrences (es.filter (fun e => e ≠ []))
  | _, _ => False

/-! ### locale -/

def Letter2 (t : Str) : Prop := ∃ a b, t = [a, b] ∧ isAsciiAlpha a = true ∧ isAsciiAlpha b = true

/-- `ll` or `ll_CC` -/
def Locale : Y → Str × Option Str → Prop
  | .str s, (l, none) => s = l ∧ Letter2 l
  | .str s, (l, some d) => s = l ++ '_' :: d ∧ Letter2 l ∧ Letter2 d
  | _, _ => False

/-! ### name and URL -/

/-- `scheme://host…`: alphabetic scheme, non-empty host without blanks (the host ends at the first `/`) -/
def IsUrl (alpha : Char → Bool) (s : Str) : Prop :=
  ∃ scheme host tail, s = scheme ++ [':', '/', '/'] ++ host ++ tail ∧ AllSat alpha scheme ∧ host ≠ [] ∧
    (∀ c ∈ host, isWs c = false ∧ c ≠ '/') ∧ (tail = [] ∨ ∃ r, tail = '/' :: r)

/-- non-blank trimmed text, or nothing -/
def nonBlank (s : Str) : Option Str := if trim s = [] then none else some (trim s)

/-- the text has the form `Name <Url>` (name possibly empty, ASCII blanks may follow the `>`) -/
def AngleForm (alpha : Char → Bool) (s name url : Str) : Prop :=
  ∃ tail, s = name ++ '<' :: url ++ '>' :: tail ∧ AllSat isAsciiWs tail ∧ '<' ∉ name ∧ '<' ∉ url ∧ '>' ∉ url ∧
    IsUrl alpha (trim url)

/-- `Name <Url>` / `<Url>`, else `Url`, else `Name` -/
def NameUrlOf (alpha : Char → Bool) (s : Str) (r : NameUrl) : Prop :=
  (∃ name url, AngleForm alpha s name url ∧ r = ⟨nonBlank name, nonBlank url⟩)
  ∨ ((¬ ∃ name url, AngleForm alpha s name url) ∧ IsUrl alpha s ∧ r = ⟨none, nonBlank s⟩)
  ∨ ((¬ ∃ name url, AngleForm alpha s name url) ∧ ¬ IsUrl alpha s ∧ r = ⟨nonBlank s, none⟩)

/-- author / source: a text (or number) in the forms above, or a mapping with `name` and/or `url` texts -/
def NameAndUrl (alpha : Char → Bool) : Y → NameUrl → Prop
  | .str s, r => NameUrlOf alpha s r
  | .num k, r => NameUrlOf alpha k.text r
  | .map m, r => ((mapGet nameKey m).bind asStr ≠ none ∨ (mapGet urlKey m).bind asStr ≠ none) ∧
      r = ⟨((mapGet nameKey m).bind asStr).bind nonBlank, ((mapGet urlKey m).bind asStr).bind nonBlank⟩
  | _, _ => False

/-! ### the documented forms per standard key -/

/-- the value is of a documented form for the key (keys without validation accept everything) -/
def Accepts (c : Conv Rat) (alpha : Char → Bool) : StdKey → Y → Prop
  | .servings, v => ∃ l, Servings v l
  | .tags, v => ∃ l, Tags v l
  | .time, v => ∃ t, TimeOf c v t
  | .prepTime, v => ∃ n, MinutesOf c v n
  | .cookTime, v => ∃ n, MinutesOf c v n
  | .title, v => ∃ s, v = .str s
  | .description, v => ∃ s, v = .str s
  | .locale, v => ∃ r, Locale v r
  | .author, v => ∃ r, NameAndUrl alpha v r
  | .source, v => ∃ r, NameAndUrl alpha v r
  | .course, _ => True
  | .difficulty, _ => True
  | .cuisine, _ => True
  | .diet, _ => True
  | .images, _ => True

end Cook.SM.Spec
