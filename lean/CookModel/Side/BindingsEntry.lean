import CookModel.Side.BindingsAisle
import CookModel.Analysis.Collector
import CookModel.Num.Scale
/-
  Model of the exported entry points of the bindings crate that wrap the parser
  (bindings/src/lib.rs: `parse_recipe`, `parse_metadata`) and of the `metadata` field of the view
  (bindings/src/model.rs, end of `into_simple_recipe`; the same loop is the body of `parse_metadata`).

  * `parse_recipe(input, factor)`: `parser.parse(&input).into_result().unwrap()` — a panic of the wrapper
    when the pass result is not valid (no output, or an error diagnostic: `PassResult::is_valid`) —, then
    `scale(factor, parser.converter())`, then `into_simple_recipe`.  The parser is the argument `env`
    (the real one is `CooklangParser::canonical()`: no extensions, empty converter), the converter `cv`.
    A panic inside the parser model is passed on (C03: there is none).
  * The metadata map of the core recipe is a `serde_yaml::Mapping` (external library).  The conversion
    loop looks at an entry only through `Value::as_str` of its key and of its value, so an entry is
    modelled by these two readings (`MetaEntry`); an entry is copied when both are strings, with
    `HashMap::insert` (a later entry with the same string key replaces the earlier one — possible only
    for keys that differ as YAML values but read as the same string, e.g. a tagged and a plain scalar).
-/
namespace Cook.Ffi
open Cook

/-! ## the `metadata` field of the view, `parse_metadata` -/

/-- one entry of `recipe.metadata.map` as the conversion sees it: `key.as_str()`, `value.as_str()` -/
structure MetaEntry where
  key : Option Str
  value : Option Str
deriving Repr, Inhabited, DecidableEq

/-- body of `for (key, value) in &recipe.metadata.map`:
    `if let (Some(key), Some(value)) = (key.as_str(), value.as_str()) { metadata.insert(key, value) }` -/
def metaStep (m : AList Str Str) (e : MetaEntry) : AList Str Str :=
  match e.key, e.value with
  | some k, some v => AList.insert m k v
  | _, _ => m

/-- the `metadata` field of `into_simple_recipe`'s result, and the result of `parse_metadata`
    (`CooklangMetadata = HashMap<String, String>`), as a function of the core map's entries in
    iteration (= insertion) order -/
def intoMetadata (entries : List MetaEntry) : AList Str Str := entries.foldl metaStep []

/-! ## `parse_recipe` -/

/-- `PassResult::is_valid`: output present and no error diagnostic -/
def passValid {α} (r : AnalysisResult α) : Bool :=
  r.output.isSome && !(r.diags.toList.any (fun d => d.sev == .error))

/-- the `Recipe` packed from the collector the analysis returns (sections and the four tables) -/
def colRecipe {α} (c : Col α) : ScalableRecipe α :=
  { sections := c.sections, ingredients := c.ingredients.toList, cookware := c.cookware.toList,
    timers := c.timers.toList, inlineQuantities := c.inlineQ.toList }

/-- `parser.parse(&input).into_result().unwrap()` followed by `.scale(factor, converter)` -/
def parseScaled {α} [Arith α] (env : Env) (cv : Converter α) (input : Str) (factor : α) :
    Except Panic (ScaledRecipe α) :=
  match (parseRecipe (α := α) env input).panic with
  | some site => .error (.unwrapNone site)
  | none =>
    if passValid (parseRecipe (α := α) env input) then
      match (parseRecipe (α := α) env input).output with
      | some c => .ok (recipeScale cv (colRecipe c) factor).1
      | none => .error (.unwrapNone "parse_recipe: into_result")
    else .error (.unwrapNone "parse_recipe: into_result")

/-- `parse_recipe` (sections and components of the view; its `metadata` field is `intoMetadata` of
    the core recipe's map, which scaling copies) -/
def parseRecipeView {α} [Arith α] (env : Env) (cv : Converter α) (input : Str) (factor : α) :
    Except Panic (CooklangRecipe α) :=
  (parseScaled env cv input factor).map intoSimpleRecipe

end Cook.Ffi
