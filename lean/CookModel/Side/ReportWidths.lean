import CookModel.Side.Report
/-
  Model of the WIDTH ARITHMETIC of `write_report` (src/error.rs:532-538) and of the code parts codesnake 0.2.1 hands
  to it, in the order in which it does (`Block::new` lib.rs:257-330, `Parts::segment` lib.rs:520-545,
  `Block::map_code` / `Parts::map_code` lib.rs:344-348, 539-546):

    * every line touched by a label is cut into PARTS: the `incoming` part (the beginning of the last line of a
      label over several lines), the `inside` parts (labelled ranges, the unlabelled text between / after them, a whole
      middle line of a label over several lines), the `outgoing` part (the rest of the first line of a label over
      several lines).  Each `&line[a..b]` is a panic site;
    * the closure of `map_code` is called once per part: lines top to bottom, in a line `incoming`, `inside` left
      to right, `outgoing`.  It keeps ONE flag `prev_empty` over the whole block (also across lines);
    * per part: `sub = prev_empty as usize`, `prev_empty = s.is_empty()`, tabs become four spaces,
      `w = UnicodeWidthStr::width(s)`, the width handed to codesnake is `max(w, 1) - sub` (a `usize` subtraction:
      panic site).

  `UnicodeWidthStr::width` (unicode-width 0.2.0) is external and is NOT the sum of the widths of the characters
  (emoji sequences, `\r\n`, …): it is a parameter `strWidth : List Char → Nat` of the model.
  Tied to the code by the driver operation `report_widths` (Driver/Report.lean), which gets the widths of the
  strings involved from the real `unicode-width` as a table, against the underline row of the rendered report
  (harness/src/props/c04.rs, `report_widths_case`).
-/
namespace Cook

/-- the parts of a line as `Block::new` collects them: byte ranges relative to the line.  `inside`: range and whether
    it carries a label (`false` = a whole middle line of a label over several lines). -/
structure RawParts where
  incoming : Option Nat := none
  inside : List (Nat × Nat × Bool) := []
  outgoing : Option Nat := none
deriving Repr, DecidableEq

/-- one step of the loop of `Block::new` over an accepted label; the lines are kept NEWEST FIRST
    (`lines.pop()` = head): line number, line text, parts -/
def blockLinesStep (idx : List (Nat × List Char)) (lines : List (Nat × List Char × RawParts)) (l : Span) :
    Except String (List (Nat × List Char × RawParts)) :=
  match reportLineOf idx l.start, reportLineOf idx l.stop with
  | some (n1, st1, t1), some (n2, st2, t2) =>
    if n1 > n2 then .error "codesnake: debug_assert start.line_no <= end.line_no" else
    let popped : RawParts × List (Nat × List Char × RawParts) :=
      match lines with
      | (n, t, p) :: rest => if n = n1 then (p, rest) else ({}, (n, t, p) :: rest)
      | [] => ({}, [])
    if n1 = n2 then
      .ok ((n1, t1, { popped.1 with inside := popped.1.inside ++ [(l.start - st1, l.stop - st1, true)] }) :: popped.2)
    else if n2 ≤ idx.length then
      let mids : List (Nat × List Char × RawParts) :=
        (((idx.drop (n1 + 1)).take (n2 - (n1 + 1))).zipIdx).map
          (fun p => (n1 + 1 + p.2, p.1.2, { inside := [(0, utf8Len p.1.2, false)] }))
      .ok ((n2, t2, { incoming := some (l.stop - st2) }) ::
        (mids.reverse ++ (n1, t1, { popped.1 with outgoing := some (l.start - st1) }) :: popped.2))
    else .error "codesnake: idx.0[line_no]"
  | _, _ => .error "codesnake: index entry of an accepted label"

def blockLinesGo (idx : List (Nat × List Char)) :
    List (Nat × List Char × RawParts) → List Span → Except String (List (Nat × List Char × RawParts))
  | lines, [] => .ok lines
  | lines, l :: rest =>
    match blockLinesStep idx lines l with
    | .ok lines' => blockLinesGo idx lines' rest
    | .error e => .error e

/-- what a part is: `incoming`, a labelled range, unlabelled text (or a middle line), `outgoing` -/
inductive PartKind where
  | incoming | labelled | plain | outgoing
deriving Repr, DecidableEq

/-- `unlabelled(start, end)`: `(start < end).then(|| &line[start..end])` -/
def segUnlabelled (line : List Char) (a b : Nat) : Option (List (PartKind × List Char)) :=
  if a < b then (sliceBytes line a b).map (fun t => [(.plain, t)]) else some []

/-- the `flat_map` of `Parts::segment` over the `inside` ranges, `pos` = end of the previous one -/
def segInside (line : List Char) : Nat → List (Nat × Nat × Bool) → Option (List (PartKind × List Char))
  | _, [] => some []
  | pos, (a, b, lab) :: rest =>
    match segUnlabelled line pos a, sliceBytes line a b, segInside line b rest with
    | some u, some t, some r => some (u ++ (if lab then PartKind.labelled else PartKind.plain, t) :: r)
    | _, _, _ => none

/-- `Parts::segment`: the parts of one line as texts, in the order in which `Parts::map_code` visits them;
    `none` = a slice panics -/
def segmentParts (line : List Char) (p : RawParts) : Option (List (PartKind × List Char)) :=
  let len := utf8Len line
  let start := p.incoming.getD 0
  let stop := p.outgoing.getD len
  let last := match p.inside.getLast? with
    | some r => r.2.1
    | none => start
  let inc : Option (List (PartKind × List Char)) :=
    match p.incoming with
    | some e => (sliceBytes line 0 e).map (fun t => [(.incoming, t)])
    | none => some []
  let out : Option (List (PartKind × List Char)) :=
    match p.outgoing with
    | some s => (sliceBytes line s len).map (fun t => [(.outgoing, t)])
    | none => some []
  match inc, segInside line start p.inside, segUnlabelled line last stop, out with
  | some i, some m, some u, some o => some (i ++ m ++ u ++ o)
  | _, _, _, _ => none

def segmentLines : List (Nat × List Char × RawParts) → Except String (List (Nat × List (PartKind × List Char)))
  | [] => .ok []
  | (n, t, p) :: rest =>
    match segmentParts t p, segmentLines rest with
    | some ps, .ok r => .ok ((n, ps) :: r)
    | none, _ => .error "codesnake: slice of a line in Parts::segment"
    | _, .error e => .error e

/-- the closure of `block.map_code` for one part (error.rs:533-538): the width handed to codesnake and the new
    `prev_empty`.  `max(w, 1) - sub` is a `usize` subtraction. -/
def codeWidthStep (strWidth : List Char → Nat) (prevEmpty : Bool) (s : List Char) : Except String Nat × Bool :=
  (if (if prevEmpty then 1 else 0) ≤ max (strWidth (expandTabs s)) 1
    then .ok (max (strWidth (expandTabs s)) 1 - (if prevEmpty then 1 else 0))
    else .error "write_report: max(w, 1) - sub",
   s.isEmpty)

/-- the closure over a sequence of parts, in call order -/
def codeWidths (strWidth : List Char → Nat) : Bool → List (List Char) → Except String (List Nat)
  | _, [] => .ok []
  | pe, s :: rest =>
    match (codeWidthStep strWidth pe s).1, codeWidths strWidth (codeWidthStep strWidth pe s).2 rest with
    | .ok w, .ok ws => .ok (w :: ws)
    | .error e, _ => .error e
    | _, .error e => .error e

/-- a line of the block with the widths: line number, parts (kind, text with tabs expanded, width) -/
abbrev WLine := Nat × List (PartKind × List Char × Nat)

/-- put the widths (one per part, in call order) back on the lines -/
def attachWidths : List (Nat × List (PartKind × List Char)) → List Nat → List WLine
  | [], _ => []
  | (n, ps) :: rest, ws =>
    (n, (ps.zip (ws.take ps.length)).map (fun x => (x.1.1, expandTabs x.1.2, x.2))) :: attachWidths rest (ws.drop ps.length)

inductive WidthResult where
  | noLabels
  | rejected
  | panic (site : String)
  | block (lines : List WLine)
deriving Repr, DecidableEq

/-- `write_report` for one diagnostic with the given labels: the parts of the code block and their widths -/
def reportWidthsDiag (strWidth : List Char → Nat) (src : List Char) (labels : List Span) : WidthResult :=
  if labels.isEmpty then .noLabels else
  if !blockAccepts (lineIndex src) none (sortLabels labels) then .rejected else
  match blockLinesGo (lineIndex src) [] (sortLabels labels) with
  | .error e => .panic e
  | .ok rev =>
    match segmentLines rev.reverse with
    | .error e => .panic e
    | .ok lines =>
      match codeWidths strWidth false (lines.flatMap (fun l => l.2.map (·.2))) with
      | .error e => .panic e
      | .ok ws => .block (attachWidths lines ws)

def reportWidths (strWidth : List Char → Nat) (src : List Char) (diags : List Diag) : List WidthResult :=
  (reportOrder diags).map (fun d => reportWidthsDiag strWidth src d.labels)

/-- `Block::line_no_width`: the number of decimal digits of the last line number + 1 (the gutter width);
    `self.0.last().unwrap()` cannot fail on a block with at least one label -/
def lineNoWidth (lastLineNo : Nat) : Nat := (Nat.toDigits 10 (lastLineNo + 1)).length

end Cook
