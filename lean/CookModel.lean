-- This module serves as the root of the `CookModel` library.
-- Import modules here that should be built as part of the library.
import CookModel.Basic
