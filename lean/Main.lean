import CookModel.Driver.All
open Cook Driver

def dispatch (line : String) : String :=
  let toks := (line.trimAscii.toString.splitOn " ").filter (· ≠ "")
  match handlers.findSome? (fun h => h toks) with
  | some r => r
  | none => "bad-op"

partial def loop (hin hout : IO.FS.Stream) : IO Unit := do
  let line ← hin.getLine
  if line.isEmpty then return ()
  if line.trimAscii.toString == "flush" then
    hout.putStrLn "flushed"; hout.flush
  else
    hout.putStrLn (dispatch line)
  loop hin hout

def main : IO Unit := do
  let hin ← IO.getStdin
  let hout ← IO.getStdout
  loop hin hout
  hout.flush
