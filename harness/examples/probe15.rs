use cooklang::{CooklangParser, ScalableRecipe, ScaledRecipe};
fn main() {
    let parser = CooklangParser::extended();
    let inputs = [
        "---\n1: x\n---\n@a{1%g}",
        "---\n? [a, b]\n: 1\n---\nx",
        "---\n~: 1\n---\nx",
        "---\ntrue: 1\n---\nx",
        "---\n1.5: 1\n---\nx",
        "---\na: !foo bar\n---\nx",
        "---\na: .inf\n---\nx",
        "---\na: 1e400\n---\nx",
        "---\na: -0.0\n---\nx",
        "---\na: 18446744073709551615\nb: -9223372036854775808\nc: 1.0\nd: 1e3\ne: 123456789012345678901234567890\n---\nx",
        "---\n1: x\n\"1\": y\n---\nx",
        "---\na: {1: 2}\n---\nx",
        "@a{1e400}",
        "@a{99999999999999999999999999999999999999999999999999999999999999999999999999999999999999999999999999999999999999999999999999999999999999999999999999999999999999999999999999999999999999999999999999999999999999999999999999999999999999999999999999999999999999999999999999999999999999999999999999999999999999999999999999999999999}",
        "@a{1/3%cup} @b{2-3%kg} @&a{1%cup} ~{5%min} #p{2}",
        "---\nservings: 2|4\n---\n@a{1|2%g}",
        "---\na: 0x10\nb: 0o17\nc: +5\nd: 1_000\n---\nx",
    ];
    for inp in inputs {
        println!("== {inp:?}");
        let Ok((r, _)) = parser.parse(inp).into_result() else { println!("  rejected"); continue; };
        match serde_json::to_string(&r) {
            Err(e) => println!("  to_string fails: {e}"),
            Ok(js) => {
                println!("  json: {}", &js[..js.len().min(300)]);
                match serde_json::from_str::<ScalableRecipe>(&js) {
                    Err(e) => println!("  from_str fails: {e}"),
                    Ok(back) => { println!("  equal: {}  rejson-identical: {}", back == r, serde_json::to_string(&back).unwrap() == js); }
                }
            }
        }
        let s = r.scale(2.0, parser.converter());
        match serde_json::to_string(&s) {
            Err(e) => println!("  scaled to_string fails: {e}"),
            Ok(js) => match serde_json::from_str::<ScaledRecipe>(&js) {
                Err(e) => println!("  scaled from_str fails: {e}  json {}", &js[..js.len().min(400)]),
                Ok(back) => println!("  scaled rejson-identical: {}", serde_json::to_string(&back).unwrap() == js),
            }
        }
    }
}
