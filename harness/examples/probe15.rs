use cooklang::CooklangParser;
fn main() {
    let parser = CooklangParser::extended();
    for inp in ["@a{1000000%g}", "@a{1 1/3%g}", "@a{7/3}", "@a{1/2-3/4%g}", "@a{=1%g}", "@a{2 g}", "@a{1 1/2 cup}", "#pan{1-2}", "@a{10.25 %kg}", "~{1000000%min}", "~{0.1%h}","@a{1} @&a{2}", "step one @x{}\n\nthen @&(~1)dough{}", "one\n\ntwo @&(1)thing{1%g}", "= A\n\nx\n\n= B\n\n@&(=1)sec{} @&(=~1)prev{}", "@a|b{1}", "@&a{}", "@a{} @&a|c{}", "@?a{} @-b{} @+c{} @@d{}", "@a{}(n) @&a{}(m)"] {
        match parser.parse(inp).into_result() { Ok(_) => println!("ok   {inp:?}"), Err(e) => println!("ERR  {inp:?}: {}", e.errors().next().map(|d| d.to_string()).unwrap_or_default()) }
    }
}
