//! Documents WITH front matter, front matter interpreted (and, with `-` for the front-matter argument, documents WITHOUT
//! front matter under a `metadata_validator`: the `>>` arm, lean/CookModel/Analysis/MetaValidator.lean): the whole result of `parse_with_options` /
//! `parse_metadata_with_options` (metadata mapping, servings, every diagnostic with its labels) against the model of
//! `process_frontmatter` (lean/CookModel/Analysis/FrontMatter.lean, ops `recipe_fm` / `metaonly_fm`).
//! `serde_yaml` stays external: the harness decodes the YAML slice with the decoder the crate uses and sends the
//! mapping (or the error location); the verdicts of the `metadata_validator` callback are recorded in call order.
use crate::ctx::Ctx;
use crate::render::*;
use crate::rng::Rng;
use crate::util::{enc_text, guarded};
use cooklang::analysis::{CheckOptions, CheckResult, ParseOptions};
use cooklang::parser::{Event, PullParser};
use cooklang::{Converter, CooklangParser, Extensions};
use serde_yaml::Value;
use std::cell::RefCell;
use std::rc::Rc;

pub fn enc_yaml(v: &Value) -> String {
    match v {
        Value::Null => "n".into(),
        Value::Bool(_) => "b".into(),
        Value::Tagged(_) => "t".into(),
        Value::String(s) => format!("s:{}", enc_text(s)),
        Value::Number(n) => format!("i:{}:{}", n.as_u64().map(|x| x.to_string()).unwrap_or("~".into()), enc_text(&n.to_string())),
        Value::Sequence(l) => format!("[{}]", l.iter().map(enc_yaml).collect::<Vec<_>>().join(";")),
        Value::Mapping(m) => format!("{{{}}}", m.iter().map(|(k, v)| format!("{}={}", enc_yaml(k), enc_yaml(v))).collect::<Vec<_>>().join(";")),
    }
}

pub(crate) fn has_tag(v: &Value) -> bool {
    match v {
        Value::Tagged(_) => true,
        Value::Sequence(l) => l.iter().any(has_tag),
        Value::Mapping(m) => m.iter().any(|(k, v)| has_tag(k) || has_tag(v)),
        _ => false,
    }
}

/// a decimal exponent of 7+ digits somewhere in a text (the driver refuses those, see Driver/StdMeta.lean)
pub(crate) fn huge_exp(v: &Value) -> bool {
    fn text(s: &str) -> bool {
        let b: Vec<char> = s.chars().collect();
        for i in 0..b.len() {
            if b[i] == 'e' || b[i] == 'E' {
                let mut j = i + 1;
                if j < b.len() && (b[j] == '+' || b[j] == '-') { j += 1; }
                let n = b[j.min(b.len())..].iter().take_while(|c| c.is_ascii_digit()).count();
                if n >= 7 { return true; }
            }
        }
        false
    }
    match v {
        Value::String(s) => text(s),
        Value::Number(n) => text(&n.to_string()),
        Value::Sequence(l) => l.iter().any(huge_exp),
        Value::Mapping(m) => m.iter().any(|(k, v)| huge_exp(k) || huge_exp(v)),
        _ => false,
    }
}

/// the validator used for `mode` (0 = none); every call appends its verdict `<o|w|e><include><run_std_checks>`
fn options<'a>(mode: u8, log: Rc<RefCell<Vec<String>>>) -> ParseOptions<'a> {
    if mode == 0 { return ParseOptions::default(); }
    let mut calls = 0usize;
    ParseOptions {
        recipe_ref_check: None,
        metadata_validator: Some(Box::new(move |k: &Value, v: &Value, o: &mut CheckOptions| {
            let ks = k.as_str().unwrap_or("");
            let (mut incl, mut run) = (true, true);
            let res = match mode {
                1 => {
                    if ks.starts_with('t') { run = false; }
                    if ks.contains('e') { incl = false; CheckResult::Error(vec!["rejected key".into()]) } else if ks.len() % 2 == 0 { CheckResult::Warning(vec!["even".into()]) } else { CheckResult::Ok }
                }
                2 => {
                    if ks.starts_with("prep") { incl = false; }
                    if ks == "servings" || ks == "tags" { run = false; }
                    if calls % 3 == 2 { CheckResult::Warning(vec![]) } else { CheckResult::Ok }
                }
                _ => {
                    if ks.starts_with("cook") || ks == "time" && calls % 2 == 1 { incl = false; }
                    if !v.is_string() { run = false; }
                    if ks.starts_with("cook") { CheckResult::Error(vec!["no cook time".into()]) } else if !v.is_string() { CheckResult::Warning(vec!["not a string".into()]) } else { CheckResult::Ok }
                }
            };
            calls += 1;
            o.include(incl); o.run_std_checks(run);
            log.borrow_mut().push(format!("{}{}{}", match res { CheckResult::Ok => 'o', CheckResult::Warning(_) => 'w', CheckResult::Error(_) => 'e' }, incl as u8, run as u8));
            res
        })),
    }
}

fn r_diag_fm(d: &cooklang::error::SourceDiag, yaml_failed: bool) -> String {
    let (s, st) = sev_stage(d);
    let mut kind = diag_kind(d);
    // the message of a YAML error is serde_yaml's: recognised by where it can occur
    if yaml_failed && kind.starts_with("other:") && s == "E" && st == "A" { kind = "yaml-error".into(); }
    format!("{s}{st}({};{})", kind, d.labels.iter().map(|l| r_span(l.0)).collect::<Vec<_>>().join(","))
}

pub(crate) fn r_meta(map: &serde_yaml::Mapping) -> String {
    format!("meta=[{}]", map.iter().map(|(k, v)| format!("{}={}", enc_yaml(k), enc_yaml(v))).collect::<Vec<_>>().join(" "))
}

pub(crate) fn r_report(rep: &cooklang::error::SourceReport, yaml_failed: bool) -> String {
    format!("diags=[{}]", rep.iter().map(|d| r_diag_fm(d, yaml_failed)).collect::<Vec<_>>().join(" "))
}

/// One document with front matter, one converter (0 empty, 1 bundled), one validator mode: both entry points.
pub fn fm_case(ctx: &mut Ctx, input: &str, ext_bits: u32, conv: u8, mode: u8) {
    let ext = Extensions::from_bits_retain(ext_bits);
    let Ok(first) = guarded(|| PullParser::new(input, Extensions::empty()).next().and_then(|e| match e { Event::YAMLFrontMatter(t) => Some(t.text().into_owned()), _ => None })) else { return };
    // without front matter the validator is called by the `>>` arm (Analysis/MetaValidator.lean); the decoder is not used
    let (fm_arg, yaml_failed) = match first {
        None => ("-".to_string(), false),
        Some(yaml) => {
            // the decoder of the crate (event_consumer.rs:236)
            let decoded = serde_yaml::from_str::<serde_yaml::Mapping>(&yaml);
            match &decoded {
                Ok(m) => {
                    let whole = Value::Mapping(m.clone());
                    if has_tag(&whole) { ctx.count("fm:skipped (tagged value: the model's encoding has no payload for tags)"); return; }
                    if huge_exp(&whole) { ctx.count("fm:skipped (decimal exponent of 7+ digits)"); return; }
                    (format!("M{}", enc_yaml(&whole)), false)
                }
                Err(e) => (format!("E{}", e.location().map(|l| l.index().to_string()).unwrap_or("~".into())), true),
            }
        }
    };
    let no_fm = fm_arg == "-";
    let parser = CooklangParser::new(ext, if conv == 0 { Converter::empty() } else { Converter::bundled() });
    let desc = format!("front matter: ext={ext_bits} conv={conv} validator-mode={mode} input={input:?}");
    ctx.count(&format!("fm:mode{mode}:{}", if no_fm { "no-front-matter (>> path)" } else if yaml_failed { "yaml-error" } else { "decoded" }));
    // full parse
    {
        let log = Rc::new(RefCell::new(vec![]));
        let r = guarded(|| parser.parse_with_options(input, options(mode, log.clone())));
        let val = if mode == 0 { "-".to_string() } else { let l = log.borrow(); if l.is_empty() { "o11".to_string() } else { l.join(",") } };
        if no_fm && mode != 0 { for v in log.borrow().iter() { ctx.count(&format!("fm:>>validator-verdict:{}:include={}:run_std_checks={}", &v[0..1], &v[1..2], &v[2..3])); } }
        let reply = match &r {
            Err(_) => "PANIC".to_string(),
            Ok(res) => {
                let dstr = r_report(res.report(), yaml_failed);
                for d in res.report().iter() { let k = diag_kind(d); if matches!(k.as_str(), "std-unsupported-value" | "time-overridden-fm" | "metadata-validator") || k.starts_with("other:") { ctx.count(&format!("fm:diag:{}:{}labels", if k.starts_with("other:") { "yaml-error" } else { &k }, d.labels.len())); } }
                match res.output() {
                    None => format!("NOOUT {dstr}"),
                    Some(rec) => {
                        // (not through the serde image: a mapping with a non-string key has none)
                        let servings = match rec.servings() { Some(a) => format!("[{}]", a.iter().map(|x| x.to_string()).collect::<Vec<_>>().join(", ")), None => "-".into() };
                        format!("OUT {} {} servings={servings} {dstr}", r_recipe(rec, false), r_meta(&rec.metadata.map))
                    }
                }
            }
        };
        let nontrivial = r.as_ref().map(|res| !res.report().is_empty() || res.output().map_or(false, |o| !o.metadata.map.is_empty())).unwrap_or(true);
        ctx.case(format!("recipe_fm {ext_bits} {conv} {fm_arg} {val} {}", enc_text(input)), reply, nontrivial, desc.clone());
    }
    // metadata only
    {
        let log = Rc::new(RefCell::new(vec![]));
        let r = guarded(|| parser.parse_metadata_with_options(input, options(mode, log.clone())));
        let val = if mode == 0 { "-".to_string() } else { let l = log.borrow(); if l.is_empty() { "o11".to_string() } else { l.join(",") } };
        let reply = match &r {
            Err(_) => "PANIC".to_string(),
            Ok(res) => {
                let dstr = r_report(res.report(), yaml_failed);
                match res.output() {
                    None => format!("NOOUT {dstr}"),
                    Some(md) => format!("OUT {} {dstr}", r_meta(&md.map)),
                }
            }
        };
        let nontrivial = r.as_ref().map(|res| !res.report().is_empty() || res.output().map_or(false, |o| !o.map.is_empty())).unwrap_or(true);
        ctx.case(format!("metaonly_fm {ext_bits} {conv} {fm_arg} {val} {}", enc_text(input)), reply, nontrivial, desc);
    }
}

/// front matter as it can be written: block, quoted and flow keys, nested mappings repeating top-level names, comments,
/// blank lines, indentation, CRLF, non-ASCII keys, non-string keys, several time keys, YAML errors after multi-byte text
pub fn gen_doc(rng: &mut Rng) -> String {
    const LINES: &[&str] = &[
        "title: Tarta", "time: 1h", "time: pronto", "time: 90", "time: {prep: 10 min, cook: 1h}", "time: {}", "prep time: 5 min", "prep time: é",
        "cook time: 10 min", "cook time: [1]", "\"prep time\": 5 min", "'cook time': 1h", "\"time\": 2h", "? prep time\n: 7", "prep_time: 5", "duration: 1h",
        "servings: 4", "servings: [2, 4]", "servings: muchas", "servings: 2|4", "serves: 3", "yield: 4 4", "tags: [a, b]", "tags: a, b,, a", "tags: {a: 1}",
        "author: Ana <http://a.b>", "author: {name: Ñ}", "author: 7", "source: {url: 1}", "locale: es_ES", "locale: español", "description: [x]",
        "日本: 料理", "größe: groß", "nota: añadir — ¡ya!", "x : y", "  time : 3h", "time:", "1: uno", "true: sí", "~: nada",
        "nutrition:\n  time: mañana\n  servings: dos", "extra:\n    prep time: x", "# time: 1h", "", "   ",
        "cook time : 5", "time\u{00A0}: 1h", "\u{3000}cook time: 1h", "image: x.png", "course: dinner", "prep time:   5", "cook time:\n  10 min",
    ];
    // lines that usually make the whole block a YAML error (kept rare: one document in eight gets one)
    const ODD: &[&str] = &["a: [", "b: 'x", "time: 1h\ntime: 2h", "- a", "é: \"\\xZ\"", "x:y", "time:1h", "\ttime: 1h", "\u{000B}time: 1h", "ñandú: [é, \"", "日本: 'x"];
    let n = 1 + rng.below(7);
    let indent = if rng.chance(1, 5) { "  " } else { "" };
    let mut s = String::new();
    if rng.chance(1, 8) { s.push_str(rng.pick_str(&["\n", "  \n", "\u{FEFF}"])); }
    s.push_str("---\n");
    if rng.chance(1, 12) { s.push_str("{time: 1h, prep time: 5 min, servings: 2}\n"); }
    let odd_at = if rng.chance(1, 8) { rng.below(n) } else { n };
    for i in 0..n {
        let e = if i == odd_at { rng.pick_str(ODD) } else { rng.pick_str(LINES) };
        for line in e.split('\n') { s.push_str(indent); s.push_str(line); s.push('\n'); }
    }
    s.push_str("---\n");
    s.push_str(rng.pick_str(&["Mezclar @azúcar{1%kg}.\n", "", ">> time: 2h\n\nListo.\n", ">> [mode]: steps\n>> [x]: y\n@a{1%é}\n", "@a{1/0}\n", "paso\n"]));
    if rng.chance(1, 3) { s = s.replace('\n', "\r\n"); }
    if rng.chance(1, 10) { s = crate::gen::mutate(rng, &s); }
    s
}

/// documents WITHOUT front matter whose `>>` entries meet every verdict of the three validators (keys starting with `t`,
/// containing `e`, of even length, `prep…`, `cook…`, `servings`, `tags`, `time`), config entries in between (no call)
pub fn gen_old(rng: &mut Rng) -> String {
    const KEYS: &[&str] = &["time", "prep time", "cook time", "prep_time", "cook_time", "duration", "servings", "serves", "yield", "tags", "tag", "author", "source", "locale", "title", "[mode]", "[duplicate]", "[x]", "x", "nota", "日本", "course", "ab", "abc"];
    const VALS: &[&str] = &["1h", "10 min", "90", "a while", "2", "2|4", "muchas", "a, b", "", "Ana <http://a.b>", "en_US", "español", "steps", "ref", "4294967296", "0|2|4", "4|4"];
    let mut s = String::new();
    let n = 1 + rng.below(6);
    for _ in 0..n {
        s.push_str(&format!(">> {}: {}\n", rng.pick_str(KEYS), rng.pick_str(VALS)));
        if rng.chance(1, 4) { s.push_str(rng.pick_str(&["\nMezclar @azúcar{1%kg}.\n\n", "\npaso\n\n", "@a{1/0}\n", "= Parte\n"])); }
    }
    if rng.chance(1, 4) { s = s.replace('\n', "\r\n"); }
    s
}

/// the dedicated family, run by the C04 / C13 / C14 checks
pub fn family(ctx: &mut Ctx, tag: u64) {
    let mut rng = Rng::new(ctx.seed ^ tag ^ 0xF407);
    let n = if ctx.thorough { 40_000 } else { 2_500 };
    for i in 0..n {
        let s = if i % 7 == 6 { gen_old(&mut rng) } else if i % 5 == 4 { crate::gen::fm_scenario(&mut rng) } else if i % 11 == 10 { crate::gen::meta_scenario(&mut rng) } else { gen_doc(&mut rng) };
        let ext = match i % 3 { 0 => 0, 1 => 0xEEA, _ => crate::gen::ext_pattern(rng.below(256)) };
        fm_case(ctx, &s, ext, (i % 2) as u8, ((i / 2) % 4) as u8);
    }
}
