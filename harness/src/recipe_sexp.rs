//! Core recipe → S-expression of the line protocol (decoded by lean/CookModel/Driver/RecipeSexp.lean).
//! Built from the typed values through the public accessors, not from their serde image.
#![allow(dead_code)]
use crate::util::{bits, enc_text};
use cooklang::model::{ComponentRelation, Content, IngredientReferenceTarget, IngredientRelation, Item, Section};
use cooklang::quantity::{Number, Quantity, QuantityValue, ScalableValue, Value};
use cooklang::{Cookware, Ingredient, Recipe, Timer};

pub fn opt<T>(o: Option<T>, f: impl Fn(T) -> String) -> String {
    match o { None => "none".into(), Some(x) => format!("( some {} )", f(x)) }
}
pub fn opt_text(o: Option<&str>) -> String { opt(o, |s| enc_text(s)) }
pub fn list<T>(xs: impl IntoIterator<Item = T>, f: impl Fn(T) -> String) -> String {
    let mut s = String::from("(");
    for x in xs { s.push(' '); s.push_str(&f(x)); }
    s.push_str(" )");
    s
}

pub fn number(n: &Number) -> String {
    match n {
        Number::Regular(v) => format!("( R {} )", bits(*v)),
        Number::Fraction { whole, num, den, err } => format!("( F {whole} {num} {den} {} )", bits(*err)),
    }
}
pub fn value(v: &Value) -> String {
    match v {
        Value::Number(n) => format!("( num {} )", number(n)),
        Value::Range { start, end } => format!("( range {} {} )", number(start), number(end)),
        Value::Text(t) => format!("( text {} )", enc_text(t)),
    }
}
pub fn scalable(v: &ScalableValue) -> String {
    match v {
        ScalableValue::Fixed(v) => format!("( fixed {} )", value(v)),
        ScalableValue::Linear(v) => format!("( linear {} )", value(v)),
    }
}
pub fn quantity<V: QuantityValue>(q: &Quantity<V>, fv: &impl Fn(&V) -> String) -> String {
    format!("( qty {} {} )", fv(q.value()), opt_text(q.unit()))
}
pub fn item(i: &Item) -> String {
    match i {
        Item::Text { value } => format!("( t {} )", enc_text(value)),
        Item::Ingredient { index } => format!("( i {index} )"),
        Item::Cookware { index } => format!("( c {index} )"),
        Item::Timer { index } => format!("( m {index} )"),
        Item::InlineQuantity { index } => format!("( q {index} )"),
    }
}
pub fn content(c: &Content) -> String {
    match c {
        Content::Step(s) => format!("( step {} {} )", s.number, list(&s.items, item)),
        Content::Text(t) => format!("( text {} )", enc_text(t)),
    }
}
pub fn section(s: &Section) -> String {
    format!("( sec {} {} )", opt_text(s.name.as_deref()), list(&s.content, content))
}
pub fn relation(r: &ComponentRelation) -> String {
    match r {
        ComponentRelation::Definition { referenced_from, defined_in_step } =>
            format!("( def {} {} )", list(referenced_from, |i| i.to_string()), defined_in_step),
        ComponentRelation::Reference { references_to } => format!("( refto {references_to} )"),
    }
}
/// `reference_target` of a definition is not observable through the API (always `None` when built by the parser)
pub fn ing_relation(r: &IngredientRelation) -> String {
    match r.references_to() {
        Some((idx, t)) => {
            let t = match t { IngredientReferenceTarget::Ingredient => "ingredient", IngredientReferenceTarget::Step => "step", IngredientReferenceTarget::Section => "section" };
            format!("( irel ( refto {idx} ) {t} )")
        }
        None => format!("( irel ( def {} {} ) none )", list(r.referenced_from(), |i| i.to_string()), r.is_defined_in_step().unwrap_or(true)),
    }
}
pub fn ingredient<V: QuantityValue>(i: &Ingredient<V>, fv: &impl Fn(&V) -> String) -> String {
    format!("( ing {} {} {} {} {} {} {} )", enc_text(&i.name), opt_text(i.alias.as_deref()),
        opt(i.quantity.as_ref(), |q| quantity(q, fv)), opt_text(i.note.as_deref()),
        opt(i.reference.as_ref(), |r| format!("( ref {} {} )", enc_text(&r.name), list(&r.components, |c| enc_text(c)))),
        ing_relation(&i.relation), i.modifiers().bits())
}
pub fn cookware<V: QuantityValue>(c: &Cookware<V>, fv: &impl Fn(&V) -> String) -> String {
    format!("( cw {} {} {} {} {} {} )", enc_text(&c.name), opt_text(c.alias.as_deref()), opt(c.quantity.as_ref(), |v| fv(v)),
        opt_text(c.note.as_deref()), relation(&c.relation), c.modifiers().bits())
}
pub fn timer<V: QuantityValue>(t: &Timer<V>, fv: &impl Fn(&V) -> String) -> String {
    format!("( tm {} {} )", opt_text(t.name.as_deref()), opt(t.quantity.as_ref(), |q| quantity(q, fv)))
}
pub fn recipe<D, V: QuantityValue>(r: &Recipe<D, V>, fv: impl Fn(&V) -> String) -> String {
    format!("( recipe {} {} {} {} {} )", list(&r.sections, section), list(&r.ingredients, |i| ingredient(i, &fv)),
        list(&r.cookware, |c| cookware(c, &fv)), list(&r.timers, |t| timer(t, &fv)),
        list(&r.inline_quantities, |q| quantity(q, &|v: &Value| value(v))))
}
pub fn scaled_recipe(r: &cooklang::ScaledRecipe) -> String { recipe(r, |v: &Value| value(v)) }
pub fn scalable_recipe(r: &cooklang::ScalableRecipe) -> String { recipe(r, |v: &ScalableValue| scalable(v)) }
