//! C17 Line endings, comments and blank space do not change the recipe.
use crate::ctx::Ctx;
use crate::props::c06::recipe_case;
use crate::render::*;
use crate::rng::Rng;
use crate::wf::{self, Style};
use cooklang::model::{Content, Item};
use cooklang::ScalableRecipe;

fn norm_ws(s: &str) -> String { s.split_whitespace().collect::<Vec<_>>().join(" ") }

/// the recipe up to whitespace inside step text (text items whitespace-normalised, blank ones dropped, adjacent merged)
pub fn loose(r: &ScalableRecipe) -> String {
    let full = r_recipe(r, true);
    // replace the sections part by a whitespace-normalised rendering
    let mut secs = Vec::new();
    for s in &r.sections {
        let mut cs = Vec::new();
        for c in &s.content {
            match c {
                Content::Text(t) => cs.push(format!("TEXT({})", norm_ws(t))),
                Content::Step(st) => {
                    let mut its: Vec<String> = Vec::new();
                    let mut acc = String::new();
                    for it in &st.items {
                        match it {
                            Item::Text { value } => acc.push_str(value),
                            other => { let t = norm_ws(&acc); if !t.is_empty() { its.push(format!("t:{t}")); } acc.clear(); its.push(format!("{other:?}")); }
                        }
                    }
                    let t = norm_ws(&acc); if !t.is_empty() { its.push(format!("t:{t}")); }
                    cs.push(format!("STEP({};{})", st.number, its.join(",")));
                }
            }
        }
        secs.push(format!("SECT({:?};{})", s.name, cs.join(",")));
    }
    let rest = full.find("] ingredients=[").map(|p| &full[p..]).unwrap_or("");
    format!("{}{}", secs.join(" "), rest)
}

fn transform(rng: &mut Rng, text: &str, which: usize) -> String {
    let lines: Vec<&str> = text.split('\n').collect();
    match which {
        0 => text.replace('\n', "\r\n"),
        1 => { // trailing comment on a random non-empty, non-fence line
            let idxs: Vec<usize> = (0..lines.len()).filter(|&i| !lines[i].trim().is_empty() && lines[i].trim_end() != "---" && !in_front(&lines, i)).collect();
            if idxs.is_empty() { return text.to_string(); }
            let k = idxs[rng.below(idxs.len())];
            lines.iter().enumerate().map(|(i, l)| if i == k { format!("{l} -- note é") } else { l.to_string() }).collect::<Vec<_>>().join("\n")
        }
        2 => { // trailing spaces: on any non-empty line, the fence lines and the (plain `key: value`) lines of a front matter included
            let idxs: Vec<usize> = (0..lines.len()).filter(|&i| !lines[i].trim().is_empty()).collect();
            if idxs.is_empty() { return text.to_string(); }
            let k = idxs[rng.below(idxs.len())];
            lines.iter().enumerate().map(|(i, l)| if i == k { format!("{l}{}", rng.pick_str(&[" ", "  ", "   "])) } else { l.to_string() }).collect::<Vec<_>>().join("\n")
        }
        3 => { // block comment between two words of step text: replace one " and " / " the " style gap (space between two ASCII letters)
            let b = text.as_bytes();
            let gaps: Vec<usize> = (1..b.len().saturating_sub(1)).filter(|&i| b[i] == b' ' && b[i - 1].is_ascii_lowercase() && b[i + 1].is_ascii_lowercase() && !in_special(text, i)).collect();
            if gaps.is_empty() { return text.to_string(); }
            let g = gaps[rng.below(gaps.len())];
            format!("{} [- é c -] {}", &text[..g], &text[g + 1..])
        }
        5 => { // block comment between two words INSIDE a component (multi-word name, alias, unit, text value, note) or a section name:
               // these runs are read through text_trimmed, so the recipe must be equal (no white-space allowance is needed).
               // The word in front may be a number (`{1 kg}`, the value-blank-unit form of ADVANCED_UNITS), and the comment
               // replaces the blank with a blank on both sides, glued to the following word (`1 [- c -]kg`, defect F-C17-1)
               // or glued to the preceding word (`1[- c -] kg`); at least one blank always remains
            let b = text.as_bytes();
            let gaps: Vec<usize> = (1..b.len().saturating_sub(1)).filter(|&i| b[i] == b' ' && (b[i - 1].is_ascii_lowercase() || b[i - 1].is_ascii_digit()) && b[i + 1].is_ascii_lowercase() && in_component(text, i)).collect();
            if gaps.is_empty() { return text.to_string(); }
            // a gap after a number (value blank unit) is taken half of the time when there is one
            let num_gaps: Vec<usize> = gaps.iter().copied().filter(|&i| b[i - 1].is_ascii_digit()).collect();
            let g = if !num_gaps.is_empty() && rng.chance(1, 2) { num_gaps[rng.below(num_gaps.len())] } else { gaps[rng.below(gaps.len())] };
            let filler = rng.pick_str(&[" [- é c -] ", " [- é c -]", "[- é c -] ", " [- c -]", "[-c-] ", "  [- é c -][- d -] "]);
            format!("{}{filler}{}", &text[..g], &text[g + 1..])
        }
        6 => { // block comment inside braces that hold no quantity (`{}` / `{ }` after a component name): still no quantity
            let lines_v: Vec<&str> = text.split('\n').collect();
            let spots: Vec<(usize, usize)> = text.match_indices("{}").map(|(i, _)| (i + 1, i + 1)).chain(text.match_indices("{ }").map(|(i, _)| (i + 1, i + 2)))
                .filter(|&(i, _)| { let ln = text[..i].matches('\n').count(); let ls = text[..i].rfind('\n').map(|p| p + 1).unwrap_or(0); let l = lines_v[ln];
                    !in_front(&lines_v, ln) && !l.starts_with('>') && !l.starts_with('=') && text[ls..i - 1].contains(|c| c == '@' || c == '#' || c == '~') }).collect();
            if spots.is_empty() { return text.to_string(); }
            let (a, e) = spots[rng.below(spots.len())];
            let filler = rng.pick_str(&["[- c -]", " [- to taste -] ", " [- c -]", "[- é -] ", "[- c -][- d -]"]);
            format!("{}{filler}{}", &text[..a], &text[e..])
        }
        _ => { // extra blank / comment-only lines between blocks: after an existing blank line
            let idxs: Vec<usize> = (1..lines.len()).filter(|&i| lines[i].is_empty() && !in_front(&lines, i)).collect();
            if idxs.is_empty() { return text.to_string(); }
            let k = idxs[rng.below(idxs.len())];
            let extra = rng.pick_str(&["", "   ", "-- only a comment", "[- block -]", "\n"]);
            lines.iter().enumerate().flat_map(|(i, l)| if i == k { vec![l.to_string(), extra.to_string(), String::new()] } else { vec![l.to_string()] }).collect::<Vec<_>>().join("\n")
        }
    }
}

fn in_front(lines: &[&str], i: usize) -> bool {
    // inside a front matter block at the top
    if lines.first().map(|l| l.trim_end()) != Some("---") { return false; }
    let close = (1..lines.len()).find(|&k| lines[k].trim_end() == "---").unwrap_or(0);
    i <= close
}
fn in_special(text: &str, pos: usize) -> bool {
    // only lines that are step text: not `>>`, `=`, `>` lines, not inside braces/parens, not in front matter
    let ls = text[..pos].rfind('\n').map(|p| p + 1).unwrap_or(0);
    let line = &text[ls..text[pos..].find('\n').map(|p| p + pos).unwrap_or(text.len())];
    if line.starts_with(">>") || line.starts_with('=') || line.starts_with('>') || line.trim_end() == "---" || line.contains(": ") && text.starts_with("---") && ls < text[3..].find("---").map(|p| p + 3).unwrap_or(0) { return true; }
    let before = &text[ls..pos];
    let open = before.matches('{').count() > before.matches('}').count() || before.matches('(').count() > before.matches(')').count();
    // inside a multi-word component name (between marker and '{')?
    let last_marker = before.rfind(|c| c == '@' || c == '#' || c == '~');
    let in_name = match last_marker { Some(m) => !before[m..].contains('{') && text[pos..].find('{').map(|b| text[pos..pos + b].find(|c| c == '@' || c == '#' || c == '~' || c == '\n').is_none()).unwrap_or(false), None => false };
    open || in_name
}

/// a blank between two words of a component body (name / alias between marker and `{`, inside `{…}` or `(…)`) or of a section
/// name; never in `>>` lines (the value of a `>>` entry is only trimmed at its ends), `>` paragraphs or the front matter
fn in_component(text: &str, pos: usize) -> bool {
    let lines: Vec<&str> = text.split('\n').collect();
    let ls = text[..pos].rfind('\n').map(|p| p + 1).unwrap_or(0);
    let line_no = text[..pos].matches('\n').count();
    if in_front(&lines, line_no) { return false; }
    let line = &text[ls..text[pos..].find('\n').map(|p| p + pos).unwrap_or(text.len())];
    if line.starts_with('>') || line.trim_end() == "---" { return false; }
    if line.starts_with('=') { return true; }
    let before = &text[ls..pos];
    let open = before.matches('{').count() > before.matches('}').count() || before.matches('(').count() > before.matches(')').count();
    let last_marker = before.rfind(|c| c == '@' || c == '#' || c == '~');
    let in_name = match last_marker { Some(m) => !before[m..].contains('{') && text[pos..].find('{').map(|b| text[pos..pos + b].find(|c| c == '@' || c == '#' || c == '~' || c == '\n').is_none()).unwrap_or(false), None => false };
    open || in_name
}

/// fixed boundary inputs of the audit (notes/audit-C17.md): both variants go through the model (so the model is tied to the
/// code on them); what the implementation does is only COUNTED, these inputs are outside the quantifier of the oracle
fn boundary_witnesses(ctx: &mut Ctx) {
    let cases: [(&str, u32, &str, &str); 6] = [
        // the backslash exclusion of the CRLF clause is necessary: one step against two (theorem C17_crlf_backslash_exclusion_needed)
        ("backslash-crlf", 0, "one\\\n\ntwo\n", "one\\\r\n\r\ntwo\r\n"),
        ("backslash-crlf-min", 0, "a\\\n\nb", "a\\\r\n\r\nb"),
        // define mode text copies the source of a component: line end spelling (white space) …
        ("textmode-crlf", 0xEEA, ">> [mode]: text\n\nAdd @sea\nsalt{} now\n", ">> [mode]: text\r\n\r\nAdd @sea\r\nsalt{} now\r\n"),
        // … and comments (NOT white space): theorem C17_text_mode_copies_source
        ("textmode-block-comment-in-name", 0xEEA, ">> [mode]: text\n\nAdd @sea salt{} now\n", ">> [mode]: text\n\nAdd @sea [- c -] salt{} now\n"),
        ("textmode-trailing-comment-in-name", 0xEEA, ">> [mode]: text\n\nAdd @sea\nsalt{} now\n", ">> [mode]: text\n\nAdd @sea -- c\nsalt{} now\n"),
        // the value of a `>>` entry is trimmed at its ends only: a block comment between two of its words leaves two blanks
        ("meta-value-block-comment", 0, ">> my key: some value\n", ">> my key: some [- c -] value\n"),
    ];
    for (name, ext, base, new) in cases {
        let (Some(b), Some(a)) = (recipe_case(ctx, base, ext, 0), recipe_case(ctx, new, ext, 0)) else { continue };
        let same = match (a.output(), b.output()) { (Some(x), Some(y)) => loose(x) == loose(y), (None, None) => true, _ => false } && a.is_valid() == b.is_valid();
        ctx.count(&format!("witness:{name}:{}", if same { "same" } else { "differs" }));
    }
}

/// the oracle on one pair original / transformed
fn judge(ctx: &mut Ctx, a: &cooklang::RecipeResult, b: &cooklang::RecipeResult, desc: String, which: &str) {
    if a.is_valid() != b.is_valid() { ctx.oracle_fail(desc.clone(), format!("validity changed: {} -> {}", b.is_valid(), a.is_valid()), format!("c17:validity:{which}")); }
    match (a.output(), b.output()) {
        (Some(x), Some(y)) => { let (lx, ly) = (loose(x), loose(y)); if lx != ly { ctx.oracle_fail(desc, format!("recipe changed\n base: {ly}\n  new: {lx}"), format!("c17:recipe:{which}")); } }
        (None, None) => {}
        _ => ctx.oracle_fail(desc, "output presence changed".into(), format!("c17:output:{which}")),
    }
}

/// minimal inputs of past findings (corpus/C17-pairs.txt: original line, transformed line, …), run FIRST under no and all
/// extensions, with the oracle: a regression shows on the first cases
fn directed_pairs(ctx: &mut Ctx) {
    let lines = crate::corpus::load("C17-pairs");
    for pair in lines.chunks(2) {
        let [base, new] = pair else { continue };
        for (ext, conv) in [(0xEEAu32, 1u8), (0xEEA, 0), (0, 0)] {
            let (Some(b), Some(a)) = (recipe_case(ctx, base, ext, conv), recipe_case(ctx, new, ext, conv)) else { continue };
            ctx.count("directed-pair");
            judge(ctx, &a, &b, format!("directed pair (transformation #5) ext={ext} conv={conv}\n base={base:?}\n  new={new:?}"), "5");
        }
    }
}

pub fn run(ctx: &mut Ctx) {
    ctx.rule = "well-formed recipes (as C01, plain spelling) and, for CRLF, also soups without backslash / lone CR; every other extended recipe with units spelled `{1 kg}`; 7 transformations (block comment inside braces without a quantity, LF->CRLF, trailing comment, trailing spaces, block comment between two words of step text, extra blank/comment-only lines between blocks, block comment between two words, or between a number and a word, inside a component name / alias / quantity / unit / text value / note or a section name, with a blank on both sides or glued to either neighbour) at random insertion points, preceded by the directed pairs of corpus/C17-pairs.txt; oracle: the parsed recipe is equal up to whitespace inside step text and validity is equal; original and transformed input both go through the model. non-trivial = recipe with components / several sections / diagnostics".into();
    let mut rng = Rng::new(ctx.seed ^ 0xC17);
    // the side conditions of the CRLF theorem (C17_crlf: CR and LF are neither lexer white space nor word characters)
    // must hold of the character table generated from the real lexer on this run
    for (cp, name) in [(10u32, "LF"), (13u32, "CR")] {
        let bits: u32 = ctx.model().one(&format!("classbits {cp}")).parse().unwrap_or(u32::MAX);
        ctx.eval(name, true);
        if bits & 1 != 0 || bits & 4 != 0 { ctx.oracle_fail(format!("character {name} (U+{cp:04X})"), format!("the real lexer treats {name} as {} : the hypothesis CrlfSpec of theorem C17_crlf is false of the current lexer, so CRLF conversion can change tokens (e.g. a word swallowing the CR of a line end)", if bits & 1 != 0 { "white space" } else { "a word character" }), "c17:crlf-spec".into()); }
    }
    directed_pairs(ctx);
    let n = if ctx.thorough { 40_000 } else { 800 };
    for i in 0..n {
        let r = wf::generate(&mut rng, i % 2 == 1);
        let (ext, conv) = if r.extended { (0xEEAu32, 1u8) } else { (0, 0) };
        // names wrapped over a line break exercise line ends inside component names (not step text)
        // every other extended recipe spells its units the ADVANCED_UNITS way (`{1 kg}` instead of `{1%kg}`)
        let base = wf::spell(&r, &Style { seed: rng.next(), spaces: false, comments: false, wrap: i % 2 == 0, crlf: false, unit_space: i % 4 == 3 });
        let Some(b) = recipe_case(ctx, &base, ext, conv) else { continue };
        for which in 0..7 {
            let t = transform(&mut rng, &base, which);
            if t == base { ctx.count(&format!("transform{which}:not-applicable")); continue; }
            ctx.count(&format!("transform{which}"));
            let Some(a) = recipe_case(ctx, &t, ext, conv) else { continue };
            let desc = format!("transformation #{which} ext={ext} conv={conv}\n base={base:?}\n  new={t:?}");
            judge(ctx, &a, &b, desc, &which.to_string());
        }
        // the same abstract recipe spelled with blanks and block comments at every place the spelling allows (between the
        // parts of numbers, around separators, inside names) and lines wrapped: many insertions at once
        for k in 0..2 {
            let t = wf::spell(&r, &Style { seed: rng.next(), spaces: true, comments: true, wrap: k == 1, crlf: false, unit_space: i % 4 == 3 });
            if t == base { continue; }
            ctx.count("respelled-with-filler");
            let Some(a) = recipe_case(ctx, &t, ext, conv) else { continue };
            let desc = format!("respelling with blanks and block comments ext={ext} conv={conv}\n base={base:?}\n  new={t:?}");
            judge(ctx, &a, &b, desc, "respell");
        }
    }
    boundary_witnesses(ctx);
    // CRLF on arbitrary inputs without backslash and without a lone CR
    let m = if ctx.thorough { 200_000 } else { 6_000 };
    for i in 0..m {
        let s = if i % 2 == 0 { crate::gen::soup(&mut rng, 10) } else { crate::gen::recipe(&mut rng) };
        if s.contains('\\') || s.replace("\r\n", "").contains('\r') { continue; }
        let base = s.replace("\r\n", "\n");
        let t = base.replace('\n', "\r\n");
        if t == base { continue; }
        let ext = crate::gen::ext_pattern(i % 256);
        let (Some(b), Some(a)) = (recipe_case(ctx, &base, ext, (i % 2) as u8), recipe_case(ctx, &t, ext, (i % 2) as u8)) else { continue };
        ctx.count("crlf:arbitrary-input");
        let desc = format!("CRLF ext={ext}\n base={base:?}");
        if a.is_valid() != b.is_valid() { ctx.oracle_fail(desc.clone(), "validity changed under CRLF".into(), "c17:validity:crlf".into()); }
        if let (Some(x), Some(y)) = (a.output(), b.output()) { if loose(x) != loose(y) { ctx.oracle_fail(desc, format!("recipe changed under CRLF\n base: {}\n crlf: {}", loose(y), loose(x)), "c17:recipe:crlf".into()); } }
    }
}
