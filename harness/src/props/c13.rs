//! C13 Standard metadata values are interpreted as documented.
//!
//! Correspondence: the value-level accessors of `CooklangValueExt` (as_minutes, as_time, as_servings, as_tags,
//! as_name_and_url, as_locale), `StdKey::{from_str, as_ref}`, the parse-time check seen through the real parser
//! (warning / servings stored) and the re-implemented std routines (f64 / u32 syntax, split_whitespace, trim)
//! against the Lean model.  Oracle: every structured case carries the set of results the documented form
//! allows, computed here with integer arithmetic from the *structure* the text was printed from (never by
//! re-parsing); plus, for every value run through the real parser, "warning iff the accessor gives nothing".
use crate::ctx::Ctx;
use crate::rng::Rng;
use crate::util::{bits, enc_text, guarded, panic_signature};
use cooklang::convert::{Converter, PhysicalQuantity, UnitsFile};
use cooklang::metadata::{CooklangValueExt, RecipeTime, StdKey};
use cooklang::{CooklangParser, Extensions};
use serde_yaml::Value;
use std::str::FromStr;

// ---------------------------------------------------------------------------------------------
// converters
// ---------------------------------------------------------------------------------------------

/// what the oracle knows about a converter: the time unit names and their length in milliseconds
struct ConvInfo {
    name: &'static str,
    conv: Converter,
    parser: CooklangParser,
    /// (name, milliseconds) of every time unit name the generators may use; independent of the code
    time_names: Vec<(String, u128)>,
    /// pair readings are possible at all (a minutes unit is found and is a time unit)
    pairs_ok: bool,
    /// names of non-time units (for "known unit of another quantity" cases)
    other_names: Vec<String>,
    // protocol image
    base_units: Vec<String>,
    base_index: Vec<(String, usize)>,
    unit_ptrs: Vec<*const cooklang::convert::Unit>,
    remap: std::cell::RefCell<Vec<Option<usize>>>,
}

const STD_TIME: &[(&str, u128)] = &[
    ("s", 1000), ("sec", 1000), ("secs", 1000), ("second", 1000), ("seconds", 1000),
    ("min", 60_000), ("minute", 60_000), ("minutes", 60_000),
    ("h", 3_600_000), ("hour", 3_600_000), ("hours", 3_600_000),
    ("d", 86_400_000), ("day", 86_400_000), ("days", 86_400_000),
];

fn units_toml(time_units: &str, extra: &str) -> String {
    format!(r#"default_system = "metric"
[[quantity]]
quantity = "volume"
best = ["zl"]
units = [ {{ names = ["zliter"], symbols = ["zl"], ratio = 1 }} ]
[[quantity]]
quantity = "mass"
best = ["zg"]
units = [ {{ names = ["zgram"], symbols = ["zg"], ratio = 1 }}{extra} ]
[[quantity]]
quantity = "length"
best = ["zm"]
units = [ {{ names = ["zmeter"], symbols = ["zm"], ratio = 1 }} ]
[[quantity]]
quantity = "temperature"
best = ["zK"]
units = [ {{ names = ["zkelvin"], symbols = ["zK"], ratio = 1 }} ]
[[quantity]]
quantity = "time"
{time_units}
"#)
}

fn build_conv(toml_text: &str) -> Converter {
    let file: UnitsFile = toml::from_str(toml_text).expect("generated units file does not deserialize");
    Converter::builder().with_units_file(file).expect("units file refused").finish().expect("converter refused")
}

fn conv_info(name: &'static str, conv: Converter, time_names: Vec<(String, u128)>, pairs_ok: bool) -> ConvInfo {
    let units: Vec<&cooklang::convert::Unit> = conv.all_units().collect();
    let unit_ptrs: Vec<*const cooklang::convert::Unit> = units.iter().map(|u| *u as *const _).collect();
    let mut remap: Vec<Option<usize>> = vec![None; units.len()];
    let mut base_units = vec![];
    let mut base_index = vec![];
    let mut other_names = vec![];
    let mut add = |uid: usize, key: &str, remap: &mut Vec<Option<usize>>, base_units: &mut Vec<String>, base_index: &mut Vec<(String, usize)>| {
        let u = units[uid];
        let id = match remap[uid] { Some(i) => i, None => {
            let i = base_units.len();
            base_units.push(format!("{}:{}:{}", if u.physical_quantity == PhysicalQuantity::Time { 1 } else { 0 }, bits(u.ratio), bits(u.difference)));
            remap[uid] = Some(i); i } };
        if !base_index.iter().any(|(k, _)| k == key) { base_index.push((key.to_string(), id)); }
    };
    for (uid, u) in units.iter().enumerate() {
        let keys: Vec<String> = u.names.iter().chain(&u.symbols).chain(&u.aliases).map(|k| k.to_string()).collect();
        if u.physical_quantity == PhysicalQuantity::Time {
            for k in &keys { add(uid, k, &mut remap, &mut base_units, &mut base_index); }
        } else if other_names.len() < 12 { other_names.extend(keys.into_iter().take(2)); }
    }
    for k in ["min", "minute", "minutes", "m"] {
        if let Some(a) = conv.find_unit(k) {
            let uid = unit_ptrs.iter().position(|p| std::ptr::eq(*p, a.as_ref())).expect("unit not in all_units");
            add(uid, k, &mut remap, &mut base_units, &mut base_index);
        }
    }
    let parser = CooklangParser::new(Extensions::all(), conv.clone());
    // the parser owns a clone: identity of units is per converter object, the value-level calls use `conv`
    ConvInfo { name, conv, parser, time_names, pairs_ok, other_names, base_units, base_index, unit_ptrs, remap: std::cell::RefCell::new(remap) }
}

impl ConvInfo {
    /// protocol image of the converter, extended by the unit names occurring in `texts`
    fn enc(&self, texts: &[&str]) -> String {
        let mut units = self.base_units.clone();
        let mut index = self.base_index.clone();
        let mut remap = self.remap.borrow().clone();
        let all: Vec<&cooklang::convert::Unit> = self.conv.all_units().collect();
        for t in texts {
            for w in t.split_whitespace() {
                let suffix = w.trim_start_matches(|c: char| c.is_ascii_digit() || c == '.');
                for cand in [w, suffix] {
                    if cand.is_empty() || index.iter().any(|(k, _)| k == cand) { continue; }
                    if let Some(a) = self.conv.find_unit(cand) {
                        let uid = self.unit_ptrs.iter().position(|p| std::ptr::eq(*p, a.as_ref())).expect("unit not in all_units");
                        let id = match remap[uid] { Some(i) => i, None => {
                            let u = all[uid];
                            let i = units.len();
                            units.push(format!("{}:{}:{}", if u.physical_quantity == PhysicalQuantity::Time { 1 } else { 0 }, bits(u.ratio), bits(u.difference)));
                            remap[uid] = Some(i); i } };
                        index.push((cand.to_string(), id));
                    }
                }
            }
        }
        let us = if units.is_empty() { "-".to_string() } else { units.join("/") };
        let ix = if index.is_empty() { "-".to_string() } else { index.iter().map(|(k, i)| format!("{}={}", enc_text(k), i)).collect::<Vec<_>>().join("/") };
        format!("{}!{}!{}", self.conv.unit_count(), us, ix)
    }
}

fn converters() -> Vec<ConvInfo> {
    let std_names = |skip: &[&str]| -> Vec<(String, u128)> { STD_TIME.iter().filter(|(n, _)| !skip.contains(n)).map(|(n, v)| (n.to_string(), *v)).collect() };
    let mut v = vec![];
    // bundled: the shipped units (also has `mins`; `m` is the metre there)
    let mut b = std_names(&[]); b.push(("mins".into(), 60_000));
    v.push(conv_info("bundled", Converter::bundled(), b, true));
    // empty: the hard-coded names of the code's documentation (`m` is minutes there)
    let mut e = std_names(&[]); e.push(("m".into(), 60_000));
    v.push(conv_info("empty", Converter::empty(), e, true));
    // renamed: the same four units under other names; minutes only reachable as `m` (last lookup name);
    // plus a week and a millisecond (non-integral ratio to the minute)
    let renamed = units_toml(r#"best = ["sek"]
units = [
  { names = ["sekunde", "sekunden"], symbols = ["sek"], ratio = 1 },
  { names = ["minuten"], symbols = ["m"], aliases = ["mn"], ratio = 60 },
  { names = ["stunde", "stunden"], symbols = ["std"], ratio = 3600 },
  { names = ["tag", "tage"], symbols = ["tg"], ratio = 86400 },
  { names = ["woche", "wochen"], symbols = ["wo"], ratio = 604800 },
  { names = ["millisekunde"], symbols = ["msek"], ratio = 0.001 },
]"#, "");
    v.push(conv_info("renamed", build_conv(&renamed), vec![
        ("sekunde".into(), 1000), ("sekunden".into(), 1000), ("sek".into(), 1000),
        ("minuten".into(), 60_000), ("m".into(), 60_000), ("mn".into(), 60_000),
        ("stunde".into(), 3_600_000), ("stunden".into(), 3_600_000), ("std".into(), 3_600_000),
        ("tag".into(), 86_400_000), ("tage".into(), 86_400_000), ("tg".into(), 86_400_000),
        ("woche".into(), 604_800_000), ("wochen".into(), 604_800_000), ("wo".into(), 604_800_000),
        ("millisekunde".into(), 1), ("msek".into(), 1)], true));
    // scaled: time units relative to the hour (ratio 1 = hour), so that nothing is "60" by accident
    let scaled = units_toml(r#"best = ["hour"]
units = [
  { names = ["second", "seconds"], symbols = ["s", "sec"], ratio = 0.000277777777777777777778 },
  { names = ["minute", "minutes"], symbols = ["min"], ratio = 0.0166666666666666666667 },
  { names = ["hour", "hours"], symbols = ["h"], ratio = 1 },
  { names = ["day", "days"], symbols = ["d"], ratio = 24 },
]"#, "");
    v.push(conv_info("scaled", build_conv(&scaled), std_names(&["secs"]), true));
    // nomin: `min` exists but is a mass unit -> no pair form is readable
    let nomin = units_toml(r#"best = ["s"]
units = [
  { names = ["second", "seconds"], symbols = ["s"], ratio = 1 },
  { names = ["hour", "hours"], symbols = ["h"], ratio = 3600 },
]"#, r#", { names = ["minim"], symbols = ["min"], ratio = 0.06 }"#);
    v.push(conv_info("nomin", build_conv(&nomin), vec![], false));
    v
}

// ---------------------------------------------------------------------------------------------
// protocol encoding of yaml values, literal tables, alphabetic sets
// ---------------------------------------------------------------------------------------------

fn enc_yaml(v: &Value) -> String {
    match v {
        Value::Null => "n".into(),
        Value::Bool(_) => "b".into(),
        Value::Tagged(_) => "t".into(),
        Value::String(s) => format!("s:{}", enc_text(s)),
        Value::Number(n) => format!("i:{}:{}", n.as_u64().map(|x| x.to_string()).unwrap_or("~".into()), enc_text(&n.to_string())),
        Value::Sequence(l) => format!("[{}]", l.iter().map(enc_yaml).collect::<Vec<_>>().join(";")),
        Value::Mapping(m) => format!("{{{}}}", m.iter().map(|(k, v)| format!("{}={}", enc_yaml(k), enc_yaml(v))).collect::<Vec<_>>().join(";")),
    }
}

fn strings_of<'a>(v: &'a Value, out: &mut Vec<&'a str>) {
    match v {
        Value::String(s) => out.push(s),
        Value::Sequence(l) => l.iter().for_each(|e| strings_of(e, out)),
        Value::Mapping(m) => m.iter().for_each(|(k, v)| { strings_of(k, out); strings_of(v, out) }),
        _ => {}
    }
}

fn enc_alpha(texts: &[&str]) -> String {
    let mut cps: Vec<u32> = texts.iter().flat_map(|t| t.chars()).filter(|c| c.is_alphabetic()).map(|c| c as u32).collect();
    cps.sort_unstable(); cps.dedup();
    if cps.is_empty() { "-".into() } else { cps.iter().map(|c| c.to_string()).collect::<Vec<_>>().join(",") }
}

fn opt_text(s: Option<&str>) -> String { match s { Some(t) => enc_text(t), None => "~".into() } }
fn opt_nat(n: Option<u32>) -> String { match n { Some(n) => n.to_string(), None => "~".into() } }
fn nats(l: &[u32]) -> String { if l.is_empty() { "-".into() } else { l.iter().map(|n| n.to_string()).collect::<Vec<_>>().join(",") } }

fn render_time(t: &Option<RecipeTime>) -> String {
    match t {
        None => "none".into(),
        Some(RecipeTime::Total(n)) => format!("total {n}"),
        Some(RecipeTime::Composed { prep_time, cook_time }) => format!("composed {} {}", opt_nat(*prep_time), opt_nat(*cook_time)),
    }
}

/// every string (and the text of every number) occurring in a yaml value, keys included: the texts whose
/// alphabetic characters / unit names the model is told about
fn texts_of(v: &Value, out: &mut Vec<String>) {
    match v {
        Value::String(s) => out.push(s.clone()),
        Value::Number(n) => out.push(n.to_string()),
        Value::Sequence(l) => l.iter().for_each(|e| texts_of(e, out)),
        Value::Mapping(m) => m.iter().for_each(|(k, v)| { texts_of(k, out); texts_of(v, out) }),
        _ => {}
    }
}

fn has_tagged(v: &Value) -> bool {
    match v {
        Value::Tagged(_) => true,
        Value::Sequence(l) => l.iter().any(has_tagged),
        Value::Mapping(m) => m.iter().any(|(k, v)| has_tagged(k) || has_tagged(v)),
        _ => false,
    }
}

/// all accessors of `Metadata` (src/metadata.rs:116-217), rendered like `renderMetaAccessors` of
/// lean/CookModel/Driver/Tie.lean
fn render_meta_accessors(m: &cooklang::Metadata, conv: &Converter) -> String {
    let ot = |s: Option<&str>| match s { Some(t) => format!("some {}", enc_text(t)), None => "none".into() };
    let nu = |n: Option<cooklang::metadata::NameAndUrl>| match n { Some(n) => format!("some {} {}", opt_text(n.name()), opt_text(n.url())), None => "none".into() };
    [
        format!("title {}", ot(m.title())),
        format!("description {}", ot(m.description())),
        format!("tags {}", match m.tags() { Some(l) => format!("some [{}]", l.iter().map(|t| enc_text(t)).collect::<Vec<_>>().join(";")), None => "none".into() }),
        format!("author {}", nu(m.author())),
        format!("source {}", nu(m.source())),
        format!("time {}", render_time(&m.time(conv))),
        format!("servings {}", match m.servings() { Some(l) => format!("some {}", nats(&l)), None => "none".into() }),
        format!("locale {}", match m.locale() { Some((l, d)) => format!("some {} {}", enc_text(l), opt_text(d)), None => "none".into() }),
    ].join(" | ")
}

// ---------------------------------------------------------------------------------------------
// expectations
// ---------------------------------------------------------------------------------------------

/// the results the documented forms allow for a value (`None` = nothing + a warning)
#[derive(Clone, Debug)]
enum Expect<T> { OneOf(Vec<Option<T>>), Silent }

impl<T: PartialEq + std::fmt::Debug> Expect<T> {
    fn exactly(x: Option<T>) -> Self { Expect::OneOf(vec![x]) }
    fn allows(&self, got: &Option<T>) -> bool { match self { Expect::Silent => true, Expect::OneOf(v) => v.contains(got) } }
    fn show(&self) -> String { match self { Expect::Silent => "anything".into(), Expect::OneOf(v) => format!("one of {v:?}") } }
}

const NS_PER_MIN: u128 = 60_000_000_000; // a minute in 1e-9 s
const U32MAX: u128 = u32::MAX as u128;

/// whole minutes of `t` (in 1e-9 s): round half away from zero, nothing when out of range. Where the exact
/// total is so close to a rounding or range boundary that f64 rounding may legitimately decide otherwise,
/// both outcomes are allowed.
fn minutes_of_ns(t: u128) -> Vec<Option<u32>> {
    let eps = std::cmp::max(1000, t / 100_000_000_000); // 1e-6 s or 1e-11 relative
    let mut out: Vec<Option<u32>> = vec![];
    let mut push = |n: u128| { let r = if n <= U32MAX { Some(n as u32) } else { None }; if !out.contains(&r) { out.push(r); } };
    push((t + NS_PER_MIN / 2) / NS_PER_MIN);
    push((t + NS_PER_MIN / 2 + eps) / NS_PER_MIN);
    push((t + NS_PER_MIN / 2).saturating_sub(eps) / NS_PER_MIN);
    out
}

/// a decimal number printed from its structure: mantissa digits, number of fraction digits
#[derive(Clone, Debug)]
struct Dec { int: u64, frac: String }
impl Dec {
    fn text(&self) -> String { if self.frac.is_empty() { self.int.to_string() } else { format!("{}.{}", self.int, self.frac) } }
    /// value * 10^6 (at most 6 fraction digits are generated)
    fn micro(&self) -> u128 {
        let mut f = self.frac.clone(); while f.len() < 6 { f.push('0'); }
        self.int as u128 * 1_000_000 + f.parse::<u128>().unwrap()
    }
}

fn gen_dec(rng: &mut Rng, big: bool) -> Dec {
    let int: u64 = match rng.below(10) {
        0 => 0, 1 => 1, 2 => *rng.pick(&[59u64, 60, 61, 90, 120, 1440]),
        3 if big => *rng.pick(&[4294967295u64, 4294967296, 4294967294, 71582788, 71582789, 2982616, 2982617, 257698037760, 99999999999]),
        4 if big => rng.next() % (1u64 << 34),
        _ => rng.next() % 500,
    };
    let frac = match rng.below(6) { 0 => "5".to_string(), 1 => "25".into(), 2 => format!("{:03}", rng.below(1000)), 3 => "499999".into(), 4 => "500001".into(), _ => String::new() };
    let frac = if rng.chance(1, 2) { String::new() } else { frac };
    Dec { int, frac }
}

// ---------------------------------------------------------------------------------------------
// running one value
// ---------------------------------------------------------------------------------------------

struct Run<'a> { ctx: &'a mut Ctx, convs: &'a [ConvInfo] }

impl<'a> Run<'a> {
    fn panic(&mut self, input: &str, p: String) { self.ctx.oracle_fail(input.to_string(), format!("panic {p}"), panic_signature(&p)); }

    /// as_minutes + as_time of `v` under converter `ci`: correspondence, expectation, coupling through the parser
    fn time(&mut self, ci: usize, v: &Value, expect: &Expect<u32>, family: &str) {
        let c = &self.convs[ci];
        let input = format!("as_minutes/as_time of {} with the {} converter", serde_yaml::to_string(v).unwrap_or_default().trim_end(), c.name);
        let mut texts = vec![]; strings_of(v, &mut texts);
        let (cv, yv) = (c.enc(&texts), enc_yaml(v));
        let r = guarded(|| (v.as_minutes(&c.conv), v.as_time(&c.conv)));
        let (m, t) = match r { Ok(x) => x, Err(p) => { self.panic(&input, p); return; } };
        self.ctx.count(&format!("time:{family}:{}", if m.is_some() { "some" } else { "none" }));
        self.ctx.count(&format!("conv:{}", c.name));
        self.ctx.case(format!("sm_minutes {cv} {yv}"), match m { Some(n) => format!("ok {n}"), None => "none".into() }, m.is_some(), input.clone());
        self.ctx.case(format!("sm_time {cv} {yv}"), render_time(&t), t.is_some(), input.clone());
        if !expect.allows(&m) {
            let sig = match (m, expect) { (Some(_), Expect::OneOf(e)) if e == &vec![None] => "c13:time:accepted-outside-forms", (Some(_), _) => "c13:time:wrong-number", (None, _) => "c13:time:rejected-documented-form" };
            self.ctx.oracle_fail(input.clone(), format!("as_minutes gives {m:?}, the documented forms allow {}", expect.show()), sig.into());
        }
        // a mapping with neither `prep` nor `cook` is outside the documented forms
        if let Value::Mapping(mp) = v {
            if !mp.contains_key("prep") && !mp.contains_key("cook") && t.is_some() {
                self.ctx.oracle_fail(input.clone(), format!("a mapping with neither prep nor cook reads as {t:?}"), "c13:time:empty-mapping-accepted".into());
            }
        }
        // as_time of a string or number is the total of as_minutes
        if !matches!(v, Value::Mapping(_)) && t != m.map(RecipeTime::Total) {
            self.ctx.oracle_fail(input.clone(), format!("as_time {t:?} is not the total {m:?} of as_minutes"), "c13:time:as_time-differs".into());
        }
    }

    fn servings(&mut self, v: &Value, expect: &Expect<Vec<u32>>, family: &str) {
        let input = format!("as_servings of {}", serde_yaml::to_string(v).unwrap_or_default().trim_end());
        let r = match guarded(|| v.as_servings()) { Ok(x) => x, Err(p) => { self.panic(&input, p); return; } };
        self.ctx.count(&format!("servings:{family}:{}", if r.is_some() { "some" } else { "none" }));
        self.ctx.case(format!("sm_servings {}", enc_yaml(v)), match &r { Some(l) => format!("some {}", nats(l)), None => "none".into() }, r.is_some(), input.clone());
        if !expect.allows(&r) {
            let sig = if r.is_some() { "c13:servings:wrong" } else { "c13:servings:rejected-documented-form" };
            self.ctx.oracle_fail(input.clone(), format!("as_servings gives {r:?}, documented: {}", expect.show()), sig.into());
        }
        if let Some(l) = &r { let mut s = l.clone(); s.sort_unstable(); s.dedup(); if s.len() != l.len() { self.ctx.oracle_fail(input, format!("duplicate servings returned: {l:?}"), "c13:servings:duplicates".into()); } }
    }

    fn tags(&mut self, v: &Value, expect: &Expect<Vec<String>>, family: &str) {
        let input = format!("as_tags of {}", serde_yaml::to_string(v).unwrap_or_default().trim_end());
        let r = match guarded(|| v.as_tags().map(|l| l.into_iter().map(|c| c.into_owned()).collect::<Vec<String>>())) { Ok(x) => x, Err(p) => { self.panic(&input, p); return; } };
        self.ctx.count(&format!("tags:{family}:{}", if r.is_some() { "some" } else { "none" }));
        self.ctx.case(format!("sm_tags {}", enc_yaml(v)), match &r { Some(l) => format!("some [{}]", l.iter().map(|t| enc_text(t)).collect::<Vec<_>>().join(";")), None => "none".into() }, r.as_ref().map_or(false, |l| !l.is_empty()), input.clone());
        if !expect.allows(&r) {
            self.ctx.oracle_fail(input.clone(), format!("as_tags gives {r:?}, documented: {}", expect.show()), "c13:tags:wrong".into());
        }
        if let Some(l) = &r {
            if l.iter().any(|t| t.is_empty()) { self.ctx.oracle_fail(input.clone(), format!("empty tag in {l:?}"), "c13:tags:empty".into()); }
            let mut s = l.clone(); s.sort(); s.dedup(); if s.len() != l.len() { self.ctx.oracle_fail(input, format!("duplicate tag in {l:?}"), "c13:tags:duplicates".into()); }
        }
    }

    fn nameurl(&mut self, v: &Value, expect: &Expect<(Option<String>, Option<String>)>, family: &str) {
        let input = format!("as_name_and_url of {}", serde_yaml::to_string(v).unwrap_or_default().trim_end());
        let r = match guarded(|| v.as_name_and_url().map(|n| (n.name().map(str::to_string), n.url().map(str::to_string)))) { Ok(x) => x, Err(p) => { self.panic(&input, p); return; } };
        self.ctx.count(&format!("nameurl:{family}:{}", match &r { None => "none", Some((Some(_), Some(_))) => "both", Some((Some(_), None)) => "name", Some((None, Some(_))) => "url", Some((None, None)) => "neither" }));
        let mut texts = vec![]; strings_of(v, &mut texts);
        let numtext; if let Value::Number(n) = v { numtext = n.to_string(); texts.push(&numtext); }
        self.ctx.case(format!("sm_nameurl {} {}", enc_alpha(&texts), enc_yaml(v)), match &r { Some((n, u)) => format!("some {} {}", opt_text(n.as_deref()), opt_text(u.as_deref())), None => "none".into() }, r.is_some(), input.clone());
        if !expect.allows(&r) {
            self.ctx.oracle_fail(input, format!("as_name_and_url gives {r:?}, documented: {}", expect.show()), "c13:nameurl:wrong".into());
        }
    }

    fn locale(&mut self, v: &Value, expect: &Expect<(String, Option<String>)>, family: &str) {
        let input = format!("as_locale of {}", serde_yaml::to_string(v).unwrap_or_default().trim_end());
        let r = match guarded(|| v.as_locale().map(|(l, d)| (l.to_string(), d.map(str::to_string)))) { Ok(x) => x, Err(p) => { self.panic(&input, p); return; } };
        self.ctx.count(&format!("locale:{family}:{}", if r.is_some() { "some" } else { "none" }));
        self.ctx.case(format!("sm_locale {}", enc_yaml(v)), match &r { Some((l, d)) => format!("some {} {}", enc_text(l), opt_text(d.as_deref())), None => "none".into() }, r.is_some(), input.clone());
        if !expect.allows(&r) {
            self.ctx.oracle_fail(input, format!("as_locale gives {r:?}, documented: {}", expect.show()), "c13:locale:wrong".into());
        }
    }

    /// The `Metadata` accessors over the whole mapping of a parsed recipe against `Side/StdMetaMap.lean`
    /// (`impl_reply` = `render_meta_accessors` of that recipe's metadata, computed where the recipe was alive).
    fn metadata(&mut self, ci: usize, map: &serde_yaml::Mapping, impl_reply: String, family: &str, input: &str) {
        let c = &self.convs[ci];
        let whole = Value::Mapping(map.clone());
        if has_tagged(&whole) { self.ctx.count("metadata:skipped-tagged-value"); return; }
        let mut texts = vec![]; texts_of(&whole, &mut texts);
        if texts.iter().any(|t| huge_exp(t)) { self.ctx.count("metadata:skipped-huge-exponent"); return; }
        let refs: Vec<&str> = texts.iter().map(|t| t.as_str()).collect();
        self.ctx.count(&format!("metadata:{family}:{}-entries", map.len().min(4)));
        let nontrivial = impl_reply.contains("some ") || impl_reply.contains("total ") || impl_reply.contains("composed ");
        self.ctx.case(format!("sm_metadata {} {} {}", c.enc(&refs), enc_alpha(&refs), enc_yaml(&whole)), impl_reply, nontrivial, format!("Metadata accessors of {input}"));
    }

    /// One metadata entry through the real parser: "Unsupported value" warning iff the accessor gives nothing.
    fn entry(&mut self, ci: usize, key: &str, v: &Value, old_style: bool) {
        let c = &self.convs[ci];
        let text = if old_style {
            let Value::String(s) = v else { return };
            if s.contains('\n') || s.contains('\r') { return; }
            format!(">> {key}: {s}\nstep\n")
        } else {
            let mut m = serde_yaml::Mapping::new(); m.insert(Value::String(key.into()), v.clone());
            let Ok(y) = serde_yaml::to_string(&m) else { return };
            format!("---\n{y}---\nstep\n")
        };
        let input = format!("recipe {text:?} with the {} converter", c.name);
        // the whole analysis of the document, front matter interpreted (model of `process_frontmatter`); sampled
        if (c.name == "bundled" || c.name == "empty") && crate::util::hash64(&text) % 6 == 0 {
            let (conv, mode) = (if c.name == "bundled" { 1 } else { 0 }, (crate::util::hash64(&text) / 6 % 4) as u8);
            crate::fm::fm_case(self.ctx, &text, Extensions::all().bits(), conv, mode);
        }
        let c = &self.convs[ci];
        let r = guarded(|| {
            let res = c.parser.parse(&text);
            let warns = res.report().warnings().filter(|w| crate::render::diag_kind(w) == "std-unsupported-value").count();
            let errors = res.report().errors().count();
            let out = res.output().map(|rec| (rec.metadata.map.clone(), rec.servings().map(|s| s.to_vec()),
                rec.metadata.tags().is_some(), rec.metadata.servings().is_some(), rec.metadata.time(&c.conv), rec.metadata.locale().is_some(),
                rec.metadata.author().is_some(), rec.metadata.source().is_some(), rec.metadata.title().is_some(), rec.metadata.description().is_some(),
                render_meta_accessors(&rec.metadata, &c.conv)));
            (warns, errors, out)
        });
        let (warns, errors, out) = match r { Ok(x) => x, Err(p) => { self.panic(&input, p); return; } };
        let Some((map, data, m_tags, m_serv, m_time, m_loc, m_auth, m_src, m_title, m_desc, m_all)) = out else { self.ctx.count("entry:no-output"); return; };
        if errors > 0 { self.ctx.count("entry:parse-error"); return; }
        // correspondence: every `Metadata` accessor over the stored mapping (Side/StdMetaMap.lean)
        self.metadata(ci, &map, m_all, "entry", &input);
        let c = &self.convs[ci];
        // the value as the parser stored it (yaml re-read / trimmed old-style text)
        let stored_key = if old_style { key.trim().to_string() } else { key.to_string() };
        let Some(stored) = map.get(stored_key.as_str()).cloned() else { self.ctx.count("entry:key-not-stored"); return; };
        let sk = StdKey::from_str(&stored_key).ok();
        // correspondence: the model's check of this entry
        let mut texts = vec![]; strings_of(&stored, &mut texts);
        let numtext; if let Value::Number(n) = &stored { numtext = n.to_string(); texts.push(&numtext); }
        let impl_reply = if warns > 0 { "warn".to_string() } else if let Some(l) = &data { format!("ok servings {}", nats(l)) } else { "ok".into() };
        self.ctx.case(format!("sm_stdcheck {} {} {} {}", c.enc(&texts), enc_alpha(&texts), enc_text(&stored_key), enc_yaml(&stored)), impl_reply, sk.is_some(), input.clone());
        self.ctx.count(&format!("entry:{}:{}", if old_style { "old" } else { "yaml" }, match sk { Some(k) => k.as_ref().to_string(), None => "non-std".into() }));
        if warns > 1 { self.ctx.oracle_fail(input.clone(), format!("{warns} warnings for one entry"), "c13:coupling:warned-twice".into()); }
        let Some(sk) = sk else {
            if warns > 0 { self.ctx.oracle_fail(input, "warning for a key that is not a standard key".into(), "c13:coupling:non-std-warned".into()); }
            return;
        };
        // the accessor of this key on the stored value
        let canonical = stored_key == sk.as_ref();
        let (gives, meta_gives): (bool, Option<bool>) = match sk {
            StdKey::Tags => (stored.as_tags().is_some(), Some(m_tags)),
            StdKey::Servings => (stored.as_servings().is_some(), Some(m_serv)),
            StdKey::Time => (stored.as_time(&c.conv).is_some(), Some(m_time.is_some())),
            StdKey::PrepTime | StdKey::CookTime => {
                let a = stored.as_minutes(&c.conv);
                let via = match m_time { Some(RecipeTime::Composed { prep_time, cook_time }) => if sk == StdKey::PrepTime { prep_time } else { cook_time }, _ => None };
                if canonical && via != a { self.ctx.oracle_fail(input.clone(), format!("Metadata::time reads {via:?}, as_minutes {a:?}"), "c13:coupling:metadata-time".into()); }
                (a.is_some(), None)
            }
            StdKey::Title => (stored.as_str().is_some(), Some(m_title)),
            StdKey::Description => (stored.as_str().is_some(), Some(m_desc)),
            StdKey::Locale => (stored.as_locale().is_some(), Some(m_loc)),
            StdKey::Author => (stored.as_name_and_url().is_some(), Some(m_auth)),
            StdKey::Source => (stored.as_name_and_url().is_some(), Some(m_src)),
            _ => (true, None),
        };
        if let (true, Some(mg)) = (canonical, meta_gives) {
            if mg != gives { self.ctx.oracle_fail(input.clone(), format!("Metadata accessor gives something: {mg}, value accessor: {gives}"), "c13:coupling:metadata-accessor".into()); }
        }
        self.ctx.count(if gives { "entry:accepted" } else { "entry:rejected" });
        if gives && warns > 0 {
            self.ctx.oracle_fail(input, format!("warning for key '{stored_key}' although the accessor reads the value"), format!("c13:coupling:warned-but-read:{}", sk.as_ref()));
        } else if !gives && warns == 0 {
            self.ctx.oracle_fail(input, format!("no warning for key '{stored_key}' although the accessor gives nothing"), format!("c13:coupling:silent-rejection:{}", sk.as_ref()));
        }
    }

    fn syntax(&mut self, s: &str) {
        let f = match s.parse::<f64>() {
            Err(_) => "err",
            Ok(x) if x.is_nan() => "nan",
            Ok(x) if x.is_infinite() => { let b = s.trim_start_matches(['+', '-']).to_ascii_lowercase(); if b == "inf" || b == "infinity" { "inf" } else { "dec" } }
            Ok(_) => "dec",
        };
        self.ctx.count(&format!("f64syn:{f}"));
        self.ctx.case(format!("sm_f64syn {}", enc_text(s)), f.into(), f != "err", format!("{s:?}.parse::<f64>()"));
        let u = s.parse::<u32>().ok();
        self.ctx.case(format!("sm_u32 {}", enc_text(s)), opt_nat(u), u.is_some(), format!("{s:?}.parse::<u32>()"));
        self.ctx.case(format!("sm_words {}", enc_text(s)), format!("[{}]", s.split_whitespace().map(enc_text).collect::<Vec<_>>().join(";")), true, format!("{s:?}.split_whitespace()"));
        self.ctx.case(format!("sm_trim {}", enc_text(s)), enc_text(s.trim()), true, format!("{s:?}.trim()"));
    }
}

// ---------------------------------------------------------------------------------------------
// generators
// ---------------------------------------------------------------------------------------------

/// a decimal exponent of seven or more digits: the exact model would build a power of ten with millions of
/// digits (std saturates such exponents); such texts are not generated
fn huge_exp(s: &str) -> bool {
    let b = s.as_bytes();
    for i in 0..b.len() {
        if b[i] == b'e' || b[i] == b'E' {
            let mut j = i + 1;
            if j < b.len() && (b[j] == b'+' || b[j] == b'-') { j += 1; }
            let start = j;
            while j < b.len() && b[j].is_ascii_digit() { j += 1; }
            if j - start >= 7 { return true; }
        }
    }
    false
}

const WS: &[&str] = &[" ", "  ", "\t", " \t ", "\u{a0}", "\u{2003}", "\n"];
const TIME_KEYS: &[&str] = &["time", "duration", "time required", "prep time", "prep_time", "cook time", "cook_time"];
const HM: &[u64] = &[0, 1, 59, 60, 71582788, 71582789, 4294967295, 4294967296];

fn ystr(s: impl Into<String>) -> Value { Value::String(s.into()) }
fn ynum(n: u64) -> Value { Value::Number(n.into()) }

/// `HhMm`: the reading is 60·H + M; a second reading exists when the text is also a number–unit pair of the converter
fn hhmm_case(c: &ConvInfo, h: Option<(u64, usize)>, m: Option<(u64, usize)>) -> (String, Expect<u32>) {
    let pad = |x: u64, z: usize| format!("{}{}", "0".repeat(z), x);
    let mut text = String::new();
    let mut total: u128 = 0;
    if let Some((h, z)) = h { text += &format!("{}h", pad(h, z)); total += h as u128 * 60; }
    if let Some((m, z)) = m { text += &format!("{}m", pad(m, z)); total += m as u128; }
    let mut allowed = vec![if total <= U32MAX { Some(total as u32) } else { None }];
    // the same text as one number–unit pair (`5h` with a unit called h, `5m` with a unit called m)
    let pair_unit = match (h, m) { (Some(_), None) => Some("h"), (None, Some(_)) => Some("m"), _ => None };
    if let (Some(u), true) = (pair_unit, c.pairs_ok) {
        if let Some((_, ms)) = c.time_names.iter().find(|(n, _)| n == u) {
            let x = h.or(m).unwrap().0 as u128;
            for r in minutes_of_ns(x * ms * 1_000_000) { if !allowed.contains(&r) { allowed.push(r); } }
        }
    }
    // a representable reading must not be refused when there is one
    if allowed.iter().any(|r| r.is_some()) && allowed.len() > 1 { allowed.retain(|r| r.is_some()); }
    (text, Expect::OneOf(allowed))
}

/// number–unit pairs printed from their structure
fn pairs_case(rng: &mut Rng, c: &ConvInfo, big: bool) -> Option<(String, Expect<u32>)> {
    if c.time_names.is_empty() { return None; }
    let n = 1 + rng.below(if big { 2 } else { 4 });
    let mut text = String::new();
    if rng.chance(1, 6) { text.push_str(rng.pick::<&str>(WS)); }
    let mut total_ns: u128 = 0;
    for i in 0..n {
        let d = gen_dec(rng, big);
        let (u, ms) = rng.pick(&c.time_names).clone();
        if i > 0 { text.push_str(rng.pick::<&str>(WS)); }
        text += &d.text();
        if rng.chance(1, 2) { text.push_str(rng.pick::<&str>(WS)); }
        text += &u;
        total_ns += d.micro() * ms; // 1e-6 * 1e-3 s = 1e-9 s
    }
    if rng.chance(1, 6) { text.push_str(rng.pick::<&str>(WS)); }
    let mut allowed = minutes_of_ns(total_ns);
    // the same text may also be a compact `HhMm` (`5h`, `5m` when m is not the minute …): allow that reading too
    let compact: String = text.clone();
    if let Some(v) = compact_reading(&compact) { let r = if v <= U32MAX { Some(v as u32) } else { None }; if !allowed.contains(&r) { allowed.push(r); } }
    if allowed.iter().any(|r| r.is_some()) && allowed.len() > 1 && compact_reading(&compact).is_some() { allowed.retain(|r| r.is_some()); }
    Some((text, Expect::OneOf(allowed)))
}

/// `Some(60H+M)` when the whole text is `<digits>h`, `<digits>m` or `<digits>h<digits>m` (the harness' own reading of
/// the compact form, used only to widen what is allowed for texts printed as pairs)
fn compact_reading(s: &str) -> Option<u128> {
    let digits = |t: &str| -> Option<u128> { if !t.is_empty() && t.len() < 30 && t.bytes().all(|b| b.is_ascii_digit()) { t.parse().ok() } else { None } };
    let (hpart, rest) = match s.split_once('h') { Some((a, b)) => (Some(a), b), None => (None, s) };
    let h = match hpart { Some(a) => Some(digits(a)?), None => None };
    let m = if rest.is_empty() { None } else { Some(digits(rest.strip_suffix('m')?)?) };
    if h.is_none() && m.is_none() { return None; }
    Some(h.unwrap_or(0) * 60 + m.unwrap_or(0))
}

/// texts that are in none of the documented forms: nothing + warning expected
fn outside_forms(rng: &mut Rng, c: &ConvInfo) -> String {
    let d = gen_dec(rng, false).text();
    let other = if c.other_names.is_empty() { "parsec".to_string() } else { rng.pick(&c.other_names).clone() };
    match rng.below(16) {
        0 => String::new(),
        1 => format!("{d} parsec"), 2 => format!("{d} {other}"), 3 => format!("{d}{other}"),
        4 => "1h30".into(), 5 => "1hour30min".into(), 6 => "h".into(), 7 => "hm".into(),
        8 => "1m1s".into(), 9 => "1d1h1m".into(), 10 => "abc".into(), 11 => format!("1..5 {}", c.time_names.first().map(|x| x.0.as_str()).unwrap_or("h")),
        12 => "1.2.3".into(), 13 => "1h2h".into(), 14 => "5 min 6".into(), _ => "soon".into(),
    }
}

fn time_cases(run: &mut Run, rng: &mut Rng, n_random: usize) {
    let nconv = run.convs.len();
    // 1. all H, M combinations of the compact format, all spellings
    for ci in 0..nconv {
        for &h in HM { for &m in HM { for zh in [0usize, 2] { for zm in [0usize, 1] {
            for (hh, mm) in [(Some((h, zh)), Some((m, zm))), (Some((h, zh)), None), (None, Some((m, zm)))] {
                if (hh.is_none() && zh > 0) || (mm.is_none() && zm > 0) { continue; }
                let (text, e) = hhmm_case(&run.convs[ci], hh, mm);
                run.time(ci, &ystr(text.clone()), &e, "hhmm");
                if ci < 2 && zh == 0 && zm == 0 { for k in ["time", "prep time"] { run.entry(ci, k, &ystr(text.clone()), false); run.entry(ci, k, &ystr(text.clone()), true); } }
            }
        } } } }
    }
    // 2. plain minutes: yaml numbers and digit strings
    for ci in 0..nconv {
        for &n in &[0u64, 1, 30, 90, 4294967294, 4294967295, 4294967296, 4294967297, 8589934592, 1 << 40, u64::MAX] {
            let e = Expect::exactly(if n <= u32::MAX as u64 { Some(n as u32) } else { None });
            run.time(ci, &ynum(n), &e, "number");
            run.time(ci, &ystr(n.to_string()), &e, "digits");
            run.time(ci, &ystr(format!("{n}.0")), &e, "decimal");
            run.time(ci, &ystr(format!("{n}.4")), &e, "decimal");
            run.entry(ci, "time", &ynum(n), false);
            run.entry(ci, "cook time", &ystr(n.to_string()), true);
        }
        // negative, non-finite and other non-numbers of minutes: nothing
        for s in ["-5", "-1", "-4294967296", "nan", "NaN", "inf", "-inf", "infinity", "+inf", "-90.5", "1e10", "1e400", "4294967295.5", "99999999999", "99999999999 h", "71582789h", "-1h", "-5 min"] {
            run.time(ci, &ystr(s), &Expect::exactly(None), "unrepresentable");
            run.entry(ci, "time", &ystr(s), false);
            run.entry(ci, "prep time", &ystr(s), true);
        }
        for v in [Value::Number((-5i64).into()), Value::Number((-1i64).into()), Value::Number(f64::NAN.into()), Value::Number(f64::INFINITY.into()), Value::Number((-2.5f64).into()), Value::Null, Value::Bool(true), Value::Sequence(vec![ynum(5)])] {
            run.time(ci, &v, &Expect::exactly(None), "unrepresentable");
            run.entry(ci, "time", &v, false);
        }
        // spellings the documentation does not commit to: anything but a wrong number
        for (s, n) in [("+5", 5u32), ("5.", 5), ("1e2", 100), ("1.5E1", 15), ("25e-1", 3), ("0.4", 0), ("-0", 0), ("-0.2", 0), ("+5h", 300), ("+1h+1m", 61)] {
            run.time(ci, &ystr(s), &Expect::OneOf(vec![None, Some(n)]), "loose");
            run.entry(ci, "time", &ystr(s), false);
        }
        for (v, n) in [(Value::Number(5.0f64.into()), 5u32), (Value::Number(90.0f64.into()), 90)] { run.time(ci, &v, &Expect::OneOf(vec![None, Some(n)]), "loose"); run.entry(ci, "time", &v, false); }
        // blank text: the repository's own test documents the empty sum
        for s in [" ", "  \t", "\u{a0}"] { run.time(ci, &ystr(s), &Expect::OneOf(vec![None, Some(0)]), "blank"); run.entry(ci, "time", &ystr(s), false); }
    }
    // 3. pairs: every unit name with values around the u32 range, then random pair lists
    for ci in 0..nconv {
        let names = run.convs[ci].time_names.clone();
        for (u, ms) in &names {
            let per_min_num = *ms; // unit = ms/60000 minutes
            // the value whose reading is exactly u32::MAX minutes (when integral) and neighbours
            let exact = (U32MAX * 60_000) / per_min_num;
            for x in [0u128, 1, exact.saturating_sub(1), exact, exact + 1, exact + 2, (U32MAX + 1) * 60_000 / per_min_num, 4294967295, 4294967296, 99_999_999_999] {
                for sep in ["", " ", "\t"] {
                    let text = format!("{x}{sep}{u}");
                    let mut allowed = minutes_of_ns(x * ms * 1_000_000);
                    if let Some(v) = compact_reading(&text) { let r = if v <= U32MAX { Some(v as u32) } else { None }; if !allowed.contains(&r) { allowed.push(r); } if allowed.iter().any(|r| r.is_some()) && allowed.len() > 1 { allowed.retain(|r| r.is_some()); } }
                    run.time(ci, &ystr(text.clone()), &Expect::OneOf(allowed), "pair-edge");
                    if sep == " " { run.entry(ci, "duration", &ystr(text), false); }
                }
            }
        }
    }
    let mut r2 = rng.fork(2);
    for i in 0..n_random {
        let ci = i % nconv;
        let key = *r2.pick(TIME_KEYS);
        match r2.below(10) {
            0..=4 => { let big = r2.chance(1, 3); if let Some((text, e)) = pairs_case(&mut r2, &run.convs[ci], big) { run.time(ci, &ystr(text.clone()), &e, "pairs"); if i % 4 == 0 { run.entry(ci, key, &ystr(text), i % 8 == 0); } }
                       else { let t = format!("{} min", gen_dec(&mut r2, false).text()); run.time(ci, &ystr(t.clone()), &Expect::exactly(None), "pairs-unreadable"); run.entry(ci, key, &ystr(t), false); } }
            5 => { let t = outside_forms(&mut r2, &run.convs[ci]); run.time(ci, &ystr(t.clone()), &Expect::exactly(None), "outside"); run.entry(ci, key, &ystr(t), r2.chance(1, 2)); }
            6 => { let h = r2.next() % 80_000_000; let m = r2.next() % 5000; let (t, e) = hhmm_case(&run.convs[ci], Some((h, r2.below(2))), Some((m, 0))); run.time(ci, &ystr(t.clone()), &e, "hhmm"); if i % 4 == 0 { run.entry(ci, key, &ystr(t), true); } }
            7 => { let d = gen_dec(&mut r2, true); let e = Expect::OneOf(minutes_of_ns(d.micro() * 60_000)); run.time(ci, &ystr(d.text()), &e, "decimal"); run.entry(ci, key, &ystr(d.text()), false); }
            8 => { // mapping form of `time`
                let p = r2.next() % 500; let c = r2.next() % 500;
                let mut m = serde_yaml::Mapping::new();
                let which = r2.below(6);
                if which != 1 { m.insert(ystr("prep"), if r2.chance(1, 2) { ynum(p) } else { ystr(format!("{p} min")) }); }
                if which != 0 { m.insert(ystr("cook"), if r2.chance(1, 2) { ynum(c) } else { ystr(format!("{c}m")) }); }
                if which == 5 { m.insert(ystr("cook"), ystr("soon")); }
                let v = Value::Mapping(m);
                run.time(ci, &v, &Expect::exactly(None), "mapping"); // as_minutes of a mapping is nothing
                run.entry(ci, "time", &v, false);
                // the mapping form belongs to `time` only: under `prep time` / `cook time` it is outside the documented forms
                let k2 = *r2.pick(&["prep time", "cook time", "prep_time", "cook_time"]);
                run.entry(ci, k2, &v, false);
            }
            _ => { // mapping with neither entry: outside the documented forms
                let mut m = serde_yaml::Mapping::new();
                match r2.below(3) { 0 => {}, 1 => { m.insert(ystr("prep_time"), ynum(10)); }, _ => { m.insert(ystr("total"), ystr("1h")); } }
                let v = Value::Mapping(m);
                run.time(ci, &v, &Expect::exactly(None), "mapping-empty");
                run.entry(ci, "time", &v, false);
            }
        }
    }
}

fn servings_cases(run: &mut Run, rng: &mut Rng, n_random: usize) {
    let suffixes = ["", " cups", " servings worth", "-ish", " (small)", ".5"];
    let edge: &[u64] = &[0, 1, 2, 4, 6, 12, 4294967295, 4294967296, 99999999999];
    for &n in edge {
        let e = Expect::exactly(if n <= u32::MAX as u64 { Some(vec![n as u32]) } else { None });
        run.servings(&ynum(n), &e, "number");
        run.servings(&ystr(n.to_string()), &e, "string");
        run.servings(&Value::Sequence(vec![ynum(n)]), &e, "list");
        run.entry(0, "servings", &ynum(n), false);
        run.entry(1, "yield", &ystr(format!("{n} cups")), true);
    }
    for v in [Value::Null, Value::Bool(true), Value::Number((-2i64).into()), ystr(""), ystr("cups"), ystr("a|b"), ystr("2||4"), Value::Sequence(vec![Value::Null]), Value::Sequence(vec![ynum(2), Value::Sequence(vec![])]), ystr("-2"), Value::Mapping(Default::default())] {
        run.servings(&v, &Expect::exactly(None), "outside");
        run.entry(0, "serves", &v, false);
    }
    for (v, l) in [(ystr("5cups"), vec![5u32]), (ystr("+5"), vec![5]), (Value::Sequence(vec![ystr(" 5")]), vec![5]), (Value::Number(2.0f64.into()), vec![2]), (ystr("2 | 4cups"), vec![2, 4])] {
        run.servings(&v, &Expect::OneOf(vec![None, Some(l)]), "loose");
        run.entry(0, "servings", &v, false);
    }
    run.servings(&Value::Sequence(vec![]), &Expect::OneOf(vec![None, Some(vec![])]), "loose");
    for i in 0..n_random {
        let len = 1 + rng.below(5);
        let mut ns: Vec<u64> = (0..len).map(|_| match rng.below(8) { 0 => *rng.pick(edge), 1 => 1 + rng.below(3) as u64, _ => 1 + rng.below(40) as u64 }).collect();
        if rng.chance(1, 5) && len > 1 { let j = rng.below(len - 1); ns[len - 1] = ns[j]; } // a duplicate
        let mut sorted = ns.clone(); sorted.sort_unstable(); sorted.dedup();
        let ok = sorted.len() == ns.len() && ns.iter().all(|&n| n <= u32::MAX as u64);
        let e = Expect::exactly(if ok { Some(ns.iter().map(|&n| n as u32).collect()) } else { None });
        let v = if rng.chance(1, 2) {
            // `|` separated text, blanks around the entries, text after the number
            let parts: Vec<String> = ns.iter().map(|n| format!("{}{}{}{}", if rng.chance(1, 3) { " " } else { "" }, n, rng.pick(&suffixes), if rng.chance(1, 3) { "  " } else { "" })).collect();
            ystr(parts.join("|"))
        } else {
            Value::Sequence(ns.iter().map(|&n| if rng.chance(1, 2) { ynum(n) } else { ystr(format!("{}{}", n, rng.pick(&suffixes))) }).collect())
        };
        run.servings(&v, &e, if ok { "valid" } else { "refused" });
        if i % 3 == 0 { run.entry(i % run.convs.len(), *rng.pick(&["servings", "serves", "yield"]), &v, matches!(v, Value::String(_)) && i % 2 == 0); }
    }
}

fn tags_cases(run: &mut Run, rng: &mut Rng, n_random: usize) {
    let words = ["vegan", "quick", "dessert", "gluten free", "2022", "été", "a", "B", "b", "日本", "low-carb"];
    for v in [Value::Null, Value::Bool(false), ynum(3), Value::Mapping(Default::default()), Value::Sequence(vec![Value::Null]), Value::Sequence(vec![ystr("a"), Value::Sequence(vec![])]), Value::Sequence(vec![Value::Bool(true)])] {
        run.tags(&v, &Expect::exactly(None), "outside");
        run.entry(0, "tags", &v, false);
    }
    for v in [ystr(""), ystr(",,"), ystr(" , "), Value::Sequence(vec![])] { run.tags(&v, &Expect::exactly(Some(vec![])), "empty"); run.entry(0, "tag", &v, false); }
    // quoted list entries with blanks around: the documentation does not say they are trimmed
    run.tags(&Value::Sequence(vec![ystr(" a "), ystr("a")]), &Expect::Silent, "loose");
    run.tags(&Value::Sequence(vec![Value::Number(1.5f64.into())]), &Expect::Silent, "loose");
    for i in 0..n_random {
        let len = rng.below(7);
        let ws: Vec<&str> = (0..len).map(|_| if rng.chance(1, 6) { "" } else { *rng.pick(&words) }).collect();
        let mut want: Vec<String> = vec![];
        for w in &ws { if !w.is_empty() && !want.iter().any(|x| x == w) { want.push(w.to_string()); } }
        let e = Expect::exactly(Some(want));
        let v = if rng.chance(1, 2) {
            let pads = ["", " ", "  ", "\t", "\u{a0}"];
            ystr(ws.iter().map(|w| format!("{}{}{}", rng.pick(&pads), w, rng.pick(&pads))).collect::<Vec<_>>().join(","))
        } else {
            Value::Sequence(ws.iter().map(|w| if *w == "2022" && rng.chance(1, 2) { ynum(2022) } else { ystr(*w) }).collect())
        };
        run.tags(&v, &e, "valid");
        if i % 3 == 0 { run.entry(i % run.convs.len(), *rng.pick(&["tags", "tag"]), &v, matches!(v, Value::String(_)) && i % 2 == 0); }
    }
}

fn nameurl_cases(run: &mut Run, rng: &mut Rng, n_random: usize) {
    let names = ["Rachel", "Rachel R. Peterson", "Rachel Peter-son", "Rachel`s Cookbook", "#rachel", "Rachel: Best recipes", "Élodie", "名前", "a>b"];
    let schemes = ["https", "http", "smb", "ftp", "Ünï", "x"];
    let hosts = ["rachel.url", "example.com:8080", "localhost", "éxample.org", "a"];
    let paths = ["", "/", "/recipes/1?x=<1>", "/a b", "/é", "/x>y"];
    let paths_plain = ["", "/", "/recipes/1", "/a b", "/é"];
    let t = |n: Option<&str>, u: Option<&str>| Expect::exactly(Some((n.map(str::to_string), u.map(str::to_string))));
    for v in [Value::Null, Value::Bool(true), Value::Sequence(vec![]), Value::Mapping(Default::default())] { run.nameurl(&v, &Expect::exactly(None), "outside"); run.entry(0, "author", &v, false); }
    // the repository's own examples of "everything is the name"
    for s in ["<#rach>el", "<>", "< >", "Rachel:// Peterson", "Rachel <https://two.rachel.url> <https://rachel.url>", "Rachel <<https://bad.rachel.url>", "https:// x", "://", "ht tp://x"] {
        run.nameurl(&ystr(s), &t(Some(s), None), "name-only"); run.entry(0, "source", &ystr(s), false);
    }
    for s in ["", "   "] { run.nameurl(&ystr(s), &t(None, None), "blank"); }
    run.nameurl(&ynum(42), &Expect::Silent, "loose");
    // `Name <x>` where x is not a URL: "if no url is found or it's invalid, everything will be the name"
    for s in ["Bob <not a url>", "Bob <bob@example.com>", "Bob <1>", "<www.example.com>", "Bob <http://>", "Bob <ht tp://x>", "Bob <http:// x>", "smb://a/recipes/1?x=<1>"] {
        let e = if s.starts_with("smb") { t(None, Some(s)) } else { t(Some(s), None) };
        run.nameurl(&ystr(s), &e, "angle-invalid-url"); run.entry(0, "author", &ystr(s), false);
    }
    for i in 0..n_random {
        let name = *rng.pick(&names);
        let inner = rng.chance(1, 2);
        let url = format!("{}://{}{}", rng.pick(&schemes), rng.pick(&hosts), if inner { *rng.pick(&paths_plain) } else { *rng.pick(&paths) });
        let lead = if rng.chance(1, 4) { "  " } else { "" };
        let trail = if rng.chance(1, 4) { " \t" } else { "" };
        let (v, e, fam) = match rng.below(6) {
            0 => (ystr(format!("{lead}{name} <{url}>{trail}")), t(Some(name), Some(&url)), "name-url"),
            1 => (ystr(format!("{lead}<{url}>{trail}")), t(None, Some(&url)), "angle-url"),
            2 if !url.contains(' ') || true => { // a bare URL: valid iff the host has no blank; `<`/`>` in the path are fine
                let s = format!("{lead}{url}");
                if lead.is_empty() { (ystr(s), t(None, Some(&url)), "url") } else { (ystr(s.clone()), t(Some(s.trim()), None), "name-only") } }
            3 => (ystr(format!("{lead}{name}{trail}")), t(Some(name), None), "name"),
            4 => { let mut m = serde_yaml::Mapping::new(); m.insert(ystr("name"), ystr(name)); if rng.chance(1, 2) { m.insert(ystr("url"), ystr(url.clone())); (Value::Mapping(m), t(Some(name), Some(&url)), "mapping") } else { (Value::Mapping(m), t(Some(name), None), "mapping") } }
            _ => { let mut m = serde_yaml::Mapping::new(); m.insert(ystr("url"), ystr(url.clone())); (Value::Mapping(m), t(None, Some(&url)), "mapping") }
        };
        // `Name <url with angle brackets>` is not one of the forms (the url may not contain `<`/`>`): silent
        let e = if (fam == "name-url" || fam == "angle-url") && (name.contains('>') || url.contains(['<', '>'])) { Expect::Silent } else { e };
        run.nameurl(&v, &e, fam);
        if i % 3 == 0 { run.entry(i % run.convs.len(), *rng.pick(&["author", "source"]), &v, matches!(v, Value::String(_)) && i % 2 == 0); }
    }
}

fn locale_cases(run: &mut Run, rng: &mut Rng, n_random: usize) {
    let letters: Vec<char> = ('a'..='z').chain('A'..='Z').collect();
    for s in ["", "e", "eng", "en-GB", "en_", "_GB", "en_GBR", "en_G", "en_GB_x", "e1", "en_G1", "éa", "en_É", "ｅｎ", "e n", " en", "en ", "en__GB", "é", "en_é"] {
        run.locale(&ystr(s), &Expect::exactly(None), "outside"); run.entry(0, "locale", &ystr(s), s == s.trim() && !s.is_empty());
        run.entry(0, "locale", &ystr(s), false);
    }
    for v in [Value::Null, ynum(12), Value::Sequence(vec![ystr("en")]), Value::Bool(true)] { run.locale(&v, &Expect::exactly(None), "outside"); run.entry(0, "locale", &v, false); }
    for i in 0..n_random {
        let l: String = (0..2).map(|_| *rng.pick(&letters)).collect();
        let c: String = (0..2).map(|_| *rng.pick(&letters)).collect();
        let (s, e) = if rng.chance(1, 2) { (l.clone(), Expect::exactly(Some((l, None)))) } else { (format!("{l}_{c}"), Expect::exactly(Some((l, Some(c))))) };
        run.locale(&ystr(s.clone()), &e, "valid");
        if i % 3 == 0 { run.entry(i % run.convs.len(), "locale", &ystr(s), i % 2 == 0); }
    }
}

/// other keys: title/description want a string; the free keys take anything; aliases map to the canonical names
fn key_cases(run: &mut Run) {
    for k in ["title", "description", "introduction", "tags", "tag", "author", "source", "servings", "serves", "yield", "course", "category", "locale", "time", "duration",
              "time required", "prep time", "prep_time", "cook time", "cook_time", "difficulty", "cuisine", "diet", "image", "images", "picture", "pictures",
              "Title", "tagz", "prep-time", "cooktime", "", " time", "time ", "yields", "name"] {
        let canon = StdKey::from_str(k).ok().map(|s| s.as_ref().to_string());
        run.ctx.case(format!("sm_canon {}", enc_text(k)), match &canon { Some(c) => enc_text(c), None => "nokey".into() }, canon.is_some(), format!("StdKey::from_str({k:?})"));
        if k.is_empty() { continue; }
        for v in [ystr("x"), ynum(3), Value::Null, Value::Bool(true), Value::Sequence(vec![ystr("a")]), Value::Sequence(vec![Value::Null]), Value::Mapping(Default::default()), ystr("en"), ystr("2|2")] {
            run.entry(0, k, &v, false);
            run.entry(1, k, &v, false);
        }
        run.entry(0, k, &ystr("x"), true);
        run.entry(0, k, &ystr("2|2"), true);
    }
}

/// `Metadata::time` over several entries: "the `time` key as_time; or, IF MISSING, the combination of prep time and cook
/// time" — a present but unreadable `time` gives nothing, it does not fall through to the other keys
fn time_precedence_cases(run: &mut Run, rng: &mut Rng, n: usize) {
    const TIME: &[&str] = &["", "1h", "90", "1h 30m", "soon", "1 hour 30", "2 fortnights", "-5", "[10, 20]", "{prep: 10 min}", "{}"];
    const PART: &[&str] = &["", "10 min", "5", "1h", "a while", "x", "-1"];
    for i in 0..n {
        let ci = i % run.convs.len();
        let (t, p, c) = (*rng.pick(TIME), *rng.pick(PART), *rng.pick(PART));
        let pk = *rng.pick(&["prep time", "prep_time"]); let ck = *rng.pick(&["cook time", "cook_time"]); let tk = *rng.pick(&["time", "duration", "time required"]);
        let mut lines = Vec::new();
        if !t.is_empty() { lines.push(format!("{tk}: {t}")); }
        if !p.is_empty() { lines.push(format!("{pk}: {p}")); }
        if !c.is_empty() { lines.push(format!("{ck}: {c}")); }
        if lines.is_empty() { continue; }
        rng.shuffle(&mut lines);
        let text = format!("---\n{}\n---\nstep\n", lines.join("\n"));
        let conv = &run.convs[ci];
        let input = format!("Metadata::time of {text:?} with the {} converter", conv.name);
        let r = guarded(|| conv.parser.parse(&text).output().map(|rec| {
            let m = &rec.metadata;
            (m.time(&conv.conv), m.get(StdKey::Time).map(|v| v.as_time(&conv.conv)), m.get(StdKey::PrepTime).and_then(|v| v.as_minutes(&conv.conv)), m.get(StdKey::CookTime).and_then(|v| v.as_minutes(&conv.conv)),
             m.map.clone(), render_meta_accessors(m, &conv.conv))
        }));
        let out = match r { Ok(x) => x, Err(p) => { run.panic(&input, p); continue; } };
        let Some((got, tv, pv, cv, map, m_all)) = out else { run.ctx.count("time-precedence:no-output"); continue; };
        // correspondence: `Metadata::time` (and the other accessors) over the whole mapping (Side/StdMetaMap.lean)
        run.metadata(ci, &map, m_all, "time-precedence", &input);
        run.ctx.eval("", got.is_some());
        let want = match tv { Some(t) => t, None => if pv.is_some() || cv.is_some() { Some(RecipeTime::Composed { prep_time: pv, cook_time: cv }) } else { None } };
        run.ctx.count(&format!("time-precedence:{}", match (&tv, &want) { (Some(None), _) => "time-unreadable", (Some(_), _) => "time-read", (None, Some(_)) => "composed", (None, None) => "nothing" }));
        if got != want { run.ctx.oracle_fail(input, format!("Metadata::time gives {got:?}; documented (time key if present, else prep/cook): {want:?}"), "c13:metadata-time-precedence".into()); }
    }
}

/// A `metadata_validator` that changes the options for ONE key (the documented use) must leave every other entry as it is
/// without a validator: same warnings, same stored values, same accessor results.
fn validator_isolation_cases(run: &mut Run, rng: &mut Rng, n: usize) {
    use cooklang::analysis::{CheckOptions, CheckResult, ParseOptions};
    const ENTRIES: &[&str] = &["servings: a few", "servings: 2|4", "time: quick", "time: 1h", "locale: english", "locale: en_GB", "tags: [a, b]", "tags: {x: 1}", "author: Ann <http://a.b>", "author: [1]", "prep time: 10 min", "cook time: soon", "title: T"];
    for i in 0..n {
        let conv = &run.convs[i % run.convs.len()];
        let special = *rng.pick(&["x-special: 1", "x-special: [a]", "image: raw"]);
        let skey = special.split(':').next().unwrap().to_string();
        let k = 1 + rng.below(4);
        let mut lines: Vec<String> = (0..k).map(|_| rng.pick(ENTRIES).to_string()).collect();
        // no duplicate keys (a YAML error otherwise)
        let mut seen = std::collections::HashSet::new(); lines.retain(|l| seen.insert(l.split(':').next().unwrap().to_string()));
        let pos = rng.below(lines.len() + 1);
        lines.insert(pos, special.to_string());
        let text = format!("---\n{}\n---\nstep\n", lines.join("\n"));
        let mode = rng.below(3);
        let input = format!("recipe {text:?} with a validator that for key {skey:?} only calls {} ({} converter)", ["run_std_checks(false)", "include(false)", "both"][mode], conv.name);
        let r = guarded(|| {
            let sk = skey.clone();
            let opts = ParseOptions { recipe_ref_check: None, metadata_validator: Some(Box::new(move |k: &Value, _v: &Value, o: &mut CheckOptions| { if k.as_str() == Some(sk.as_str()) { if mode != 1 { o.run_std_checks(false); } if mode != 0 { o.include(false); } } CheckResult::Ok })) };
            let with = conv.parser.parse_with_options(&text, opts);
            let plain = conv.parser.parse(&text);
            let img = |res: &cooklang::RecipeResult| -> (Vec<String>, Vec<String>) {
                let w: Vec<String> = res.report().iter().map(|d| d.message.to_string()).collect();
                let m: Vec<String> = res.output().map(|r| r.metadata.map.iter().filter(|(k, _)| k.as_str() != Some(skey.as_str())).map(|(k, v)| format!("{k:?}={v:?}")).collect()).unwrap_or_default();
                (w, m)
            };
            (img(&with), img(&plain))
        });
        let (with, plain) = match r { Ok(x) => x, Err(p) => { run.panic(&input, p); continue; } };
        run.ctx.eval("", true);
        run.ctx.count("validator-isolation");
        // the special key itself is not a standard key (or, for `image`, has no check): nothing about it may differ either way
        if with != plain { run.ctx.oracle_fail(input, format!("other entries are treated differently:\n with validator: {with:?}\n without: {plain:?}"), "c13:validator-isolation".into()); }
    }
}

/// malformed stream: random texts and mutated well-formed ones through every accessor (correspondence + coupling)
fn soup(run: &mut Run, rng: &mut Rng, n: usize) {
    let alphabet: Vec<char> = "0123456789.hm dsecinuty+-eEfaN_<>:/|,\t \u{a0}\u{2003}é日x".chars().collect();
    let seeds = ["1h30m", "1 hour 30 min", "90", "1.5 h", "2|4|6", "a, b, c", "Rachel <https://r.url>", "https://r.url/x", "en_GB", "4294967295", "71582788h15m", "1e3", "inf", "30 sec 30 sec"];
    let nconv = run.convs.len();
    for i in 0..n {
        let s: String = if i % 2 == 0 {
            let len = rng.below(10);
            (0..len).map(|_| *rng.pick(&alphabet)).collect()
        } else {
            let mut cs: Vec<char> = rng.pick(&seeds).chars().collect();
            for _ in 0..1 + rng.below(2) {
                let pos = rng.below(cs.len() + 1);
                match rng.below(3) { 0 if !cs.is_empty() => { cs.remove(pos.min(cs.len() - 1)); } 1 => cs.insert(pos, *rng.pick(&alphabet)), _ if !cs.is_empty() => { let p = pos.min(cs.len() - 1); cs[p] = *rng.pick(&alphabet); } _ => {} }
            }
            cs.into_iter().collect()
        };
        if huge_exp(&s) { run.ctx.count("soup:skipped-huge-exponent"); continue; }
        let v = ystr(s.clone());
        let ci = i % nconv;
        run.syntax(&s);
        run.time(ci, &v, &Expect::Silent, "soup");
        run.servings(&v, &Expect::Silent, "soup");
        run.tags(&v, &Expect::Silent, "soup");
        run.nameurl(&v, &Expect::Silent, "soup");
        run.locale(&v, &Expect::Silent, "soup");
        let key = *rng.pick(&["time", "prep time", "servings", "tags", "author", "locale", "title"]);
        run.entry(ci, key, &v, i % 3 == 0);
        if i % 5 == 0 {
            let l = Value::Sequence(vec![v.clone(), ynum(rng.next() % 10), ystr(*rng.pick(&seeds))]);
            run.servings(&l, &Expect::Silent, "soup"); run.tags(&l, &Expect::Silent, "soup"); run.time(ci, &l, &Expect::exactly(None), "soup");
            run.entry(ci, key, &l, false);
        }
    }
    for s in ["1e5", "1E+5", "1e-5", "1e", "e5", ".5", "5.", ".", "+.5e1", "-.e1", "1_000", "0x10", "infinity", "INFINITY", "iNf", "nAn", "+nan", "-nan", "infinit", "in", "1e99999", "1e-99999", "+", "-", "++1", "+-1", " 1", "1 ", "١", "1٫5"] { run.syntax(s); }
}

// ---------------------------------------------------------------------------------------------
// corpus: conv <TAB> key <TAB> yaml value <TAB> none|some:<n>|nu:<name or ~>|<url or ~>|any     (run first)
// ---------------------------------------------------------------------------------------------

fn corpus(run: &mut Run) {
    let dir = std::path::Path::new("corpus/C13");
    let Ok(rd) = std::fs::read_dir(dir) else { run.ctx.notes.push("corpus/C13 not found".into()); return; };
    let mut files: Vec<_> = rd.filter_map(|e| e.ok()).map(|e| e.path()).collect();
    files.sort();
    for f in files {
        let Ok(text) = std::fs::read_to_string(&f) else { continue };
        for line in text.lines() {
            if line.starts_with('#') || line.trim().is_empty() { continue; }
            let p: Vec<&str> = line.split('\t').collect();
            if p.len() != 4 { run.ctx.notes.push(format!("bad corpus line in {f:?}: {line}")); continue; }
            let Some(ci) = run.convs.iter().position(|c| c.name == p[0]) else { continue };
            let Ok(v) = serde_yaml::from_str::<Value>(p[2]) else { continue };
            let e = match p[3] { "none" => Expect::exactly(None), "any" => Expect::Silent, s => match s.strip_prefix("some:").and_then(|n| n.parse::<u32>().ok()) { Some(n) => Expect::exactly(Some(n)), None => Expect::Silent } };
            run.ctx.count("corpus");
            match StdKey::from_str(p[1]).ok() {
                Some(StdKey::Time) | Some(StdKey::PrepTime) | Some(StdKey::CookTime) => run.time(ci, &v, &e, "corpus"),
                Some(StdKey::Servings) => run.servings(&v, &Expect::Silent, "corpus"),
                Some(StdKey::Tags) => run.tags(&v, &Expect::Silent, "corpus"),
                Some(StdKey::Author) | Some(StdKey::Source) => {
                    let e = match p[3].strip_prefix("nu:").and_then(|x| x.split_once('|')) {
                        Some((n, u)) => { let o = |x: &str| if x == "~" { None } else { Some(x.to_string()) }; Expect::exactly(Some((o(n), o(u)))) }
                        None => Expect::Silent };
                    run.nameurl(&v, &e, "corpus") }
                Some(StdKey::Locale) => run.locale(&v, &Expect::Silent, "corpus"),
                _ => {}
            }
            run.entry(ci, p[1], &v, false);
            if let Value::String(_) = v { run.entry(ci, p[1], &v, true); }
        }
    }
}

pub fn run(ctx: &mut Ctx) {
    ctx.rule = "values printed from structures (H/M of the compact format over {0,1,59,60,71582788,71582789,2^32-1,2^32} in all spellings; number-unit pair \
lists over every time unit name of the converter with values around the u32 range; decimal, negative, non-finite, exponent and blank spellings; yaml numbers, \
lists, mappings; servings lists with duplicates and overflow; tag lists; name/url forms; locales) under five converters (bundled, empty, renamed units, \
hour-based ratios, one without a minute), plus a malformed stream of random and mutated texts; every value also through the real parser as front matter or \
`>>` entry; non-trivial = the accessor returned something; distinct = distinct request lines".into();
    let convs = converters();
    // the hypotheses of the time theorems, checked on the converters actually used
    for c in &convs {
        let bad: Vec<String> = c.conv.all_units().filter(|u| u.physical_quantity == PhysicalQuantity::Time && (u.ratio == 0.0 || u.difference != 0.0 || !u.ratio.is_finite())).map(|u| u.symbol().to_string()).collect();
        if bad.is_empty() { ctx.count("converter:time-units-linear-nonzero"); } else { ctx.notes.push(format!("converter {}: time units with zero ratio or an offset: {bad:?} (outside the hypotheses of the time theorems)", c.name)); }
    }
    let seed = ctx.seed;
    let thorough = ctx.thorough;
    let mut run = Run { ctx, convs: &convs };
    corpus(&mut run);
    let mut rng = Rng::new(seed ^ 0xC13);
    let k = if thorough { 200 } else { 4 };
    key_cases(&mut run);
    time_cases(&mut run, &mut rng.fork(1), 6000 * k);
    servings_cases(&mut run, &mut rng.fork(2), 1500 * k);
    tags_cases(&mut run, &mut rng.fork(3), 1500 * k);
    nameurl_cases(&mut run, &mut rng.fork(4), 1500 * k);
    locale_cases(&mut run, &mut rng.fork(5), 600 * k);
    time_precedence_cases(&mut run, &mut rng.fork(7), 1500 * k);
    validator_isolation_cases(&mut run, &mut rng.fork(8), 300 * k);
    soup(&mut run, &mut rng.fork(6), 2500 * k);
    crate::fm::family(run.ctx, 0xC13);
}
